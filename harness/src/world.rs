//! WORLD scenario: one bit reader and one bit writer of the real crate, driven through
//! object-safe wrappers so that every (endianness x word x backend x wrapper) combination
//! is reachable from the case header.
use crate::{a, Group, ST_ERR, ST_OK, ST_PANIC};
use common_traits::*;
use dsi_bitstream::prelude::*;
use std::cell::{RefCell, UnsafeCell};
use std::io::Cursor;
use std::marker::PhantomData;
use std::panic::{catch_unwind, AssertUnwindSafe};
use std::rc::Rc;

#[derive(Debug)]
pub struct HErr;
impl std::fmt::Display for HErr {
    fn fmt(&self, f: &mut std::fmt::Formatter<'_>) -> std::fmt::Result {
        write!(f, "harness error")
    }
}
impl std::error::Error for HErr {}

pub type R<T> = Result<T, ()>;
fn e<T, X>(r: Result<T, X>) -> R<T> {
    r.map_err(|_| ())
}

// ------------------------------------------------------------------ object-safe views
pub trait ObjW {
    fn write_bits(&mut self, v: u64, n: usize) -> R<usize>;
    fn write_unary(&mut self, v: u64) -> R<usize>;
    fn flush(&mut self) -> R<usize>;
    fn code(&mut self, id: u128, p: u128, fl: u128, v: u64) -> R<usize>;
    fn io_write(&mut self, buf: &[u8]) -> R<usize>;
    fn copy_from(&mut self, r: &mut dyn ObjR, n: u64) -> R<()>;
    fn count(&self) -> usize;
    /// consume the writer: kind 1 = into_inner where the type has one, otherwise drop; false = it reported an error
    fn finish(self: Box<Self>, kind: u128) -> bool;
}

pub trait ObjR {
    fn read_bits(&mut self, n: usize) -> R<u64>;
    fn read_unary(&mut self) -> R<u64>;
    fn skip_bits(&mut self, n: usize) -> R<()>;
    fn peek_bits(&mut self, n: usize) -> R<u64>;
    fn skip_bits_after_peek(&mut self, n: usize);
    fn code(&mut self, id: u128, p: u128, fl: u128) -> R<u64>;
    fn io_read(&mut self, len: usize) -> R<Vec<u8>>;
    fn bit_pos(&mut self) -> R<u64>;
    fn set_bit_pos(&mut self, p: u64) -> R<()>;
    fn copy_to(&mut self, w: &mut dyn ObjW, n: u64) -> R<()>;
    fn clone_box(&self) -> Option<Box<dyn ObjR>>;
    fn count(&self) -> usize;
}

/// a `dyn ObjR` seen as a BitRead of any endianness (the harness keeps endiannesses equal)
pub struct DynR<'a>(pub &'a mut dyn ObjR);
impl<'a, E: Endianness> BitRead<E> for DynR<'a> {
    type Error = HErr;
    type PeekWord = u64;
    fn read_bits(&mut self, n: usize) -> Result<u64, HErr> {
        self.0.read_bits(n).map_err(|_| HErr)
    }
    fn peek_bits(&mut self, n: usize) -> Result<u64, HErr> {
        self.0.peek_bits(n).map_err(|_| HErr)
    }
    fn skip_bits(&mut self, n: usize) -> Result<(), HErr> {
        self.0.skip_bits(n).map_err(|_| HErr)
    }
    fn skip_bits_after_peek(&mut self, n: usize) {
        self.0.skip_bits_after_peek(n)
    }
    fn read_unary(&mut self) -> Result<u64, HErr> {
        self.0.read_unary().map_err(|_| HErr)
    }
}
pub struct DynW<'a>(pub &'a mut dyn ObjW);
impl<'a, E: Endianness> BitWrite<E> for DynW<'a> {
    type Error = HErr;
    fn write_bits(&mut self, v: u64, n: usize) -> Result<usize, HErr> {
        self.0.write_bits(v, n).map_err(|_| HErr)
    }
    fn write_unary(&mut self, v: u64) -> Result<usize, HErr> {
        self.0.write_unary(v).map_err(|_| HErr)
    }
    fn flush(&mut self) -> Result<usize, HErr> {
        self.0.flush().map_err(|_| HErr)
    }
}

// ------------------------------------------------------------------ extras per concrete type
pub trait WExtra {
    fn x_io_write(&mut self, _buf: &[u8]) -> Option<std::io::Result<usize>> {
        None
    }
    fn x_count(&self) -> usize {
        0
    }
    /// consume the writer through its own `into_inner` (None: the type has none, it is just dropped)
    fn x_finish(self) -> Option<bool>
    where
        Self: Sized,
    {
        None
    }
}
pub trait RExtra: Sized {
    fn x_clone(&self) -> Option<Self> {
        None
    }
    fn x_io_read(&mut self, _buf: &mut [u8]) -> Option<std::io::Result<usize>> {
        None
    }
    fn x_count(&self) -> usize {
        0
    }
}

macro_rules! wextra_buf {
    ($E:ty) => {
        impl<WW: WordWrite> WExtra for BufBitWriter<$E, WW>
        where
            u64: CastableInto<WW::Word>,
        {
            fn x_io_write(&mut self, buf: &[u8]) -> Option<std::io::Result<usize>> {
                Some(std::io::Write::write(self, buf))
            }
            fn x_finish(self) -> Option<bool> {
                Some(self.into_inner().is_ok())
            }
        }
    };
}
wextra_buf!(BE);
wextra_buf!(LE);
impl<E: Endianness, BW: BitWrite<E>> WExtra for CountBitWriter<E, BW> {
    fn x_count(&self) -> usize {
        self.bits_written
    }
}

macro_rules! rextra_buf {
    ($E:ty) => {
        impl<WR: WordRead + MaybeClone> RExtra for BufBitReader<$E, WR>
        where
            WR::Word: DoubleType + UpcastableInto<u64>,
            <WR::Word as DoubleType>::DoubleType: CastableInto<u64>,
        {
            fn x_clone(&self) -> Option<Self> {
                // SAFETY-free trick: Clone is only available when WR: Clone
                WR::maybe_clone_reader(self)
            }
            fn x_io_read(&mut self, buf: &mut [u8]) -> Option<std::io::Result<usize>> {
                Some(std::io::Read::read(self, buf))
            }
        }
        impl<WR: WordRead<Word = u64, Error = X> + WordSeek<Error = X> + MaybeCloneU, X: std::error::Error + Send + Sync + 'static>
            RExtra for BitReader<$E, WR>
        {
            fn x_clone(&self) -> Option<Self> {
                WR::maybe_clone_ureader(self)
            }
            fn x_io_read(&mut self, buf: &mut [u8]) -> Option<std::io::Result<usize>> {
                Some(std::io::Read::read(self, buf))
            }
        }
    };
}

/// cloning support, decided per word backend
pub trait MaybeClone: WordRead + Sized
where
    Self::Word: DoubleType,
{
    fn maybe_clone_reader<E: Endianness>(r: &BufBitReader<E, Self>) -> Option<BufBitReader<E, Self>>;
}
pub trait MaybeCloneU: Sized {
    fn maybe_clone_ureader<E: Endianness>(r: &BitReader<E, Self>) -> Option<BitReader<E, Self>>;
}
impl<W: Word + DoubleType, const INF: bool> MaybeClone for MemWordReader<W, Vec<W>, INF>
where
    MemWordReader<W, Vec<W>, INF>: WordRead<Word = W>,
{
    fn maybe_clone_reader<E: Endianness>(r: &BufBitReader<E, Self>) -> Option<BufBitReader<E, Self>> {
        Some(r.clone())
    }
}
impl<W: Word + DoubleType> MaybeClone for WordAdapter<W, Cursor<Vec<u8>>> {
    fn maybe_clone_reader<E: Endianness>(r: &BufBitReader<E, Self>) -> Option<BufBitReader<E, Self>> {
        Some(r.clone())
    }
}
impl<W: Word + DoubleType> MaybeClone for MemWordWriterVec<W, Vec<W>> {
    fn maybe_clone_reader<E: Endianness>(_r: &BufBitReader<E, Self>) -> Option<BufBitReader<E, Self>> {
        None
    }
}
impl<const INF: bool> MaybeCloneU for MemWordReader<u64, Vec<u64>, INF> {
    fn maybe_clone_ureader<E: Endianness>(r: &BitReader<E, Self>) -> Option<BitReader<E, Self>> {
        Some(r.clone())
    }
}
impl MaybeCloneU for WordAdapter<u64, Cursor<Vec<u8>>> {
    fn maybe_clone_ureader<E: Endianness>(r: &BitReader<E, Self>) -> Option<BitReader<E, Self>> {
        Some(r.clone())
    }
}
impl MaybeCloneU for MemWordWriterVec<u64, Vec<u64>> {
    fn maybe_clone_ureader<E: Endianness>(_r: &BitReader<E, Self>) -> Option<BitReader<E, Self>> {
        None
    }
}
rextra_buf!(BE);
rextra_buf!(LE);

impl<E: Endianness, BR: BitRead<E> + RExtra> RExtra for CountBitReader<E, BR> {
    fn x_clone(&self) -> Option<Self> {
        // CountBitReader derives Clone when BR: Clone; rebuild it from the inner clone instead
        None
    }
    fn x_count(&self) -> usize {
        self.bits_read
    }
}

// ------------------------------------------------------------------ tracing wrappers (utils/dbg_codes.rs)
impl<E: Endianness, W: BitWrite<E>> WExtra for DbgBitWriter<E, W> {}

/// DbgBitReader has no BitSeek: give it one that always fails, so that it fits the object view
pub struct NoSeek<T>(pub T);
#[derive(Debug)]
pub struct NoSeekErr;
impl std::fmt::Display for NoSeekErr {
    fn fmt(&self, f: &mut std::fmt::Formatter<'_>) -> std::fmt::Result {
        write!(f, "not seekable")
    }
}
impl std::error::Error for NoSeekErr {}
impl<T> BitSeek for NoSeek<T> {
    type Error = NoSeekErr;
    fn bit_pos(&mut self) -> Result<u64, NoSeekErr> {
        Err(NoSeekErr)
    }
    fn set_bit_pos(&mut self, _p: u64) -> Result<(), NoSeekErr> {
        Err(NoSeekErr)
    }
}
impl<E: Endianness, T: BitRead<E>> BitRead<E> for NoSeek<T> {
    type Error = T::Error;
    type PeekWord = T::PeekWord;
    fn read_bits(&mut self, n: usize) -> Result<u64, Self::Error> {
        self.0.read_bits(n)
    }
    fn peek_bits(&mut self, n: usize) -> Result<Self::PeekWord, Self::Error> {
        self.0.peek_bits(n)
    }
    fn skip_bits(&mut self, n: usize) -> Result<(), Self::Error> {
        self.0.skip_bits(n)
    }
    fn skip_bits_after_peek(&mut self, n: usize) {
        self.0.skip_bits_after_peek(n)
    }
    fn read_unary(&mut self) -> Result<u64, Self::Error> {
        self.0.read_unary()
    }
}
impl<E: Endianness, T: GammaRead<E>> GammaRead<E> for NoSeek<T> {
    fn read_gamma(&mut self) -> Result<u64, Self::Error> {
        self.0.read_gamma()
    }
}
impl<E: Endianness, T: DeltaRead<E>> DeltaRead<E> for NoSeek<T> {
    fn read_delta(&mut self) -> Result<u64, Self::Error> {
        self.0.read_delta()
    }
}
impl<E: Endianness, T: ZetaRead<E>> ZetaRead<E> for NoSeek<T> {
    fn read_zeta(&mut self, k: usize) -> Result<u64, Self::Error> {
        self.0.read_zeta(k)
    }
    fn read_zeta3(&mut self) -> Result<u64, Self::Error> {
        self.0.read_zeta3()
    }
}
impl<T> RExtra for NoSeek<T> {}

// ------------------------------------------------------------------ generic object impls
pub struct WObj<E, T> {
    pub w: T,
    _m: PhantomData<E>,
}
pub struct RObj<E, T> {
    pub r: T,
    _m: PhantomData<E>,
}

macro_rules! tbl2 {
    ($fl:expr, $f:ident, $recv:expr $(, $arg:expr)*) => {
        match $fl & 3 {
            0 => $recv.$f::<false, false>($($arg),*),
            1 => $recv.$f::<true, false>($($arg),*),
            2 => $recv.$f::<false, true>($($arg),*),
            _ => $recv.$f::<true, true>($($arg),*),
        }
    };
}
macro_rules! tbl1 {
    ($fl:expr, $f:ident, $recv:expr $(, $arg:expr)*) => {
        if $fl & 1 == 0 { $recv.$f::<false>($($arg),*) } else { $recv.$f::<true>($($arg),*) }
    };
}

impl<E: Endianness, T: CodesWrite<E> + GammaWriteParam<E> + DeltaWriteParam<E> + ZetaWriteParam<E> + WExtra> ObjW for WObj<E, T> {
    fn write_bits(&mut self, v: u64, n: usize) -> R<usize> {
        e(self.w.write_bits(v, n))
    }
    fn write_unary(&mut self, v: u64) -> R<usize> {
        e(self.w.write_unary(v))
    }
    fn flush(&mut self) -> R<usize> {
        e(BitWrite::flush(&mut self.w))
    }
    fn code(&mut self, id: u128, p: u128, fl: u128, v: u64) -> R<usize> {
        let w = &mut self.w;
        let dflt = fl == 4;
        match id {
            0 => e(w.write_unary(v)),
            1 => {
                if dflt {
                    e(w.write_gamma(v))
                } else {
                    e(tbl1!(fl, write_gamma_param, w, v))
                }
            }
            2 => {
                if dflt {
                    e(w.write_delta(v))
                } else {
                    e(tbl2!(fl, write_delta_param, w, v))
                }
            }
            3 => e(w.write_omega(v)),
            4 => e(w.write_vbyte_be(v)),
            5 => e(w.write_vbyte_le(v)),
            6 => {
                if dflt {
                    e(w.write_zeta(v, p as usize))
                } else {
                    e(tbl1!(fl, write_zeta_param, w, v, p as usize))
                }
            }
            7 => e(w.write_pi(v, p as usize)),
            8 => e(w.write_golomb(v, p as u64)),
            9 => e(w.write_exp_golomb(v, p as usize)),
            10 => e(w.write_rice(v, p as usize)),
            11 => e(w.write_minimal_binary(v, p as u64)),
            12 => {
                if dflt {
                    e(w.write_zeta3(v))
                } else {
                    e(tbl1!(fl, write_zeta3_param, w, v))
                }
            }
            _ => panic!("bad code id"),
        }
    }
    fn io_write(&mut self, buf: &[u8]) -> R<usize> {
        match self.w.x_io_write(buf) {
            Some(r) => e(r),
            None => panic!("io::Write not available on this writer"),
        }
    }
    fn copy_from(&mut self, r: &mut dyn ObjR, n: u64) -> R<()> {
        let mut d = DynR(r);
        e(self.w.copy_from::<E, DynR>(&mut d, n))
    }
    fn count(&self) -> usize {
        self.w.x_count()
    }
    fn finish(self: Box<Self>, kind: u128) -> bool {
        let me = *self;
        if kind == 1 {
            me.w.x_finish().unwrap_or(true)
        } else {
            drop(me);
            true
        }
    }
}

impl<E: Endianness, T: CodesRead<E> + BitSeek + RExtra + 'static> ObjR for RObj<E, T> {
    fn read_bits(&mut self, n: usize) -> R<u64> {
        e(self.r.read_bits(n))
    }
    fn read_unary(&mut self) -> R<u64> {
        e(self.r.read_unary())
    }
    fn skip_bits(&mut self, n: usize) -> R<()> {
        e(self.r.skip_bits(n))
    }
    fn peek_bits(&mut self, n: usize) -> R<u64> {
        e(self.r.peek_bits(n).map(|x| x.cast()))
    }
    fn skip_bits_after_peek(&mut self, n: usize) {
        self.r.skip_bits_after_peek(n)
    }
    fn code(&mut self, id: u128, p: u128, fl: u128) -> R<u64> {
        let r = &mut self.r;
        let dflt = fl == 4;
        match id {
            0 => e(r.read_unary()),
            1 => {
                if dflt {
                    e(r.read_gamma())
                } else {
                    e(tbl1!(fl, read_gamma_param, r))
                }
            }
            2 => {
                if dflt {
                    e(r.read_delta())
                } else {
                    e(tbl2!(fl, read_delta_param, r))
                }
            }
            3 => e(r.read_omega()),
            4 => e(r.read_vbyte_be()),
            5 => e(r.read_vbyte_le()),
            6 => {
                if dflt {
                    e(r.read_zeta(p as usize))
                } else {
                    e(r.read_zeta_param(p as usize))
                }
            }
            7 => e(r.read_pi(p as usize)),
            8 => e(r.read_golomb(p as u64)),
            9 => e(r.read_exp_golomb(p as usize)),
            10 => e(r.read_rice(p as usize)),
            11 => e(r.read_minimal_binary(p as u64)),
            12 => {
                if dflt {
                    e(r.read_zeta3())
                } else {
                    e(tbl1!(fl, read_zeta3_param, r))
                }
            }
            _ => panic!("bad code id"),
        }
    }
    fn io_read(&mut self, len: usize) -> R<Vec<u8>> {
        let mut buf = vec![0u8; len];
        match self.r.x_io_read(&mut buf) {
            Some(Ok(k)) => {
                assert_eq!(k, len, "io::Read::read returned a short count");
                Ok(buf)
            }
            Some(Err(_)) => Err(()),
            None => panic!("io::Read not available on this reader"),
        }
    }
    fn bit_pos(&mut self) -> R<u64> {
        e(self.r.bit_pos())
    }
    fn set_bit_pos(&mut self, p: u64) -> R<()> {
        e(self.r.set_bit_pos(p))
    }
    fn copy_to(&mut self, w: &mut dyn ObjW, n: u64) -> R<()> {
        let mut d = DynW(w);
        e(self.r.copy_to::<E, DynW>(&mut d, n))
    }
    fn clone_box(&self) -> Option<Box<dyn ObjR>> {
        self.r.x_clone().map(|r| Box::new(RObj::<E, T> { r, _m: PhantomData }) as Box<dyn ObjR>)
    }
    fn count(&self) -> usize {
        self.r.x_count()
    }
}

// ------------------------------------------------------------------ backends
pub struct SharedVec<W>(pub Rc<UnsafeCell<Vec<W>>>);
impl<W> AsRef<Vec<W>> for SharedVec<W> {
    fn as_ref(&self) -> &Vec<W> {
        unsafe { &*self.0.get() }
    }
}
impl<W> AsMut<Vec<W>> for SharedVec<W> {
    fn as_mut(&mut self) -> &mut Vec<W> {
        unsafe { &mut *self.0.get() }
    }
}
pub struct SharedSlice<W>(pub Rc<UnsafeCell<Vec<W>>>);
impl<W> AsRef<[W]> for SharedSlice<W> {
    fn as_ref(&self) -> &[W] {
        unsafe { &*self.0.get() }
    }
}
impl<W> AsMut<[W]> for SharedSlice<W> {
    fn as_mut(&mut self) -> &mut [W] {
        unsafe { &mut *self.0.get() }
    }
}
#[derive(Clone)]
pub struct SharedBytes(pub Rc<RefCell<Vec<u8>>>);
impl std::io::Write for SharedBytes {
    fn write(&mut self, buf: &[u8]) -> std::io::Result<usize> {
        self.0.borrow_mut().extend_from_slice(buf);
        Ok(buf.len())
    }
    fn flush(&mut self) -> std::io::Result<()> {
        Ok(())
    }
}
/// a sink that stages what it is given and hands it to the destination only when it is itself flushed
/// (a BufWriter-like object): makes the propagation of flush() through the writer and the adapter observable
pub struct StagedBytes {
    staged: Vec<u8>,
    committed: Rc<RefCell<Vec<u8>>>,
}
impl std::io::Write for StagedBytes {
    fn write(&mut self, buf: &[u8]) -> std::io::Result<usize> {
        self.staged.extend_from_slice(buf);
        Ok(buf.len())
    }
    fn flush(&mut self) -> std::io::Result<()> {
        self.committed.borrow_mut().extend(self.staged.drain(..));
        Ok(())
    }
}
pub struct RecWriter<W> {
    log: Rc<RefCell<Vec<u8>>>,
    _m: PhantomData<W>,
}
impl<W: Word> WordWrite for RecWriter<W> {
    type Error = std::convert::Infallible;
    type Word = W;
    fn write_word(&mut self, word: W) -> Result<(), Self::Error> {
        self.log.borrow_mut().extend_from_slice(word.to_ne_bytes().as_ref());
        Ok(())
    }
    fn flush(&mut self) -> Result<(), Self::Error> {
        Ok(())
    }
}

fn words_to_bytes<W: Word>(ws: &[W]) -> Vec<u8> {
    let mut v = Vec::with_capacity(ws.len() * W::BYTES);
    for w in ws {
        v.extend_from_slice(w.to_ne_bytes().as_ref());
    }
    v
}
fn bytes_to_words<W: Word>(bytes: &[u8]) -> Vec<W> {
    let mut padded = bytes.to_vec();
    while padded.len() % W::BYTES != 0 {
        padded.push(0);
    }
    padded
        .chunks_exact(W::BYTES)
        .map(|c| {
            let mut b: W::Bytes = Default::default();
            b.as_mut().copy_from_slice(c);
            W::from_ne_bytes(b)
        })
        .collect()
}

/// how to observe the bytes delivered so far; None = not observable (fixed slice: only the
/// whole slice can be seen)
pub type Observer = Box<dyn Fn() -> (Vec<u8>, bool)>;

macro_rules! mk_writer_e {
    ($E:ty, $W:ty, $backend:expr, $cap:expr, $count:expr) => {{
        match $backend {
            0 => {
                let store = Rc::new(UnsafeCell::new(Vec::<$W>::new()));
                let s2 = store.clone();
                let obs: Observer = Box::new(move || (words_to_bytes::<$W>(unsafe { &*s2.get() }), true));
                let bw = BufBitWriter::<$E, _>::new(MemWordWriterVec::new(SharedVec(store)));
                wrap_w!($E, bw, $count, obs)
            }
            1 => {
                let store = Rc::new(UnsafeCell::new(vec![0 as $W; $cap]));
                let s2 = store.clone();
                let obs: Observer = Box::new(move || (words_to_bytes::<$W>(unsafe { &*s2.get() }), false));
                let bw = BufBitWriter::<$E, _>::new(MemWordWriterSlice::new(SharedSlice(store)));
                wrap_w!($E, bw, $count, obs)
            }
            2 => {
                let store = Rc::new(RefCell::new(Vec::<u8>::new()));
                let s2 = store.clone();
                let obs: Observer = Box::new(move || (s2.borrow().clone(), true));
                let bw = BufBitWriter::<$E, _>::new(WordAdapter::<$W, _>::new(SharedBytes(store)));
                wrap_w!($E, bw, $count, obs)
            }
            4 => {
                let store = Rc::new(RefCell::new(Vec::<u8>::new()));
                let s2 = store.clone();
                let obs: Observer = Box::new(move || (s2.borrow().clone(), true));
                let bw = BufBitWriter::<$E, _>::new(WordAdapter::<$W, _>::new(StagedBytes { staged: Vec::new(), committed: store }));
                wrap_w!($E, bw, $count, obs)
            }
            _ => {
                let store = Rc::new(RefCell::new(Vec::<u8>::new()));
                let s2 = store.clone();
                let obs: Observer = Box::new(move || (s2.borrow().clone(), true));
                let bw = BufBitWriter::<$E, _>::new(RecWriter::<$W> { log: store, _m: PhantomData });
                wrap_w!($E, bw, $count, obs)
            }
        }
    }};
}
macro_rules! wrap_w {
    ($E:ty, $bw:expr, $count:expr, $obs:expr) => {{
        if $count == 2 {
            (Box::new(WObj::<$E, _> { w: DbgBitWriter::<$E, _>::new($bw), _m: PhantomData }) as Box<dyn ObjW>, $obs)
        } else if $count == 1 {
            (Box::new(WObj::<$E, _> { w: CountBitWriter::<$E, _>::new($bw), _m: PhantomData }) as Box<dyn ObjW>, $obs)
        } else {
            (Box::new(WObj::<$E, _> { w: $bw, _m: PhantomData }) as Box<dyn ObjW>, $obs)
        }
    }};
}
macro_rules! mk_writer {
    ($E:ty, $wbits:expr, $backend:expr, $cap:expr, $count:expr) => {
        match $wbits {
            8 => mk_writer_e!($E, u8, $backend, $cap, $count),
            16 => mk_writer_e!($E, u16, $backend, $cap, $count),
            32 => mk_writer_e!($E, u32, $backend, $cap, $count),
            64 => mk_writer_e!($E, u64, $backend, $cap, $count),
            128 => mk_writer_e!($E, u128, $backend, $cap, $count),
            _ => panic!("bad writer word"),
        }
    };
}

pub fn make_writer(le: bool, wbits: u128, backend: u128, cap: usize, count: u128) -> (Box<dyn ObjW>, Observer) {
    if le {
        mk_writer!(LE, wbits, backend, cap, count)
    } else {
        mk_writer!(BE, wbits, backend, cap, count)
    }
}

macro_rules! wrap_r {
    ($E:ty, $br:expr, $count:expr) => {{
        if $count == 2 {
            Box::new(RObj::<$E, _> { r: NoSeek(DbgBitReader::<$E, _>::new($br)), _m: PhantomData }) as Box<dyn ObjR>
        } else if $count == 1 {
            Box::new(RObj::<$E, _> { r: CountBitReader::<$E, _>::new($br), _m: PhantomData }) as Box<dyn ObjR>
        } else {
            Box::new(RObj::<$E, _> { r: $br, _m: PhantomData }) as Box<dyn ObjR>
        }
    }};
}
macro_rules! mk_reader_e {
    ($E:ty, $W:ty, $backend:expr, $strict:expr, $count:expr, $data:expr) => {{
        match ($backend, $strict) {
            (0, false) => wrap_r!($E, BufBitReader::<$E, _>::new(MemWordReader::new(bytes_to_words::<$W>($data))), $count),
            (0, true) => wrap_r!($E, BufBitReader::<$E, _>::new(MemWordReader::new_strict(bytes_to_words::<$W>($data))), $count),
            (2, _) => wrap_r!($E, BufBitReader::<$E, _>::new(MemWordWriterVec::new(bytes_to_words::<$W>($data))), $count),
            // a byte stream whose length need not be a multiple of the word size (ragged tail)
            (4, _) => wrap_r!($E, BufBitReader::<$E, _>::new(WordAdapter::<$W, _>::new(Cursor::new($data.to_vec()))), $count),
            _ => {
                let bytes = words_to_bytes::<$W>(&bytes_to_words::<$W>($data));
                wrap_r!($E, BufBitReader::<$E, _>::new(WordAdapter::<$W, _>::new(Cursor::new(bytes))), $count)
            }
        }
    }};
}
macro_rules! mk_ureader_e {
    ($E:ty, $backend:expr, $strict:expr, $count:expr, $data:expr) => {{
        match ($backend, $strict) {
            (0, false) => wrap_r!($E, BitReader::<$E, _>::new(MemWordReader::new(bytes_to_words::<u64>($data))), $count),
            (0, true) => wrap_r!($E, BitReader::<$E, _>::new(MemWordReader::new_strict(bytes_to_words::<u64>($data))), $count),
            (2, _) => wrap_r!($E, BitReader::<$E, _>::new(MemWordWriterVec::new(bytes_to_words::<u64>($data))), $count),
            (4, _) => wrap_r!($E, BitReader::<$E, _>::new(WordAdapter::<u64, _>::new(Cursor::new($data.to_vec()))), $count),
            _ => {
                let bytes = words_to_bytes::<u64>(&bytes_to_words::<u64>($data));
                wrap_r!($E, BitReader::<$E, _>::new(WordAdapter::<u64, _>::new(Cursor::new(bytes))), $count)
            }
        }
    }};
}
macro_rules! mk_reader {
    ($E:ty, $rbits:expr, $backend:expr, $strict:expr, $count:expr, $data:expr) => {
        match $rbits {
            0 => mk_ureader_e!($E, $backend, $strict, $count, $data),
            8 => mk_reader_e!($E, u8, $backend, $strict, $count, $data),
            16 => mk_reader_e!($E, u16, $backend, $strict, $count, $data),
            32 => mk_reader_e!($E, u32, $backend, $strict, $count, $data),
            64 => mk_reader_e!($E, u64, $backend, $strict, $count, $data),
            _ => panic!("bad reader word"),
        }
    };
}
pub fn make_reader(le: bool, rbits: u128, backend: u128, strict: bool, count: u128, data: &[u8]) -> Box<dyn ObjR> {
    if le {
        mk_reader!(LE, rbits, backend, strict, count, data)
    } else {
        mk_reader!(BE, rbits, backend, strict, count, data)
    }
}

// ------------------------------------------------------------------ interpreter
const UNKNOWN: u128 = 0xffff_ffff;

pub fn run_world(hdr: &Group, data: &Group, ops: &[Group]) -> Vec<Group> {
    let le = a(hdr, 1) != 0;
    let wbits = a(hdr, 2);
    let wcap = a(hdr, 3) as usize;
    let rbits = a(hdr, 4);
    let rstrict = a(hdr, 5) != 0;
    let wcount = a(hdr, 6);
    let rcount = a(hdr, 7);
    let wbackend = a(hdr, 8);
    let rbackend = a(hdr, 9);
    let mut bytes: Vec<u8> = Vec::with_capacity(data.len());
    for i in 0..data.len() {
        bytes.push(data[i] as u8);
    }

    let built = catch_unwind(AssertUnwindSafe(|| {
        let (w, obs) = make_writer(le, wbits, wbackend, wcap, wcount);
        let r = make_reader(le, rbits, rbackend, rstrict, rcount, &bytes);
        (w, obs, r)
    }));
    let (mut w, obs, mut r) = match built {
        Ok(x) => x,
        Err(_) => return vec![vec![ST_PANIC]],
    };
    let mut clone: Option<Box<dyn ObjR>> = None;
    let mut out: Vec<Group> = Vec::new();
    // over the staging sink only what was committed by a flush is visible: the count is compared after flushes only
    let delivered_now = |obs: &Observer| -> u128 { obs().0.len() as u128 };
    let delivered = |obs: &Observer| -> u128 {
        let (b, known) = obs();
        if known && wbackend != 4 {
            b.len() as u128
        } else {
            UNKNOWN
        }
    };

    for op in ops {
        let res = catch_unwind(AssertUnwindSafe(|| -> R<Group> {
            Ok(match a(op, 0) {
                1 => vec![w.write_bits(a(op, 1) as u64, a(op, 2) as usize)? as u128, delivered(&obs)],
                2 => vec![w.write_unary(a(op, 1) as u64)? as u128, delivered(&obs)],
                3 => vec![w.flush()? as u128, if wbackend == 4 { delivered_now(&obs) } else { delivered(&obs) }],
                4 => vec![w.code(a(op, 1), a(op, 2), a(op, 3), a(op, 4) as u64)? as u128, delivered(&obs)],
                5 => {
                    let mut buf: Vec<u8> = Vec::new();
                    for i in 1..op.len() {
                        buf.push(op[i] as u8);
                    }
                    vec![w.io_write(&buf)? as u128, delivered(&obs)]
                }
                10 => vec![r.read_bits(a(op, 1) as usize)? as u128],
                11 => vec![r.read_unary()? as u128],
                12 => {
                    r.skip_bits(a(op, 1) as usize)?;
                    vec![]
                }
                13 => vec![r.peek_bits(a(op, 1) as usize)? as u128],
                14 => {
                    r.skip_bits_after_peek(a(op, 1) as usize);
                    vec![]
                }
                15 => vec![r.code(a(op, 1), a(op, 2), a(op, 3))? as u128],
                16 => r.io_read(a(op, 1) as usize)?.into_iter().map(|b| b as u128).collect(),
                17 => vec![r.bit_pos()? as u128],
                18 => {
                    r.set_bit_pos(a(op, 1) as u64)?;
                    vec![]
                }
                19 => {
                    clone = Some(r.clone_box().expect("clone not available on this reader"));
                    vec![]
                }
                20 => {
                    let c = clone.take().expect("no clone");
                    let old = std::mem::replace(&mut r, c);
                    clone = Some(old);
                    vec![]
                }
                30 => {
                    r.copy_to(w.as_mut(), a(op, 1) as u64)?;
                    vec![delivered(&obs)]
                }
                31 => {
                    w.copy_from(r.as_mut(), a(op, 1) as u64)?;
                    vec![delivered(&obs)]
                }
                32 => vec![w.count() as u128],
                33 => vec![r.count() as u128],
                _ => panic!("bad op"),
            })
        }));
        match res {
            Ok(Ok(mut g)) => {
                let mut v = vec![ST_OK];
                v.append(&mut g);
                out.push(v);
            }
            Ok(Err(())) if a(hdr, 11) != 0 => {
                // header field 11 set: the caller goes on after an error (the objects are kept as they are)
                out.push(vec![ST_ERR]);
            }
            Ok(Err(())) => {
                out.push(vec![ST_ERR]);
                // dropping a writer over a full sink panics in its Drop: not part of the result
                let _ = catch_unwind(AssertUnwindSafe(move || {
                    drop(w);
                    drop(r);
                    drop(clone);
                }));
                return out;
            }
            Err(_) => {
                out.push(vec![ST_PANIC]);
                // the objects may be in an inconsistent state: leak them instead of dropping
                std::mem::forget(w);
                std::mem::forget(r);
                std::mem::forget(clone);
                return out;
            }
        }
    }
    let (b, _) = obs();
    let mut fin = vec![99u128];
    fin.extend(b.into_iter().map(|x| x as u128));
    // dropping / unwrapping the writer flushes it (and may panic / fail on a full slice): observed as a
    // separate group [98, status, bytes after the writer is gone...]
    let fin_kind = a(hdr, 10);
    let gone = catch_unwind(AssertUnwindSafe(move || w.finish(fin_kind)));
    let mut after = vec![98u128];
    match gone {
        Ok(true) => {
            after.push(ST_OK);
            let (b2, _) = obs();
            after.extend(b2.into_iter().map(|x| x as u128));
        }
        _ => after.push(ST_PANIC),
    }
    out.push(after);
    out.push(fin);
    out
}

/// Construct one reader of every kind, bracketing each construction on stderr, so that the caller
/// can see which look-ahead diagnostics (`DANGER: ...`) the library prints for which reader.
pub fn probe_diagnostics() {
    let data = [0u8; 64];
    for (name, rbits) in [("u8", 8u128), ("u16", 16), ("u32", 32), ("u64", 64), ("unbuffered", 0)] {
        eprintln!("PROBE {} BEGIN", name);
        let _r = make_reader(false, rbits, 0, false, 0, &data);
        eprintln!("PROBE {} END", name);
    }
}
