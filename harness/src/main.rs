//! Correspondence harness: interprets the case language of coq/theories/Run.v against the
//! real dsi-bitstream crate (public API only).  One case per input line: groups separated
//! by ';', numbers in hex.  One result line per case, same format.
//!
//! usage: verif-harness [--timeout-ms N] < cases > results
mod pure;
mod world;

use std::io::{BufRead, Write};
use std::sync::mpsc;
use std::time::Duration;

pub type Group = Vec<u128>;

pub fn parse_line(line: &str) -> Vec<Group> {
    line.split(';')
        .map(|g| {
            g.split_whitespace()
                .map(|t| u128::from_str_radix(t, 16).expect("bad hex"))
                .collect()
        })
        .collect()
}

pub fn fmt_groups(gs: &[Group]) -> String {
    // a result group that no generated case can legitimately produce (runaway output of a broken
    // implementation): keep its head, then a marker and the true length
    const MAX_GROUP: usize = 1 << 17;
    gs.iter()
        .map(|g| {
            let shown: Vec<u128> = if g.len() > MAX_GROUP {
                let mut h = g[..256].to_vec();
                h.push(0xffff_fffe);
                h.push(g.len() as u128);
                h
            } else {
                g.clone()
            };
            shown
                .iter()
                .map(|x| format!("{:x}", x))
                .collect::<Vec<_>>()
                .join(" ")
        })
        .collect::<Vec<_>>()
        .join(";")
}

pub fn a(op: &Group, i: usize) -> u128 {
    op.get(i).copied().unwrap_or(0)
}

/// status codes shared with the model: 0 Ok, 1 Err, 2 Fail (panic), 3 Fuel (timeout)
pub const ST_OK: u128 = 0;
pub const ST_ERR: u128 = 1;
pub const ST_PANIC: u128 = 2;
pub const ST_TIMEOUT: u128 = 3;

pub fn run_case(groups: &[Group]) -> Vec<Group> {
    let empty: Group = vec![];
    let hdr = groups.first().unwrap_or(&empty);
    let data = groups.get(1).unwrap_or(&empty);
    let ops: &[Group] = if groups.len() > 2 { &groups[2..] } else { &[] };
    match a(hdr, 0) {
        1 => world::run_world(hdr, data, ops),
        2 => ops.iter().map(pure::run_len).collect(),
        3 => ops.iter().map(|op| pure::run_zigzag(a(hdr, 1), op)).collect(),
        4 => ops.iter().map(pure::run_vbyte_io).collect(),
        5 => ops.iter().map(pure::run_names).collect(),
        6 => ops.iter().map(|op| pure::run_dispatch(a(hdr, 1), op)).collect(),
        7 => pure::run_memw(hdr, data, ops),
        8 => pure::run_adapter(hdr, data, ops),
        9 => pure::run_stats(ops),
        10 => pure::run_fcp(hdr, data),
        11 => pure::run_stats_threads(hdr, ops),
        13 => pure::run_stats_failing(hdr, ops),
        _ => vec![vec![ST_PANIC]],
    }
}

fn main() {
    let args: Vec<String> = std::env::args().collect();
    let mut timeout_ms: u64 = 10_000;
    let mut i = 1;
    while i < args.len() {
        if args[i] == "--probe-diagnostics" {
            // construct every reader kind; the library prints its look-ahead diagnostics on stderr
            world::probe_diagnostics();
            return;
        }
        if args[i] == "--timeout-ms" {
            timeout_ms = args[i + 1].parse().unwrap();
            i += 1;
        }
        i += 1;
    }
    // silence panic messages: panics are outcomes here
    if std::env::var("VERIF_PANIC_MSG").is_err() { std::panic::set_hook(Box::new(|_| {})); }

    let stdin = std::io::stdin();
    let stdout = std::io::stdout();
    let mut out = std::io::BufWriter::new(stdout.lock());

    // a worker thread runs the cases so that a non-terminating case becomes a Timeout
    let (tx_case, rx_case) = mpsc::channel::<String>();
    let (tx_res, rx_res) = mpsc::channel::<String>();
    let spawn_worker = |rx_case: mpsc::Receiver<String>, tx_res: mpsc::Sender<String>| {
        std::thread::Builder::new()
            .stack_size(64 << 20)
            .spawn(move || {
                while let Ok(line) = rx_case.recv() {
                    let groups = parse_line(&line);
                    let res = std::panic::catch_unwind(|| run_case(&groups));
                    let s = match res {
                        Ok(r) => fmt_groups(&r),
                        Err(_) => format!("{:x}", ST_PANIC),
                    };
                    if tx_res.send(s).is_err() {
                        break;
                    }
                }
            })
            .unwrap()
    };
    let mut worker = Some(spawn_worker(rx_case, tx_res));
    let mut tx_case = tx_case;
    let mut rx_res = rx_res;

    for line in stdin.lock().lines() {
        let line = line.unwrap();
        if line.is_empty() || line.starts_with('#') {
            continue;
        }
        tx_case.send(line).unwrap();
        match rx_res.recv_timeout(Duration::from_millis(timeout_ms)) {
            Ok(s) => {
                writeln!(out, "{}", s).unwrap();
            }
            Err(_) => {
                // abandon the stuck worker (it keeps spinning until exit) and start a new one
                writeln!(out, "{:x}", ST_TIMEOUT).unwrap();
                let (t1, r1) = mpsc::channel::<String>();
                let (t2, r2) = mpsc::channel::<String>();
                std::mem::forget(worker.take());
                worker = Some(spawn_worker(r1, t2));
                tx_case = t1;
                rx_res = r2;
            }
        }
    }
    out.flush().unwrap();
    drop(out);
    // do not join a possibly stuck worker
    std::process::exit(0);
}
