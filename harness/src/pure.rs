//! Pure / small-machine scenarios: length functions, zig-zag, byte-level VByte, names and
//! identifiers, dispatchers, in-memory word streams, the word adapter under fault
//! schedules, statistics, the change-point iterator.
use crate::{a, Group, ST_ERR, ST_OK, ST_PANIC};
use dsi_bitstream::codes::{ToInt, ToNat};
use dsi_bitstream::prelude::*;
use std::io::{Cursor, Read, Seek, SeekFrom, Write};
use std::panic::{catch_unwind, AssertUnwindSafe};

fn guard<F: FnOnce() -> Group>(f: F) -> Group {
    match catch_unwind(AssertUnwindSafe(f)) {
        Ok(g) => g,
        Err(_) => vec![ST_PANIC],
    }
}

// ------------------------------------------------------------------ LEN
pub fn run_len(op: &Group) -> Group {
    guard(|| {
        let (id, p, fl, v) = (a(op, 0), a(op, 1), a(op, 2), a(op, 3) as u64);
        let dflt = fl == 4;
        let t0 = fl & 1 != 0;
        let t1 = fl & 2 != 0;
        let l = match id {
            0 => v as usize + 1,
            1 => {
                if dflt {
                    len_gamma(v)
                } else if t0 {
                    len_gamma_param::<true>(v)
                } else {
                    len_gamma_param::<false>(v)
                }
            }
            2 => {
                if dflt {
                    len_delta(v)
                } else {
                    match (t0, t1) {
                        (false, false) => len_delta_param::<false, false>(v),
                        (true, false) => len_delta_param::<true, false>(v),
                        (false, true) => len_delta_param::<false, true>(v),
                        (true, true) => len_delta_param::<true, true>(v),
                    }
                }
            }
            3 => len_omega(v),
            4 | 5 => bit_len_vbyte(v),
            6 | 12 => {
                let k = if id == 12 { 3 } else { p as usize };
                if dflt {
                    len_zeta(v, k)
                } else if t0 {
                    len_zeta_param::<true>(v, k)
                } else {
                    len_zeta_param::<false>(v, k)
                }
            }
            7 => len_pi(v, p as usize),
            8 => len_golomb(v, p as u64),
            9 => len_exp_golomb(v, p as usize),
            10 => len_rice(v, p as usize),
            11 => len_minimal_binary(v, p as u64),
            _ => panic!("bad code id"),
        };
        vec![ST_OK, l as u128]
    })
}

// ------------------------------------------------------------------ ZIGZAG
pub fn run_zigzag(w: u128, op: &Group) -> Group {
    guard(|| {
        let x = a(op, 1);
        let r: u128 = match (a(op, 0), w) {
            (0, 8) => (x as u8).to_int() as u8 as u128,
            (0, 16) => (x as u16).to_int() as u16 as u128,
            (0, 32) => (x as u32).to_int() as u32 as u128,
            (0, 64) => (x as u64).to_int() as u64 as u128,
            (0, 128) => x.to_int() as u128,
            (0, 0) => (x as usize).to_int() as usize as u128,
            (_, 8) => (x as u8 as i8).to_nat() as u128,
            (_, 16) => (x as u16 as i16).to_nat() as u128,
            (_, 32) => (x as u32 as i32).to_nat() as u128,
            (_, 64) => (x as u64 as i64).to_nat() as u128,
            (_, 128) => (x as i128).to_nat(),
            (_, 0) => (x as usize as isize).to_nat() as u128,
            _ => panic!("bad width"),
        };
        vec![ST_OK, r]
    })
}

// ------------------------------------------------------------------ VBYTE over std::io
/// a byte sink that accepts at most `k` bytes per call (k = 0: everything), as pipes and sockets may
struct Chunked {
    buf: Vec<u8>,
    k: usize,
}
impl Write for Chunked {
    fn write(&mut self, b: &[u8]) -> std::io::Result<usize> {
        let n = if self.k == 0 { b.len() } else { b.len().min(self.k) };
        self.buf.extend_from_slice(&b[..n]);
        Ok(n)
    }
    fn flush(&mut self) -> std::io::Result<()> {
        Ok(())
    }
}

pub fn run_vbyte_io(op: &Group) -> Group {
    guard(|| match a(op, 0) {
        0 => {
            // op[4] (optional): the sink takes at most that many bytes per call
            let mut sink = Chunked { buf: Vec::new(), k: a(op, 4) as usize };
            let buf = &mut sink;
            let v = a(op, 2) as u64;
            // op[3] (optional): 1 = go through the generic entry point vbyte_write::<E>
            let n = match (a(op, 1), a(op, 3)) {
                (0, 0) => vbyte_write_be(v, buf).unwrap(),
                (_, 0) => vbyte_write_le(v, buf).unwrap(),
                (0, _) => vbyte_write::<BE, _>(v, buf).unwrap(),
                (_, _) => vbyte_write::<LE, _>(v, buf).unwrap(),
            };
            let mut g = vec![ST_OK];
            g.extend(sink.buf.iter().map(|b| *b as u128));
            // the returned count is part of the result: it must be the number of bytes of the code
            if n != sink.buf.len() {
                g.push(0xffff_0000 + n as u128);
            }
            g
        }
        _ => {
            let bytes: Vec<u8> = op[2..].iter().map(|x| *x as u8).collect();
            let mut cur = Cursor::new(bytes);
            let r = if a(op, 1) == 0 { vbyte_read_be(&mut cur) } else { vbyte_read_le(&mut cur) };
            match r {
                Ok(v) => vec![ST_OK, v as u128, cur.position() as u128],
                Err(_) => vec![ST_ERR],
            }
        }
    })
}

// ------------------------------------------------------------------ NAMES
pub fn code_of(variant: u128, p: u128) -> Codes {
    let p = p as usize;
    match variant {
        0 => Codes::Unary,
        1 => Codes::Gamma,
        2 => Codes::Delta,
        3 => Codes::Omega,
        4 => Codes::VByteLe,
        5 => Codes::VByteBe,
        6 => Codes::Zeta { k: p },
        7 => Codes::Pi { k: p },
        8 => Codes::Golomb { b: p },
        9 => Codes::ExpGolomb { k: p },
        _ => Codes::Rice { log2_b: p },
    }
}
pub fn code_num(c: &Codes) -> (u128, u128) {
    match c {
        Codes::Unary => (0, 0),
        Codes::Gamma => (1, 0),
        Codes::Delta => (2, 0),
        Codes::Omega => (3, 0),
        Codes::VByteLe => (4, 0),
        Codes::VByteBe => (5, 0),
        Codes::Zeta { k } => (6, *k as u128),
        Codes::Pi { k } => (7, *k as u128),
        Codes::Golomb { b } => (8, *b as u128),
        Codes::ExpGolomb { k } => (9, *k as u128),
        Codes::Rice { log2_b } => (10, *log2_b as u128),
        _ => panic!("unknown variant"),
    }
}

pub fn run_names(op: &Group) -> Group {
    guard(|| match a(op, 0) {
        0 => {
            let s = code_of(a(op, 1), a(op, 2)).to_string();
            let mut g = vec![ST_OK];
            g.extend(s.bytes().map(|b| b as u128));
            g
        }
        1 => {
            let bytes: Vec<u8> = op[1..].iter().map(|x| *x as u8).collect();
            let s = String::from_utf8(bytes).expect("case strings are ASCII");
            match s.parse::<Codes>() {
                Ok(c) => {
                    let (v, p) = code_num(&c);
                    vec![0, v, p]
                }
                Err(CodeError::UnknownCode(_)) => vec![1],
                Err(CodeError::ParseError(_)) => vec![2],
            }
        }
        2 => match code_of(a(op, 1), a(op, 2)).to_code_const() {
            Ok(i) => vec![ST_OK, i as u128],
            Err(_) => vec![2],
        },
        3 => match Codes::from_code_const(a(op, 1) as usize) {
            Ok(c) => {
                let (v, p) = code_num(&c);
                vec![0, v, p]
            }
            Err(_) => vec![1],
        },
        _ => vec![ST_OK, (code_of(a(op, 1), a(op, 2)) == code_of(a(op, 3), a(op, 4))) as u128],
    })
}

// ------------------------------------------------------------------ DISPATCH
type Wr<E> = BufBitWriter<E, MemWordWriterVec<u64, Vec<u64>>>;
type Rd<'a, E> = BufBitReader<E, MemWordReader<u64, &'a [u64]>>;

fn direct_write<E: Endianness>(w: &mut Wr<E>, c: &Codes, v: u64) -> usize
where
    Wr<E>: CodesWrite<E>,
{
    match c {
        Codes::Unary => w.write_unary(v).unwrap(),
        Codes::Gamma => w.write_gamma(v).unwrap(),
        Codes::Delta => w.write_delta(v).unwrap(),
        Codes::Omega => w.write_omega(v).unwrap(),
        Codes::VByteLe => w.write_vbyte_le(v).unwrap(),
        Codes::VByteBe => w.write_vbyte_be(v).unwrap(),
        Codes::Zeta { k } => w.write_zeta(v, *k).unwrap(),
        Codes::Pi { k } => w.write_pi(v, *k).unwrap(),
        Codes::Golomb { b } => w.write_golomb(v, *b as u64).unwrap(),
        Codes::ExpGolomb { k } => w.write_exp_golomb(v, *k).unwrap(),
        Codes::Rice { log2_b } => w.write_rice(v, *log2_b).unwrap(),
        _ => panic!("unknown variant"),
    }
}

fn direct_len(c: &Codes, v: u64) -> usize {
    match c {
        Codes::Unary => v as usize + 1,
        Codes::Gamma => len_gamma(v),
        Codes::Delta => len_delta(v),
        Codes::Omega => len_omega(v),
        Codes::VByteLe | Codes::VByteBe => bit_len_vbyte(v),
        Codes::Zeta { k } => len_zeta(v, *k),
        Codes::Pi { k } => len_pi(v, *k),
        Codes::Golomb { b } => len_golomb(v, *b as u64),
        Codes::ExpGolomb { k } => len_exp_golomb(v, *k),
        Codes::Rice { log2_b } => len_rice(v, *log2_b),
        _ => panic!("unknown variant"),
    }
}

macro_rules! with_const {
    ($id:expr, $c:ident, $body:expr) => {
        seq_macro_consts!($id, $c, $body, 0 1 2 3 4 5 6 7 8 9 10 11 12 13 14 15 16 17 18 19 20 21 22 23 24 25
            26 27 28 29 30 31 32 33 34 35 36 37 38 39 40 41 42 43 44 45 46 47 48 49 50 51 52 53 54 55)
    };
}
macro_rules! seq_macro_consts {
    ($id:expr, $c:ident, $body:expr, $($n:literal)*) => {
        match $id {
            $( $n => { let $c = ConstCode::<$n>; $body } )*
            _ => panic!("const id out of the instantiated range"),
        }
    };
}

macro_rules! with_named {
    ($x:expr, $y:expr, $c:ident, $body:expr) => {
        match ($x, $y) {
            (0, 0) => { let $c = ConstCode::<{ code_consts::UNARY }>; $body }
            (1, 0) => { let $c = ConstCode::<{ code_consts::GAMMA }>; $body }
            (2, 0) => { let $c = ConstCode::<{ code_consts::DELTA }>; $body }
            (3, 0) => { let $c = ConstCode::<{ code_consts::OMEGA }>; $body }
            (4, 0) => { let $c = ConstCode::<{ code_consts::VBYTE_LE }>; $body }
            (5, 0) => { let $c = ConstCode::<{ code_consts::VBYTE_BE }>; $body }
            (6, 1) => { let $c = ConstCode::<{ code_consts::ZETA1 }>; $body }
            (6, 2) => { let $c = ConstCode::<{ code_consts::ZETA2 }>; $body }
            (6, 3) => { let $c = ConstCode::<{ code_consts::ZETA3 }>; $body }
            (6, 4) => { let $c = ConstCode::<{ code_consts::ZETA4 }>; $body }
            (6, 5) => { let $c = ConstCode::<{ code_consts::ZETA5 }>; $body }
            (6, 6) => { let $c = ConstCode::<{ code_consts::ZETA6 }>; $body }
            (6, 7) => { let $c = ConstCode::<{ code_consts::ZETA7 }>; $body }
            (6, 8) => { let $c = ConstCode::<{ code_consts::ZETA8 }>; $body }
            (6, 9) => { let $c = ConstCode::<{ code_consts::ZETA9 }>; $body }
            (6, 10) => { let $c = ConstCode::<{ code_consts::ZETA10 }>; $body }
            (10, 0) => { let $c = ConstCode::<{ code_consts::RICE0 }>; $body }
            (10, 1) => { let $c = ConstCode::<{ code_consts::RICE1 }>; $body }
            (10, 2) => { let $c = ConstCode::<{ code_consts::RICE2 }>; $body }
            (10, 3) => { let $c = ConstCode::<{ code_consts::RICE3 }>; $body }
            (10, 4) => { let $c = ConstCode::<{ code_consts::RICE4 }>; $body }
            (10, 5) => { let $c = ConstCode::<{ code_consts::RICE5 }>; $body }
            (10, 6) => { let $c = ConstCode::<{ code_consts::RICE6 }>; $body }
            (10, 7) => { let $c = ConstCode::<{ code_consts::RICE7 }>; $body }
            (10, 8) => { let $c = ConstCode::<{ code_consts::RICE8 }>; $body }
            (10, 9) => { let $c = ConstCode::<{ code_consts::RICE9 }>; $body }
            (10, 10) => { let $c = ConstCode::<{ code_consts::RICE10 }>; $body }
            (7, 0) => { let $c = ConstCode::<{ code_consts::PI0 }>; $body }
            (7, 1) => { let $c = ConstCode::<{ code_consts::PI1 }>; $body }
            (7, 2) => { let $c = ConstCode::<{ code_consts::PI2 }>; $body }
            (7, 3) => { let $c = ConstCode::<{ code_consts::PI3 }>; $body }
            (7, 4) => { let $c = ConstCode::<{ code_consts::PI4 }>; $body }
            (7, 5) => { let $c = ConstCode::<{ code_consts::PI5 }>; $body }
            (7, 6) => { let $c = ConstCode::<{ code_consts::PI6 }>; $body }
            (7, 7) => { let $c = ConstCode::<{ code_consts::PI7 }>; $body }
            (7, 8) => { let $c = ConstCode::<{ code_consts::PI8 }>; $body }
            (7, 9) => { let $c = ConstCode::<{ code_consts::PI9 }>; $body }
            (7, 10) => { let $c = ConstCode::<{ code_consts::PI10 }>; $body }
            (8, 1) => { let $c = ConstCode::<{ code_consts::GOLOMB1 }>; $body }
            (8, 2) => { let $c = ConstCode::<{ code_consts::GOLOMB2 }>; $body }
            (8, 3) => { let $c = ConstCode::<{ code_consts::GOLOMB3 }>; $body }
            (8, 4) => { let $c = ConstCode::<{ code_consts::GOLOMB4 }>; $body }
            (8, 5) => { let $c = ConstCode::<{ code_consts::GOLOMB5 }>; $body }
            (8, 6) => { let $c = ConstCode::<{ code_consts::GOLOMB6 }>; $body }
            (8, 7) => { let $c = ConstCode::<{ code_consts::GOLOMB7 }>; $body }
            (8, 8) => { let $c = ConstCode::<{ code_consts::GOLOMB8 }>; $body }
            (8, 9) => { let $c = ConstCode::<{ code_consts::GOLOMB9 }>; $body }
            (8, 10) => { let $c = ConstCode::<{ code_consts::GOLOMB10 }>; $body }
            (9, 0) => { let $c = ConstCode::<{ code_consts::EXP_GOLOMB0 }>; $body }
            (9, 1) => { let $c = ConstCode::<{ code_consts::EXP_GOLOMB1 }>; $body }
            (9, 2) => { let $c = ConstCode::<{ code_consts::EXP_GOLOMB2 }>; $body }
            (9, 3) => { let $c = ConstCode::<{ code_consts::EXP_GOLOMB3 }>; $body }
            (9, 4) => { let $c = ConstCode::<{ code_consts::EXP_GOLOMB4 }>; $body }
            (9, 5) => { let $c = ConstCode::<{ code_consts::EXP_GOLOMB5 }>; $body }
            (9, 6) => { let $c = ConstCode::<{ code_consts::EXP_GOLOMB6 }>; $body }
            (9, 7) => { let $c = ConstCode::<{ code_consts::EXP_GOLOMB7 }>; $body }
            (9, 8) => { let $c = ConstCode::<{ code_consts::EXP_GOLOMB8 }>; $body }
            (9, 9) => { let $c = ConstCode::<{ code_consts::EXP_GOLOMB9 }>; $body }
            (9, 10) => { let $c = ConstCode::<{ code_consts::EXP_GOLOMB10 }>; $body }
            _ => return vec![1],
        }
    };
}

struct Fact<'a>(&'a [u64]);
macro_rules! fact_impl {
    ($E:ty) => {
        impl<'b> CodesReaderFactory<$E> for Fact<'b> {
            type CodesReader<'a>
                = Rd<'a, $E>
            where
                Self: 'a;
            fn new_reader(&self) -> Self::CodesReader<'_> {
                BufBitReader::<$E, _>::new(MemWordReader::new(self.0))
            }
        }
    };
}
fact_impl!(BE);
fact_impl!(LE);

macro_rules! dispatch_impl {
    ($name:ident, $E:ty) => {
fn $name(op: &Group) -> Group {
    type E = $E;
    let (dk, opk, x, y, v) = (a(op, 0), a(op, 1), a(op, 2), a(op, 3), a(op, 4) as u64);
    let code = code_of(x, y);
    match opk {
        1 => {
            // write through the dispatcher into a fresh writer
            let mut w: Wr<E> = BufBitWriter::new(MemWordWriterVec::new(Vec::<u64>::new()));
            let ret: usize = match dk {
                0 => code.write(&mut w, v).unwrap(),
                1 => with_const!(x, c, c.write(&mut w, v).unwrap()),
                2 => match FuncCodeWriter::<E, Wr<E>>::new(code) {
                    Ok(f) => f.write(&mut w, v).unwrap(),
                    Err(_) => return vec![1],
                },
                4 => {
                    let sw = CodesStatsWrapper::<Codes>::new(code);
                    <CodesStatsWrapper<Codes> as DynamicCodeWrite>::write(&sw, &mut w, v).unwrap()
                }
                5 => direct_write::<E>(&mut w, &code, v),
                6 => with_named!(x, y, c, c.write(&mut w, v).unwrap()),
                _ => panic!("no write dispatcher of this kind"),
            };
            BitWrite::flush(&mut w).unwrap();
            let words = w.into_inner().unwrap().into_inner();
            let mut bytes: Vec<u8> = Vec::new();
            for wd in &words {
                bytes.extend_from_slice(&wd.to_ne_bytes());
            }
            bytes.truncate((ret + 7) / 8);
            let mut g = vec![ST_OK, ret as u128];
            g.extend(bytes.into_iter().map(|b| b as u128));
            g
        }
        0 => {
            // the direct method writes, the dispatcher reads
            let target = if dk == 1 {
                match Codes::from_code_const(x as usize) {
                    Ok(c) => c,
                    Err(_) => {
                        // still exercise the dispatcher: it must reject (panic) as well
                        return vec![1];
                    }
                }
            } else {
                code
            };
            let mut w: Wr<E> = BufBitWriter::new(MemWordWriterVec::new(Vec::<u64>::new()));
            // FuncCode*/Factory::new reject before anything is written
            if dk == 2 {
                if FuncCodeReader::<E, Rd<'static, E>>::new(code).is_err() {
                    return vec![1];
                }
            }
            if dk == 3 {
                if FactoryFuncCodeReader::<E, Fact<'static>>::new(code).is_err() {
                    return vec![1];
                }
            }
            direct_write::<E>(&mut w, &target, v);
            BitWrite::flush(&mut w).unwrap();
            let mut words = w.into_inner().unwrap().into_inner();
            words.push(0);
            words.push(0);
            let mut r: Rd<E> = BufBitReader::new(MemWordReader::new(&words[..]));
            let val: u64 = match dk {
                0 => code.read(&mut r).unwrap(),
                1 => with_const!(x, c, c.read(&mut r).unwrap()),
                2 => FuncCodeReader::<E, Rd<E>>::new(code).unwrap().read(&mut r).unwrap(),
                3 => {
                    let f = FactoryFuncCodeReader::<E, Fact>::new(code).unwrap();
                    f.get().read(&mut r).unwrap()
                }
                4 => {
                    let sw = CodesStatsWrapper::<Codes>::new(code);
                    <CodesStatsWrapper<Codes> as DynamicCodeRead>::read(&sw, &mut r).unwrap()
                }
                6 => with_named!(x, y, c, c.read(&mut r).unwrap()),
                _ => panic!("bad dispatcher kind"),
            };
            let pos = r.bit_pos().unwrap();
            vec![ST_OK, val as u128, pos as u128]
        }
        _ => {
            let l: usize = match dk {
                0 => code.len(v),
                1 => with_const!(x, c, c.len(v)),
                2 => match FuncCodeLen::new(code) {
                    Ok(f) => f.len(v),
                    Err(_) => return vec![1],
                },
                5 => direct_len(&code, v),
                6 => with_named!(x, y, c, c.len(v)),
                _ => panic!("no len dispatcher of this kind"),
            };
            vec![ST_OK, l as u128]
        }
    }
}
    };
}
dispatch_impl!(dispatch_be, BE);
dispatch_impl!(dispatch_le, LE);

pub fn run_dispatch(e: u128, op: &Group) -> Group {
    guard(|| if e == 0 { dispatch_be(op) } else { dispatch_le(op) })
}

// ------------------------------------------------------------------ MEMWORDS
macro_rules! memw_run {
    ($W:ty, $kind:expr, $data:expr, $ops:expr) => {{
        let init: Vec<$W> = $data.iter().map(|x| *x as $W).collect();
        let mut out: Vec<Group> = Vec::new();
        macro_rules! drive {
            ($s:expr, $read:expr, $write:expr, $len:expr, $fin:expr) => {{
                #[allow(unused_mut)]
                let mut s = $s;
                for op in $ops {
                    let g: Group = match a(op, 0) {
                        0 => match $read(&mut s) {
                            Ok(w) => vec![0, w as u128],
                            Err(_) => vec![1],
                        },
                        1 => match $write(&mut s, a(op, 1) as $W) {
                            Some(Ok(())) => vec![0, 0],
                            Some(Err(())) => vec![1],
                            None => vec![2],
                        },
                        2 => match s.word_pos() {
                            Ok(p) => vec![0, p as u128],
                            Err(_) => vec![1],
                        },
                        3 => match s.set_word_pos(a(op, 1) as u64) {
                            Ok(()) => vec![0, 0],
                            Err(_) => vec![1],
                        },
                        _ => match $len(&s) {
                            Some(l) => vec![0, l as u128],
                            None => vec![2],
                        },
                    };
                    let stop = g[0] >= 2;
                    out.push(g);
                    if stop {
                        return out;
                    }
                }
                let mut fin = vec![99u128];
                fin.extend($fin(s).into_iter().map(|w: $W| w as u128));
                out.push(fin);
            }};
        }
        match $kind {
            0 => drive!(
                MemWordReader::<$W, _>::new(init.clone()),
                |s: &mut MemWordReader<$W, Vec<$W>>| s.read_word(),
                |_s: &mut MemWordReader<$W, Vec<$W>>, _w: $W| -> Option<Result<(), ()>> { None },
                |_s: &MemWordReader<$W, Vec<$W>>| -> Option<usize> { None },
                |s: MemWordReader<$W, Vec<$W>>| s.into_inner()
            ),
            1 => drive!(
                MemWordReader::<$W, _, false>::new_strict(init.clone()),
                |s: &mut MemWordReader<$W, Vec<$W>, false>| s.read_word(),
                |_s: &mut MemWordReader<$W, Vec<$W>, false>, _w: $W| -> Option<Result<(), ()>> { None },
                |_s: &MemWordReader<$W, Vec<$W>, false>| -> Option<usize> { None },
                |_s: MemWordReader<$W, Vec<$W>, false>| init.clone()
            ),
            2 => drive!(
                MemWordWriterSlice::<$W, _>::new(init.clone()),
                |s: &mut MemWordWriterSlice<$W, Vec<$W>>| s.read_word(),
                |s: &mut MemWordWriterSlice<$W, Vec<$W>>, w: $W| Some(s.write_word(w).map_err(|_| ())),
                |s: &MemWordWriterSlice<$W, Vec<$W>>| Some(s.len()),
                |s: MemWordWriterSlice<$W, Vec<$W>>| s.into_inner()
            ),
            _ => drive!(
                MemWordWriterVec::<$W, _>::new(init.clone()),
                |s: &mut MemWordWriterVec<$W, Vec<$W>>| s.read_word(),
                |s: &mut MemWordWriterVec<$W, Vec<$W>>, w: $W| Some(s.write_word(w).map_err(|_| ())),
                |s: &MemWordWriterVec<$W, Vec<$W>>| Some(s.len()),
                |s: MemWordWriterVec<$W, Vec<$W>>| s.into_inner()
            ),
        }
        out
    }};
}

pub fn run_memw(hdr: &Group, data: &Group, ops: &[Group]) -> Vec<Group> {
    let kind = a(hdr, 1);
    let r = catch_unwind(AssertUnwindSafe(|| -> Vec<Group> {
        match a(hdr, 2) {
            8 => memw_run!(u8, kind, data, ops),
            16 => memw_run!(u16, kind, data, ops),
            32 => memw_run!(u32, kind, data, ops),
            64 => memw_run!(u64, kind, data, ops),
            _ => memw_run!(u128, kind, data, ops),
        }
    }));
    r.unwrap_or_else(|_| vec![vec![ST_PANIC]])
}

// ------------------------------------------------------------------ ADAPTER under faults
/// events: 0 = Interrupted, 1 = hard error, k+2 = accept at most k bytes
struct Faulty {
    sched: std::collections::VecDeque<u128>,
    bytes: Vec<u8>, // sink (write) or source (read)
    pos: usize,
}
impl Faulty {
    fn next(&mut self) -> Option<u128> {
        self.sched.pop_front()
    }
}
impl Write for Faulty {
    fn write(&mut self, buf: &[u8]) -> std::io::Result<usize> {
        match self.next() {
            None => {
                self.bytes.extend_from_slice(buf);
                Ok(buf.len())
            }
            Some(0) => Err(std::io::Error::new(std::io::ErrorKind::Interrupted, "interrupted")),
            Some(1) => Err(std::io::Error::new(std::io::ErrorKind::Other, "hard error")),
            Some(k) => {
                let k = ((k - 2) as usize).min(buf.len());
                self.bytes.extend_from_slice(&buf[..k]);
                Ok(k)
            }
        }
    }
    fn flush(&mut self) -> std::io::Result<()> {
        Ok(())
    }
}
impl Read for Faulty {
    fn read(&mut self, buf: &mut [u8]) -> std::io::Result<usize> {
        let avail = self.bytes.len() - self.pos;
        match self.next() {
            None => {
                let k = buf.len().min(avail);
                buf[..k].copy_from_slice(&self.bytes[self.pos..self.pos + k]);
                self.pos += k;
                Ok(k)
            }
            Some(0) => Err(std::io::Error::new(std::io::ErrorKind::Interrupted, "interrupted")),
            Some(1) => Err(std::io::Error::new(std::io::ErrorKind::Other, "hard error")),
            Some(k) => {
                let k = ((k - 2) as usize).min(buf.len()).min(avail);
                buf[..k].copy_from_slice(&self.bytes[self.pos..self.pos + k]);
                self.pos += k;
                Ok(k)
            }
        }
    }
}

macro_rules! adapter_run {
    ($W:ty, $hdr:expr, $data:expr, $ops:expr) => {{
        let sched: std::collections::VecDeque<u128> = $data.iter().copied().collect();
        let empty: Group = vec![];
        let payload = $ops.first().unwrap_or(&empty);
        let mut out: Vec<Group> = Vec::new();
        match a($hdr, 2) {
            0 => {
                let mut ad = WordAdapter::<$W, _>::new(Faulty { sched, bytes: vec![], pos: 0 });
                let mut failed = false;
                for w in payload {
                    match ad.write_word(*w as $W) {
                        Ok(()) => out.push(vec![0]),
                        Err(_) => {
                            out.push(vec![1]);
                            failed = true;
                            break;
                        }
                    }
                }
                let _ = failed;
                let f = ad.into_inner();
                let mut fin = vec![99u128];
                fin.extend(f.bytes.into_iter().map(|b| b as u128));
                out.push(fin);
            }
            1 => {
                let bytes: Vec<u8> = payload.iter().map(|x| *x as u8).collect();
                let mut ad = WordAdapter::<$W, _>::new(Faulty { sched, bytes, pos: 0 });
                for _ in 0..a($hdr, 3) {
                    match ad.read_word() {
                        Ok(w) => out.push(vec![0, w as u128]),
                        Err(_) => {
                            out.push(vec![1]);
                            break;
                        }
                    }
                }
            }
            _ => {
                // positions over a seekable Cursor: ops [0] read_word, [1;w] write_word, [2] word_pos, [3;p] set_word_pos
                let bytes: Vec<u8> = $data.iter().map(|x| *x as u8).collect();
                let mut ad = WordAdapter::<$W, _>::new(Cursor::new(bytes));
                for op in $ops {
                    let g: Group = match a(op, 0) {
                        0 => match ad.read_word() {
                            Ok(w) => vec![0, w as u128],
                            Err(_) => vec![1],
                        },
                        1 => match ad.write_word(a(op, 1) as $W) {
                            Ok(()) => vec![0, 0],
                            Err(_) => vec![1],
                        },
                        2 => match ad.word_pos() {
                            Ok(p) => vec![0, p as u128],
                            Err(_) => vec![1],
                        },
                        _ => match ad.set_word_pos(a(op, 1) as u64) {
                            Ok(()) => vec![0, 0],
                            Err(_) => vec![1],
                        },
                    };
                    out.push(g);
                }
                let mut c = ad.into_inner();
                let _ = c.seek(SeekFrom::Start(0));
                let mut fin = vec![99u128];
                fin.extend(c.into_inner().into_iter().map(|b| b as u128));
                out.push(fin);
            }
        }
        out
    }};
}

pub fn run_adapter(hdr: &Group, data: &Group, ops: &[Group]) -> Vec<Group> {
    let r = catch_unwind(AssertUnwindSafe(|| -> Vec<Group> {
        match a(hdr, 1) {
            8 => adapter_run!(u8, hdr, data, ops),
            16 => adapter_run!(u16, hdr, data, ops),
            32 => adapter_run!(u32, hdr, data, ops),
            64 => adapter_run!(u64, hdr, data, ops),
            _ => adapter_run!(u128, hdr, data, ops),
        }
    }));
    r.unwrap_or_else(|_| vec![vec![ST_PANIC]])
}

// ------------------------------------------------------------------ STATS
fn flat(s: &CodesStats) -> Group {
    let mut g = vec![ST_OK, s.total as u128, s.unary as u128, s.gamma as u128, s.delta as u128, s.omega as u128, s.vbyte as u128];
    for v in s.zeta.iter().chain(s.golomb.iter()).chain(s.exp_golomb.iter()).chain(s.rice.iter()).chain(s.pi.iter()) {
        g.push(*v as u128);
    }
    g
}
fn best(s: &CodesStats) -> Group {
    let (c, cost) = s.best_code();
    let (v, p) = code_num(&c);
    vec![ST_OK, v, p, cost as u128]
}

pub fn run_stats(ops: &[Group]) -> Vec<Group> {
    let r = catch_unwind(AssertUnwindSafe(|| -> Vec<Group> {
        let mut out = Vec::new();
        let mut cur = CodesStats::<10, 20, 10, 10, 10>::default();
        let mut parts: Vec<CodesStats> = Vec::new();
        let mut flip = 0usize;
        for op in ops {
            match a(op, 0) {
                0 => {
                    cur.update(a(op, 1) as u64);
                }
                1 => {
                    cur.update_many(a(op, 1) as u64, a(op, 2) as u64);
                }
                2 => {
                    parts.push(cur);
                    cur = CodesStats::default();
                }
                3 => {
                    parts.push(cur);
                    // alternate between the three ways of merging
                    flip += 1;
                    cur = match flip % 3 {
                        0 => parts.drain(..).sum(),
                        1 => {
                            let mut acc = CodesStats::default();
                            for p in parts.drain(..) {
                                acc += p;
                            }
                            acc
                        }
                        _ => {
                            let mut acc = CodesStats::default();
                            for p in parts.drain(..) {
                                acc.add(&p);
                            }
                            acc
                        }
                    };
                }
                _ => {
                    out.push(flat(&cur));
                    out.push(best(&cur));
                }
            }
        }
        out
    }));
    r.unwrap_or_else(|_| vec![vec![ST_PANIC]])
}

/// header [13; cap_words]; ops = values written through one CodesStatsWrapper into a fixed slice of cap_words
/// u64 words; writes that fail (slice full) must not be counted.  Output: one status group per value, then the
/// totals and the best code.
pub fn run_stats_failing(hdr: &Group, ops: &[Group]) -> Vec<Group> {
    let cap = (a(hdr, 1) as usize).max(1);
    let r = catch_unwind(AssertUnwindSafe(|| -> Vec<Group> {
        let mut out = Vec::new();
        let mut store = vec![0u64; cap];
        let sw = CodesStatsWrapper::<Codes>::new(Codes::Gamma);
        {
            // never dropped: the Drop of a writer over a full slice panics (also while unwinding, which aborts)
            let mut w = std::mem::ManuallyDrop::new(BufBitWriter::<LE, _>::new(MemWordWriterSlice::new(&mut store[..])));
            for op in ops {
                let v = a(op, 1) as u64;
                match <CodesStatsWrapper<Codes> as DynamicCodeWrite>::write(&sw, &mut *w, v) {
                    Ok(_) => out.push(vec![ST_OK]),
                    Err(_) => {
                        // the state of a writer after a failed write is unspecified: stop here
                        out.push(vec![ST_ERR]);
                        break;
                    }
                }
            }
        }
        let (_, s) = sw.into_inner();
        out.push(flat(&s));
        out.push(best(&s));
        out
    }));
    r.unwrap_or_else(|_| vec![vec![ST_PANIC]])
}

/// header [11; nthreads]; ops = values; the values are dealt round-robin to threads which
/// write (even threads) or read back (odd threads) them through one shared CodesStatsWrapper
pub fn run_stats_threads(hdr: &Group, ops: &[Group]) -> Vec<Group> {
    let nthreads = (a(hdr, 1) as usize).max(1);
    let r = catch_unwind(AssertUnwindSafe(|| -> Vec<Group> {
        let vals: Vec<u64> = ops.iter().map(|op| a(op, 1) as u64).collect();
        let sw = CodesStatsWrapper::<Codes>::new(Codes::Delta);
        std::thread::scope(|sc| {
            for t in 0..nthreads {
                let mine: Vec<u64> = vals.iter().copied().skip(t).step_by(nthreads).collect();
                let sw = &sw;
                sc.spawn(move || {
                    let mut w: Wr<LE> = BufBitWriter::new(MemWordWriterVec::new(Vec::<u64>::new()));
                    if t % 2 == 0 {
                        for v in &mine {
                            <CodesStatsWrapper<Codes> as DynamicCodeWrite>::write(sw, &mut w, *v).unwrap();
                        }
                    } else {
                        for v in &mine {
                            Codes::Delta.write(&mut w, *v).unwrap();
                        }
                        BitWrite::flush(&mut w).unwrap();
                        let mut words = w.into_inner().unwrap().into_inner();
                        words.push(0);
                        let mut r: Rd<LE> = BufBitReader::new(MemWordReader::new(&words[..]));
                        for v in &mine {
                            let x = <CodesStatsWrapper<Codes> as DynamicCodeRead>::read(sw, &mut r).unwrap();
                            assert_eq!(x, *v);
                        }
                    }
                });
            }
        });
        let (_, s) = sw.into_inner();
        vec![flat(&s), best(&s)]
    }));
    r.unwrap_or_else(|_| vec![vec![ST_PANIC]])
}

// ------------------------------------------------------------------ FINDCHANGE
pub fn run_fcp(hdr: &Group, data: &Group) -> Vec<Group> {
    let maxit = a(hdr, 1) as usize;
    let r = catch_unwind(AssertUnwindSafe(|| -> Vec<Group> {
        let f: Box<dyn Fn(u64) -> usize> = match a(hdr, 2) {
            0 => {
                let (id, p) = (a(hdr, 3), a(hdr, 4));
                Box::new(move |x: u64| {
                    let g = run_len(&vec![id, p, 4, x as u128]);
                    g[1] as usize
                })
            }
            _ => {
                let base = a(hdr, 3) as usize;
                let steps: Vec<u64> = data.iter().map(|x| *x as u64).collect();
                Box::new(move |x: u64| base + steps.iter().filter(|s| **s <= x).count())
            }
        };
        let mut g = vec![ST_OK];
        for (x, v) in FindChangePoints::new(f).take(maxit) {
            g.push(x as u128);
            g.push(v as u128);
        }
        vec![g]
    }));
    r.unwrap_or_else(|_| vec![vec![ST_PANIC]])
}
