"""Case generators for the correspondence check, one per property.

Every random choice derives from one random.Random(seed).  A generator returns a list of
Case objects; two-phase generators (codes written then read back) take a callback that runs
phase-one cases through the real harness and returns the delivered bytes.
"""
import random

WORDS_W = [8, 16, 32, 64, 128]
WORDS_R = [8, 16, 32, 64, 0]      # 0 = unbuffered BitReader (u64 words)
U64 = (1 << 64) - 1


class Case:
    __slots__ = ("groups", "tag", "fail_exact", "levels", "wbackend", "note")

    def __init__(self, groups, tag, fail_exact=False, levels=(0, 2), wbackend=0, note=""):
        self.groups = groups          # list of lists of ints
        self.tag = tag                # distribution bucket for the evidence file
        self.fail_exact = fail_exact  # model Fail must be a Rust panic (C19)
        self.levels = levels          # model levels to compare with (0 = L0 spec, 2 = L2 machines)
        self.wbackend = wbackend
        self.note = note

    def line(self):
        return ";".join(" ".join("%x" % x for x in g) for g in self.groups)


def world_hdr(E, wW=64, wcap=0, rW=64, rstrict=0, wcount=0, rcount=0, wbackend=0, rbackend=0, fin=0, cont=0):
    # wbackend: 0 vec, 1 slice, 2 byte-stream adapter, 3 recording, 4 adapter over a STAGING sink (bytes
    # reach the destination only when the sink itself is flushed); fin: how the writer ends (0 drop, 1 into_inner)
    # cont (harness only): go on after an operation returned an error; the models stop at the first error, so
    # such cases are compared by running the models on the history WITHOUT the failed operations
    return [1, E, wW, wcap, rW, rstrict, wcount, rcount, wbackend, rbackend, fin] + ([1] if cont else [])


def patterns(rng, nbytes):
    """data patterns of the properties: random, all-ones, all-zeros, sparse, long zero runs"""
    out = []
    out.append(("random", [rng.randrange(256) for _ in range(nbytes)]))
    out.append(("ones", [255] * nbytes))
    out.append(("zeros", [0] * nbytes))
    sp = [0] * nbytes
    for _ in range(max(1, nbytes // 6)):
        sp[rng.randrange(nbytes)] = 1 << rng.randrange(8)
    out.append(("sparse", sp))
    zr = [rng.randrange(256) for _ in range(nbytes)]
    i = rng.randrange(max(1, nbytes // 3))
    for j in range(i, min(nbytes, i + nbytes // 2)):
        zr[j] = 0
    out.append(("zero_run", zr))
    return out


def value_patterns(rng, n):
    """values for write_bits(v, n): clean random, all ones, and dirty high bits"""
    m = (1 << n) - 1
    r = rng.getrandbits(64)
    return [("clean", r & m), ("ones", m), ("dirty", (r | (U64 ^ m)) & U64 if n < 64 else r), ("zero", 0)]


def boundary_values(rng, extra_random=8, maxv=U64 - 1):
    vs = set(range(0, 70))
    for i in range(1, 64):
        for d in (-1, 0, 1):
            v = (1 << i) + d
            if 0 <= v <= maxv:
                vs.add(v)
    vs.add(maxv)
    vs.add(maxv - 1)
    for _ in range(extra_random):
        vs.add(rng.getrandbits(rng.randrange(1, 65)) % (maxv + 1))
    return sorted(vs)


def fill_prefix_w(W, used):
    """ops that leave a writer with `used` bits in its buffer (used < W)"""
    ops = []
    left = used
    while left > 0:
        k = min(left, 61)
        ops.append([1, (0x5A5A5A5A5A5A5A5A5A >> 3) & ((1 << k) - 1), k])
        left -= k
    return ops


def levels_for(W, rng, dense_upto=16):
    if W <= dense_upto:
        return list(range(0, W))
    base = {0, 1, 2, 3, W // 2 - 1, W // 2, W // 2 + 1, W - 3, W - 2, W - 1, 7, 8, 9, 31, 32, 33, 63, 64, 65}
    base = {x for x in base if 0 <= x < W}
    while len(base) < min(18, W):
        base.add(rng.randrange(W))
    return sorted(base)


# ---------------------------------------------------------------------------- C01
def gen_C01(rng, tier):
    cases = []
    scale = 1 if tier == "quick" else 4
    for E in (0, 1):
        for W in WORDS_W:
            for used in levels_for(W, rng, 16 if tier == "quick" else 64):
                pre = fill_prefix_w(W, used)
                tail = [[1, 5, 3], [3], [3]]
                # the writer ends by drop or into_inner, with or without pending bits
                tails = [[[1, 5, 3], [3], [3]], [[1, 5, 3]], [], [[3]]]
                ns = list(range(0, 65)) if (W <= 16 or tier != "quick") else sorted(set(
                    [0, 1, 2, 7, 8, 9, 15, 16, 17, 31, 32, 33, 62, 63, 64, W - used - 1 if W - used - 1 >= 0 and W - used - 1 <= 64 else 0,
                     min(64, W - used), min(64, W - used + 1)] + [rng.randrange(65) for _ in range(6)]))
                for n in ns:
                    for name, v in value_patterns(rng, n)[: (4 if tier != "quick" else 3)]:
                        cases.append(Case([world_hdr(E, wW=W, wbackend=3, fin=rng.randrange(2)), []] + pre + [[1, v, n]] + rng.choice(tails),
                                          "wbits/%s/W%d" % (name, W)))
                xs = list(range(0, 3 * W + 3)) if W <= 16 or tier != "quick" else sorted(set(
                    list(range(0, 4)) + [W - used - 2, W - used - 1, W - used, W - used + 1, W - 1, W, W + 1,
                                         2 * W - used - 1, 2 * W - used, 2 * W - 1, 2 * W, 2 * W + 1, 3 * W, 3 * W + 2]
                    + [rng.randrange(3 * W + 3) for _ in range(4)]))
                for x in xs:
                    if x < 0:
                        continue
                    cases.append(Case([world_hdr(E, wW=W, wbackend=3, fin=rng.randrange(2)), []] + pre + [[2, x]] + rng.choice(tails), "wunary/W%d" % W))
                cases.append(Case([world_hdr(E, wW=W, wbackend=3), []] + pre + [[3], [3], [1, 1, 1], [3]], "flush/W%d" % W))
                for wb4 in (0, 4):
                    # flush with an empty bit buffer still reaches the sink (staging sink: wbackend 4)
                    cases.append(Case([world_hdr(E, wW=W, wbackend=wb4, fin=rng.randrange(2)), []] + pre + [[3]] + [[1, 3, min(W, 64)]] * (W // min(W, 64)) + [[3], [3], [1, 1, 1]],
                                      "flush-propagation/W%d" % W, wbackend=wb4))
    # random histories over the four backend kinds
    for _ in range(400 * scale):
        E = rng.randrange(2)
        W = rng.choice(WORDS_W)
        wb = rng.randrange(5)
        ops = []
        nbits = 0
        for _ in range(rng.randrange(1, 60)):
            k = rng.random()
            if k < 0.55:
                n = rng.choice([rng.randrange(65), rng.randrange(65), 64, 0, 1, W if W <= 64 else 64])
                v = rng.getrandbits(64) if rng.random() < 0.5 else rng.getrandbits(64) & ((1 << n) - 1)
                ops.append([1, v, n])
                nbits += n
            elif k < 0.85:
                x = rng.choice([rng.randrange(8), rng.randrange(3 * W + 3), rng.randrange(200)])
                ops.append([2, x])
                nbits += x + 1
            else:
                ops.append([3])
                nbits = (nbits + W - 1) // W * W
        if wb == 4 or rng.random() < 0.5:
            ops.append([3])
        cap = 0
        if wb == 1:
            # fixed slice: sometimes too small, so that the sink-full error path is exercised
            need = (nbits + W - 1) // W + 1
            cap = need if rng.random() < 0.7 else max(1, need - rng.randrange(1, 4))
        cases.append(Case([world_hdr(E, wW=W, wcap=cap, wbackend=wb, fin=rng.randrange(2)), []] + ops, "history/backend%d" % wb, wbackend=wb))
    return cases


# ---------------------------------------------------------------------------- C02 / C07
def reader_fill_prefix(W, fill, rng):
    """ops bringing a buffered reader over W-bit words to bits_in_buffer == fill (0 <= fill < 2W)"""
    if W == 0:
        return [[10, fill % 64]] if fill % 64 else []
    if fill == 0:
        return []
    if fill < W:
        return [[10, W - fill]]                     # one word loaded by the slow path, W-fill consumed
    # fill >= W: have fill-W in the buffer, then a look-ahead peek forces a refill
    inb = fill - W
    ops = []
    if inb > 0:
        ops.append([10, W - inb])
        ops.append([13, min(W, inb + 1)])
    else:
        ops.append([10, W])      # consume one word entirely -> 0 in buffer
        ops.append([13, 1])      # refill: W in buffer
    return ops


def gen_reader_cases(rng, tier, with_pos):
    cases = []
    ci = 0
    for E in (0, 1):
        for W in WORDS_R:
            Wb = W if W else 64
            fills = levels_for(2 * Wb, rng, 32 if tier == "quick" else 128) if W else list(range(0, 64, 1 if tier != "quick" else 5))
            for fill in fills:
                pre = reader_fill_prefix(W, fill, rng)
                pats = patterns(rng, 6 * Wb // 8 + 40)
                if tier == "quick":
                    pats = [pats[0], pats[rng.randrange(1, 5)]]
                for pname, data in pats:
                    strict = rng.randrange(2)
                    if pname in ("zeros", "sparse", "zero_run"):
                        strict = 1      # read_unary over an all-zero zero-extended tail never returns
                    rb = rng.choice([0, 0, 2, 3]) if strict else 0
                    hdr = world_hdr(E, rW=W, rstrict=strict, rbackend=rb)
                    # every kind of continuation: a plain read repairs a dirty buffer, a look-ahead does not
                    conts = [[[10, 13]], [[13, min(Wb if W else 32, 9)], [10, 7]], [[11]], [[13, 1], [14, 1], [10, 9]],
                             [[13, min(Wb if W else 32, 12)], [13, 3], [10, 20]]]
                    if W != 8:
                        conts.append([[15, 1, 0, 1], [10, 5]])
                    opsets = []
                    ns = list(range(0, 65)) if tier != "quick" else sorted(set(
                        [0, 1, 2, 7, 8, 9, 31, 32, 33, 63, 64, min(64, fill), min(64, fill + 1), min(64, fill + Wb), max(0, min(64, fill - 1))]
                        + [rng.randrange(65) for _ in range(3)]))
                    for n in ns:
                        opsets.append(("rbits", [[10, n]]))
                    opsets.append(("runary", [[11]]))
                    for n in ([1, 2, Wb // 2, Wb - 1, Wb] if W else [1, 2, 16, 31, 32]):
                        if n >= 1:
                            opsets.append(("peek", [[13, n], [13, n]]))
                            opsets.append(("peek_skip", [[13, n], [14, max(1, n // 2)]]))
                    # skips relative to the buffer state: ending exactly on a word boundary, one before, one after
                    for n in sorted(set([0, 1, Wb - 1, Wb, Wb + 1, 2 * Wb, 2 * Wb + 3, rng.randrange(3 * Wb),
                                         fill, fill + 1, fill + Wb, fill + Wb - 1, fill + Wb + 1, fill + 2 * Wb, fill + 3 * Wb])):
                        opsets.append(("skip", [[12, n]]))
                    if rb != 2:
                        opsets.append(("clone", [[19], [10, 5], [20], [10, 5], [20], [10, 7]]))
                    for name, ops in opsets:
                        kinds = conts if name == "skip" else [conts[ci % len(conts)]]
                        ci += 1
                        for cont0 in kinds:
                            cont = cont0 + ([[17]] if with_pos else [])
                            if not strict and pname != "random" and pname != "ones" and any(o[0] in (11, 15) for o in cont):
                                continue
                            full = pre + ([[17]] if with_pos else []) + ops + cont
                            cases.append(Case([hdr, data] + full, "%s/%s/W%d" % (name, pname, W)))
    # random histories
    n_hist = 300 if tier == "quick" else 3000
    for _ in range(n_hist):
        E = rng.randrange(2)
        W = rng.choice(WORDS_R)
        Wb = W if W else 64
        pname, data = rng.choice(patterns(rng, rng.randrange(16, 400)))
        strict = 1 if pname in ("zeros", "sparse", "zero_run") else rng.randrange(2)
        rb = rng.choice([0, 0, 2, 3]) if strict else 0
        total = len(data) * 8
        ops = []
        pos = 0
        for _ in range(rng.randrange(1, 80)):
            k = rng.random()
            if k < 0.4:
                n = rng.randrange(65)
                ops.append([10, n]); pos += n
            elif k < 0.5:
                if not strict and (pname != "random" and pname != "ones" or pos is None or pos > total - 300):
                    continue     # read_unary into a zero-extended tail never returns
                ops.append([11]); pos = None
            elif k < 0.65:
                n = rng.randrange(1, (Wb if W else 32) + 1)
                ops.append([13, n])
                if rng.random() < 0.5:
                    m = rng.randrange(1, n + 1)
                    ops.append([14, m])
                    if pos is not None:
                        pos += m
            elif k < 0.75:
                n = rng.randrange(3 * Wb)
                ops.append([12, n])
                if pos is not None:
                    pos += n
            elif k < 0.85 and with_pos:
                ops.append([17])
            elif with_pos:
                p = rng.randrange(total + 1)
                ops.append([18, p]); ops.append([17]); pos = p
            else:
                ops.append([10, rng.randrange(65)])
            if pos is None:
                ops.append([17] if with_pos else [10, 0])
                break
        cases.append(Case([world_hdr(E, rW=W, rstrict=strict, rbackend=rb), data] + ops, "history/%s/W%d" % (pname, W)))
    return cases


def gen_C02(rng, tier):
    return gen_reader_cases(rng, tier, with_pos=False)


def gen_C07(rng, tier):
    cases = gen_reader_cases(rng, tier, with_pos=True)
    # every seek target followed by every kind of operation
    for E in (0, 1):
        for W in WORDS_R:
            Wb = W if W else 64
            nbytes = 4 * Wb // 8
            for strict, rb in ((0, 0), (1, 0), (1, 2), (1, 3)):
                pname, data = rng.choice(patterns(rng, nbytes)[:2])
                total = nbytes * 8
                targets = range(0, total + 1) if (tier != "quick" or Wb <= 16) else sorted(set(
                    [0, 1, Wb - 1, Wb, Wb + 1, 2 * Wb, total - Wb, total - 1, total] + [rng.randrange(total + 1) for _ in range(10)]))
                for p in targets:
                    for name, ops in (("rbits", [[10, 11]]), ("runary", [[11]]), ("peek", [[13, 3]]), ("skip", [[12, 9]]),
                                      ("code", [[15, 1, 0, 1 if W != 8 else 0]])):
                        if not strict and name in ("runary", "code") and p > total - 2 * Wb:
                            continue     # unary scan into the zero-extended tail never returns
                        cases.append(Case([world_hdr(E, rW=W, rstrict=strict, rbackend=rb), data] +
                                          [[10, 5], [18, p], [17]] + ops + [[17]], "seek/%s/W%d" % (name, W)))
    return cases


# ---------------------------------------------------------------------------- codes
# (id, param) grid
def code_params(rng, tier):
    ps = [(0, 0), (1, 0), (2, 0), (3, 0), (4, 0), (5, 0), (12, 0)]
    ks = [1, 2, 3, 4, 5, 7, 8, 10, 16, 31, 32, 33, 62, 63]
    for k in ks:
        ps.append((6, k))
    for k in [0] + ks:
        ps.append((7, k)); ps.append((9, k)); ps.append((10, k))
    for b in [1, 2, 3, 4, 5, 6, 7, 8, 9, 10, 11, 16, 17, 100, 255, 256, 257, 65535, 65536, (1 << 20) + 7, (1 << 31) - 1, 1 << 31,
              (1 << 32) - 1, 1 << 32, (1 << 32) + 1, (1 << 40) + 3, (1 << 62) + 12345, 1 << 63, (1 << 63) + 1, U64]:
        ps.append((8, b)); ps.append((11, b))
    return ps


def code_maxv(cid):
    return U64 if cid in (4, 5) else U64 - 1


def writable(cid, p, v):
    """keep codewords short enough to execute (unary-prefixed codes)"""
    if cid == 0:
        return v <= 3000
    if cid == 10:
        return (v >> p) <= 3000
    if cid == 8:
        return v // p <= 3000
    if cid == 11:
        return v < p
    if cid == 7:
        return ((v + 1).bit_length() - 1) >> p <= 3000
    return True


def flag_options(cid):
    if cid == 1 or cid == 12:
        return [0, 1, 4]
    if cid == 2:
        return [0, 1, 2, 3, 4]
    if cid == 6:
        return [0, 4]
    return [0]


def values_for(rng, cid, p, tier):
    maxv = code_maxv(cid)
    vs = boundary_values(rng, 6, maxv)
    if tier != "quick":
        vs = sorted(set(vs) | set(range(0, 1 << 10)))
    else:
        vs = sorted(set(vs) | set(range(0, 130)) | {rng.randrange(1 << 10) for _ in range(10)})
    if cid == 11:
        vs = sorted({v for v in vs if v < p} | {p - 1, p // 2, rng.randrange(p)})
    return [v for v in vs if writable(cid, p, v)]
