(* Extraction of the executable model for the correspondence check.
   ExtrOcamlBasic only (bool/option/list/prod/unit mapped to OCaml's); N/positive/nat/Z stay
   the extracted inductive types — no Extract Constant / Extract Inductive of our own. *)
From DSI Require Import Run.
Require Import ExtrOcamlBasic.
Extraction Language OCaml.
Extraction "model.ml" run_case.
