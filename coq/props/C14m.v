(* C14m: the counting wrappers (World.v: count_wprims / count_rprims, utils/count.rs) over the L2
   word MACHINES of any word width: transparent, and the counters move by exactly the number of bits
   appended to the abstract stream / the advance of the stream position.  Lift of props/C14.v.
   Statements only; proofs and examples are in theories/MachineViews.v.
   item / item_valid / item_cw / stream are those of EndToEnd.v (C03e); write_seq / read_seq are its
   driver loops made generic in the primitives; sum_len = the sum of LEN (code_cw ...) of the items. *)
From DSI Require Import Base Words Prog Codes Writer Reader Abs World BitFacts CodesProofs Run
  CodesSummary EndToEnd MachineViews.
Open Scope N_scope.

(* ---------------------------------------------------------------- transparency (any program) *)
Theorem C14m_transparent_writer : forall (A : Type) E W checks (p : wprog A) s c,
  match wrun (bwprims E W checks) p s with
  | Ok (a, s') => exists c', wrun (count_wprims (bwprims E W checks)) p (s, c) = Ok (a, (s', c'))
  | Err => wrun (count_wprims (bwprims E W checks)) p (s, c) = Err
  | Fail => wrun (count_wprims (bwprims E W checks)) p (s, c) = Fail
  | Fuel => wrun (count_wprims (bwprims E W checks)) p (s, c) = Fuel
  end.
Proof. exact (@MachineViews.count_transparent_bw). Qed.
Print Assumptions C14m_transparent_writer.

Theorem C14m_transparent_reader : forall (A : Type) E W (p : rprog A) s c,
  match rrun (brprims E W) p s with
  | Ok (a, s') => exists c', rrun (count_rprims (brprims E W)) p (s, c) = Ok (a, (s', c'))
  | Err => rrun (count_rprims (brprims E W)) p (s, c) = Err
  | Fail => rrun (count_rprims (brprims E W)) p (s, c) = Fail
  | Fuel => rrun (count_rprims (brprims E W)) p (s, c) = Fuel
  end.
Proof. exact (@MachineViews.count_transparent_br). Qed.
Print Assumptions C14m_transparent_reader.

Theorem C14m_transparent_ureader : forall (A : Type) E (p : rprog A) s c,
  match rrun (urprims E) p s with
  | Ok (a, s') => exists c', rrun (count_rprims (urprims E)) p (s, c) = Ok (a, (s', c'))
  | Err => rrun (count_rprims (urprims E)) p (s, c) = Err
  | Fail => rrun (count_rprims (urprims E)) p (s, c) = Fail
  | Fuel => rrun (count_rprims (urprims E)) p (s, c) = Fuel
  end.
Proof. exact (@MachineViews.count_transparent_ur). Qed.
Print Assumptions C14m_transparent_ureader.

(* ---------------------------------------------------------------- writer: exact counts *)
(* bits_written grows by exactly the growth of the abstract stream, for EVERY write program, on a
   writer of any width, either build *)
Theorem C14m_count_exact_writer : forall (A : Type) E W checks (p : wprog A) s c a s' c',
  WInv W s ->
  wrun (count_wprims (bwprims E W checks)) p (s, c) = Ok (a, (s', c')) ->
  WInv W s' /\ c <= c' /\ c' + LEN (wabs E W s) = c + LEN (wabs E W s').
Proof. exact (@MachineViews.count_w_exact_machine). Qed.
Print Assumptions C14m_count_exact_writer.

(* a code through the wrapper: result and machine state of the run without it, counter + LEN *)
Theorem C14m_count_code_write : forall E W D checks id p fl v b s c,
  wrel E W b s -> valid id p v ->
  (exists s', wrun (bwprims E W checks) (sel_write E D checks id p fl v) s = Ok (LEN (code_cw E id p v), s') /\
              wrun (count_wprims (bwprims E W checks)) (sel_write E D checks id p fl v) (s, c)
              = Ok (LEN (code_cw E id p v), (s', c + LEN (code_cw E id p v))) /\
              WInv W s' /\ wabs E W s' = b ++ code_cw E id p v)
  \/ (wrun (bwprims E W checks) (sel_write E D checks id p fl v) s = Err /\
      wrun (count_wprims (bwprims E W checks)) (sel_write E D checks id p fl v) (s, c) = Err).
Proof. exact MachineViews.count_code_write_machine. Qed.
Print Assumptions C14m_count_code_write.

Theorem C14m_count_io_write : forall E W checks buf b s c,
  wrel E W b s -> Forall (fun x => x < 256) buf ->
  (exists s', wrun (bwprims E W checks) (io_write E buf) s = Ok (N.of_nat (length buf), s') /\
              wrun (count_wprims (bwprims E W checks)) (io_write E buf) (s, c)
              = Ok (N.of_nat (length buf), (s', c + 8 * N.of_nat (length buf))) /\
              WInv W s' /\ wabs E W s' = b ++ bits_of_bytes E buf)
  \/ (wrun (bwprims E W checks) (io_write E buf) s = Err /\
      wrun (count_wprims (bwprims E W checks)) (io_write E buf) (s, c) = Err).
Proof. exact MachineViews.count_io_write_machine. Qed.
Print Assumptions C14m_count_io_write.

(* ---------------------------------------------------------------- buffered reader: exact counts *)
(* the wrapper preserves any simulation between reader primitives *)
Theorem C14m_count_rprims_sim : forall (S1 S2 : Type) (R : S1 -> S2 -> Prop) (P1 : rprims S1) (P2 : rprims S2),
  rprims_sim R P1 P2 -> rprims_sim (crel R) (count_rprims P1) (count_rprims P2).
Proof. exact (@MachineViews.count_rprims_sim). Qed.
Print Assumptions C14m_count_rprims_sim.

(* bits_read grows by exactly the position advance for EVERY read program (peek_bits /
   skip_bits_after_peek included) whose specification run from the abstraction of the machine state
   is Ok *)
Theorem C14m_count_exact_reader : forall (A : Type) E W (p : rprog A) s pos pk c a r',
  RInv E W s pos -> W * N.of_nat (length (ws_words (br_src s))) <= 2 ^ 64 -> pk <= br_bits s ->
  rrun (sprims E (ws_strict (br_src s)) W) p (rabs E W s pos pk) = Ok (a, r') ->
  pos <= sr_pos r' /\
  exists s', rrun (brprims E W) p s = Ok (a, s') /\
             rrun (count_rprims (brprims E W)) p (s, c) = Ok (a, (s', c + (sr_pos r' - pos))) /\
             RInv E W s' (sr_pos r') /\
             ws_words (br_src s') = ws_words (br_src s) /\ ws_strict (br_src s') = ws_strict (br_src s).
Proof. exact (@MachineViews.count_r_exact_machine). Qed.
Print Assumptions C14m_count_exact_reader.

Theorem C14m_count_code_read : forall E W D id p fl v s pos post c,
  RInv E W s pos -> W * N.of_nat (length (ws_words (br_src s))) <= 2 ^ 64 -> maxcap <= W ->
  valid id p v ->
  skipn (N.to_nat pos) (src_bits E W (br_src s)) = code_cw E id p v ++ post ->
  exists s', rrun (brprims E W) (sel_read E D id p fl) s = Ok (v, s') /\
             rrun (count_rprims (brprims E W)) (sel_read E D id p fl) (s, c)
             = Ok (v, (s', c + LEN (code_cw E id p v))) /\
             RInv E W s' (pos + LEN (code_cw E id p v)) /\
             ws_words (br_src s') = ws_words (br_src s) /\ ws_strict (br_src s') = ws_strict (br_src s).
Proof. exact MachineViews.count_code_read_machine. Qed.
Print Assumptions C14m_count_code_read.

Theorem C14m_count_io_read : forall E W bytes s pos post c,
  RInv E W s pos -> W * N.of_nat (length (ws_words (br_src s))) <= 2 ^ 64 ->
  Forall (fun x => x < 256) bytes ->
  skipn (N.to_nat pos) (src_bits E W (br_src s)) = bits_of_bytes E bytes ++ post ->
  exists s', rrun (brprims E W) (io_read E (N.of_nat (length bytes))) s = Ok (bytes, s') /\
             rrun (count_rprims (brprims E W)) (io_read E (N.of_nat (length bytes))) (s, c)
             = Ok (bytes, (s', c + 8 * N.of_nat (length bytes))) /\
             RInv E W s' (pos + 8 * N.of_nat (length bytes)) /\
             ws_words (br_src s') = ws_words (br_src s) /\ ws_strict (br_src s') = ws_strict (br_src s).
Proof. exact MachineViews.count_io_read_machine. Qed.
Print Assumptions C14m_count_io_read.

(* ---------------------------------------------------------------- unbuffered reader: exact counts *)
(* the state is the bit index: the counter follows it for EVERY program, with no hypothesis *)
Theorem C14m_count_exact_ureader : forall (A : Type) E (p : rprog A) s c a s' c',
  rrun (count_rprims (urprims E)) p (s, c) = Ok (a, (s', c')) ->
  c <= c' /\ c' + ur_index s = c + ur_index s'.
Proof. exact (@MachineViews.count_u_exact). Qed.
Print Assumptions C14m_count_exact_ureader.

Theorem C14m_count_code_read_u : forall E D id p fl v s post c,
  UInv s -> maxcap <= 32 -> valid id p v ->
  ur_index s + LEN (code_cw E id p v) < 2 ^ 63 ->
  skipn (N.to_nat (ur_index s)) (src_bits E 64 (ur_src s)) = code_cw E id p v ++ post ->
  exists s', rrun (urprims E) (sel_read E D id p fl) s = Ok (v, s') /\
             rrun (count_rprims (urprims E)) (sel_read E D id p fl) (s, c)
             = Ok (v, (s', c + LEN (code_cw E id p v))) /\
             UInv s' /\ ur_index s' = ur_index s + LEN (code_cw E id p v) /\
             ws_words (ur_src s') = ws_words (ur_src s).
Proof. exact MachineViews.count_code_read_umachine. Qed.
Print Assumptions C14m_count_code_read_u.

Theorem C14m_count_io_read_u : forall E bytes s post c,
  UInv s -> Forall (fun x => x < 256) bytes ->
  ur_index s + 8 * N.of_nat (length bytes) < 2 ^ 63 ->
  skipn (N.to_nat (ur_index s)) (src_bits E 64 (ur_src s)) = bits_of_bytes E bytes ++ post ->
  exists s', rrun (urprims E) (io_read E (N.of_nat (length bytes))) s = Ok (bytes, s') /\
             rrun (count_rprims (urprims E)) (io_read E (N.of_nat (length bytes))) (s, c)
             = Ok (bytes, (s', c + 8 * N.of_nat (length bytes))) /\
             UInv s' /\ ur_index s' = ur_index s + 8 * N.of_nat (length bytes) /\
             ws_words (ur_src s') = ws_words (ur_src s).
Proof. exact MachineViews.count_io_read_umachine. Qed.
Print Assumptions C14m_count_io_read_u.

(* ---------------------------------------------------------------- sequences *)
Theorem C14m_sum_len : forall E items, LEN (stream E items) = sum_len E items.
Proof. exact MachineViews.LEN_stream. Qed.
Print Assumptions C14m_sum_len.

(* without the wrapper write_seq is the driver loop of C03e *)
Theorem C14m_write_seq_plain : forall E W D checks items s,
  write_seq E D (bwprims E W checks) checks items s = EndToEnd.write_items E W D checks items s.
Proof. exact MachineViews.write_seq_plain. Qed.
Print Assumptions C14m_write_seq_plain.

(* valid items written one after another through the counting wrapper over a writer of any width:
   total returned = counter increase = sum of the codeword lengths = bits appended to the abstract
   stream; the machine state is the one reached without the wrapper; or the sink is full *)
Theorem C14m_count_write_seq : forall E W D checks items b s c,
  wrel E W b s -> Forall item_valid items ->
  (exists s', write_seq E D (count_wprims (bwprims E W checks)) checks items (s, c)
              = Ok (sum_len E items, (s', c + sum_len E items)) /\
              write_seq E D (bwprims E W checks) checks items s = Ok (sum_len E items, s') /\
              WInv W s' /\ wabs E W s' = b ++ stream E items /\
              LEN (wabs E W s') = LEN b + sum_len E items)
  \/ (write_seq E D (count_wprims (bwprims E W checks)) checks items (s, c) = Err /\
      write_seq E D (bwprims E W checks) checks items s = Err).
Proof. exact MachineViews.count_write_seq_machine. Qed.
Print Assumptions C14m_count_write_seq.

Theorem C14m_count_write_seq_unbounded : forall E W D checks items b s c,
  wrel E W b s -> wk_cap (bw_sink s) = None -> Forall item_valid items ->
  exists s', write_seq E D (count_wprims (bwprims E W checks)) checks items (s, c)
             = Ok (sum_len E items, (s', c + sum_len E items)) /\
             write_seq E D (bwprims E W checks) checks items s = Ok (sum_len E items, s') /\
             WInv W s' /\ wabs E W s' = b ++ stream E items /\
             LEN (wabs E W s') = LEN b + sum_len E items.
Proof. exact MachineViews.count_write_seq_machine_unbounded. Qed.
Print Assumptions C14m_count_write_seq_unbounded.

(* the same items read back through the counting wrapper over a buffered reader of any width serving
   the tables: the values come back, bits_read grows by the same sum *)
Theorem C14m_count_read_seq : forall E W D items s pos post c,
  RInv E W s pos -> W * N.of_nat (length (ws_words (br_src s))) <= 2 ^ 64 -> maxcap <= W ->
  Forall item_valid items ->
  skipn (N.to_nat pos) (src_bits E W (br_src s)) = stream E items ++ post ->
  exists s', read_seq E D (count_rprims (brprims E W)) items (s, c)
             = Ok (map it_v items, (s', c + sum_len E items)) /\
             read_seq E D (brprims E W) items s = Ok (map it_v items, s') /\
             RInv E W s' (pos + sum_len E items) /\
             ws_words (br_src s') = ws_words (br_src s) /\ ws_strict (br_src s') = ws_strict (br_src s).
Proof. exact MachineViews.count_read_seq_machine. Qed.
Print Assumptions C14m_count_read_seq.
