(* C14 — counting wrappers are transparent and count exactly.  (The Dbg wrappers forward every
   call unchanged; their transparency is carried by the correspondence check only.) *)
From DSI Require Import Base Prog Codes World BitFacts CodesProofs Run CodesSummary WrappersProofs.
Open Scope N_scope.

(* values, errors and the wrapped stream's state are those of the unwrapped run, for ANY wrapped
   writer/reader (bit list or word machine of any width) and ANY program *)
Theorem C14_transparent_writer : forall (S A : Type) (Q : wprims S) (p : wprog A) s c,
  match wrun Q p s with
  | Ok (a, s') => exists c', wrun (count_wprims Q) p (s, c) = Ok (a, (s', c'))
  | Err => wrun (count_wprims Q) p (s, c) = Err
  | Fail => wrun (count_wprims Q) p (s, c) = Fail
  | Fuel => wrun (count_wprims Q) p (s, c) = Fuel
  end.
Proof. intros S A Q p s c. exact (count_w_transparent Q p s c). Qed.
Print Assumptions C14_transparent_writer.

Theorem C14_transparent_reader : forall (S A : Type) (P : rprims S) (p : rprog A) s c,
  match rrun P p s with
  | Ok (a, s') => exists c', rrun (count_rprims P) p (s, c) = Ok (a, (s', c'))
  | Err => rrun (count_rprims P) p (s, c) = Err
  | Fail => rrun (count_rprims P) p (s, c) = Fail
  | Fuel => rrun (count_rprims P) p (s, c) = Fuel
  end.
Proof. intros S A P p s c. exact (count_r_transparent P p s c). Qed.
Print Assumptions C14_transparent_reader.

(* bits_written grows by exactly the number of bits appended, for every write program *)
Theorem C14_count_exact_writer : forall E checks (A : Type) (p : wprog A) b c a b' c',
  wrun (count_wprims (swprims E checks)) p (b, c) = Ok (a, (b', c')) -> c' + LEN b = c + LEN b'.
Proof. intros E checks A. exact (@count_w_exact E checks A). Qed.
Print Assumptions C14_count_exact_writer.

(* bits_read grows by exactly the position advance, for every read program, including those
   built on peek_bits / skip_bits_after_peek (omega, table-driven gamma/delta/zeta) *)
Theorem C14_count_exact_reader : forall E strict cap (A : Type) (p : rprog A) r c a r' c',
  rrun (count_rprims (sprims E strict cap)) p (r, c) = Ok (a, (r', c')) -> c' + sr_pos r = c + sr_pos r'.
Proof. intros E strict cap A. exact (@count_r_exact E strict cap A). Qed.
Print Assumptions C14_count_exact_reader.

(* the forwarded parameterless methods add len(value) = bits consumed *)
Theorem C14_forwarded_exact : forall E D id p v strict cap post pos pk,
  valid id p v -> maxcap <= cap ->
  exists pk' l,
    rrun (sprims E strict cap) (sel_read E D id p 4) (mkr (code_cw E id p v ++ post) pos pk) = Ok (v, mkr post (pos + l) pk') /\
    sel_len D id p 4 v = Some l.
Proof. exact WrappersProofs.forwarded_exact. Qed.
Print Assumptions C14_forwarded_exact.
