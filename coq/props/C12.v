(* C12: the std::io::Write / std::io::Read views of a bit stream are byte-exact.
   Model: World.v, Section IoViews (io_write / io_read), interpreted on the L0 bit-list
   specification (Prog.v: swprims = writer, state = bits written so far; sprims = reader,
   state = mkr rest pos peeked).  bits_of_bytes E bytes = the bytes as stream bits, in order
   (BE: most significant bit of each byte first; LE: least significant first);
   image E bits = the memory image (bytes) of a bit list (Base.v). *)
From DSI Require Import Base Prog Words World BitFacts IoViewsProofs.

(* write: exactly those bytes, in order, at the current (arbitrary) bit position; the whole
   slice is reported as transferred; with checks on no write trips the argument check *)
Theorem C12_write : forall E checks buf s,
  Forall (fun b => b < 256) buf ->
  wrun (swprims E checks) (io_write E buf) s
  = Ok (N.of_nat (length buf), s ++ bits_of_bytes E buf).
Proof. exact IoViewsProofs.io_write_ok. Qed.
Print Assumptions C12_write.

(* read: the bytes obtained are the next 8*len stream bits grouped in stream order *)
Theorem C12_read : forall E strict cap bytes post pos pk,
  Forall (fun b => b < 256) bytes ->
  rrun (sprims E strict cap) (io_read E (N.of_nat (length bytes)))
       (mkr (bits_of_bytes E bytes ++ post) pos pk)
  = Ok (bytes, mkr post (pos + 8 * N.of_nat (length bytes))
                   (match bytes with [] => pk | _ :: _ => 0 end)).
Proof. exact IoViewsProofs.io_read_ok. Qed.
Print Assumptions C12_read.

(* read of n bytes from ANY 8n bits: the byte image of those bits *)
Theorem C12_read_any_stream : forall E strict cap bs post pos pk n,
  N.of_nat (length bs) = 8 * n ->
  rrun (sprims E strict cap) (io_read E n) (mkr (bs ++ post) pos pk)
  = Ok (image E bs, mkr post (pos + 8 * n) (if n =? 0 then pk else 0)).
Proof. exact IoViewsProofs.io_read_any_stream. Qed.
Print Assumptions C12_read_any_stream.

(* at byte-aligned positions the memory image and the byte slices coincide *)
Theorem C12_aligned_image : forall E buf,
  Forall (fun b => b < 256) buf -> image E (bits_of_bytes E buf) = buf.
Proof. exact IoViewsProofs.image_bob. Qed.
Print Assumptions C12_aligned_image.

Theorem C12_aligned_image_app : forall E s k buf,
  length s = (8 * k)%nat -> Forall (fun b => b < 256) buf ->
  image E (s ++ bits_of_bytes E buf) = image E s ++ buf.
Proof. exact IoViewsProofs.image_app_bob. Qed.
Print Assumptions C12_aligned_image_app.

(* write buf after s, then position a reader of the resulting stream (followed by anything)
   at bit length s and read length buf bytes: buf comes back, the reader stops at its end *)
Theorem C12_write_read : forall E checks strict cap buf s post,
  Forall (fun b => b < 256) buf ->
  exists out,
    wrun (swprims E checks) (io_write E buf) s = Ok (N.of_nat (length buf), out) /\
    obind (s_skip strict (N.of_nat (length s)) (sreader_of (out ++ post)))
          (fun r => rrun (sprims E strict cap) (io_read E (N.of_nat (length buf))) r)
    = Ok (buf, mkr post (N.of_nat (length s) + 8 * N.of_nat (length buf)) 0).
Proof. exact IoViewsProofs.io_write_read. Qed.
Print Assumptions C12_write_read.

(* strict stream with fewer than 8*n bits left: Err, never fabricated bytes *)
Theorem C12_strict_short : forall E cap bs n pos pk,
  N.of_nat (length bs) < 8 * n ->
  rrun (sprims E true cap) (io_read E n) (mkr bs pos pk) = Err.
Proof. exact IoViewsProofs.io_read_strict_short. Qed.
Print Assumptions C12_strict_short.
