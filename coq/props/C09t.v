(* C09t — strict end of stream inside a codeword: decoding a truncated codeword (any code, any
   parameter of its domain, any table option, any default-parameter record, any look-ahead capacity
   serving the tables, any position) on a strict stream is an error, never a fabricated value. *)
From DSI Require Import Base Prog Codes BitFacts Run CodesSummary TruncProofs.
Open Scope N_scope.

Theorem C09t_truncated_code_err : forall E D id p fl v cap pos pk (pre : bits),
  valid id p v -> maxcap <= cap ->
  (exists rest, rest <> [] /\ code_cw E id p v = pre ++ rest) ->
  rrun (sprims E true cap) (sel_read E D id p fl) (mkr pre pos pk) = Err.
Proof. exact TruncProofs.truncated_code_err. Qed.
Print Assumptions C09t_truncated_code_err.

Theorem C09t_truncated_never_value : forall E D id p fl v cap pos pk (pre : bits),
  valid id p v -> maxcap <= cap ->
  (exists rest, rest <> [] /\ code_cw E id p v = pre ++ rest) ->
  forall v' s', rrun (sprims E true cap) (sel_read E D id p fl) (mkr pre pos pk) <> Ok (v', s').
Proof. exact TruncProofs.truncated_never_value. Qed.
Print Assumptions C09t_truncated_never_value.
