(* C02 / C07 / C09 — the buffered bit reader (Reader.v, BufBitReader) refines the bit-list reader of Prog.v *)
From DSI Require Import Base Words Prog Reader Abs ReaderProofs.
Open Scope N_scope.

Theorem C02_new : forall E W words strict, wordsize_ok W -> W <= 64 -> Forall (fun w => w < 2 ^ W) words ->
  RInv E W (br_new words strict) 0.
Proof. exact ReaderProofs.new_inv. Qed.
Print Assumptions C02_new.

Theorem C02_read_bits_sim : forall E W n r s, rrel E W r s ->
  osim (rrel E W) (s_bits E (ws_strict (br_src s)) n r) (br_read_bits E W n s).
Proof. exact ReaderProofs.read_bits_sim_rrel. Qed.
Print Assumptions C02_read_bits_sim.

(* _partial: the requested statement has no bound on the stream length.  It is FALSE without one:
   br_read_unary adds the zero count with a checked u64 addition (add64), so on a stream with at least
   2^64 zeros before the next one the machine is Fail while the spec returns Ok.  Proved here for every
   source of at most 2^64 bits. *)
Theorem C02_read_unary_sim_partial : forall E W r s, rrel E W r s ->
  W * N.of_nat (length (ws_words (br_src s))) <= 2 ^ 64 ->
  osim (rrel E W) (s_unary (ws_strict (br_src s)) r) (br_read_unary E W s).
Proof. exact ReaderProofs.read_unary_sim_rrel. Qed.
Print Assumptions C02_read_unary_sim_partial.

Theorem C02_peek_sim : forall E W n r s, rrel E W r s ->
  osim (rrel E W) (s_peek E (ws_strict (br_src s)) W n r) (br_peek E W n s).
Proof. exact ReaderProofs.peek_sim_rrel. Qed.
Print Assumptions C02_peek_sim.

Theorem C02_skipap_sim : forall E W n r s, rrel E W r s ->
  osim0 (rrel E W) (s_skipap (ws_strict (br_src s)) n r) (br_skipap E W n s).
Proof. exact ReaderProofs.skipap_sim_rrel. Qed.
Print Assumptions C02_skipap_sim.

Theorem C02_skip_bits_sim : forall E W n r s, rrel E W r s ->
  osim0 (rrel E W) (s_skip (ws_strict (br_src s)) n r) (br_skip_bits E W n s).
Proof. exact ReaderProofs.skip_bits_sim_rrel. Qed.
Print Assumptions C02_skip_bits_sim.

(* _partial only because of the 2^64-bit bound inherited from read_unary (see above).  The relation
   fixes the word list and the strict flag, which no operation changes. *)
Theorem C02_prims_sim_partial : forall E W ws strict, W * N.of_nat (length ws) <= 2 ^ 64 ->
  rprims_sim (fun r s => rrel E W r s /\ ws_words (br_src s) = ws /\ ws_strict (br_src s) = strict)
             (sprims E strict W) (brprims E W).
Proof. exact ReaderProofs.prims_sim_fun. Qed.
Print Assumptions C02_prims_sim_partial.

Theorem C02_programs_partial : forall E W ws strict A (p : rprog A) r s, W * N.of_nat (length ws) <= 2 ^ 64 ->
  rrel E W r s -> ws_words (br_src s) = ws -> ws_strict (br_src s) = strict ->
  osim (fun r s => rrel E W r s /\ ws_words (br_src s) = ws /\ ws_strict (br_src s) = strict)
       (rrun (sprims E strict W) p r) (rrun (brprims E W) p s).
Proof. exact ReaderProofs.programs_sim_fun. Qed.
Print Assumptions C02_programs_partial.

Theorem C02_programs_fresh_partial : forall E W ws strict A (p : rprog A),
  wordsize_ok W -> W <= 64 -> Forall (fun w => w < 2 ^ W) ws -> W * N.of_nat (length ws) <= 2 ^ 64 ->
  osim (rrel E W) (rrun (sprims E strict W) p (sreader_of (bits_of_words E W ws)))
                  (rrun (brprims E W) p (br_new ws strict)).
Proof. exact ReaderProofs.programs_fresh. Qed.
Print Assumptions C02_programs_fresh_partial.

Theorem C02_read_bits_value : forall E W s pos n, RInv E W s pos -> n <= 64 ->
  (ws_strict (br_src s) = true -> pos + n <= W * N.of_nat (length (ws_words (br_src s)))) ->
  exists s', br_read_bits E W n s =
             Ok (val E (take_pad (N.to_nat n) (skipn (N.to_nat pos) (src_bits E W (br_src s)))), s') /\
             RInv E W s' (pos + n) /\ ws_words (br_src s') = ws_words (br_src s) /\
             ws_strict (br_src s') = ws_strict (br_src s).
Proof. exact ReaderProofs.read_bits_value. Qed.
Print Assumptions C02_read_bits_value.







(* the statement of C02_read_unary_sim without a length bound is refuted (source of 2^58 zero words of
   64 bits followed by the word 1: the spec is Ok/Err, the machine's add64 overflows: Fail) *)
Theorem C02_read_unary_unbounded_false :
  exists r s, rrel BE 64 r s /\ ~ osim (rrel BE 64) (s_unary (ws_strict (br_src s)) r) (br_read_unary BE 64 s).
Proof. exact ReaderProofs.unary_unbounded_counterexample. Qed.
Print Assumptions C02_read_unary_unbounded_false.
