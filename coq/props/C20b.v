(* C20 (code-specific part): the code lengths of every code of the library are monotone in the
   value and Kraft-bounded.
   Vocabulary: CodesSummary.v — `valid id p v` (domain of code id with parameter p),
   `code_cw E id p v` (the codeword the library writes; ids 0 unary, 1 gamma, 2 delta, 3 omega,
   4 VByte-BE, 5 VByte-LE, 6 zeta_p, 7 pi_p, 8 Golomb_p, 9 exp-Golomb_p, 10 Rice_p,
   11 minimal binary in [0,p), 12 zeta_3), Run.v — `sel_len D id p fl v` (the library's length
   function, table options fl); Kraft.v — `weight cw = 1 / 2^(length cw)`, `wsum`, `prefix`;
   LenProofs.v — `lweight l = 1 / 2^l`, `lsum ls = sum of lweight l`. *)
From Coq Require Import List NArith QArith.
From DSI Require Import Base Codes CodeDefs CodesProofs Run CodesSummary Kraft LenProofs.
Import ListNotations.

(* distinct values of the domain: distinct codewords, none a prefix of another, Kraft sum <= 1 *)
Theorem C20_prefix_free : forall (E : endian) (id p : N) (ns : list N),
  NoDup ns -> Forall (fun v => valid id p v) ns ->
  NoDup (map (code_cw E id p) ns) /\
  (forall a b, In a (map (code_cw E id p) ns) -> In b (map (code_cw E id p) ns) -> prefix a b -> a = b) /\
  (wsum (map (code_cw E id p) ns) <= 1)%Q.
Proof. exact LenProofs.code_prefix_free. Qed.
Print Assumptions C20_prefix_free.

Theorem C20_kraft : forall (E : endian) (id p : N) (ns : list N),
  NoDup ns -> Forall (fun v => valid id p v) ns ->
  (wsum (map (code_cw E id p) ns) <= 1)%Q.
Proof. exact LenProofs.code_kraft. Qed.
Print Assumptions C20_kraft.

(* in particular for the first n values 0 .. n-1, for every n *)
Theorem C20_kraft_first : forall (E : endian) (id p : N) (n : nat),
  (forall v, (v < N.of_nat n)%N -> valid id p v) ->
  (wsum (map (code_cw E id p) (map N.of_nat (seq 0 n))) <= 1)%Q.
Proof. exact LenProofs.code_kraft_first. Qed.
Print Assumptions C20_kraft_first.

(* the weight of a codeword is 1 / 2^len, len the value of the library's length function *)
Theorem C20_weight_len : forall (E : endian) (D : params) (id p fl v l : N),
  valid id p v -> sel_len D id p fl v = Some l ->
  weight (code_cw E id p v) = (1 # pow2pos (N.to_nat l))%Q.
Proof. exact LenProofs.weight_len. Qed.
Print Assumptions C20_weight_len.

Theorem C20_weight_len_pow : forall (E : endian) (D : params) (id p fl v l : N),
  valid id p v -> sel_len D id p fl v = Some l ->
  (weight (code_cw E id p v) == (1 # 2) ^ Z.of_N l)%Q.
Proof. exact LenProofs.weight_len_Qpower. Qed.
Print Assumptions C20_weight_len_pow.

(* Kraft's inequality on the values of the library's length function *)
Theorem C20_kraft_len : forall (D : params) (id p fl : N) (ns ls : list N),
  NoDup ns -> Forall (fun v => valid id p v) ns ->
  Forall2 (fun v l => sel_len D id p fl v = Some l) ns ls ->
  (fold_right (fun l acc => (1 # pow2pos (N.to_nat l)) + acc) 0 ls <= 1)%Q.
Proof. exact LenProofs.len_kraft. Qed.
Print Assumptions C20_kraft_len.

(* lengths are monotone in the value, for every code and parameter (zeta included without guard:
   the wrapped interval bound of the Rust does not break monotonicity) *)
Theorem C20_monotone : forall (E : endian) (id p v1 v2 : N),
  valid id p v1 -> valid id p v2 -> (v1 <= v2)%N ->
  (LEN (code_cw E id p v1) <= LEN (code_cw E id p v2))%N.
Proof. exact LenProofs.code_len_monotone. Qed.
Print Assumptions C20_monotone.

Theorem C20_monotone_len : forall (D : params) (id p fl v1 v2 l1 l2 : N),
  valid id p v1 -> valid id p v2 -> (v1 <= v2)%N ->
  sel_len D id p fl v1 = Some l1 -> sel_len D id p fl v2 = Some l2 -> (l1 <= l2)%N.
Proof. exact LenProofs.len_monotone. Qed.
Print Assumptions C20_monotone_len.

(* examples (by computation) *)
Theorem C20_ex_kraft_gamma_16 :
  Qred (wsum (map (code_cw BE 1 0) (map N.of_nat (seq 0 16)))) = (481 # 512)%Q.
Proof. exact LenProofs.kraft_gamma_16. Qed.
Print Assumptions C20_ex_kraft_gamma_16.

Theorem C20_ex_zeta3_lens :
  map (fun v => LEN (code_cw BE 12 0 v)) [6; 7; 8]%N = [4; 7; 7]%N /\
  map (fun v => LEN (code_cw LE 6 3 v)) [6; 7; 8]%N = [4; 7; 7]%N /\
  map (sel_len buf_params 12 0 4) [6; 7; 8]%N = [Some 4; Some 7; Some 7]%N /\
  map (sel_len buf_params 6 3 0) [6; 7; 8]%N = [Some 4; Some 7; Some 7]%N.
Proof. exact LenProofs.zeta3_lens. Qed.
Print Assumptions C20_ex_zeta3_lens.

Theorem C20_ex_golomb3_lens :
  map (fun v => LEN (code_cw BE 8 3 v)) [2; 3]%N = [3; 3]%N /\
  map (sel_len buf_params 8 3 0) [2; 3]%N = [Some 3; Some 3]%N.
Proof. exact LenProofs.golomb3_lens. Qed.
Print Assumptions C20_ex_golomb3_lens.
