(* C18, bit-stream part: the bit-stream VByte traits write exactly the bytes of the byte-level
   functions (= the published definition) as 8-bit fields of the stream, in both stream
   endiannesses, and read them back; at byte-aligned positions the memory image is those bytes
   (C12_aligned_image_app); lengths agree with bit_len_vbyte. *)
From DSI Require Import Base Prog Codes CodeDefs Small BitFacts CodesProofs VByteProofs CodesProofs5 IoViewsProofs.
Open Scope N_scope.

Theorem C18_bitstream_write_be : forall E checks v, v < W64 ->
  wr E checks (write_vbyte_be v) (bits_of_bytes E (def_vbyte_bytes false v)).
Proof. exact CodesProofs5.vbyte_be_wr. Qed.
Print Assumptions C18_bitstream_write_be.

Theorem C18_bitstream_write_le : forall E checks v, v < W64 ->
  wr E checks (write_vbyte_le v) (bits_of_bytes E (def_vbyte_bytes true v)).
Proof. exact CodesProofs5.vbyte_le_wr. Qed.
Print Assumptions C18_bitstream_write_le.

Theorem C18_bitstream_read_be : forall E v, v < W64 ->
  rd E 0 read_vbyte_be (bits_of_bytes E (def_vbyte_bytes false v)) v.
Proof. exact CodesProofs5.vbyte_be_rd. Qed.
Print Assumptions C18_bitstream_read_be.

Theorem C18_bitstream_read_le : forall E v, v < W64 ->
  rd E 0 read_vbyte_le (bits_of_bytes E (def_vbyte_bytes true v)) v.
Proof. exact CodesProofs5.vbyte_le_rd. Qed.
Print Assumptions C18_bitstream_read_le.

(* the io functions produce the same byte strings (both are the published definition) *)
Theorem C18_io_eq_bitstream : forall v, v < W64 ->
  vbyte_be_encode v = Some (def_vbyte_bytes false v) /\ vbyte_le_encode v = Some (def_vbyte_bytes true v).
Proof. intros v Hv. split; [apply VByteProofs.def_be | apply VByteProofs.def_le]; exact Hv. Qed.
Print Assumptions C18_io_eq_bitstream.

Theorem C18_bit_len : forall E le v, v < W64 ->
  bit_len_vbyte v = Some (LEN (bits_of_bytes E (def_vbyte_bytes le v))).
Proof. exact CodesProofs5.bit_len_vbyte_ok. Qed.
Print Assumptions C18_bit_len.
