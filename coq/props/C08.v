(* C08 — bulk copy.  Preliminary statement (the full refinement theorems for the optimised paths are
   being integrated): copying zero bits is the identity for the generic loop over ANY reader/writer. *)
From DSI Require Import Base Prog World.
Open Scope N_scope.

Theorem C08_n_zero_generic_partial : forall (SR SW : Type) (PR : rprims SR) (PW : wprims SW) r w,
  copy_default PR PW 0 r w = Ok (r, w).
Proof. intros. reflexivity. Qed.
Print Assumptions C08_n_zero_generic_partial.
