(* C08: bulk copy moves exactly n bits and leaves both streams intact.
   copy_default = the default trait loop (read_bits(min(n,64)) / write_bits); br_copy_to = BufBitReader's
   optimised copy_to; bw_copy_from = BufBitWriter's optimised copy_from (World.v).
   Statements only; proofs are in theories/CopyProofs.v. *)
From DSI Require Import Base Words Prog Writer Reader Abs World CopyProofs.
Open Scope N_scope.

(* ---------------------------------------------------------------- L0: the specification *)
(* spec_copy strict n r b := match s_take strict n r with Ok (bs, r') => Ok (r', b ++ bs) | Err => Err | ... end *)
Theorem C08_spec_copy_def : forall strict n r b,
  spec_copy strict n r b =
  match s_take strict n r with
  | Ok (bs, r') => Ok (r', b ++ bs) | Err => Err | Fail => Fail | Fuel => Fuel end.
Proof. exact CopyProofs.spec_copy_def. Qed.
Print Assumptions C08_spec_copy_def.

(* the generic chunked loop on the L0 primitives IS the specification: for n > 0 literally (all three
   fields of the reader state, sr_peeked included) *)
Theorem C08_generic_spec : forall E strict cap n r b, 0 < n ->
  copy_default (sprims E strict cap) (swprims E false) n r b = spec_copy strict n r b.
Proof. exact CopyProofs.generic_spec. Qed.
Print Assumptions C08_generic_spec.

(* for n = 0 the loop returns its arguments; the specification additionally resets sr_peeked *)
Theorem C08_generic_spec_zero : forall E strict cap r b,
  copy_default (sprims E strict cap) (swprims E false) 0 r b = Ok (r, b) /\
  spec_copy strict 0 r b = Ok ({| sr_rest := sr_rest r; sr_pos := sr_pos r + 0; sr_peeked := 0 |}, b ++ []).
Proof. exact CopyProofs.generic_spec_zero. Qed.
Print Assumptions C08_generic_spec_zero.

(* hence for every n: same outcome, same written bits, same reader up to sr_peeked *)
Theorem C08_generic_spec_all : forall E strict cap n r b,
  match spec_copy strict n r b with
  | Ok (r1, b1) => exists r2, copy_default (sprims E strict cap) (swprims E false) n r b = Ok (r2, b1) /\
                              sr_rest r2 = sr_rest r1 /\ sr_pos r2 = sr_pos r1
  | Err => copy_default (sprims E strict cap) (swprims E false) n r b = Err
  | _ => False
  end.
Proof. exact CopyProofs.generic_spec_all. Qed.
Print Assumptions C08_generic_spec_all.

(* ---------------------------------------------------------------- copy_to (BufBitReader) *)
(* into the L2 writer of any word width Ww, unbounded sink: appends exactly the reader's next n bits
   (zero-extended source: padded), advances the reader by exactly n, both invariants hold again *)
Theorem C08_copy_to : forall E W Ww n s pos sw b,
  RInv E W s pos -> wrel E Ww b sw -> wk_cap (bw_sink sw) = None ->
  (ws_strict (br_src s) = true -> pos + n <= W * N.of_nat (length (ws_words (br_src s)))) ->
  exists s' sw', br_copy_to E false (bwprims E Ww false) W n s sw = Ok (s', sw') /\
    RInv E W s' (pos + n) /\
    wrel E Ww (b ++ take_pad (N.to_nat n) (skipn (N.to_nat pos) (src_bits E W (br_src s)))) sw' /\
    wk_cap (bw_sink sw') = None /\
    ws_words (br_src s') = ws_words (br_src s) /\ ws_strict (br_src s') = ws_strict (br_src s).
Proof. exact CopyProofs.copy_to_machine_false. Qed.
Print Assumptions C08_copy_to.

(* the `checks` build: all values handed to write_bits are clean, the result is Ok (never Fail) *)
Theorem C08_copy_to_checks : forall E W Ww n s pos sw b,
  RInv E W s pos -> wrel E Ww b sw -> wk_cap (bw_sink sw) = None ->
  (ws_strict (br_src s) = true -> pos + n <= W * N.of_nat (length (ws_words (br_src s)))) ->
  exists s' sw', br_copy_to E true (bwprims E Ww true) W n s sw = Ok (s', sw') /\
    RInv E W s' (pos + n) /\
    wrel E Ww (b ++ take_pad (N.to_nat n) (skipn (N.to_nat pos) (src_bits E W (br_src s)))) sw' /\
    wk_cap (bw_sink sw') = None /\
    ws_words (br_src s') = ws_words (br_src s) /\ ws_strict (br_src s') = ws_strict (br_src s).
Proof. exact CopyProofs.copy_to_machine_checks. Qed.
Print Assumptions C08_copy_to_checks.

(* into the L0 writer (either build) *)
Theorem C08_copy_to_spec_writer : forall E checks W n s pos b,
  RInv E W s pos ->
  (ws_strict (br_src s) = true -> pos + n <= W * N.of_nat (length (ws_words (br_src s)))) ->
  exists s', br_copy_to E checks (swprims E checks) W n s b =
             Ok (s', b ++ take_pad (N.to_nat n) (skipn (N.to_nat pos) (src_bits E W (br_src s)))) /\
    RInv E W s' (pos + n) /\
    ws_words (br_src s') = ws_words (br_src s) /\ ws_strict (br_src s') = ws_strict (br_src s).
Proof. exact CopyProofs.copy_to_spec_writer. Qed.
Print Assumptions C08_copy_to_spec_writer.

(* into ANY destination that simulates the spec writer on write_bits (relation Rw) *)
Theorem C08_copy_to_any_writer : forall (SW : Type) (PW : wprims SW) E checks (Rw : bits -> SW -> Prop),
  (forall v n b w, n <= 64 -> (checks = true -> v < 2 ^ n) -> Rw b w ->
     exists x w', q_bits PW v n w = Ok (x, w') /\ Rw (b ++ field E v (N.to_nat n)) w') ->
  forall W n s pos b w,
  RInv E W s pos -> Rw b w ->
  (ws_strict (br_src s) = true -> pos + n <= W * N.of_nat (length (ws_words (br_src s)))) ->
  exists s' w', br_copy_to E checks PW W n s w = Ok (s', w') /\ RInv E W s' (pos + n) /\
    Rw (b ++ take_pad (N.to_nat n) (skipn (N.to_nat pos) (src_bits E W (br_src s)))) w' /\
    ws_words (br_src s') = ws_words (br_src s) /\ ws_strict (br_src s') = ws_strict (br_src s).
Proof. exact (@CopyProofs.copy_to_ok). Qed.
Print Assumptions C08_copy_to_any_writer.

(* a strict source with fewer than n bits left: Err *)
Theorem C08_copy_to_err : forall E checks W Ww n s pos sw b,
  RInv E W s pos -> wrel E Ww b sw -> wk_cap (bw_sink sw) = None ->
  ws_strict (br_src s) = true -> W * N.of_nat (length (ws_words (br_src s))) < pos + n ->
  br_copy_to E checks (bwprims E Ww checks) W n s sw = Err.
Proof. exact CopyProofs.copy_to_machine_err. Qed.
Print Assumptions C08_copy_to_err.

Theorem C08_copy_to_spec_writer_err : forall E checks W n s pos b,
  RInv E W s pos -> ws_strict (br_src s) = true -> W * N.of_nat (length (ws_words (br_src s))) < pos + n ->
  br_copy_to E checks (swprims E checks) W n s b = Err.
Proof. exact CopyProofs.copy_to_spec_writer_err. Qed.
Print Assumptions C08_copy_to_spec_writer_err.

(* ---------------------------------------------------------------- copy_from (BufBitWriter) *)
(* out of the L2 buffered reader of any word width Wr, writer of any word width W (W > 64: the
   fall-back to the generic loop), either build *)
Theorem C08_copy_from : forall E checks W Wr n sw b sr pos,
  wrel E W b sw -> wk_cap (bw_sink sw) = None -> RInv E Wr sr pos ->
  (ws_strict (br_src sr) = true -> pos + n <= Wr * N.of_nat (length (ws_words (br_src sr)))) ->
  exists sr' sw', bw_copy_from E checks (brprims E Wr) W n sr sw = Ok (sr', sw') /\
    RInv E Wr sr' (pos + n) /\
    wrel E W (b ++ take_pad (N.to_nat n) (skipn (N.to_nat pos) (src_bits E Wr (br_src sr)))) sw' /\
    wk_cap (bw_sink sw') = None /\
    ws_words (br_src sr') = ws_words (br_src sr) /\ ws_strict (br_src sr') = ws_strict (br_src sr).
Proof. exact CopyProofs.copy_from_machine. Qed.
Print Assumptions C08_copy_from.

(* out of the L0 reader *)
Theorem C08_copy_from_spec_reader : forall E checks W strict cap n sw b r,
  wrel E W b sw -> wk_cap (bw_sink sw) = None ->
  (strict = true -> n <= N.of_nat (length (sr_rest r))) ->
  exists r' sw', bw_copy_from E checks (sprims E strict cap) W n r sw = Ok (r', sw') /\
    sr_rest r' = skipn (N.to_nat n) (sr_rest r) /\ sr_pos r' = sr_pos r + n /\
    wrel E W (b ++ take_pad (N.to_nat n) (sr_rest r)) sw' /\ wk_cap (bw_sink sw') = None.
Proof. exact CopyProofs.copy_from_spec_reader. Qed.
Print Assumptions C08_copy_from_spec_reader.

(* out of ANY source that simulates the spec reader on read_bits (relation Rr over the stream l) *)
Theorem C08_copy_from_any_reader : forall (SR : Type) (PR : rprims SR) E checks (l : bits) strict (Rr : N -> SR -> Prop),
  (forall n pos r, n <= 64 -> Rr pos r -> (strict = true -> pos + n <= N.of_nat (length l)) ->
     exists r', p_bits PR n r = Ok (val E (take_pad (N.to_nat n) (skipn (N.to_nat pos) l)), r') /\ Rr (pos + n) r') ->
  forall W n r pos b sw,
  wrel E W b sw -> wk_cap (bw_sink sw) = None -> Rr pos r ->
  (strict = true -> pos + n <= N.of_nat (length l)) ->
  exists r' sw', bw_copy_from E checks PR W n r sw = Ok (r', sw') /\ Rr (pos + n) r' /\
    wrel E W (b ++ take_pad (N.to_nat n) (skipn (N.to_nat pos) l)) sw' /\ wk_cap (bw_sink sw') = None.
Proof. exact (@CopyProofs.copy_from_ok). Qed.
Print Assumptions C08_copy_from_any_reader.

Theorem C08_copy_from_err : forall E checks W Wr n sw b sr pos,
  wrel E W b sw -> wk_cap (bw_sink sw) = None -> RInv E Wr sr pos ->
  ws_strict (br_src sr) = true -> Wr * N.of_nat (length (ws_words (br_src sr))) < pos + n ->
  bw_copy_from E checks (brprims E Wr) W n sr sw = Err.
Proof. exact CopyProofs.copy_from_machine_err. Qed.
Print Assumptions C08_copy_from_err.

Theorem C08_copy_from_spec_reader_err : forall E checks W cap n sw b r,
  wrel E W b sw -> wk_cap (bw_sink sw) = None -> N.of_nat (length (sr_rest r)) < n ->
  bw_copy_from E checks (sprims E true cap) W n r sw = Err.
Proof. exact CopyProofs.copy_from_spec_reader_err. Qed.
Print Assumptions C08_copy_from_spec_reader_err.

(* ---------------------------------------------------------------- the generic loop on the machines *)
Theorem C08_copy_default_machine : forall E checks W Ww n s pos sw b,
  RInv E W s pos -> wrel E Ww b sw -> wk_cap (bw_sink sw) = None ->
  (ws_strict (br_src s) = true -> pos + n <= W * N.of_nat (length (ws_words (br_src s)))) ->
  exists s' sw', copy_default (brprims E W) (bwprims E Ww checks) n s sw = Ok (s', sw') /\
    RInv E W s' (pos + n) /\
    wrel E Ww (b ++ take_pad (N.to_nat n) (skipn (N.to_nat pos) (src_bits E W (br_src s)))) sw' /\
    wk_cap (bw_sink sw') = None /\
    ws_words (br_src s') = ws_words (br_src s) /\ ws_strict (br_src s') = ws_strict (br_src s).
Proof. exact CopyProofs.copy_default_machine. Qed.
Print Assumptions C08_copy_default_machine.

(* ---------------------------------------------------------------- specialised = generic (feature no_copy_impls) *)
Theorem C08_specialised_eq_generic_copy_to : forall E checks W Ww n s pos sw b,
  RInv E W s pos -> wrel E Ww b sw -> wk_cap (bw_sink sw) = None ->
  (ws_strict (br_src s) = true -> pos + n <= W * N.of_nat (length (ws_words (br_src s)))) ->
  exists s1 w1 s2 w2,
    br_copy_to E checks (bwprims E Ww checks) W n s sw = Ok (s1, w1) /\
    copy_default (brprims E W) (bwprims E Ww checks) n s sw = Ok (s2, w2) /\
    RInv E W s1 (pos + n) /\ RInv E W s2 (pos + n) /\
    rabs E W s1 (pos + n) 0 = rabs E W s2 (pos + n) 0 /\
    WInv Ww w1 /\ WInv Ww w2 /\ wabs E Ww w1 = wabs E Ww w2.
Proof. exact CopyProofs.specialised_eq_generic_copy_to. Qed.
Print Assumptions C08_specialised_eq_generic_copy_to.

Theorem C08_specialised_eq_generic_copy_from : forall E checks W Wr n sw b sr pos,
  wrel E W b sw -> wk_cap (bw_sink sw) = None -> RInv E Wr sr pos ->
  (ws_strict (br_src sr) = true -> pos + n <= Wr * N.of_nat (length (ws_words (br_src sr)))) ->
  exists s1 w1 s2 w2,
    bw_copy_from E checks (brprims E Wr) W n sr sw = Ok (s1, w1) /\
    copy_default (brprims E Wr) (bwprims E W checks) n sr sw = Ok (s2, w2) /\
    RInv E Wr s1 (pos + n) /\ RInv E Wr s2 (pos + n) /\
    rabs E Wr s1 (pos + n) 0 = rabs E Wr s2 (pos + n) 0 /\
    WInv W w1 /\ WInv W w2 /\ wabs E W w1 = wabs E W w2.
Proof. exact CopyProofs.specialised_eq_generic_copy_from. Qed.
Print Assumptions C08_specialised_eq_generic_copy_from.

(* strict source, too few bits: all three implementations return Err *)
Theorem C08_specialised_eq_generic_err : forall E checks W Ww n s pos sw b,
  RInv E W s pos -> wrel E Ww b sw -> wk_cap (bw_sink sw) = None ->
  ws_strict (br_src s) = true -> W * N.of_nat (length (ws_words (br_src s))) < pos + n ->
  br_copy_to E checks (bwprims E Ww checks) W n s sw = Err /\
  bw_copy_from E checks (brprims E W) Ww n s sw = Err /\
  copy_default (brprims E W) (bwprims E Ww checks) n s sw = Err.
Proof. exact CopyProofs.specialised_eq_generic_err. Qed.
Print Assumptions C08_specialised_eq_generic_err.

(* ---------------------------------------------------------------- n = 0 *)
Theorem C08_n_zero_copy_to : forall (SW : Type) E checks (PW : wprims SW) W s w,
  br_copy_to E checks PW W 0 s w = Ok (s, w).
Proof. exact (@CopyProofs.copy_zero_to). Qed.
Print Assumptions C08_n_zero_copy_to.

Theorem C08_n_zero_default : forall (SR SW : Type) (PR : rprims SR) (PW : wprims SW) r w,
  copy_default PR PW 0 r w = Ok (r, w).
Proof. exact (@CopyProofs.copy_zero_default). Qed.
Print Assumptions C08_n_zero_default.

Theorem C08_n_zero_copy_from : forall E checks W Wr sw b sr pos,
  wrel E W b sw -> wk_cap (bw_sink sw) = None -> RInv E Wr sr pos ->
  exists sr' sw', bw_copy_from E checks (brprims E Wr) W 0 sr sw = Ok (sr', sw') /\
    RInv E Wr sr' pos /\ wrel E W b sw' /\
    rabs E Wr sr' pos 0 = rabs E Wr sr pos 0 /\ wabs E W sw' = wabs E W sw.
Proof. exact CopyProofs.copy_zero_from. Qed.
Print Assumptions C08_n_zero_copy_from.
