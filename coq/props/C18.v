(* C18 (byte-level part): the byte-level VByte functions are complete.
   Vocabulary (defined in VByteProofs.v):
     terminated s := s <> [] /\ Forall (fun b => b < 256) s /\
                     Forall (fun b => 128 <= b) (removelast s) /\ last s 0 < 128
     off L        := sum_{i=1}^{L-1} 128^i                      (= (128^L - 128) / 127)
     vb_val_le s  := off (length s) + sum_i (s_i mod 128) * 128^i   (unbounded value of s)
     vb_val_be s  := vb_val_le (rev s) *)
From DSI Require Import Base Codes Small CodeDefs VByteProofs.

Theorem C18_roundtrip_be : forall v rest, v < W64 ->
  exists bs, vbyte_be_encode v = Some bs /\ vbyte_read_be (bs ++ rest) = Ok (v, rest).
Proof. exact VByteProofs.roundtrip_be. Qed.
Print Assumptions C18_roundtrip_be.

Theorem C18_roundtrip_le : forall v rest, v < W64 ->
  exists bs, vbyte_le_encode v = Some bs /\ vbyte_read_le (bs ++ rest) = Ok (v, rest).
Proof. exact VByteProofs.roundtrip_le. Qed.
Print Assumptions C18_roundtrip_le.

Theorem C18_bytes_wf : forall v bs, v < W64 ->
  (vbyte_be_encode v = Some bs \/ vbyte_le_encode v = Some bs) ->
  (length bs <= 10)%nat /\ Forall (fun b => b < 256) bs /\ terminated bs.
Proof. exact VByteProofs.bytes_wf. Qed.
Print Assumptions C18_bytes_wf.

Theorem C18_def_be : forall v, v < W64 -> vbyte_be_encode v = Some (def_vbyte_bytes false v).
Proof. exact VByteProofs.def_be. Qed.
Print Assumptions C18_def_be.

Theorem C18_def_le : forall v, v < W64 -> vbyte_le_encode v = Some (def_vbyte_bytes true v).
Proof. exact VByteProofs.def_le. Qed.
Print Assumptions C18_def_le.

Theorem C18_len_be : forall v bs, v < W64 -> vbyte_be_encode v = Some bs ->
  byte_len_vbyte v = Some (N.of_nat (length bs)).
Proof. exact VByteProofs.len_be. Qed.
Print Assumptions C18_len_be.

Theorem C18_len_le : forall v bs, v < W64 -> vbyte_le_encode v = Some bs ->
  byte_len_vbyte v = Some (N.of_nat (length bs)).
Proof. exact VByteProofs.len_le. Qed.
Print Assumptions C18_len_le.

Theorem C18_len_steps : forall v L, v < W64 -> byte_len_vbyte v = Some L ->
  off L <= v < off (L + 1) /\ 1 <= L <= 10.
Proof. exact VByteProofs.len_steps. Qed.
Print Assumptions C18_len_steps.

Theorem C18_off_closed : forall L, off L = (128 ^ L - 128) / 127.
Proof. exact VByteProofs.off_closed. Qed.
Print Assumptions C18_off_closed.

(* the encoders and (on strings whose value fits in 64 bits) the readers, in terms of the value *)
Theorem C18_encode_be_char : forall v, v < W64 ->
  exists bs, vbyte_be_encode v = Some bs /\ terminated bs /\ vb_val_be bs = v.
Proof. exact VByteProofs.encode_be_char. Qed.
Print Assumptions C18_encode_be_char.

Theorem C18_encode_le_char : forall v, v < W64 ->
  exists bs, vbyte_le_encode v = Some bs /\ terminated bs /\ vb_val_le bs = v.
Proof. exact VByteProofs.encode_le_char. Qed.
Print Assumptions C18_encode_le_char.

Theorem C18_read_be_char : forall s rest, terminated s -> vb_val_be s < W64 ->
  vbyte_read_be (s ++ rest) = Ok (vb_val_be s, rest).
Proof. exact VByteProofs.read_be_char. Qed.
Print Assumptions C18_read_be_char.

Theorem C18_read_le_char : forall s rest, terminated s -> vb_val_le s < W64 ->
  vbyte_read_le (s ++ rest) = Ok (vb_val_le s, rest).
Proof. exact VByteProofs.read_le_char. Qed.
Print Assumptions C18_read_le_char.

(* completeness + uniqueness.  The unguarded statement is FALSE for both readers (see the
   ..._guard_needed witnesses): the guard "the value of the string fits in 64 bits" is exact. *)
Theorem C18_complete_be : forall s v, terminated s -> vb_val_be s < W64 ->
  vbyte_read_be s = Ok (v, []) -> vbyte_be_encode v = Some s.
Proof. exact VByteProofs.complete_be. Qed.
Print Assumptions C18_complete_be.

Theorem C18_complete_le : forall s v, terminated s -> vb_val_le s < W64 ->
  vbyte_read_le s = Ok (v, []) -> vbyte_le_encode v = Some s.
Proof. exact VByteProofs.complete_le. Qed.
Print Assumptions C18_complete_le.

Theorem C18_complete_be_iff : forall s v, terminated s -> vbyte_read_be s = Ok (v, []) ->
  (vbyte_be_encode v = Some s <-> vb_val_be s < W64).
Proof. exact VByteProofs.complete_be_iff. Qed.
Print Assumptions C18_complete_be_iff.

Theorem C18_complete_le_iff : forall s v, terminated s -> vbyte_read_le s = Ok (v, []) ->
  (vbyte_le_encode v = Some s <-> vb_val_le s < W64).
Proof. exact VByteProofs.complete_le_iff. Qed.
Print Assumptions C18_complete_le_iff.

Theorem C18_complete_be_len9 : forall s v, terminated s -> (length s <= 9)%nat ->
  vbyte_read_be s = Ok (v, []) -> vbyte_be_encode v = Some s.
Proof. exact VByteProofs.complete_be_len9. Qed.
Print Assumptions C18_complete_be_len9.

Theorem C18_complete_le_last : forall s v, terminated s ->
  (length s = 10%nat -> last s 0 <= 1) ->
  vbyte_read_le s = Ok (v, []) -> vbyte_le_encode v = Some s.
Proof. exact VByteProofs.complete_le_last. Qed.
Print Assumptions C18_complete_le_last.

Theorem C18_complete_be_guard_needed :
  exists s v, terminated s /\ vbyte_read_be s = Ok (v, []) /\ vbyte_be_encode v <> Some s.
Proof. exact VByteProofs.complete_be_guard_needed. Qed.
Print Assumptions C18_complete_be_guard_needed.

Theorem C18_complete_le_guard_needed :
  exists s v, terminated s /\ vbyte_read_le s = Ok (v, []) /\ vbyte_le_encode v <> Some s.
Proof. exact VByteProofs.complete_le_guard_needed. Qed.
Print Assumptions C18_complete_le_guard_needed.

Theorem C18_injective_be : forall v1 v2 bs, v1 < W64 -> v2 < W64 ->
  vbyte_be_encode v1 = Some bs -> vbyte_be_encode v2 = Some bs -> v1 = v2.
Proof. exact VByteProofs.injective_be. Qed.
Print Assumptions C18_injective_be.

Theorem C18_injective_le : forall v1 v2 bs, v1 < W64 -> v2 < W64 ->
  vbyte_le_encode v1 = Some bs -> vbyte_le_encode v2 = Some bs -> v1 = v2.
Proof. exact VByteProofs.injective_le. Qed.
Print Assumptions C18_injective_le.
