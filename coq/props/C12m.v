(* C12m: the std::io::Write / std::io::Read views (World.v, Section IoViews) are byte-exact on the
   L2 word machines of ANY word width: buffered writer (bwprims E W checks over bwriter), buffered
   reader (brprims E W over breader), unbuffered reader (urprims E over ureader).  Lift of props/C12.v
   through the refinements C01 / C02 / C02u.  wabs = delivered words ++ pending bits; RInv E W s pos =
   the reader invariant at stream position pos; src_bits = the bits of the source words.
   Statements only; proofs and examples (LE, W = 16: 3 bytes written after 5 pending bits and read
   back at position 5; BE, W = 32; the unbuffered reader) are in theories/MachineViews.v. *)
From DSI Require Import Base Words Prog Writer Reader Abs World BitFacts MachineViews.
Open Scope N_scope.

(* (a) write: exactly those bytes at the current (arbitrary) bit position, the whole slice reported,
   either build (with checks on no write trips the argument check), or the sink is full *)
Theorem C12m_write_machine : forall E W checks buf b s,
  wrel E W b s -> Forall (fun x => x < 256) buf ->
  (exists s', wrun (bwprims E W checks) (io_write E buf) s = Ok (N.of_nat (length buf), s') /\
              WInv W s' /\ wabs E W s' = b ++ bits_of_bytes E buf)
  \/ wrun (bwprims E W checks) (io_write E buf) s = Err.
Proof. exact MachineViews.io_write_machine. Qed.
Print Assumptions C12m_write_machine.

(* an unbounded sink never reports Err *)
Theorem C12m_write_machine_unbounded : forall E W checks buf b s,
  wrel E W b s -> Forall (fun x => x < 256) buf -> wk_cap (bw_sink s) = None ->
  exists s', wrun (bwprims E W checks) (io_write E buf) s = Ok (N.of_nat (length buf), s') /\
             WInv W s' /\ wabs E W s' = b ++ bits_of_bytes E buf /\ wk_cap (bw_sink s') = None.
Proof. exact MachineViews.io_write_machine_unbounded. Qed.
Print Assumptions C12m_write_machine_unbounded.

(* the program-level fact behind it: ANY write program whose specification run is defined runs to
   the same result on a machine with an unbounded sink *)
Theorem C12m_prog_unbounded : forall (A : Type) E W checks (p : wprog A) b s a b',
  wrel E W b s -> wk_cap (bw_sink s) = None ->
  wrun (swprims E checks) p b = Ok (a, b') ->
  exists s', wrun (bwprims E W checks) p s = Ok (a, s') /\ WInv W s' /\ wabs E W s' = b' /\
             wk_cap (bw_sink s') = None.
Proof. exact (@MachineViews.prog_unbounded). Qed.
Print Assumptions C12m_prog_unbounded.

(* (b) read: the bytes obtained are the next 8*len stream bits grouped in stream order; the reader
   stops exactly at their end; the source is unchanged *)
Theorem C12m_read_machine : forall E W bytes s pos post,
  RInv E W s pos -> W * N.of_nat (length (ws_words (br_src s))) <= 2 ^ 64 ->
  Forall (fun x => x < 256) bytes ->
  skipn (N.to_nat pos) (src_bits E W (br_src s)) = bits_of_bytes E bytes ++ post ->
  exists s', rrun (brprims E W) (io_read E (N.of_nat (length bytes))) s = Ok (bytes, s') /\
             RInv E W s' (pos + 8 * N.of_nat (length bytes)) /\
             ws_words (br_src s') = ws_words (br_src s) /\ ws_strict (br_src s') = ws_strict (br_src s).
Proof. exact MachineViews.io_read_machine. Qed.
Print Assumptions C12m_read_machine.

Theorem C12m_read_umachine : forall E bytes s post,
  UInv s -> Forall (fun x => x < 256) bytes ->
  ur_index s + 8 * N.of_nat (length bytes) < 2 ^ 63 ->
  skipn (N.to_nat (ur_index s)) (src_bits E 64 (ur_src s)) = bits_of_bytes E bytes ++ post ->
  exists s', rrun (urprims E) (io_read E (N.of_nat (length bytes))) s = Ok (bytes, s') /\
             UInv s' /\ ur_index s' = ur_index s + 8 * N.of_nat (length bytes) /\
             ws_words (ur_src s') = ws_words (ur_src s).
Proof. exact MachineViews.io_read_umachine. Qed.
Print Assumptions C12m_read_umachine.

(* (c) strict source with fewer than 8*n bits left from pos: Err, never fabricated bytes *)
Theorem C12m_strict_short_machine : forall E W s pos n,
  RInv E W s pos -> W * N.of_nat (length (ws_words (br_src s))) <= 2 ^ 64 ->
  ws_strict (br_src s) = true ->
  W * N.of_nat (length (ws_words (br_src s))) < pos + 8 * n ->
  rrun (brprims E W) (io_read E n) s = Err.
Proof. exact MachineViews.io_read_strict_short_machine. Qed.
Print Assumptions C12m_strict_short_machine.

(* hypothesis forced by the proof: 0 < n.  The unbuffered reader's index may lie beyond the end of
   a strict source (after a skip); a zero-length read is then Ok [] (MachineViews.exv_ushort_zero).
   The bound 64 * #words < 2^63 is that of C02u's strict-source simulation. *)
Theorem C12m_strict_short_umachine : forall E s n,
  UInv s -> ws_strict (ur_src s) = true -> 0 < n ->
  64 * N.of_nat (length (ws_words (ur_src s))) < 2 ^ 63 ->
  64 * N.of_nat (length (ws_words (ur_src s))) < ur_index s + 8 * n ->
  rrun (urprims E) (io_read E n) s = Err.
Proof. exact MachineViews.io_read_strict_short_umachine. Qed.
Print Assumptions C12m_strict_short_umachine.
