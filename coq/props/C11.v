(* C11: the byte-stream word adapter is transparent and loss-free under I/O faults.
   Auxiliary definitions (write_words, read_words, wres, strip, same_transfer,
   wres_map_sched) are in theories/AdapterProofs.v.  Statements hold for every width W,
   every word w and every schedule unless a hypothesis says otherwise. *)
From DSI Require Import Small Run AdapterProofs.

Theorem C11_no_silent_loss_write : forall W sched w sink,
  match adapter_write_word W sched w sink with
  | (Ok sink', _, _) => sink' = sink ++ word_bytes LE W w
  | (Err, _, sink') =>
      exists k, (k < length (word_bytes LE W w))%nat /\
                sink' = sink ++ firstn k (word_bytes LE W w)
  | _ => False
  end.
Proof. exact AdapterProofs.no_silent_loss_write. Qed.
Print Assumptions C11_no_silent_loss_write.

Theorem C11_write_words : forall W ws sched sink,
  match write_words W sched ws sink with
  | WAllOk sink' _ => sink' = sink ++ flat_map (word_bytes LE W) ws
  | WErrAt n sink' _ =>
      (n < length ws)%nat /\
      exists k, (k < length (word_bytes LE W (nth n ws 0%N)))%nat /\
        sink' = sink ++ flat_map (word_bytes LE W) (firstn n ws)
                     ++ firstn k (word_bytes LE W (nth n ws 0))
  | WBad => False
  end.
Proof. exact AdapterProofs.write_words_spec. Qed.
Print Assumptions C11_write_words.

Theorem C11_run_adapter_write_is_write_words : forall W ws sched sink,
  run_adapter_write W sched ws sink =
  match write_words W sched ws sink with
  | WAllOk s _ => repeat [0] (length ws) ++ [99 :: s]
  | WErrAt n s _ => repeat [0] n ++ [[1]; 99 :: s]
  | WBad => []
  end.
Proof. exact AdapterProofs.run_adapter_write_write_words. Qed.
Print Assumptions C11_run_adapter_write_is_write_words.

Theorem C11_no_silent_loss_read : forall W sched src,
  match adapter_read_word W sched src with
  | (Ok w, _, src') =>
      exists bs, length bs = N.to_nat (W / 8) /\ src = bs ++ src' /\ w = of_le_bytes bs
  | (Err, _, _) => True
  | _ => False
  end.
Proof. exact AdapterProofs.no_silent_loss_read. Qed.
Print Assumptions C11_no_silent_loss_read.

Theorem C11_read_words : forall W cnt sched src,
  let '(ws, o, _, src') := read_words W cnt sched src in
  exists groups : list (list N),
    Forall (fun g => length g = N.to_nat (W / 8)) groups /\
    ws = map of_le_bytes groups /\
    match o with
    | Ok _ => length ws = cnt /\ src = concat groups ++ src'
    | Err => (length ws < cnt)%nat /\ exists rest, src = concat groups ++ rest
    | _ => False
    end.
Proof. exact AdapterProofs.read_words_spec. Qed.
Print Assumptions C11_read_words.

Theorem C11_run_adapter_read_is_read_words : forall W cnt sched src,
  run_adapter_read W cnt sched src =
  let '(ws, o, _, _) := read_words W cnt sched src in
  map (fun w => [0; w]) ws ++ match o with Ok _ => [] | _ => [[1]] end.
Proof. exact AdapterProofs.run_adapter_read_read_words. Qed.
Print Assumptions C11_run_adapter_read_is_read_words.

Theorem C11_of_le_bytes_le_bytes : forall n x,
  of_le_bytes (le_bytes n x) = x mod 256 ^ N.of_nat n.
Proof. exact AdapterProofs.of_le_bytes_le_bytes. Qed.
Print Assumptions C11_of_le_bytes_le_bytes.

Theorem C11_of_le_bytes_word_bytes : forall W w,
  W mod 8 = 0 -> of_le_bytes (word_bytes LE W w) = w mod 2 ^ W.
Proof. exact AdapterProofs.of_le_bytes_word_bytes. Qed.
Print Assumptions C11_of_le_bytes_word_bytes.

Theorem C11_transparent : forall W ws sink tail,
  W mod 8 = 0 -> Forall (fun w => w < 2 ^ W) ws ->
  write_words W [] ws sink = WAllOk (sink ++ flat_map (word_bytes LE W) ws) [] /\
  read_words W (length ws) [] (flat_map (word_bytes LE W) ws ++ tail) =
    (ws, Ok tt, [], tail).
Proof. exact AdapterProofs.transparent. Qed.
Print Assumptions C11_transparent.

Theorem C11_roundtrip_any_schedule : forall W ws sched1 sched2 img r1 tail ws' r2 src',
  W mod 8 = 0 -> Forall (fun w => w < 2 ^ W) ws ->
  write_words W sched1 ws [] = WAllOk img r1 ->
  read_words W (length ws) sched2 (img ++ tail) = (ws', Ok tt, r2, src') ->
  img = flat_map (word_bytes LE W) ws /\ ws' = ws /\ src' = tail.
Proof. exact AdapterProofs.roundtrip_any_schedule. Qed.
Print Assumptions C11_roundtrip_any_schedule.

Theorem C11_interrupted_harmless : forall W s1 s2,
  (forall w sink,
     same_transfer (adapter_write_word W (s1 ++ Interrupted :: s2) w sink)
                   (adapter_write_word W (s1 ++ s2) w sink)) /\
  (forall src,
     same_transfer (adapter_read_word W (s1 ++ Interrupted :: s2) src)
                   (adapter_read_word W (s1 ++ s2) src)) /\
  (forall ws sink,
     wres_map_sched strip (write_words W (s1 ++ Interrupted :: s2) ws sink) =
     wres_map_sched strip (write_words W (s1 ++ s2) ws sink)) /\
  (forall cnt src,
     (let '(ws, o, r, x) := read_words W cnt (s1 ++ Interrupted :: s2) src in
      (ws, o, strip r, x)) =
     (let '(ws, o, r, x) := read_words W cnt (s1 ++ s2) src in (ws, o, strip r, x))).
Proof. exact AdapterProofs.interrupted_harmless. Qed.
Print Assumptions C11_interrupted_harmless.

(* general form: two schedules that differ only by Interrupted events *)
Theorem C11_interrupted_harmless_write : forall W sched sched' w sink,
  strip sched = strip sched' ->
  same_transfer (adapter_write_word W sched w sink) (adapter_write_word W sched' w sink).
Proof. exact AdapterProofs.interrupted_harmless_write. Qed.
Print Assumptions C11_interrupted_harmless_write.

Theorem C11_interrupted_harmless_read : forall W sched sched' src,
  strip sched = strip sched' ->
  same_transfer (adapter_read_word W sched src) (adapter_read_word W sched' src).
Proof. exact AdapterProofs.interrupted_harmless_read. Qed.
Print Assumptions C11_interrupted_harmless_read.

Theorem C11_interrupted_harmless_write_words : forall W sched sched' ws sink,
  strip sched = strip sched' ->
  wres_map_sched strip (write_words W sched ws sink) =
  wres_map_sched strip (write_words W sched' ws sink).
Proof. exact AdapterProofs.interrupted_harmless_write_words. Qed.
Print Assumptions C11_interrupted_harmless_write_words.

Theorem C11_interrupted_harmless_read_words : forall W cnt sched sched' src,
  strip sched = strip sched' ->
  (let '(ws, o, r, x) := read_words W cnt sched src in (ws, o, strip r, x)) =
  (let '(ws, o, r, x) := read_words W cnt sched' src in (ws, o, strip r, x)).
Proof. exact AdapterProofs.interrupted_harmless_read_words. Qed.
Print Assumptions C11_interrupted_harmless_read_words.

Theorem C11_word_pos : forall W i,
  W mod 8 = 0 -> 0 < W ->
  adapter_word_pos W (i * (W / 8)) = i /\
  (i * (W / 8) < W64 ->
   adapter_seek W i = Some (i * (W / 8)) /\
   option_map (adapter_word_pos W) (adapter_seek W i) = Some i).
Proof. exact AdapterProofs.word_pos. Qed.
Print Assumptions C11_word_pos.

Theorem C11_word_pos_partial : forall W n r,
  W mod 8 = 0 -> 0 < W -> 0 < r < W / 8 -> adapter_word_pos W (n * (W / 8) + r) = n + 1.
Proof. exact AdapterProofs.word_pos_partial. Qed.
Print Assumptions C11_word_pos_partial.

Theorem C11_seek_overflow : forall W i,
  W64 <= i * (W / 8) -> adapter_seek W i = None.
Proof. exact AdapterProofs.seek_overflow. Qed.
Print Assumptions C11_seek_overflow.
