(* C13: in-memory word streams behave as an array with a cursor.
   The abstract machine (astate, abs, spec_step, spec_run, abs_eq, sres_eq, op_wf,
   run_guard, mw_run) is defined in theories/MemWordsProofs.v. *)
From DSI Require Import Small Run MemWordsProofs.

Theorem C13_refines_step : forall kind s op,
  kind <= 3 -> mw_pos s < U64MAX -> op_wf kind op ->
  match mw_step kind s op with
  | Ok (v, s') => sres_eq (spec_step kind (abs s) op) (SOk v (abs s'))
  | Err => spec_step kind (abs s) op = SErr
  | Fail => False
  | Fuel => False
  end.
Proof. exact MemWordsProofs.refines_step. Qed.
Print Assumptions C13_refines_step.

Theorem C13_refines_run : forall kind ops s,
  kind <= 3 -> Forall (op_wf kind) ops -> run_guard s ops ->
  fst (mw_run kind s ops) = fst (spec_run kind (abs s) ops) /\
  abs_eq (abs (snd (mw_run kind s ops))) (snd (spec_run kind (abs s) ops)) /\
  Forall is_ok_or_err (fst (mw_run kind s ops)).
Proof. exact MemWordsProofs.refines_run. Qed.
Print Assumptions C13_refines_run.

Theorem C13_run_memw_is_mw_run : forall kind ops s,
  run_memw kind s ops =
  let (l, t) := mw_run kind s (map mwop_of ops) in
  map enc_result l ++ (if existsb is_stop l then [] else [99 :: mw_data t]).
Proof. exact MemWordsProofs.run_memw_mw_run. Qed.
Print Assumptions C13_run_memw_is_mw_run.

Theorem C13_write_frame : forall kind s w v s',
  mw_step kind s (MWrite w) = Ok (v, s') ->
  let c := N.to_nat (mw_pos s) in
  let len := N.of_nat (length (mw_data s)) in
  v = 0 /\
  mw_pos s' = mw_pos s + 1 /\
  a_len (abs s') = (if kind =? 3 then N.max len (mw_pos s + 1) else len) /\
  a_arr (abs s') c = w /\
  forall i, i <> c ->
    a_arr (abs s') i = if N.of_nat i <? len then a_arr (abs s) i else 0.
Proof. exact MemWordsProofs.write_frame. Qed.
Print Assumptions C13_write_frame.

Theorem C13_write_frame_cells : forall kind s w v s' i,
  mw_step kind s (MWrite w) = Ok (v, s') ->
  i <> N.to_nat (mw_pos s) ->
  nth i (mw_data s') 0 = nth i (mw_data s) 0.
Proof. exact MemWordsProofs.write_frame_cells. Qed.
Print Assumptions C13_write_frame_cells.

Theorem C13_error_iff : forall kind s op,
  mw_step kind s op = Err <->
  match op with
  | MRead => kind <> 0 /\ N.of_nat (length (mw_data s)) <= mw_pos s
  | MWrite _ => kind = 2 /\ N.of_nat (length (mw_data s)) <= mw_pos s
  | MSetPos p => kind <> 0 /\ N.of_nat (length (mw_data s)) < p
  | _ => False
  end.
Proof. exact MemWordsProofs.step_err_iff. Qed.
Print Assumptions C13_error_iff.

Theorem C13_error_keeps_state : forall kind s op,
  mw_step kind s op = Err ->
  spec_step kind (abs s) op = SErr /\
  mw_run kind s [op] = ([Err], s) /\
  spec_run kind (abs s) [op] = ([Err], abs s) /\
  (forall ops, mw_run kind s (op :: ops) =
               (Err :: fst (mw_run kind s ops), snd (mw_run kind s ops))).
Proof. exact MemWordsProofs.error_keeps_state. Qed.
Print Assumptions C13_error_keeps_state.

Theorem C13_rejected_setpos : forall kind s p,
  1 <= kind <= 3 -> N.of_nat (length (mw_data s)) < p ->
  mw_step kind s (MSetPos p) = Err /\
  spec_step kind (abs s) (MSetPos p) = SErr /\
  mw_run kind s [MSetPos p; MPos] = ([Err; Ok (mw_pos s)], s).
Proof. exact MemWordsProofs.rejected_setpos. Qed.
Print Assumptions C13_rejected_setpos.

Theorem C13_accepted_setpos : forall kind s p,
  kind = 0 /\ p <= U64MAX \/ kind <> 0 /\ p <= N.of_nat (length (mw_data s)) ->
  mw_step kind s (MSetPos p) = Ok (0, {| mw_data := mw_data s; mw_pos := p |}).
Proof. exact MemWordsProofs.accepted_setpos. Qed.
Print Assumptions C13_accepted_setpos.

Theorem C13_len_monotone_step : forall kind s op v s',
  mw_step kind s op = Ok (v, s') ->
  (length (mw_data s) <= length (mw_data s'))%nat /\
  (kind <> 3 -> length (mw_data s') = length (mw_data s)).
Proof. exact MemWordsProofs.len_monotone_step. Qed.
Print Assumptions C13_len_monotone_step.

Theorem C13_len_monotone : forall kind ops s,
  (length (mw_data s) <= length (mw_data (snd (mw_run kind s ops))))%nat /\
  (kind <> 3 -> length (mw_data (snd (mw_run kind s ops))) = length (mw_data s)).
Proof. exact MemWordsProofs.len_monotone. Qed.
Print Assumptions C13_len_monotone.
