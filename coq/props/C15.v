(* C15 — Code statistics are exact, mergeable and thread-safe (utils/stats.rs; model Stats.v).
   Definitions used in the statements (observe, total_count, total_unary, total_len, fits64,
   totals_fit, iter_update, shape, shaped, fits, interleaving, merge_all, tracked_total,
   code_len) are in theories/StatsProofs.v.  Vector entry i of family j (zeta, golomb,
   exp_golomb, rice, pi) belongs to the code with parameter `off j + i`. *)
From Coq Require Import List NArith Permutation.
From DSI Require Import Stats StatsProofs.
Import List ListNotations.
Open Scope N_scope.

(* 1. exactness: every counter is the mathematical total, in unbounded N *)
Theorem C15_exact : forall obs s, observe obs = Some s ->
  st_total s = total_count obs /\
  st_unary s = total_unary obs /\
  Some (st_gamma s) = total_len (len_gamma the_tables buf_params) obs /\
  Some (st_delta s) = total_len (len_delta the_tables buf_params) obs /\
  Some (st_omega s) = total_len len_omega obs /\
  Some (st_vbyte s) = total_len bit_len_vbyte obs /\
  (length (st_zeta s) = sz 0 /\ forall i, (i < sz 0)%nat ->
     Some (nth i (st_zeta s) 0) =
     total_len (fun n => len_zeta the_tables buf_params n (off 0 + N.of_nat i)) obs) /\
  (length (st_golomb s) = sz 1 /\ forall i, (i < sz 1)%nat ->
     Some (nth i (st_golomb s) 0) = total_len (fun n => len_golomb n (off 1 + N.of_nat i)) obs) /\
  (length (st_exp_golomb s) = sz 2 /\ forall i, (i < sz 2)%nat ->
     Some (nth i (st_exp_golomb s) 0) =
     total_len (fun n => len_exp_golomb the_tables buf_params n (off 2 + N.of_nat i)) obs) /\
  (length (st_rice s) = sz 3 /\ forall i, (i < sz 3)%nat ->
     Some (nth i (st_rice s) 0) = total_len (fun n => len_rice n (off 3 + N.of_nat i)) obs) /\
  (length (st_pi s) = sz 4 /\ forall i, (i < sz 4)%nat ->
     Some (nth i (st_pi s) 0) = total_len (fun n => len_pi n (off 4 + N.of_nat i)) obs) /\
  Forall (fun x => x < W64) (stats_flat s).
Proof. exact StatsProofs.exact. Qed.
Print Assumptions C15_exact.

(* no spurious failure: if every mathematical total is defined and fits in 64 bits, observe succeeds *)
Theorem C15_exact_defined : forall obs,
  total_count obs < W64 ->
  (forall n c, In (n, c) obs -> n + 1 < W64) -> total_unary obs < W64 ->
  fits64 (total_len (len_gamma the_tables buf_params) obs) ->
  fits64 (total_len (len_delta the_tables buf_params) obs) ->
  fits64 (total_len len_omega obs) ->
  fits64 (total_len bit_len_vbyte obs) ->
  (forall i, (i < sz 0)%nat ->
     fits64 (total_len (fun n => len_zeta the_tables buf_params n (off 0 + N.of_nat i)) obs)) ->
  (forall i, (i < sz 1)%nat ->
     fits64 (total_len (fun n => len_golomb n (off 1 + N.of_nat i)) obs)) ->
  (forall i, (i < sz 2)%nat ->
     fits64 (total_len (fun n => len_exp_golomb the_tables buf_params n (off 2 + N.of_nat i)) obs)) ->
  (forall i, (i < sz 3)%nat ->
     fits64 (total_len (fun n => len_rice n (off 3 + N.of_nat i)) obs)) ->
  (forall i, (i < sz 4)%nat ->
     fits64 (total_len (fun n => len_pi n (off 4 + N.of_nat i)) obs)) ->
  exists s, observe obs = Some s.
Proof. exact StatsProofs.exact_defined. Qed.
Print Assumptions C15_exact_defined.

(* ... and these conditions (collected in totals_fit) are necessary *)
Theorem C15_exact_defined_iff : forall obs, totals_fit obs <-> exists s, observe obs = Some s.
Proof. exact StatsProofs.exact_defined_iff. Qed.
Print Assumptions C15_exact_defined_iff.

(* 2. update_many n c is c successive updates *)
Theorem C15_update_many : forall s n c s',
  update_many s n c = Some s' -> iter_update s n c = Some s'.
Proof. exact StatsProofs.update_many_iter. Qed.
Print Assumptions C15_update_many.

(* 3. merge = union of the observations *)
Theorem C15_merge_union : forall a b sa sb,
  observe a = Some sa -> observe b = Some sb ->
  forall s, stats_add sa sb = Some s <-> observe (a ++ b) = Some s.
Proof. exact StatsProofs.merge_union. Qed.
Print Assumptions C15_merge_union.

Theorem C15_add_comm : forall a b, shape a = shape b -> stats_add a b = stats_add b a.
Proof. exact StatsProofs.stats_add_comm. Qed.
Print Assumptions C15_add_comm.

Theorem C15_add_assoc : forall a b c ab bc,
  shape a = shape b -> shape b = shape c ->
  stats_add a b = Some ab -> stats_add b c = Some bc ->
  stats_add ab c = stats_add a bc.
Proof. exact StatsProofs.stats_add_assoc. Qed.
Print Assumptions C15_add_assoc.

Theorem C15_add_unit : forall s, shaped s -> fits s ->
  stats_add stats_default s = Some s /\ stats_add s stats_default = Some s.
Proof. exact StatsProofs.stats_add_unit. Qed.
Print Assumptions C15_add_unit.

Theorem C15_observe_wf : forall obs s, observe obs = Some s -> shaped s /\ fits s.
Proof. exact StatsProofs.observe_shaped_fits. Qed.
Print Assumptions C15_observe_wf.

(* the order of observation is irrelevant *)
Theorem C15_permutation : forall a b, Permutation a b -> observe a = observe b.
Proof. exact StatsProofs.observe_permutation. Qed.
Print Assumptions C15_permutation.

(* PARTIAL: assumes each update is atomic (the model applies whole updates one at a time; the
   Mutex that guarantees this in the Rust is outside the model).  Under that assumption: every
   schedule of any number of threads yields the statistics of the sequential observation. *)
Theorem C15_interleavings_partial : forall (ts : list (list (N * N))) l,
  interleaving ts l -> observe l = observe (concat ts).
Proof. exact StatsProofs.interleavings_partial. Qed.
Print Assumptions C15_interleavings_partial.

(* per-thread statistics merged afterwards give the same result *)
Theorem C15_merge_all_threads : forall (ts : list (list (N * N))) ss,
  Forall2 (fun t s => observe t = Some s) ts ss ->
  merge_all ss = observe (concat ts).
Proof. exact StatsProofs.merge_all_threads. Qed.
Print Assumptions C15_merge_all_threads.

(* 4. best_code: the reported cost is the counter of the reported code, and the minimum *)
Theorem C15_best_code : forall s c cost, best_code s = (c, cost) ->
  tracked_total s c = Some cost /\
  forall c' x, tracked_total s c' = Some x -> cost <= x.
Proof. exact StatsProofs.best_code_min. Qed.
Print Assumptions C15_best_code.

Theorem C15_tracked_total_exact : forall obs s c x,
  observe obs = Some s -> tracked_total s c = Some x -> total_len (code_len c) obs = Some x.
Proof. exact StatsProofs.tracked_total_exact. Qed.
Print Assumptions C15_tracked_total_exact.

(* re-encoding the observed values with the reported code costs exactly `cost` bits *)
Theorem C15_best_code_exact : forall obs s c cost,
  observe obs = Some s -> best_code s = (c, cost) ->
  total_len (code_len c) obs = Some cost /\
  forall c' x, tracked_total s c' = Some x ->
    total_len (code_len c') obs = Some x /\ cost <= x.
Proof. exact StatsProofs.best_code_exact. Qed.
Print Assumptions C15_best_code_exact.
