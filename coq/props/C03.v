(* C03 — every instantaneous code round-trips at any position, in any configuration.
   Level: L1 programs (mirror of src/codes/*.rs) on the L0 bit-list stream; every code id of
   Run.v (0 unary 1 gamma 2 delta 3 omega 4 VByteBE 5 VByteLE 6 zeta_k 7 pi_k 8 Golomb_b
   9 exp-Golomb_k 10 Rice_k 11 minimal binary 12 zeta3), every parameter and value of the domain
   (`valid`), every table option / default on the writer AND on the reader side, argument
   checking on or off, strict or zero-extended streams, ANY preceding and following bits.
   The lift to the word-level machines (every writer / reader word size) is C03_machines. *)
From DSI Require Import Base Prog Codes BitFacts CodesProofs Run CodesSummary CodesTheorems.
Open Scope N_scope.

Theorem C03_roundtrip :
  forall E Dw Dr checks id p flw flr v pre post strict cap pk,
  valid id p v -> maxcap <= cap ->
  exists cw pk',
    wrun (swprims E checks) (sel_write E Dw checks id p flw v) pre = Ok (LEN cw, pre ++ cw) /\
    rrun (sprims E strict cap) (sel_read E Dr id p flr) (mkr (cw ++ post) (LEN pre) pk)
      = Ok (v, mkr post (LEN pre + LEN cw) pk') /\
    sel_len Dw id p flw v = Some (LEN cw) /\ sel_len Dr id p flr v = Some (LEN cw).
Proof. exact CodesTheorems.roundtrip. Qed.
Print Assumptions C03_roundtrip.

Theorem C03_prefix_free :
  forall E id p v1 v2 post1 post2, valid id p v1 -> valid id p v2 ->
  code_cw E id p v1 ++ post1 = code_cw E id p v2 ++ post2 -> v1 = v2 /\ post1 = post2.
Proof. exact CodesTheorems.prefix_free. Qed.
Print Assumptions C03_prefix_free.

(* the domain is not empty at its extremes: 2^64-2 for the universal codes, 2^64-1 for VByte,
   k = 63, b = 2^64-1 *)
Theorem C03_domain_extremes :
  valid 1 0 18446744073709551614 /\ valid 3 0 18446744073709551614 /\ valid 4 0 18446744073709551615 /\
  valid 6 63 18446744073709551614 /\ valid 8 18446744073709551615 18446744073709551614 /\
  valid 10 63 18446744073709551614 /\ valid 11 18446744073709551615 18446744073709551614.
Proof. unfold valid, U64MAX, W64. repeat split; lia. Qed.
Print Assumptions C03_domain_extremes.

(* ---- every configuration: the same statement on the word-level machines ---- *)
From DSI Require Import Words Writer Reader Abs MachineTheorems.

(* any writer word width (wordsize_ok W: a multiple of 8, >= 8), any fill state of its buffer *)
Theorem C03_machines_writer :
  forall E W D id p fl v b s, wrel E W b s -> valid id p v ->
  (exists s', wrun (bwprims E W false) (sel_write E D false id p fl v) s = Ok (LEN (code_cw E id p v), s') /\
              WInv W s' /\ wabs E W s' = b ++ code_cw E id p v)
  \/ wrun (bwprims E W false) (sel_write E D false id p fl v) s = Err.
Proof. exact MachineTheorems.code_write_machine. Qed.
Print Assumptions C03_machines_writer.

(* any buffered reader word width W <= 64 that serves the tables, any buffer state satisfying the
   reader invariant, any position, any following bits (stream of at most 2^64 bits) *)
Theorem C03_machines_reader :
  forall E W D id p fl v s pos post,
  RInv E W s pos -> W * N.of_nat (length (ws_words (br_src s))) <= 2 ^ 64 -> maxcap <= W ->
  valid id p v ->
  skipn (N.to_nat pos) (src_bits E W (br_src s)) = code_cw E id p v ++ post ->
  exists s', rrun (brprims E W) (sel_read E D id p fl) s = Ok (v, s') /\
             RInv E W s' (pos + LEN (code_cw E id p v)) /\
             ws_words (br_src s') = ws_words (br_src s) /\ ws_strict (br_src s') = ws_strict (br_src s).
Proof. exact MachineTheorems.code_read_machine. Qed.
Print Assumptions C03_machines_reader.

(* the unbuffered reader *)
Theorem C03_machines_ureader :
  forall E D id p fl v s post,
  UInv s -> maxcap <= 32 -> valid id p v ->
  ur_index s + LEN (code_cw E id p v) < 2 ^ 63 ->
  skipn (N.to_nat (ur_index s)) (src_bits E 64 (ur_src s)) = code_cw E id p v ++ post ->
  exists s', rrun (urprims E) (sel_read E D id p fl) s = Ok (v, s') /\
             UInv s' /\ ur_index s' = ur_index s + LEN (code_cw E id p v) /\
             ws_words (ur_src s') = ws_words (ur_src s).
Proof. exact MachineTheorems.code_read_umachine. Qed.
Print Assumptions C03_machines_ureader.
