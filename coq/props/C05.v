(* C05 — table-driven coding is observationally identical to bit-by-bit coding.
   (1) every entry of every generated table is sound (by computation over the tables the
       translator produced from the current source, on every run);
   (2) hence for every value, stream, position, strictness: any table options give the same bits,
       lengths, values and end positions (including a look-ahead that would cross the end of a
       strict stream: the failed peek falls back to the bit-by-bit path);
   (3) a reader that printed no diagnostic really has the look-ahead it claimed. *)
From DSI Require Import Base Prog Codes BitFacts CodesProofs TableCheck CodesProofs3 GenProofs Run CodesSummary CodesTheorems.
From DSI.Gen Require Import GenTables GenParams.
Open Scope N_scope.

Theorem C05_every_table_entry_sound : check_tables the_tables = true.
Proof. exact GenProofs.the_tables_ok. Qed.
Print Assumptions C05_every_table_entry_sound.

Theorem C05_tables_equiv :
  forall E D1 D2 checks id p fl1 fl2 v s strict cap post pos pk,
  valid id p v -> maxcap <= cap ->
  wrun (swprims E checks) (sel_write E D1 checks id p fl1 v) s
    = wrun (swprims E checks) (sel_write E D2 checks id p fl2 v) s /\
  sel_len D1 id p fl1 v = sel_len D2 id p fl2 v /\
  exists pk1 pk2 r,
    rrun (sprims E strict cap) (sel_read E D1 id p fl1) (mkr (code_cw E id p v ++ post) pos pk) = Ok (v, mkr post r pk1) /\
    rrun (sprims E strict cap) (sel_read E D2 id p fl2) (mkr (code_cw E id p v ++ post) pos pk) = Ok (v, mkr post r pk2).
Proof. exact CodesTheorems.tables_unobservable. Qed.
Print Assumptions C05_tables_equiv.

Theorem C05_claimed_peek_sound : (forall W, buf_claimed_peek W <= W) /\ unbuf_claimed_peek <= 32.
Proof. exact CodesTheorems.claimed_peek_sound. Qed.
Print Assumptions C05_claimed_peek_sound.

Theorem C05_no_diagnostic_sufficient : forall W, maxcap <= buf_claimed_peek W -> maxcap <= W.
Proof. exact CodesTheorems.no_diagnostic_sufficient. Qed.
Print Assumptions C05_no_diagnostic_sufficient.

(* the look-ahead every table needs fits the readers that print no diagnostic (u16.. and unbuffered) *)
Theorem C05_maxcap : maxcap <= 16 /\ maxcap <= unbuf_claimed_peek.
Proof. vm_compute. split; discriminate. Qed.
Print Assumptions C05_maxcap.
