(* C04 — codewords equal their published definitions (CodeDefs.v: written from the documented
   mathematical definitions, unbounded arithmetic, independent of the Rust control flow).
   For zeta_k under the property's guard (the interval bound 2^((h+1)k) fits in 64 bits). *)
From DSI Require Import Base Prog Codes CodeDefs CodesProofs Run CodesSummary CodesTheorems.
Open Scope N_scope.

Theorem C04_codeword :
  forall E D checks id p fl v, valid id p v -> zeta_guard id p v ->
  forall s, wrun (swprims E checks) (sel_write E D checks id p fl v) s
            = Ok (LEN (code_def E id p v), s ++ code_def E id p v).
Proof. exact CodesTheorems.codeword_is_definition. Qed.
Print Assumptions C04_codeword.

(* the DEF scenario of the correspondence check (Run.run_def), compared with the bytes the real
   crate writes, evaluates exactly code_def *)
Theorem C04_def_scenario :
  forall E id p v, valid id p v ->
  run_def E [id; p; v] = 0 :: LEN (code_def E id p v) :: image E (code_def E id p v).
Proof. exact CodesSummary.run_def_spec. Qed.
Print Assumptions C04_def_scenario.

(* the codeword table of src/codes/mod.rs, recomputed from the definitions *)
Theorem C04_doc_table :
  map (def_gamma BE) [0; 1; 2; 3; 4] =
    [[true]; [false; true; false]; [false; true; true]; [false; false; true; false; false]; [false; false; true; false; true]] /\
  map (def_delta BE) [0; 1; 2] = [[true]; [false; true; false; false]; [false; true; false; true]] /\
  map (def_omega BE) [0; 1; 2; 3] = [[false]; [true; false; false]; [true; true; false]; [true; false; true; false; false; false]] /\
  map (def_zeta BE 3) [0; 1; 2; 7] = [[true; false; false]; [true; false; true; false]; [true; false; true; true];
                                      [false; true; false; false; false; false; false]] /\
  def_vbyte_bytes false 300 = [129; 44] /\ def_vbyte_bytes true 300 = [172; 1].
Proof. vm_compute. repeat split. Qed.
Print Assumptions C04_doc_table.
