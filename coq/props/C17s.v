(* C17 composed with C03: signed values through any instantaneous code *)
From Coq Require Import List NArith ZArith.
From DSI Require Import Base Prog Codes BitFacts CodesProofs Run CodesSummary CodesTheorems Small CodeDefs VByteProofs SignedCodes.
Open Scope N_scope.

Theorem C17s_signed_nat_inverse : forall y, (- 2 ^ 63 <= y < 2 ^ 63)%Z -> signed_of_nat (nat_of_signed y) = y.
Proof. exact SignedCodes.signed_nat_inverse. Qed.
Print Assumptions C17s_signed_nat_inverse.

Theorem C17s_signed_roundtrip :
  forall E Dw Dr checks id p flw flr y pre post strict cap pk,
  (- 2 ^ 63 <= y < 2 ^ 63)%Z -> valid id p (nat_of_signed y) -> maxcap <= cap ->
  exists cw pk' x,
    wrun (swprims E checks) (sel_write E Dw checks id p flw (nat_of_signed y)) pre = Ok (LEN cw, pre ++ cw) /\
    rrun (sprims E strict cap) (sel_read E Dr id p flr) (mkr (cw ++ post) (LEN pre) pk)
      = Ok (x, mkr post (LEN pre + LEN cw) pk') /\
    signed_of_nat x = y.
Proof. exact SignedCodes.signed_roundtrip. Qed.
Print Assumptions C17s_signed_roundtrip.

Theorem C17s_signed_prefix_free :
  forall E id p y1 y2 post1 post2,
  (- 2 ^ 63 <= y1 < 2 ^ 63)%Z -> (- 2 ^ 63 <= y2 < 2 ^ 63)%Z ->
  valid id p (nat_of_signed y1) -> valid id p (nat_of_signed y2) ->
  code_cw E id p (nat_of_signed y1) ++ post1 = code_cw E id p (nat_of_signed y2) ++ post2 ->
  y1 = y2 /\ post1 = post2.
Proof. exact SignedCodes.signed_prefix_free. Qed.
Print Assumptions C17s_signed_prefix_free.

Theorem C17s_signed_domain :
  nat_of_signed (2 ^ 63 - 1) = 18446744073709551614 /\ nat_of_signed (- 2 ^ 63) = 18446744073709551615 /\
  nat_of_signed (-1) = 1 /\ nat_of_signed 0 = 0 /\ nat_of_signed 1 = 2.
Proof. exact SignedCodes.signed_domain. Qed.
Print Assumptions C17s_signed_domain.

Theorem C17s_signed_vbyte_bytes_roundtrip : forall y rest, (- 2 ^ 63 <= y < 2 ^ 63)%Z ->
  (exists bs, vbyte_be_encode (nat_of_signed y) = Some bs /\
     exists x, vbyte_read_be (bs ++ rest) = Ok (x, rest) /\ signed_of_nat x = y) /\
  (exists bs, vbyte_le_encode (nat_of_signed y) = Some bs /\
     exists x, vbyte_read_le (bs ++ rest) = Ok (x, rest) /\ signed_of_nat x = y).
Proof. exact SignedCodes.signed_vbyte_bytes_roundtrip. Qed.
Print Assumptions C17s_signed_vbyte_bytes_roundtrip.

Theorem C17s_signed_len_monotone : forall E id p y1 y2,
  (- 2 ^ 63 <= y1 < 2 ^ 63)%Z -> (- 2 ^ 63 <= y2 < 2 ^ 63)%Z -> (Z.abs y1 < Z.abs y2)%Z ->
  valid id p (nat_of_signed y1) -> valid id p (nat_of_signed y2) ->
  LEN (code_cw E id p (nat_of_signed y1)) <= LEN (code_cw E id p (nat_of_signed y2)).
Proof. exact SignedCodes.signed_len_monotone. Qed.
Print Assumptions C17s_signed_len_monotone.

Theorem C17s_signed_len_exact :
  forall E Dw Dr checks id p flw flr y pre post strict cap pk,
  (- 2 ^ 63 <= y < 2 ^ 63)%Z -> valid id p (nat_of_signed y) -> maxcap <= cap ->
  exists cw pk' x l,
    wrun (swprims E checks) (sel_write E Dw checks id p flw (nat_of_signed y)) pre = Ok (l, pre ++ cw) /\
    rrun (sprims E strict cap) (sel_read E Dr id p flr) (mkr (cw ++ post) (LEN pre) pk)
      = Ok (x, mkr post (LEN pre + l) pk') /\
    l = LEN cw /\ sel_len Dw id p flw (nat_of_signed y) = Some l /\ sel_len Dr id p flr (nat_of_signed y) = Some l.
Proof. exact SignedCodes.signed_len_exact. Qed.
Print Assumptions C17s_signed_len_exact.
