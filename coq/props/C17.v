From Coq Require Import ZArith.
From DSI Require Import Small ZigZagProofs.
Local Open Scope Z_scope.

Theorem C17_to_nat_formula : forall w y, 1 <= w -> - 2 ^ (w - 1) <= y < 2 ^ (w - 1) ->
  to_nat w y = (if 0 <=? y then 2 * y else - 2 * y - 1).
Proof. exact ZigZagProofs.to_nat_formula. Qed.
Print Assumptions C17_to_nat_formula.

Theorem C17_to_int_formula : forall w x, 1 <= w -> 0 <= x < 2 ^ w ->
  to_int w x = (if Z.even x then x / 2 else - (x / 2) - 1).
Proof. exact ZigZagProofs.to_int_formula. Qed.
Print Assumptions C17_to_int_formula.

Theorem C17_to_nat_range : forall w y, 1 <= w -> - 2 ^ (w - 1) <= y < 2 ^ (w - 1) ->
  0 <= to_nat w y < 2 ^ w.
Proof. exact ZigZagProofs.to_nat_range. Qed.
Print Assumptions C17_to_nat_range.

Theorem C17_to_int_range : forall w x, 1 <= w -> 0 <= x < 2 ^ w ->
  - 2 ^ (w - 1) <= to_int w x < 2 ^ (w - 1).
Proof. exact ZigZagProofs.to_int_range. Qed.
Print Assumptions C17_to_int_range.

Theorem C17_inverse_l : forall w y, 1 <= w -> - 2 ^ (w - 1) <= y < 2 ^ (w - 1) ->
  to_int w (to_nat w y) = y.
Proof. exact ZigZagProofs.inverse_l. Qed.
Print Assumptions C17_inverse_l.

Theorem C17_inverse_r : forall w x, 1 <= w -> 0 <= x < 2 ^ w ->
  to_nat w (to_int w x) = x.
Proof. exact ZigZagProofs.inverse_r. Qed.
Print Assumptions C17_inverse_r.

Theorem C17_bijection : forall w, 1 <= w ->
  (forall y, - 2 ^ (w - 1) <= y < 2 ^ (w - 1) -> 0 <= to_nat w y < 2 ^ w) /\
  (forall x, 0 <= x < 2 ^ w -> - 2 ^ (w - 1) <= to_int w x < 2 ^ (w - 1)) /\
  (forall y, - 2 ^ (w - 1) <= y < 2 ^ (w - 1) -> to_int w (to_nat w y) = y) /\
  (forall x, 0 <= x < 2 ^ w -> to_nat w (to_int w x) = x) /\
  (forall y1 y2, - 2 ^ (w - 1) <= y1 < 2 ^ (w - 1) -> - 2 ^ (w - 1) <= y2 < 2 ^ (w - 1) ->
     to_nat w y1 = to_nat w y2 -> y1 = y2) /\
  (forall x, 0 <= x < 2 ^ w -> exists y, - 2 ^ (w - 1) <= y < 2 ^ (w - 1) /\ to_nat w y = x) /\
  (forall x1 x2, 0 <= x1 < 2 ^ w -> 0 <= x2 < 2 ^ w -> to_int w x1 = to_int w x2 -> x1 = x2) /\
  (forall y, - 2 ^ (w - 1) <= y < 2 ^ (w - 1) -> exists x, 0 <= x < 2 ^ w /\ to_int w x = y) /\
  (forall y, - 2 ^ (w - 1) <= y < 2 ^ (w - 1) -> to_nat w y <= 2 * Z.abs y).
Proof. exact ZigZagProofs.bijection. Qed.
Print Assumptions C17_bijection.

Theorem C17_instances :
  let B := fun w : Z =>
    (forall y, - 2 ^ (w - 1) <= y < 2 ^ (w - 1) -> 0 <= to_nat w y < 2 ^ w) /\
    (forall x, 0 <= x < 2 ^ w -> - 2 ^ (w - 1) <= to_int w x < 2 ^ (w - 1)) /\
    (forall y, - 2 ^ (w - 1) <= y < 2 ^ (w - 1) -> to_int w (to_nat w y) = y) /\
    (forall x, 0 <= x < 2 ^ w -> to_nat w (to_int w x) = x) /\
    (forall y1 y2, - 2 ^ (w - 1) <= y1 < 2 ^ (w - 1) -> - 2 ^ (w - 1) <= y2 < 2 ^ (w - 1) ->
       to_nat w y1 = to_nat w y2 -> y1 = y2) /\
    (forall x, 0 <= x < 2 ^ w -> exists y, - 2 ^ (w - 1) <= y < 2 ^ (w - 1) /\ to_nat w y = x) /\
    (forall x1 x2, 0 <= x1 < 2 ^ w -> 0 <= x2 < 2 ^ w -> to_int w x1 = to_int w x2 -> x1 = x2) /\
    (forall y, - 2 ^ (w - 1) <= y < 2 ^ (w - 1) -> exists x, 0 <= x < 2 ^ w /\ to_int w x = y) /\
    (forall y, - 2 ^ (w - 1) <= y < 2 ^ (w - 1) -> to_nat w y <= 2 * Z.abs y) in
  B 8 /\ B 16 /\ B 32 /\ B 64 /\ B 128.
Proof. exact ZigZagProofs.instances. Qed.
Print Assumptions C17_instances.
