(* C09 on the word machine: a truncated codeword at the end of a strict stream is an error, never a value.
   Statement only; proof in theories/TruncMachine.v (composition of C09t_truncated_code_err with the
   reader refinement C02_programs_partial). *)
From DSI Require Import Base Words Prog Reader Abs Run CodesSummary TruncMachine.
Open Scope N_scope.

Theorem C09tm_truncated_code_err_machine : forall E W D id p fl v s pos,
  RInv E W s pos -> ws_strict (br_src s) = true ->
  W * N.of_nat (length (ws_words (br_src s))) <= 2 ^ 64 -> maxcap <= W ->
  valid id p v ->
  (exists rest, rest <> [] /\
     code_cw E id p v = skipn (N.to_nat pos) (src_bits E W (br_src s)) ++ rest) ->
  rrun (brprims E W) (sel_read E D id p fl) s = Err.
Proof. exact TruncMachine.truncated_code_err_machine. Qed.
Print Assumptions C09tm_truncated_code_err_machine.
