(* C10 — every dispatch mechanism performs exactly the code it names.
   `same_code op a b = true` : the calls a and b name the same codewords (up to the proved
   identities zeta_1 = pi_0 = exp-Golomb_0 = gamma, Rice_0 = Golomb_1 = unary, Golomb_(2^j) = Rice_j,
   zeta3 = zeta_3); `same_code_cw` / `same_code_len` turn it into equal bits / values / lengths.
   The arm tables (const tables, enum arms, func new/consts, factory new/consts) are GENERATED from the
   match arms of src/dispatch/*.rs on every run. *)
From DSI Require Import Base Prog Codes DispatchTypes Dispatch Run CodesSummary DispatchProofs.
From DSI.Gen Require Import GenTables GenParams GenDispatch.
Open Scope N_scope.

Theorem C10_const : forall id op, id <= 50 ->
  exists cl c, const_call op id = Some cl /\ from_code_const id = Some c /\ same_code op cl (direct_call c) = true.
Proof. exact DispatchProofs.const_dispatch. Qed.
Print Assumptions C10_const.

Theorem C10_const_out_of_range : forall id op, 50 < id -> const_call op id = None /\ from_code_const id = None.
Proof. exact DispatchProofs.const_out_of_range. Qed.
Print Assumptions C10_const_out_of_range.

(* constants BY NAME: ConstCode<{code_consts::NAME}> performs the code NAME names *)
Theorem C10_const_by_name : forall c nm op, const_name c = Some nm ->
  exists cl, named_const_call op c = Some cl /\ same_code op cl (direct_call c) = true.
Proof. exact DispatchProofs.const_by_name. Qed.
Print Assumptions C10_const_by_name.
Theorem C10_published_names_covered :
  forallb (fun '(nm, _) => existsb (fun c => match const_name c with Some n => String.eqb n nm | None => false end) named_codes)
          code_consts = true.
Proof. exact DispatchProofs.published_names_covered. Qed.
Print Assumptions C10_published_names_covered.

(* totality: every published code (all variants x parameters 0..10 that have a constant name) is accepted by
   every dispatcher (FuncCodeReader/Writer/Len::new, the reader factory, the enum arms, ConstCode by name) *)
Theorem C10_dispatch_total : forall c nm op, In c named_codes -> const_name c = Some nm ->
  (exists cl, func_call op c = Some cl) /\ (exists cl, enum_call op c = Some cl) /\
  (exists cl, named_const_call op c = Some cl) /\ (exists cl, factory_call c = Some cl).
Proof. exact DispatchProofs.dispatch_total. Qed.
Print Assumptions C10_dispatch_total.

(* the enumeration, for EVERY parameter value (not only the literals of the arms) *)
Theorem C10_enum : forall op v p, (has_param v = false -> p = 0) ->
  exists cl, enum_call op {| cvar := v; cparam := p |} = Some cl /\
             same_code op cl (direct_call {| cvar := v; cparam := p |}) = true.
Proof. exact DispatchProofs.enum_dispatch. Qed.
Print Assumptions C10_enum.

Theorem C10_func : forall op c cl, (has_param (cvar c) = false -> cparam c = 0) ->
  func_call op c = Some cl -> same_code op cl (direct_call c) = true.
Proof. exact DispatchProofs.func_dispatch. Qed.
Print Assumptions C10_func.

Theorem C10_factory : forall c cl, (has_param (cvar c) = false -> cparam c = 0) ->
  factory_call c = Some cl -> same_code OpRead cl (direct_call c) = true.
Proof. exact DispatchProofs.factory_dispatch. Qed.
Print Assumptions C10_factory.

(* meaning of same_code: equal codewords, hence (codes_correct) equal bits written, equal values
   read at equal end positions; equal lengths *)
Theorem C10_same_code_cw : forall E op a b v, op <> OpLen -> same_code op a b = true -> cvalid a v -> cvalid b v ->
  kind_eqb (ckind a) KVByteAny = false /\ kind_eqb (ckind b) KVByteAny = false /\ ccw E a v = ccw E b v.
Proof. exact DispatchProofs.same_code_cw. Qed.
Print Assumptions C10_same_code_cw.

Theorem C10_same_code_len : forall D a b v, same_code OpLen a b = true -> cvalid a v -> cvalid b v ->
  call_len the_tables D a v = call_len the_tables D b v.
Proof. exact DispatchProofs.same_code_len. Qed.
Print Assumptions C10_same_code_len.

(* the programs a dispatcher runs are the selection functions of the correspondence check *)
Theorem C10_call_is_sel : forall E D checks c v, kind_eqb (ckind c) KVByteAny = false ->
  call_write E the_tables D checks c v = sel_write E D checks (fst (cid c)) (snd (cid c)) 4 v /\
  call_read E the_tables D c = sel_read E D (fst (cid c)) (snd (cid c)) 4 /\
  call_len the_tables D c v = sel_len D (fst (cid c)) (snd (cid c)) 4 v.
Proof.
  intros E D checks c v H. split; [apply call_write_sel; exact H|]. split; [apply call_read_sel; exact H | apply call_len_sel].
Qed.
Print Assumptions C10_call_is_sel.
