(* C01: bit writers emit one canonical byte image, independent of word size.
   (Also the write_bits `checks` assertion, C19_assert_iff, proved from the same lemmas.)
   Statements only; proofs are in theories/WriterProofs.v (and theories/BitsLemmas.v). *)
From DSI Require Import Base Words Prog Writer Abs BitsLemmas WriterProofs.

(* ---------------------------------------------------------------- layout *)
Theorem C01_word_layout : forall E W w, wordsize_ok W -> w < 2 ^ W ->
  bits_of_bytes E (word_bytes E W w) = bits_of_word E W w.
Proof. exact WriterProofs.C01_word_layout. Qed.
Print Assumptions C01_word_layout.

Theorem C01_layout_be : forall (bytes : list N) (i : nat),
  (i < 8 * length bytes)%nat -> Forall (fun b => b < 256) bytes ->
  nth i (bits_of_bytes BE bytes) false = N.testbit (nth (i / 8) bytes 0) (N.of_nat (7 - i mod 8)).
Proof. exact WriterProofs.C01_layout_be. Qed.
Print Assumptions C01_layout_be.

Theorem C01_layout_le : forall (bytes : list N) (i : nat),
  (i < 8 * length bytes)%nat -> Forall (fun b => b < 256) bytes ->
  nth i (bits_of_bytes LE bytes) false = N.testbit (nth (i / 8) bytes 0) (N.of_nat (i mod 8)).
Proof. exact WriterProofs.C01_layout_le. Qed.
Print Assumptions C01_layout_le.

Theorem C01_bytes_abs : forall E W s, WInv W s ->
  bits_of_bytes E (bw_bytes E W s) = bits_of_words E W (wk_words (bw_sink s)).
Proof. exact WriterProofs.C01_bytes_abs. Qed.
Print Assumptions C01_bytes_abs.

(* image is a left inverse of bits_of_bytes: the delivered bytes ARE the image of the
   delivered bits *)
Theorem C01_image_bits_of_bytes : forall E bytes,
  Forall (fun b => b < 256) bytes -> image E (bits_of_bytes E bytes) = bytes.
Proof. exact BitsLemmas.image_bits_of_bytes. Qed.
Print Assumptions C01_image_bits_of_bytes.

Theorem C01_image_app_zeros : forall E b k,
  exists j, image E (b ++ zeros k) = image E b ++ repeat 0 j.
Proof. exact BitsLemmas.image_app_zeros. Qed.
Print Assumptions C01_image_app_zeros.

Theorem C01_length_image : forall E bs,
  length (image E bs) = N.to_nat ((N.of_nat (length bs) + 7) / 8).
Proof. exact BitsLemmas.length_image. Qed.
Print Assumptions C01_length_image.

(* ---------------------------------------------------------------- operations *)
Theorem C01_write_bits_sim : forall E W v n b s,
  wrel E W b s -> wosim E W (sw_bits E false v n b) (bw_write_bits E W false v n s).
Proof. exact WriterProofs.C01_write_bits_sim. Qed.
Print Assumptions C01_write_bits_sim.

Theorem C01_write_bits_never_errs_unbounded : forall E W v n b s,
  wrel E W b s -> n <= 64 -> wk_cap (bw_sink s) = None ->
  exists s', bw_write_bits E W false v n s = Ok (n, s') /\ WInv W s' /\
             wabs E W s' = b ++ field E v (N.to_nat n) /\ wk_cap (bw_sink s') = None.
Proof. exact WriterProofs.C01_write_bits_never_errs_unbounded. Qed.
Print Assumptions C01_write_bits_never_errs_unbounded.

Theorem C01_write_unary_sim : forall E W x b s,
  wrel E W b s -> wosim E W (sw_unary x b) (bw_write_unary E W x s).
Proof. exact WriterProofs.C01_write_unary_sim. Qed.
Print Assumptions C01_write_unary_sim.

Theorem C01_flush : forall E W b s,
  wrel E W b s ->
  match bw_flush E W s with
  | Ok (r, s') =>
      r = W - bw_space s /\ r = N.of_nat (length b) mod W /\ WInv W s' /\ bw_space s' = W /\
      wabs E W s' = b ++ zeros (N.to_nat (if r =? 0 then 0 else W - r))
  | Err => wk_cap (bw_sink s) <> None
  | _ => False
  end.
Proof. exact WriterProofs.C01_flush. Qed.
Print Assumptions C01_flush.

Theorem C01_flush_idempotent : forall E W s r s',
  WInv W s -> bw_flush E W s = Ok (r, s') -> bw_flush E W s' = Ok (0, s').
Proof. exact WriterProofs.C01_flush_idempotent. Qed.
Print Assumptions C01_flush_idempotent.

Theorem C01_prefix_stable : forall E W,
  (forall checks v n s r s', WInv W s -> bw_write_bits E W checks v n s = Ok (r, s') ->
     exists ws, wk_words (bw_sink s') = wk_words (bw_sink s) ++ ws) /\
  (forall x s r s', WInv W s -> bw_write_unary E W x s = Ok (r, s') ->
     exists ws, wk_words (bw_sink s') = wk_words (bw_sink s) ++ ws) /\
  (forall s r s', WInv W s -> bw_flush E W s = Ok (r, s') ->
     exists ws, wk_words (bw_sink s') = wk_words (bw_sink s) ++ ws).
Proof. exact WriterProofs.C01_prefix_stable. Qed.
Print Assumptions C01_prefix_stable.

Theorem C19_assert_iff : forall E W v n s,
  WInv W s -> n <= 64 ->
  (bw_write_bits E W true v n s = Fail <-> N.land v (mask_u128 n) <> v) /\
  (N.land v (mask_u128 n) = v -> bw_write_bits E W true v n s = bw_write_bits E W false v n s) /\
  (N.land v (mask_u128 n) = v <-> v < 2 ^ n).
Proof. exact WriterProofs.C19_assert_iff. Qed.
Print Assumptions C19_assert_iff.

(* ---------------------------------------------------------------- programs and lists *)
Theorem C01_prims_sim : forall E W, wprims_sim E W (swprims E false) (bwprims E W false).
Proof. exact WriterProofs.C01_prims_sim. Qed.
Print Assumptions C01_prims_sim.

Theorem C01_prog_refines : forall (A : Type) E W (p : wprog A) b s,
  wrel E W b s -> wosim E W (wrun (swprims E false) p b) (wrun (bwprims E W false) p s).
Proof. exact (@WriterProofs.C01_prog_refines). Qed.
Print Assumptions C01_prog_refines.

Theorem C01_writer_refines : forall E W ops,
  wordsize_ok W -> Forall wop_valid ops ->
  exists rs B s, run_ops (spec_wop E W) ops [] = Ok (rs, B) /\
                 run_ops (mach_wop E W) ops (bw_new None W) = Ok (rs, s) /\
                 WInv W s /\ wabs E W s = B.
Proof. exact WriterProofs.C01_writer_refines. Qed.
Print Assumptions C01_writer_refines.

(* any valid operations (flushes included) followed by a flush, one width: the delivered
   bytes are the image of the specification bits followed by zero bytes only *)
Theorem C01_flushed_image : forall E W ops,
  wordsize_ok W -> Forall wop_valid ops ->
  exists rs B r s k,
    run_ops (spec_wop E W) ops [] = Ok (rs, B) /\
    run_ops (mach_wop E W) (ops ++ [OFlush]) (bw_new None W) = Ok (rs ++ [r], s) /\
    r = N.of_nat (length B) mod W /\
    bw_bytes E W s = image E B ++ repeat 0 k.
Proof. exact WriterProofs.flushed_bytes. Qed.
Print Assumptions C01_flushed_image.

Theorem C01_word_size_independent : forall E W1 W2 ops,
  wordsize_ok W1 -> wordsize_ok W2 -> Forall wop_valid ops -> Forall (fun o => o <> OFlush) ops ->
  exists rs B,
    run_ops (spec_wop E W1) ops [] = Ok (rs, B) /\
    run_ops (spec_wop E W2) ops [] = Ok (rs, B) /\
    exists r1 s1 k1 r2 s2 k2,
      run_ops (mach_wop E W1) (ops ++ [OFlush]) (bw_new None W1) = Ok (rs ++ [r1], s1) /\
      run_ops (mach_wop E W2) (ops ++ [OFlush]) (bw_new None W2) = Ok (rs ++ [r2], s2) /\
      r1 = N.of_nat (length B) mod W1 /\ r2 = N.of_nat (length B) mod W2 /\
      bw_bytes E W1 s1 = image E B ++ repeat 0 k1 /\
      bw_bytes E W2 s2 = image E B ++ repeat 0 k2 /\
      length (image E B) = N.to_nat ((N.of_nat (length B) + 7) / 8).
Proof. exact WriterProofs.C01_word_size_independent. Qed.
Print Assumptions C01_word_size_independent.
