(* C07, unbuffered reader *)
From DSI Require Import Abs UReaderProofs.

Theorem C07u_bit_pos : forall E r s, urel E r s -> sr_pos r = ur_index s.
Proof. exact UReaderProofs.bit_pos_ok. Qed.
Print Assumptions C07u_bit_pos.

Theorem C07u_set_bit_pos : forall E p s,
  UInv s -> p < 2 ^ 63 ->
  let s' := {| ur_src := ur_src s; ur_index := p |} in
  s_skip false p (sreader_of (src_bits E 64 (ur_src s))) = Ok (uabs E s' 0) /\
  uabs E s' 0 = {| sr_rest := skipn (N.to_nat p) (src_bits E 64 (ur_src s)); sr_pos := p; sr_peeked := 0 |} /\
  urel E (uabs E s' 0) s'.
Proof. exact UReaderProofs.set_bit_pos_ok. Qed.
Print Assumptions C07u_set_bit_pos.
