(* C16 — code names and identifiers round-trip *)
From Coq Require Import List NArith Bool String Ascii.
From DSI Require Import Names NamesProofs.
Import ListNotations.
Local Open Scope string_scope.
Local Open Scope N_scope.

Theorem C16_display_parse :
  forall c, (has_param (cvar c) = false -> cparam c = 0) -> cparam c < W64 ->
  exists s, display c = Some s /\ from_str s = POk c.
Proof. exact NamesProofs.display_parse. Qed.
Print Assumptions C16_display_parse.

Theorem C16_parse_print_usize : forall n, n < W64 -> parse_usize (print_usize n) = Some n.
Proof. exact NamesProofs.parse_print_usize. Qed.
Print Assumptions C16_parse_print_usize.

Theorem C16_reject_unknown_name :
  forall s, assocS fromstr_param_arms (fst (split_at "("%char s)) = None ->
            assocS fromstr_literal_arms s = None -> from_str s = PUnknown.
Proof. exact NamesProofs.reject_unknown_name. Qed.
Print Assumptions C16_reject_unknown_name.

Theorem C16_reject_missing_param :
  forall s, has_char "("%char s = false -> assocS fromstr_literal_arms s = None -> from_str s = PUnknown.
Proof. exact NamesProofs.reject_missing_param. Qed.
Print Assumptions C16_reject_missing_param.

Theorem C16_reject_missing_param_names :
  forall v, has_param v = true ->
  exists name, (forall p, display {| cvar := v; cparam := p |} = Some (name ++ "(" ++ print_usize p ++ ")")) /\
    from_str name = PUnknown /\ from_str (name ++ "(") = PParseErr /\ from_str (name ++ "()") = PParseErr.
Proof. exact NamesProofs.reject_missing_param_names. Qed.
Print Assumptions C16_reject_missing_param_names.

Theorem C16_reject_bad_param :
  forall name k rest v,
  assocS fromstr_param_arms name = Some v -> has_char "("%char name = false ->
  has_char "("%char k = false -> has_char ")"%char k = false ->
  parse_usize k = None ->
  from_str (name ++ "(" ++ k ++ ")" ++ rest) = PParseErr /\ from_str (name ++ "(" ++ k) = PParseErr.
Proof. exact NamesProofs.reject_bad_param. Qed.
Print Assumptions C16_reject_bad_param.

Theorem C16_parse_usize_spec :
  forall k n, parse_usize k = Some n <->
  strip_plus k <> "" /\ all_digits (strip_plus k) = true /\ dec_value (strip_plus k) = n /\ n < W64.
Proof. exact NamesProofs.parse_usize_spec. Qed.
Print Assumptions C16_parse_usize_spec.

Theorem C16_parse_usize_None :
  forall k, parse_usize k = None <->
  strip_plus k = "" \/ all_digits (strip_plus k) = false \/ W64 <= dec_value (strip_plus k).
Proof. exact NamesProofs.parse_usize_None_iff. Qed.
Print Assumptions C16_parse_usize_None.

Theorem C16_parse_usize_bound : forall k n, parse_usize k = Some n -> n < W64.
Proof. exact NamesProofs.parse_usize_bound. Qed.
Print Assumptions C16_parse_usize_bound.

Theorem C16_parameterless_with_param_rejected :
  forall v name, has_param v = false -> display {| cvar := v; cparam := 0 |} = Some name ->
  forall r, from_str (name ++ "(" ++ r) = PUnknown.
Proof. exact NamesProofs.parameterless_with_param_rejected. Qed.
Print Assumptions C16_parameterless_with_param_rejected.

Theorem C16_literal_with_param_rejected :
  forall name v, In (name, v) fromstr_literal_arms -> forall r, from_str (name ++ "(" ++ r) = PUnknown.
Proof. exact NamesProofs.literal_with_param_rejected. Qed.
Print Assumptions C16_literal_with_param_rejected.

Theorem C16_const_roundtrip_ids :
  (forall id, id <= 50 -> exists c, from_code_const id = Some c /\ to_code_const c = Some id) /\
  (forall id, 50 < id -> from_code_const id = None).
Proof. exact (conj NamesProofs.const_roundtrip_ids NamesProofs.const_out_of_range). Qed.
Print Assumptions C16_const_roundtrip_ids.

(* _partial: excludes Pi{k:0} (see C16_const_roundtrip_pi0_refuted), needs well-formed codes,
   and "codes_eq implies identical codewords" is proved elsewhere *)
Theorem C16_const_roundtrip_codes_partial :
  forall c id, (has_param (cvar c) = false -> cparam c = 0) ->
  c <> {| cvar := VPi; cparam := 0 |} -> to_code_const c = Some id ->
  exists c', from_code_const id = Some c' /\ codes_eq c c' = true.
Proof. exact NamesProofs.const_roundtrip_codes_partial. Qed.
Print Assumptions C16_const_roundtrip_codes_partial.

Theorem C16_const_roundtrip_pi0_refuted :
  exists id c', to_code_const {| cvar := VPi; cparam := 0 |} = Some id /\
                from_code_const id = Some c' /\ codes_eq {| cvar := VPi; cparam := 0 |} c' = false.
Proof. exact NamesProofs.const_roundtrip_pi0_refuted. Qed.
Print Assumptions C16_const_roundtrip_pi0_refuted.

Theorem C16_codes_eq_equiv :
  (forall a, (has_param (cvar a) = false -> cparam a = 0) -> codes_eq a a = true) /\
  (forall a b, codes_eq a b = true -> codes_eq b a = true) /\
  (forall a b c, codes_eq a b = true -> codes_eq b c = true -> codes_eq a c = true).
Proof. exact NamesProofs.codes_eq_equiv. Qed.
Print Assumptions C16_codes_eq_equiv.
