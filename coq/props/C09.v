(* C09 — end of stream: data is never fabricated (strict sources err exactly when a needed bit is
   missing) and the tail is never lost; zero-extended sources never fail.  The Err clauses of the
   simulation theorems of C02 carry the same facts for every primitive and, through run_simulation,
   for every code. *)
From DSI Require Import Base Words Prog Reader Abs ReaderProofs.
Open Scope N_scope.

Theorem C09_strict_error_bits : forall E W s pos n, RInv E W s pos -> ws_strict (br_src s) = true ->
  0 < n -> n <= 64 -> W * N.of_nat (length (ws_words (br_src s))) < pos + n ->
  br_read_bits E W n s = Err.
Proof. exact ReaderProofs.strict_error_bits. Qed.
Print Assumptions C09_strict_error_bits.

Theorem C09_zero_ext_never_fails : forall E W s pos n, RInv E W s pos -> ws_strict (br_src s) = false -> n <= 64 ->
  exists v s', br_read_bits E W n s = Ok (v, s').
Proof. exact ReaderProofs.zero_ext_never_fails. Qed.
Print Assumptions C09_zero_ext_never_fails.
