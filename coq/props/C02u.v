(* C02 / C07 / C09, unbuffered reader: the u64-word BitReader machine (Reader.v, Section BitReader)
   refines the bit-list specification reader (Prog.v) under the abstraction of Abs.v.
   `strict` is the strictness of the machine's word source. *)
From DSI Require Import Abs UReaderProofs.

Theorem C02u_new : forall E words strict,
  Forall (fun w => w < 2 ^ 64) words ->
  UInv (ur_new words strict) /\
  uabs E (ur_new words strict) 0 = sreader_of (bits_of_words E 64 words) /\
  urel E (sreader_of (bits_of_words E 64 words)) (ur_new words strict).
Proof. exact UReaderProofs.new_ok. Qed.
Print Assumptions C02u_new.

Theorem C02u_read_bits_sim : forall E n r s,
  urel E r s -> (n <= 64 -> ur_index s + n < 2 ^ 63) ->
  osim (urel E) (s_bits E (ws_strict (ur_src s)) n r) (ur_read_bits E n s).
Proof. exact UReaderProofs.read_bits_sim. Qed.
Print Assumptions C02u_read_bits_sim.

Theorem C02u_peek_sim : forall E n r s,
  urel E r s -> osim (urel E) (s_peek E (ws_strict (ur_src s)) 32 n r) (ur_peek E n s).
Proof. exact UReaderProofs.peek_sim. Qed.
Print Assumptions C02u_peek_sim.

Theorem C02u_skipap_sim : forall E n r s,
  urel E r s -> ur_index s + n < 2 ^ 63 ->
  osim0 (urel E) (s_skipap (ws_strict (ur_src s)) n r) (ur_skip n s).
Proof. exact UReaderProofs.skipap_sim. Qed.
Print Assumptions C02u_skipap_sim.

Theorem C02u_skip_sim : forall E n r s,
  urel E r s -> ur_index s + n < 2 ^ 63 ->
  osim0 (urel E) (s_skip false n r) (ur_skip n s).
Proof. exact UReaderProofs.skip_sim. Qed.
Print Assumptions C02u_skip_sim.

Theorem C02u_skip_strict_sim : forall E n r s,
  urel E r s ->
  ur_index s + n <= 64 * N.of_nat (length (ws_words (ur_src s))) -> ur_index s + n < 2 ^ 63 ->
  osim0 (urel E) (s_skip true n r) (ur_skip n s).
Proof. exact UReaderProofs.skip_strict_sim. Qed.
Print Assumptions C02u_skip_strict_sim.

Theorem C02u_skip_over : forall E n r s,
  urel E r s -> 1 <= n -> 64 * N.of_nat (length (ws_words (ur_src s))) < ur_index s + n ->
  s_skip true n r = Err /\
  (ur_index s + n < 2 ^ 64 -> ur_skip n s = Ok {| ur_src := ur_src s; ur_index := ur_index s + n |}).
Proof. exact UReaderProofs.skip_over. Qed.
Print Assumptions C02u_skip_over.


Theorem C02u_read_unary_sim : forall E r s,
  urel E r s -> 64 * N.of_nat (length (ws_words (ur_src s))) < 2 ^ 63 ->
  osim (urel E) (s_unary (ws_strict (ur_src s)) r) (ur_read_unary E s).
Proof. exact UReaderProofs.read_unary_sim. Qed.
Print Assumptions C02u_read_unary_sim.

(* strict sources: an invariant (the stream length bounds the index) closed under all primitives *)
Theorem C02u_prims_sim : forall E,
  rprims_sim (fun r s => urel E r s /\ ws_strict (ur_src s) = true /\
                         64 * N.of_nat (length (ws_words (ur_src s))) < 2 ^ 63)
             (sprims E true 32) (urprims E).
Proof. exact UReaderProofs.prims_sim_strict. Qed.
Print Assumptions C02u_prims_sim.

Theorem C02u_run_sim_strict : forall E A (p : rprog A) r s,
  (urel E r s /\ ws_strict (ur_src s) = true /\ 64 * N.of_nat (length (ws_words (ur_src s))) < 2 ^ 63) ->
  osim (fun r s => urel E r s /\ ws_strict (ur_src s) = true /\
                   64 * N.of_nat (length (ws_words (ur_src s))) < 2 ^ 63)
       (rrun (sprims E true 32) p r) (rrun (urprims E) p s).
Proof. exact UReaderProofs.run_sim_strict. Qed.
Print Assumptions C02u_run_sim_strict.

(* any source (in particular zero-extended ones, where no invariant can bound the u64 index):
   runs whose specification ends below position 2^63 *)
Theorem C02u_run_sim_bounded : forall E A (p : rprog A) r s a r',
  urel E r s -> rrun (sprims E (ws_strict (ur_src s)) 32) p r = Ok (a, r') -> sr_pos r' < 2 ^ 63 ->
  exists s', rrun (urprims E) p s = Ok (a, s') /\ urel E r' s' /\
             ws_strict (ur_src s') = ws_strict (ur_src s) /\ ws_words (ur_src s') = ws_words (ur_src s).
Proof. exact UReaderProofs.run_sim_bounded. Qed.
Print Assumptions C02u_run_sim_bounded.




