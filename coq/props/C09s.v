(* C09 at the sequence level on the buffered word machine of any width: for every point at which a valid
   stream may be truncated, every value lying entirely within the data decodes correctly (with its exact
   position) and the operation that needs a bit beyond the end reports an error instead of a value.
   Statements only; proofs in theories/TruncSeq.v (composition of C03e read_items_from with
   C09tm_truncated_code_err_machine). *)
From DSI Require Import Base Words Prog Reader Abs Run CodesProofs CodesSummary EndToEnd TruncSeq.
Open Scope N_scope.

Theorem C09s_truncated_sequence : forall E W D before it after s pos cut,
  RInv E W s pos -> ws_strict (br_src s) = true ->
  W * N.of_nat (length (ws_words (br_src s))) <= 2 ^ 64 -> maxcap <= W ->
  pos + LEN (stream E before) + 2 * W <= 2 ^ 64 ->
  Forall item_valid before -> item_valid it ->
  skipn (N.to_nat pos) (src_bits E W (br_src s)) = stream E before ++ cut ->
  (exists rest, rest <> [] /\ item_cw E it = cut ++ rest) ->
  exists s1,
    read_items E W D before s = Ok (decoded E pos before, s1) /\
    RInv E W s1 (pos + LEN (stream E before)) /\
    rrun (brprims E W) (sel_read E D (it_id it) (it_p it) (it_flr it)) s1 = Err /\
    read_items E W D (before ++ it :: after) s = Err.
Proof. exact TruncSeq.truncated_sequence. Qed.
Print Assumptions C09s_truncated_sequence.

Theorem C09s_truncated_stream_at : forall E W D before it after ws (K : nat),
  wordsize_ok W -> W <= 64 -> maxcap <= W ->
  Forall (fun w => w < 2 ^ W) ws -> W * N.of_nat (length ws) <= 2 ^ 64 ->
  LEN (stream E before) + 2 * W <= 2 ^ 64 ->
  Forall item_valid before -> item_valid it ->
  bits_of_words E W ws = firstn K (stream E (before ++ it :: after)) ->
  (length (stream E before) <= K < length (stream E before) + length (item_cw E it))%nat ->
  exists s1,
    read_items E W D before (br_new ws true) = Ok (decoded E 0 before, s1) /\
    RInv E W s1 (LEN (stream E before)) /\
    rrun (brprims E W) (sel_read E D (it_id it) (it_p it) (it_flr it)) s1 = Err /\
    read_items E W D (before ++ it :: after) (br_new ws true) = Err.
Proof. exact TruncSeq.truncated_stream_at. Qed.
Print Assumptions C09s_truncated_stream_at.

Theorem C09s_truncated_stream : forall E W D items ws (K : nat),
  wordsize_ok W -> W <= 64 -> maxcap <= W ->
  Forall (fun w => w < 2 ^ W) ws ->
  LEN (stream E items) + 2 * W <= 2 ^ 64 ->
  Forall item_valid items ->
  bits_of_words E W ws = firstn K (stream E items) ->
  (K < length (stream E items))%nat ->
  exists before it after s1,
    items = before ++ it :: after /\
    (length (stream E before) <= K < length (stream E before) + length (item_cw E it))%nat /\
    read_items E W D before (br_new ws true) = Ok (decoded E 0 before, s1) /\
    RInv E W s1 (LEN (stream E before)) /\
    rrun (brprims E W) (sel_read E D (it_id it) (it_p it) (it_flr it)) s1 = Err /\
    read_items E W D items (br_new ws true) = Err.
Proof. exact TruncSeq.truncated_stream. Qed.
Print Assumptions C09s_truncated_stream.
