(* C00w — HISTORY-LEVEL refinement of the shared interpreter: for every configuration and EVERY operation
   list, the level-2 run of Run.run_world (word machines: buffered writer, buffered / unbuffered reader,
   specialised or generic copies, counting wrappers, codes, io views) agrees group by group with the
   level-0 run (canonical bit lists), as long as the level-0 run stays inside the modelled contract
   (status 0 Ok / 1 Err).  Statements only; proofs are in theories/WorldRefine.v.

   Vocabulary (WorldRefine.v):
     with_level C l   C with c_level := l
     agree l0 l2      group-by-group equality; a level-0 group with status 2 (Fail) or 3 (Fuel) ends the
                      claim; a level-0 group [98; 2; ..] (closing flush failed: bounded sinks only) is skipped
     cfg_ok C         writer word wordsize_ok (any width); UNBOUNDED sink (c_wcap C = 0); reader unbuffered
                      (c_rW C = 0) or buffered with wordsize_ok word <= 64; data bytes < 256; padded stream
                      shorter than 2^63 bits
     ops_ok C ops     (boolean, computed on the LEVEL-0 run) no reader position >= 2^63 is ever reached.
                      Hypothesis forced by the proofs: level 0 keeps positions in N, the machines in u64
                      with checked arithmetic; zero-extended sources can be read / skipped / sought for
                      ever and the unbuffered reader can skip beyond the end of a strict source, so no
                      static bound on the data bounds the position (C00w_far_* below: Ok at level 0, Fail
                      at level 2).  Not needed for a strict buffered reader (C00w_strict_buffered). *)
From DSI Require Import Base Words Prog Reader Writer Abs World Run WorldRefine.
Open Scope N_scope.

(* ---------------------------------------------------------------- the vocabulary, unfolded *)
Theorem C00w_agree_def : forall l0 l2, agree l0 l2 <-> agree_pat l0 l2.
Proof. exact WorldRefine.agree_pat_iff. Qed.
Print Assumptions C00w_agree_def.

Theorem C00w_cfg_ok_def : forall C, cfg_ok C <->
  (wordsize_ok (c_wW C) /\ c_wcap C = 0 /\
   (c_rW C = 0 \/ (wordsize_ok (c_rW C) /\ c_rW C <= 64)) /\
   Forall (fun b => b < 256) (c_data C) /\
   8 * (N.of_nat (length (c_data C)) + 8) < 2 ^ 63).
Proof. exact (fun C => iff_refl _). Qed.
Print Assumptions C00w_cfg_ok_def.

Theorem C00w_ops_ok_def : forall C ops,
  ops_ok C ops = pos_run (with_level C 0) (init_world (with_level C 0)) ops /\
  (forall wd, pos_run C wd [] = true) /\
  (forall wd op r, pos_run C wd (op :: r) =
     match step C wd op with
     | (_, Some wd') => (rpos (w_r wd') <? 2 ^ 63) && pos_run C wd' r
     | (_, None) => true
     end) /\
  (forall x, rpos (RS x) = sr_pos x).
Proof. exact (fun C ops => conj eq_refl (conj (fun _ => eq_refl) (conj (fun _ _ _ => eq_refl) (fun _ => eq_refl)))). Qed.
Print Assumptions C00w_ops_ok_def.

(* ---------------------------------------------------------------- the theorem *)
Theorem C00w_world_refines : forall C ops, cfg_ok C -> ops_ok C ops = true ->
  agree (run_world (with_level C 0) ops) (run_world (with_level C 2) ops).
Proof. exact WorldRefine.world_refines. Qed.
Print Assumptions C00w_world_refines.

(* the same with the comparison written with patterns on the status numbers *)
Theorem C00w_world_refines_pat : forall C ops, cfg_ok C -> ops_ok C ops = true ->
  agree_pat (run_world (with_level C 0) ops) (run_world (with_level C 2) ops).
Proof. exact WorldRefine.world_refines_pat. Qed.
Print Assumptions C00w_world_refines_pat.

(* a strict buffered reader never leaves its stream: no hypothesis on the operation list at all *)
Theorem C00w_strict_buffered : forall C ops, cfg_ok C -> c_rW C <> 0 -> c_rstrict C = true ->
  agree (run_world (with_level C 0) ops) (run_world (with_level C 2) ops).
Proof. exact WorldRefine.world_refines_strict_buffered. Qed.
Print Assumptions C00w_strict_buffered.

(* ---------------------------------------------------------------- instances *)
(* writes (bits, unary, a code, io::Write), flush, reads, peek + skip_after_peek, a code read, positions,
   clone / swap, copy_to, copy_from, seek, io::Read, counters, a read beyond the end: both levels
   evaluated by vm_compute *)
Example C00w_example :
  cfg_ok ex_cfg /\ ops_ok ex_cfg ex_ops = true /\
  run_world (with_level ex_cfg 0) ex_ops =
    [[0; 3; 0]; [0; 5; 0]; [0; 13; 2]; [0; 3; 4]; [0; 13; 6]; [0; 72]; [0; 0]; [0; 263]; [0]; [0; 15]; [0; 21]; [0];
     [0; 8]; [0]; [0; 10]; [0]; [0; 7; 129]; [0]; [0; 79]; [0; 53]; [0; 47560481857567]; [1]] /\
  run_world (with_level ex_cfg 2) ex_ops = run_world (with_level ex_cfg 0) ex_ops /\
  agree (run_world (with_level ex_cfg 0) ex_ops) (run_world (with_level ex_cfg 2) ex_ops).
Proof.
  exact (conj ex_cfg_ok (conj ex_ops_ok (conj (proj1 ex_runs) (conj (proj2 ex_runs) ex_agree_by_theorem)))).
Qed.
Print Assumptions C00w_example.

(* the unbuffered reader over a zero-extended source, generic copies, up to the closing groups *)
Example C00w_example_unbuffered :
  cfg_ok ex_cfg_u /\ ops_ok ex_cfg_u ex_ops_u = true /\
  run_world (with_level ex_cfg_u 2) ex_ops_u = run_world (with_level ex_cfg_u 0) ex_ops_u /\
  length (run_world (with_level ex_cfg_u 0) ex_ops_u) = 17%nat /\
  agree (run_world (with_level ex_cfg_u 0) ex_ops_u) (run_world (with_level ex_cfg_u 2) ex_ops_u).
Proof.
  exact (conj ex_cfg_u_ok (conj ex_ops_u_ok (conj (proj1 ex_runs_u) (conj (proj2 ex_runs_u) ex_agree_u)))).
Qed.
Print Assumptions C00w_example_unbuffered.

(* ---------------------------------------------------------------- why ops_ok: positions beyond u64 *)
Theorem C00w_far_buffered :
  run_world (with_level (ex_cfg_far 16) 0) [[18; 18446744073709551616]; [17]]
    = [[0]; [0; 18446744073709551616]; [98; 0]; [99]] /\
  run_world (with_level (ex_cfg_far 16) 2) [[18; 18446744073709551616]; [17]] = [[0]; [2]].
Proof. exact WorldRefine.ex_far_buffered. Qed.
Print Assumptions C00w_far_buffered.

Theorem C00w_far_unbuffered :
  run_world (with_level (ex_cfg_far 0) 0) [[18; 18446744073709551615]; [10; 1]] = [[0]; [0; 0]; [98; 0]; [99]] /\
  run_world (with_level (ex_cfg_far 0) 2) [[18; 18446744073709551615]; [10; 1]] = [[0]; [2]].
Proof. exact WorldRefine.ex_far_unbuffered. Qed.
Print Assumptions C00w_far_unbuffered.

Theorem C00w_far_not_agree :
  ~ agree (run_world (with_level (ex_cfg_far 16) 0) [[18; 18446744073709551616]; [17]])
          (run_world (with_level (ex_cfg_far 16) 2) [[18; 18446744073709551616]; [17]]).
Proof. exact WorldRefine.ex_far_not_agree. Qed.
Print Assumptions C00w_far_not_agree.
