(* C07 — reported bit positions and seeks are exact (buffered reader: position = word_pos*W - bits_in_buffer
   carried by the invariant RInv; unbuffered reader: see props/C07u.v) *)
From DSI Require Import Base Words Prog Reader Abs ReaderProofs.
Open Scope N_scope.

Theorem C07_bit_pos : forall E W s pos, RInv E W s pos -> ws_idx (br_src s) * W < 2 ^ 64 ->
  br_bit_pos W s = Ok pos.
Proof. exact ReaderProofs.bit_pos_ok. Qed.
Print Assumptions C07_bit_pos.

Theorem C07_set_bit_pos : forall E W s pos p, RInv E W s pos -> p < 2 ^ 64 ->
  (ws_strict (br_src s) = true -> p <= W * N.of_nat (length (ws_words (br_src s)))) ->
  exists s', br_set_bit_pos E W p s = Ok s' /\ RInv E W s' p /\
             ws_words (br_src s') = ws_words (br_src s) /\ ws_strict (br_src s') = ws_strict (br_src s).
Proof. exact ReaderProofs.set_bit_pos_ok64. Qed.
Print Assumptions C07_set_bit_pos.

Theorem C07_set_bit_pos_err : forall E W s pos p, RInv E W s pos -> ws_strict (br_src s) = true ->
  W * N.of_nat (length (ws_words (br_src s))) < p -> br_set_bit_pos E W p s = Err.
Proof. exact ReaderProofs.set_bit_pos_err. Qed.
Print Assumptions C07_set_bit_pos_err.

Theorem C07_seek_fresh : forall E W s pos p, RInv E W s pos ->
  (ws_strict (br_src s) = true -> p <= W * N.of_nat (length (ws_words (br_src s)))) ->
  exists s', br_set_bit_pos E W p s = Ok s' /\ RInv E W s' p /\
    rabs E W s' p 0 = rabs E W (br_new (ws_words (br_src s)) (ws_strict (br_src s))) p 0.
Proof. exact ReaderProofs.seek_fresh_ok. Qed.
Print Assumptions C07_seek_fresh.
