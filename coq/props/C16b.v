(* C16, semantic part: codes the library's `==` identifies, and a code and the code obtained from its
   compile-time identifier, name identical codewords (equal normal forms; DispatchProofs.norm_sound
   shows equal normal forms have equal codewords). *)
From DSI Require Import Base Codes DispatchTypes Dispatch Run CodesSummary DispatchProofs.
From DSI.Gen Require Import GenDispatch.
Open Scope N_scope.

Theorem C16_eq_same_codewords : forall a b,
  (has_param (cvar a) = false -> cparam a = 0) -> (has_param (cvar b) = false -> cparam b = 0) ->
  codes_eq a b = true -> norm (cid (direct_call a)) = norm (cid (direct_call b)).
Proof. exact DispatchProofs.codes_eq_same_code. Qed.
Print Assumptions C16_eq_same_codewords.

Theorem C16_const_roundtrip : forall c id, (has_param (cvar c) = false -> cparam c = 0) ->
  to_code_const c = Some id ->
  exists c', from_code_const id = Some c' /\ norm (cid (direct_call c)) = norm (cid (direct_call c')).
Proof. exact DispatchProofs.const_roundtrip_same_code. Qed.
Print Assumptions C16_const_roundtrip.

Theorem C16_norm_sound : forall E id p v, valid id p v ->
  valid (fst (norm (id, p))) (snd (norm (id, p))) v /\
  code_cw E (fst (norm (id, p))) (snd (norm (id, p))) v = code_cw E id p v.
Proof. exact DispatchProofs.norm_sound. Qed.
Print Assumptions C16_norm_sound.
