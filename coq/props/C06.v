(* C06 — length functions equal bits written equal bits consumed: one codeword cw with
   len = LEN cw = value returned by the write = bits appended = position advance of the read,
   for every code, parameter, value, table option and default (both sides). *)
From DSI Require Import Base Prog Codes BitFacts CodesProofs Run CodesSummary CodesTheorems.
Open Scope N_scope.

Theorem C06_len :
  forall E D checks id p fl v, valid id p v ->
  wr E checks (sel_write E D checks id p fl v) (code_cw E id p v) /\
  rd E maxcap (sel_read E D id p fl) (code_cw E id p v) v /\
  sel_len D id p fl v = Some (LEN (code_cw E id p v)).
Proof. exact CodesSummary.codes_correct. Qed.
Print Assumptions C06_len.

(* spelled out: what `wr` and `rd` say *)
Theorem C06_len_unfolded :
  forall E D checks id p fl v pre post strict cap pk, valid id p v -> maxcap <= cap ->
  exists l pk', sel_len D id p fl v = Some l /\
    wrun (swprims E checks) (sel_write E D checks id p fl v) pre = Ok (l, pre ++ code_cw E id p v) /\
    l = N.of_nat (length (code_cw E id p v)) /\
    rrun (sprims E strict cap) (sel_read E D id p fl) (mkr (code_cw E id p v ++ post) (LEN pre) pk)
      = Ok (v, mkr post (LEN pre + l) pk').
Proof.
  intros E D checks id p fl v pre post strict cap pk Hv Hc.
  destruct (CodesSummary.codes_correct E D checks id p fl v Hv) as (W & R & L).
  destruct (R strict cap post (LEN pre) pk Hc) as [pk' Hr].
  exists (LEN (code_cw E id p v)), pk'. repeat split; [exact L | apply W | exact Hr].
Qed.
Print Assumptions C06_len_unfolded.
