(* C11c: the word adapter over a seekable in-memory byte cursor (Cursor<Vec<u8>>), under
   histories of read_word / write_word / word_pos / set_word_pos, for every word size and
   every byte image, ragged or not.  Model: theories/CursorModel.v (cur, ad_read, ad_write,
   ad_pos, ad_seek, cursor_step, run_cursor); auxiliary definitions (word_size, bytes_ok,
   word_at, run_steps, good_group) are in theories/CursorProofs.v. *)
From DSI Require Import Small CursorModel CursorProofs.

Theorem C11c_seek_addresses_word : forall W c k,
  word_size W -> k * (W / 8) < W64 ->
  let nb := W / 8 in
  let c1 := {| cu_bytes := cu_bytes c; cu_pos := k * nb |} in
  ad_seek W k c = Ok c1 /\
  ((k + 1) * nb <= cur_len c ->
     ad_read W c1 = (Ok (word_at W k (cu_bytes c)),
                     {| cu_bytes := cu_bytes c; cu_pos := (k + 1) * nb |})) /\
  (cur_len c < (k + 1) * nb ->
     ad_read W c1 = (Err, {| cu_bytes := cu_bytes c; cu_pos := cur_len c |})) /\
  (forall w, (k + 1) * nb <= ISIZE_MAX ->
     exists bs',
       ad_write W w c1 = Ok {| cu_bytes := bs'; cu_pos := (k + 1) * nb |} /\
       N.of_nat (length bs') = N.max (cur_len c) ((k + 1) * nb) /\
       slice bs' (k * nb) nb = word_bytes LE W w /\
       forall i, nth i bs' 0 =
                 if (k * nb <=? N.of_nat i) && (N.of_nat i <? (k + 1) * nb)
                 then nth (i - N.to_nat (k * nb)) (word_bytes LE W w) 0
                 else nth i (cu_bytes c) 0) /\
  (forall w, ISIZE_MAX < (k + 1) * nb -> ad_write W w c1 = Fail).
Proof. exact CursorProofs.seek_addresses_word. Qed.
Print Assumptions C11c_seek_addresses_word.

Theorem C11c_seek_overflow_panics : forall W k c,
  W64 <= k * (W / 8) -> ad_seek W k c = Fail.
Proof. exact CursorProofs.ad_seek_fail. Qed.
Print Assumptions C11c_seek_overflow_panics.

Theorem C11c_read_cases : forall W c,
  word_size W ->
  (cu_pos c + W / 8 <= cur_len c /\
   ad_read W c = (Ok (of_le_bytes (slice (cu_bytes c) (cu_pos c) (W / 8))),
                  {| cu_bytes := cu_bytes c; cu_pos := cu_pos c + W / 8 |})) \/
  (cur_len c < cu_pos c + W / 8 /\
   ad_read W c = (Err, {| cu_bytes := cu_bytes c; cu_pos := cur_len c |})).
Proof. exact CursorProofs.ad_read_cases. Qed.
Print Assumptions C11c_read_cases.

Theorem C11c_read_word_bound : forall W c w c',
  word_size W -> bytes_ok (cu_bytes c) -> ad_read W c = (Ok w, c') -> w < 2 ^ W.
Proof. exact CursorProofs.read_word_bound. Qed.
Print Assumptions C11c_read_word_bound.

Theorem C11c_pos_counts_words : forall W ops c k gs c',
  word_size W -> cu_pos c = k * (W / 8) ->
  Forall (fun op => nth 0 op 0 = 0 \/ nth 0 op 0 = 1) ops ->
  run_steps W c ops = Some (gs, c') ->
  Forall (fun g => hd 1 g = 0) gs ->
  cu_pos c' = (k + N.of_nat (length ops)) * (W / 8) /\
  ad_pos W c' = k + N.of_nat (length ops).
Proof. exact CursorProofs.pos_counts_words. Qed.
Print Assumptions C11c_pos_counts_words.

Theorem C11c_pos_counts_words_after_seek : forall W ops c0 k c gs c',
  word_size W -> ad_seek W k c0 = Ok c ->
  Forall (fun op => nth 0 op 0 = 0 \/ nth 0 op 0 = 1) ops ->
  run_steps W c ops = Some (gs, c') ->
  Forall (fun g => hd 1 g = 0) gs ->
  ad_pos W c' = k + N.of_nat (length ops).
Proof. exact CursorProofs.pos_counts_words_after_seek. Qed.
Print Assumptions C11c_pos_counts_words_after_seek.

Theorem C11c_failed_read_harmless : forall W c c',
  word_size W -> ad_read W c = (Err, c') ->
  cur_len c < cu_pos c + W / 8 /\
  cu_bytes c' = cu_bytes c /\ cu_pos c' = cur_len c /\
  (forall k, ad_seek W k c' = ad_seek W k c) /\
  (forall k ops, run_cursor W c' ([3; k] :: ops) = run_cursor W c ([3; k] :: ops)).
Proof. exact CursorProofs.failed_read_harmless. Qed.
Print Assumptions C11c_failed_read_harmless.

Theorem C11c_pos_after_failed_read : forall W c c' q r,
  word_size W -> ad_read W c = (Err, c') ->
  cur_len c = q * (W / 8) + r -> 0 < r < W / 8 ->
  ad_pos W c' = q + 1.
Proof. exact CursorProofs.pos_after_failed_read. Qed.
Print Assumptions C11c_pos_after_failed_read.

Theorem C11c_read_after_write : forall W c k w,
  word_size W -> (k + 1) * (W / 8) <= ISIZE_MAX -> w < 2 ^ W ->
  exists c1 c2 c3,
    ad_seek W k c = Ok c1 /\ ad_write W w c1 = Ok c2 /\ ad_seek W k c2 = Ok c3 /\
    ad_read W c3 = (Ok w, {| cu_bytes := cu_bytes c2; cu_pos := (k + 1) * (W / 8) |}) /\
    cur_len c2 = N.max (cur_len c) ((k + 1) * (W / 8)).
Proof. exact CursorProofs.read_after_write. Qed.
Print Assumptions C11c_read_after_write.

Theorem C11c_run_cursor_is_run_steps : forall W ops c,
  run_cursor_opt W c ops =
  match run_steps W c ops with
  | Some (gs, c') => Some (gs ++ [99 :: cu_bytes c'])
  | None => None
  end.
Proof. exact CursorProofs.run_cursor_opt_steps. Qed.
Print Assumptions C11c_run_cursor_is_run_steps.

Theorem C11c_step_bytes_ok : forall W c op g c',
  bytes_ok (cu_bytes c) -> cursor_step W c op = Some (g, c') -> bytes_ok (cu_bytes c').
Proof. exact CursorProofs.step_bytes_ok. Qed.
Print Assumptions C11c_step_bytes_ok.

Theorem C11c_run_cursor_no_fail : forall W ops c B,
  word_size W -> cur_len c <= B -> cu_pos c <= B ->
  Forall (fun op => 3 <= nth 0 op 0 -> (nth 1 op 0 mod W64) * (W / 8) <= B) ops ->
  B + N.of_nat (length ops) * (W / 8) <= ISIZE_MAX ->
  exists gs final,
    run_cursor W c ops = gs ++ [99 :: final] /\ Forall good_group gs /\
    length gs = length ops /\ (bytes_ok (cu_bytes c) -> bytes_ok final).
Proof. exact CursorProofs.run_cursor_no_fail. Qed.
Print Assumptions C11c_run_cursor_no_fail.

Theorem C11c_example_ragged_history :
  cursor_case 64 ex_d19 [[0]; [0]; [0]; [2]; [3; 3]; [1; 18446744073709551614]; [2]] =
  [[0; 578437695752307201]; [0; 1157159078456920585]; [1]; [0; 3]; [0; 0]; [0; 0]; [0; 4];
   [99; 1; 2; 3; 4; 5; 6; 7; 8; 9; 10; 11; 12; 13; 14; 15; 16; 17; 18; 19;
        0; 0; 0; 0; 0; 254; 255; 255; 255; 255; 255; 255; 255]].
Proof. exact CursorProofs.ex_ragged_history. Qed.
Print Assumptions C11c_example_ragged_history.
