(* C09, unbuffered reader *)
From DSI Require Import Abs UReaderProofs.

Theorem C09u_after_overskip : forall E s,
  ws_strict (ur_src s) = true -> 64 * N.of_nat (length (ws_words (ur_src s))) <= ur_index s ->
  (forall n, 1 <= n -> n <= 64 -> ur_read_bits E n s = Err) /\
  (forall n, 1 <= n -> n <= 32 -> ur_peek E n s = Err) /\
  ur_read_unary E s = Err.
Proof. exact UReaderProofs.after_overskip. Qed.
Print Assumptions C09u_after_overskip.

Theorem C09u_strict_error : forall E n s,
  ws_strict (ur_src s) = true -> 0 < n -> n <= 64 ->
  64 * N.of_nat (length (ws_words (ur_src s))) < ur_index s + n ->
  ur_read_bits E n s = Err.
Proof. exact UReaderProofs.strict_error. Qed.
Print Assumptions C09u_strict_error.

Theorem C09u_zero_extended_no_error : forall E s,
  ws_strict (ur_src s) = false ->
  (forall n, ur_read_bits E n s <> Err) /\ (forall n, ur_peek E n s <> Err) /\
  (forall n, ur_skip n s <> Err) /\ ur_read_unary E s <> Err.
Proof. exact UReaderProofs.zero_extended_no_error. Qed.
Print Assumptions C09u_zero_extended_no_error.
