(* C03e — end to end: any sequence of codes written through a buffered writer of any word width,
   flushed, delivered as bytes and re-read as words of any (supported) reader word width — by the
   buffered reader, or as u64 words by the unbuffered reader — decodes to exactly the values written,
   the reader's reported position after item k being the sum of the code lengths of items 1..k.
   Both endiannesses; table flags and default-parameter records may differ between the two sides;
   argument checks on or off on the writer side.
   Statements only; proofs are in theories/EndToEnd.v. *)
From DSI Require Import Base Words Prog Codes Writer Reader Abs CodesProofs Run CodesSummary EndToEnd.
Open Scope N_scope.

Theorem C03e_write_items : forall E Ww Dw checks items,
  wordsize_ok Ww -> Forall item_valid items ->
  exists s1, write_items E Ww Dw checks items (bw_new None Ww) = Ok (LEN (stream E items), s1) /\
             WInv Ww s1 /\ wabs E Ww s1 = stream E items /\ wk_cap (bw_sink s1) = None.
Proof. exact EndToEnd.write_items_ok. Qed.
Print Assumptions C03e_write_items.

Theorem C03e_flushed_bytes : forall E Ww b s1,
  wrel E Ww b s1 -> wk_cap (bw_sink s1) = None ->
  exists s2, bw_flush E Ww s1 = Ok (LEN b mod Ww, s2) /\ WInv Ww s2 /\ bw_space s2 = Ww /\
    bits_of_bytes E (bw_bytes E Ww s2) = b ++ zeros (N.to_nat (flush_pad Ww (LEN b))) /\
    flush_pad Ww (LEN b) < Ww /\
    Forall (fun x => x < 256) (bw_bytes E Ww s2) /\
    8 * N.of_nat (length (bw_bytes E Ww s2)) = LEN b + flush_pad Ww (LEN b) /\
    exists k, bw_bytes E Ww s2 = image E b ++ repeat 0 k.
Proof. exact EndToEnd.flushed_bytes. Qed.
Print Assumptions C03e_flushed_bytes.

Theorem C03e_reader_words : forall E W bs, wordsize_ok W -> Forall (fun b => b < 256) bs ->
  bits_of_words E W (words_of E W bs)
    = bits_of_bytes E bs ++ zeros (8 * pad_bytes (N.to_nat (W / 8)) (length bs)) /\
  (pad_bytes (N.to_nat (W / 8)) (length bs) < N.to_nat (W / 8))%nat /\
  ((length bs mod N.to_nat (W / 8) = 0)%nat -> bits_of_words E W (words_of E W bs) = bits_of_bytes E bs) /\
  Forall (fun w => w < 2 ^ W) (words_of E W bs) /\
  W * N.of_nat (length (words_of E W bs)) = 8 * N.of_nat (length bs + pad_bytes (N.to_nat (W / 8)) (length bs)).
Proof. exact EndToEnd.reader_words. Qed.
Print Assumptions C03e_reader_words.

Theorem C03e_end_to_end : forall E Ww Wr Dw Dr checks strict items,
  wordsize_ok Ww -> wordsize_ok Wr -> Wr <= 64 -> maxcap <= Wr ->
  Forall item_valid items ->
  LEN (stream E items) + Ww + 2 * Wr <= 2 ^ 64 ->
  exists s1 s2 sr,
    write_items E Ww Dw checks items (bw_new None Ww) = Ok (LEN (stream E items), s1) /\
    bw_flush E Ww s1 = Ok (LEN (stream E items) mod Ww, s2) /\
    read_items E Wr Dr items (br_new (words_of E Wr (bw_bytes E Ww s2)) strict)
      = Ok (decoded E 0 items, sr) /\
    RInv E Wr sr (LEN (stream E items)).
Proof. exact EndToEnd.end_to_end. Qed.
Print Assumptions C03e_end_to_end.

Theorem C03e_end_to_end_unbuffered : forall E Ww Dw Dr checks strict items,
  wordsize_ok Ww -> Forall item_valid items ->
  LEN (stream E items) < 2 ^ 63 ->
  exists s1 s2 sr,
    write_items E Ww Dw checks items (bw_new None Ww) = Ok (LEN (stream E items), s1) /\
    bw_flush E Ww s1 = Ok (LEN (stream E items) mod Ww, s2) /\
    read_items_u E Dr items (ur_new (words_of E 64 (bw_bytes E Ww s2)) strict)
      = Ok (decoded E 0 items, sr) /\
    UInv sr /\ ur_index sr = LEN (stream E items).
Proof. exact EndToEnd.end_to_end_unbuffered. Qed.
Print Assumptions C03e_end_to_end_unbuffered.

(* what `decoded` reports: the values written, and after item k the length of the codewords 1..k *)
Theorem C03e_decoded_values : forall E items pos, map fst (decoded E pos items) = map it_v items.
Proof. exact EndToEnd.map_fst_decoded. Qed.
Print Assumptions C03e_decoded_values.

Theorem C03e_decoded_positions : forall E items pos k it,
  nth_error items k = Some it ->
  nth_error (decoded E pos items) k = Some (it_v it, pos + LEN (stream E (firstn (S k) items))).
Proof. exact EndToEnd.decoded_positions. Qed.
Print Assumptions C03e_decoded_positions.
