(* C19 — build options change no result; argument checking fires only on dirty arguments.
   (1) with `checks`, write_bits panics exactly when the argument has bits at or above the width,
       and otherwise behaves as without `checks` (machine level, every word width);
   (2) no in-domain code write trips the check, for any code, parameter, value, table option,
       on any machine (the L1 programs clean their arguments under `checks`);
   (3) the results with and without `checks` are the same codeword / state abstraction;
   the no_copy_impls equivalence is C08's specialised = generic theorem.  That `cfg(feature)`
   selects the code the model's flag selects is tied only by running the real builds (8 builds
   in the correspondence check): partial in that respect. *)
From DSI Require Import Base Words Prog Codes Writer Abs BitFacts CodesProofs Run CodesSummary
  BitsLemmas WriterProofs MachineTheorems.
Open Scope N_scope.

Theorem C19_assert_iff : forall E W v n s,
  WInv W s -> n <= 64 ->
  (bw_write_bits E W true v n s = Fail <-> N.land v (mask_u128 n) <> v) /\
  (N.land v (mask_u128 n) = v -> bw_write_bits E W true v n s = bw_write_bits E W false v n s) /\
  (N.land v (mask_u128 n) = v <-> v < 2 ^ n).
Proof. exact WriterProofs.C19_assert_iff. Qed.
Print Assumptions C19_assert_iff.

Theorem C19_library_clean : forall E W D id p fl v b s,
  wrel E W b s -> valid id p v ->
  (exists s', wrun (bwprims E W true) (sel_write E D true id p fl v) s = Ok (LEN (code_cw E id p v), s') /\
              WInv W s' /\ wabs E W s' = b ++ code_cw E id p v)
  \/ wrun (bwprims E W true) (sel_write E D true id p fl v) s = Err.
Proof. exact MachineTheorems.code_write_machine_checks. Qed.
Print Assumptions C19_library_clean.

(* same codeword, same returned length with the flag on or off (L0 level: all codes) *)
Theorem C19_flag_irrelevant_partial : forall E D id p fl v s, valid id p v ->
  wrun (swprims E true) (sel_write E D true id p fl v) s = wrun (swprims E false) (sel_write E D false id p fl v) s.
Proof. exact MachineTheorems.flag_irrelevant. Qed.
Print Assumptions C19_flag_irrelevant_partial.

(* on the word machine of any width: both builds append the same codeword and return the same length
   (or report a full sink); never Fail *)
Theorem C19_flag_irrelevant_machine : forall E W D id p fl v b s1 s2,
  wrel E W b s1 -> wrel E W b s2 -> valid id p v ->
  match wrun (bwprims E W true) (sel_write E D true id p fl v) s1,
        wrun (bwprims E W false) (sel_write E D false id p fl v) s2 with
  | Ok (l1, t1), Ok (l2, t2) => l1 = l2 /\ wabs E W t1 = wabs E W t2 /\ WInv W t1 /\ WInv W t2
  | Ok _, Err | Err, Ok _ | Err, Err => True
  | _, _ => False
  end.
Proof. exact MachineTheorems.flag_irrelevant_machine. Qed.
Print Assumptions C19_flag_irrelevant_machine.
