(* C20 — the change-point iterator (FindChangePoints) yields exactly the successive
   change points of a monotone function, terminates, and is complete up to
   fcp_bound; Kraft's inequality for prefix-free / instantaneous binary codes. *)
From Coq Require Import List NArith QArith Sorted.
From DSI Require Import Base Small FindChangeProofs Kraft.
Import ListNotations.

Theorem C20_fcp_first : forall f : N -> N,
  fcp_next f fcp_new = Ok (Some (0%N, f 0%N), {| fc_current := 0%N; fc_prev := f 0%N |}).
Proof. exact FindChangeProofs.fcp_first. Qed.
Print Assumptions C20_fcp_first.

Theorem C20_fcp_first_Inv : forall f : N -> N,
  Inv f {| fc_current := 0%N; fc_prev := f 0%N |}.
Proof. exact FindChangeProofs.Inv_first. Qed.
Print Assumptions C20_fcp_first_Inv.

Theorem C20_fcp_Inv_not_marker : forall f : N -> N,
  (forall x, (f x < U64MAX)%N) ->
  forall s, Inv f s -> s <> fcp_new.
Proof. exact FindChangeProofs.Inv_not_marker. Qed.
Print Assumptions C20_fcp_Inv_not_marker.

Theorem C20_fcp_step_sound : forall f : N -> N,
  (forall a b, (a <= b)%N -> (b <= U64MAX)%N -> (f a <= f b)%N) ->
  (forall x, (f x < U64MAX)%N) ->
  forall (s s' : fcp) (x v : N),
  Inv f s -> fcp_next f s = Ok (Some (x, v), s') ->
  (fc_current s < x)%N /\ change_point f x /\ v = f x /\
  (forall y, (fc_current s < y < x)%N -> f y = f (fc_current s)) /\
  Inv f s' /\ fc_current s' = x.
Proof. exact FindChangeProofs.fcp_step_sound. Qed.
Print Assumptions C20_fcp_step_sound.

Theorem C20_fcp_step_none : forall f : N -> N,
  (forall a b, (a <= b)%N -> (b <= U64MAX)%N -> (f a <= f b)%N) ->
  (forall x, (f x < U64MAX)%N) ->
  forall s s' : fcp,
  Inv f s -> fcp_next f s = Ok (None, s') ->
  s' = s /\
  forall x, (fc_current s < x <= fcp_bound (fc_current s))%N -> ~ change_point f x.
Proof. exact FindChangeProofs.fcp_step_none. Qed.
Print Assumptions C20_fcp_step_none.

Theorem C20_fcp_bound_half : forall c : N, (c + (U64MAX - c) / 2 <= fcp_bound c)%N.
Proof. exact FindChangeProofs.fcp_bound_half. Qed.
Print Assumptions C20_fcp_bound_half.

Theorem C20_fcp_bound_twice : forall c : N,
  (1 < U64MAX - c)%N ->
  (U64MAX - c <= 2 * (fcp_bound c - c))%N /\ (fcp_bound c < U64MAX)%N.
Proof. exact FindChangeProofs.fcp_bound_twice. Qed.
Print Assumptions C20_fcp_bound_twice.

Theorem C20_fcp_bound_2p63 : forall c : N, (c < 2 ^ 63)%N -> (2 ^ 63 <= fcp_bound c)%N.
Proof. exact FindChangeProofs.fcp_bound_2p63. Qed.
Print Assumptions C20_fcp_bound_2p63.

Theorem C20_fcp_step_none_half : forall f : N -> N,
  (forall a b, (a <= b)%N -> (b <= U64MAX)%N -> (f a <= f b)%N) ->
  (forall x, (f x < U64MAX)%N) ->
  forall s s' : fcp,
  Inv f s -> fcp_next f s = Ok (None, s') ->
  forall x, (fc_current s < x <= fc_current s + (U64MAX - fc_current s) / 2)%N ->
            ~ change_point f x.
Proof. exact FindChangeProofs.fcp_step_none_half. Qed.
Print Assumptions C20_fcp_step_none_half.

Theorem C20_fcp_step_none_2p63 : forall f : N -> N,
  (forall a b, (a <= b)%N -> (b <= U64MAX)%N -> (f a <= f b)%N) ->
  (forall x, (f x < U64MAX)%N) ->
  forall s s' : fcp,
  Inv f s -> fcp_next f s = Ok (None, s') ->
  forall x, (fc_current s < x <= 2 ^ 63)%N -> ~ change_point f x.
Proof. exact FindChangeProofs.fcp_step_none_2p63. Qed.
Print Assumptions C20_fcp_step_none_2p63.

(* the bound is tight: a monotone function whose change point at fcp_bound 0 + 1 is lost *)
Theorem C20_fcp_bound_tight :
  Inv f_tight {| fc_current := 0%N; fc_prev := 0%N |} /\
  change_point f_tight (fcp_bound 0 + 1)%N /\
  fcp_next f_tight {| fc_current := 0%N; fc_prev := 0%N |}
  = Ok (None, {| fc_current := 0%N; fc_prev := 0%N |}).
Proof. exact FindChangeProofs.tight_example. Qed.
Print Assumptions C20_fcp_bound_tight.

Theorem C20_fcp_no_fuel_no_fail : forall f : N -> N,
  (forall a b, (a <= b)%N -> (b <= U64MAX)%N -> (f a <= f b)%N) ->
  (forall x, (f x < U64MAX)%N) ->
  forall s : fcp,
  s = fcp_new \/ Inv f s -> exists r, fcp_next f s = Ok r.
Proof. exact FindChangeProofs.fcp_no_fuel_no_fail. Qed.
Print Assumptions C20_fcp_no_fuel_no_fail.

Theorem C20_fcp_run : forall f : N -> N,
  (forall a b, (a <= b)%N -> (b <= U64MAX)%N -> (f a <= f b)%N) ->
  (forall x, (f x < U64MAX)%N) ->
  forall n : nat,
  exists l, fcp_collect f n fcp_new [] = Ok l /\
    (n = 0%nat -> l = []) /\
    (n <> 0%nat ->
       exists tl, l = (0%N, f 0%N) :: tl /\ chain f 0%N tl /\
         StronglySorted N.lt (map fst l) /\
         (length l <= n)%nat /\
         ((length l < n)%nat ->
            (forall x, (last (map fst l) 0 < x <= fcp_bound (last (map fst l) 0))%N ->
                       ~ change_point f x) /\
            (forall x, change_point f x -> (x <= 2 ^ 63)%N -> In x (map fst l)))).
Proof. exact FindChangeProofs.fcp_run. Qed.
Print Assumptions C20_fcp_run.

Theorem C20_fcp_ends : forall f : N -> N,
  (forall a b, (a <= b)%N -> (b <= U64MAX)%N -> (f a <= f b)%N) ->
  (forall x, (f x < U64MAX)%N) ->
  forall s : fcp,
  Inv f s ->
  (forall x, (fc_current s < x <= U64MAX)%N -> ~ change_point f x) ->
  fcp_next f s = Ok (None, s).
Proof. exact FindChangeProofs.fcp_ends. Qed.
Print Assumptions C20_fcp_ends.

Theorem C20_kraft_generic : forall l : list (list bool),
  NoDup l ->
  (forall a b, In a l -> In b l -> prefix a b -> a = b) ->
  (wsum l <= 1)%Q.
Proof. exact Kraft.kraft_inequality. Qed.
Print Assumptions C20_kraft_generic.

Theorem C20_kraft_weight : forall cw : list bool,
  (weight cw == (1 # 2) ^ Z.of_nat (length cw))%Q.
Proof. exact Kraft.weight_Qpower. Qed.
Print Assumptions C20_kraft_weight.

Theorem C20_kraft_of_decoder :
  forall (cw : N -> list bool) (dom : N -> Prop)
         (dec : list bool -> option (N * list bool)),
  (forall n post, dom n -> dec (cw n ++ post) = Some (n, post)) ->
  forall ns : list N,
  NoDup ns -> Forall dom ns ->
  NoDup (map cw ns) /\
  (forall a b, In a (map cw ns) -> In b (map cw ns) -> prefix a b -> a = b) /\
  (wsum (map cw ns) <= 1)%Q.
Proof. exact Kraft.kraft_of_decoder. Qed.
Print Assumptions C20_kraft_of_decoder.
