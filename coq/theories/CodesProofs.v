(* CodesProofs.v — L1 theorems at the L0 level: for every code, the write program appends
   exactly the published codeword (CodeDefs.v) and returns its length; the read program, run on
   that codeword followed by ANY bits, returns the value and stops exactly at its end; the length
   function equals the codeword length.  No u64 overflow (Fail) anywhere in the domain. *)
From DSI Require Import Base Prog Codes CodeDefs BitFacts.
From Coq Require Import ZifyBool ZifyNat ZifyN.
Ltac Zify.zify_post_hook ::= Z.div_mod_to_equations.
Arguments N.add : simpl never. Arguments N.sub : simpl never. Arguments N.mul : simpl never.
Arguments N.div : simpl never. Arguments N.modulo : simpl never. Arguments N.pow : simpl never.
Arguments N.eqb : simpl never. Arguments N.ltb : simpl never. Arguments N.leb : simpl never.
Arguments N.testbit : simpl never. Arguments N.of_nat : simpl never. Arguments N.to_nat : simpl never.
Arguments N.log2 : simpl never. Arguments N.lxor : simpl never. Arguments N.land : simpl never.
Arguments N.lor : simpl never.
Open Scope prog_scope.

Definition LEN (cw : bits) : N := N.of_nat (length cw).

(* ------------------------------------------------------------------ u64 facts *)
Lemma W64_eq : W64 = 2 ^ 64. Proof. reflexivity. Qed.
Lemma U64MAX_eq : U64MAX = 2 ^ 64 - 1. Proof. reflexivity. Qed.

Lemma pow2_lt_W64 l : l < 64 -> 2 ^ l < W64.
Proof. intros H. rewrite W64_eq. apply N.pow_lt_mono_r; lia. Qed.
Lemma pow2_le_W64 l : l <= 64 -> 2 ^ l <= W64.
Proof. intros H. rewrite W64_eq. apply N.pow_le_mono_r; lia. Qed.
Lemma pow2_pos l : 0 < 2 ^ l.
Proof. apply N.neq_0_lt_0, N.pow_nonzero. lia. Qed.

Lemma log2_lt_64 n : 0 < n -> n < W64 -> N.log2 n < 64.
Proof. intros H0 H. apply N.log2_lt_pow2; [exact H0 | rewrite <- W64_eq; exact H]. Qed.

Lemma log2_bounds n : 0 < n -> 2 ^ N.log2 n <= n < 2 ^ (N.log2 n + 1).
Proof. intros H. pose proof (N.log2_spec n H) as [A B]. rewrite N.add_1_r. split; assumption. Qed.

Lemma add64_ok a b : a + b < W64 -> add64 a b = Some (a + b).
Proof. intros H. unfold add64. destruct (a + b <? W64) eqn:E; [reflexivity | lia]. Qed.
Lemma sub64_ok a b : b <= a -> sub64 a b = Some (a - b).
Proof. intros H. unfold sub64. destruct (b <=? a) eqn:E; [reflexivity | lia]. Qed.
Lemma mul64_ok a b : a * b < W64 -> mul64 a b = Some (a * b).
Proof. intros H. unfold mul64. destruct (a * b <? W64) eqn:E; [reflexivity | lia]. Qed.
Lemma shl64_ok a k : k < 64 -> a * 2 ^ k < W64 -> shl64 a k = Some (a * 2 ^ k).
Proof. intros Hk H. unfold shl64. destruct (k <? 64) eqn:E; [|lia]. rewrite N.mod_small by exact H. reflexivity. Qed.
Lemma shl64_one l : l < 64 -> shl64 1 l = Some (2 ^ l).
Proof. intros H. rewrite shl64_ok; [f_equal; lia | exact H | rewrite N.mul_1_l; apply pow2_lt_W64; exact H]. Qed.
Lemma shr64_ok a k : k < 64 -> shr64 a k = Some (a / 2 ^ k).
Proof. intros Hk. unfold shr64. destruct (k <? 64) eqn:E; [reflexivity | lia]. Qed.
Lemma ilog2_ok a : 0 < a -> ilog2 a = Some (N.log2 a).
Proof. intros H. unfold ilog2. destruct (a =? 0) eqn:E; [lia | reflexivity]. Qed.
Lemma div64_ok a b : 0 < b -> div64 a b = Some (a / b).
Proof. intros H. unfold div64. destruct (b =? 0) eqn:E; [lia | reflexivity]. Qed.

Lemma testbit_small x l j : x < 2 ^ l -> l <= j -> N.testbit x j = false.
Proof.
  intros H Hj. destruct (N.eq_dec x 0) as [->|Hnz]; [apply N.bits_0|].
  apply N.bits_above_log2. apply N.lt_le_trans with l; [|exact Hj].
  apply N.log2_lt_pow2; [lia | exact H].
Qed.

Lemma land_disjoint a b k : b < 2 ^ k -> N.land (a * 2 ^ k) b = 0.
Proof.
  intros H. apply N.bits_inj. intros j. rewrite N.land_spec, N.bits_0.
  destruct (N.lt_ge_cases j k) as [Hj|Hj].
  - rewrite N.mul_pow2_bits_low by exact Hj. reflexivity.
  - rewrite (testbit_small b k j H Hj). apply andb_false_r.
Qed.
Lemma lor_disjoint a b k : b < 2 ^ k -> N.lor (a * 2 ^ k) b = a * 2 ^ k + b.
Proof.
  intros H. pose proof (land_disjoint a b k H) as HL.
  rewrite (N.add_nocarry_lxor _ _ HL). symmetry. apply N.lxor_lor. exact HL.
Qed.

(* clearing the top bit: n ^ (1 << log2 n) = n - 2^(log2 n) *)
Lemma lxor_top_bit n : 0 < n -> N.lxor n (2 ^ N.log2 n) = n - 2 ^ N.log2 n.
Proof.
  intros H. pose proof (log2_bounds n H) as [A B]. set (l := N.log2 n) in *.
  apply N.bits_inj. intros j. rewrite N.lxor_spec, N.pow2_bits_eqb.
  destruct (N.lt_trichotomy j l) as [Hj | [-> | Hj]].
  - replace (l =? j) with false by lia. rewrite xorb_false_r.
    rewrite <- (N.mod_pow2_bits_low n l j Hj), <- (N.mod_pow2_bits_low (n - 2 ^ l) l j Hj).
    f_equal. rewrite <- (N.mod_add (n - 2 ^ l) 1 (2 ^ l)) by (apply N.pow_nonzero; lia).
    f_equal. lia.
  - rewrite N.eqb_refl. replace (N.testbit n l) with true by (symmetry; apply N.bit_log2; lia). cbn [xorb].
    symmetry. apply (testbit_small _ l); [|lia]. rewrite N.pow_add_r in B. lia.
  - replace (l =? j) with false by lia. rewrite xorb_false_r.
    replace (N.testbit n j) with false by (symmetry; apply (testbit_small _ (l + 1)); [exact B | lia]).
    symmetry. apply (testbit_small _ l); [|lia]. rewrite N.pow_add_r in B. lia.
Qed.

(* the low l bits of n and of n - 2^l coincide when 2^l <= n *)
Lemma mod_sub_pow2 n l : 2 ^ l <= n -> (n - 2 ^ l) mod 2 ^ l = n mod 2 ^ l.
Proof.
  intros H. rewrite <- (N.mod_add (n - 2 ^ l) 1 (2 ^ l)) by (apply N.pow_nonzero; lia).
  f_equal. lia.
Qed.

Section CodeFacts.
  Variable E : endian.

  (* the program appends exactly cw and returns its length *)
  Definition wr (checks : bool) (p : wprog N) (cw : bits) : Prop :=
    forall s, wrun (swprims E checks) p s = Ok (LEN cw, s ++ cw).
  (* the program, on cw followed by anything, returns v and stops at the end of cw *)
  Definition rd (mincap : N) (p : rprog N) (cw : bits) (v : N) : Prop :=
    forall strict cap post pos pk, mincap <= cap ->
      exists pk', rrun (sprims E strict cap) p (mkr (cw ++ post) pos pk) = Ok (v, mkr post (pos + LEN cw) pk').

  Lemma LEN_app a b : LEN (a ++ b) = LEN a + LEN b.
  Proof. unfold LEN. rewrite app_length. lia. Qed.
  Lemma LEN_field v n : LEN (field E v n) = N.of_nat n.
  Proof. unfold LEN. rewrite field_length. reflexivity. Qed.
  Lemma LEN_unary x : LEN (unary x) = x + 1.
  Proof. unfold LEN. rewrite unary_length. lia. Qed.
  Lemma LEN_fld v n : LEN (fld E v n) = n.
  Proof. unfold fld. rewrite LEN_field. lia. Qed.

  (* ---------------- writer combinators ---------------- *)
  Lemma wr_bits checks v n : n <= 64 -> (checks = false \/ v < 2 ^ n) -> wr checks (WBits v n wret) (fld E v n).
  Proof.
    intros Hn Hc s. cbn [wrun swprims q_bits wret]. rewrite LEN_fld. unfold fld.
    destruct checks.
    - destruct Hc as [Hc|Hc]; [discriminate|]. rewrite sw_bits_checks_clean by assumption. reflexivity.
    - rewrite sw_bits_ok by assumption. reflexivity.
  Qed.
  Lemma wr_unary checks x : x < U64MAX -> wr checks (WUnary x wret) (unary x).
  Proof.
    intros Hx s. cbn [wrun swprims q_unary wret]. rewrite sw_unary_ok by assumption.
    rewrite LEN_unary. reflexivity.
  Qed.
  Lemma wr_seq checks p1 p2 cw1 cw2 :
    wr checks p1 cw1 -> wr checks p2 cw2 ->
    wr checks (a <-- p1 ;; b <-- p2 ;; wret (a + b)) (cw1 ++ cw2).
  Proof.
    intros H1 H2 s. rewrite wrun_bind, H1, wrun_bind, H2. cbn [wrun wret].
    rewrite LEN_app, app_assoc. reflexivity.
  Qed.
  Lemma wr_ext checks p cw cw' : cw = cw' -> wr checks p cw -> wr checks p cw'.
  Proof. intros ->. exact (fun H => H). Qed.
  Lemma wr_lift {A} checks (o : option A) (f : A -> wprog N) a cw :
    o = Some a -> wr checks (f a) cw -> wr checks (wlift o f) cw.
  Proof. intros -> H. exact H. Qed.

  (* ---------------- reader combinators ---------------- *)
  Lemma rd_mono c1 c2 p cw v : c1 <= c2 -> rd c1 p cw v -> rd c2 p cw v.
  Proof. intros H Hr strict cap post pos pk Hc. apply Hr. lia. Qed.
  Lemma rd_ret v : rd 0 (RRet v) [] v.
  Proof.
    intros strict cap post pos pk _. exists pk. cbn [rrun app]. unfold LEN. cbn [length].
    replace (pos + N.of_nat 0) with pos by lia. reflexivity.
  Qed.
  Lemma rd_bind c p cw1 v1 (f : N -> rprog N) cw2 v2 :
    rd c p cw1 v1 -> rd c (f v1) cw2 v2 -> rd c (rbind p f) (cw1 ++ cw2) v2.
  Proof.
    intros H1 H2 strict cap post pos pk Hc.
    rewrite rrun_bind, <- app_assoc.
    destruct (H1 strict cap (cw2 ++ post) pos pk Hc) as [pk1 ->].
    destruct (H2 strict cap post (pos + LEN cw1) pk1 Hc) as [pk2 ->].
    exists pk2. rewrite LEN_app. do 3 f_equal. lia.
  Qed.
  Lemma rd_bits c n v (k : N -> rprog N) cw2 v2 :
    n <= 64 -> rd c (k (v mod 2 ^ n)) cw2 v2 -> rd c (RBits n k) (fld E v n ++ cw2) v2.
  Proof.
    intros Hn H2 strict cap post pos pk Hc. cbn [rrun sprims p_bits]. unfold fld.
    rewrite <- app_assoc, s_bits_field by exact Hn.
    destruct (H2 strict cap post (pos + n) 0 Hc) as [pk2 ->]. exists pk2.
    rewrite LEN_app, LEN_field. do 3 f_equal. lia.
  Qed.
  Lemma rd_unary c x (k : N -> rprog N) cw2 v2 :
    rd c (k x) cw2 v2 -> rd c (RUnary k) (unary x ++ cw2) v2.
  Proof.
    intros H2 strict cap post pos pk Hc. cbn [rrun sprims p_unary].
    rewrite <- app_assoc, s_unary_unary.
    destruct (H2 strict cap post (pos + x + 1) 0 Hc) as [pk2 ->]. exists pk2.
    rewrite LEN_app, LEN_unary. do 3 f_equal. lia.
  Qed.
  Lemma rd_lift {A} c (o : option A) (f : A -> rprog N) a cw v :
    o = Some a -> rd c (f a) cw v -> rd c (rlift o f) cw v.
  Proof. intros -> H. exact H. Qed.
  Lemma rd_ext c p cw cw' v : cw = cw' -> rd c p cw v -> rd c p cw' v.
  Proof. intros ->. exact (fun H => H). Qed.

  (* ---------------- unary ---------------- *)
  Lemma unary_wr checks x : x < U64MAX -> wr checks (write_unary_code x) (unary x).
  Proof. apply wr_unary. Qed.
  Lemma unary_rd x : rd 0 read_unary_code (unary x) x.
  Proof.
    unfold read_unary_code. apply (rd_ext 0 _ (unary x ++ [])); [apply app_nil_r|].
    apply rd_unary. apply rd_ret.
  Qed.
  Lemma unary_len x : x < U64MAX -> len_unary x = Some (LEN (unary x)).
  Proof. intros H. unfold len_unary. rewrite add64_ok, LEN_unary by (unfold U64MAX in H; unfold W64; lia). reflexivity. Qed.

  (* ---------------- the "value minus its top bit" suffix shared by gamma, delta, pi -------- *)
  (* n1 = n + 1 >= 1, l = log2 n1: writing n1 (or n1 with its top bit cleared, under `checks`) on l
     bits writes fld (n1 - 2^l) l; reading it back and adding 2^l - 1 gives n *)
  Lemma tail_wr checks n1 : 0 < n1 -> n1 < W64 ->
    let l := N.log2 n1 in
    wr checks (WBits (if checks then N.lxor n1 (2 ^ l) else n1) l wret) (fld E (n1 - 2 ^ l) l).
  Proof.
    intros H0 H l. pose proof (log2_bounds n1 H0) as [A B]. fold l in A, B.
    assert (l < 64) as Hl by (apply log2_lt_64; assumption).
    destruct checks.
    - rewrite lxor_top_bit by exact H0. fold l. apply wr_bits; [lia|]. right.
      rewrite N.pow_add_r in B. lia.
    - eapply wr_ext; [|apply wr_bits; [lia | left; reflexivity]].
      unfold fld. apply field_eq_mod. rewrite N2Nat.id. symmetry. apply mod_sub_pow2. exact A.
  Qed.
  Lemma tail_rd c n1 (k : N -> rprog N) cw2 v2 : 0 < n1 -> n1 < W64 ->
    let l := N.log2 n1 in
    rd c (k (n1 - 2 ^ l)) cw2 v2 -> rd c (RBits l k) (fld E (n1 - 2 ^ l) l ++ cw2) v2.
  Proof.
    intros H0 H l Hk. pose proof (log2_bounds n1 H0) as [A B]. fold l in A, B.
    assert (l < 64) as Hl by (apply log2_lt_64; assumption).
    apply rd_bits; [lia|]. rewrite N.mod_small; [exact Hk|]. rewrite N.pow_add_r in B. lia.
  Qed.
  (* (1 << l) + b - 1 with b = n1 - 2^l *)
  Lemma tail_arith_rd c n1 : 0 < n1 -> n1 < W64 ->
    let l := N.log2 n1 in
    rd c (o <~ shl64 1 l ;; s <~ add64 (n1 - 2 ^ l) o ;; r <~ sub64 s 1 ;; RRet r) [] (n1 - 1).
  Proof.
    intros H0 H l. pose proof (log2_bounds n1 H0) as [A B]. fold l in A, B.
    assert (l < 64) as Hl by (apply log2_lt_64; assumption).
    eapply rd_lift; [apply shl64_one; exact Hl|].
    eapply rd_lift; [apply add64_ok; lia|].
    eapply rd_lift; [apply sub64_ok; lia|].
    replace (n1 - 2 ^ l + 2 ^ l - 1) with (n1 - 1) by lia. eapply rd_mono; [|apply rd_ret]. lia.
  Qed.
  Lemma tail_arith_rd' c n1 : 0 < n1 -> n1 < W64 ->
    let l := N.log2 n1 in
    rd c (s <~ add64 (2 ^ l) (n1 - 2 ^ l) ;; r <~ sub64 s 1 ;; RRet r) [] (n1 - 1).
  Proof.
    intros H0 H l. pose proof (log2_bounds n1 H0) as [A B]. fold l in A, B.
    eapply rd_lift; [apply add64_ok; lia|].
    eapply rd_lift; [apply sub64_ok; lia|].
    replace (2 ^ l + (n1 - 2 ^ l) - 1) with (n1 - 1) by lia. eapply rd_mono; [|apply rd_ret]. lia.
  Qed.

  (* ---------------- gamma (bit by bit) ---------------- *)
  Lemma gamma_wr checks n : n < U64MAX -> wr checks (default_write_gamma checks n) (def_gamma E n).
  Proof.
    intros Hn. unfold default_write_gamma, def_gamma.
    assert (n + 1 < W64) as H1 by (unfold U64MAX in Hn; unfold W64; lia).
    eapply wr_lift; [apply add64_ok; exact H1|].
    eapply wr_lift; [apply ilog2_ok; lia|].
    apply wr_seq.
    - apply wr_unary. pose proof (log2_lt_64 (n + 1)) as HH. unfold U64MAX. lia.
    - apply tail_wr; [lia | exact H1].
  Qed.
  Lemma gamma_rd n : n < U64MAX -> rd 0 default_read_gamma (def_gamma E n) n.
  Proof.
    intros Hn. unfold default_read_gamma, def_gamma.
    assert (n + 1 < W64) as H1 by (unfold U64MAX in Hn; unfold W64; lia).
    apply rd_unary.
    eapply rd_ext; [apply app_nil_r|].
    apply tail_rd; [lia | exact H1 |].
    replace n with (n + 1 - 1) at 2 by lia. apply tail_arith_rd; [lia | exact H1].
  Qed.
  Lemma def_gamma_len n : LEN (def_gamma E n) = 2 * N.log2 (n + 1) + 1.
  Proof. unfold def_gamma. rewrite LEN_app, LEN_unary, LEN_fld. lia. Qed.

  (* ---------------- minimal binary ---------------- *)
  Lemma fld_bit_land t : fld E (N.land t 1) 1 = [N.odd t].
  Proof.
    assert (N.testbit (N.land t 1) 0 = N.odd t) as H.
    { rewrite N.land_spec, N.bit0_odd. change (N.testbit 1 0) with true. apply andb_true_r. }
    unfold fld. change (N.to_nat 1) with 1%nat.
    destruct E; cbn [field field_be field_le field_le_from rev app]; rewrite H; reflexivity.
  Qed.
  Lemma fld_bit_mod t : fld E (t mod 2) 1 = [N.odd t].
  Proof.
    assert (N.testbit (t mod 2) 0 = N.odd t) as H.
    { change 2 with (2 ^ 1). rewrite N.mod_pow2_bits_low by lia. apply N.bit0_odd. }
    unfold fld. change (N.to_nat 1) with 1%nat.
    destruct E; cbn [field field_be field_le field_le_from rev app]; rewrite H; reflexivity.
  Qed.

  Lemma mb_limit_spec max : 0 < max -> max < W64 ->
    mb_limit max = Some (N.log2 max, 2 ^ (N.log2 max + 1) - max).
  Proof.
    intros H0 H. unfold mb_limit. rewrite ilog2_ok by exact H0. do 2 f_equal.
    pose proof (log2_bounds max H0) as [A B]. set (l := N.log2 max) in *.
    assert (l < 64) as Hl by (apply log2_lt_64; assumption).
    unfold wsub64. rewrite (N.mod_small max) by exact H.
    replace (2 ^ l * 2) with (2 ^ (l + 1)) by (rewrite N.pow_add_r; reflexivity).
    destruct (N.eq_dec l 63) as [->|Hne].
    - change (2 ^ (63 + 1)) with W64 in *. rewrite N.mod_same by (unfold W64; lia).
      rewrite N.add_0_l. apply N.mod_small. lia.
    - assert (2 ^ (l + 1) < W64) as Hp by (apply pow2_lt_W64; lia).
      rewrite (N.mod_small (2 ^ (l + 1))) by exact Hp.
      replace (2 ^ (l + 1) + W64 - max) with (2 ^ (l + 1) - max + 1 * W64) by lia.
      rewrite N.mod_add by (unfold W64; lia). apply N.mod_small. lia.
  Qed.

  Lemma len_minimal_binary_spec x u : 0 < u -> u < W64 ->
    len_minimal_binary x u = LEN (def_minimal_binary E x u).
  Proof.
    intros H0 H. unfold len_minimal_binary, def_minimal_binary.
    destruct (u =? 0) eqn:Hz; [lia|].
    pose proof (mb_limit_spec u H0 H) as HL. unfold mb_limit in HL. rewrite ilog2_ok in HL by exact H0.
    injection HL as HL. rewrite HL.
    destruct (2 ^ (N.log2 u + 1) - u <=? x) eqn:Hc; destruct (x <? 2 ^ (N.log2 u + 1) - u) eqn:Hd; try lia.
    - rewrite LEN_app, LEN_fld. unfold LEN. cbn [length]. lia.
    - rewrite LEN_fld. reflexivity.
  Qed.

  Lemma minimal_binary_wr checks x u : 0 < u -> u < W64 -> x < u ->
    wr checks (_ <-- write_minimal_binary x u ;; wret (len_minimal_binary x u)) (def_minimal_binary E x u).
  Proof. Abort.

  (* write_minimal_binary returns l or l+1 itself; state it directly *)
  Lemma mb_wr checks x u : 0 < u -> u < W64 -> x < u ->
    wr checks (write_minimal_binary x u) (def_minimal_binary E x u).
  Proof.
    intros H0 H Hx. unfold write_minimal_binary, def_minimal_binary.
    rewrite (mb_limit_spec u H0 H). cbn [wlift].
    pose proof (log2_bounds u H0) as [A B]. set (l := N.log2 u) in *.
    assert (l < 64) as Hl by (apply log2_lt_64; assumption).
    rewrite N.pow_add_r in B. change (2 ^ 1) with 2 in B.
    set (limit := 2 ^ (l + 1) - u). assert (limit = 2 ^ l * 2 - u) as Hlim by (unfold limit; rewrite N.pow_add_r; reflexivity).
    destruct (x <? limit) eqn:Hc.
    - intros s. rewrite wrun_bind.
      rewrite (wr_bits checks x l) by (try lia; right; lia).
      cbn [wrun wret]. rewrite LEN_fld. reflexivity.
    - assert (x + limit < W64) as Hs.
      { destruct (N.eq_dec l 63) as [->|Hne]; [change (2 ^ 63 * 2) with W64 in *; lia|].
        assert (2 ^ (l + 1) < W64) by (apply pow2_lt_W64; lia). rewrite N.pow_add_r in H1. change (2 ^ 1) with 2 in H1. lia. }
      rewrite (add64_ok x limit Hs). cbn [wlift].
      intros s. rewrite wrun_bind.
      rewrite (wr_bits checks ((x + limit) / 2) l) by (try lia; right; lia).
      rewrite wrun_bind.
      assert (N.land (x + limit) 1 = (x + limit) mod 2) as Hland.
      { change 1 with (N.ones 1). rewrite N.land_ones. reflexivity. }
      rewrite (wr_bits checks (N.land (x + limit) 1) 1) by (try lia; right; rewrite Hland; change (2 ^ 1) with 2; lia).
      cbn [wrun wret]. rewrite LEN_app, LEN_fld. unfold LEN at 1. cbn [length].
      rewrite <- app_assoc, fld_bit_land. reflexivity.
  Qed.

  Lemma mb_rd x u : 0 < u -> u < W64 -> x < u -> rd 0 (read_minimal_binary u) (def_minimal_binary E x u) x.
  Proof.
    intros H0 H Hx. unfold read_minimal_binary, def_minimal_binary.
    rewrite (mb_limit_spec u H0 H). cbn [rlift].
    pose proof (log2_bounds u H0) as [A B]. set (l := N.log2 u) in *.
    assert (l < 64) as Hl by (apply log2_lt_64; assumption).
    rewrite N.pow_add_r in B. change (2 ^ 1) with 2 in B.
    set (limit := 2 ^ (l + 1) - u). assert (limit = 2 ^ l * 2 - u) as Hlim by (unfold limit; rewrite N.pow_add_r; reflexivity).
    destruct (x <? limit) eqn:Hc.
    - eapply rd_ext; [apply app_nil_r|]. apply rd_bits; [lia|].
      rewrite N.mod_small by lia. rewrite Hc. apply rd_ret.
    - set (t := x + limit).
      assert (t < 2 ^ l * 2) as Ht by (unfold t; lia).
      apply rd_bits; [lia|]. rewrite N.mod_small by lia.
      destruct (t / 2 <? limit) eqn:Hd; [unfold t in *; lia|].
      replace [N.odd t] with (fld E (t mod 2) 1 ++ []) by (rewrite app_nil_r; apply fld_bit_mod).
      apply rd_bits; [lia|]. change (2 ^ 1) with 2. rewrite N.mod_mod by lia.
      assert (t / 2 * 2 < W64) as Hm.
      { destruct (N.eq_dec l 63) as [->|Hne]; [change (2 ^ 63 * 2) with W64 in *; lia|].
        assert (2 ^ (l + 1) < W64) by (apply pow2_lt_W64; lia). rewrite N.pow_add_r in H1. change (2 ^ 1) with 2 in H1. lia. }
      rewrite (N.mod_small (t / 2 * 2)) by exact Hm.
      assert (N.lor (t / 2 * 2) (t mod 2) = t) as ->.
      { change 2 with (2 ^ 1) at 2. rewrite lor_disjoint by (change (2 ^ 1) with 2; lia). change (2 ^ 1) with 2. lia. }
      eapply rd_lift; [apply sub64_ok; unfold t; lia|].
      replace (t - limit) with x by (unfold t; lia). apply rd_ret.
  Qed.
End CodeFacts.
