(* MachineViews.v — the std::io byte views (C12) and the counting wrappers (C14) on the L2 word
   machines of ANY word width: composition of the L0 theorems (IoViewsProofs, WrappersProofs) with
   the refinements (WriterProofs, ReaderProofs, UReaderProofs) in the pattern of MachineTheorems. *)
From DSI Require Import Base Words Prog Codes CodeDefs Writer Reader Abs World BitFacts CodesProofs
  Run CodesSummary BitsLemmas WriterProofs BitsLemmasR ReaderProofs BitsLemmasU UReaderProofs
  IoViewsProofs MachineTheorems WrappersProofs EndToEnd.
From DSI.Gen Require Import GenTables GenParams.
From Coq Require Import ZifyBool ZifyNat ZifyN.
Arguments N.add : simpl never. Arguments N.sub : simpl never. Arguments N.mul : simpl never.
Arguments N.div : simpl never. Arguments N.modulo : simpl never. Arguments N.pow : simpl never.
Arguments N.eqb : simpl never. Arguments N.ltb : simpl never. Arguments N.leb : simpl never.
Arguments N.testbit : simpl never. Arguments N.of_nat : simpl never. Arguments N.to_nat : simpl never.
Open Scope N_scope.

(* ================================================================== writers: generic lifts *)
(* either build: the machine primitives simulate the specification primitives of the same build *)
Lemma prims_sim_any E W checks : wprims_sim E W (swprims E checks) (bwprims E W checks).
Proof. destruct checks; [apply prims_sim_checks | apply WriterProofs.C01_prims_sim]. Qed.

Theorem prog_refines_any {A} E W checks (p : wprog A) b s :
  wrel E W b s -> wosim E W (wrun (swprims E checks) p b) (wrun (bwprims E W checks) p s).
Proof. apply wrun_simulation, prims_sim_any. Qed.

(* any program whose specification run is defined, on a machine with an unbounded sink: never Err *)
Theorem prog_unbounded {A} E W checks (p : wprog A) b s a b' :
  wrel E W b s -> wk_cap (bw_sink s) = None ->
  wrun (swprims E checks) p b = Ok (a, b') ->
  exists s', wrun (bwprims E W checks) p s = Ok (a, s') /\ WInv W s' /\ wabs E W s' = b' /\
             wk_cap (bw_sink s') = None.
Proof.
  intros HR Hc Hrun. pose proof HR as [HI _].
  pose proof (prog_refines_any E W checks p b s HR) as HS. rewrite Hrun in HS. cbn [wosim] in HS.
  pose proof (EndToEnd.wrun_unbounded E W checks p s HI Hc) as Hu.
  destruct HS as [(s' & Hs' & HI' & HA') | He].
  - rewrite Hs' in Hu. destruct Hu as [_ Hc']. exists s'. auto.
  - rewrite He in Hu. contradiction.
Qed.

(* ================================================================== C12 on the machines *)
(* (a) io::Write on a buffered writer of any word width, either build *)
Theorem io_write_machine E W checks buf b s :
  wrel E W b s -> Forall (fun x => x < 256) buf ->
  (exists s', wrun (bwprims E W checks) (io_write E buf) s = Ok (N.of_nat (length buf), s') /\
              WInv W s' /\ wabs E W s' = b ++ bits_of_bytes E buf)
  \/ wrun (bwprims E W checks) (io_write E buf) s = Err.
Proof.
  intros HR HF. pose proof (prog_refines_any E W checks (io_write E buf) b s HR) as HS.
  rewrite (IoViewsProofs.io_write_ok E checks buf b HF) in HS. cbn [wosim] in HS.
  destruct HS as [(s' & H1 & H2 & H3) | He]; [left; exists s'; auto | right; exact He].
Qed.

Theorem io_write_machine_unbounded E W checks buf b s :
  wrel E W b s -> Forall (fun x => x < 256) buf -> wk_cap (bw_sink s) = None ->
  exists s', wrun (bwprims E W checks) (io_write E buf) s = Ok (N.of_nat (length buf), s') /\
             WInv W s' /\ wabs E W s' = b ++ bits_of_bytes E buf /\ wk_cap (bw_sink s') = None.
Proof.
  intros HR HF Hc.
  exact (prog_unbounded E W checks (io_write E buf) b s _ _ HR Hc (IoViewsProofs.io_write_ok E checks buf b HF)).
Qed.

(* ------------------------------------------------------------------ readers: generic lifts *)
(* any read program whose specification run from the abstraction of the machine state is Ok *)
Lemma rprog_machine {A} E W (p : rprog A) s pos pk a r' :
  RInv E W s pos -> W * N.of_nat (length (ws_words (br_src s))) <= 2 ^ 64 -> pk <= br_bits s ->
  rrun (sprims E (ws_strict (br_src s)) W) p (rabs E W s pos pk) = Ok (a, r') ->
  exists s', rrun (brprims E W) p s = Ok (a, s') /\ RInv E W s' (sr_pos r') /\
             ws_words (br_src s') = ws_words (br_src s) /\ ws_strict (br_src s') = ws_strict (br_src s).
Proof.
  intros HI Hlen Hpk Hrun.
  assert (rrel E W (rabs E W s pos pk) s) as HR by (exists pos, pk; split; [exact HI | split; [exact Hpk | reflexivity]]).
  pose proof (ReaderProofs.programs_sim_fun E W (ws_words (br_src s)) (ws_strict (br_src s)) A
                p (rabs E W s pos pk) s Hlen HR eq_refl eq_refl) as HS.
  rewrite Hrun in HS. cbn [osim] in HS.
  destruct HS as (s' & Hs' & (pos' & pk'' & HI' & _ & Habs) & Hw & Hst).
  exists s'. split; [exact Hs' |]. subst r'. cbn [rabs sr_pos]. split; [exact HI' | split; assumption].
Qed.

Lemma uprog_machine {A} E (p : rprog A) s a r' :
  UInv s -> rrun (sprims E (ws_strict (ur_src s)) 32) p (uabs E s 0) = Ok (a, r') -> sr_pos r' < 2 ^ 63 ->
  exists s', rrun (urprims E) p s = Ok (a, s') /\ UInv s' /\ ur_index s' = sr_pos r' /\
             ws_words (ur_src s') = ws_words (ur_src s) /\ ws_strict (ur_src s') = ws_strict (ur_src s).
Proof.
  intros HI Hrun Hb.
  assert (urel E (uabs E s 0) s) as HR by (split; [exact HI | exists 0; reflexivity]).
  destruct (UReaderProofs.run_sim_bounded E A p _ s a r' HR Hrun Hb) as (s' & Hs' & (HI' & pk2 & Habs) & Hst & Hw).
  exists s'. split; [exact Hs' |]. split; [exact HI' |]. subst r'. cbn [uabs sr_pos].
  split; [reflexivity | split; assumption].
Qed.

(* (b) io::Read on a buffered reader of any word width *)
Theorem io_read_machine E W bytes s pos post :
  RInv E W s pos -> W * N.of_nat (length (ws_words (br_src s))) <= 2 ^ 64 ->
  Forall (fun x => x < 256) bytes ->
  skipn (N.to_nat pos) (src_bits E W (br_src s)) = bits_of_bytes E bytes ++ post ->
  exists s', rrun (brprims E W) (io_read E (N.of_nat (length bytes))) s = Ok (bytes, s') /\
             RInv E W s' (pos + 8 * N.of_nat (length bytes)) /\
             ws_words (br_src s') = ws_words (br_src s) /\ ws_strict (br_src s') = ws_strict (br_src s).
Proof.
  intros HI Hlen HF Hstream.
  pose proof (IoViewsProofs.io_read_ok E (ws_strict (br_src s)) W bytes post pos 0 HF) as Hrun.
  rewrite <- Hstream in Hrun. fold (rabs E W s pos 0) in Hrun.
  destruct (rprog_machine E W _ s pos 0 _ _ HI Hlen ltac:(lia) Hrun) as (s' & Hs' & HI' & Hw & Hst).
  cbn [mkr sr_pos] in HI'. exists s'. auto.
Qed.

(* ... and on the unbuffered reader over u64 words *)
Theorem io_read_umachine E bytes s post :
  UInv s -> Forall (fun x => x < 256) bytes ->
  ur_index s + 8 * N.of_nat (length bytes) < 2 ^ 63 ->
  skipn (N.to_nat (ur_index s)) (src_bits E 64 (ur_src s)) = bits_of_bytes E bytes ++ post ->
  exists s', rrun (urprims E) (io_read E (N.of_nat (length bytes))) s = Ok (bytes, s') /\
             UInv s' /\ ur_index s' = ur_index s + 8 * N.of_nat (length bytes) /\
             ws_words (ur_src s') = ws_words (ur_src s).
Proof.
  intros HI HF Hb Hstream.
  pose proof (IoViewsProofs.io_read_ok E (ws_strict (ur_src s)) 32 bytes post (ur_index s) 0 HF) as Hrun.
  rewrite <- Hstream in Hrun. fold (uabs E s 0) in Hrun.
  destruct (uprog_machine E _ s _ _ HI Hrun) as (s' & Hs' & HI' & Hidx & Hw & _).
  { cbn [mkr sr_pos]. exact Hb. }
  cbn [mkr sr_pos] in Hidx. exists s'. auto.
Qed.

(* (c) strict source, fewer than 8*n bits left from pos: Err, on the machine *)
Lemma short_rest E W ws pos n : W * N.of_nat (length ws) < pos + 8 * n ->
  0 < n \/ pos <= W * N.of_nat (length ws) ->
  N.of_nat (length (skipn (N.to_nat pos) (bits_of_words E W ws))) < 8 * n.
Proof.
  intros H H0. rewrite skipn_length, ReaderProofs.bits_of_words_length.
  rewrite Nat2N.inj_sub, Nat2N.inj_mul, !N2Nat.id. lia.
Qed.

Theorem io_read_strict_short_machine E W s pos n :
  RInv E W s pos -> W * N.of_nat (length (ws_words (br_src s))) <= 2 ^ 64 ->
  ws_strict (br_src s) = true ->
  W * N.of_nat (length (ws_words (br_src s))) < pos + 8 * n ->
  rrun (brprims E W) (io_read E n) s = Err.
Proof.
  intros HI Hlen Hst Hshort.
  assert (rrel E W (rabs E W s pos 0) s) as HR by (exists pos, 0; split; [exact HI | split; [lia | reflexivity]]).
  pose proof (ReaderProofs.programs_sim_fun E W (ws_words (br_src s)) true (list N)
                (io_read E n) (rabs E W s pos 0) s Hlen HR eq_refl Hst) as HS.
  unfold rabs in HS at 1. fold (mkr (skipn (N.to_nat pos) (src_bits E W (br_src s))) pos 0) in HS.
  rewrite IoViewsProofs.io_read_strict_short in HS; [exact HS |].
  unfold src_bits. apply short_rest; [exact Hshort |]. right.
  destruct HI as (_ & _ & _ & H4 & _ & H6 & _). specialize (H6 Hst). nia.
Qed.

(* hypothesis forced by the proof: 0 < n.  The unbuffered reader's index may lie beyond the end of a
   strict source (after a skip), and a zero-length read is then Ok [] (no primitive is called) *)
Theorem io_read_strict_short_umachine E s n :
  UInv s -> ws_strict (ur_src s) = true -> 0 < n ->
  64 * N.of_nat (length (ws_words (ur_src s))) < 2 ^ 63 ->
  64 * N.of_nat (length (ws_words (ur_src s))) < ur_index s + 8 * n ->
  rrun (urprims E) (io_read E n) s = Err.
Proof.
  intros HI Hst Hn Hlen Hshort.
  assert (urel_strict E (uabs E s 0) s) as HR.
  { split; [split; [exact HI | exists 0; reflexivity] |]. split; [exact Hst | exact Hlen]. }
  pose proof (UReaderProofs.run_sim_strict E (list N) (io_read E n) _ s HR) as HS.
  unfold uabs in HS. fold (mkr (skipn (N.to_nat (ur_index s)) (src_bits E 64 (ur_src s))) (ur_index s) 0) in HS.
  rewrite IoViewsProofs.io_read_strict_short in HS; [exact HS |].
  unfold src_bits. apply short_rest; [exact Hshort | left; exact Hn].
Qed.

(* ================================================================== C14 on the machines *)
(* transparency is generic in the wrapped primitives (WrappersProofs.count_w_transparent /
   count_r_transparent): the machine instances *)
Theorem count_transparent_bw {A} E W checks (p : wprog A) s c :
  match wrun (bwprims E W checks) p s with
  | Ok (a, s') => exists c', wrun (count_wprims (bwprims E W checks)) p (s, c) = Ok (a, (s', c'))
  | Err => wrun (count_wprims (bwprims E W checks)) p (s, c) = Err
  | Fail => wrun (count_wprims (bwprims E W checks)) p (s, c) = Fail
  | Fuel => wrun (count_wprims (bwprims E W checks)) p (s, c) = Fuel
  end.
Proof. exact (count_w_transparent (bwprims E W checks) p s c). Qed.

Theorem count_transparent_br {A} E W (p : rprog A) s c :
  match rrun (brprims E W) p s with
  | Ok (a, s') => exists c', rrun (count_rprims (brprims E W)) p (s, c) = Ok (a, (s', c'))
  | Err => rrun (count_rprims (brprims E W)) p (s, c) = Err
  | Fail => rrun (count_rprims (brprims E W)) p (s, c) = Fail
  | Fuel => rrun (count_rprims (brprims E W)) p (s, c) = Fuel
  end.
Proof. exact (count_r_transparent (brprims E W) p s c). Qed.

Theorem count_transparent_ur {A} E (p : rprog A) s c :
  match rrun (urprims E) p s with
  | Ok (a, s') => exists c', rrun (count_rprims (urprims E)) p (s, c) = Ok (a, (s', c'))
  | Err => rrun (count_rprims (urprims E)) p (s, c) = Err
  | Fail => rrun (count_rprims (urprims E)) p (s, c) = Fail
  | Fuel => rrun (count_rprims (urprims E)) p (s, c) = Fuel
  end.
Proof. exact (count_r_transparent (urprims E) p s c). Qed.

(* ------------------------------------------------------------------ writer: exact count, ANY program *)
Lemma bw_bits_grows E W checks v n s r s' :
  WInv W s -> bw_write_bits E W checks v n s = Ok (r, s') ->
  WInv W s' /\ LEN (wabs E W s') = LEN (wabs E W s) + r.
Proof.
  intros HI Heq.
  destruct (N.ltb_spec 64 n) as [Hn | Hn].
  { unfold bw_write_bits in Heq. destruct (N.ltb_spec 64 n); [discriminate | lia]. }
  assert (Hf : bw_write_bits E W false v n s = Ok (r, s')).
  { destruct checks; [| exact Heq]. unfold bw_write_bits in Heq |- *.
    destruct (64 <? n); [discriminate |].
    destruct (N.land v (mask_u128 n) =? v); cbn [andb negb] in Heq |- *; [exact Heq | discriminate]. }
  destruct (write_bits_step E W v n s HI Hn) as [[He _] | (s1 & He & HI1 & HA1 & _)]; rewrite He in Hf; [discriminate |].
  injection Hf as <- <-. split; [exact HI1 |].
  rewrite HA1. unfold LEN. rewrite app_length, BitFacts.field_length. lia.
Qed.

Lemma bw_unary_grows E W x s r s' :
  WInv W s -> bw_write_unary E W x s = Ok (r, s') ->
  WInv W s' /\ LEN (wabs E W s') = LEN (wabs E W s) + r.
Proof.
  intros HI Heq.
  destruct (N.eq_dec x U64MAX) as [Hx | Hx].
  { unfold bw_write_unary in Heq. destruct (N.eqb_spec x U64MAX); [discriminate | contradiction]. }
  destruct (write_unary_step E W x s HI Hx) as [[He _] | (s1 & He & HI1 & HA1 & _)]; rewrite He in Heq; [discriminate |].
  injection Heq as <- <-. split; [exact HI1 |].
  rewrite HA1. unfold LEN. rewrite app_length, unary_length. lia.
Qed.

(* bits_written grows by exactly the growth of the abstract stream (delivered words ++ pending
   bits), for EVERY write program on a machine of any width, either build *)
Theorem count_w_exact_machine {A} E W checks (p : wprog A) s c a s' c' :
  WInv W s ->
  wrun (count_wprims (bwprims E W checks)) p (s, c) = Ok (a, (s', c')) ->
  WInv W s' /\ c <= c' /\ c' + LEN (wabs E W s) = c + LEN (wabs E W s').
Proof.
  revert s c; induction p as [x | v n k IH | x k IH | ]; intros s c HI H; cbn [wrun] in H.
  - injection H as _ <- <-. split; [exact HI | lia].
  - cbn [count_wprims q_bits bwprims] in H.
    destruct (bw_write_bits E W checks v n s) as [[r s1] | | | ] eqn:Hb; cbn [omap] in H; try discriminate.
    destruct (bw_bits_grows _ _ _ _ _ _ _ _ HI Hb) as [HI1 HL].
    destruct (IH r s1 (c + r) HI1 H) as (HI' & HM & HC). split; [exact HI' | lia].
  - cbn [count_wprims q_unary bwprims] in H.
    destruct (bw_write_unary E W x s) as [[r s1] | | | ] eqn:Hb; cbn [omap] in H; try discriminate.
    destruct (bw_unary_grows _ _ _ _ _ _ HI Hb) as [HI1 HL].
    destruct (IH r s1 (c + r) HI1 H) as (HI' & HM & HC). split; [exact HI' | lia].
  - discriminate.
Qed.

(* a refinement-style corollary: any program, counted machine run vs plain machine run vs spec run *)
Lemma counted_of_plain_w {A} E W checks (p : wprog A) b s c a s' :
  wrel E W b s -> wrun (bwprims E W checks) p s = Ok (a, s') ->
  wrun (count_wprims (bwprims E W checks)) p (s, c) = Ok (a, (s', c + (LEN (wabs E W s') - LEN b))) /\
  LEN b <= LEN (wabs E W s').
Proof.
  intros [HI HA] Hrun. pose proof (count_w_transparent (bwprims E W checks) p s c) as HT.
  rewrite Hrun in HT. destruct HT as [c' Hc].
  destruct (count_w_exact_machine E W checks p s c a s' c' HI Hc) as (_ & HM & HC). rewrite HA in HC.
  split; [| lia]. rewrite Hc. replace c' with (c + (LEN (wabs E W s') - LEN b)) by lia. reflexivity.
Qed.

Lemma code_write_machine_any E W D checks id p fl v b s :
  wrel E W b s -> valid id p v ->
  (exists s', wrun (bwprims E W checks) (sel_write E D checks id p fl v) s = Ok (LEN (code_cw E id p v), s') /\
              WInv W s' /\ wabs E W s' = b ++ code_cw E id p v)
  \/ wrun (bwprims E W checks) (sel_write E D checks id p fl v) s = Err.
Proof. destruct checks; [apply code_write_machine_checks | apply code_write_machine]. Qed.

(* a code written through the counting wrapper over a machine of any width: same result and same
   machine state as without the wrapper, counter + length of the codeword *)
Theorem count_code_write_machine E W D checks id p fl v b s c :
  wrel E W b s -> valid id p v ->
  (exists s', wrun (bwprims E W checks) (sel_write E D checks id p fl v) s = Ok (LEN (code_cw E id p v), s') /\
              wrun (count_wprims (bwprims E W checks)) (sel_write E D checks id p fl v) (s, c)
              = Ok (LEN (code_cw E id p v), (s', c + LEN (code_cw E id p v))) /\
              WInv W s' /\ wabs E W s' = b ++ code_cw E id p v)
  \/ (wrun (bwprims E W checks) (sel_write E D checks id p fl v) s = Err /\
      wrun (count_wprims (bwprims E W checks)) (sel_write E D checks id p fl v) (s, c) = Err).
Proof.
  intros HR Hv.
  destruct (code_write_machine_any E W D checks id p fl v b s HR Hv) as [(s' & Hs' & HI' & HA') | He].
  - left. exists s'. split; [exact Hs' |].
    destruct (counted_of_plain_w E W checks _ b s c _ s' HR Hs') as [Hc _].
    split; [| split; assumption]. rewrite Hc, HA', LEN_app'.
    replace (LEN b + LEN (code_cw E id p v) - LEN b) with (LEN (code_cw E id p v)) by lia. reflexivity.
  - right. split; [exact He |].
    pose proof (count_w_transparent (bwprims E W checks) (sel_write E D checks id p fl v) s c) as HT.
    rewrite He in HT. exact HT.
Qed.

(* the io::Write view through the counting wrapper: counter + 8 * bytes *)
Theorem count_io_write_machine E W checks buf b s c :
  wrel E W b s -> Forall (fun x => x < 256) buf ->
  (exists s', wrun (bwprims E W checks) (io_write E buf) s = Ok (N.of_nat (length buf), s') /\
              wrun (count_wprims (bwprims E W checks)) (io_write E buf) (s, c)
              = Ok (N.of_nat (length buf), (s', c + 8 * N.of_nat (length buf))) /\
              WInv W s' /\ wabs E W s' = b ++ bits_of_bytes E buf)
  \/ (wrun (bwprims E W checks) (io_write E buf) s = Err /\
      wrun (count_wprims (bwprims E W checks)) (io_write E buf) (s, c) = Err).
Proof.
  intros HR HF.
  destruct (io_write_machine E W checks buf b s HR HF) as [(s' & Hs' & HI' & HA') | He].
  - left. exists s'. split; [exact Hs' |].
    destruct (counted_of_plain_w E W checks _ b s c _ s' HR Hs') as [Hc _].
    split; [| split; assumption]. rewrite Hc, HA', LEN_app'.
    replace (LEN b + LEN (bits_of_bytes E buf) - LEN b) with (8 * N.of_nat (length buf)); [reflexivity |].
    unfold LEN. rewrite IoViewsProofs.bob_length. lia.
  - right. split; [exact He |].
    pose proof (count_w_transparent (bwprims E W checks) (io_write E buf) s c) as HT.
    rewrite He in HT. exact HT.
Qed.

(* ------------------------------------------------------------------ readers: exact count *)
(* the counting wrapper preserves any simulation between reader primitives (the counters move by
   the returned values, which a simulation makes equal) *)
Definition crel {S1 S2} (R : S1 -> S2 -> Prop) (x : S1 * N) (y : S2 * N) : Prop :=
  R (fst x) (fst y) /\ snd x = snd y.

Lemma count_rprims_sim {S1 S2} (R : S1 -> S2 -> Prop) (P1 : rprims S1) (P2 : rprims S2) :
  rprims_sim R P1 P2 -> rprims_sim (crel R) (count_rprims P1) (count_rprims P2).
Proof.
  intros HS. constructor.
  - intros n [s1 c1] [s2 c2] [HR Hc]. cbn [fst snd] in HR, Hc. subst c2. cbn [count_rprims p_bits].
    pose proof (sim_bits R P1 P2 HS n s1 s2 HR) as H.
    destruct (p_bits P1 n s1) as [[v s1'] | | | ]; cbn [omap osim] in H |- *; try exact I.
    + destruct H as (s2' & -> & HR'). cbn [omap]. eexists. split; [reflexivity |]. split; [exact HR' | reflexivity].
    + rewrite H. reflexivity.
  - intros [s1 c1] [s2 c2] [HR Hc]. cbn [fst snd] in HR, Hc. subst c2. cbn [count_rprims p_unary].
    pose proof (sim_unary R P1 P2 HS s1 s2 HR) as H.
    destruct (p_unary P1 s1) as [[v s1'] | | | ]; cbn [omap osim] in H |- *; try exact I.
    + destruct H as (s2' & -> & HR'). cbn [omap]. eexists. split; [reflexivity |]. split; [exact HR' | reflexivity].
    + rewrite H. reflexivity.
  - intros n [s1 c1] [s2 c2] [HR Hc]. cbn [fst snd] in HR, Hc. subst c2. cbn [count_rprims p_peek].
    pose proof (sim_peek R P1 P2 HS n s1 s2 HR) as H.
    destruct (p_peek P1 n s1) as [[v s1'] | | | ]; cbn [omap osim] in H |- *; try exact I.
    + destruct H as (s2' & -> & HR'). cbn [omap]. eexists. split; [reflexivity |]. split; [exact HR' | reflexivity].
    + rewrite H. reflexivity.
  - intros n [s1 c1] [s2 c2] [HR Hc]. cbn [fst snd] in HR, Hc. subst c2. cbn [count_rprims p_skipap].
    pose proof (sim_skipap R P1 P2 HS n s1 s2 HR) as H.
    destruct (p_skipap P1 n s1) as [s1' | | | ]; cbn [omap osim0] in H |- *; try exact I.
    + destruct H as (s2' & -> & HR'). cbn [omap]. eexists. split; [reflexivity |]. split; [exact HR' | reflexivity].
    + rewrite H. reflexivity.
Qed.

(* bits_read grows by exactly the position advance, for EVERY read program (peek / skip_after_peek
   included) whose specification run from the abstraction of the machine state is Ok, on a buffered
   reader of any width; result and machine state are those of the run without the wrapper *)
Theorem count_r_exact_machine {A} E W (p : rprog A) s pos pk c a r' :
  RInv E W s pos -> W * N.of_nat (length (ws_words (br_src s))) <= 2 ^ 64 -> pk <= br_bits s ->
  rrun (sprims E (ws_strict (br_src s)) W) p (rabs E W s pos pk) = Ok (a, r') ->
  pos <= sr_pos r' /\
  exists s', rrun (brprims E W) p s = Ok (a, s') /\
             rrun (count_rprims (brprims E W)) p (s, c) = Ok (a, (s', c + (sr_pos r' - pos))) /\
             RInv E W s' (sr_pos r') /\
             ws_words (br_src s') = ws_words (br_src s) /\ ws_strict (br_src s') = ws_strict (br_src s).
Proof.
  intros HI Hlen Hpk Hrun.
  set (st := ws_strict (br_src s)) in *. set (ws := ws_words (br_src s)) in *.
  pose proof (count_r_transparent (sprims E st W) p (rabs E W s pos pk) c) as HT.
  rewrite Hrun in HT. destruct HT as [c' Hc].
  pose proof (count_r_exact E st W p _ c a r' c' Hc) as HC. cbn [rabs sr_pos] in HC.
  pose proof (UReaderProofs.rrun_pos_mono E st W A p _ a r' Hrun) as HM. cbn [rabs sr_pos] in HM.
  split; [exact HM |].
  destruct (rprog_machine E W p s pos pk a r' HI Hlen Hpk Hrun) as (s' & Hs' & HI' & Hw & Hst).
  exists s'. split; [exact Hs' |]. split; [| split; [exact HI' | split; assumption]].
  pose proof (run_simulation _ _ _ (count_rprims_sim _ _ _ (ReaderProofs.prims_sim_fun E W ws st Hlen)) p
                (rabs E W s pos pk, c) (s, c)) as HS.
  rewrite Hc in HS. cbn [osim] in HS.
  destruct HS as ([s2 c2] & Hs2 & HR2 & Hc2).
  { split; [| reflexivity]. cbn [fst]. split; [| split; reflexivity].
    exists pos, pk. split; [exact HI | split; [exact Hpk | reflexivity]]. }
  cbn [snd] in Hc2. subst c2.
  pose proof (count_r_transparent (brprims E W) p s c) as HT2. rewrite Hs' in HT2. destruct HT2 as [c3 Hc3].
  rewrite Hc3 in Hs2. injection Hs2 as _ E2. subst c3. rewrite Hc3.
  replace c' with (c + (sr_pos r' - pos)) by lia. reflexivity.
Qed.

Theorem count_code_read_machine E W D id p fl v s pos post c :
  RInv E W s pos -> W * N.of_nat (length (ws_words (br_src s))) <= 2 ^ 64 -> maxcap <= W ->
  valid id p v ->
  skipn (N.to_nat pos) (src_bits E W (br_src s)) = code_cw E id p v ++ post ->
  exists s', rrun (brprims E W) (sel_read E D id p fl) s = Ok (v, s') /\
             rrun (count_rprims (brprims E W)) (sel_read E D id p fl) (s, c)
             = Ok (v, (s', c + LEN (code_cw E id p v))) /\
             RInv E W s' (pos + LEN (code_cw E id p v)) /\
             ws_words (br_src s') = ws_words (br_src s) /\ ws_strict (br_src s') = ws_strict (br_src s).
Proof.
  intros HI Hlen Hcap Hv Hstream.
  destruct (codes_correct E D false id p fl v Hv) as (_ & Hr & _).
  destruct (Hr (ws_strict (br_src s)) W post pos 0 Hcap) as [pk' Hrun].
  rewrite <- Hstream in Hrun. fold (rabs E W s pos 0) in Hrun.
  destruct (count_r_exact_machine E W _ s pos 0 c _ _ HI Hlen ltac:(lia) Hrun) as (_ & s' & H1 & H2 & H3 & H4 & H5).
  cbn [mkr sr_pos] in H2, H3.
  replace (pos + LEN (code_cw E id p v) - pos) with (LEN (code_cw E id p v)) in H2 by lia.
  exists s'. auto.
Qed.

Theorem count_io_read_machine E W bytes s pos post c :
  RInv E W s pos -> W * N.of_nat (length (ws_words (br_src s))) <= 2 ^ 64 ->
  Forall (fun x => x < 256) bytes ->
  skipn (N.to_nat pos) (src_bits E W (br_src s)) = bits_of_bytes E bytes ++ post ->
  exists s', rrun (brprims E W) (io_read E (N.of_nat (length bytes))) s = Ok (bytes, s') /\
             rrun (count_rprims (brprims E W)) (io_read E (N.of_nat (length bytes))) (s, c)
             = Ok (bytes, (s', c + 8 * N.of_nat (length bytes))) /\
             RInv E W s' (pos + 8 * N.of_nat (length bytes)) /\
             ws_words (br_src s') = ws_words (br_src s) /\ ws_strict (br_src s') = ws_strict (br_src s).
Proof.
  intros HI Hlen HF Hstream.
  pose proof (IoViewsProofs.io_read_ok E (ws_strict (br_src s)) W bytes post pos 0 HF) as Hrun.
  rewrite <- Hstream in Hrun. fold (rabs E W s pos 0) in Hrun.
  destruct (count_r_exact_machine E W _ s pos 0 c _ _ HI Hlen ltac:(lia) Hrun) as (_ & s' & H1 & H2 & H3 & H4 & H5).
  cbn [mkr sr_pos] in H2, H3.
  replace (pos + 8 * N.of_nat (length bytes) - pos) with (8 * N.of_nat (length bytes)) in H2 by lia.
  exists s'. auto.
Qed.

(* ------------------------------------------------------------------ unbuffered reader: exact count *)
(* the unbuffered reader's state IS its bit index: the counter follows it for EVERY program, with no
   hypothesis at all *)
Theorem count_u_exact {A} E (p : rprog A) s c a s' c' :
  rrun (count_rprims (urprims E)) p (s, c) = Ok (a, (s', c')) ->
  c <= c' /\ c' + ur_index s = c + ur_index s'.
Proof.
  revert s c; induction p as [x | n k IH | k IH | n k IH | n k IH | n k IH | ]; intros s c H; cbn [rrun] in H.
  - injection H as _ <- <-. lia.
  - cbn [count_rprims p_bits urprims] in H.
    destruct (ur_read_bits E n s) as [[r s1] | | | ] eqn:Hb; cbn [omap] in H; try discriminate.
    apply IH in H. unfold ur_read_bits in Hb.
    destruct (N.eqb_spec n 0) as [-> | _]; [injection Hb as _ <-; lia |].
    destruct (64 <? n); [discriminate |].
    destruct (ur_fetch E n s) as [[r0 k0] | | | ]; cbn [obind] in Hb; try discriminate.
    unfold add64 in Hb. destruct (ur_index s + n <? W64); cbn [oo'] in Hb; [| discriminate].
    injection Hb as _ <-. cbn [ur_index] in H. lia.
  - cbn [count_rprims p_unary urprims] in H.
    destruct (ur_read_unary E s) as [[r s1] | | | ] eqn:Hb; cbn [omap] in H; try discriminate.
    apply IH in H. unfold ur_read_unary in Hb.
    destruct (src_set_pos (ur_src s) (ur_index s / 64)) as [k0 | | | ]; cbn [obind] in Hb; try discriminate.
    destruct (ur_unary_words E _ _ _ _ _ _ _) as [[res idx'] | | | ]; cbn [obind] in Hb; try discriminate.
    unfold add64 in Hb. destruct (ur_index s + (res + 1) <? W64); cbn [oo'] in Hb; [| discriminate].
    injection Hb as <- <-. cbn [ur_index] in H. lia.
  - cbn [count_rprims p_peek urprims] in H.
    destruct (ur_peek E n s) as [[r s1] | | | ] eqn:Hb; cbn [omap] in H; try discriminate.
    + apply IH in H. unfold ur_peek in Hb.
      destruct (N.eqb_spec n 0) as [-> | _]; [injection Hb as _ <-; lia |].
      destruct (32 <? n); [discriminate |].
      destruct (ur_fetch E n s) as [[r0 k0] | | | ]; cbn [obind] in Hb; try discriminate.
      injection Hb as _ <-. cbn [ur_index] in H. lia.
    + apply IH in H. exact H.
  - cbn [count_rprims p_peek urprims] in H.
    destruct (ur_peek E n s) as [[r s1] | | | ] eqn:Hb; cbn [omap] in H; try discriminate.
    apply IH in H. unfold ur_peek in Hb.
    destruct (N.eqb_spec n 0) as [-> | _]; [injection Hb as _ <-; lia |].
    destruct (32 <? n); [discriminate |].
    destruct (ur_fetch E n s) as [[r0 k0] | | | ]; cbn [obind] in Hb; try discriminate.
    injection Hb as _ <-. cbn [ur_index] in H. lia.
  - cbn [count_rprims p_skipap urprims] in H.
    destruct (ur_skip n s) as [s1 | | | ] eqn:Hb; cbn [omap] in H; try discriminate.
    apply IH in H. unfold ur_skip, add64 in Hb.
    destruct (ur_index s + n <? W64); cbn [oo'] in Hb; [| discriminate].
    injection Hb as <-. cbn [ur_index] in H. lia.
  - discriminate.
Qed.

Lemma counted_of_plain_u {A} E (p : rprog A) s c a s' :
  rrun (urprims E) p s = Ok (a, s') ->
  rrun (count_rprims (urprims E)) p (s, c) = Ok (a, (s', c + (ur_index s' - ur_index s))) /\
  ur_index s <= ur_index s'.
Proof.
  intros Hrun. pose proof (count_r_transparent (urprims E) p s c) as HT. rewrite Hrun in HT.
  destruct HT as [c' Hc]. pose proof (count_u_exact E p s c a s' c' Hc) as [HM HC].
  split; [| lia]. rewrite Hc. replace c' with (c + (ur_index s' - ur_index s)) by lia. reflexivity.
Qed.

Theorem count_code_read_umachine E D id p fl v s post c :
  UInv s -> maxcap <= 32 -> valid id p v ->
  ur_index s + LEN (code_cw E id p v) < 2 ^ 63 ->
  skipn (N.to_nat (ur_index s)) (src_bits E 64 (ur_src s)) = code_cw E id p v ++ post ->
  exists s', rrun (urprims E) (sel_read E D id p fl) s = Ok (v, s') /\
             rrun (count_rprims (urprims E)) (sel_read E D id p fl) (s, c)
             = Ok (v, (s', c + LEN (code_cw E id p v))) /\
             UInv s' /\ ur_index s' = ur_index s + LEN (code_cw E id p v) /\
             ws_words (ur_src s') = ws_words (ur_src s).
Proof.
  intros HI Hcap Hv Hb Hstream.
  destruct (code_read_umachine E D id p fl v s post HI Hcap Hv Hb Hstream) as (s' & Hs' & HI' & Hidx & Hw).
  exists s'. split; [exact Hs' |]. split; [| split; [exact HI' | split; assumption]].
  destruct (counted_of_plain_u E _ s c _ s' Hs') as [Hc _]. rewrite Hc.
  replace (ur_index s' - ur_index s) with (LEN (code_cw E id p v)) by lia. reflexivity.
Qed.

Theorem count_io_read_umachine E bytes s post c :
  UInv s -> Forall (fun x => x < 256) bytes ->
  ur_index s + 8 * N.of_nat (length bytes) < 2 ^ 63 ->
  skipn (N.to_nat (ur_index s)) (src_bits E 64 (ur_src s)) = bits_of_bytes E bytes ++ post ->
  exists s', rrun (urprims E) (io_read E (N.of_nat (length bytes))) s = Ok (bytes, s') /\
             rrun (count_rprims (urprims E)) (io_read E (N.of_nat (length bytes))) (s, c)
             = Ok (bytes, (s', c + 8 * N.of_nat (length bytes))) /\
             UInv s' /\ ur_index s' = ur_index s + 8 * N.of_nat (length bytes) /\
             ws_words (ur_src s') = ws_words (ur_src s).
Proof.
  intros HI HF Hb Hstream.
  destruct (io_read_umachine E bytes s post HI HF Hb Hstream) as (s' & Hs' & HI' & Hidx & Hw).
  exists s'. split; [exact Hs' |]. split; [| split; [exact HI' | split; assumption]].
  destruct (counted_of_plain_u E _ s c _ s' Hs') as [Hc _]. rewrite Hc.
  replace (ur_index s' - ur_index s) with (8 * N.of_nat (length bytes)) by lia. reflexivity.
Qed.

(* ================================================================== sequences through the wrappers *)
(* the driver loops of EndToEnd.v, generic in the primitives (so that they run through the wrappers) *)
Section Seq.
  Context {S : Type}.
  Variable E : endian.
  Variable D : params.

  Fixpoint write_seq (Q : wprims S) (checks : bool) (items : list item) (s : S) : outcome (N * S) :=
    match items with
    | [] => Ok (0, s)
    | it :: r =>
        obind (wrun Q (sel_write E D checks (it_id it) (it_p it) (it_flw it) (it_v it)) s)
          (fun '(n, s1) => obind (write_seq Q checks r s1) (fun '(m, s2) => Ok (n + m, s2)))
    end.

  Fixpoint read_seq (P : rprims S) (items : list item) (s : S) : outcome (list N * S) :=
    match items with
    | [] => Ok ([], s)
    | it :: r =>
        obind (rrun P (sel_read E D (it_id it) (it_p it) (it_flr it)) s) (fun '(v, s1) =>
        obind (read_seq P r s1) (fun '(l, s2) => Ok (v :: l, s2)))
    end.
End Seq.

(* without the wrapper write_seq is EndToEnd.write_items *)
Lemma write_seq_plain E W D checks items : forall s,
  write_seq E D (bwprims E W checks) checks items s = EndToEnd.write_items E W D checks items s.
Proof.
  induction items as [| it r IH]; intros s; cbn [write_seq write_items]; [reflexivity |].
  destruct (wrun (bwprims E W checks) _ s) as [[n s1] | | | ]; cbn [obind]; try reflexivity.
  rewrite IH. reflexivity.
Qed.

(* the sum of the codeword lengths *)
Definition sum_len (E : endian) (items : list item) : N :=
  fold_right (fun it acc => LEN (item_cw E it) + acc) 0 items.
Lemma LEN_stream E items : LEN (stream E items) = sum_len E items.
Proof.
  induction items as [| it r IH]; [reflexivity |].
  rewrite stream_cons, LEN_app'. cbn [sum_len fold_right]. fold (sum_len E r). rewrite IH. reflexivity.
Qed.

(* any valid items written one after another through the counting wrapper over a writer of any
   width, either build, any flags: unless the sink fills up, the total returned, the counter increase,
   the sum of the codeword lengths and the number of bits appended to the abstract stream are all
   equal, and the machine state is the one reached without the wrapper *)
Theorem count_write_seq_machine E W D checks items : forall b s c,
  wrel E W b s -> Forall item_valid items ->
  (exists s', write_seq E D (count_wprims (bwprims E W checks)) checks items (s, c)
              = Ok (sum_len E items, (s', c + sum_len E items)) /\
              write_seq E D (bwprims E W checks) checks items s = Ok (sum_len E items, s') /\
              WInv W s' /\ wabs E W s' = b ++ stream E items /\
              LEN (wabs E W s') = LEN b + sum_len E items)
  \/ (write_seq E D (count_wprims (bwprims E W checks)) checks items (s, c) = Err /\
      write_seq E D (bwprims E W checks) checks items s = Err).
Proof.
  induction items as [| it r IH]; intros b s c HR Hv.
  - left. exists s. destruct HR as [HI HA]. cbn [write_seq sum_len fold_right stream flat_map].
    rewrite app_nil_r, !N.add_0_r. subst b.
    split; [reflexivity |]. split; [reflexivity |]. split; [exact HI |]. split; reflexivity.
  - inversion Hv as [| ? ? Hit Hr]; subst. cbn [write_seq].
    destruct (count_code_write_machine E W D checks (it_id it) (it_p it) (it_flw it) (it_v it) b s c HR Hit)
      as [(s1 & Hp1 & Hc1 & HI1 & HA1) | [Hp1 Hc1]].
    + rewrite Hp1, Hc1. cbn [obind]. fold (item_cw E it) in *.
      destruct (IH (b ++ item_cw E it) s1 (c + LEN (item_cw E it)) (conj HI1 HA1) Hr)
        as [(s2 & Hc2 & Hp2 & HI2 & HA2 & HL2) | [Hc2 Hp2]].
      * left. exists s2. rewrite Hc2, Hp2. cbn [obind sum_len fold_right]. fold (sum_len E r).
        rewrite N.add_assoc. split; [reflexivity |]. split; [reflexivity |]. split; [exact HI2 |].
        rewrite stream_cons, app_assoc. split; [exact HA2 |]. rewrite HL2, LEN_app'. lia.
      * right. rewrite Hc2, Hp2. cbn [obind]. split; reflexivity.
    + right. rewrite Hp1, Hc1. cbn [obind]. split; reflexivity.
Qed.

(* over an unbounded sink the first alternative always holds *)
Theorem count_write_seq_machine_unbounded E W D checks items b s c :
  wrel E W b s -> wk_cap (bw_sink s) = None -> Forall item_valid items ->
  exists s', write_seq E D (count_wprims (bwprims E W checks)) checks items (s, c)
             = Ok (sum_len E items, (s', c + sum_len E items)) /\
             write_seq E D (bwprims E W checks) checks items s = Ok (sum_len E items, s') /\
             WInv W s' /\ wabs E W s' = b ++ stream E items /\
             LEN (wabs E W s') = LEN b + sum_len E items.
Proof.
  intros HR Hc Hv.
  destruct (count_write_seq_machine E W D checks items b s c HR Hv) as [H | [_ He]]; [exact H |].
  rewrite write_seq_plain in He.
  destruct (EndToEnd.write_items_from E W D checks items b s HR Hc Hv) as (s' & Hs' & _).
  rewrite Hs' in He. discriminate.
Qed.

(* the same items read back one after another through the counting wrapper over a buffered reader of
   any width serving the tables: the values come back and bits_read grows by the same sum *)
Theorem count_read_seq_machine E W D items : forall s pos post c,
  RInv E W s pos -> W * N.of_nat (length (ws_words (br_src s))) <= 2 ^ 64 -> maxcap <= W ->
  Forall item_valid items ->
  skipn (N.to_nat pos) (src_bits E W (br_src s)) = stream E items ++ post ->
  exists s', read_seq E D (count_rprims (brprims E W)) items (s, c)
             = Ok (map it_v items, (s', c + sum_len E items)) /\
             read_seq E D (brprims E W) items s = Ok (map it_v items, s') /\
             RInv E W s' (pos + sum_len E items) /\
             ws_words (br_src s') = ws_words (br_src s) /\ ws_strict (br_src s') = ws_strict (br_src s).
Proof.
  induction items as [| it r IH]; intros s pos post c HI Hlen Hcap Hv Hstream.
  - exists s. cbn [read_seq map sum_len fold_right]. rewrite !N.add_0_r. auto.
  - inversion Hv as [| ? ? Hit Hr]; subst.
    rewrite stream_cons, <- app_assoc in Hstream.
    destruct (count_code_read_machine E W D (it_id it) (it_p it) (it_flr it) (it_v it) s pos (stream E r ++ post) c
                HI Hlen Hcap Hit Hstream) as (s1 & Hp1 & Hc1 & HI1 & Hw1 & Hst1).
    fold (item_cw E it) in *.
    assert (Hsrc : src_bits E W (br_src s1) = src_bits E W (br_src s)) by (unfold src_bits; rewrite Hw1; reflexivity).
    destruct (IH s1 (pos + LEN (item_cw E it)) post (c + LEN (item_cw E it)) HI1) as (s2 & Hc2 & Hp2 & HI2 & Hw2 & Hst2).
    + rewrite Hw1. exact Hlen.
    + exact Hcap.
    + exact Hr.
    + rewrite Hsrc. apply EndToEnd.skipn_next. exact Hstream.
    + exists s2. cbn [read_seq]. rewrite Hp1, Hc1. cbn [obind]. rewrite Hp2, Hc2. cbn [obind map sum_len fold_right].
      fold (sum_len E r). rewrite !N.add_assoc. split; [reflexivity |]. split; [reflexivity |].
      split; [exact HI2 |]. split; congruence.
Qed.

(* ================================================================== examples *)
(* LE, W = 16: a writer with 5 pending bits 1,0,1,0,1 (LE keeps them in bits [space, W)), an
   unbounded sink; the slice [200; 7; 129] written through io::Write, flushed, and read back through
   io::Read by a 16-bit buffered reader positioned at bit 5 *)
Definition exv_w : bwriter :=
  {| bw_sink := {| wk_words := []; wk_cap := None |}; bw_buffer := 21 * 2 ^ 11; bw_space := 11 |}.
Definition exv_pre : bits := [true; false; true; false; true].
Definition exv_buf : list N := [200; 7; 129].

Example exv_wordsize : wordsize_ok 16.
Proof. split; [lia | reflexivity]. Qed.

Example exv_wrel : wrel LE 16 exv_pre exv_w.
Proof.
  split; [| vm_compute; reflexivity]. unfold WInv, exv_w. cbn [bw_sink bw_buffer bw_space wk_words].
  split; [exact exv_wordsize |]. split; [lia |]. split; [lia |]. split; [vm_compute; reflexivity | constructor].
Qed.
Example exv_buf_ok : Forall (fun x => x < 256) exv_buf.
Proof. unfold exv_buf. repeat constructor. Qed.

(* the concrete run: Ok, one word delivered, 13 bits pending; the abstraction is pre ++ bytes *)
Example exv_write :
  match wrun (bwprims LE 16 true) (io_write LE exv_buf) exv_w with
  | Ok (r, s') => r = 3 /\ wk_words (bw_sink s') = [63765] /\ bw_space s' = 3 /\
                  wabs LE 16 s' = exv_pre ++ bits_of_bytes LE exv_buf
  | _ => False
  end.
Proof. vm_compute. repeat split. Qed.

(* through the counting wrapper: 24 more bits *)
Example exv_write_counted :
  omap (fun x => (fst x, snd (snd x))) (wrun (count_wprims (bwprims LE 16 true)) (io_write LE exv_buf) (exv_w, 100))
  = Ok (3, 124).
Proof. vm_compute. reflexivity. Qed.

(* the words delivered after a flush *)
Definition exv_words : list N :=
  match wrun (bwprims LE 16 true) (io_write LE exv_buf) exv_w with
  | Ok (_, s') => match bw_flush LE 16 s' with Ok (_, s2) => wk_words (bw_sink s2) | _ => [] end
  | _ => []
  end.
Example exv_words_val : exv_words = [63765; 4128].
Proof. vm_compute. reflexivity. Qed.

(* a strict 16-bit reader over those words, moved to bit 5 by read_bits(5) *)
Definition exv_r : breader :=
  match br_read_bits LE 16 5 (br_new exv_words true) with Ok (_, s) => s | _ => br_new exv_words true end.

Example exv_RInv : RInv LE 16 exv_r 5.
Proof.
  assert (H0 : RInv LE 16 (br_new exv_words true) 0).
  { apply ReaderProofs.new_inv; [exact exv_wordsize | lia | rewrite exv_words_val; repeat constructor; lia]. }
  destruct (ReaderProofs.read_bits_value LE 16 _ 0 5 H0 ltac:(lia)) as (s' & He & HI & _).
  { intros _. rewrite exv_words_val. vm_compute. discriminate. }
  unfold exv_r. rewrite He. exact HI.
Qed.
Example exv_len : 16 * N.of_nat (length (ws_words (br_src exv_r))) <= 2 ^ 64.
Proof. vm_compute. discriminate. Qed.
Example exv_stream :
  skipn (N.to_nat 5) (src_bits LE 16 (br_src exv_r)) = bits_of_bytes LE exv_buf ++ [false; false; false].
Proof. vm_compute. reflexivity. Qed.

Example exv_read :
  omap fst (rrun (brprims LE 16) (io_read LE 3) exv_r) = Ok exv_buf.
Proof. vm_compute. reflexivity. Qed.
Example exv_read_counted :
  omap (fun x => (fst x, snd (snd x))) (rrun (count_rprims (brprims LE 16)) (io_read LE 3) (exv_r, 100))
  = Ok (exv_buf, 124).
Proof. vm_compute. reflexivity. Qed.
(* one more byte than the strict source holds from bit 5 (27 bits left): Err *)
Example exv_short_hyp : 16 * N.of_nat (length (ws_words (br_src exv_r))) < 5 + 8 * 4.
Proof. vm_compute. reflexivity. Qed.
Example exv_short : rrun (brprims LE 16) (io_read LE 4) exv_r = Err.
Proof. vm_compute. reflexivity. Qed.

(* BE, W = 32, the same slice after the same 5 bits (BE keeps them in the low bits of the buffer) *)
Example exv_write_be :
  match wrun (bwprims BE 32 false) (io_write BE exv_buf)
             {| bw_sink := {| wk_words := []; wk_cap := None |}; bw_buffer := 21; bw_space := 27 |} with
  | Ok (r, s') => r = 3 /\ wabs BE 32 s' = exv_pre ++ bits_of_bytes BE exv_buf
  | _ => False
  end.
Proof. vm_compute. repeat split. Qed.

(* a sequence through the wrappers: gamma 5, zeta3 1000, unary 3, delta 77 *)
Definition exv_items : list item :=
  [mk_item 1 0 0 0 5; mk_item 6 3 0 0 1000; mk_item 0 0 0 0 3; mk_item 2 0 1 3 77].
Example exv_items_valid : Forall item_valid exv_items.
Proof. repeat constructor; unfold item_valid, valid, U64MAX, W64; cbn [it_id it_p it_v mk_item]; lia. Qed.
Example exv_seq_count :
  omap (fun x => (fst x, snd (snd x)))
       (write_seq LE buf_params (count_wprims (bwprims LE 16 false)) false exv_items (exv_w, 0))
  = Ok (sum_len LE exv_items, sum_len LE exv_items).
Proof. vm_compute. reflexivity. Qed.

(* the theorems applied to the instances above (their hypotheses are the examples just proved) *)
Example exv_apply_write :
  exists s', wrun (bwprims LE 16 true) (io_write LE exv_buf) exv_w = Ok (3, s') /\
             WInv 16 s' /\ wabs LE 16 s' = exv_pre ++ bits_of_bytes LE exv_buf /\ wk_cap (bw_sink s') = None.
Proof. exact (io_write_machine_unbounded LE 16 true exv_buf exv_pre exv_w exv_wrel exv_buf_ok eq_refl). Qed.
Example exv_apply_read :
  exists s', rrun (brprims LE 16) (io_read LE 3) exv_r = Ok (exv_buf, s') /\ RInv LE 16 s' (5 + 8 * 3) /\
             ws_words (br_src s') = ws_words (br_src exv_r) /\ ws_strict (br_src s') = ws_strict (br_src exv_r).
Proof. exact (io_read_machine LE 16 exv_buf exv_r 5 _ exv_RInv exv_len exv_buf_ok exv_stream). Qed.
Example exv_apply_short : rrun (brprims LE 16) (io_read LE 4) exv_r = Err.
Proof. exact (io_read_strict_short_machine LE 16 exv_r 5 4 exv_RInv exv_len eq_refl exv_short_hyp). Qed.

(* the unbuffered reader over one u64 word holding the same 29 bits, index 5 *)
Definition exv_u : ureader :=
  {| ur_src := {| ws_words := [21 + 200 * 2 ^ 5 + 7 * 2 ^ 13 + 129 * 2 ^ 21]; ws_idx := 0; ws_strict := true |};
     ur_index := 5 |}.
Example exv_UInv : UInv exv_u.
Proof. split; [repeat constructor | vm_compute; reflexivity]. Qed.
Example exv_u_stream :
  skipn (N.to_nat (ur_index exv_u)) (src_bits LE 64 (ur_src exv_u)) = bits_of_bytes LE exv_buf ++ zeros 35.
Proof. vm_compute. reflexivity. Qed.
Example exv_apply_uread :
  exists s', rrun (urprims LE) (io_read LE 3) exv_u = Ok (exv_buf, s') /\
             rrun (count_rprims (urprims LE)) (io_read LE 3) (exv_u, 100) = Ok (exv_buf, (s', 100 + 8 * 3)) /\
             UInv s' /\ ur_index s' = 5 + 8 * 3 /\ ws_words (ur_src s') = ws_words (ur_src exv_u).
Proof.
  exact (count_io_read_umachine LE exv_buf exv_u _ 100 exv_UInv exv_buf_ok ltac:(vm_compute; reflexivity) exv_u_stream).
Qed.
Example exv_apply_ushort : rrun (urprims LE) (io_read LE 8) exv_u = Err.
Proof.
  apply io_read_strict_short_umachine; [exact exv_UInv | reflexivity | lia | vm_compute; reflexivity | vm_compute; reflexivity].
Qed.
(* why 0 < n is needed there: index beyond the end of a strict source, zero-length read *)
Example exv_ushort_zero :
  let s := {| ur_src := ur_src exv_u; ur_index := 100 |} in
  UInv s /\ 64 * N.of_nat (length (ws_words (ur_src s))) < ur_index s + 8 * 0 /\
  rrun (urprims LE) (io_read LE 0) s = Ok ([], s).
Proof. split; [split; [repeat constructor | vm_compute; reflexivity] |]. split; vm_compute; reflexivity. Qed.

(* the sequence theorems applied *)
Example exv_apply_seq :
  exists s', write_seq LE buf_params (count_wprims (bwprims LE 16 false)) false exv_items (exv_w, 0)
             = Ok (sum_len LE exv_items, (s', 0 + sum_len LE exv_items)) /\
             write_seq LE buf_params (bwprims LE 16 false) false exv_items exv_w = Ok (sum_len LE exv_items, s') /\
             WInv 16 s' /\ wabs LE 16 s' = exv_pre ++ stream LE exv_items /\
             LEN (wabs LE 16 s') = LEN exv_pre + sum_len LE exv_items.
Proof.
  exact (count_write_seq_machine_unbounded LE 16 buf_params false exv_items exv_pre exv_w 0 exv_wrel eq_refl exv_items_valid).
Qed.

(* ... and read back by a zero-extended 16-bit reader through the counting wrapper *)
Definition exv_seq_words : list N :=
  match write_seq LE buf_params (bwprims LE 16 false) false exv_items (bw_new None 16) with
  | Ok (_, s) => match bw_flush LE 16 s with Ok (_, s2) => wk_words (bw_sink s2) | _ => [] end
  | _ => []
  end.
Definition exv_seq_post : bits :=
  skipn (length (stream LE exv_items)) (src_bits LE 16 (br_src (br_new exv_seq_words false))).
Example exv_seq_stream :
  skipn (N.to_nat 0) (src_bits LE 16 (br_src (br_new exv_seq_words false))) = stream LE exv_items ++ exv_seq_post.
Proof. vm_compute. reflexivity. Qed.
Example exv_apply_read_seq :
  exists s', read_seq LE buf_params (count_rprims (brprims LE 16)) exv_items (br_new exv_seq_words false, 7)
             = Ok ([5; 1000; 3; 77], (s', 7 + sum_len LE exv_items)) /\
             read_seq LE buf_params (brprims LE 16) exv_items (br_new exv_seq_words false) = Ok ([5; 1000; 3; 77], s') /\
             RInv LE 16 s' (0 + sum_len LE exv_items) /\
             ws_words (br_src s') = exv_seq_words /\ ws_strict (br_src s') = false.
Proof.
  apply (count_read_seq_machine LE 16 buf_params exv_items (br_new exv_seq_words false) 0 exv_seq_post 7).
  - apply ReaderProofs.new_inv; [exact exv_wordsize | lia |].
    assert (H : forallb (fun w => w <? 2 ^ 16) exv_seq_words = true) by (vm_compute; reflexivity).
    rewrite forallb_forall in H. apply Forall_forall. intros w Hw. specialize (H w Hw). lia.
  - vm_compute. discriminate.
  - rewrite EndToEnd.maxcap_val. lia.
  - exact exv_items_valid.
  - exact exv_seq_stream.
Qed.
