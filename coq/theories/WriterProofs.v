(* WriterProofs.v — the word-level buffered bit writer (Writer.v) refines the bit-list
   specification writer (Prog.v), for every word width W with wordsize_ok W
   (property C01), plus the `checks` assertion of write_bits (C19). *)
From Coq Require Import ZifyBool ZifyNat ZifyN.
From DSI Require Import Base Words Prog Writer Abs BitsLemmas.
Ltac Zify.zify_post_hook ::= Z.div_mod_to_equations.

(* ------------------------------------------------------------------ *)
(** * Word operations *)

Lemma W64_pow : W64 = 2 ^ 64.
Proof. reflexivity. Qed.

Lemma wshl_some W x n : n < W -> wshl W x n = Some ((x * 2 ^ n) mod 2 ^ W).
Proof. intros H. unfold wshl. destruct (N.ltb_spec n W); [reflexivity | lia]. Qed.

Lemma wshr_some W x n : n < W -> wshr W x n = Some (x / 2 ^ n).
Proof. intros H. unfold wshr. destruct (N.ltb_spec n W); [reflexivity | lia]. Qed.

Lemma shl64_some x n : n < 64 -> shl64 x n = Some ((x * 2 ^ n) mod 2 ^ 64).
Proof. intros H. unfold shl64. destruct (N.ltb_spec n 64); [reflexivity | lia]. Qed.

Lemma shr64_some x n : n < 64 -> shr64 x n = Some (x / 2 ^ n).
Proof. intros H. unfold shr64. destruct (N.ltb_spec n 64); [reflexivity | lia]. Qed.

Lemma mod_pow2_lt x W : x mod 2 ^ W < 2 ^ W.
Proof. apply N.mod_lt. apply N.pow_nonzero. discriminate. Qed.

Lemma land_lt_pow2 a b n : a < 2 ^ n -> N.land a b < 2 ^ n.
Proof.
  intros Ha. apply lt_pow2_bits. intros i Hi.
  rewrite N.land_spec, (testbit_high a n i) by assumption. reflexivity.
Qed.

Lemma div_le_lt a b c : a < c -> a / b < c.
Proof.
  intros H. destruct (N.eq_dec b 0) as [-> | Hb].
  - destruct a; cbn; lia.
  - apply N.le_lt_trans with a; [| assumption]. apply N.div_le_upper_bound; [assumption |]. nia.
Qed.

(* !(MAX << n) is the mask of the n low bits *)
Lemma wnot_mask W n : n <= W -> wnot W ((wmax W * 2 ^ n) mod 2 ^ W) = N.ones n.
Proof.
  intros H. unfold wnot, wmax. rewrite <- pow2_sub1_ones.
  pose proof (pow2_le_mono n W H) as Hle. pose proof (pow2_pos n) as Hn.
  assert (E : ((2 ^ W - 1) * 2 ^ n) mod 2 ^ W = 2 ^ W - 2 ^ n).
  { symmetry. apply N.mod_unique with (q := 2 ^ n - 1); [lia |].
    generalize dependent (2 ^ W). generalize dependent (2 ^ n). intros. nia. }
  rewrite E. lia.
Qed.

(* (x << (k-1)) << 1 as one shift by k *)
Lemma shl_shl1 x k W : 0 < k ->
  (((x * 2 ^ (k - 1)) mod 2 ^ W) * 2 ^ 1) mod 2 ^ W = (x * 2 ^ k) mod 2 ^ W.
Proof. intros Hk. apply N.bits_inj. intro i. tb. Qed.

Lemma shr_shr1 x k : 0 < k -> x / 2 ^ (k - 1) / 2 ^ 1 = x / 2 ^ k.
Proof. intros Hk. apply N.bits_inj. intro i. tb. Qed.

(* (value << (64 - n)) >> (64 - sp): bits [n - sp, n) of value *)
Lemma testbit_be_top v n sp i : 0 < sp -> sp <= n -> n <= 64 ->
  N.testbit (((v * 2 ^ (64 - n)) mod 2 ^ 64) / 2 ^ (64 - sp)) i =
  (i <? sp) && N.testbit v (i + (n - sp)).
Proof. intros. tb. Qed.

Lemma be_top_lt v n sp W : 0 < sp -> sp <= n -> n <= 64 -> sp <= W ->
  ((v * 2 ^ (64 - n)) mod 2 ^ 64) / 2 ^ (64 - sp) < 2 ^ W.
Proof.
  intros. apply lt_pow2_bits. intros i Hi. rewrite testbit_be_top by assumption.
  destruct (N.ltb_spec i sp); [lia | reflexivity].
Qed.

Lemma wrotr_lt W x n : 0 < W -> x < 2 ^ W -> wrotr W x n < 2 ^ W.
Proof.
  intros HW Hx. unfold wrotr. apply lor_lt_pow2; [apply div_le_lt; assumption | apply mod_pow2_lt].
Qed.

Lemma top_one_lt W : 0 < W -> top_one W < 2 ^ W.
Proof. intros. unfold top_one. apply pow2_lt_mono. lia. Qed.

(* ------------------------------------------------------------------ *)
(** * Words as bit lists *)

Lemma bits_of_words_app E W l1 l2 :
  bits_of_words E W (l1 ++ l2) = bits_of_words E W l1 ++ bits_of_words E W l2.
Proof. apply flat_map_app. Qed.

Lemma bits_of_words_cons E W w l :
  bits_of_words E W (w :: l) = field E w (N.to_nat W) ++ bits_of_words E W l.
Proof. reflexivity. Qed.

Lemma bits_of_words_nil E W : bits_of_words E W [] = [].
Proof. reflexivity. Qed.

Lemma bits_of_words_zeros E W k :
  bits_of_words E W (repeat 0 k) = zeros (k * N.to_nat W).
Proof.
  induction k as [| k IH]; [reflexivity |].
  cbn [repeat]. rewrite bits_of_words_cons, IH. cbn [Nat.mul]. rewrite zeros_app. f_equal. apply field_0.
Qed.

Lemma length_bits_of_words E W ws : length (bits_of_words E W ws) = (length ws * N.to_nat W)%nat.
Proof.
  induction ws as [| w ws IH]; [reflexivity |].
  rewrite bits_of_words_cons, app_length, IH, length_field. reflexivity.
Qed.

Lemma le_bytes_bits k x :
  flat_map (fun b => field_le b 8) (le_bytes k x) = field_le x (8 * k).
Proof.
  revert x. induction k as [| k IH]; intro x; [reflexivity |].
  cbn [le_bytes flat_map]. rewrite IH. replace (8 * S k)%nat with (8 + 8 * k)%nat by lia.
  rewrite field_le_app. change (2 ^ N.of_nat 8) with 256. f_equal.
  change 256 with (2 ^ 8). apply field_le_mod. reflexivity.
Qed.

Lemma le_bytes_lt k x : Forall (fun b => b < 256) (le_bytes k x).
Proof.
  revert x. induction k as [| k IH]; intro x; constructor; [| apply IH].
  apply N.mod_lt. discriminate.
Qed.

Lemma word_bytes_lt E W x : Forall (fun b => b < 256) (word_bytes E W x).
Proof.
  unfold word_bytes. destruct E; [| apply le_bytes_lt].
  apply Forall_rev. apply le_bytes_lt.
Qed.

(* the bytes of a word, read as bits, are the bits of the word (no bound on w needed) *)
Lemma word_layout E W w : wordsize_ok W ->
  bits_of_bytes E (word_bytes E W w) = bits_of_word E W w.
Proof.
  intros [H8 Hm]. unfold bits_of_bytes, word_bytes, bits_of_word, bits_of_byte.
  assert (Hk : (8 * N.to_nat (W / 8))%nat = N.to_nat W) by lia.
  destruct E; cbn [field].
  - unfold field_be at 1.
    rewrite (flat_map_rev (fun b => field_le b 8)), le_bytes_bits, Hk. reflexivity.
  - rewrite le_bytes_bits, Hk. reflexivity.
Qed.

Lemma C01_word_layout E W w : wordsize_ok W -> w < 2 ^ W ->
  bits_of_bytes E (word_bytes E W w) = bits_of_word E W w.
Proof. intros H _. apply word_layout. assumption. Qed.

Lemma C01_layout_be bytes i :
  (i < 8 * length bytes)%nat -> Forall (fun b => b < 256) bytes ->
  nth i (bits_of_bytes BE bytes) false = N.testbit (nth (i / 8) bytes 0) (N.of_nat (7 - i mod 8)).
Proof. intros H _. apply nth_bits_of_bytes_be. assumption. Qed.

Lemma C01_layout_le bytes i :
  (i < 8 * length bytes)%nat -> Forall (fun b => b < 256) bytes ->
  nth i (bits_of_bytes LE bytes) false = N.testbit (nth (i / 8) bytes 0) (N.of_nat (i mod 8)).
Proof. intros H _. apply nth_bits_of_bytes_le. assumption. Qed.

Lemma bytes_abs E W ws : wordsize_ok W ->
  bits_of_bytes E (flat_map (word_bytes E W) ws) = bits_of_words E W ws.
Proof.
  intros HW. unfold bits_of_bytes. rewrite flat_map_flat_map. apply flat_map_ext.
  intro w. apply (word_layout E W w HW).
Qed.

Lemma C01_bytes_abs E W s : WInv W s ->
  bits_of_bytes E (bw_bytes E W s) = bits_of_words E W (wk_words (bw_sink s)).
Proof. intros [HW _]. apply bytes_abs. assumption. Qed.

Lemma bw_bytes_lt E W s : Forall (fun b => b < 256) (bw_bytes E W s).
Proof.
  unfold bw_bytes. induction (wk_words (bw_sink s)) as [| w ws IH]; [constructor |].
  cbn [flat_map]. apply Forall_app. split; [apply word_bytes_lt | exact IH].
Qed.

(* ------------------------------------------------------------------ *)
(** * One machine step: the common shape of all results *)

Definition pend (E : endian) (W buf sp : N) : bits :=
  match E with
  | BE => field_be buf (N.to_nat (W - sp))
  | LE => field_le (buf / 2 ^ sp) (N.to_nat (W - sp))
  end.

Lemma pending_pend E W s : pending E W s = pend E W (bw_buffer s) (bw_space s).
Proof. reflexivity. Qed.

Lemma pend_full E W buf : pend E W buf W = [].
Proof. unfold pend. rewrite N.sub_diag. destruct E; reflexivity. Qed.

(* the machine either reports a full (bounded) sink, or returns r and a state that
   satisfies the invariant, stands for the old bits followed by nb, and has only appended
   to the delivered words *)
Definition wstep_ok (E : endian) (W : N) (s : bwriter) (r : N) (nb : bits)
           (o : outcome (N * bwriter)) : Prop :=
  (o = Err /\ wk_cap (bw_sink s) <> None) \/
  exists s', o = Ok (r, s') /\ WInv W s' /\ wabs E W s' = wabs E W s ++ nb /\
             wk_cap (bw_sink s') = wk_cap (bw_sink s) /\
             exists ws, wk_words (bw_sink s') = wk_words (bw_sink s) ++ ws.

Lemma wstep_commit E W s r nb ws buf' sp' :
  WInv W s -> Forall (fun w => w < 2 ^ W) ws -> 0 < sp' -> sp' <= W -> buf' < 2 ^ W ->
  bits_of_words E W ws ++ pend E W buf' sp' = pending E W s ++ nb ->
  wstep_ok E W s r nb
    (obind (sink_write (bw_sink s) ws)
           (fun k => Ok (r, {| bw_sink := k; bw_buffer := buf'; bw_space := sp' |}))).
Proof.
  intros (HW & H0 & H1 & H2 & H3) Hws Hs0 Hs1 Hb Hbits.
  assert (G : forall k, wk_words k = wk_words (bw_sink s) ++ ws -> wk_cap k = wk_cap (bw_sink s) ->
     wstep_ok E W s r nb (Ok (r, {| bw_sink := k; bw_buffer := buf'; bw_space := sp' |}))).
  { intros k Hk Hc. right. eexists. split; [reflexivity |]. split; [| split; [| split]].
    - unfold WInv. cbn [bw_sink bw_buffer bw_space]. rewrite Hk.
      repeat split; try assumption; try apply HW. apply Forall_app. split; assumption.
    - unfold wabs. rewrite pending_pend. cbn [bw_sink bw_buffer bw_space].
      rewrite Hk, bits_of_words_app, <- !app_assoc. f_equal. exact Hbits.
    - exact Hc.
    - exists ws. exact Hk. }
  unfold sink_write. destruct (wk_cap (bw_sink s)) as [c |] eqn:Hc.
  - destruct (N.of_nat (length (wk_words (bw_sink s)) + length ws) <=? c); cbn [obind].
    + apply G; cbn [wk_words wk_cap]; [reflexivity | congruence].
    + left. split; [reflexivity | congruence].
  - cbn [obind]. apply G; cbn [wk_words wk_cap]; [reflexivity | congruence].
Qed.

Lemma wstep_keep E W s r nb buf' sp' :
  WInv W s -> 0 < sp' -> sp' <= W -> buf' < 2 ^ W ->
  pend E W buf' sp' = pending E W s ++ nb ->
  wstep_ok E W s r nb (Ok (r, {| bw_sink := bw_sink s; bw_buffer := buf'; bw_space := sp' |})).
Proof.
  intros (HW & H0 & H1 & H2 & H3) Hs0 Hs1 Hb Hbits.
  right. eexists. split; [reflexivity |]. split; [| split; [| split]].
  - unfold WInv. cbn [bw_sink bw_buffer bw_space]. repeat split; try assumption; apply HW.
  - unfold wabs. rewrite (pending_pend E W {| bw_sink := _ |}). cbn [bw_sink bw_buffer bw_space].
    rewrite <- app_assoc. f_equal. exact Hbits.
  - reflexivity.
  - exists []. cbn [bw_sink]. rewrite app_nil_r. reflexivity.
Qed.

(* consequences of wstep_ok *)
Lemma wstep_wosim E W s r nb b o :
  wstep_ok E W s r nb o -> wabs E W s = b -> wosim E W (Ok (r, b ++ nb)) o.
Proof.
  intros [[-> _] | (s' & -> & HI & HA & _)] Hb; cbn [wosim]; [right; reflexivity |].
  left. exists s'. subst b. auto.
Qed.

Lemma wstep_unbounded E W s r nb o :
  wstep_ok E W s r nb o -> wk_cap (bw_sink s) = None ->
  exists s', o = Ok (r, s') /\ WInv W s' /\ wabs E W s' = wabs E W s ++ nb /\
             wk_cap (bw_sink s') = None.
Proof.
  intros [[_ Hc] | (s' & -> & HI & HA & Hc & _)] Hn; [contradiction |].
  exists s'. rewrite Hc. auto.
Qed.

Lemma wstep_prefix E W s r nb o x s' :
  wstep_ok E W s r nb o -> o = Ok (x, s') ->
  exists ws, wk_words (bw_sink s') = wk_words (bw_sink s) ++ ws.
Proof.
  intros [[-> _] | (s1 & -> & _ & _ & _ & Hp)] Ho; [discriminate |].
  injection Ho as _ <-. exact Hp.
Qed.

Lemma wstep_not_fail E W s r nb o : wstep_ok E W s r nb o -> o <> Fail.
Proof. intros [[-> _] | (s1 & -> & _)]; discriminate. Qed.

(* ------------------------------------------------------------------ *)
(** * write_bits *)

Lemma cnt_mul_le a W : 0 < W -> N.of_nat (N.to_nat (a / W)) * W <= a.
Proof.
  intros HW. rewrite N2Nat.id, N.mul_comm. apply N.mul_div_le. lia.
Qed.

Lemma sub_cnt_mul a W : 0 < W -> a - N.of_nat (N.to_nat (a / W)) * W = a mod W.
Proof.
  intros HW. rewrite N2Nat.id, N.mul_comm, N.mod_eq by lia. reflexivity.
Qed.

Lemma be_mid_words_spec W cnt v tw0 :
  N.of_nat cnt * W <= tw0 ->
  forall ws r, be_mid_words W cnt v tw0 = (ws, r) ->
  r = tw0 - N.of_nat cnt * W /\ Forall (fun w => w < 2 ^ W) ws /\
  bits_of_words BE W ws ++ field_be v (N.to_nat r) = field_be v (N.to_nat tw0).
Proof.
  revert tw0. induction cnt as [| c IH]; intros tw0 Hle ws r Heq.
  - cbn [be_mid_words] in Heq. injection Heq as <- <-.
    split; [lia |]. split; [constructor | reflexivity].
  - cbn [be_mid_words] in Heq.
    destruct (be_mid_words W c v (tw0 - W)) as [ws' r'] eqn:Hrec.
    injection Heq as <- <-.
    destruct (IH (tw0 - W) ltac:(lia) ws' r' Hrec) as (Hr & Hf & Hb).
    split; [lia |]. split.
    + constructor; [apply mod_pow2_lt | assumption].
    + rewrite bits_of_words_cons, <- app_assoc, Hb. cbn [field]. symmetry.
      apply field_be_split; [lia | reflexivity |].
      intros i Hi. unfold wcast. tb.
Qed.

Lemma le_mid_words_spec W cnt v :
  (cnt = 0%nat \/ W < 64) ->
  exists ws, le_mid_words W cnt v = Some (ws, v / 2 ^ (N.of_nat cnt * W)) /\
             Forall (fun w => w < 2 ^ W) ws /\
             forall k, bits_of_words LE W ws ++ field_le (v / 2 ^ (N.of_nat cnt * W)) (N.to_nat k) =
                       field_le v (N.to_nat (N.of_nat cnt * W + k)).
Proof.
  intros HW. revert v. induction cnt as [| c IH]; intro v.
  - exists []. cbn [le_mid_words]. change (N.of_nat 0 * W) with 0.
    rewrite N.pow_0_r, N.div_1_r. split; [reflexivity |]. split; [constructor |].
    intro k. reflexivity.
  - destruct HW as [HW | HW]; [discriminate |].
    destruct (IH (or_intror HW) (v / 2 ^ W)) as (ws & Hrec & Hf & Hb).
    exists (wcast W v :: ws). cbn [le_mid_words]. rewrite shr64_some, Hrec by assumption.
    assert (Hd : v / 2 ^ W / 2 ^ (N.of_nat c * W) = v / 2 ^ (N.of_nat (S c) * W)).
    { rewrite N.div_div by (apply N.pow_nonzero; discriminate).
      rewrite <- N.pow_add_r. f_equal. f_equal. lia. }
    rewrite Hd in *. split; [reflexivity |]. split.
    + constructor; [apply mod_pow2_lt | assumption].
    + intro k. rewrite bits_of_words_cons, <- app_assoc, Hb. cbn [field]. symmetry.
      apply field_le_split; [lia | |].
      * intros i Hi. unfold wcast. tb.
      * intros i Hi. tb.
Qed.

Lemma write_bits_step E W v n s :
  WInv W s -> n <= 64 ->
  wstep_ok E W s n (field E v (N.to_nat n)) (bw_write_bits E W false v n s).
Proof.
  intros HI Hn. pose proof HI as (HW & H0 & H1 & H2 & H3). destruct HW as [HW8 HWm].
  unfold bw_write_bits.
  destruct (N.ltb_spec 64 n) as [? | _]; [lia |]. cbn [andb].
  destruct (N.eqb_spec (bw_space s) 0) as [? | _]; [lia |].
  set (sp := bw_space s) in *. set (buf := bw_buffer s) in *.
  destruct E.
  - (* BE *)
    destruct (N.ltb_spec n sp) as [Hlt | Hge].
    + (* fast path *)
      rewrite !wshl_some by lia. cbn [oo]. rewrite wnot_mask by lia.
      apply wstep_keep; try assumption; try lia.
      * apply lor_lt_pow2; [apply mod_pow2_lt | apply land_lt_pow2, mod_pow2_lt].
      * rewrite pending_pend. unfold pend. fold sp buf. cbn [field].
        apply field_be_split; [lia | |]; intros i Hi; unfold wcast; tb.
    + (* slow path *)
      rewrite (wshl_some W buf (sp - 1)) by lia. cbn [oo].
      rewrite (wshl_some W _ 1) by lia. cbn [oo].
      rewrite shl_shl1 by assumption.
      rewrite shl64_some by lia. cbn [oo].
      destruct (N.ltb_spec 64 sp) as [? | _]; [lia |].
      rewrite shr64_some by lia. cbn [oo].
      destruct (be_mid_words W (N.to_nat ((n - sp) / W)) v (n - sp)) as [mid tw] eqn:Hmid.
      destruct (be_mid_words_spec W _ v (n - sp) (cnt_mul_le _ W ltac:(lia)) mid tw Hmid) as (Htw & Hf & Hb).
      rewrite sub_cnt_mul in Htw by lia.
      assert (Hvlt := be_top_lt v n sp W H0 Hge Hn H1).
      apply wstep_commit; try assumption; try lia.
      * constructor; [| assumption].
        apply lor_lt_pow2; [apply mod_pow2_lt | apply mod_pow2_lt].
      * apply mod_pow2_lt.
      * rewrite pending_pend. unfold pend. fold sp buf. cbn [field].
        replace (W - (W - tw)) with tw by lia. unfold wcast at 2.
        rewrite field_be_mod by lia.
        rewrite bits_of_words_cons, <- app_assoc, Hb. cbn [field].
        rewrite (field_be_split v (v / 2 ^ (n - sp)) v n sp (n - sp)); [| lia | reflexivity | intros i Hi; tb].
        rewrite app_assoc. f_equal.
        unfold wcast. rewrite (N.mod_small _ _ Hvlt).
        apply field_be_split; [lia | |]; intros i Hi;
          rewrite N.lor_spec, testbit_be_top by assumption; tb.
  - (* LE *)
    destruct (N.ltb_spec n sp) as [Hlt | Hge].
    + (* fast path *)
      rewrite wshr_some, wshl_some by lia. cbn [oo]. rewrite wnot_mask by lia.
      apply wstep_keep; try assumption; try lia.
      * apply lor_lt_pow2; [apply div_le_lt; assumption |].
        apply wrotr_lt; [lia |]. apply land_lt_pow2, mod_pow2_lt.
      * rewrite pending_pend. unfold pend. fold sp buf. cbn [field].
        unfold wrotr, wcast. rewrite (N.mod_small n W) by lia.
        rewrite <- (N.mod_small buf (2 ^ W)) by assumption.
        apply field_le_split; [lia | |]; intros i Hi; tb.
    + (* slow path *)
      rewrite (wshr_some W buf (sp - 1)) by lia. cbn [oo].
      rewrite (wshr_some W _ 1) by lia. cbn [oo].
      rewrite shr_shr1 by assumption.
      rewrite wshl_some by lia. cbn [oo].
      rewrite (shr64_some v (sp - 1)) by lia. cbn [oo].
      rewrite (shr64_some _ 1) by lia. cbn [oo].
      rewrite shr_shr1 by assumption.
      destruct (le_mid_words_spec W (N.to_nat ((n - sp) / W)) (v / 2 ^ sp)) as (mid & Hmid & Hf & Hb).
      { destruct (N.ltb_spec W 64); [right; assumption | left; rewrite N.div_small by lia; reflexivity]. }
      rewrite Hmid. cbn [oo].
      set (cw := N.of_nat (N.to_nat ((n - sp) / W)) * W) in *.
      set (tw := (n - sp) mod W).
      assert (Hcw : n - sp = cw + tw).
      { pose proof (cnt_mul_le (n - sp) W ltac:(lia)). pose proof (sub_cnt_mul (n - sp) W ltac:(lia)).
        fold cw in H, H4. fold tw in H4. lia. }
      assert (Htw : tw < W) by (subst tw; lia).
      apply wstep_commit; try assumption; try lia.
      * constructor; [| assumption].
        apply lor_lt_pow2; [apply div_le_lt; assumption | apply mod_pow2_lt].
      * apply wrotr_lt; [lia | apply mod_pow2_lt].
      * rewrite pending_pend. unfold pend. fold sp buf. cbn [field].
        replace (W - (W - tw)) with tw by lia.
        assert (Hp : field_le (wrotr W (wcast W (v / 2 ^ sp / 2 ^ cw)) (n - sp) / 2 ^ (W - tw)) (N.to_nat tw)
                     = field_le (v / 2 ^ sp / 2 ^ cw) (N.to_nat tw)).
        { apply field_le_ext. intros i Hi. unfold wrotr, wcast. fold tw. tb. }
        rewrite Hp, bits_of_words_cons, <- app_assoc, Hb. cbn [field].
        rewrite (field_le_split v v (v / 2 ^ sp) n sp (n - sp)); [| lia | reflexivity | intros i Hi; tb].
        rewrite app_assoc, <- Hcw. f_equal.
        unfold wcast. rewrite <- (N.mod_small buf (2 ^ W)) by assumption.
        apply field_le_split; [lia | |]; intros i Hi; tb.
Qed.

(* ------------------------------------------------------------------ *)
(** * The word written when the buffer is completed with zeros (write_unary, flush) *)

Definition flush_word (E : endian) (W buf sp : N) : N :=
  match E with BE => (buf * 2 ^ sp) mod 2 ^ W | LE => buf / 2 ^ sp end.

Lemma flush_word_lt E W buf sp : buf < 2 ^ W -> flush_word E W buf sp < 2 ^ W.
Proof. intros H. destruct E; cbn [flush_word]; [apply mod_pow2_lt | apply div_le_lt; assumption]. Qed.

Lemma flush_word_bits E W buf sp : sp <= W -> buf < 2 ^ W ->
  field E (flush_word E W buf sp) (N.to_nat W) = pend E W buf sp ++ zeros (N.to_nat sp).
Proof.
  intros Hs Hb. destruct E; cbn [flush_word field pend].
  - rewrite <- (field_0 BE (N.to_nat sp)). cbn [field].
    apply field_be_split; [lia | |]; intros i Hi; tb.
  - rewrite <- (field_0 LE (N.to_nat sp)). cbn [field].
    rewrite <- (N.mod_small buf (2 ^ W)) by assumption.
    apply field_le_split; [lia | |]; intros i Hi; tb.
Qed.

(* ------------------------------------------------------------------ *)
(** * write_unary *)

Lemma unary_split x sp W : 0 < W -> sp <= x ->
  unary x = zeros (N.to_nat sp) ++ zeros (N.to_nat ((x - sp) / W) * N.to_nat W) ++ unary ((x - sp) mod W).
Proof.
  intros HW Hs. unfold unary. rewrite !app_assoc. f_equal. rewrite <- !zeros_app. f_equal.
  pose proof (N.div_mod (x - sp) W ltac:(lia)) as Hd.
  rewrite <- N2Nat.inj_mul, <- !N2Nat.inj_add. f_equal. rewrite (N.mul_comm _ W). lia.
Qed.

Lemma one_word_bits E W : 0 < W ->
  field E (match E with BE => 1 | LE => top_one W end) (N.to_nat W) = unary (W - 1).
Proof.
  intros HW. destruct E; cbn [field].
  - rewrite unary_be. f_equal. lia.
  - rewrite unary_le. unfold top_one. f_equal. lia.
Qed.

Lemma one_pend_bits E W v2 : v2 + 1 < W ->
  pend E W (match E with BE => 1 | LE => top_one W end) (W - (v2 + 1)) = unary v2.
Proof.
  intros Hv. destruct E; cbn [pend].
  - rewrite unary_be. f_equal. lia.
  - rewrite unary_le. replace (W - (W - (v2 + 1))) with (v2 + 1) by lia.
    apply field_le_ext. intros i Hi. unfold top_one. tb.
Qed.

Lemma write_unary_step E W x s :
  WInv W s -> x <> U64MAX ->
  wstep_ok E W s (x + 1) (unary x) (bw_write_unary E W x s).
Proof.
  intros HI Hx. pose proof HI as (HW & H0 & H1 & H2 & H3). destruct HW as [HW8 HWm].
  unfold bw_write_unary.
  destruct (N.eqb_spec x U64MAX) as [? | _]; [lia |].
  destruct (N.eqb_spec (bw_space s) 0) as [? | _]; [lia |].
  set (sp := bw_space s) in *. set (buf := bw_buffer s) in *.
  destruct (N.leb_spec (x + 1) sp) as [Hfit | Hnofit].
  - (* the code fits in the buffer *)
    set (b := match E with BE => N.lor ((((buf * 2 ^ x) mod 2 ^ W) * 2 ^ 1) mod 2 ^ W) 1
                         | LE => N.lor (buf / 2 ^ x / 2 ^ 1) (top_one W) end).
    assert (Hb : match E with
                 | BE => match wshl W buf x with
                         | Some b => match wshl W b 1 with Some b' => Some (N.lor b' 1) | None => None end
                         | None => None end
                 | LE => match wshr W buf x with
                         | Some b => match wshr W b 1 with Some b' => Some (N.lor b' (top_one W)) | None => None end
                         | None => None end
                 end = Some b).
    { destruct E; [rewrite !wshl_some by lia | rewrite !wshr_some by lia]; reflexivity. }
    rewrite Hb. cbn [oo].
    assert (Hblt : b < 2 ^ W).
    { subst b. destruct E; apply lor_lt_pow2.
      - apply mod_pow2_lt.
      - change 1 with (2 ^ 0). apply pow2_lt_mono. lia.
      - apply div_le_lt, div_le_lt. assumption.
      - apply top_one_lt. lia. }
    assert (Hbits : forall sp', sp' = sp - (x + 1) ->
              pend E W b sp' = pend E W buf sp ++ unary x).
    { intros sp' ->. subst b. destruct E; cbn [pend].
      - rewrite unary_be. apply field_be_split; [lia | |]; intros i Hi; tb.
      - rewrite unary_le. unfold top_one.
        rewrite <- (N.mod_small buf (2 ^ W)) by assumption.
        apply field_le_split; [lia | |]; intros i Hi; tb. }
    destruct (N.eqb_spec (sp - (x + 1)) 0) as [Hz | Hnz].
    + apply wstep_commit; try assumption; try lia.
      * constructor; [assumption | constructor].
      * rewrite pend_full, app_nil_r, bits_of_words_cons, bits_of_words_nil, app_nil_r.
        rewrite pending_pend. fold sp buf. rewrite <- (Hbits 0) by lia.
        unfold pend. rewrite N.sub_0_r, N.pow_0_r, N.div_1_r. destruct E; reflexivity.
    + apply wstep_keep; try assumption; try lia.
      rewrite pending_pend. fold sp buf. apply Hbits. reflexivity.
  - (* the code crosses at least one word boundary *)
    assert (Hb : match E with
                 | BE => match wshl W buf (sp - 1) with Some b => wshl W b 1 | None => None end
                 | LE => match wshr W buf (sp - 1) with Some b => wshr W b 1 | None => None end
                 end = Some (flush_word E W buf sp)).
    { destruct E; cbn [flush_word].
      - rewrite !wshl_some by lia. rewrite shl_shl1 by assumption. reflexivity.
      - rewrite !wshr_some by lia. rewrite shr_shr1 by assumption. reflexivity. }
    rewrite Hb. cbn [oo].
    pose proof (flush_word_lt E W buf sp H2) as Hflt.
    pose proof (flush_word_bits E W buf sp H1 H2) as Hfb.
    set (one := match E with BE => 1 | LE => top_one W end).
    assert (Hone : one < 2 ^ W).
    { subst one. destruct E; [| apply top_one_lt; lia].
      change 1 with (2 ^ 0). apply pow2_lt_mono. lia. }
    assert (Hrep : forall k, Forall (fun w => w < 2 ^ W) (repeat 0 k)).
    { intro k. apply Forall_forall. intros w Hw. apply repeat_spec in Hw. subst w. apply pow2_pos. }
    rewrite (unary_split x sp W) by lia.
    destruct (N.eqb_spec ((x - sp) mod W) (W - 1)) as [Hv2 | Hv2].
    + apply wstep_commit; try assumption; try lia.
      * constructor; [assumption |]. apply Forall_app. split; [apply Hrep |].
        constructor; [assumption | constructor].
      * rewrite pend_full, app_nil_r, bits_of_words_cons, bits_of_words_app, Hfb.
        rewrite bits_of_words_zeros, bits_of_words_cons, bits_of_words_nil, app_nil_r.
        subst one. rewrite one_word_bits by lia. rewrite Hv2, pending_pend, <- !app_assoc. reflexivity.
    + apply wstep_commit; try assumption; try lia.
      * constructor; [assumption | apply Hrep].
      * rewrite bits_of_words_cons, Hfb, bits_of_words_zeros. subst one.
        rewrite one_pend_bits by lia. rewrite pending_pend, <- !app_assoc. reflexivity.
Qed.

(* ------------------------------------------------------------------ *)
(** * flush *)

Lemma flush_step E W s :
  WInv W s ->
  let r := W - bw_space s in
  wstep_ok E W s r (zeros (N.to_nat (if r =? 0 then 0 else W - r))) (bw_flush E W s).
Proof.
  intros HI r. pose proof HI as (HW & H0 & H1 & H2 & H3). destruct HW as [HW8 HWm].
  unfold bw_flush. fold r.
  destruct (N.eqb_spec r 0) as [Hz | Hnz].
  - right. exists s. split; [rewrite Hz; reflexivity |]. split; [assumption |].
    split; [cbn [N.to_nat zeros repeat]; rewrite app_nil_r; reflexivity |].
    split; [reflexivity |]. exists []. rewrite app_nil_r. reflexivity.
  - assert (Hb : match E with
                 | BE => wshl W (bw_buffer s) (bw_space s)
                 | LE => wshr W (bw_buffer s) (bw_space s) end
                 = Some (flush_word E W (bw_buffer s) (bw_space s))).
    { destruct E; cbn [flush_word]; [rewrite wshl_some by lia | rewrite wshr_some by lia]; reflexivity. }
    rewrite Hb. cbn [oo].
    apply wstep_commit; try assumption; try lia.
    + constructor; [apply flush_word_lt; assumption | constructor].
    + apply flush_word_lt; assumption.
    + rewrite pend_full, app_nil_r, bits_of_words_cons, bits_of_words_nil, app_nil_r.
      rewrite flush_word_bits by assumption. rewrite pending_pend. f_equal. f_equal. lia.
Qed.

Lemma flush_space E W s r s' : WInv W s -> bw_flush E W s = Ok (r, s') -> bw_space s' = W /\ r = W - bw_space s.
Proof.
  intros (HW & H0 & H1 & H2 & H3). unfold bw_flush.
  destruct (N.eqb_spec (W - bw_space s) 0) as [Hz | Hnz].
  - intros Heq. injection Heq as <- <-. lia.
  - destruct (match E with BE => _ | LE => _ end) as [b |]; cbn [oo]; [| discriminate].
    destruct (sink_write (bw_sink s) [b]) as [k | | |]; cbn [obind]; try discriminate.
    intros Heq. injection Heq as <- <-. cbn [bw_space]. lia.
Qed.

Lemma length_wabs E W s :
  N.of_nat (length (wabs E W s)) = N.of_nat (length (wk_words (bw_sink s))) * W + (W - bw_space s).
Proof.
  unfold wabs. rewrite app_length, length_bits_of_words.
  assert (L : length (pending E W s) = N.to_nat (W - bw_space s)).
  { unfold pending. destruct E; [apply length_field_be | apply length_field_le]. }
  rewrite L. lia.
Qed.

Lemma wabs_mod E W s : WInv W s -> N.of_nat (length (wabs E W s)) mod W = W - bw_space s.
Proof.
  intros (HW & H0 & H1 & H2 & H3). destruct HW as [HW8 _].
  rewrite length_wabs, N.add_comm, N.mod_add by lia. apply N.mod_small. lia.
Qed.

(* ------------------------------------------------------------------ *)
(** * C01: the three operations simulate the specification *)

Theorem C01_write_bits_sim E W v n b s :
  wrel E W b s -> wosim E W (sw_bits E false v n b) (bw_write_bits E W false v n s).
Proof.
  intros [HI HA]. unfold sw_bits. destruct (N.ltb_spec 64 n); [exact I |]. cbn [andb].
  eapply wstep_wosim; [apply write_bits_step; assumption | exact HA].
Qed.

Theorem C01_write_bits_never_errs_unbounded E W v n b s :
  wrel E W b s -> n <= 64 -> wk_cap (bw_sink s) = None ->
  exists s', bw_write_bits E W false v n s = Ok (n, s') /\ WInv W s' /\
             wabs E W s' = b ++ field E v (N.to_nat n) /\ wk_cap (bw_sink s') = None.
Proof.
  intros [HI HA] Hn Hc. subst b.
  apply (wstep_unbounded E W s n _ _ (write_bits_step E W v n s HI Hn) Hc).
Qed.

Theorem C01_write_unary_sim E W x b s :
  wrel E W b s -> wosim E W (sw_unary x b) (bw_write_unary E W x s).
Proof.
  intros [HI HA]. unfold sw_unary. destruct (N.eqb_spec x U64MAX) as [Hx | Hx]; [exact I |].
  eapply wstep_wosim; [apply write_unary_step; assumption | exact HA].
Qed.

Theorem C01_flush E W b s :
  wrel E W b s ->
  match bw_flush E W s with
  | Ok (r, s') =>
      r = W - bw_space s /\ r = N.of_nat (length b) mod W /\ WInv W s' /\ bw_space s' = W /\
      wabs E W s' = b ++ zeros (N.to_nat (if r =? 0 then 0 else W - r))
  | Err => wk_cap (bw_sink s) <> None
  | _ => False
  end.
Proof.
  intros [HI HA]. subst b.
  destruct (flush_step E W s HI) as [[-> Hc] | (s' & Heq & HI' & HA' & _)]; [exact Hc |].
  rewrite Heq. destruct (flush_space E W s _ s' HI Heq) as [Hs _].
  rewrite (wabs_mod E W s HI). auto.
Qed.

Theorem C01_flush_idempotent E W s r s' :
  WInv W s -> bw_flush E W s = Ok (r, s') -> bw_flush E W s' = Ok (0, s').
Proof.
  intros HI Heq. destruct (flush_space E W s r s' HI Heq) as [Hs _].
  unfold bw_flush. rewrite Hs, N.sub_diag. reflexivity.
Qed.

Theorem C01_prefix_stable E W :
  (forall checks v n s r s', WInv W s -> bw_write_bits E W checks v n s = Ok (r, s') ->
     exists ws, wk_words (bw_sink s') = wk_words (bw_sink s) ++ ws) /\
  (forall x s r s', WInv W s -> bw_write_unary E W x s = Ok (r, s') ->
     exists ws, wk_words (bw_sink s') = wk_words (bw_sink s) ++ ws) /\
  (forall s r s', WInv W s -> bw_flush E W s = Ok (r, s') ->
     exists ws, wk_words (bw_sink s') = wk_words (bw_sink s) ++ ws).
Proof.
  split; [| split].
  - intros checks v n s r s' HI Heq.
    destruct (N.ltb_spec 64 n) as [Hn | Hn].
    { unfold bw_write_bits in Heq. destruct (N.ltb_spec 64 n); [discriminate | lia]. }
    assert (Hf : bw_write_bits E W false v n s = Ok (r, s')).
    { destruct checks; [| exact Heq]. unfold bw_write_bits in Heq |- *.
      destruct (64 <? n); [discriminate |].
      destruct (N.land v (mask_u128 n) =? v); cbn [andb negb] in Heq |- *; [exact Heq | discriminate]. }
    eapply wstep_prefix; [apply (write_bits_step E W v n s HI Hn) | exact Hf].
  - intros x s r s' HI Heq.
    destruct (N.eq_dec x U64MAX) as [Hx | Hx].
    { unfold bw_write_unary in Heq. destruct (N.eqb_spec x U64MAX); [discriminate | contradiction]. }
    eapply wstep_prefix; [apply (write_unary_step E W x s HI Hx) | exact Heq].
  - intros s r s' HI Heq.
    eapply wstep_prefix; [apply (flush_step E W s HI) | exact Heq].
Qed.

(* ------------------------------------------------------------------ *)
(** * C19: the `checks` assertion of write_bits *)

Lemma mask_u128_ones n : n <= 64 -> mask_u128 n = N.ones n.
Proof.
  intros Hn. unfold mask_u128. rewrite W64_pow, pow2_sub1_ones.
  apply N.mod_small. rewrite <- pow2_sub1_ones.
  pose proof (pow2_le_mono n 64 Hn). pose proof (pow2_pos n). lia.
Qed.

Lemma fits_iff v n : n <= 64 -> (N.land v (mask_u128 n) = v <-> v < 2 ^ n).
Proof.
  intros Hn. rewrite mask_u128_ones, N.land_ones by assumption.
  apply N.mod_small_iff. apply N.pow_nonzero. discriminate.
Qed.

Theorem C19_assert_iff E W v n s :
  WInv W s -> n <= 64 ->
  (bw_write_bits E W true v n s = Fail <-> N.land v (mask_u128 n) <> v) /\
  (N.land v (mask_u128 n) = v -> bw_write_bits E W true v n s = bw_write_bits E W false v n s) /\
  (N.land v (mask_u128 n) = v <-> v < 2 ^ n).
Proof.
  intros HI Hn.
  assert (Heq : N.land v (mask_u128 n) = v -> bw_write_bits E W true v n s = bw_write_bits E W false v n s).
  { intros Hv. unfold bw_write_bits. rewrite Hv, N.eqb_refl. reflexivity. }
  split; [| split; [exact Heq | apply fits_iff; assumption]].
  split.
  - intros Hfail Hv. rewrite (Heq Hv) in Hfail.
    exact (wstep_not_fail _ _ _ _ _ _ (write_bits_step E W v n s HI Hn) Hfail).
  - intros Hv. unfold bw_write_bits.
    destruct (N.ltb_spec 64 n); [reflexivity |].
    destruct (N.eqb_spec (N.land v (mask_u128 n)) v); [contradiction | reflexivity].
Qed.

(* ------------------------------------------------------------------ *)
(** * Lists of operations *)

Inductive wop := OBits (v n : N) | OUnary (x : N) | OFlush.

Definition wop_valid (o : wop) : Prop :=
  match o with OBits v n => n <= 64 | OUnary x => x < U64MAX | OFlush => True end.

(* specification: OFlush pads with zeros to a multiple of W and returns the number of bits
   that were pending *)
Definition spec_wop (E : endian) (W : N) (o : wop) (b : bits) : outcome (N * bits) :=
  match o with
  | OBits v n => sw_bits E false v n b
  | OUnary x => sw_unary x b
  | OFlush => let r := N.of_nat (length b) mod W in
              Ok (r, b ++ zeros (N.to_nat (if r =? 0 then 0 else W - r)))
  end.

Definition mach_wop (E : endian) (W : N) (o : wop) (s : bwriter) : outcome (N * bwriter) :=
  match o with
  | OBits v n => bw_write_bits E W false v n s
  | OUnary x => bw_write_unary E W x s
  | OFlush => bw_flush E W s
  end.

Fixpoint run_ops {S : Type} (step : wop -> S -> outcome (N * S)) (ops : list wop) (s : S)
  : outcome (list N * S) :=
  match ops with
  | [] => Ok ([], s)
  | o :: rest =>
      match step o s with
      | Ok (x, s') =>
          match run_ops step rest s' with
          | Ok (xs, s'') => Ok (x :: xs, s'') | Err => Err | Fail => Fail | Fuel => Fuel
          end
      | Err => Err | Fail => Fail | Fuel => Fuel
      end
  end.

Lemma run_ops_app {S} (step : wop -> S -> outcome (N * S)) l1 l2 s rs s' :
  run_ops step l1 s = Ok (rs, s') ->
  run_ops step (l1 ++ l2) s =
  match run_ops step l2 s' with
  | Ok (rs2, s'') => Ok (rs ++ rs2, s'') | Err => Err | Fail => Fail | Fuel => Fuel end.
Proof.
  revert s rs. induction l1 as [| o l1 IH]; intros s rs Heq.
  - cbn [run_ops] in Heq. injection Heq as <- <-. cbn [app].
    destruct (run_ops step l2 s) as [[rs2 s''] | | |]; reflexivity.
  - cbn [run_ops app] in Heq |- *. destruct (step o s) as [[x s1] | | |]; try discriminate.
    destruct (run_ops step l1 s1) as [[xs s2] | | |] eqn:Hrec; try discriminate.
    injection Heq as <- <-. rewrite (IH s1 xs Hrec).
    destruct (run_ops step l2 s2) as [[rs2 s''] | | |]; reflexivity.
Qed.

Lemma WInv_new W cap : wordsize_ok W -> WInv W (bw_new cap W).
Proof.
  intros HW. pose proof HW as [H8 _]. unfold WInv, bw_new. cbn [bw_sink bw_buffer bw_space wk_words].
  repeat split; try apply HW; try lia; try apply pow2_pos; try constructor.
Qed.

Lemma wabs_new E W cap : wabs E W (bw_new cap W) = [].
Proof.
  unfold wabs, bw_new. cbn [bw_sink wk_words]. rewrite pending_pend. cbn [bw_buffer bw_space].
  rewrite pend_full. reflexivity.
Qed.

(* one operation on an unbounded sink *)
Lemma mach_wop_step E W o s :
  WInv W s -> wop_valid o -> wk_cap (bw_sink s) = None ->
  exists r nb s', spec_wop E W o (wabs E W s) = Ok (r, wabs E W s ++ nb) /\
                  mach_wop E W o s = Ok (r, s') /\ WInv W s' /\
                  wabs E W s' = wabs E W s ++ nb /\ wk_cap (bw_sink s') = None.
Proof.
  intros HI Hv Hc. destruct o as [v n | x |]; cbn [wop_valid spec_wop mach_wop] in *.
  - destruct (wstep_unbounded _ _ _ _ _ _ (write_bits_step E W v n s HI Hv) Hc) as (s' & H1 & H2 & H3 & H4).
    exists n, (field E v (N.to_nat n)), s'. unfold sw_bits.
    destruct (N.ltb_spec 64 n); [lia |]. cbn [andb]. auto.
  - assert (Hx : x <> U64MAX) by lia.
    destruct (wstep_unbounded _ _ _ _ _ _ (write_unary_step E W x s HI Hx) Hc) as (s' & H1 & H2 & H3 & H4).
    exists (x + 1), (unary x), s'. unfold sw_unary.
    destruct (N.eqb_spec x U64MAX); [contradiction |]. auto.
  - destruct (wstep_unbounded _ _ _ _ _ _ (flush_step E W s HI) Hc) as (s' & H1 & H2 & H3 & H4).
    rewrite (wabs_mod E W s HI). eauto 10.
Qed.

Lemma writer_refines_from E W ops s :
  WInv W s -> wk_cap (bw_sink s) = None -> Forall wop_valid ops ->
  exists rs B s', run_ops (spec_wop E W) ops (wabs E W s) = Ok (rs, B) /\
                  run_ops (mach_wop E W) ops s = Ok (rs, s') /\
                  WInv W s' /\ wabs E W s' = B /\ wk_cap (bw_sink s') = None.
Proof.
  intros HI Hc Hv. revert s HI Hc. induction Hv as [| o ops Ho Hops IH]; intros s HI Hc.
  - exists [], (wabs E W s), s. cbn [run_ops]. auto.
  - destruct (mach_wop_step E W o s HI Ho Hc) as (r & nb & s1 & Hs & Hm & HI1 & HA1 & Hc1).
    destruct (IH s1 HI1 Hc1) as (rs & B & s' & Hs' & Hm' & HI' & HA' & Hc').
    exists (r :: rs), B, s'. cbn [run_ops]. rewrite Hs, Hm, <- HA1, Hs', Hm'. auto.
Qed.

Theorem C01_writer_refines E W ops :
  wordsize_ok W -> Forall wop_valid ops ->
  exists rs B s, run_ops (spec_wop E W) ops [] = Ok (rs, B) /\
                 run_ops (mach_wop E W) ops (bw_new None W) = Ok (rs, s) /\
                 WInv W s /\ wabs E W s = B.
Proof.
  intros HW Hv.
  destruct (writer_refines_from E W ops (bw_new None W) (WInv_new W None HW) eq_refl Hv)
    as (rs & B & s & H1 & H2 & H3 & H4 & _).
  rewrite wabs_new in H1. eauto 10.
Qed.

(* ------------------------------------------------------------------ *)
(** * Word size independence of the byte image *)

Lemma flushed_bytes E W ops :
  wordsize_ok W -> Forall wop_valid ops ->
  exists rs B r s k,
    run_ops (spec_wop E W) ops [] = Ok (rs, B) /\
    run_ops (mach_wop E W) (ops ++ [OFlush]) (bw_new None W) = Ok (rs ++ [r], s) /\
    r = N.of_nat (length B) mod W /\
    bw_bytes E W s = image E B ++ repeat 0 k.
Proof.
  intros HW Hv.
  destruct (writer_refines_from E W ops (bw_new None W) (WInv_new W None HW) eq_refl Hv)
    as (rs & B & s & H1 & H2 & HI & HA & Hc).
  rewrite wabs_new in H1.
  destruct (wstep_unbounded _ _ _ _ _ _ (flush_step E W s HI) Hc) as (s' & Hf & HI' & HA' & _).
  destruct (flush_space E W s _ s' HI Hf) as [Hsp _].
  set (pad := N.to_nat (if W - bw_space s =? 0 then 0 else W - (W - bw_space s))) in *.
  destruct (image_app_zeros E B pad) as [k Hk].
  exists rs, B, (W - bw_space s), s', k. split; [exact H1 |]. split; [| split].
  - rewrite (run_ops_app _ _ [OFlush] _ _ _ H2). cbn [run_ops mach_wop]. rewrite Hf. reflexivity.
  - rewrite <- HA. symmetry. apply wabs_mod. assumption.
  - rewrite <- Hk, <- HA, <- HA'.
    unfold wabs. rewrite pending_pend, Hsp, pend_full, app_nil_r.
    rewrite <- (C01_bytes_abs E W s' HI'). symmetry. apply image_bits_of_bytes. apply bw_bytes_lt.
Qed.

Lemma spec_wop_width E W1 W2 o b : o <> OFlush -> spec_wop E W1 o b = spec_wop E W2 o b.
Proof. destruct o; [reflexivity | reflexivity | contradiction]. Qed.

Lemma run_spec_width E W1 W2 ops b :
  Forall (fun o => o <> OFlush) ops ->
  run_ops (spec_wop E W1) ops b = run_ops (spec_wop E W2) ops b.
Proof.
  intros H. revert b. induction H as [| o ops Ho _ IH]; intro b; [reflexivity |].
  cbn [run_ops]. rewrite (spec_wop_width E W1 W2 o b Ho).
  destruct (spec_wop E W2 o b) as [[x b'] | | |]; try reflexivity. rewrite IH. reflexivity.
Qed.

(* The same flush-free operations followed by one flush, on machines of two word sizes:
   both deliver image E B (ceil(L/8) bytes, L = length B) followed only by zero bytes.
   (Operations containing a flush in the middle legitimately depend on the word size: a flush
   pads to a word boundary.) *)
Theorem C01_word_size_independent E W1 W2 ops :
  wordsize_ok W1 -> wordsize_ok W2 -> Forall wop_valid ops -> Forall (fun o => o <> OFlush) ops ->
  exists rs B,
    run_ops (spec_wop E W1) ops [] = Ok (rs, B) /\
    run_ops (spec_wop E W2) ops [] = Ok (rs, B) /\
    exists r1 s1 k1 r2 s2 k2,
      run_ops (mach_wop E W1) (ops ++ [OFlush]) (bw_new None W1) = Ok (rs ++ [r1], s1) /\
      run_ops (mach_wop E W2) (ops ++ [OFlush]) (bw_new None W2) = Ok (rs ++ [r2], s2) /\
      r1 = N.of_nat (length B) mod W1 /\ r2 = N.of_nat (length B) mod W2 /\
      bw_bytes E W1 s1 = image E B ++ repeat 0 k1 /\
      bw_bytes E W2 s2 = image E B ++ repeat 0 k2 /\
      length (image E B) = N.to_nat ((N.of_nat (length B) + 7) / 8).
Proof.
  intros HW1 HW2 Hv Hnf.
  destruct (flushed_bytes E W1 ops HW1 Hv) as (rs & B & r1 & s1 & k1 & Ha & Hb & Hc & Hd).
  destruct (flushed_bytes E W2 ops HW2 Hv) as (rs' & B' & r2 & s2 & k2 & Ha' & Hb' & Hc' & Hd').
  rewrite (run_spec_width E W1 W2 ops [] Hnf), Ha' in Ha. injection Ha as <- <-.
  exists rs', B'. split; [rewrite (run_spec_width E W1 W2 ops [] Hnf); exact Ha' |].
  split; [exact Ha' |].
  exists r1, s1, k1, r2, s2, k2. repeat split; try assumption. apply length_image.
Qed.

(* ------------------------------------------------------------------ *)
(** * Programs: the machine primitives simulate the specification primitives *)

Theorem C01_prims_sim E W : wprims_sim E W (swprims E false) (bwprims E W false).
Proof.
  constructor; cbn [q_bits q_unary swprims bwprims].
  - intros. apply C01_write_bits_sim. assumption.
  - intros. apply C01_write_unary_sim. assumption.
Qed.

Theorem C01_prog_refines {A} E W (p : wprog A) b s :
  wrel E W b s -> wosim E W (wrun (swprims E false) p b) (wrun (bwprims E W false) p s).
Proof. apply wrun_simulation. apply C01_prims_sim. Qed.

(* ------------------------------------------------------------------ *)
(** * Examples: the hypotheses are satisfiable, and concrete runs for W = 8 / 128, BE / LE *)

Example ex_wordsize_8 : wordsize_ok 8.
Proof. split; [lia | reflexivity]. Qed.
Example ex_wordsize_128 : wordsize_ok 128.
Proof. split; [lia | reflexivity]. Qed.

(* a state in the middle of a word: one delivered byte, five pending bits 11101 *)
Definition ex_state : bwriter :=
  {| bw_sink := {| wk_words := [165]; wk_cap := None |}; bw_buffer := 29; bw_space := 3 |}.

Example ex_WInv : WInv 8 ex_state.
Proof.
  unfold WInv, ex_state. cbn [bw_sink bw_buffer bw_space wk_words].
  split; [exact ex_wordsize_8 |]. repeat split; try lia; try reflexivity.
  repeat constructor.
Qed.

Example ex_wrel_be :
  wrel BE 8 [true; false; true; false; false; true; false; true; true; true; true; false; true] ex_state.
Proof. split; [exact ex_WInv | reflexivity]. Qed.

(* LE: the three low (dirty) bits of the buffer are not part of the abstraction *)
Example ex_wrel_le :
  wrel LE 8 [true; false; true; false; false; true; false; true; true; false; true; true; true]
       {| bw_sink := bw_sink ex_state; bw_buffer := 29 * 8 + 5; bw_space := 3 |}.
Proof.
  split; [| reflexivity]. unfold WInv. cbn [bw_sink bw_buffer bw_space wk_words ex_state].
  split; [exact ex_wordsize_8 |]. repeat split; try lia; try reflexivity. repeat constructor.
Qed.

(* write_bits with dirty high bits (255 written on 4 bits), 64-bit writes crossing up to 8 words,
   long unary codes, flushes *)
Definition ex_ops : list wop :=
  [OBits 5 3; OUnary 10; OBits 12297829382473034410 64; OUnary 0; OBits 255 4; OFlush;
   OBits 1 1; OUnary 200; OFlush].

Example ex_ops_valid : Forall wop_valid ex_ops.
Proof. repeat constructor; cbn [wop_valid]; unfold U64MAX; lia. Qed.

Fixpoint list_eqb {A} (f : A -> A -> bool) (l1 l2 : list A) : bool :=
  match l1, l2 with
  | [], [] => true
  | a :: r1, b :: r2 => f a b && list_eqb f r1 r2
  | _, _ => false
  end.

(* machine and specification return the same numbers, the final state stands for the final
   spec bits, and (the list ends with a flush) the delivered bytes are their image *)
Definition ex_agree (E : endian) (W : N) : bool :=
  match run_ops (spec_wop E W) ex_ops [], run_ops (mach_wop E W) ex_ops (bw_new None W) with
  | Ok (rs, B), Ok (rs', s) =>
      list_eqb N.eqb rs rs' && list_eqb Bool.eqb B (wabs E W s)
      && list_eqb N.eqb (bw_bytes E W s) (image E B)
  | _, _ => false
  end.

Example ex_agree_be_8 : ex_agree BE 8 = true.
Proof. vm_compute. reflexivity. Qed.
Example ex_agree_le_8 : ex_agree LE 8 = true.
Proof. vm_compute. reflexivity. Qed.
Example ex_agree_be_128 : ex_agree BE 128 = true.
Proof. vm_compute. reflexivity. Qed.
Example ex_agree_le_128 : ex_agree LE 128 = true.
Proof. vm_compute. reflexivity. Qed.
Example ex_agree_be_32 : ex_agree BE 32 = true.
Proof. vm_compute. reflexivity. Qed.
Example ex_agree_le_64 : ex_agree LE 64 = true.
Proof. vm_compute. reflexivity. Qed.

Example ex_run_be_8 :
  omap (fun p => (fst p, bw_bytes BE 8 (snd p))) (run_ops (mach_wop BE 8) ex_ops (bw_new None 8)) =
  Ok ([3; 11; 64; 1; 4; 3; 1; 201; 2],
      [160; 6; 170; 170; 170; 170; 170; 170; 170; 171; 224; 128; 0; 0; 0;
       0; 0; 0; 0; 0; 0; 0; 0; 0; 0; 0; 0; 0; 0; 0; 0; 0; 0; 0; 0; 0; 64]).
Proof. vm_compute. reflexivity. Qed.

Example ex_run_le_128 :
  omap (fun p => (fst p, bw_bytes LE 128 (snd p))) (run_ops (mach_wop LE 128) ex_ops (bw_new None 128)) =
  Ok ([3; 11; 64; 1; 4; 83; 1; 201; 74],
      [5; 160; 170; 170; 170; 170; 170; 170; 170; 234; 7; 0; 0; 0; 0; 0;
       1; 0; 0; 0; 0; 0; 0; 0; 0; 0; 0; 0; 0; 0; 0; 0; 0; 0; 0; 0; 0; 0;
       0; 0; 0; 2; 0; 0; 0; 0; 0; 0]).
Proof. vm_compute. reflexivity. Qed.

(* word size independence on a flush-free list: same leading bytes, then zeros *)
Definition ex_ops_nf : list wop := [OBits 5 3; OUnary 10; OBits 12297829382473034410 64; OUnary 0; OBits 255 4].

Example ex_ops_nf_ok : Forall wop_valid ex_ops_nf /\ Forall (fun o => o <> OFlush) ex_ops_nf.
Proof. split; repeat constructor; cbn [wop_valid]; unfold U64MAX; try lia; discriminate. Qed.

Example ex_independent :
  (omap (fun p => bw_bytes BE 8 (snd p)) (run_ops (mach_wop BE 8) (ex_ops_nf ++ [OFlush]) (bw_new None 8))
    = Ok [160; 6; 170; 170; 170; 170; 170; 170; 170; 171; 224]) /\
  (omap (fun p => bw_bytes BE 128 (snd p)) (run_ops (mach_wop BE 128) (ex_ops_nf ++ [OFlush]) (bw_new None 128))
    = Ok ([160; 6; 170; 170; 170; 170; 170; 170; 170; 171; 224] ++ repeat 0 5)) /\
  (omap (fun p => image BE (snd p)) (run_ops (spec_wop BE 8) ex_ops_nf [])
    = Ok [160; 6; 170; 170; 170; 170; 170; 170; 170; 171; 224]).
Proof. vm_compute. repeat split. Qed.

(* a bounded sink (capacity 1 word) reports Err where the specification continues *)
Example ex_full_sink :
  run_ops (mach_wop BE 8) [OBits 1 7; OBits 3 2; OBits 0 8] (bw_new (Some 1) 8) = Err.
Proof. vm_compute. reflexivity. Qed.

(* the `checks` assertion *)
Example ex_checks :
  (bw_write_bits BE 8 true 255 4 (bw_new None 8) = Fail) /\
  (bw_write_bits BE 8 true 15 4 (bw_new None 8) = bw_write_bits BE 8 false 255 4 (bw_new None 8)).
Proof. vm_compute. split; reflexivity. Qed.
