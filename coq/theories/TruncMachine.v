(* TruncMachine.v — C09t on the word machine: a strict buffered reader of any word width positioned where only
   a proper prefix of a codeword remains reports an error, for every code, parameter and table option. *)
From DSI Require Import Base Words Prog Codes CodeDefs Reader Abs BitFacts Run CodesSummary
  BitsLemmasR ReaderProofs TruncProofs.
From DSI.Gen Require Import GenTables GenParams.
From Coq Require Import ZifyBool ZifyNat ZifyN.

Theorem truncated_code_err_machine E W D id p fl v s pos :
  RInv E W s pos -> ws_strict (br_src s) = true ->
  W * N.of_nat (length (ws_words (br_src s))) <= 2 ^ 64 -> maxcap <= W ->
  valid id p v ->
  (exists rest, rest <> [] /\
     code_cw E id p v = skipn (N.to_nat pos) (src_bits E W (br_src s)) ++ rest) ->
  rrun (brprims E W) (sel_read E D id p fl) s = Err.
Proof.
  intros HI Hst Hlen Hcap Hv Hpre.
  assert (rrel E W (rabs E W s pos 0) s) as HR by (exists pos, 0; split; [exact HI | split; [lia | reflexivity]]).
  pose proof (ReaderProofs.programs_sim_fun E W (ws_words (br_src s)) (ws_strict (br_src s)) N
                (sel_read E D id p fl) (rabs E W s pos 0) s Hlen HR eq_refl eq_refl) as HS.
  rewrite Hst in HS. unfold rabs in HS at 1.
  fold (mkr (skipn (N.to_nat pos) (src_bits E W (br_src s))) pos 0) in HS.
  rewrite (TruncProofs.truncated_code_err E D id p fl v W pos 0 _ Hv Hcap Hpre) in HS.
  cbn [osim] in HS. exact HS.
Qed.
