(* FindChangeProofs.v — property C20, part 1: the change-point iterator
   (Small.v, Section FindChange; Rust: utils/find_change.rs after the fix of D10).

   Result in one sentence: for a function f that is non-decreasing on [0, 2^64) and
   never takes the value U64MAX, each call of `fcp_next` terminates normally (no
   Fuel/Fail/Err), the first call yields (0, f 0), every later call that yields
   (x, v) yields the NEXT change point x after the current position (none skipped)
   with v = f x, and a call that yields None guarantees that there is no change
   point in the interval (current, fcp_bound current], where

       fcp_bound c = c                                   if U64MAX - c <= 1
                   = c + 2 ^ log2 (U64MAX - c - 1)       otherwise.

   (The exponential search probes c+1, c+2, c+4, ... and gives up at the first
   power of two 2^k with U64MAX - c <= 2^k, or when 2^63 * 2 overflows; the last
   probe made is c + 2^(k-1), and 2^(k-1) < U64MAX - c <= 2^k means
   k - 1 = log2 (U64MAX - c - 1).)  Consequences proved below:
     - c + (U64MAX - c) / 2 <= fcp_bound c   (at least the lower half of what remains),
     - 2^63 <= fcp_bound c for every c < 2^63, so EVERY change point x <= 2^63 is
       yielded before the iterator ends, whatever the current position is,
     - the bound is tight: `tight_example` is a monotone f with a change point at
       2^63 + 1 = fcp_bound 0 + 1 that the iterator does not report. *)
From Coq Require Import ZifyBool ZifyNat ZifyN.
From Coq Require Import List NArith Lia Bool Sorted.
From DSI Require Import Base Small.
Import ListNotations.
Ltac Zify.zify_post_hook ::= Z.div_mod_to_equations.
Open Scope N_scope.

Definition change_point (f : N -> N) (x : N) : Prop := 0 < x /\ f (x - 1) <> f x.

Definition Inv (f : N -> N) (s : fcp) : Prop :=
  fc_prev s = f (fc_current s) /\ fc_current s <= U64MAX.

Definition fcp_bound (c : N) : N :=
  if U64MAX - c <=? 1 then c else c + 2 ^ N.log2 (U64MAX - c - 1).

(* the items after the first one: each is the next change point after position c *)
Fixpoint chain (f : N -> N) (c : N) (l : list (N * N)) : Prop :=
  match l with
  | [] => True
  | (x, v) :: r =>
      c < x /\ change_point f x /\ v = f x /\
      (forall y, c < y < x -> ~ change_point f y) /\ chain f x r
  end.

(* ------------------------------------------------------------------ *)
(* facts about fcp_bound (no function involved) *)

Lemma pow2_63 : 2 ^ 63 = 9223372036854775808.
Proof. reflexivity. Qed.

Lemma fcp_bound_ge : forall c, c <= fcp_bound c.
Proof. intros c. unfold fcp_bound. destruct (U64MAX - c <=? 1); lia. Qed.

(* twice the guaranteed distance covers everything that remains below U64MAX *)
Lemma fcp_bound_twice : forall c,
  1 < U64MAX - c -> U64MAX - c <= 2 * (fcp_bound c - c) /\ fcp_bound c < U64MAX.
Proof.
  intros c Hc. unfold fcp_bound. destruct (U64MAX - c <=? 1) eqn:E.
  - apply N.leb_le in E. lia.
  - assert (H : 0 < U64MAX - c - 1) by lia.
    apply N.log2_spec in H. rewrite N.pow_succ_r' in H.
    set (p := 2 ^ N.log2 (U64MAX - c - 1)) in *. lia.
Qed.

Lemma fcp_bound_half : forall c, c + (U64MAX - c) / 2 <= fcp_bound c.
Proof.
  intros c. destruct (N.le_gt_cases (U64MAX - c) 1) as [H|H].
  - pose proof (fcp_bound_ge c). lia.
  - pose proof (fcp_bound_twice c H). lia.
Qed.

Lemma fcp_bound_2p63 : forall c, c < 2 ^ 63 -> 2 ^ 63 <= fcp_bound c.
Proof.
  intros c Hc. rewrite pow2_63 in *.
  assert (H : 1 < U64MAX - c) by (unfold U64MAX; lia).
  pose proof (fcp_bound_twice c H) as H2. unfold U64MAX in H2. lia.
Qed.

Lemma last_cons_default : forall (A : Type) (l : list A) (a d : A),
  last (a :: l) d = last l a.
Proof.
  intros A l. induction l as [|b l IH]; intros a d.
  - reflexivity.
  - change (last (a :: b :: l) d) with (last (b :: l) d).
    rewrite (IH b d), (IH b a). reflexivity.
Qed.

(* ------------------------------------------------------------------ *)
Section FC.
  Variable f : N -> N.
  Hypothesis mono : forall a b, a <= b -> b <= U64MAX -> f a <= f b.
  Hypothesis notmax : forall x, f x < U64MAX.

  Lemma flat_between : forall a b y,
    b <= U64MAX -> f b = f a -> a <= y <= b -> f y = f a.
  Proof.
    intros a b y Hb E [H1 H2].
    pose proof (mono a y H1 ltac:(lia)). pose proof (mono y b H2 Hb). lia.
  Qed.

  Lemma flat_no_cp : forall a b y,
    b <= U64MAX -> f b = f a -> a < y <= b -> ~ change_point f y.
  Proof.
    intros a b y Hb E Hy [_ Hne]. apply Hne.
    rewrite (flat_between a b y Hb E) by lia.
    rewrite (flat_between a b (y - 1) Hb E) by lia. reflexivity.
  Qed.

  (* needs no monotonicity *)
  Lemma no_cp_flat_add : forall a n,
    (forall y, a < y <= a + n -> ~ change_point f y) -> f (a + n) = f a.
  Proof.
    intros a n. induction n as [|n IH] using N.peano_ind; intros H.
    - f_equal. lia.
    - destruct (N.eq_dec (f (a + N.succ n)) (f (a + n))) as [E|E].
      + rewrite E. apply IH. intros y Hy. apply H. lia.
      + exfalso. apply (H (a + N.succ n)). { lia. }
        split. { lia. }
        replace (a + N.succ n - 1) with (a + n) by lia. congruence.
  Qed.

  Lemma no_cp_flat : forall a b,
    a <= b -> (forall y, a < y <= b -> ~ change_point f y) -> f b = f a.
  Proof.
    intros a b Hab H. replace b with (a + (b - a)) by lia.
    apply no_cp_flat_add. intros y Hy. apply H. lia.
  Qed.

  (* ---------------------------------------------------------------- *)
  (* exponential search *)

  Lemma exp_search_S : forall fu cur prev step,
    exp_search f (S fu) cur prev step =
      if U64MAX - cur <=? step then Ok None
      else if negb (f (cur + step) =? prev) then Ok (Some step)
      else match mul64 step 2 with
           | Some s' => exp_search f fu cur prev s'
           | None => Ok None
           end.
  Proof. reflexivity. Qed.

  Lemma pow2_le_63 : forall k, k <= 63 -> 2 ^ k <= 9223372036854775808.
  Proof.
    intros k Hk. rewrite <- pow2_63. apply N.pow_le_mono_r; lia.
  Qed.

  Lemma pow2_pos : forall k, 0 < 2 ^ k.
  Proof. intros k. pose proof (N.pow_nonzero 2 k ltac:(lia)). lia. Qed.

  Lemma pow2_pred : forall k, k <> 0 -> 2 ^ k = 2 * 2 ^ (k - 1).
  Proof.
    intros k Hk. rewrite <- N.pow_succ_r'. f_equal. lia.
  Qed.

  Lemma exp_search_spec : forall fuel k cur prev,
    k <= 63 -> 63 < k + N.of_nat fuel ->
    cur <= U64MAX -> f cur = prev ->
    (forall j, j < k -> 2 ^ j < U64MAX - cur /\ f (cur + 2 ^ j) = prev) ->
    match exp_search f fuel cur prev (2 ^ k) with
    | Ok (Some step) =>
        exists j, step = 2 ^ j /\ j <= 63 /\ cur + step < U64MAX /\
                  f (cur + step) <> prev /\ f (cur + step / 2) = prev
    | Ok None =>
        U64MAX - cur <= 1 \/
        exists j, j <= 63 /\ 2 ^ j < U64MAX - cur <= 2 * 2 ^ j /\ f (cur + 2 ^ j) = prev
    | _ => False
    end.
  Proof.
    induction fuel as [|fu IH]; intros k cur prev Hk Hfuel Hcur Hprev Hinv.
    - lia.
    - rewrite exp_search_S.
      destruct (U64MAX - cur <=? 2 ^ k) eqn:E1.
      + apply N.leb_le in E1.
        destruct (N.eq_dec k 0) as [->|Hk0].
        * left. change (2 ^ 0) with 1 in E1. exact E1.
        * right. exists (k - 1). destruct (Hinv (k - 1) ltac:(lia)) as [H1 H2].
          rewrite (pow2_pred k Hk0) in E1. repeat split; try assumption; lia.
      + apply N.leb_gt in E1.
        destruct (f (cur + 2 ^ k) =? prev) eqn:E2; cbn [negb].
        * apply N.eqb_eq in E2. unfold mul64.
          destruct (2 ^ k * 2 <? W64) eqn:E3.
          -- assert (Hk62 : k <= 62).
             { destruct (N.eq_dec k 63) as [->|]; [|lia]. vm_compute in E3. discriminate. }
             replace (2 ^ k * 2) with (2 ^ (k + 1))
               by (rewrite N.add_1_r, N.pow_succ_r'; lia).
             apply IH; try assumption; try lia.
             intros j Hj. destruct (N.eq_dec j k) as [->|]; [split; assumption|].
             apply Hinv. lia.
          -- apply N.ltb_ge in E3.
             assert (Hk63 : k = 63).
             { destruct (N.le_gt_cases k 62) as [Hle|]; [|lia].
               pose proof (N.pow_le_mono_r 2 k 62 ltac:(lia) Hle) as Hp.
               change (2 ^ 62) with 4611686018427387904 in Hp. unfold W64 in E3. lia. }
             subst k. right. exists 63. rewrite pow2_63 in *.
             unfold U64MAX in *. repeat split; try assumption; lia.
        * apply N.eqb_neq in E2. exists k.
          repeat split; try assumption; try lia.
          destruct (N.eq_dec k 0) as [->|Hk0].
          -- change (2 ^ 0 / 2) with 0. rewrite N.add_0_r. exact Hprev.
          -- rewrite (pow2_pred k Hk0).
             replace (2 * 2 ^ (k - 1) / 2) with (2 ^ (k - 1))
               by (set (p := 2 ^ (k - 1)); lia).
             apply Hinv. lia.
  Qed.

  (* ---------------------------------------------------------------- *)
  (* binary search *)

  Lemma bin_search_S : forall fu prev left right,
    bin_search f (S fu) prev left right =
      if left <? right then
        let mid := left + (right - left) / 2 in
        if f mid =? prev then bin_search f fu prev (mid + 1) right
        else bin_search f fu prev left mid
      else Ok left.
  Proof. reflexivity. Qed.

  Lemma bin_search_spec : forall n lo prev left right,
    f lo = prev -> lo <= left -> left <= right -> right <= U64MAX ->
    right - left < 2 ^ N.of_nat n ->
    f right <> prev ->
    (forall y, lo <= y < left -> f y = prev) ->
    exists x, bin_search f (S n) prev left right = Ok x /\
              left <= x <= right /\ f x <> prev /\
              (forall y, lo <= y < x -> f y = prev).
  Proof.
    induction n as [|n IH]; intros lo prev left right Hlo Hll Hlr Hr Hw Hne Hbelow;
      rewrite bin_search_S.
    - change (2 ^ N.of_nat 0) with 1 in Hw.
      assert (left = right) by lia. subst right.
      rewrite N.ltb_irrefl. exists left. repeat split; try assumption; lia.
    - rewrite Nat2N.inj_succ, N.pow_succ_r' in Hw.
      set (p := 2 ^ N.of_nat n) in *.
      destruct (left <? right) eqn:E.
      + apply N.ltb_lt in E. cbv zeta.
        set (mid := left + (right - left) / 2).
        assert (Hmid : left <= mid < right) by (unfold mid; lia).
        destruct (f mid =? prev) eqn:Em.
        * apply N.eqb_eq in Em.
          destruct (IH lo prev (mid + 1) right) as [x [Hx [Hx1 [Hx2 Hx3]]]];
            try assumption; try lia.
          { intros y Hy. rewrite <- Hlo. apply (flat_between lo mid y); [lia|congruence|lia]. }
          exists x. repeat split; try assumption; lia.
        * apply N.eqb_neq in Em.
          destruct (IH lo prev left mid) as [x [Hx [Hx1 [Hx2 Hx3]]]];
            try assumption; try lia.
          exists x. repeat split; try assumption; lia.
      + apply N.ltb_ge in E. assert (left = right) by lia. subst right.
        exists left. repeat split; try assumption; lia.
  Qed.

  (* ---------------------------------------------------------------- *)
  (* one call of next *)

  Lemma Inv_not_marker : forall s, Inv f s -> s <> fcp_new.
  Proof.
    intros s [H _] E. subst s. cbn in H. pose proof (notmax 0). lia.
  Qed.

  Lemma fcp_first : fcp_next f fcp_new = Ok (Some (0, f 0), {| fc_current := 0; fc_prev := f 0 |}).
  Proof. reflexivity. Qed.

  Lemma Inv_first : Inv f {| fc_current := 0; fc_prev := f 0 |}.
  Proof. split; cbn; [reflexivity|unfold U64MAX; lia]. Qed.

  Lemma none_guarantee : forall cur,
    cur <= U64MAX ->
    (U64MAX - cur <= 1 \/
     exists j, j <= 63 /\ 2 ^ j < U64MAX - cur <= 2 * 2 ^ j /\ f (cur + 2 ^ j) = f cur) ->
    forall x, cur < x <= fcp_bound cur -> ~ change_point f x.
  Proof.
    intros cur Hcur H x Hx. unfold fcp_bound in Hx.
    destruct (U64MAX - cur <=? 1) eqn:E; [lia|]. apply N.leb_gt in E.
    destruct H as [H|[j [Hj [[H1 H2] H3]]]]; [lia|].
    assert (EL : N.log2 (U64MAX - cur - 1) = j).
    { apply N.log2_unique; [lia|]. rewrite N.pow_succ_r'. lia. }
    rewrite EL in Hx.
    apply (flat_no_cp cur (cur + 2 ^ j) x); [lia|assumption|lia].
  Qed.

  Lemma fcp_next_cases : forall s, Inv f s ->
    (fcp_next f s = Ok (None, s) /\
     forall x, fc_current s < x <= fcp_bound (fc_current s) -> ~ change_point f x)
    \/
    (exists x, fcp_next f s = Ok (Some (x, f x), {| fc_current := x; fc_prev := f x |}) /\
               fc_current s < x /\ x < U64MAX /\ change_point f x /\
               forall y, fc_current s < y < x -> f y = f (fc_current s)).
  Proof.
    intros s HI. pose proof HI as [Hprev Hcur]. unfold fcp_next.
    assert (Em : (fc_prev s =? U64MAX) = false).
    { apply N.eqb_neq. rewrite Hprev. pose proof (notmax (fc_current s)). lia. }
    rewrite Em, andb_false_r.
    pose proof (exp_search_spec 70 0 (fc_current s) (fc_prev s)) as HE.
    change (2 ^ 0) with 1 in HE.
    specialize (HE ltac:(lia) ltac:(lia) Hcur (eq_sym Hprev) ltac:(intros j Hj; lia)).
    destruct (exp_search f 70 (fc_current s) (fc_prev s) 1) as [[step|]| | |];
      try contradiction; cbn [obind].
    - right. destruct HE as [j [Hstep [Hj [Hlt [Hne Hhalf]]]]].
      pose proof (pow2_le_63 j Hj) as Hp. rewrite <- Hstep in Hp.
      assert (E69 : 2 ^ N.of_nat 69 = 590295810358705651712) by (vm_compute; reflexivity).
      assert (B1 : fc_current s <= fc_current s + step / 2) by lia.
      assert (B2 : fc_current s + step / 2 <= fc_current s + step) by lia.
      assert (B3 : fc_current s + step <= U64MAX) by lia.
      assert (B4 : fc_current s + step - (fc_current s + step / 2) < 2 ^ N.of_nat 69)
        by (rewrite E69; lia).
      assert (B5 : forall y, fc_current s <= y < fc_current s + step / 2 -> f y = fc_prev s).
      { intros y Hy. rewrite Hprev.
        apply (flat_between (fc_current s) (fc_current s + step / 2) y); [lia|congruence|lia]. }
      destruct (bin_search_spec 69 (fc_current s) (fc_prev s)
                  (fc_current s + step / 2) (fc_current s + step)
                  (eq_sym Hprev) B1 B2 B3 B4 Hne B5)
        as [x [Hx [Hx1 [Hx2 Hx3]]]].
      exists x. rewrite Hx. cbn [obind].
      assert (Hxc : fc_current s < x).
      { destruct (N.eq_dec x (fc_current s)) as [->|]; [congruence|lia]. }
      repeat split; try assumption; try lia.
      + rewrite (Hx3 (x - 1)) by lia. congruence.
      + intros y Hy. rewrite <- Hprev. apply Hx3. lia.
    - left. split; [reflexivity|].
      apply none_guarantee; [assumption|]. rewrite <- Hprev. exact HE.
  Qed.

  Theorem fcp_step_sound : forall s s' x v,
    Inv f s -> fcp_next f s = Ok (Some (x, v), s') ->
    fc_current s < x /\ change_point f x /\ v = f x /\
    (forall y, fc_current s < y < x -> f y = f (fc_current s)) /\
    Inv f s' /\ fc_current s' = x.
  Proof.
    intros s s' x v HI H.
    destruct (fcp_next_cases s HI) as [[E _]|[x0 [E [H1 [H2 [H3 H4]]]]]];
      rewrite E in H; [discriminate|].
    injection H as -> <- <-. repeat split; try assumption; try (apply H3); cbn; lia.
  Qed.

  Theorem fcp_step_none : forall s s',
    Inv f s -> fcp_next f s = Ok (None, s') ->
    s' = s /\
    forall x, fc_current s < x <= fcp_bound (fc_current s) -> ~ change_point f x.
  Proof.
    intros s s' HI H.
    destruct (fcp_next_cases s HI) as [[E G]|[x0 [E _]]];
      rewrite E in H; [|discriminate].
    injection H as <-. split; [reflexivity|exact G].
  Qed.

  Theorem fcp_step_none_half : forall s s',
    Inv f s -> fcp_next f s = Ok (None, s') ->
    forall x, fc_current s < x <= fc_current s + (U64MAX - fc_current s) / 2 ->
              ~ change_point f x.
  Proof.
    intros s s' HI H x Hx. apply (proj2 (fcp_step_none s s' HI H)).
    pose proof (fcp_bound_half (fc_current s)). lia.
  Qed.

  Theorem fcp_step_none_2p63 : forall s s',
    Inv f s -> fcp_next f s = Ok (None, s') ->
    forall x, fc_current s < x <= 2 ^ 63 -> ~ change_point f x.
  Proof.
    intros s s' HI H x Hx. apply (proj2 (fcp_step_none s s' HI H)).
    pose proof (fcp_bound_2p63 (fc_current s) ltac:(lia)). lia.
  Qed.

  Theorem fcp_no_fuel_no_fail : forall s,
    s = fcp_new \/ Inv f s -> exists r, fcp_next f s = Ok r.
  Proof.
    intros s [->|HI].
    - eexists. apply fcp_first.
    - destruct (fcp_next_cases s HI) as [[E _]|[x0 [E _]]]; rewrite E; eexists; reflexivity.
  Qed.

  Theorem fcp_ends : forall s,
    Inv f s ->
    (forall x, fc_current s < x <= U64MAX -> ~ change_point f x) ->
    fcp_next f s = Ok (None, s).
  Proof.
    intros s HI Hno.
    destruct (fcp_next_cases s HI) as [[E _]|[x0 [_ [H1 [H2 [H3 _]]]]]]; [exact E|].
    exfalso. apply (Hno x0); [lia|exact H3].
  Qed.

  (* ---------------------------------------------------------------- *)
  (* iterating *)

  Lemma chain_lt : forall l c, chain f c l -> Forall (fun x => c < x) (map fst l).
  Proof.
    induction l as [|[x v] r IH]; intros c H; cbn [map fst].
    - constructor.
    - destruct H as [H1 [_ [_ [_ H5]]]]. constructor; [exact H1|].
      eapply Forall_impl; [|apply IH; exact H5]. cbn. intros a Ha. lia.
  Qed.

  Lemma chain_sorted : forall l c, chain f c l -> StronglySorted N.lt (c :: map fst l).
  Proof.
    induction l as [|[x v] r IH]; intros c H.
    - constructor; constructor.
    - constructor.
      + apply IH. apply H.
      + apply (chain_lt ((x, v) :: r) c H).
  Qed.

  Lemma chain_complete : forall l c,
    chain f c l ->
    forall x, c < x <= last (map fst l) c -> change_point f x -> In x (map fst l).
  Proof.
    induction l as [|[x0 v] r IH]; intros c H x Hx Hcp.
    - cbn in Hx. lia.
    - destruct H as [H1 [H2 [H3 [H4 H5]]]]. cbn [map fst] in *.
      rewrite last_cons_default in Hx.
      destruct (N.lt_trichotomy x x0) as [Hlt|[->|Hgt]].
      + exfalso. apply (H4 x); [lia|exact Hcp].
      + left. reflexivity.
      + right. apply (IH x0 H5); [lia|exact Hcp].
  Qed.

  Lemma collect_spec : forall n s acc,
    Inv f s ->
    exists l, fcp_collect f n s acc = Ok (rev acc ++ l) /\
              chain f (fc_current s) l /\ (length l <= n)%nat /\
              ((length l < n)%nat ->
               forall x, last (map fst l) (fc_current s) < x
                           <= fcp_bound (last (map fst l) (fc_current s)) ->
                         ~ change_point f x).
  Proof.
    induction n as [|n IH]; intros s acc HI.
    - exists []. cbn [fcp_collect]. rewrite app_nil_r.
      repeat split; cbn; try lia.
    - cbn [fcp_collect].
      destruct (fcp_next_cases s HI) as [[E G]|[x [E [H1 [H2 [H3 H4]]]]]];
        rewrite E; cbn [obind].
      + exists []. rewrite app_nil_r. repeat split; cbn [length]; try lia.
        intros _. exact G.
      + set (s' := {| fc_current := x; fc_prev := f x |}).
        assert (HI' : Inv f s') by (split; cbn; lia).
        destruct (IH s' ((x, f x) :: acc) HI') as [l [Hl1 [Hl2 [Hl3 Hl4]]]].
        exists ((x, f x) :: l). split; [|split; [|split]].
        * rewrite Hl1. cbn [rev]. rewrite <- app_assoc. reflexivity.
        * cbn [chain]. repeat split; try assumption; try (apply H3).
          intros y Hy [_ Hne]. apply Hne.
          rewrite (H4 y) by lia.
          destruct (N.eq_dec (y - 1) (fc_current s)) as [->|]; [reflexivity|].
          apply H4. lia.
        * cbn [length]. lia.
        * cbn [length map fst]. rewrite last_cons_default. intros Hlen.
          apply Hl4. lia.
  Qed.

  Theorem fcp_run : forall n,
    exists l, fcp_collect f n fcp_new [] = Ok l /\
      (n = 0%nat -> l = []) /\
      (n <> 0%nat ->
         exists tl, l = (0, f 0) :: tl /\ chain f 0 tl /\
           StronglySorted N.lt (map fst l) /\
           (length l <= n)%nat /\
           ((length l < n)%nat ->
              (forall x, last (map fst l) 0 < x <= fcp_bound (last (map fst l) 0) ->
                         ~ change_point f x) /\
              (forall x, change_point f x -> x <= 2 ^ 63 -> In x (map fst l)))).
  Proof.
    intros [|n].
    - exists []. split; [reflexivity|]. split; [reflexivity|congruence].
    - destruct (collect_spec n _ [(0, f 0)] Inv_first) as [tl [H1 [H2 [H3 H4]]]].
      cbn [fc_current] in *.
      exists ((0, f 0) :: tl). split; [|split; [discriminate|]].
      + cbn [fcp_collect]. rewrite fcp_first. cbn [obind]. rewrite H1. reflexivity.
      + intros _. exists tl. split; [reflexivity|]. split; [exact H2|].
        split; [apply (chain_sorted tl 0 H2)|].
        split; [cbn [length]; lia|].
        cbn [length map fst]. rewrite last_cons_default. intros Hlen.
        assert (G : forall x, last (map fst tl) 0 < x <= fcp_bound (last (map fst tl) 0) ->
                              ~ change_point f x) by (apply H4; lia).
        split; [exact G|].
        intros x Hcp Hx. right.
        destruct (N.le_gt_cases x (last (map fst tl) 0)) as [Hle|Hgt].
        * apply (chain_complete tl 0 H2); [|exact Hcp]. destruct Hcp. lia.
        * exfalso. apply (G x); [|exact Hcp]. split; [exact Hgt|].
          pose proof (fcp_bound_2p63 (last (map fst tl) 0) ltac:(lia)). lia.
  Qed.

End FC.

(* ------------------------------------------------------------------ *)
(* Examples: the hypotheses are satisfiable, and the iterator computes what the
   theorems say. *)

Definition f_const : N -> N := fun _ => 7.
Definition f_steps : N -> N := fun x =>
  (if 5 <=? x then 1 else 0) + (if 9 <=? x then 1 else 0) + (if 100 <=? x then 1 else 0).
(* a change point just beyond fcp_bound 0 = 2^63 *)
Definition f_tight : N -> N := fun x => if x <=? 9223372036854775808 then 0 else 1.

Example const_hyps :
  (forall a b, a <= b -> b <= U64MAX -> f_const a <= f_const b) /\
  (forall x, f_const x < U64MAX).
Proof. unfold f_const, U64MAX. split; intros; lia. Qed.

Example steps_hyps :
  (forall a b, a <= b -> b <= U64MAX -> f_steps a <= f_steps b) /\
  (forall x, f_steps x < U64MAX).
Proof.
  unfold f_steps, U64MAX. split.
  - intros a b Hab _.
    destruct (5 <=? a) eqn:A1, (9 <=? a) eqn:A2, (100 <=? a) eqn:A3,
             (5 <=? b) eqn:B1, (9 <=? b) eqn:B2, (100 <=? b) eqn:B3; lia.
  - intros x. destruct (5 <=? x), (9 <=? x), (100 <=? x); lia.
Qed.

Example tight_hyps :
  (forall a b, a <= b -> b <= U64MAX -> f_tight a <= f_tight b) /\
  (forall x, f_tight x < U64MAX).
Proof.
  unfold f_tight, U64MAX. split.
  - intros a b Hab _.
    destruct (a <=? 9223372036854775808) eqn:A, (b <=? 9223372036854775808) eqn:B; lia.
  - intros x. destruct (x <=? 9223372036854775808); lia.
Qed.

Example const_run : fcp_collect f_const 5 fcp_new [] = Ok [(0, 7)].
Proof. vm_compute. reflexivity. Qed.

Example const_ends :
  fcp_next f_const {| fc_current := 0; fc_prev := 7 |}
  = Ok (None, {| fc_current := 0; fc_prev := 7 |}).
Proof. vm_compute. reflexivity. Qed.

(* hypothesis of fcp_ends on the constant function *)
Example const_no_cp : Inv f_const {| fc_current := 0; fc_prev := 7 |} /\
                      forall x, ~ change_point f_const x.
Proof.
  split; [split; [vm_compute; reflexivity|vm_compute; discriminate]|].
  intros x [_ H]. apply H. reflexivity.
Qed.

Example steps_run :
  fcp_collect f_steps 10 fcp_new [] = Ok [(0, 0); (5, 1); (9, 2); (100, 3)].
Proof. vm_compute. reflexivity. Qed.

Example steps_run_short :
  fcp_collect f_steps 3 fcp_new [] = Ok [(0, 0); (5, 1); (9, 2)].
Proof. vm_compute. reflexivity. Qed.

Example steps_Inv : Inv f_steps {| fc_current := 9; fc_prev := 2 |}.
Proof. split; [vm_compute; reflexivity|vm_compute; discriminate]. Qed.

Example steps_next :
  fcp_next f_steps {| fc_current := 9; fc_prev := 2 |}
  = Ok (Some (100, 3), {| fc_current := 100; fc_prev := 3 |}).
Proof. vm_compute. reflexivity. Qed.

Example bound_0 : fcp_bound 0 = 2 ^ 63.
Proof. vm_compute. reflexivity. Qed.

(* the completeness bound cannot be improved: the change point 2^63 + 1 is lost *)
Example tight_example :
  Inv f_tight {| fc_current := 0; fc_prev := 0 |} /\
  change_point f_tight (fcp_bound 0 + 1) /\
  fcp_next f_tight {| fc_current := 0; fc_prev := 0 |}
  = Ok (None, {| fc_current := 0; fc_prev := 0 |}).
Proof.
  split; [|split].
  - split; [vm_compute; reflexivity|vm_compute; discriminate].
  - split; [vm_compute; reflexivity|vm_compute; discriminate].
  - vm_compute. reflexivity.
Qed.
