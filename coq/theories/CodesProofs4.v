(* CodesProofs4.v — omega (recursive block code), both endiannesses. *)
From DSI Require Import Base Prog Codes CodeDefs BitFacts CodesProofs CodesProofs2.
From Coq Require Import ZifyBool ZifyNat ZifyN.
Ltac Zify.zify_post_hook ::= Z.div_mod_to_equations.
Arguments N.add : simpl never. Arguments N.sub : simpl never. Arguments N.mul : simpl never.
Arguments N.div : simpl never. Arguments N.modulo : simpl never. Arguments N.pow : simpl never.
Arguments N.eqb : simpl never. Arguments N.ltb : simpl never. Arguments N.leb : simpl never.
Arguments N.testbit : simpl never. Arguments N.of_nat : simpl never. Arguments N.to_nat : simpl never.
Arguments N.log2 : simpl never. Arguments N.lxor : simpl never. Arguments N.land : simpl never.
Arguments N.lor : simpl never.
Open Scope prog_scope.

(* enough fuel for the recursion n -> log2 n -> ... -> 1 *)
Fixpoint enough (fuel : nat) (n : N) : Prop :=
  match fuel with O => False | S f => n <= 1 \/ enough f (N.log2 n) end.
Fixpoint odepth (fuel : nat) (n : N) : nat :=
  match fuel with O => O | S f => if n <=? 1 then O else S (odepth f (N.log2 n)) end.

Lemma log2_le_const a b c : a <= b -> N.log2 b = c -> N.log2 a <= c.
Proof. intros H <-. apply N.log2_le_mono. exact H. Qed.

Lemma enough_8 n : n < W64 -> enough 8 n.
Proof.
  intros H. cbn [enough].
  destruct (N.le_gt_cases n 1) as [H1|H1]; [left; exact H1|right].
  assert (N.log2 n <= 63) as L1 by (pose proof (log2_lt_64 n ltac:(lia) H); lia).
  destruct (N.le_gt_cases (N.log2 n) 1) as [H2|H2]; [left; exact H2|right].
  assert (N.log2 (N.log2 n) <= 5) as L2 by (apply (log2_le_const _ 63); [exact L1 | reflexivity]).
  destruct (N.le_gt_cases (N.log2 (N.log2 n)) 1) as [H3|H3]; [left; exact H3|right].
  assert (N.log2 (N.log2 (N.log2 n)) <= 2) as L3 by (apply (log2_le_const _ 5); [exact L2 | reflexivity]).
  destruct (N.le_gt_cases (N.log2 (N.log2 (N.log2 n))) 1) as [H4|H4]; [left; exact H4|right].
  assert (N.log2 (N.log2 (N.log2 (N.log2 n))) <= 1) as L4 by (apply (log2_le_const _ 2); [exact L3 | reflexivity]).
  left. exact L4.
Qed.
Lemma odepth_le fuel n : (odepth fuel n <= fuel)%nat.
Proof. revert n; induction fuel as [|f IH]; intros n; cbn [odepth]; [lia|]. destruct (n <=? 1); [lia|]. specialize (IH (N.log2 n)). lia. Qed.

Lemma mod_mod_pow2 n k l : l <= k -> (n mod 2 ^ k) mod 2 ^ l = n mod 2 ^ l.
Proof.
  intros H. replace k with (l + (k - l)) by lia. rewrite N.pow_add_r.
  rewrite N.mod_mul_r by (apply N.pow_nonzero; lia).
  rewrite N.mul_comm, N.mod_add by (apply N.pow_nonzero; lia).
  apply N.mod_mod. apply N.pow_nonzero. lia.
Qed.
Lemma odd_mod_pow2 a l : (2 * a + 1) mod 2 ^ (l + 1) = 2 * (a mod 2 ^ l) + 1.
Proof.
  rewrite N.pow_add_r. change (2 ^ 1) with 2. rewrite (N.mul_comm (2 ^ l) 2).
  rewrite N.mod_mul_r by (try lia; apply N.pow_nonzero; lia).
  replace ((2 * a + 1) mod 2) with 1 by (rewrite N.add_comm, N.mul_comm, N.mod_add by lia; reflexivity).
  replace ((2 * a + 1) / 2) with a by (rewrite N.add_comm, N.mul_comm, N.div_add by lia; reflexivity).
  lia.
Qed.
Lemma u64max_shift l : l <= 63 -> U64MAX / 2 ^ (64 - 1 - l) = N.ones (l + 1).
Proof.
  intros H. rewrite N.ones_equiv.
  assert (0 < 2 ^ (63 - l)) as Hp by apply pow2_pos.
  assert (2 ^ 64 = 2 ^ (l + 1) * 2 ^ (63 - l)) as HH by (rewrite <- N.pow_add_r; f_equal; lia).
  replace (64 - 1 - l) with (63 - l) by lia.
  assert (0 < 2 ^ (l + 1)) as Hq by apply pow2_pos.
  symmetry. apply (N.div_unique _ _ _ (2 ^ (63 - l) - 1)); [lia|].
  unfold U64MAX. change 18446744073709551615 with (2 ^ 64 - 1). rewrite HH. nia.
Qed.

(* the little-endian rotation of recursive_write: ((n << 1) | 1), masked under `checks` *)
Lemma le_rot (checks : bool) n : 2 <= n -> n < W64 ->
  let l := N.log2 n in
  let r := N.lor ((n * 2) mod W64) 1 in
  let n' := if checks then N.land r (U64MAX / 2 ^ (64 - 1 - l)) else r in
  n' mod 2 ^ (l + 1) = 1 + 2 * (n - 2 ^ l) /\ (checks = true -> n' < 2 ^ (l + 1)).
Proof.
  intros H2 Hn l r n'.
  pose proof (log2_bounds n ltac:(lia)) as [A B]. fold l in A, B.
  pose proof (log2_lt_64 n ltac:(lia) Hn) as HL. fold l in HL.
  assert (r = 2 * (n mod 2 ^ 63) + 1) as Hr.
  { unfold r. change W64 with (2 ^ 63 * 2). rewrite N.mul_mod_distr_r by lia.
    change 2 with (2 ^ 1) at 2. rewrite lor_disjoint by (change (2 ^ 1) with 2; lia). change (2 ^ 1) with 2. lia. }
  assert (r mod 2 ^ (l + 1) = 1 + 2 * (n - 2 ^ l)) as Hm.
  { rewrite Hr, odd_mod_pow2, mod_mod_pow2 by lia.
    rewrite N.pow_add_r in B. change (2 ^ 1) with 2 in B.
    replace (n mod 2 ^ l) with (n - 2 ^ l); [lia|].
    apply (N.mod_unique _ _ 1); lia. }
  unfold n'. destruct checks.
  - rewrite u64max_shift by lia. rewrite N.land_ones. split.
    + rewrite N.mod_mod by (apply N.pow_nonzero; lia). exact Hm.
    + intros _. apply N.mod_lt. apply N.pow_nonzero. lia.
  - split; [exact Hm | discriminate].
Qed.

Lemma field_le_from_snoc v i n :
  field_le_from v i (S n) = field_le_from v i n ++ [N.testbit v (i + N.of_nat n)].
Proof.
  revert i; induction n as [|n IH]; intros i.
  - cbn [field_le_from app]. do 2 f_equal. lia.
  - change (field_le_from v i (S (S n))) with (N.testbit v i :: field_le_from v (N.succ i) (S n)).
    rewrite IH. cbn [field_le_from app]. do 4 f_equal. lia.
Qed.

(* no section here: E is an explicit argument so that `destruct E` is possible *)
  Notation wr := (wr). Notation rd := (rd).

  (* the value whose (log2 m + 1)-bit field is the block of m *)
  Definition bv (E : endian) (m : N) : N :=
    match E with BE => m | LE => 1 + 2 * (m - 2 ^ N.log2 m) end.

  Lemma field_le_succ v n : field_le v (S n) = N.testbit v 0 :: field_le (v / 2) n.
  Proof.
    unfold field_le. cbn [field_le_from]. f_equal.
    rewrite field_le_from_shift. change (2 ^ N.succ 0) with 2. reflexivity.
  Qed.

  Lemma omega_block_field E m : 2 <= m -> omega_block E m = field E (bv E m) (N.to_nat (N.log2 m + 1)).
  Proof.
    intros Hm. unfold omega_block, bv. destruct E; [reflexivity|].
    replace (N.to_nat (N.log2 m + 1)) with (S (N.to_nat (N.log2 m))) by lia.
    cbn [field]. rewrite field_le_succ. f_equal.
    - rewrite N.bit0_odd. rewrite N.odd_add_mul_2. reflexivity.
    - f_equal. lia.
  Qed.
  Lemma bv_bound E m : 2 <= m -> bv E m < 2 ^ (N.log2 m + 1).
  Proof.
    intros Hm. pose proof (log2_bounds m ltac:(lia)) as [A B]. rewrite N.pow_add_r in *. change (2 ^ 1) with 2 in *.
    unfold bv. destruct E; lia.
  Qed.
  Lemma bv_first_bit E m : 2 <= m -> exists r, omega_block E m = true :: r.
  Proof.
    intros Hm. unfold omega_block. destruct E.
    - replace (N.to_nat (N.log2 m + 1)) with (S (N.to_nat (N.log2 m))) by lia.
      unfold field_be. unfold field_le.
      (* the last element of the LSB-first list is bit log2 m of m, which is set *)
      pose proof field_le_from_snoc as Hsnoc.
      rewrite Hsnoc, rev_app_distr. cbn [rev app]. eexists. f_equal.
      rewrite N.add_0_l, N2Nat.id. apply N.bit_log2. lia.
    - eexists. reflexivity.
  Qed.

  (* ---------------- write ---------------- *)
  Lemma wr_nil E checks : wr E checks (wret 0) [].
  Proof. intros s. cbn. rewrite app_nil_r. reflexivity. Qed.

  Lemma rec_write_wr E checks fuel n : n < W64 -> enough fuel n ->
    wr E checks (recursive_write E checks fuel n) (omega_blocks E fuel n).
  Proof.
    revert n; induction fuel as [|f IH]; intros n Hn He; [destruct He|].
    cbn [recursive_write omega_blocks].
    destruct (n <=? 1) eqn:Hc; [apply wr_nil|].
    destruct He as [He|He]; [lia|].
    assert (2 <= n) as H2 by lia.
    pose proof (log2_bounds n ltac:(lia)) as [A B].
    pose proof (log2_lt_64 n ltac:(lia) Hn) as HL.
    set (l := N.log2 n) in *.
    apply wr_seq.
    - apply IH; [unfold W64; lia | exact He].
    - rewrite (omega_block_field E n H2). fold l.
      destruct E eqn:HE.
      + (* BE: the block is n itself on l+1 bits *)
        apply wr_bits; [lia | right; exact B].
      + destruct (le_rot checks n H2 Hn) as [Hm Hc']. fold l in Hm, Hc'.
        eapply wr_ext; [|apply wr_bits; [lia | destruct checks; [right; apply Hc'; reflexivity | left; reflexivity]]].
        unfold fld. apply field_eq_mod. rewrite N2Nat.id. rewrite Hm.
        unfold bv. fold l. symmetry. apply N.mod_small.
        rewrite N.pow_add_r in *. change (2 ^ 1) with 2 in *. lia.
  Qed.

  Lemma omega_wr E checks n : n < U64MAX -> wr E checks (write_omega E checks n) (def_omega E n).
  Proof.
    intros Hn. unfold write_omega, def_omega.
    assert (n + 1 < W64) as H1 by (unfold U64MAX in Hn; unfold W64; lia).
    eapply wr_lift; [apply add64_ok; exact H1|].
    apply wr_seq.
    - apply rec_write_wr; [exact H1 | apply enough_8; exact H1].
    - eapply wr_ext; [|apply wr_bits; [lia | right; cbn; lia]].
      unfold fld. destruct E; reflexivity.
  Qed.

  (* ---------------- read ---------------- *)
  Lemma val_single E b : val E [b] = N.b2n b.
  Proof. destruct E, b; reflexivity. Qed.

  Lemma peek1 E strict cap b rest pos pk : 1 <= cap ->
    s_peek E strict cap 1 (mkr (b :: rest) pos pk) = Ok (N.b2n b, mkr (b :: rest) pos (N.max pk 1)).
  Proof.
    intros Hc. rewrite s_peek_spec by lia.
    replace (N.of_nat (length (b :: rest)) <? 1) with false by (cbn [length]; lia).
    rewrite andb_false_r. change (N.to_nat 1) with 1%nat. cbn [app firstn]. rewrite val_single. reflexivity.
  Qed.

  Lemma omega_blocks_rd E fw : forall m, 1 <= m -> m < W64 -> enough fw m ->
    forall fr strict cap X pos pk, 1 <= cap ->
    exists pk', rrun (sprims E strict cap) (read_omega_loop E (odepth fw m + fr) 1) (mkr (omega_blocks E fw m ++ X) pos pk)
              = rrun (sprims E strict cap) (read_omega_loop E fr m) (mkr X (pos + LEN (omega_blocks E fw m)) pk').
  Proof.
    induction fw as [|f IH]; intros m Hm1 Hm He fr strict cap X pos pk Hcap; [destruct He|].
    cbn [omega_blocks odepth].
    destruct (m <=? 1) eqn:Hc.
    - assert (m = 1) as -> by lia. exists pk. cbn [app plus]. unfold LEN. cbn [length].
      replace (pos + N.of_nat 0) with pos by lia. reflexivity.
    - destruct He as [He|He]; [lia|].
      assert (2 <= m) as H2 by lia.
      pose proof (log2_bounds m ltac:(lia)) as [A B].
      pose proof (log2_lt_64 m ltac:(lia) Hm) as HL.
      set (l := N.log2 m) in *.
      assert (1 <= l) as Hl1. { apply N.log2_le_pow2; [lia|]. change (2 ^ 1) with 2. lia. }
      assert (LEN (omega_block E m) = l + 1) as HLb.
      { rewrite (omega_block_field E m H2), LEN_field. fold l. lia. }
      rewrite LEN_app, HLb.
      rewrite <- app_assoc. rewrite Nat.add_succ_comm.
      destruct (IH l Hl1 ltac:(unfold W64; lia) He (S fr) strict cap (omega_block E m ++ X) pos pk Hcap) as [pk1 ->].
      destruct (bv_first_bit E m H2) as [r Hr].
      cbn [read_omega_loop rrun sprims p_peek]. rewrite Hr. cbn [app]. rewrite peek1 by exact Hcap.
      cbn [N.b2n]. change (1 =? 0) with false. cbn iota.
      rewrite (add64_ok l 1) by (unfold W64; lia). cbn [rlift rrun sprims p_bits].
      change (true :: r ++ X) with ((true :: r) ++ X). rewrite <- Hr.
      rewrite (omega_block_field E m H2). fold l.
      fold (mkr (field E (bv E m) (N.to_nat (l + 1)) ++ X) (pos + LEN (omega_blocks E f l)) (N.max pk1 1)).
      rewrite s_bits_field by lia.
      pose proof (bv_bound E m H2) as Hb. fold l in Hb. rewrite (N.mod_small _ _ Hb).
      exists 0.
      replace (pos + LEN (omega_blocks E f l) + (l + 1)) with (pos + (LEN (omega_blocks E f l) + (l + 1))) by lia.
      unfold bv. fold l. destruct E.
      + reflexivity.
      + rewrite (shl64_one l) by lia. cbn [rlift].
        replace ((1 + 2 * (m - 2 ^ l)) / 2) with (m - 2 ^ l).
        2:{ rewrite N.add_comm, N.mul_comm, N.div_add_l by lia. cbn. lia. }
        rewrite N.lor_comm. replace (2 ^ l) with (1 * 2 ^ l) at 1 by lia.
        rewrite lor_disjoint by (rewrite N.pow_add_r in B; change (2 ^ 1) with 2 in B; lia).
        replace (1 * 2 ^ l + (m - 2 ^ l)) with m by lia. reflexivity.
  Qed.

  Lemma omega_rd E n : n < U64MAX -> rd E 1 (read_omega E) (def_omega E n) n.
  Proof.
    intros Hn strict cap post pos pk Hcap. unfold read_omega, def_omega, omega_fuel.
    assert (n + 1 < W64) as H1 by (unfold U64MAX in Hn; unfold W64; lia).
    pose proof (odepth_le 8 (n + 1)) as Hd.
    replace 70%nat with (odepth 8 (n + 1) + S (69 - odepth 8 (n + 1)))%nat by lia.
    rewrite <- app_assoc.
    destruct (omega_blocks_rd E 8 (n + 1) ltac:(lia) H1 (enough_8 _ H1) (S (69 - odepth 8 (n + 1))) strict cap
                ([false] ++ post) pos pk Hcap) as [pk1 ->].
    cbn [read_omega_loop rrun sprims p_peek app]. rewrite peek1 by exact Hcap.
    cbn [N.b2n]. change (0 =? 0) with true. cbn iota.
    cbn [rrun sprims p_skipap]. unfold s_skipap. cbn [mkr sr_peeked].
    destruct (N.max pk1 1 <? 1) eqn:Hp; [lia|].
    fold (mkr ([false] ++ post) (pos + LEN (omega_blocks E 8 (n + 1))) (N.max pk1 1)).
    rewrite (s_take_app strict 1 [false] post) by reflexivity.
    cbn [mkr sr_rest sr_pos]. rewrite (sub64_ok (n + 1) 1) by lia. cbn [rlift rrun].
    eexists. rewrite LEN_app. replace (LEN [false]) with 1 by reflexivity.
    replace (n + 1 - 1) with n by lia. rewrite N.add_assoc. reflexivity.
  Qed.

  Lemma rec_len_ok E fuel n : n < W64 -> 1 <= n -> enough fuel n ->
    recursive_len fuel n = Some (LEN (omega_blocks E fuel n) + 1).
  Proof.
    revert n; induction fuel as [|f IH]; intros n Hn H1 He; [destruct He|].
    cbn [recursive_len omega_blocks]. destruct (n <=? 1) eqn:Hc; [reflexivity|].
    destruct He as [He|He]; [lia|].
    assert (2 <= n) as H2 by lia.
    pose proof (log2_lt_64 n ltac:(lia) Hn) as HL.
    assert (1 <= N.log2 n) as Hl1. { apply N.log2_le_pow2; [lia|]. change (2 ^ 1) with 2. lia. }
    rewrite IH by (try assumption; unfold W64; lia).
    rewrite LEN_app, (omega_block_field E n H2), LEN_field. f_equal. lia.
  Qed.
  Lemma len_omega_ok E n : n < U64MAX -> len_omega n = Some (LEN (def_omega E n)).
  Proof.
    intros Hn. unfold len_omega, def_omega.
    assert (n + 1 < W64) as H1 by (unfold U64MAX in Hn; unfold W64; lia).
    rewrite add64_ok by exact H1. rewrite (rec_len_ok E) by (try lia; apply enough_8; exact H1).
    rewrite LEN_app. reflexivity.
  Qed.
