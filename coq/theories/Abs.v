(* Abs.v — abstraction functions, invariants and the simulation relation between the L2
   word machines (Writer.v, Reader.v) and the L0 bit-list specification (Prog.v).
   Definitions and the generic simulation lemma only; the per-operation proofs are in
   WriterProofs.v / ReaderProofs.v. *)
From DSI Require Export Writer Reader.

(* the bits of a logical W-bit word in stream order *)
Definition bits_of_word (E : endian) (W w : N) : bits := field E w (N.to_nat W).
Definition bits_of_words (E : endian) (W : N) (ws : list N) : bits := flat_map (bits_of_word E W) ws.

Definition wordsize_ok (W : N) : Prop := 8 <= W /\ W mod 8 = 0.

(* ------------------------------------------------------------------ writer *)
(* bits written but not yet delivered: BE keeps them in the low (W - space) bits of the buffer,
   most significant first; LE in bits [space, W), least significant first *)
Definition pending (E : endian) (W : N) (s : bwriter) : bits :=
  let used := N.to_nat (W - bw_space s) in
  match E with
  | BE => field_be (bw_buffer s) used
  | LE => field_le (bw_buffer s / 2 ^ bw_space s) used
  end.

Definition wabs (E : endian) (W : N) (s : bwriter) : bits :=
  bits_of_words E W (wk_words (bw_sink s)) ++ pending E W s.

Definition WInv (W : N) (s : bwriter) : Prop :=
  wordsize_ok W /\ 0 < bw_space s /\ bw_space s <= W /\ bw_buffer s < 2 ^ W /\
  Forall (fun w => w < 2 ^ W) (wk_words (bw_sink s)).

(* writer outcomes: the machine does what the spec does, or reports a full sink *)
Definition wosim {A} (E : endian) (W : N) (o1 : outcome (A * bits)) (o2 : outcome (A * bwriter)) : Prop :=
  match o1 with
  | Ok (a, b1) =>
      (exists s2, o2 = Ok (a, s2) /\ WInv W s2 /\ wabs E W s2 = b1) \/ o2 = Err
  | Err => o2 = Err
  | Fail | Fuel => True
  end.
Definition wrel (E : endian) (W : N) (b : bits) (s : bwriter) : Prop := WInv W s /\ wabs E W s = b.

(* ------------------------------------------------------------------ reader *)
(* all the bits the backend can deliver *)
Definition src_bits (E : endian) (W : N) (k : wsrc) : bits := bits_of_words E W (ws_words k).

(* the bits held in the buffer, in stream order: BE keeps them at the top of the 2W-bit buffer *)
Definition window (E : endian) (W : N) (s : breader) : bits :=
  let n := N.to_nat (br_bits s) in
  match E with
  | BE => field_be (br_buffer s / 2 ^ (2 * W - br_bits s)) n
  | LE => field_le (br_buffer s) n
  end.

(* reader invariant at stream position pos: the buffer holds exactly the next bits_in_buffer
   bits of the (zero-extended) stream, and every other bit of the buffer is zero *)
Definition RInv (E : endian) (W : N) (s : breader) (pos : N) : Prop :=
  wordsize_ok W /\ W <= 64 /\
  br_bits s < 2 * W /\
  pos + br_bits s = ws_idx (br_src s) * W /\
  Forall (fun w => w < 2 ^ W) (ws_words (br_src s)) /\
  (ws_strict (br_src s) = true -> ws_idx (br_src s) <= N.of_nat (length (ws_words (br_src s)))) /\
  match E with
  | BE => br_buffer s < 2 ^ (2 * W) /\ br_buffer s mod 2 ^ (2 * W - br_bits s) = 0
  | LE => br_buffer s < 2 ^ br_bits s
  end /\
  window E W s = take_pad (N.to_nat (br_bits s)) (skipn (N.to_nat pos) (src_bits E W (br_src s))).

(* the L0 reader the machine state stands for; the spec's "peeked" allowance never exceeds
   what the machine's buffer actually holds *)
Definition rabs (E : endian) (W : N) (s : breader) (pos peeked : N) : sreader :=
  {| sr_rest := skipn (N.to_nat pos) (src_bits E W (br_src s)); sr_pos := pos; sr_peeked := peeked |}.
Definition rrel (E : endian) (W : N) (r : sreader) (s : breader) : Prop :=
  exists pos peeked, RInv E W s pos /\ peeked <= br_bits s /\ r = rabs E W s pos peeked.

(* unbuffered reader (u64 words): the position is the state *)
Definition UInv (s : ureader) : Prop :=
  Forall (fun w => w < 2 ^ 64) (ws_words (ur_src s)) /\ ur_index s < 2 ^ 63.
Definition uabs (E : endian) (s : ureader) (peeked : N) : sreader :=
  {| sr_rest := skipn (N.to_nat (ur_index s)) (src_bits E 64 (ur_src s)); sr_pos := ur_index s; sr_peeked := peeked |}.
Definition urel (E : endian) (r : sreader) (s : ureader) : Prop := UInv s /\ exists peeked, r = uabs E s peeked.

(* ------------------------------------------------------------------ simulation *)
(* spec outcome vs machine outcome: a defined spec outcome (Ok / Err) is reproduced exactly;
   where the spec is outside its contract (Fail) or diverges (Fuel) nothing is claimed *)
Definition osim {A S1 S2} (R : S1 -> S2 -> Prop) (o1 : outcome (A * S1)) (o2 : outcome (A * S2)) : Prop :=
  match o1 with
  | Ok (a, s1) => exists s2, o2 = Ok (a, s2) /\ R s1 s2
  | Err => o2 = Err
  | Fail | Fuel => True
  end.
Definition osim0 {S1 S2} (R : S1 -> S2 -> Prop) (o1 : outcome S1) (o2 : outcome S2) : Prop :=
  match o1 with
  | Ok s1 => exists s2, o2 = Ok s2 /\ R s1 s2
  | Err => o2 = Err
  | Fail | Fuel => True
  end.

Record rprims_sim {S1 S2} (R : S1 -> S2 -> Prop) (P1 : rprims S1) (P2 : rprims S2) : Prop := {
  sim_bits : forall n s1 s2, R s1 s2 -> osim R (p_bits P1 n s1) (p_bits P2 n s2);
  sim_unary : forall s1 s2, R s1 s2 -> osim R (p_unary P1 s1) (p_unary P2 s2);
  sim_peek : forall n s1 s2, R s1 s2 -> osim R (p_peek P1 n s1) (p_peek P2 n s2);
  sim_skipap : forall n s1 s2, R s1 s2 -> osim0 R (p_skipap P1 n s1) (p_skipap P2 n s2);
}.

Lemma run_simulation {S1 S2 A} (R : S1 -> S2 -> Prop) (P1 : rprims S1) (P2 : rprims S2) :
  rprims_sim R P1 P2 ->
  forall (p : rprog A) s1 s2, R s1 s2 -> osim R (rrun P1 p s1) (rrun P2 p s2).
Proof.
  intros HS p. induction p as [a | n k IH | k IH | n k IH | n k IH | n k IH | ]; intros s1 s2 HR; cbn [rrun].
  - exists s2. split; [reflexivity | exact HR].
  - pose proof (sim_bits R P1 P2 HS n s1 s2 HR) as H. destruct (p_bits P1 n s1) as [[v s1'] | | | ]; cbn [osim] in H |- *; try exact I.
    + destruct H as [s2' [-> HR']]. apply IH; exact HR'.
    + rewrite H. reflexivity.
  - pose proof (sim_unary R P1 P2 HS s1 s2 HR) as H. destruct (p_unary P1 s1) as [[v s1'] | | | ]; cbn [osim] in H |- *; try exact I.
    + destruct H as [s2' [-> HR']]. apply IH; exact HR'.
    + rewrite H. reflexivity.
  - pose proof (sim_peek R P1 P2 HS n s1 s2 HR) as H. destruct (p_peek P1 n s1) as [[v s1'] | | | ]; cbn [osim] in H |- *; try exact I.
    + destruct H as [s2' [-> HR']]. apply IH; exact HR'.
    + rewrite H. apply IH; exact HR.
  - pose proof (sim_peek R P1 P2 HS n s1 s2 HR) as H. destruct (p_peek P1 n s1) as [[v s1'] | | | ]; cbn [osim] in H |- *; try exact I.
    + destruct H as [s2' [-> HR']]. apply IH; exact HR'.
    + rewrite H. reflexivity.
  - pose proof (sim_skipap R P1 P2 HS n s1 s2 HR) as H. destruct (p_skipap P1 n s1) as [s1' | | | ]; cbn [osim0] in H |- *; try exact I.
    + destruct H as [s2' [-> HR']]. apply IH; exact HR'.
    + rewrite H. reflexivity.
  - exact I.
Qed.

(* writers: a program run on the machine does what it does on the bit list, or the sink fills up *)
Record wprims_sim (E : endian) (W : N) (Q1 : wprims bits) (Q2 : wprims bwriter) : Prop := {
  wsim_bits : forall v n b s, wrel E W b s -> wosim E W (q_bits Q1 v n b) (q_bits Q2 v n s);
  wsim_unary : forall x b s, wrel E W b s -> wosim E W (q_unary Q1 x b) (q_unary Q2 x s);
}.

Lemma wrun_simulation {A} (E : endian) (W : N) (Q1 : wprims bits) (Q2 : wprims bwriter) :
  wprims_sim E W Q1 Q2 ->
  forall (p : wprog A) b s, wrel E W b s -> wosim E W (wrun Q1 p b) (wrun Q2 p s).
Proof.
  intros HS p. induction p as [a | v n k IH | x k IH | ]; intros b s HR; cbn [wrun].
  - left. exists s. destruct HR as [H1 H2]. split; [reflexivity | split; assumption].
  - pose proof (wsim_bits E W Q1 Q2 HS v n b s HR) as H. destruct (q_bits Q1 v n b) as [[r b'] | | | ]; cbn [wosim] in H |- *; try exact I.
    + destruct H as [[s' [-> [HI HA]]] | ->].
      * apply IH. split; assumption.
      * destruct (wrun Q1 (k r) b') as [[a' b''] | | | ]; cbn [wosim]; auto.
    + rewrite H. reflexivity.
  - pose proof (wsim_unary E W Q1 Q2 HS x b s HR) as H. destruct (q_unary Q1 x b) as [[r b'] | | | ]; cbn [wosim] in H |- *; try exact I.
    + destruct H as [[s' [-> [HI HA]]] | ->].
      * apply IH. split; assumption.
      * destruct (wrun Q1 (k r) b') as [[a' b''] | | | ]; cbn [wosim]; auto.
    + rewrite H. reflexivity.
  - exact I.
Qed.
