(* LenProofs.v — property C20, code-specific part: for every code of the library (ids of
   Run.v / CodesSummary.v) the codewords of distinct values of the domain satisfy Kraft's
   inequality (they form a prefix-free set, because the library's own read program decodes them
   instantaneously), and the codeword length — equivalently the value of the library's length
   function — is monotone (non-decreasing) in the encoded value. *)
From Coq Require Import QArith Qpower FinFun.
From DSI Require Import Base Prog Codes CodeDefs BitFacts CodesProofs CodesProofs2 TableCheck
  CodesProofs3 CodesProofs4 CodesProofs5 GenProofs Run CodesSummary VByteProofs Kraft.
From DSI.Gen Require Import GenTables GenParams.
From Coq Require Import ZifyBool ZifyNat ZifyN.
Ltac Zify.zify_post_hook ::= Z.div_mod_to_equations.
Arguments N.add : simpl never. Arguments N.sub : simpl never. Arguments N.mul : simpl never.
Arguments N.div : simpl never. Arguments N.modulo : simpl never. Arguments N.pow : simpl never.
Arguments N.eqb : simpl never. Arguments N.ltb : simpl never. Arguments N.leb : simpl never.
Arguments N.testbit : simpl never. Arguments N.of_nat : simpl never. Arguments N.to_nat : simpl never.
Arguments N.log2 : simpl never.
Close Scope Q_scope.
Open Scope N_scope.

(* ================================================================== *)
(* Part 1: Kraft's inequality for the codes of the library             *)

(* the library's read program of code id (parameter p), run on the L0 reader (non-strict, look-ahead
   capacity maxcap) from position 0, as a decoder bits -> option (value, remaining bits) *)
Definition code_dec (E : endian) (id p : N) (bs : bits) : option (N * bits) :=
  match rrun (sprims E false maxcap) (sel_read E buf_params id p 0) (mkr bs 0 0) with
  | Ok (v, s) => Some (v, sr_rest s)
  | _ => None
  end.

Lemma code_dec_cw E id p v post :
  valid id p v -> code_dec E id p (code_cw E id p v ++ post) = Some (v, post).
Proof.
  intros H. destruct (codes_correct E buf_params false id p 0 v H) as (_ & Hr & _).
  destruct (Hr false maxcap post 0 0 (N.le_refl _)) as [pk' Hrun].
  unfold code_dec. rewrite Hrun. reflexivity.
Qed.

(* distinct values have distinct, pairwise prefix-incomparable codewords, and the Kraft sum is <= 1 *)
Theorem code_prefix_free E id p ns :
  NoDup ns -> Forall (fun v => valid id p v) ns ->
  NoDup (map (code_cw E id p) ns) /\
  (forall a b, In a (map (code_cw E id p) ns) -> In b (map (code_cw E id p) ns) -> prefix a b -> a = b) /\
  (wsum (map (code_cw E id p) ns) <= 1)%Q.
Proof.
  intros Hnd Hv.
  exact (kraft_of_decoder (code_cw E id p) (fun v => valid id p v) (code_dec E id p)
           (fun n post H => code_dec_cw E id p n post H) ns Hnd Hv).
Qed.

Theorem code_kraft E id p ns :
  NoDup ns -> Forall (fun v => valid id p v) ns ->
  (wsum (map (code_cw E id p) ns) <= 1)%Q.
Proof. intros Hnd Hv. apply (code_prefix_free E id p ns Hnd Hv). Qed.

(* the first n values 0 .. n-1 *)
Definition firstN (n : nat) : list N := map N.of_nat (seq 0 n).
Lemma firstN_NoDup n : NoDup (firstN n).
Proof.
  unfold firstN. apply FinFun.Injective_map_NoDup; [|apply seq_NoDup].
  intros a b Hab. lia.
Qed.
Lemma firstN_In n v : In v (firstN n) -> v < N.of_nat n.
Proof.
  unfold firstN. intros H. apply in_map_iff in H. destruct H as [x [<- Hx]].
  apply in_seq in Hx. lia.
Qed.

Theorem code_kraft_first E id p n :
  (forall v, v < N.of_nat n -> valid id p v) ->
  (wsum (map (code_cw E id p) (map N.of_nat (seq 0 n))) <= 1)%Q.
Proof.
  intros H. apply (code_kraft E id p (firstN n)); [apply firstN_NoDup|].
  apply Forall_forall. intros v Hv. apply H. apply firstN_In. exact Hv.
Qed.

(* ---- in terms of the library's length functions ---- *)
(* weight of a length: 1 / 2^l *)
Definition lweight (l : N) : Q := 1 # pow2pos (N.to_nat l).
Definition lsum (ls : list N) : Q := fold_right (fun l acc => (lweight l + acc)%Q) 0%Q ls.

Lemma lweight_Qpower l : (lweight l == (1 # 2) ^ Z.of_N l)%Q.
Proof.
  pose proof (weight_Qpower (repeat false (N.to_nat l))) as H.
  unfold weight in H. rewrite repeat_length in H. unfold lweight.
  rewrite H. rewrite N_nat_Z. reflexivity.
Qed.

Lemma weight_len E D id p fl v l :
  valid id p v -> sel_len D id p fl v = Some l ->
  weight (code_cw E id p v) = lweight l.
Proof.
  intros H Hl. destruct (codes_correct E D false id p fl v H) as (_ & _ & HL).
  rewrite HL in Hl. injection Hl as <-. unfold weight, lweight, LEN. rewrite Nat2N.id. reflexivity.
Qed.

Lemma weight_len_Qpower E D id p fl v l :
  valid id p v -> sel_len D id p fl v = Some l ->
  (weight (code_cw E id p v) == (1 # 2) ^ Z.of_N l)%Q.
Proof. intros H Hl. rewrite (weight_len E D id p fl v l H Hl). apply lweight_Qpower. Qed.

Lemma lsum_wsum E D id p fl ns : forall ls,
  Forall (fun v => valid id p v) ns ->
  Forall2 (fun v l => sel_len D id p fl v = Some l) ns ls ->
  lsum ls = wsum (map (code_cw E id p) ns).
Proof.
  induction ns as [|v ns IH]; intros ls Hv HF; inversion HF; subst; [reflexivity|].
  inversion Hv; subst. cbn [map lsum fold_right]. rewrite wsum_cons.
  fold (lsum l'). rewrite (IH l') by assumption.
  rewrite (weight_len E D id p fl v y) by assumption. reflexivity.
Qed.

(* Kraft's inequality on the values of the library's length function *)
Theorem len_kraft D id p fl ns ls :
  NoDup ns -> Forall (fun v => valid id p v) ns ->
  Forall2 (fun v l => sel_len D id p fl v = Some l) ns ls ->
  (lsum ls <= 1)%Q.
Proof.
  intros Hnd Hv HF. rewrite (lsum_wsum BE D id p fl ns ls Hv HF).
  apply code_kraft; assumption.
Qed.

(* ================================================================== *)
(* Part 2: the lengths are monotone in the value                       *)

Lemma LEN_nil : LEN [] = 0.
Proof. reflexivity. Qed.

(* ---------------- minimal binary ---------------- *)
Definition mbl (x u : N) : N :=
  if x <? 2 ^ (N.log2 u + 1) - u then N.log2 u else N.log2 u + 1.
Lemma LEN_mb E x u : LEN (def_minimal_binary E x u) = mbl x u.
Proof.
  unfold def_minimal_binary, mbl. cbv zeta.
  destruct (x <? 2 ^ (N.log2 u + 1) - u); [apply LEN_fld|].
  rewrite LEN_app, LEN_fld. reflexivity.
Qed.
Lemma mbl_mono x y u : x <= y -> mbl x u <= mbl y u.
Proof.
  intros H. unfold mbl.
  destruct (x <? 2 ^ (N.log2 u + 1) - u) eqn:Hx; destruct (y <? 2 ^ (N.log2 u + 1) - u) eqn:Hy; lia.
Qed.
Lemma mbl_bounds x u : N.log2 u <= mbl x u <= N.log2 u + 1.
Proof. unfold mbl. destruct (x <? 2 ^ (N.log2 u + 1) - u); lia. Qed.

Lemma mb_len_mono E u x y : x <= y -> LEN (def_minimal_binary E x u) <= LEN (def_minimal_binary E y u).
Proof. intros H. rewrite !LEN_mb. apply mbl_mono. exact H. Qed.

(* ---------------- unary, gamma, delta ---------------- *)
Lemma unary_len_mono a b : a <= b -> LEN (unary a) <= LEN (unary b).
Proof. intros H. rewrite !LEN_unary. lia. Qed.

Lemma gamma_len_mono E a b : a <= b -> LEN (def_gamma E a) <= LEN (def_gamma E b).
Proof.
  intros H. rewrite !def_gamma_len.
  pose proof (N.log2_le_mono (a + 1) (b + 1) ltac:(lia)). lia.
Qed.

Lemma def_delta_len' E n :
  LEN (def_delta E n) = N.log2 (n + 1) + (2 * N.log2 (N.log2 (n + 1) + 1) + 1).
Proof. unfold def_delta. cbv zeta. rewrite LEN_app, LEN_fld, def_gamma_len. lia. Qed.
Lemma delta_len_mono E a b : a <= b -> LEN (def_delta E a) <= LEN (def_delta E b).
Proof.
  intros H. rewrite !def_delta_len'.
  pose proof (N.log2_le_mono (a + 1) (b + 1) ltac:(lia)) as H1.
  pose proof (N.log2_le_mono (N.log2 (a + 1) + 1) (N.log2 (b + 1) + 1) ltac:(lia)) as H2. lia.
Qed.

(* ---------------- omega ---------------- *)
Lemma LEN_omega_block E m : 2 <= m -> LEN (omega_block E m) = N.log2 m + 1.
Proof. intros H. rewrite (omega_block_field E m H), LEN_field. lia. Qed.

(* monotone for every fuel (no bound on the arguments is needed) *)
Lemma omega_blocks_mono E fuel : forall a b, a <= b ->
  LEN (omega_blocks E fuel a) <= LEN (omega_blocks E fuel b).
Proof.
  induction fuel as [|f IH]; intros a b H; cbn [omega_blocks]; [lia|].
  destruct (a <=? 1) eqn:Ha; [rewrite LEN_nil; lia|].
  destruct (b <=? 1) eqn:Hb; [lia|].
  rewrite !LEN_app, !LEN_omega_block by lia.
  pose proof (N.log2_le_mono a b H) as HL. specialize (IH _ _ HL). lia.
Qed.
Lemma omega_len_mono E a b : a <= b -> LEN (def_omega E a) <= LEN (def_omega E b).
Proof.
  intros H. unfold def_omega. rewrite !LEN_app.
  pose proof (omega_blocks_mono E 8 (a + 1) (b + 1) ltac:(lia)). lia.
Qed.

(* ---------------- Rice, pi, exp-Golomb ---------------- *)
Lemma rice_len_mono E k a b : a <= b -> LEN (def_rice E k a) <= LEN (def_rice E k b).
Proof.
  intros H. rewrite !def_rice_len.
  pose proof (N.div_le_mono a b (2 ^ k) ltac:(apply N.pow_nonzero; lia) H). lia.
Qed.
Lemma pi_len_mono E k a b : a <= b -> LEN (def_pi E k a) <= LEN (def_pi E k b).
Proof.
  intros H. unfold def_pi. cbv zeta. rewrite !LEN_app, !LEN_fld.
  pose proof (N.log2_le_mono (a + 1) (b + 1) ltac:(lia)) as HL.
  pose proof (rice_len_mono E k _ _ HL). lia.
Qed.
Lemma exp_golomb_len_mono E k a b : a <= b -> LEN (def_exp_golomb E k a) <= LEN (def_exp_golomb E k b).
Proof.
  intros H. unfold def_exp_golomb. rewrite !LEN_app, !LEN_fld.
  pose proof (N.div_le_mono a b (2 ^ k) ltac:(apply N.pow_nonzero; lia) H) as HD.
  pose proof (gamma_len_mono E _ _ HD). lia.
Qed.

(* ---------------- Golomb ---------------- *)
Lemma golomb_len_mono E b v1 v2 : 0 < b -> v1 <= v2 ->
  LEN (def_golomb E b v1) <= LEN (def_golomb E b v2).
Proof.
  intros Hb H. unfold def_golomb. rewrite !LEN_app, !LEN_unary, !LEN_mb.
  pose proof (N.div_le_mono v1 v2 b ltac:(lia) H) as HD.
  pose proof (N.div_mod v1 b ltac:(lia)) as E1. pose proof (N.div_mod v2 b ltac:(lia)) as E2.
  set (q1 := v1 / b) in *. set (q2 := v2 / b) in *.
  set (r1 := v1 mod b) in *. set (r2 := v2 mod b) in *. clearbody q1 q2 r1 r2.
  destruct (N.eq_dec q1 q2) as [Hq|Hq].
  - rewrite Hq in *. assert (r1 <= r2) as Hr by lia.
    pose proof (mbl_mono r1 r2 b Hr). lia.
  - pose proof (mbl_bounds r1 b). pose proof (mbl_bounds r2 b). lia.
Qed.

(* ---------------- zeta ---------------- *)
Lemma zeta_u_mono h1 h2 k : 0 < k -> h1 < h2 -> h2 * k < 64 -> zeta_u h1 k <= zeta_u h2 k.
Proof.
  intros Hk Hh H2. unfold zeta_u.
  assert ((h1 + 1) * k <= h2 * k) as Hle by (apply N.mul_le_mono_r; lia).
  assert (h1 * k <= (h1 + 1) * k) as Hle1 by (apply N.mul_le_mono_r; lia).
  destruct ((h1 + 1) * k <? 64) eqn:H1; [|lia].
  pose proof (N.pow_le_mono_r 2 _ _ ltac:(lia) Hle) as P1.
  pose proof (N.pow_le_mono_r 2 _ _ ltac:(lia) Hle1) as P0.
  destruct ((h2 + 1) * k <? 64) eqn:H3.
  - replace ((h1 + 1) * k) with (h1 * k + k) in * by lia.
    replace ((h2 + 1) * k) with (h2 * k + k) by lia.
    rewrite !N.pow_add_r in *.
    assert (2 ^ (h1 * k) <= 2 ^ (h2 * k)) as PA by lia.
    pose proof (pow2_pos k) as PK.
    set (A := 2 ^ (h1 * k)) in *. set (B := 2 ^ (h2 * k)) in *. set (K := 2 ^ k) in *.
    nia.
  - assert (2 ^ (h2 * k) <= 2 ^ 63) as P2 by (apply N.pow_le_mono_r; lia).
    change (2 ^ 63) with 9223372036854775808 in P2. unfold W64. lia.
Qed.

Lemma zeta_len_mono E k v1 v2 : 0 < k -> k < 64 -> v1 <= v2 -> v2 < U64MAX ->
  LEN (cw_zeta E k v1) <= LEN (cw_zeta E k v2).
Proof.
  intros Hk0 Hk H Hv2.
  destruct (zeta_facts k v2 Hk0 Hk Hv2) as (Hhk2 & _ & Hle2 & _).
  destruct (zeta_facts k v1 Hk0 Hk ltac:(lia)) as (Hhk1 & _ & Hle1 & _).
  unfold cw_zeta. cbv zeta. cbv zeta in Hhk2, Hle2, Hhk1, Hle1.
  rewrite !LEN_app, !LEN_unary, !LEN_mb.
  pose proof (N.log2_le_mono (v1 + 1) (v2 + 1) ltac:(lia)) as HL.
  pose proof (N.div_le_mono _ _ k ltac:(lia) HL) as HD.
  set (h1 := N.log2 (v1 + 1) / k) in *. set (h2 := N.log2 (v2 + 1) / k) in *.
  clearbody h1 h2.
  destruct (N.eq_dec h1 h2) as [Hq|Hq].
  - subst h1.
    pose proof (mbl_mono (v1 + 1 - 2 ^ (h2 * k)) (v2 + 1 - 2 ^ (h2 * k)) (zeta_u h2 k)
                  ltac:(apply N.sub_le_mono_r; lia)). lia.
  - pose proof (zeta_u_mono h1 h2 k Hk0 ltac:(lia) Hhk2) as HU.
    pose proof (N.log2_le_mono _ _ HU) as HLU.
    pose proof (mbl_bounds (v1 + 1 - 2 ^ (h1 * k)) (zeta_u h1 k)).
    pose proof (mbl_bounds (v2 + 1 - 2 ^ (h2 * k)) (zeta_u h2 k)). lia.
Qed.

(* ---------------- VByte ---------------- *)
Lemma off_nat_step n : off_nat n <= off_nat (S n).
Proof. destruct n as [|n]; [cbn; lia|]. rewrite (off_nat_S (S n)) by lia. lia. Qed.
Lemma off_nat_mono a b : (a <= b)%nat -> off_nat a <= off_nat b.
Proof. induction 1 as [|m _ IH]; [lia|]. pose proof (off_nat_step m). lia. Qed.
Lemma off_mono a b : a <= b -> off a <= off b.
Proof. intros H. unfold off. apply off_nat_mono. lia. Qed.

Lemma byte_len_mono v1 v2 L1 L2 : v1 <= v2 -> v2 < W64 ->
  byte_len_vbyte v1 = Some L1 -> byte_len_vbyte v2 = Some L2 -> L1 <= L2.
Proof.
  intros H Hv2 H1 H2.
  destruct (len_steps v1 L1 ltac:(lia) H1) as [[A1 B1] _].
  destruct (len_steps v2 L2 Hv2 H2) as [[A2 B2] _].
  destruct (N.le_gt_cases L1 L2) as [Hc|Hc]; [exact Hc|].
  pose proof (off_mono (L2 + 1) L1 ltac:(lia)). lia.
Qed.

Lemma vbyte_len_mono E le v1 v2 : v1 <= v2 -> v2 < W64 ->
  LEN (def_vbyte E le v1) <= LEN (def_vbyte E le v2).
Proof.
  intros H Hv2.
  pose proof (bit_len_vbyte_ok E le v1 ltac:(lia)) as H1.
  pose proof (bit_len_vbyte_ok E le v2 Hv2) as H2.
  unfold bit_len_vbyte in H1, H2.
  destruct (byte_len_vbyte v1) as [L1|] eqn:E1; [|discriminate].
  destruct (byte_len_vbyte v2) as [L2|] eqn:E2; [|discriminate].
  injection H1 as <-. injection H2 as <-.
  pose proof (byte_len_mono v1 v2 L1 L2 H Hv2 E1 E2). lia.
Qed.

(* ---------------- all codes ---------------- *)
Theorem code_len_monotone E id p v1 v2 :
  valid id p v1 -> valid id p v2 -> v1 <= v2 ->
  LEN (code_cw E id p v1) <= LEN (code_cw E id p v2).
Proof.
  intros H1 H2 H. unfold valid in H1.
  destruct H1 as [[-> H1]|[[-> H1]|[[-> H1]|[[-> H1]|[[-> H1]|[[-> H1]|[[-> H1]|[[-> H1]|[[-> H1]|[[-> H1]|[[-> H1]|[[-> H1]|[-> H1]]]]]]]]]]]]];
    cbn [code_cw].
  - apply unary_len_mono; exact H.
  - apply gamma_len_mono; exact H.
  - apply delta_len_mono; exact H.
  - apply omega_len_mono; exact H.
  - apply vbyte_len_mono; [exact H | unfold valid in H2; lia].
  - apply vbyte_len_mono; [exact H | unfold valid in H2; lia].
  - apply zeta_len_mono; [lia | lia | exact H | unfold valid in H2; lia].
  - apply pi_len_mono; exact H.
  - apply golomb_len_mono; [lia | exact H].
  - apply exp_golomb_len_mono; exact H.
  - apply rice_len_mono; exact H.
  - apply mb_len_mono; exact H.
  - apply zeta_len_mono; [lia | lia | exact H | unfold valid in H2; lia].
Qed.

(* the library's length functions (every table option fl, default or parameterised methods) *)
Theorem len_monotone D id p fl v1 v2 l1 l2 :
  valid id p v1 -> valid id p v2 -> v1 <= v2 ->
  sel_len D id p fl v1 = Some l1 -> sel_len D id p fl v2 = Some l2 -> l1 <= l2.
Proof.
  intros H1 H2 H L1 L2.
  destruct (codes_correct BE D false id p fl v1 H1) as (_ & _ & E1).
  destruct (codes_correct BE D false id p fl v2 H2) as (_ & _ & E2).
  rewrite E1 in L1. rewrite E2 in L2. injection L1 as <-. injection L2 as <-.
  apply code_len_monotone; assumption.
Qed.

(* ================================================================== *)
(* Examples                                                            *)

(* the hypotheses of the theorems are satisfiable *)
Example valid_ex : valid 6 3 6 /\ valid 6 3 7 /\ valid 8 3 2 /\ valid 8 3 3 /\ valid 11 5 4 /\
                   valid 12 0 100 /\ valid 4 0 (W64 - 1).
Proof. unfold valid, U64MAX, W64. repeat split; lia. Qed.

Example kraft_hyps_ex : NoDup [5; 0; 1000; 77] /\ Forall (fun v => valid 6 3 v) [5; 0; 1000; 77].
Proof.
  split.
  - repeat constructor; cbn; intuition discriminate.
  - repeat constructor; unfold valid, U64MAX; lia.
Qed.
Example first_hyps_ex : forall v, v < N.of_nat 16 -> valid 1 0 v.
Proof. intros v Hv. unfold valid, U64MAX. lia. Qed.

Example len_kraft_hyps_ex :
  Forall2 (fun v l => sel_len buf_params 1 0 4 v = Some l) [0; 1; 2; 5] [1; 3; 3; 5].
Proof. repeat constructor. Qed.

(* the Kraft sum of the first 16 gamma codewords: 1/2 + 2/8 + 4/32 + 8/128 + 1/512 *)
Example kraft_gamma_16 :
  Qred (wsum (map (code_cw BE 1 0) (map N.of_nat (seq 0 16)))) = (481 # 512)%Q.
Proof. vm_compute. reflexivity. Qed.
Example kraft_gamma_16_len :
  map (sel_len buf_params 1 0 4) (map N.of_nat (seq 0 16)) =
  map Some [1; 3; 3; 5; 5; 5; 5; 7; 7; 7; 7; 7; 7; 7; 7; 9]
  /\ Qred (lsum [1; 3; 3; 5; 5; 5; 5; 7; 7; 7; 7; 7; 7; 7; 7; 9]) = (481 # 512)%Q.
Proof. split; vm_compute; reflexivity. Qed.

(* lengths are monotone but not strictly: zeta_3 at 6, 7, 8 and Golomb_3 at 2, 3 *)
Example zeta3_lens :
  map (fun v => LEN (code_cw BE 12 0 v)) [6; 7; 8] = [4; 7; 7] /\
  map (fun v => LEN (code_cw LE 6 3 v)) [6; 7; 8] = [4; 7; 7] /\
  map (sel_len buf_params 12 0 4) [6; 7; 8] = [Some 4; Some 7; Some 7] /\
  map (sel_len buf_params 6 3 0) [6; 7; 8] = [Some 4; Some 7; Some 7].
Proof. repeat split; vm_compute; reflexivity. Qed.
Example golomb3_lens :
  map (fun v => LEN (code_cw BE 8 3 v)) [2; 3] = [3; 3] /\
  map (sel_len buf_params 8 3 0) [2; 3] = [Some 3; Some 3].
Proof. repeat split; vm_compute; reflexivity. Qed.

(* zeta in the wrapped corner (interval bound computed with u64 wrap-around): zeta_7, h = 8 -> 9 *)
Example zeta7_wrap_lens :
  valid 6 7 (2 ^ 63 - 2) /\ valid 6 7 (2 ^ 63 - 1) /\
  LEN (code_cw BE 6 7 (2 ^ 63 - 2)) = 72 /\ LEN (code_cw BE 6 7 (2 ^ 63 - 1)) = 73.
Proof. repeat split; try (unfold valid, U64MAX; lia); vm_compute; reflexivity. Qed.
