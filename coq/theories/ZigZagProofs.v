(* ZigZagProofs.v — property C17: the zig-zag maps ToNat::to_nat / ToInt::to_int
   (Small.to_nat / Small.to_int) are mutually inverse bijections between the signed and the
   unsigned w-bit ranges, for every width w >= 1. *)
From Coq Require Import ZArith Lia Bool List.
From Coq Require Import ZifyBool ZifyNat ZifyN.
From DSI Require Import Small.
Ltac Zify.zify_post_hook ::= Z.div_mod_to_equations.
Local Open Scope Z_scope.

(* ------------------------------------------------------------------ *)
(* Generic bit-level facts *)

Lemma pow2_pos : forall w, 0 <= w -> 0 < 2 ^ w.
Proof. intros; apply Z.pow_pos_nonneg; lia. Qed.

Lemma pow2_split : forall w, 1 <= w -> 2 ^ w = 2 * 2 ^ (w - 1).
Proof.
  intros w Hw. replace w with (Z.succ (w - 1)) at 1 by lia.
  rewrite Z.pow_succ_r by lia. reflexivity.
Qed.

Lemma testbit_high_small : forall w a n, 0 <= w -> 0 <= a < 2 ^ w -> w <= n -> Z.testbit a n = false.
Proof.
  intros w a n Hw Ha Hn.
  rewrite <- (Z.mod_small a (2 ^ w)) by lia.
  apply Z.mod_pow2_bits_high. lia.
Qed.

Lemma lxor_ones_low : forall w a, 0 <= w -> 0 <= a < 2 ^ w -> Z.lxor a (Z.ones w) = Z.ones w - a.
Proof.
  intros w a Hw Ha.
  assert (Hd : Z.ldiff a (Z.ones w) = 0).
  { apply Z.bits_inj'. intros n Hn. rewrite Z.ldiff_spec, Z.bits_0.
    destruct (Z.ltb_spec n w).
    - rewrite Z.ones_spec_low by lia. apply andb_false_r.
    - rewrite (testbit_high_small w a n) by lia. reflexivity. }
  rewrite (Z.sub_nocarry_ldiff _ _ Hd).
  apply Z.bits_inj'. intros n Hn.
  rewrite Z.lxor_spec, Z.ldiff_spec.
  destruct (Z.ltb_spec n w).
  - rewrite Z.ones_spec_low by lia. rewrite xorb_true_r. reflexivity.
  - rewrite Z.ones_spec_high by lia. rewrite (testbit_high_small w a n) by lia. reflexivity.
Qed.

Lemma ones_eq : forall w, 0 <= w -> Z.ones w = 2 ^ w - 1.
Proof. intros. rewrite Z.ones_equiv. lia. Qed.

Lemma land_1 : forall x, Z.land x 1 = x mod 2.
Proof. intros. change 1 with (Z.ones 1) at 1. rewrite Z.land_ones by lia. reflexivity. Qed.

Lemma shiftr_1 : forall x, Z.shiftr x 1 = x / 2.
Proof. intros. rewrite Z.shiftr_div_pow2 by lia. reflexivity. Qed.

Lemma shiftl_1 : forall y, Z.shiftl y 1 = 2 * y.
Proof. intros. rewrite Z.shiftl_mul_pow2 by lia. change (2 ^ 1) with 2. lia. Qed.

Lemma even_mod2 : forall x, Z.even x = (x mod 2 =? 0).
Proof.
  intros x. rewrite Zmod_even. destruct (Z.even x); reflexivity.
Qed.

(* ------------------------------------------------------------------ *)
(* Closed formulas *)

Theorem to_nat_formula : forall w y, 1 <= w -> - 2 ^ (w - 1) <= y < 2 ^ (w - 1) ->
  to_nat w y = (if 0 <=? y then 2 * y else - 2 * y - 1).
Proof.
  intros w y Hw Hy.
  pose proof (pow2_pos (w - 1) ltac:(lia)) as Hp.
  pose proof (pow2_split w Hw) as Hs.
  unfold to_nat, to_unsigned.
  rewrite shiftl_1, Z.shiftr_div_pow2 by lia.
  destruct (Z.leb_spec 0 y) as [H0|H0].
  - rewrite (Z.div_small y) by lia.
    rewrite Z.mod_0_l by lia. rewrite Z.lxor_0_r.
    apply Z.mod_small. lia.
  - assert (Hq : y / 2 ^ (w - 1) = -1).
    { symmetry. apply (Z.div_unique_pos y (2 ^ (w - 1)) (-1) (y + 2 ^ (w - 1))); lia. }
    rewrite Hq.
    assert (Hm : (-1) mod 2 ^ w = Z.ones w).
    { rewrite ones_eq by lia. symmetry. apply (Z.mod_unique_pos _ _ (-1)); lia. }
    rewrite Hm.
    assert (Ha : (2 * y) mod 2 ^ w = 2 * y + 2 ^ w).
    { symmetry. apply (Z.mod_unique_pos _ _ (-1)); lia. }
    rewrite Ha.
    rewrite lxor_ones_low by lia.
    rewrite ones_eq by lia. lia.
Qed.

Theorem to_int_formula : forall w x, 1 <= w -> 0 <= x < 2 ^ w ->
  to_int w x = (if Z.even x then x / 2 else - (x / 2) - 1).
Proof.
  intros w x Hw Hx.
  unfold to_int. rewrite shiftr_1, land_1, even_mod2.
  destruct (Z.eqb_spec (x mod 2) 0) as [H0|H0].
  - rewrite H0. simpl Z.opp. apply Z.lxor_0_r.
  - assert (H1 : x mod 2 = 1) by lia.
    rewrite H1. rewrite Z.lxor_m1_r. unfold Z.lnot. lia.
Qed.

(* ------------------------------------------------------------------ *)
(* Ranges *)

Theorem to_nat_range : forall w y, 1 <= w -> - 2 ^ (w - 1) <= y < 2 ^ (w - 1) ->
  0 <= to_nat w y < 2 ^ w.
Proof.
  intros w y Hw Hy. rewrite to_nat_formula by assumption.
  pose proof (pow2_split w Hw).
  destruct (Z.leb_spec 0 y); lia.
Qed.

Theorem to_int_range : forall w x, 1 <= w -> 0 <= x < 2 ^ w ->
  - 2 ^ (w - 1) <= to_int w x < 2 ^ (w - 1).
Proof.
  intros w x Hw Hx. rewrite to_int_formula by assumption.
  pose proof (pow2_split w Hw).
  destruct (Z.even x); lia.
Qed.

(* ------------------------------------------------------------------ *)
(* Mutual inverses *)

Theorem inverse_l : forall w y, 1 <= w -> - 2 ^ (w - 1) <= y < 2 ^ (w - 1) ->
  to_int w (to_nat w y) = y.
Proof.
  intros w y Hw Hy.
  rewrite to_int_formula by (try apply to_nat_range; assumption).
  rewrite to_nat_formula by assumption.
  rewrite even_mod2.
  destruct (Z.leb_spec 0 y);
    match goal with |- context [?a mod 2 =? 0] => destruct (Z.eqb_spec (a mod 2) 0) end; lia.
Qed.

Theorem inverse_r : forall w x, 1 <= w -> 0 <= x < 2 ^ w ->
  to_nat w (to_int w x) = x.
Proof.
  intros w x Hw Hx.
  rewrite to_nat_formula by (try apply to_int_range; assumption).
  rewrite to_int_formula by assumption.
  rewrite even_mod2.
  destruct (Z.eqb_spec (x mod 2) 0);
    match goal with |- context [0 <=? ?a] => destruct (Z.leb_spec 0 a) end; lia.
Qed.

Theorem to_nat_small : forall w y, 1 <= w -> - 2 ^ (w - 1) <= y < 2 ^ (w - 1) ->
  to_nat w y <= 2 * Z.abs y.
Proof.
  intros w y Hw Hy. rewrite to_nat_formula by assumption.
  destruct (Z.leb_spec 0 y); lia.
Qed.

(* ------------------------------------------------------------------ *)
(* The packaged bijection statement *)

Definition signed_range (w y : Z) : Prop := - 2 ^ (w - 1) <= y < 2 ^ (w - 1).
Definition unsigned_range (w x : Z) : Prop := 0 <= x < 2 ^ w.

Definition zigzag_bijection (w : Z) : Prop :=
  (forall y, signed_range w y -> unsigned_range w (to_nat w y)) /\
  (forall x, unsigned_range w x -> signed_range w (to_int w x)) /\
  (forall y, signed_range w y -> to_int w (to_nat w y) = y) /\
  (forall x, unsigned_range w x -> to_nat w (to_int w x) = x) /\
  (forall y1 y2, signed_range w y1 -> signed_range w y2 -> to_nat w y1 = to_nat w y2 -> y1 = y2) /\
  (forall x, unsigned_range w x -> exists y, signed_range w y /\ to_nat w y = x) /\
  (forall x1 x2, unsigned_range w x1 -> unsigned_range w x2 -> to_int w x1 = to_int w x2 -> x1 = x2) /\
  (forall y, signed_range w y -> exists x, unsigned_range w x /\ to_int w x = y) /\
  (forall y, signed_range w y -> to_nat w y <= 2 * Z.abs y).

Theorem bijection : forall w, 1 <= w -> zigzag_bijection w.
Proof.
  intros w Hw. unfold zigzag_bijection, signed_range, unsigned_range.
  split; [ intros; apply to_nat_range; assumption |].
  split; [ intros; apply to_int_range; assumption |].
  split; [ intros; apply inverse_l; assumption |].
  split; [ intros; apply inverse_r; assumption |].
  split.
  { intros y1 y2 H1 H2 E.
    rewrite <- (inverse_l w y1 Hw H1), <- (inverse_l w y2 Hw H2), E. reflexivity. }
  split.
  { intros x Hx. exists (to_int w x). split.
    - apply to_int_range; assumption.
    - apply inverse_r; assumption. }
  split.
  { intros x1 x2 H1 H2 E.
    rewrite <- (inverse_r w x1 Hw H1), <- (inverse_r w x2 Hw H2), E. reflexivity. }
  split.
  { intros y Hy. exists (to_nat w y). split.
    - apply to_nat_range; assumption.
    - apply inverse_l; assumption. }
  intros; apply to_nat_small; assumption.
Qed.

Theorem instances :
  zigzag_bijection 8 /\ zigzag_bijection 16 /\ zigzag_bijection 32 /\ zigzag_bijection 64 /\ zigzag_bijection 128.
Proof.
  split; [apply bijection; lia|].
  split; [apply bijection; lia|].
  split; [apply bijection; lia|].
  split; apply bijection; lia.
Qed.

(* ------------------------------------------------------------------ *)
(* Tests (by computation; these are sanity checks, NOT the theorems) *)

Example test_to_nat_8_min : to_nat 8 (-128) = 255.
Proof. vm_compute. reflexivity. Qed.
Example test_to_nat_8_max : to_nat 8 127 = 254.
Proof. vm_compute. reflexivity. Qed.
Example test_to_int_8_255 : to_int 8 255 = -128.
Proof. vm_compute. reflexivity. Qed.
Example test_to_nat_64_m1 : to_nat 64 (-1) = 1.
Proof. vm_compute. reflexivity. Qed.

(* TEST ONLY: exhaustive round trip over all 256 byte values (both directions) *)
Definition all_bytes : list Z := map Z.of_nat (seq 0 256).
Example test_byte_roundtrip_exhaustive :
  forallb (fun x => (to_nat 8 (to_int 8 x) =? x) && (-128 <=? to_int 8 x) && (to_int 8 x <? 128)
                    && (to_int 8 (to_nat 8 (x - 128)) =? x - 128)) all_bytes = true.
Proof. vm_compute. reflexivity. Qed.

(* The hypotheses of the main theorems are satisfiable on non-trivial instances *)
Example hyps_signed_satisfiable : 1 <= 64 /\ signed_range 64 (-9223372036854775808)
                                  /\ signed_range 64 9223372036854775807 /\ signed_range 64 (-12345).
Proof. unfold signed_range. vm_compute. intuition discriminate. Qed.
Example hyps_unsigned_satisfiable : 1 <= 64 /\ unsigned_range 64 18446744073709551615
                                    /\ unsigned_range 64 0 /\ unsigned_range 64 24689.
Proof. unfold unsigned_range. vm_compute. intuition discriminate. Qed.
Example hyps_width1_satisfiable : 1 <= 1 /\ signed_range 1 (-1) /\ unsigned_range 1 1
                                  /\ to_nat 1 (-1) = 1 /\ to_int 1 1 = -1.
Proof. unfold signed_range, unsigned_range. vm_compute. intuition discriminate. Qed.
