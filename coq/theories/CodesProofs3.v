(* CodesProofs3.v — gamma, delta, zeta3 with every table option, exp-Golomb, length functions,
   for ANY table set T that passes the executable soundness check `check_tables` (TableCheck.v);
   omega.  GenProofs.v establishes `check_tables the_tables = true` by computation. *)
From DSI Require Import Base Prog Codes CodeDefs BitFacts CodesProofs CodesProofs2 TableCheck.
From Coq Require Import ZifyBool ZifyNat ZifyN.
Ltac Zify.zify_post_hook ::= Z.div_mod_to_equations.
Arguments N.add : simpl never. Arguments N.sub : simpl never. Arguments N.mul : simpl never.
Arguments N.div : simpl never. Arguments N.modulo : simpl never. Arguments N.pow : simpl never.
Arguments N.eqb : simpl never. Arguments N.ltb : simpl never. Arguments N.leb : simpl never.
Arguments N.testbit : simpl never. Arguments N.of_nat : simpl never. Arguments N.to_nat : simpl never.
Arguments N.log2 : simpl never. Arguments N.lxor : simpl never. Arguments N.land : simpl never.
Arguments N.lor : simpl never.
Open Scope prog_scope.

Definition domb (v : N) : bool := v <? U64MAX.

Definition check_tbl (E : endian) (t : tbl) (def : N -> bits) : bool :=
  check_read E t def domb && check_write E t def && check_len t def.

(* all tables of a table set, both endiannesses *)
Definition check_tables (T : tables) : bool :=
  check_tbl BE (tg T) (def_gamma BE) && check_tbl LE (tg T) (def_gamma LE) &&
  check_tbl BE (td T) (def_delta BE) && check_tbl LE (td T) (def_delta LE) &&
  check_tbl BE (tz T) (cw_zeta BE 3) && check_tbl LE (tz T) (cw_zeta LE 3) &&
  (tz_k T =? 3).

Section WithTables.
  Variable E : endian.
  Variable T : tables.
  Hypothesis Tok : check_tables T = true.
  Notation wr := (wr E). Notation rd := (rd E).

  Lemma tbl_g : check_tbl E (tg T) (def_gamma E) = true.
  Proof. pose proof Tok as H0. unfold check_tables in H0. do 6 (apply andb_prop in H0 as [H0 ?]). destruct E; assumption. Qed.
  Lemma tbl_d : check_tbl E (td T) (def_delta E) = true.
  Proof. pose proof Tok as H0. unfold check_tables in H0. do 6 (apply andb_prop in H0 as [H0 ?]). destruct E; assumption. Qed.
  Lemma tbl_z : check_tbl E (tz T) (cw_zeta E 3) = true.
  Proof. pose proof Tok as H0. unfold check_tables in H0. do 6 (apply andb_prop in H0 as [H0 ?]). destruct E; assumption. Qed.
  Lemma tbl_k : tz_k T = 3.
  Proof. pose proof Tok as H0. unfold check_tables in H0. do 6 (apply andb_prop in H0 as [H0 ?]). lia. Qed.

  Lemma check_tbl_parts t def : check_tbl E t def = true ->
    check_read E t def domb = true /\ check_write E t def = true /\ check_len t def = true.
  Proof. unfold check_tbl. intros H. apply andb_prop in H as [H H3]. apply andb_prop in H as [H1 H2]. auto. Qed.

  Definition dom (v : N) : Prop := v < U64MAX.
  Lemma domb_dom v : domb v = true -> dom v.
  Proof. unfold domb, dom. lia. Qed.

  (* a table-driven reader / writer for a code given by (table, definition, bit-by-bit programs) *)
  Lemma generic_table_rd t def slow c0 v :
    check_tbl E t def = true -> (forall v, dom v -> rd c0 slow (def v) v) -> dom v ->
    rd (N.max (t_read_bits t) c0) (o <- read_table E t ;; match o with Some (res, _) => RRet res | None => slow end) (def v) v.
  Proof.
    intros Hc Hs Hv. destruct (check_tbl_parts t def Hc) as (Hr & _ & _).
    destruct (check_read_sound E t def domb Hr) as (H1 & H2 & H3).
    apply (table_rd E t def dom slow c0 H1 Hs H2); [|exact Hv].
    intros idx len Hn Hm. destruct (H3 idx len Hn Hm) as (v' & A & B & C & D).
    exists v'. repeat split; try assumption. apply domb_dom. exact B.
  Qed.
  Lemma generic_table_wr checks t def slow_w v :
    check_tbl E t def = true -> (forall v, dom v -> wr checks (slow_w v) (def v)) -> dom v ->
    wr checks (o <-- write_table E t v ;; match o with Some len => wret len | None => slow_w v end) (def v).
  Proof.
    intros Hc Hs Hv. destruct (check_tbl_parts t def Hc) as (_ & Hw & _).
    apply (table_wr E t def dom slow_w checks Hs (check_write_sound E t def domb Hw)). exact Hv.
  Qed.

  (* ---------------- gamma with any table option ---------------- *)
  Definition gcap (ut : bool) : N := if ut then t_read_bits (tg T) else 0.
  Lemma gamma_param_rd ut n : n < U64MAX -> rd (gcap ut) (read_gamma_param E T ut) (def_gamma E n) n.
  Proof.
    intros Hn. unfold read_gamma_param, gcap. destruct ut.
    - eapply rd_mono; [|apply (generic_table_rd (tg T) (def_gamma E) default_read_gamma 0 n tbl_g); [|exact Hn]].
      + lia.
      + intros v Hv. apply gamma_rd. exact Hv.
    - apply gamma_rd. exact Hn.
  Qed.
  Lemma gamma_param_wr checks ut n : n < U64MAX -> wr checks (write_gamma_param E T checks ut n) (def_gamma E n).
  Proof.
    intros Hn. unfold write_gamma_param. destruct ut.
    - apply (generic_table_wr checks (tg T) (def_gamma E) (default_write_gamma checks) n tbl_g); [|exact Hn].
      intros v Hv. apply gamma_wr. exact Hv.
    - apply gamma_wr. exact Hn.
  Qed.
  Lemma len_gamma_param_ok ut n : n < U64MAX -> len_gamma_param T ut n = Some (LEN (def_gamma E n)).
  Proof.
    intros Hn. unfold len_gamma_param.
    destruct (if ut then nthN (t_len (tg T)) n else None) as [l|] eqn:Hl.
    - destruct ut; [|discriminate]. f_equal.
      destruct (check_tbl_parts _ _ tbl_g) as (_ & _ & HL). apply (check_len_sound _ _ domb HL). exact Hl.
    - assert (n + 1 < W64) as H1 by (unfold U64MAX in Hn; unfold W64; lia).
      rewrite add64_ok by exact H1. rewrite ilog2_ok by lia. rewrite def_gamma_len. reflexivity.
  Qed.

  (* ---------------- delta ---------------- *)
  Lemma delta_default_wr checks ugt n : n < U64MAX ->
    wr checks (default_write_delta E T checks ugt n) (def_delta E n).
  Proof.
    intros Hn. unfold default_write_delta, def_delta.
    assert (n + 1 < W64) as H1 by (unfold U64MAX in Hn; unfold W64; lia).
    eapply wr_lift; [apply add64_ok; exact H1|].
    eapply wr_lift; [apply ilog2_ok; lia|].
    pose proof (log2_lt_64 (n + 1)) as HL.
    apply wr_seq.
    - apply gamma_param_wr. unfold U64MAX. lia.
    - apply tail_wr; [lia | exact H1].
  Qed.
  Lemma delta_default_rd ugt n : n < U64MAX ->
    rd (gcap ugt) (default_read_delta E T ugt) (def_delta E n) n.
  Proof.
    intros Hn. unfold default_read_delta, def_delta.
    assert (n + 1 < W64) as H1 by (unfold U64MAX in Hn; unfold W64; lia).
    pose proof (log2_lt_64 (n + 1)) as HL.
    eapply rd_bind; [apply gamma_param_rd; unfold U64MAX; lia|].
    eapply rd_ext; [apply app_nil_r|].
    apply tail_rd; [lia | exact H1|].
    pose proof (tail_arith_rd E (gcap ugt) (n + 1) ltac:(lia) H1) as HT. cbn zeta in HT.
    replace (n + 1 - 1) with n in HT by lia. exact HT.
  Qed.
  Definition dcap (udt ugt : bool) : N := N.max (if udt then t_read_bits (td T) else 0) (gcap ugt).
  Lemma delta_param_rd udt ugt n : n < U64MAX ->
    rd (dcap udt ugt) (read_delta_param E T udt ugt) (def_delta E n) n.
  Proof.
    intros Hn. unfold read_delta_param, dcap. destruct udt.
    - apply (generic_table_rd (td T) (def_delta E) (default_read_delta E T ugt) (gcap ugt) n tbl_d); [|exact Hn].
      intros v Hv. apply delta_default_rd. exact Hv.
    - apply (rd_mono E (gcap ugt)); [lia | apply delta_default_rd; exact Hn].
  Qed.
  Lemma delta_param_wr checks udt ugt n : n < U64MAX ->
    wr checks (write_delta_param E T checks udt ugt n) (def_delta E n).
  Proof.
    intros Hn. unfold write_delta_param. destruct udt.
    - apply (generic_table_wr checks (td T) (def_delta E) (default_write_delta E T checks ugt) n tbl_d); [|exact Hn].
      intros v Hv. apply delta_default_wr. exact Hv.
    - apply delta_default_wr. exact Hn.
  Qed.
  Lemma def_delta_len n : LEN (def_delta E n) = N.log2 (n + 1) + (2 * N.log2 (N.log2 (n + 1) + 1) + 1).
  Proof. unfold def_delta. rewrite LEN_app, LEN_fld, def_gamma_len. lia. Qed.
  Lemma len_delta_param_ok udt ugt n : n < U64MAX -> len_delta_param T udt ugt n = Some (LEN (def_delta E n)).
  Proof.
    intros Hn. unfold len_delta_param.
    destruct (if udt then nthN (t_len (td T)) n else None) as [l|] eqn:Hl.
    - destruct udt; [|discriminate]. f_equal.
      destruct (check_tbl_parts _ _ tbl_d) as (_ & _ & HL). apply (check_len_sound _ _ domb HL). exact Hl.
    - assert (n + 1 < W64) as H1 by (unfold U64MAX in Hn; unfold W64; lia).
      pose proof (log2_lt_64 (n + 1)) as HL.
      rewrite add64_ok by exact H1. rewrite ilog2_ok by lia.
      rewrite len_gamma_param_ok by (unfold U64MAX; lia).
      rewrite def_delta_len, def_gamma_len. first [reflexivity | f_equal; lia].
  Qed.

  (* ---------------- zeta3 with the table; zeta_k ---------------- *)
  Lemma zeta3_param_rd (ut : bool) n : n < U64MAX ->
    rd (if ut then t_read_bits (tz T) else 0) (read_zeta3_param E T ut) (cw_zeta E 3 n) n.
  Proof.
    intros Hn. unfold read_zeta3_param. destruct ut.
    - eapply rd_mono; [|apply (generic_table_rd (tz T) (cw_zeta E 3) (default_read_zeta 3) 0 n tbl_z); [|exact Hn]].
      + lia.
      + intros v Hv. apply zeta_rd; [lia | lia | exact Hv].
    - apply zeta_rd; [lia | lia | exact Hn].
  Qed.
  Lemma zeta3_param_wr checks ut n : n < U64MAX -> wr checks (write_zeta3_param E T ut n) (cw_zeta E 3 n).
  Proof.
    intros Hn. unfold write_zeta3_param. destruct ut.
    - apply (generic_table_wr checks (tz T) (cw_zeta E 3) (fun v => default_write_zeta v 3) n tbl_z); [|exact Hn].
      intros v Hv. apply zeta_wr; [lia | lia | exact Hv].
    - apply zeta_wr; [lia | lia | exact Hn].
  Qed.
  Lemma cw_zeta_len k n : 0 < k -> k < 64 -> n < U64MAX ->
    let m := n + 1 in let h := N.log2 m / k in
    LEN (cw_zeta E k n) = h + 1 + len_minimal_binary (m - 2 ^ (h * k)) (zeta_u h k).
  Proof.
    intros Hk0 Hk Hn m h. unfold cw_zeta. fold m. fold h.
    destruct (zeta_facts k n Hk0 Hk Hn) as (Hhk & Hhl & Hle & Hu0 & HuW & Hx & Hh).
    rewrite LEN_app, LEN_unary. rewrite (len_minimal_binary_spec E) by assumption. reflexivity.
  Qed.
  Lemma len_zeta_param_ok ut n k : 0 < k -> k < 64 -> n < U64MAX ->
    len_zeta_param T ut n k = Some (LEN (cw_zeta E k n)).
  Proof.
    intros Hk0 Hk Hn. unfold len_zeta_param. rewrite tbl_k.
    destruct (if ut && (k =? 3) then nthN (t_len (tz T)) n else None) as [l|] eqn:Hl.
    - destruct (ut && (k =? 3)) eqn:Hc; [|discriminate]. apply andb_prop in Hc as [_ Hk3].
      assert (k = 3) as -> by lia. f_equal.
      destruct (check_tbl_parts _ _ tbl_z) as (_ & _ & HL). apply (check_len_sound _ _ domb HL). exact Hl.
    - assert (n + 1 < W64) as H1 by (unfold U64MAX in Hn; unfold W64; lia).
      destruct (zeta_facts k n Hk0 Hk Hn) as (Hhk & Hhl & Hle & Hu0 & HuW & Hx & Hh).
      rewrite add64_ok by exact H1. rewrite Hhl. rewrite zeta_max_spec by assumption.
      rewrite cw_zeta_len by assumption. reflexivity.
  Qed.

  (* ---------------- exp-golomb (uses the stream's parameterless gamma) ---------------- *)
  Variable D : params.
  Lemma exp_golomb_wr checks n k : k < 64 -> n < U64MAX ->
    wr checks (write_exp_golomb E T D checks n k) (def_exp_golomb E k n).
  Proof.
    intros Hk Hn. unfold write_exp_golomb, def_exp_golomb.
    eapply wr_lift; [apply shr64_ok; exact Hk|].
    pose proof (pow2_pos k) as Hp.
    assert (n / 2 ^ k <= n) by (apply N.div_le_upper_bound; nia).
    apply wr_seq.
    - apply gamma_param_wr. lia.
    - destruct checks.
      + rewrite land_mask by exact Hk. apply wr_bits; [lia | right; apply N.mod_lt; lia].
      + eapply wr_ext; [|apply wr_bits; [lia | left; reflexivity]].
        unfold fld. apply field_eq_mod. rewrite N2Nat.id. rewrite N.mod_mod by lia. reflexivity.
  Qed.
  Lemma exp_golomb_rd n k : k < 64 -> n < U64MAX ->
    rd (gcap (pr_gamma D)) (read_exp_golomb E T D k) (def_exp_golomb E k n) n.
  Proof.
    intros Hk Hn. unfold read_exp_golomb, def_exp_golomb. pose proof (pow2_pos k) as Hp.
    assert (n / 2 ^ k <= n) by (apply N.div_le_upper_bound; nia).
    assert (n / 2 ^ k * 2 ^ k + n mod 2 ^ k = n) as Hdm by (rewrite N.mul_comm; symmetry; apply N.div_mod; lia).
    assert (n < W64) as HnW by (unfold U64MAX in Hn; unfold W64; lia).
    eapply rd_bind; [apply gamma_param_rd; lia|].
    eapply rd_lift; [apply shl64_ok; [exact Hk | lia]|].
    eapply rd_ext; [apply app_nil_r|].
    apply rd_bits; [lia|]. rewrite N.mod_mod by lia.
    eapply rd_lift; [apply add64_ok; lia|].
    rewrite Hdm. eapply rd_mono; [|apply rd_ret]. lia.
  Qed.
  Lemma len_exp_golomb_ok n k : k < 64 -> n < U64MAX ->
    len_exp_golomb T D n k = Some (LEN (def_exp_golomb E k n)).
  Proof.
    intros Hk Hn. unfold len_exp_golomb, def_exp_golomb, len_gamma. pose proof (pow2_pos k) as Hp.
    assert (n / 2 ^ k <= n) by (apply N.div_le_upper_bound; nia).
    rewrite shr64_ok by exact Hk. rewrite len_gamma_param_ok by lia.
    rewrite LEN_app, LEN_fld. reflexivity.
  Qed.
End WithTables.
