(* UReaderProofs.v — the unbuffered bit reader over u64 words (Reader.v, Section BitReader)
   refines the bit-list specification reader of Prog.v (properties C02 / C07 / C09, unbuffered case).
   The abstraction (uabs, UInv, urel) is fixed in Abs.v. *)
From Coq Require Import ZifyBool ZifyNat ZifyN.
From DSI Require Import Abs BitsLemmasU.
Ltac Zify.zify_post_hook ::= Z.div_mod_to_equations.

(* ------------------------------------------------------------------ *)
(* the word source *)
Definition ulen (s : ureader) : N := N.of_nat (length (ws_words (ur_src s))).
Definition mksrc (ws : list N) (i : N) (st : bool) : wsrc := {| ws_words := ws; ws_idx := i; ws_strict := st |}.
Definition ur_at (k : wsrc) (i : N) : ureader := {| ur_src := k; ur_index := i |}.

Lemma src_bits_stream E k : src_bits E 64 k = stream64 E (ws_words k).
Proof. reflexivity. Qed.

Lemma src_read_at ws q st :
  src_read (mksrc ws q st) =
  if st && (N.of_nat (length ws) <=? q) then Err else Ok (nthw ws q, mksrc ws (q + 1) st).
Proof.
  unfold src_read, mksrc. cbn [ws_words ws_idx ws_strict]. rewrite nthw_nth_error.
  destruct (q <? N.of_nat (length ws)) eqn:H.
  - apply N.ltb_lt in H. destruct (N.of_nat (length ws) <=? q) eqn:H2; [apply N.leb_le in H2; lia |].
    rewrite andb_false_r. reflexivity.
  - apply N.ltb_ge in H. destruct (N.of_nat (length ws) <=? q) eqn:H2; [| apply N.leb_gt in H2; lia].
    rewrite andb_true_r. destruct st; [reflexivity |]. rewrite (nthw_high ws q H). reflexivity.
Qed.

Lemma src_set_pos_at ws i st p :
  src_set_pos (mksrc ws i st) p = if st && (N.of_nat (length ws) <? p) then Err else Ok (mksrc ws p st).
Proof. reflexivity. Qed.

(* ------------------------------------------------------------------ *)
(* ur_fetch: Err exactly when the strict stream has fewer than n bits left, otherwise the
   value of the next n bits of the zero-extended stream *)
Lemma ur_fetch_eq E n ws i st index :
  Forall (fun w => w < 2 ^ 64) ws -> 1 <= n -> n <= 64 ->
  exists i',
  ur_fetch E n (ur_at (mksrc ws i st) index) =
  if st && (64 * N.of_nat (length ws) <? index + n) then Err
  else Ok (sval E ws index n, mksrc ws i' st).
Proof.
  intros HW Hn1 Hn2. unfold ur_fetch. cbn [ur_at ur_src ur_index]. rewrite src_set_pos_at.
  set (q := index / 64). set (off := index mod 64).
  assert (Hq : index = 64 * q + off /\ off < 64) by (subst q off; lia).
  pose proof (nthw_lt ws q HW) as Hw1. pose proof (nthw_lt ws (q + 1) HW) as Hw2.
  destruct (off + n <=? 64) eqn:Hsingle; [apply N.leb_le in Hsingle | apply N.leb_gt in Hsingle].
  - (* one word *)
    exists (q + 1).
    destruct (st && (N.of_nat (length ws) <? q)) eqn:Hsp.
    + destruct st; [| discriminate]. cbn [andb] in Hsp. apply N.ltb_lt in Hsp. cbn [obind andb].
      destruct (64 * N.of_nat (length ws) <? index + n) eqn:H; [reflexivity | apply N.ltb_ge in H; lia].
    + cbn [obind]. rewrite src_read_at.
      destruct st; cbn [andb] in *.
      * apply N.ltb_ge in Hsp. destruct (N.of_nat (length ws) <=? q) eqn:H1; [apply N.leb_le in H1 | apply N.leb_gt in H1].
        -- destruct (64 * N.of_nat (length ws) <? index + n) eqn:H; [reflexivity | apply N.ltb_ge in H; lia].
        -- destruct (64 * N.of_nat (length ws) <? index + n) eqn:H; [apply N.ltb_lt in H; lia |].
           cbn [obind]. destruct E.
           ++ unfold shl64, shr64. cmp_cases; try lia. cbn [oo']. subst q off. rewrite fetch1_BE by lia. reflexivity.
           ++ unfold sub64, shl64, shr64. cmp_cases; try lia. cbn [oo']. cmp_cases; try lia. cbn [oo']. subst q off. rewrite fetch1_LE by lia. reflexivity.
      * cbn [obind]. destruct E.
        ++ unfold shl64, shr64. cmp_cases; try lia. cbn [oo']. subst q off. rewrite fetch1_BE by lia. reflexivity.
        ++ unfold sub64, shl64, shr64. cmp_cases; try lia. cbn [oo']. cmp_cases; try lia. cbn [oo']. subst q off. rewrite fetch1_LE by lia. reflexivity.
  - (* two words *)
    exists (q + 1 + 1).
    destruct (st && (N.of_nat (length ws) <? q)) eqn:Hsp.
    + destruct st; [| discriminate]. cbn [andb] in Hsp. apply N.ltb_lt in Hsp. cbn [obind andb].
      destruct (64 * N.of_nat (length ws) <? index + n) eqn:H; [reflexivity | apply N.ltb_ge in H; lia].
    + cbn [obind]. rewrite src_read_at.
      destruct st; cbn [andb] in *.
      * apply N.ltb_ge in Hsp. destruct (N.of_nat (length ws) <=? q) eqn:H1; [apply N.leb_le in H1 | apply N.leb_gt in H1].
        -- destruct (64 * N.of_nat (length ws) <? index + n) eqn:H; [reflexivity | apply N.ltb_ge in H; lia].
        -- cbn [obind]. rewrite src_read_at. cbn [andb].
           destruct (N.of_nat (length ws) <=? q + 1) eqn:H2; [apply N.leb_le in H2 | apply N.leb_gt in H2].
           ++ destruct (64 * N.of_nat (length ws) <? index + n) eqn:H; [reflexivity | apply N.ltb_ge in H; lia].
           ++ destruct (64 * N.of_nat (length ws) <? index + n) eqn:H; [apply N.ltb_lt in H; lia |].
              cbn [obind]. destruct E.
              ** unfold shl64, shr64. cmp_cases; try lia. cbn [oo']. subst q off. rewrite fetch2_BE by (assumption || lia). reflexivity.
              ** unfold shl64, shr64. cmp_cases; try lia. cbn [oo']. subst q off. rewrite fetch2_LE by (assumption || lia). reflexivity.
      * cbn [obind]. rewrite src_read_at. cbn [andb obind]. destruct E.
        ** unfold shl64, shr64. cmp_cases; try lia. cbn [oo']. subst q off. rewrite fetch2_BE by (assumption || lia). reflexivity.
        ** unfold shl64, shr64. cmp_cases; try lia. cbn [oo']. subst q off. rewrite fetch2_LE by (assumption || lia). reflexivity.
Qed.

(* ------------------------------------------------------------------ *)
(* the specification side, on abstract states *)
Lemma uabs_at E ws i st index pk :
  uabs E (ur_at (mksrc ws i st) index) pk =
  {| sr_rest := skipn (N.to_nat index) (stream64 E ws); sr_pos := index; sr_peeked := pk |}.
Proof. reflexivity. Qed.

Lemma length_rest E ws p :
  N.of_nat (length (skipn (N.to_nat p) (stream64 E ws))) = 64 * N.of_nat (length ws) - p.
Proof.
  rewrite skipn_length. pose proof (length_stream64 E ws) as H. unfold lenN in H. lia.
Qed.

Lemma getb_rest E ws p j : getb (skipn (N.to_nat p) (stream64 E ws)) j = sbit E ws (p + j).
Proof. rewrite getb_skipn, N2Nat.id. apply getb_stream64. Qed.

Lemma skipn_rest E ws p n :
  skipn (N.to_nat n) (skipn (N.to_nat p) (stream64 E ws)) = skipn (N.to_nat (p + n)) (stream64 E ws).
Proof. rewrite skipn_add. f_equal. lia. Qed.

(* s_take on an abstract state: Err iff strict and too few bits; otherwise the next n bits of
   the zero-extended stream and the abstract state at index + n *)
Lemma s_take_uabs E st' n ws pk index :
  s_take st' n {| sr_rest := skipn (N.to_nat index) (stream64 E ws); sr_pos := index; sr_peeked := pk |} =
  if st' && negb (n <=? 64 * N.of_nat (length ws) - index) then Err
  else Ok (take_pad (N.to_nat n) (skipn (N.to_nat index) (stream64 E ws)),
           {| sr_rest := skipn (N.to_nat (index + n)) (stream64 E ws); sr_pos := index + n; sr_peeked := 0 |}).
Proof.
  unfold s_take. cbn [sr_rest sr_pos sr_peeked]. rewrite length_rest.
  destruct (n <=? 64 * N.of_nat (length ws) - index) eqn:H.
  - apply N.leb_le in H. rewrite andb_false_r. rewrite skipn_rest.
    rewrite take_pad_firstn; [reflexivity |]. pose proof (length_rest E ws index). lia.
  - apply N.leb_gt in H. cbn [negb]. rewrite andb_true_r. destruct st'; [reflexivity |].
    rewrite (skipn_all2 (n := N.to_nat (index + n))); [reflexivity |].
    pose proof (length_stream64 E ws) as HL. unfold lenN in HL. lia.
Qed.

Lemma take_err_cond n L index : 1 <= n -> negb (n <=? L - index) = (L <? index + n).
Proof.
  intros H. destruct (n <=? L - index) eqn:H1, (L <? index + n) eqn:H2; try reflexivity; exfalso;
    rewrite ?N.leb_le, ?N.leb_gt, ?N.ltb_lt, ?N.ltb_ge in *; lia.
Qed.

Definition sabs (E : endian) (ws : list N) (index pk : N) : sreader :=
  {| sr_rest := skipn (N.to_nat index) (stream64 E ws); sr_pos := index; sr_peeked := pk |}.

Lemma s_bits_sabs E st' n ws index pk :
  s_bits E st' n (sabs E ws index pk) =
  if 64 <? n then Fail
  else if st' && negb (n <=? 64 * N.of_nat (length ws) - index) then Err
  else Ok (sval E ws index n, sabs E ws (index + n) 0).
Proof.
  unfold s_bits, sabs. rewrite s_take_uabs. destruct (64 <? n); [reflexivity |].
  destruct (st' && negb (n <=? 64 * N.of_nat (length ws) - index)); reflexivity.
Qed.

Lemma s_peek_sabs E st' cap n ws index pk :
  s_peek E st' cap n (sabs E ws index pk) =
  if (n =? 0) || (cap <? n) then Fail
  else if st' && negb (n <=? 64 * N.of_nat (length ws) - index) then Err
  else Ok (sval E ws index n, sabs E ws index (N.max pk n)).
Proof.
  unfold s_peek, sabs. rewrite s_take_uabs. destruct ((n =? 0) || (cap <? n)); [reflexivity |].
  destruct (st' && negb (n <=? 64 * N.of_nat (length ws) - index)); reflexivity.
Qed.

Lemma s_skipap_sabs E st' n ws index pk :
  s_skipap st' n (sabs E ws index pk) =
  if pk <? n then Fail
  else if st' && negb (n <=? 64 * N.of_nat (length ws) - index) then Fail
  else Ok (sabs E ws (index + n) (pk - n)).
Proof.
  unfold s_skipap, sabs. rewrite s_take_uabs. cbn [sr_peeked]. destruct (pk <? n); [reflexivity |].
  destruct (st' && negb (n <=? 64 * N.of_nat (length ws) - index)); reflexivity.
Qed.

Lemma s_skip_sabs E st' n ws index pk :
  s_skip st' n (sabs E ws index pk) =
  if st' && negb (n <=? 64 * N.of_nat (length ws) - index) then Err
  else Ok (sabs E ws (index + n) 0).
Proof.
  unfold s_skip, sabs. rewrite s_take_uabs.
  destruct (st' && negb (n <=? 64 * N.of_nat (length ws) - index)); reflexivity.
Qed.

(* ------------------------------------------------------------------ *)
(* the relation used in the proofs: urel, plus the (constant) strictness and words of the source *)
Definition urelW (E : endian) (st : bool) (ws : list N) (r : sreader) (s : ureader) : Prop :=
  urel E r s /\ ws_strict (ur_src s) = st /\ ws_words (ur_src s) = ws.

Lemma urelW_inv E st ws r s : urelW E st ws r s ->
  exists i index pk, s = ur_at (mksrc ws i st) index /\ r = sabs E ws index pk /\
                     Forall (fun w => w < 2 ^ 64) ws /\ index < 2 ^ 63.
Proof.
  intros [[[HW HI] [pk Hr]] [Hst Hws]]. destruct s as [[ws' i st'] index]. cbn in Hst, Hws, HW, HI. subst.
  exists i, index, pk. repeat split; assumption.
Qed.

Lemma urelW_intro E st ws i index pk :
  Forall (fun w => w < 2 ^ 64) ws -> index < 2 ^ 63 ->
  urelW E st ws (sabs E ws index pk) (ur_at (mksrc ws i st) index).
Proof.
  intros HW HI. split; [| split; reflexivity]. split; [split; assumption |]. exists pk. reflexivity.
Qed.

Lemma urelW_of_urel E r s : urel E r s -> urelW E (ws_strict (ur_src s)) (ws_words (ur_src s)) r s.
Proof. intros H. split; [exact H | split; reflexivity]. Qed.

Lemma osim_weaken {A S1 S2} (R R' : S1 -> S2 -> Prop) (o1 : outcome (A * S1)) o2 :
  (forall a b, R a b -> R' a b) -> osim R o1 o2 -> osim R' o1 o2.
Proof.
  intros HR. destruct o1 as [[a s1] | | |]; cbn [osim]; auto.
  intros [s2 [H1 H2]]. exists s2. split; [exact H1 | apply HR, H2].
Qed.

Lemma osim0_weaken {S1 S2} (R R' : S1 -> S2 -> Prop) (o1 : outcome S1) o2 :
  (forall a b, R a b -> R' a b) -> osim0 R o1 o2 -> osim0 R' o1 o2.
Proof.
  intros HR. destruct o1 as [s1 | | |]; cbn [osim0]; auto.
  intros [s2 [H1 H2]]. exists s2. split; [exact H1 | apply HR, H2].
Qed.

(* "if the specification succeeds, the new position is still a valid index" *)
Definition okpos {A} (o : outcome (A * sreader)) : Prop :=
  forall a r', o = Ok (a, r') -> sr_pos r' < 2 ^ 63.
Definition okpos0 (o : outcome sreader) : Prop :=
  forall r', o = Ok r' -> sr_pos r' < 2 ^ 63.

Lemma val_nil E : val E [] = 0.
Proof. destruct E; reflexivity. Qed.

(* ------------------------------------------------------------------ read_bits *)
Lemma read_bits_core E st ws n r s :
  urelW E st ws r s -> okpos (s_bits E st n r) ->
  osim (urelW E st ws) (s_bits E st n r) (ur_read_bits E n s).
Proof.
  intros HR Hok. destruct (urelW_inv _ _ _ _ _ HR) as (i & index & pk & -> & -> & HW & HI).
  unfold okpos in Hok. rewrite s_bits_sabs in *. unfold ur_read_bits.
  destruct (n =? 0) eqn:Hn0.
  - apply N.eqb_eq in Hn0. subst n. cbn [N.ltb N.compare]. 
    replace (0 <=? 64 * N.of_nat (length ws) - index) with true by (symmetry; apply N.leb_le; lia).
    cbn [negb]. rewrite andb_false_r. cbn [osim].
    exists (ur_at (mksrc ws i st) index). split.
    + f_equal. f_equal. unfold sval. change (N.to_nat 0) with 0%nat. cbn [take_pad]. symmetry. apply val_nil.
    + rewrite N.add_0_r. apply urelW_intro; assumption.
  - apply N.eqb_neq in Hn0. destruct (64 <? n) eqn:Hn64; [exact I |]. apply N.ltb_ge in Hn64.
    rewrite take_err_cond in * by lia.
    destruct (ur_fetch_eq E n ws i st index HW ltac:(lia) Hn64) as [i' Hf]. rewrite Hf.
    destruct (st && (64 * N.of_nat (length ws) <? index + n)).
    + reflexivity.
    + cbn [osim obind]. specialize (Hok _ _ eq_refl). cbn [sabs sr_pos] in Hok.
      unfold add64. cbn [ur_at ur_index]. destruct (index + n <? W64) eqn:Ha.
      * cbn [oo']. eexists. split; [reflexivity |]. apply urelW_intro; assumption.
      * apply N.ltb_ge in Ha. unfold W64 in Ha. lia.
Qed.

(* ------------------------------------------------------------------ peek_bits *)
Lemma peek_core E st ws n r s :
  urelW E st ws r s -> osim (urelW E st ws) (s_peek E st 32 n r) (ur_peek E n s).
Proof.
  intros HR. destruct (urelW_inv _ _ _ _ _ HR) as (i & index & pk & -> & -> & HW & HI).
  rewrite s_peek_sabs. unfold ur_peek.
  destruct (n =? 0) eqn:Hn0; [exact I |]. apply N.eqb_neq in Hn0. cbn [orb].
  destruct (32 <? n) eqn:Hn32; [exact I |]. apply N.ltb_ge in Hn32.
  rewrite take_err_cond by lia.
  destruct (ur_fetch_eq E n ws i st index HW ltac:(lia) ltac:(lia)) as [i' Hf]. rewrite Hf.
  destruct (st && (64 * N.of_nat (length ws) <? index + n)).
  - reflexivity.
  - cbn [osim obind]. eexists. split.
    + f_equal. f_equal. unfold wcast. apply N.mod_small.
      apply N.lt_le_trans with (2 ^ n); [apply sval_lt | apply N.pow_le_mono_r; lia].
    + cbn [ur_at ur_index]. apply urelW_intro; assumption.
Qed.

(* ------------------------------------------------------------------ skips *)
Lemma skip_to E st ws i index pk' n :
  Forall (fun w => w < 2 ^ 64) ws -> index + n < 2 ^ 63 ->
  exists s2, ur_skip n (ur_at (mksrc ws i st) index) = Ok s2 /\
             urelW E st ws (sabs E ws (index + n) pk') s2.
Proof.
  intros HW HI. unfold ur_skip, add64. cbn [ur_at ur_index ur_src].
  destruct (index + n <? W64) eqn:Ha; [| apply N.ltb_ge in Ha; unfold W64 in Ha; lia].
  cbn [oo']. eexists. split; [reflexivity |]. apply urelW_intro; assumption.
Qed.

Lemma skipap_core E st ws n r s :
  urelW E st ws r s -> okpos0 (s_skipap st n r) ->
  osim0 (urelW E st ws) (s_skipap st n r) (ur_skip n s).
Proof.
  intros HR Hok. destruct (urelW_inv _ _ _ _ _ HR) as (i & index & pk & -> & -> & HW & HI).
  unfold okpos0 in Hok. rewrite s_skipap_sabs in *.
  destruct (pk <? n); [exact I |].
  destruct (st && negb (n <=? 64 * N.of_nat (length ws) - index)); [exact I |].
  cbn [osim0]. specialize (Hok _ eq_refl). cbn [sabs sr_pos] in Hok.
  apply skip_to; assumption.
Qed.

(* the public skip_bits, against the specification with strictness st' (the machine never errs) *)
Lemma skip_core E st st' ws n r s :
  urelW E st ws r s -> okpos0 (s_skip st' n r) ->
  match s_skip st' n r with
  | Ok r' => exists s2, ur_skip n s = Ok s2 /\ urelW E st ws r' s2
  | _ => True
  end.
Proof.
  intros HR Hok. destruct (urelW_inv _ _ _ _ _ HR) as (i & index & pk & -> & -> & HW & HI).
  unfold okpos0 in Hok. rewrite s_skip_sabs in *.
  destruct (st' && negb (n <=? 64 * N.of_nat (length ws) - index)); [exact I |].
  specialize (Hok _ eq_refl). cbn [sabs sr_pos] in Hok. apply skip_to; assumption.
Qed.

(* ------------------------------------------------------------------ read_unary *)
Lemma ur_unary_words_cons E w r idx total biw first off st :
  ur_unary_words E (w :: r) idx total biw first off st =
  let word := if first then shw E w off else w in
  if zc E word <? biw then Ok (total + zc E word, idx + 1)
  else ur_unary_words E r (idx + 1) (total + biw) 64 false 0 st.
Proof. destruct E; reflexivity. Qed.

Lemma unary_words_char E st rest : Forall (fun w => w < 2 ^ 64) rest ->
  forall idx total off first, off < 64 -> (first = false -> off = 0) ->
  match ur_unary_words E rest idx total (64 - off) first off st with
  | Ok (res, idx') => exists z, res = total + z /\ sbit E rest (off + z) = true /\
                                (forall j, j < z -> sbit E rest (off + j) = false)
  | Err => st = true /\ forall j, sbit E rest (off + j) = false
  | Fuel => st = false /\ forall j, sbit E rest (off + j) = false
  | Fail => False
  end.
Proof.
  induction 1 as [| w r Hw HW IH]; intros idx total off first Ho Hf.
  - cbn [ur_unary_words]. destruct st; (split; [reflexivity | intros j; apply sbit_nil]).
  - rewrite ur_unary_words_cons. cbv zeta.
    assert (Hword : (if first then shw E w off else w) = shw E w off).
    { destruct first; [reflexivity |]. rewrite (Hf eq_refl). symmetry. apply shw_0. exact Hw. }
    rewrite Hword. pose proof (shw_zeros E w off Hw Ho) as HZ. cbv zeta in HZ.
    destruct (zc E (shw E w off) <? 64 - off) eqn:Hz.
    + apply N.ltb_lt in Hz. destruct HZ as [H1 H2]. exists (zc E (shw E w off)). split; [reflexivity |]. split.
      * rewrite sbit_cons_lo by lia. exact H1.
      * intros j Hj. rewrite sbit_cons_lo by lia. apply H2. exact Hj.
    + specialize (IH (idx + 1) (total + (64 - off)) 0 false ltac:(lia) ltac:(reflexivity)).
      change (64 - 0) with 64 in IH.
      assert (Hsh : forall j, sbit E (w :: r) (off + j) =
                              if j <? 64 - off then wbit E w (off + j) else sbit E r (0 + (j - (64 - off)))).
      { intros j. destruct (j <? 64 - off) eqn:Hj.
        - apply N.ltb_lt in Hj. apply sbit_cons_lo. lia.
        - apply N.ltb_ge in Hj. rewrite sbit_cons_hi by lia. f_equal. lia. }
      destruct (ur_unary_words E r (idx + 1) (total + (64 - off)) 64 false 0 st) as [[res idx'] | | |].
      * destruct IH as [z [Hres [H1 H2]]]. exists (64 - off + z). split; [lia |]. split.
        -- rewrite Hsh. destruct (64 - off + z <? 64 - off) eqn:Hc; [apply N.ltb_lt in Hc; lia |].
           replace (64 - off + z - (64 - off)) with z by lia. exact H1.
        -- intros j Hj. rewrite Hsh. destruct (j <? 64 - off) eqn:Hc.
           ++ apply N.ltb_lt in Hc. apply HZ. exact Hc.
           ++ apply N.ltb_ge in Hc. apply H2. lia.
      * destruct IH as [Hst Hall]. split; [exact Hst |]. intros j. rewrite Hsh.
        destruct (j <? 64 - off) eqn:Hc; [apply N.ltb_lt in Hc; apply HZ; exact Hc | apply Hall].
      * exact IH.
      * destruct IH as [Hst Hall]. split; [exact Hst |]. intros j. rewrite Hsh.
        destruct (j <? 64 - off) eqn:Hc; [apply N.ltb_lt in Hc; apply HZ; exact Hc | apply Hall].
Qed.

Lemma Forall_skipn {A} (P : A -> Prop) k l : Forall P l -> Forall P (skipn k l).
Proof.
  revert l. induction k as [| k IH]; intros l H; [exact H |].
  destruct l as [| x l]; [exact H |]. cbn [skipn]. apply IH. inversion H; assumption.
Qed.

Lemma s_unary_sabs E st' ws index pk :
  s_unary st' (sabs E ws index pk) =
  match count_zeros (skipn (N.to_nat index) (stream64 E ws)) with
  | Some z => Ok (z, sabs E ws (index + z + 1) 0)
  | None => if st' then Err else Fuel
  end.
Proof.
  unfold s_unary, sabs. cbn [sr_rest sr_pos].
  destruct (count_zeros (skipn (N.to_nat index) (stream64 E ws))) as [z |]; [| reflexivity].
  replace (index + z + 1) with (index + (z + 1)) by lia. rewrite <- skipn_rest.
  replace (N.to_nat (z + 1)) with (S (N.to_nat z)) by lia. reflexivity.
Qed.

Lemma read_unary_core E st ws r s :
  urelW E st ws r s -> okpos (s_unary st r) ->
  osim (urelW E st ws) (s_unary st r) (ur_read_unary E s).
Proof.
  intros HR Hok. destruct (urelW_inv _ _ _ _ _ HR) as (i & index & pk & -> & -> & HW & HI).
  unfold okpos in Hok. rewrite s_unary_sabs in *. unfold ur_read_unary. cbn [ur_at ur_src ur_index].
  rewrite src_set_pos_at.
  set (q := index / 64). set (off := index mod 64).
  assert (Hq : index = 64 * q + off /\ off < 64) by (subst q off; lia).
  destruct (st && (N.of_nat (length ws) <? q)) eqn:Hsp.
  - destruct st; [| discriminate]. cbn [andb] in Hsp. apply N.ltb_lt in Hsp. cbn [obind].
    rewrite count_zeros_none; [reflexivity |]. intros j. rewrite getb_rest. apply sbit_high. lia.
  - cbn [obind mksrc ws_idx ws_words ws_strict].
    pose proof (unary_words_char E st (skipn (N.to_nat q) ws) (Forall_skipn _ _ _ HW) q 0 off true
                  ltac:(lia) ltac:(discriminate)) as HU.
    assert (Hsb : forall j, sbit E (skipn (N.to_nat q) ws) (off + j) =
                            getb (skipn (N.to_nat index) (stream64 E ws)) j).
    { intros j. rewrite sbit_skipn, getb_rest. f_equal. lia. }
    destruct (ur_unary_words E (skipn (N.to_nat q) ws) q 0 (64 - off) true off st) as [[res idx'] | | |].
    + destruct HU as [z [Hres [H1 H2]]]. rewrite N.add_0_l in Hres. subst res.
      rewrite Hsb in H1. assert (H2' : forall j, j < z -> getb (skipn (N.to_nat index) (stream64 E ws)) j = false)
        by (intros j Hj; rewrite <- Hsb; apply H2; exact Hj).
      rewrite (count_zeros_some _ z H1 H2') in *.
      specialize (Hok _ _ eq_refl). cbn [sabs sr_pos] in Hok.
      cbn [osim obind]. unfold add64. destruct (index + (z + 1) <? W64) eqn:Ha;
        [| apply N.ltb_ge in Ha; unfold W64 in Ha; lia].
      cbn [oo']. eexists. split; [reflexivity |].
      replace (index + z + 1) with (index + (z + 1)) by lia.
      apply (urelW_intro E st ws idx' (index + (z + 1)) 0); [assumption | lia].
    + destruct HU as [Hst Hall]. subst st. rewrite count_zeros_none; [reflexivity |].
      intros j. rewrite <- Hsb. apply Hall.
    + destruct HU.
    + destruct HU as [Hst Hall]. subst st. rewrite count_zeros_none; [exact I |].
      intros j. rewrite <- Hsb. apply Hall.
Qed.

(* ------------------------------------------------------------------ *)
(* when does the specification leave the position a valid index? *)
Lemma okpos_bits_bound E st' ws index pk n :
  (n <= 64 -> index + n < 2 ^ 63) -> okpos (s_bits E st' n (sabs E ws index pk)).
Proof.
  intros H a r'. rewrite s_bits_sabs. destruct (64 <? n) eqn:Hn; [discriminate |]. apply N.ltb_ge in Hn.
  destruct (st' && negb (n <=? 64 * N.of_nat (length ws) - index)); [discriminate |].
  intros [= _ <-]. cbn [sabs sr_pos]. auto.
Qed.

Lemma okpos_bits_strict E ws index pk n :
  index < 2 ^ 63 -> 64 * N.of_nat (length ws) < 2 ^ 63 -> okpos (s_bits E true n (sabs E ws index pk)).
Proof.
  intros HI HL a r'. rewrite s_bits_sabs. destruct (64 <? n); [discriminate |]. cbn [andb].
  destruct (n <=? 64 * N.of_nat (length ws) - index) eqn:Hc; [| discriminate]. apply N.leb_le in Hc.
  cbn [negb]. intros [= _ <-]. cbn [sabs sr_pos]. lia.
Qed.

Lemma okpos_unary_len E st' ws index pk :
  64 * N.of_nat (length ws) < 2 ^ 63 -> okpos (s_unary st' (sabs E ws index pk)).
Proof.
  intros HL a r'. rewrite s_unary_sabs.
  pose proof (count_zeros_spec (skipn (N.to_nat index) (stream64 E ws))) as HC.
  destruct (count_zeros (skipn (N.to_nat index) (stream64 E ws))) as [z |].
  - intros [= _ <-]. cbn [sabs sr_pos]. destruct HC as [_ [_ HC]]. unfold lenN in HC.
    rewrite length_rest in HC. lia.
  - destruct st'; discriminate.
Qed.

Lemma okpos_skipap_bound E st' ws index pk n :
  index + n < 2 ^ 63 -> okpos0 (s_skipap st' n (sabs E ws index pk)).
Proof.
  intros H r'. rewrite s_skipap_sabs. destruct (pk <? n); [discriminate |].
  destruct (st' && negb (n <=? 64 * N.of_nat (length ws) - index)); [discriminate |].
  intros [= <-]. exact H.
Qed.

Lemma okpos_skipap_strict E ws index pk n :
  index < 2 ^ 63 -> 64 * N.of_nat (length ws) < 2 ^ 63 -> okpos0 (s_skipap true n (sabs E ws index pk)).
Proof.
  intros HI HL r'. rewrite s_skipap_sabs. destruct (pk <? n); [discriminate |]. cbn [andb].
  destruct (n <=? 64 * N.of_nat (length ws) - index) eqn:Hc; [| discriminate]. apply N.leb_le in Hc.
  cbn [negb]. intros [= <-]. cbn [sabs sr_pos]. lia.
Qed.

Lemma okpos_skip_bound E st' ws index pk n :
  index + n < 2 ^ 63 -> okpos0 (s_skip st' n (sabs E ws index pk)).
Proof.
  intros H r'. rewrite s_skip_sabs.
  destruct (st' && negb (n <=? 64 * N.of_nat (length ws) - index)); [discriminate |].
  intros [= <-]. exact H.
Qed.

Lemma urelW_urel E st ws r s : urelW E st ws r s -> urel E r s.
Proof. intros H. apply H. Qed.

(* ------------------------------------------------------------------ *)
(* the published statements; `strict` is the strictness of the machine's word source *)
Theorem new_ok E words strict :
  Forall (fun w => w < 2 ^ 64) words ->
  UInv (ur_new words strict) /\
  uabs E (ur_new words strict) 0 = sreader_of (bits_of_words E 64 words) /\
  urel E (sreader_of (bits_of_words E 64 words)) (ur_new words strict).
Proof.
  intros HW. assert (HU : UInv (ur_new words strict)) by (split; [exact HW | reflexivity]).
  split; [exact HU |]. split; [reflexivity |]. split; [exact HU |]. exists 0. reflexivity.
Qed.

Lemma urel_inv E r s : urel E r s ->
  exists ws i st index pk, s = ur_at (mksrc ws i st) index /\ r = sabs E ws index pk /\
                           Forall (fun w => w < 2 ^ 64) ws /\ index < 2 ^ 63.
Proof.
  intros HR. apply urelW_of_urel in HR. destruct (urelW_inv _ _ _ _ _ HR) as (i & index & pk & Hs & Hr & HW & HI).
  exists (ws_words (ur_src s)), i, (ws_strict (ur_src s)), index, pk. repeat split; assumption.
Qed.

Ltac urel_destruct E HR :=
  let ws := fresh "ws" in let i := fresh "i" in let st := fresh "st" in
  let index := fresh "index" in let pk := fresh "pk" in
  let HW := fresh "HW" in let HI := fresh "HI" in
  destruct (urel_inv _ _ _ HR) as (ws & i & st & index & pk & -> & -> & HW & HI);
  unfold ulen in *; cbn [ur_at ur_src ur_index mksrc ws_words ws_strict ws_idx] in *;
  pose proof (urelW_intro E st ws i index pk HW HI) as HRW.

Theorem read_bits_sim E n r s :
  urel E r s -> (n <= 64 -> ur_index s + n < 2 ^ 63) ->
  osim (urel E) (s_bits E (ws_strict (ur_src s)) n r) (ur_read_bits E n s).
Proof.
  intros HR HB. urel_destruct E HR.
  apply (osim_weaken (urelW E st ws) (urel E)); [intros a b; apply urelW_urel |].
  apply read_bits_core; [exact HRW |]. apply okpos_bits_bound. exact HB.
Qed.

Theorem peek_sim E n r s :
  urel E r s -> osim (urel E) (s_peek E (ws_strict (ur_src s)) 32 n r) (ur_peek E n s).
Proof.
  intros HR. urel_destruct E HR.
  apply (osim_weaken (urelW E st ws) (urel E)); [intros a b; apply urelW_urel |].
  apply peek_core. exact HRW.
Qed.

Theorem skipap_sim E n r s :
  urel E r s -> ur_index s + n < 2 ^ 63 ->
  osim0 (urel E) (s_skipap (ws_strict (ur_src s)) n r) (ur_skip n s).
Proof.
  intros HR HB. urel_destruct E HR.
  apply (osim0_weaken (urelW E st ws) (urel E)); [intros a b; apply urelW_urel |].
  apply skipap_core; [exact HRW |]. apply okpos_skipap_bound. exact HB.
Qed.

(* public skip_bits: the machine only adds to the index, i.e. it skips in the zero-extended view *)
Theorem skip_sim E n r s :
  urel E r s -> ur_index s + n < 2 ^ 63 ->
  osim0 (urel E) (s_skip false n r) (ur_skip n s).
Proof.
  intros HR HB. urel_destruct E HR.
  pose proof (skip_core E st false ws n _ _ HRW (okpos_skip_bound E false _ _ _ _ HB)) as H.
  rewrite s_skip_sabs in *. cbn [andb] in *. cbn [osim0].
  destruct H as [s2 [H1 H2]]. exists s2. split; [exact H1 | apply H2].
Qed.

(* ... and it agrees with the strict specification as long as the skipped bits exist *)
Theorem skip_strict_sim E n r s :
  urel E r s -> ur_index s + n <= 64 * ulen s -> ur_index s + n < 2 ^ 63 ->
  osim0 (urel E) (s_skip true n r) (ur_skip n s).
Proof.
  intros HR HL HB. urel_destruct E HR.
  pose proof (skip_core E st true ws n _ _ HRW (okpos_skip_bound E true _ _ _ _ HB)) as H.
  rewrite s_skip_sabs in *. cbn [andb] in *.
  destruct (n <=? 64 * N.of_nat (length ws) - index) eqn:Hc; [| apply N.leb_gt in Hc; lia].
  cbn [negb osim0] in *. destruct H as [s2 [H1 H2]]. exists s2. split; [exact H1 | apply H2].
Qed.

(* beyond the end: the strict specification errs, the machine moves the index *)
Theorem skip_over E n r s :
  urel E r s -> 1 <= n -> 64 * ulen s < ur_index s + n ->
  s_skip true n r = Err /\
  (ur_index s + n < 2 ^ 64 -> ur_skip n s = Ok {| ur_src := ur_src s; ur_index := ur_index s + n |}).
Proof.
  intros HR Hn HL. urel_destruct E HR. split.
  - rewrite s_skip_sabs. cbn [andb].
    destruct (n <=? 64 * N.of_nat (length ws) - index) eqn:Hc; [| reflexivity].
    apply N.leb_le in Hc. lia.
  - intros Hb. unfold ur_skip, add64. cbn [ur_at ur_index ur_src].
    destruct (index + n <? W64) eqn:Ha; [reflexivity | apply N.ltb_ge in Ha; unfold W64 in Ha; lia].
Qed.

Theorem read_unary_sim E r s :
  urel E r s -> 64 * ulen s < 2 ^ 63 ->
  osim (urel E) (s_unary (ws_strict (ur_src s)) r) (ur_read_unary E s).
Proof.
  intros HR HL. urel_destruct E HR.
  apply (osim_weaken (urelW E st ws) (urel E)); [intros a b; apply urelW_urel |].
  apply read_unary_core; [exact HRW |]. apply okpos_unary_len. exact HL.
Qed.

(* ------------------------------------------------------------------ *)
(* C09: errors of strict sources, no errors of zero-extended ones (no invariant needed) *)
Lemma ureader_eta s : s = ur_at (mksrc (ws_words (ur_src s)) (ws_idx (ur_src s)) (ws_strict (ur_src s))) (ur_index s).
Proof. destruct s as [[ws i st] index]. reflexivity. Qed.

Lemma ur_fetch_err E n ws i index :
  1 <= n -> n <= 64 -> 64 * N.of_nat (length ws) < index + n ->
  ur_fetch E n (ur_at (mksrc ws i true) index) = Err.
Proof.
  intros Hn1 Hn2 HL. unfold ur_fetch. cbn [ur_at ur_src ur_index]. rewrite src_set_pos_at. cbn [andb].
  set (q := index / 64). set (off := index mod 64).
  assert (Hq : index = 64 * q + off /\ off < 64) by (subst q off; lia).
  destruct (N.of_nat (length ws) <? q) eqn:Hsp; [reflexivity |]. apply N.ltb_ge in Hsp. cbn [obind].
  rewrite src_read_at. cbn [andb].
  destruct (N.of_nat (length ws) <=? q) eqn:H1; [destruct (off + n <=? 64); reflexivity |].
  apply N.leb_gt in H1. destruct (off + n <=? 64) eqn:Hs; [apply N.leb_le in Hs; lia |].
  apply N.leb_gt in Hs. cbn [obind]. rewrite src_read_at. cbn [andb].
  destruct (N.of_nat (length ws) <=? q + 1) eqn:H2; [reflexivity | apply N.leb_gt in H2; lia].
Qed.

Theorem strict_error E n s :
  ws_strict (ur_src s) = true -> 0 < n -> n <= 64 -> 64 * ulen s < ur_index s + n ->
  ur_read_bits E n s = Err.
Proof.
  intros Hst Hn1 Hn2 HL. rewrite (ureader_eta s) in *. unfold ulen in HL.
  cbn [ur_at ur_src ur_index mksrc ws_words ws_strict ws_idx] in *. rewrite Hst.
  unfold ur_read_bits. destruct (n =? 0) eqn:H0; [apply N.eqb_eq in H0; lia |].
  destruct (64 <? n) eqn:H64; [apply N.ltb_lt in H64; lia |].
  rewrite ur_fetch_err by lia. reflexivity.
Qed.

Theorem strict_peek_error E n s :
  ws_strict (ur_src s) = true -> 0 < n -> n <= 32 -> 64 * ulen s < ur_index s + n ->
  ur_peek E n s = Err.
Proof.
  intros Hst Hn1 Hn2 HL. rewrite (ureader_eta s) in *. unfold ulen in HL.
  cbn [ur_at ur_src ur_index mksrc ws_words ws_strict ws_idx] in *. rewrite Hst.
  unfold ur_peek. destruct (n =? 0) eqn:H0; [apply N.eqb_eq in H0; lia |].
  destruct (32 <? n) eqn:H32; [apply N.ltb_lt in H32; lia |].
  rewrite ur_fetch_err by lia. reflexivity.
Qed.

Lemma skipn_all_words {A} (l : list A) k : (length l <= k)%nat -> skipn k l = [].
Proof. apply skipn_all2. Qed.

Theorem strict_unary_error E s :
  ws_strict (ur_src s) = true -> 64 * ulen s <= ur_index s -> ur_read_unary E s = Err.
Proof.
  intros Hst HL. rewrite (ureader_eta s) in *. unfold ulen in HL.
  cbn [ur_at ur_src ur_index mksrc ws_words ws_strict ws_idx] in *. rewrite Hst.
  unfold ur_read_unary. cbn [ur_at ur_src ur_index]. rewrite src_set_pos_at. cbn [andb].
  destruct (N.of_nat (length (ws_words (ur_src s))) <? ur_index s / 64) eqn:Hsp; [reflexivity |].
  apply N.ltb_ge in Hsp. cbn [obind mksrc ws_idx ws_words ws_strict].
  rewrite skipn_all_words by lia. reflexivity.
Qed.

(* after skipping beyond the end of a strict source every read of at least one bit is an error *)
Theorem after_overskip E s :
  ws_strict (ur_src s) = true -> 64 * ulen s <= ur_index s ->
  (forall n, 1 <= n -> n <= 64 -> ur_read_bits E n s = Err) /\
  (forall n, 1 <= n -> n <= 32 -> ur_peek E n s = Err) /\
  ur_read_unary E s = Err.
Proof.
  intros Hst HL. split; [| split].
  - intros n H1 H2. apply strict_error; [exact Hst | lia | exact H2 | lia].
  - intros n H1 H2. apply strict_peek_error; [exact Hst | lia | exact H2 | lia].
  - apply strict_unary_error; assumption.
Qed.

Ltac oo_cases :=
  repeat match goal with
  | |- context [oo' ?o _] => destruct o; cbn [oo']
  end.

Lemma ur_fetch_noerr E n ws i index : ur_fetch E n (ur_at (mksrc ws i false) index) <> Err.
Proof.
  unfold ur_fetch. cbn [ur_at ur_src ur_index]. rewrite src_set_pos_at. cbn [andb obind].
  destruct (index mod 64 + n <=? 64).
  - rewrite src_read_at. cbn [andb obind]. destruct E; oo_cases; discriminate.
  - rewrite src_read_at. cbn [andb obind]. rewrite src_read_at. cbn [andb obind].
    destruct E; oo_cases; discriminate.
Qed.

Lemma unary_words_noerr E rest : forall idx total biw first off,
  ur_unary_words E rest idx total biw first off false <> Err.
Proof.
  induction rest as [| w r IH]; intros idx total biw first off.
  - cbn [ur_unary_words]. discriminate.
  - rewrite ur_unary_words_cons. cbv zeta.
    destruct (zc E (if first then shw E w off else w) <? biw); [discriminate | apply IH].
Qed.

Theorem zero_extended_no_error E s :
  ws_strict (ur_src s) = false ->
  (forall n, ur_read_bits E n s <> Err) /\ (forall n, ur_peek E n s <> Err) /\
  (forall n, ur_skip n s <> Err) /\ ur_read_unary E s <> Err.
Proof.
  intros Hst. rewrite (ureader_eta s). rewrite Hst.
  set (ws := ws_words (ur_src s)). set (i := ws_idx (ur_src s)). set (index := ur_index s).
  split; [| split; [| split]].
  - intros n. unfold ur_read_bits. destruct (n =? 0); [discriminate |]. destruct (64 <? n); [discriminate |].
    pose proof (ur_fetch_noerr E n ws i index) as H.
    destruct (ur_fetch E n (ur_at (mksrc ws i false) index)) as [[v k] | | |]; cbn [obind]; try discriminate; try congruence.
    oo_cases; discriminate.
  - intros n. unfold ur_peek. destruct (n =? 0); [discriminate |]. destruct (32 <? n); [discriminate |].
    pose proof (ur_fetch_noerr E n ws i index) as H.
    destruct (ur_fetch E n (ur_at (mksrc ws i false) index)) as [[v k] | | |]; cbn [obind]; try discriminate; congruence.
  - intros n. unfold ur_skip. oo_cases; discriminate.
  - unfold ur_read_unary. cbn [ur_at ur_src ur_index]. rewrite src_set_pos_at. cbn [andb obind mksrc ws_idx ws_words ws_strict].
    match goal with |- context [ur_unary_words ?a ?b ?c ?d ?e ?f ?g ?h] =>
      pose proof (unary_words_noerr a b c d e f g) as H; destruct (ur_unary_words a b c d e f g h) as [[res idx'] | | |] end;
      cbn [obind]; try discriminate; try congruence.
    oo_cases; discriminate.
Qed.

(* ------------------------------------------------------------------ *)
(* C07: positions *)
Theorem bit_pos_ok E r s : urel E r s -> sr_pos r = ur_index s.
Proof. intros [_ [pk ->]]. reflexivity. Qed.

(* set_bit_pos p: the state stands for a fresh specification reader advanced by p bits *)
Theorem set_bit_pos_ok E p s :
  UInv s -> p < 2 ^ 63 ->
  let s' := {| ur_src := ur_src s; ur_index := p |} in
  s_skip false p (sreader_of (src_bits E 64 (ur_src s))) = Ok (uabs E s' 0) /\
  uabs E s' 0 = {| sr_rest := skipn (N.to_nat p) (src_bits E 64 (ur_src s)); sr_pos := p; sr_peeked := 0 |} /\
  urel E (uabs E s' 0) s'.
Proof.
  intros [HW HI] Hp s'. split; [| split].
  - change (sreader_of (src_bits E 64 (ur_src s))) with (sabs E (ws_words (ur_src s)) 0 0).
    rewrite s_skip_sabs. cbn [andb]. rewrite N.add_0_l. reflexivity.
  - reflexivity.
  - split; [split; [exact HW | exact Hp] |]. exists 0. reflexivity.
Qed.

(* ------------------------------------------------------------------ *)
(* programs, strict sources: the stream length bounds the index, so there is a clean invariant *)
Definition urel_strict (E : endian) (r : sreader) (s : ureader) : Prop :=
  urel E r s /\ ws_strict (ur_src s) = true /\ 64 * ulen s < 2 ^ 63.

Lemma urelW_strict E ws r s : 64 * N.of_nat (length ws) < 2 ^ 63 -> urelW E true ws r s -> urel_strict E r s.
Proof.
  intros HL [HR [Hst Hws]]. split; [exact HR |]. split; [exact Hst |]. unfold ulen. rewrite Hws. exact HL.
Qed.

Theorem prims_sim_strict E : rprims_sim (urel_strict E) (sprims E true 32) (urprims E).
Proof.
  split.
  - intros n r s [HR [Hst HL]]. cbn [p_bits sprims urprims]. urel_destruct E HR. subst st.
    apply (osim_weaken (urelW E true ws) (urel_strict E)); [intros a b; apply urelW_strict; exact HL |].
    apply read_bits_core; [exact HRW |]. apply okpos_bits_strict; assumption.
  - intros r s [HR [Hst HL]]. cbn [p_unary sprims urprims]. urel_destruct E HR. subst st.
    apply (osim_weaken (urelW E true ws) (urel_strict E)); [intros a b; apply urelW_strict; exact HL |].
    apply read_unary_core; [exact HRW |]. apply okpos_unary_len. exact HL.
  - intros n r s [HR [Hst HL]]. cbn [p_peek sprims urprims]. urel_destruct E HR. subst st.
    apply (osim_weaken (urelW E true ws) (urel_strict E)); [intros a b; apply urelW_strict; exact HL |].
    apply peek_core. exact HRW.
  - intros n r s [HR [Hst HL]]. cbn [p_skipap sprims urprims]. urel_destruct E HR. subst st.
    apply (osim0_weaken (urelW E true ws) (urel_strict E)); [intros a b; apply urelW_strict; exact HL |].
    apply skipap_core; [exact HRW |]. apply okpos_skipap_strict; assumption.
Qed.

Theorem run_sim_strict E A (p : rprog A) r s :
  urel_strict E r s -> osim (urel_strict E) (rrun (sprims E true 32) p r) (rrun (urprims E) p s).
Proof. apply run_simulation. apply prims_sim_strict. Qed.

(* ------------------------------------------------------------------ *)
(* programs, any source: a zero-extended source can be read for ever, so no invariant bounds the
   u64 index; the statement is for runs whose specification ends at a position below 2^63
   (positions only grow, so all intermediate positions are below 2^63 as well) *)
Lemma s_take_pos st n r bs r' : s_take st n r = Ok (bs, r') -> sr_pos r' = sr_pos r + n.
Proof.
  unfold s_take. destruct (n <=? N.of_nat (length (sr_rest r))).
  - intros [= _ <-]. reflexivity.
  - destruct st; [discriminate |]. intros [= _ <-]. reflexivity.
Qed.

Lemma s_bits_pos E st n r v r' : s_bits E st n r = Ok (v, r') -> sr_pos r <= sr_pos r'.
Proof.
  unfold s_bits. destruct (64 <? n); [discriminate |].
  destruct (s_take st n r) as [[bs r1] | | |] eqn:Ht; try discriminate.
  intros [= _ <-]. apply s_take_pos in Ht. lia.
Qed.

Lemma s_unary_pos st r v r' : s_unary st r = Ok (v, r') -> sr_pos r <= sr_pos r'.
Proof.
  unfold s_unary. destruct (count_zeros (sr_rest r)); [| destruct st; discriminate].
  intros [= _ <-]. cbn [sr_pos]. lia.
Qed.

Lemma s_peek_pos E st cap n r v r' : s_peek E st cap n r = Ok (v, r') -> sr_pos r <= sr_pos r'.
Proof.
  unfold s_peek. destruct ((n =? 0) || (cap <? n)); [discriminate |].
  destruct (s_take st n r) as [[bs r1] | | |]; try discriminate.
  intros [= _ <-]. cbn [sr_pos]. lia.
Qed.

Lemma s_skipap_pos st n r r' : s_skipap st n r = Ok r' -> sr_pos r <= sr_pos r'.
Proof.
  unfold s_skipap. destruct (sr_peeked r <? n); [discriminate |].
  destruct (s_take st n r) as [[bs r1] | | |] eqn:Ht; try discriminate.
  intros [= <-]. apply s_take_pos in Ht. cbn [sr_pos]. lia.
Qed.

Lemma rrun_pos_mono E st cap A (p : rprog A) : forall r a r',
  rrun (sprims E st cap) p r = Ok (a, r') -> sr_pos r <= sr_pos r'.
Proof.
  induction p as [a0 | n k IH | k IH | n k IH | n k IH | n k IH |]; intros r a r'; cbn [rrun p_bits p_unary p_peek p_skipap sprims].
  - intros [= _ <-]. lia.
  - destruct (s_bits E st n r) as [[v r1] | | |] eqn:Hb; try discriminate.
    intros H. apply IH in H. apply s_bits_pos in Hb. lia.
  - destruct (s_unary st r) as [[v r1] | | |] eqn:Hb; try discriminate.
    intros H. apply IH in H. apply s_unary_pos in Hb. lia.
  - destruct (s_peek E st cap n r) as [[v r1] | | |] eqn:Hb; try discriminate.
    + intros H. apply IH in H. apply s_peek_pos in Hb. lia.
    + intros H. apply IH in H. exact H.
  - destruct (s_peek E st cap n r) as [[v r1] | | |] eqn:Hb; try discriminate.
    intros H. apply IH in H. apply s_peek_pos in Hb. lia.
  - destruct (s_skipap st n r) as [r1 | | |] eqn:Hb; try discriminate.
    intros H. apply IH in H. apply s_skipap_pos in Hb. lia.
  - discriminate.
Qed.

Lemma run_sim_bounded_W E st ws A (p : rprog A) : forall r s a r',
  urelW E st ws r s -> rrun (sprims E st 32) p r = Ok (a, r') -> sr_pos r' < 2 ^ 63 ->
  exists s', rrun (urprims E) p s = Ok (a, s') /\ urelW E st ws r' s'.
Proof.
  induction p as [a0 | n k IH | k IH | n k IH | n k IH | n k IH |]; intros r s a r' HR;
    cbn [rrun p_bits p_unary p_peek p_skipap sprims urprims].
  - intros [= <- <-] _. exists s. split; [reflexivity | exact HR].
  - intros Hrun HP. pose proof (read_bits_core E st ws n r s HR) as Hsim.
    destruct (s_bits E st n r) as [[v r1] | | |] eqn:Hb; try discriminate.
    assert (Hok : okpos (Ok (v, r1))).
    { intros a1 r2 [= _ <-]. apply rrun_pos_mono in Hrun. lia. }
    destruct (Hsim Hok) as [s1 [-> HR1]]. apply (IH v r1 s1 a r' HR1 Hrun HP).
  - intros Hrun HP. pose proof (read_unary_core E st ws r s HR) as Hsim.
    destruct (s_unary st r) as [[v r1] | | |] eqn:Hb; try discriminate.
    assert (Hok : okpos (Ok (v, r1))).
    { intros a1 r2 [= _ <-]. apply rrun_pos_mono in Hrun. lia. }
    destruct (Hsim Hok) as [s1 [-> HR1]]. apply (IH v r1 s1 a r' HR1 Hrun HP).
  - intros Hrun HP. pose proof (peek_core E st ws n r s HR) as Hsim.
    destruct (s_peek E st 32 n r) as [[v r1] | | |] eqn:Hb; try discriminate.
    + destruct Hsim as [s1 [-> HR1]]. apply (IH (Some v) r1 s1 a r' HR1 Hrun HP).
    + cbn [osim] in Hsim. rewrite Hsim. apply (IH None r s a r' HR Hrun HP).
  - intros Hrun HP. pose proof (peek_core E st ws n r s HR) as Hsim.
    destruct (s_peek E st 32 n r) as [[v r1] | | |] eqn:Hb; try discriminate.
    destruct Hsim as [s1 [-> HR1]]. apply (IH v r1 s1 a r' HR1 Hrun HP).
  - intros Hrun HP. pose proof (skipap_core E st ws n r s HR) as Hsim.
    destruct (s_skipap st n r) as [r1 | | |] eqn:Hb; try discriminate.
    assert (Hok : okpos0 (Ok r1)).
    { intros r2 [= <-]. apply rrun_pos_mono in Hrun. lia. }
    destruct (Hsim Hok) as [s1 [-> HR1]]. apply (IH r1 s1 a r' HR1 Hrun HP).
  - discriminate.
Qed.

Theorem run_sim_bounded E A (p : rprog A) r s a r' :
  urel E r s -> rrun (sprims E (ws_strict (ur_src s)) 32) p r = Ok (a, r') -> sr_pos r' < 2 ^ 63 ->
  exists s', rrun (urprims E) p s = Ok (a, s') /\ urel E r' s' /\
             ws_strict (ur_src s') = ws_strict (ur_src s) /\ ws_words (ur_src s') = ws_words (ur_src s).
Proof.
  intros HR Hrun HP. apply urelW_of_urel in HR.
  destruct (run_sim_bounded_W E _ _ A p r s a r' HR Hrun HP) as [s' [H1 [H2 [H3 H4]]]].
  exists s'. split; [exact H1 | split; [exact H2 | split; assumption]].
Qed.

(* ------------------------------------------------------------------ *)
(* examples on a two-word source *)
Definition ex_w0 : N := 81985529216486895.    (* 0x0123456789ABCDEF *)
Definition ex_w1 : N := 18364758544493064720. (* 0xFEDCBA9876543210 *)
Definition ex_s (st : bool) (index : N) : ureader := ur_at (mksrc [ex_w0; ex_w1] 0 st) index.

Lemma ex_words_ok : Forall (fun w => w < 2 ^ 64) [ex_w0; ex_w1].
Proof. repeat constructor. Qed.

(* the hypotheses of the theorems are satisfiable *)
Example ex_urel E st : urel E (uabs E (ex_s st 56) 0) (ex_s st 56) /\ (16 <= 64 -> ur_index (ex_s st 56) + 16 < 2 ^ 63).
Proof.
  split.
  - split; [split; [exact ex_words_ok | reflexivity] |]. exists 0. reflexivity.
  - intros _. reflexivity.
Qed.
Example ex_urel_strict E : urel_strict E (uabs E (ex_s true 56) 0) (ex_s true 56).
Proof. split; [apply ex_urel | split; reflexivity]. Qed.
Example ex_new E : urel E (sreader_of (bits_of_words E 64 [ex_w0; ex_w1])) (ur_new [ex_w0; ex_w1] true).
Proof. apply new_ok. exact ex_words_ok. Qed.

(* single-word accesses: bits [4, 16) *)
Example ex_read1_BE :
  omap fst (ur_read_bits BE 12 (ex_s true 4)) = Ok 291 (* 0x123 *) /\
  omap fst (s_bits BE true 12 (uabs BE (ex_s true 4) 0)) = Ok 291.
Proof. split; vm_compute; reflexivity. Qed.
Example ex_read1_LE :
  omap fst (ur_read_bits LE 12 (ex_s true 4)) = Ok 3294 (* 0xCDE *) /\
  omap fst (s_bits LE true 12 (uabs LE (ex_s true 4) 0)) = Ok 3294.
Proof. split; vm_compute; reflexivity. Qed.
(* double-word accesses: bits [56, 72) and the full-width read at offset 1 *)
Example ex_read2_BE :
  omap fst (ur_read_bits BE 16 (ex_s true 56)) = Ok 61438 (* 0xEFFE *) /\
  omap fst (s_bits BE true 16 (uabs BE (ex_s true 56) 0)) = Ok 61438.
Proof. split; vm_compute; reflexivity. Qed.
Example ex_read2_LE :
  omap fst (ur_read_bits LE 16 (ex_s true 56)) = Ok 4097 (* 0x1001 *) /\
  omap fst (s_bits LE true 16 (uabs LE (ex_s true 56) 0)) = Ok 4097.
Proof. split; vm_compute; reflexivity. Qed.
Example ex_read64_BE :
  omap fst (ur_read_bits BE 64 (ex_s true 1)) = Ok 163971058432973791 /\
  omap fst (s_bits BE true 64 (uabs BE (ex_s true 1) 0)) = Ok 163971058432973791.
Proof. split; vm_compute; reflexivity. Qed.
Example ex_read64_LE :
  omap fst (ur_read_bits LE 64 (ex_s true 1)) = Ok 40992764608243447 /\
  omap fst (s_bits LE true 64 (uabs LE (ex_s true 1) 0)) = Ok 40992764608243447.
Proof. split; vm_compute; reflexivity. Qed.
(* the end of the stream: bits [120, 136) *)
Example ex_end_strict :
  ur_read_bits BE 16 (ex_s true 120) = Err /\ s_bits BE true 16 (uabs BE (ex_s true 120) 0) = Err.
Proof. split; vm_compute; reflexivity. Qed.
Example ex_end_zero_extended :
  omap fst (ur_read_bits BE 16 (ex_s false 120)) = Ok 4096 /\
  omap fst (s_bits BE false 16 (uabs BE (ex_s false 120) 0)) = Ok 4096 /\
  omap fst (ur_read_bits LE 16 (ex_s false 120)) = Ok 254 /\
  omap fst (s_bits LE false 16 (uabs LE (ex_s false 120) 0)) = Ok 254.
Proof. repeat split; vm_compute; reflexivity. Qed.
Example ex_unary_peek_skip :
  omap fst (ur_read_unary BE (ex_s true 0)) = Ok 7 /\
  omap fst (ur_read_unary LE (ex_s true 60)) = Ok 8 /\
  omap fst (ur_peek BE 9 (ex_s true 60)) = Ok 511 /\
  omap ur_index (ur_skip 100 (ex_s true 60)) = Ok 160 /\
  ur_read_bits LE 1 (ex_s true 160) = Err.
Proof. repeat split; vm_compute; reflexivity. Qed.
(* the corner of skip_over: skipping 0 bits beyond the end is Ok in the strict specification *)
Example ex_skip0_beyond : exists r', s_skip true 0 (uabs BE (ex_s true 160) 0) = Ok r'.
Proof. eexists. vm_compute. reflexivity. Qed.
