(* BitsLemmas.v — generally useful lemmas about N.testbit, the bit lists of Base.v
   (field_le / field_be / field, val_le / val_be, zeros, unary, take_pad) and the byte
   layout (bits_of_bytes, image).  No machine-specific content. *)
From Coq Require Import ZifyBool ZifyNat ZifyN.
From DSI Require Import Base.
Ltac Zify.zify_post_hook ::= Z.div_mod_to_equations.

(* ------------------------------------------------------------------ *)
(** * N.testbit through the arithmetic operations used by the word models *)

Lemma testbit_mod_pow2 a n i : N.testbit (a mod 2 ^ n) i = (i <? n) && N.testbit a i.
Proof.
  destruct (N.ltb_spec i n).
  - rewrite N.mod_pow2_bits_low by assumption. reflexivity.
  - rewrite N.mod_pow2_bits_high by assumption. reflexivity.
Qed.

Lemma testbit_div_pow2 a n i : N.testbit (a / 2 ^ n) i = N.testbit a (i + n).
Proof. apply N.div_pow2_bits. Qed.

Lemma testbit_mul_pow2 a n i : N.testbit (a * 2 ^ n) i = (n <=? i) && N.testbit a (i - n).
Proof.
  destruct (N.leb_spec n i).
  - rewrite N.mul_pow2_bits_high by assumption. reflexivity.
  - rewrite N.mul_pow2_bits_low by assumption. reflexivity.
Qed.

Lemma testbit_ones n i : N.testbit (N.ones n) i = (i <? n).
Proof.
  destruct (N.ltb_spec i n).
  - apply N.ones_spec_low; assumption.
  - apply N.ones_spec_high; assumption.
Qed.

Lemma testbit_pow2 n i : N.testbit (2 ^ n) i = (i =? n).
Proof. rewrite N.pow2_bits_eqb. apply N.eqb_sym. Qed.

Lemma testbit_1 i : N.testbit 1 i = (i =? 0).
Proof. change 1 with (2 ^ 0). apply testbit_pow2. Qed.

Lemma pow2_sub1_ones n : 2 ^ n - 1 = N.ones n.
Proof. rewrite N.ones_equiv, N.sub_1_r. reflexivity. Qed.

Lemma pow2_pos n : 0 < 2 ^ n.
Proof. apply N.neq_0_lt_0. apply N.pow_nonzero. discriminate. Qed.

Lemma pow2_le_mono a b : a <= b -> 2 ^ a <= 2 ^ b.
Proof. intros. apply N.pow_le_mono_r; [discriminate | assumption]. Qed.

Lemma pow2_lt_mono a b : a < b -> 2 ^ a < 2 ^ b.
Proof. intros. apply N.pow_lt_mono_r; [reflexivity | assumption]. Qed.

Lemma testbit_high a n i : a < 2 ^ n -> n <= i -> N.testbit a i = false.
Proof.
  intros Ha Hi. destruct (N.eq_dec a 0) as [-> | Hz]; [apply N.bits_0 |].
  apply N.bits_above_log2. apply N.log2_lt_pow2; [lia |].
  apply N.lt_le_trans with (2 ^ n); [assumption | apply pow2_le_mono; assumption].
Qed.

Lemma lt_pow2_bits a n : (forall i, n <= i -> N.testbit a i = false) -> a < 2 ^ n.
Proof.
  intros H. destruct (N.eq_dec a 0) as [-> | Hz]; [apply pow2_pos |].
  apply N.log2_lt_pow2; [lia |].
  destruct (N.lt_ge_cases (N.log2 a) n) as [Hl | Hl]; [assumption |].
  specialize (H _ Hl). rewrite N.bit_log2 in H by assumption. discriminate.
Qed.

Lemma mod_pow2_eq_bits a b n :
  (forall i, i < n -> N.testbit a i = N.testbit b i) -> a mod 2 ^ n = b mod 2 ^ n.
Proof.
  intros H. apply N.bits_inj. intro i. rewrite !testbit_mod_pow2.
  destruct (N.ltb_spec i n); [cbn [andb]; apply H; assumption | reflexivity].
Qed.

(* a << n as the word machines compute it *)
Lemma testbit_shl_mod x n W i :
  N.testbit ((x * 2 ^ n) mod 2 ^ W) i = (i <? W) && ((n <=? i) && N.testbit x (i - n)).
Proof. rewrite testbit_mod_pow2, testbit_mul_pow2. reflexivity. Qed.

Lemma lor_lt_pow2 a b n : a < 2 ^ n -> b < 2 ^ n -> N.lor a b < 2 ^ n.
Proof.
  intros Ha Hb. apply lt_pow2_bits. intros i Hi.
  rewrite N.lor_spec, (testbit_high a n i), (testbit_high b n i) by assumption. reflexivity.
Qed.

Lemma div_pow2_lt a n m : a < 2 ^ (n + m) -> a / 2 ^ m < 2 ^ n.
Proof.
  intros Ha. apply lt_pow2_bits. intros i Hi. rewrite testbit_div_pow2.
  apply testbit_high with (n := n + m); [assumption | lia].
Qed.

(* Rewriting N.testbit to the leaves, then splitting on the index comparisons *)
Ltac tb_rewrite :=
  repeat first
    [ rewrite N.lor_spec | rewrite N.land_spec | rewrite testbit_mod_pow2
    | rewrite testbit_div_pow2 | rewrite testbit_mul_pow2 | rewrite testbit_ones
    | rewrite testbit_pow2 | rewrite testbit_1 | rewrite N.bits_0 ].
Ltac tb_cases :=
  repeat match goal with
  | |- context [N.ltb ?a ?b] => destruct (N.ltb_spec a b)
  | |- context [N.leb ?a ?b] => destruct (N.leb_spec a b)
  | |- context [N.eqb ?a ?b] => destruct (N.eqb_spec a b)
  end.
Ltac tb_simpl :=
  cbn [andb orb negb];
  repeat first [ rewrite Bool.orb_false_r | rewrite Bool.andb_true_r
               | rewrite Bool.andb_false_r | rewrite Bool.orb_true_r ].
Ltac tb := tb_rewrite; tb_cases; tb_simpl;
  try reflexivity; try lia; try (f_equal; lia).

(* ------------------------------------------------------------------ *)
(** * Lists *)

Lemma rev_repeat {A} (a : A) n : rev (repeat a n) = repeat a n.
Proof.
  induction n as [| n IH]; [reflexivity |].
  cbn [repeat rev]. rewrite IH. symmetry. apply repeat_cons.
Qed.

Lemma flat_map_rev {A B} (f : A -> list B) l :
  flat_map (fun a => rev (f a)) (rev l) = rev (flat_map f l).
Proof.
  induction l as [| a l IH]; [reflexivity |].
  cbn [rev flat_map]. rewrite flat_map_app, rev_app_distr, IH. cbn [flat_map].
  rewrite app_nil_r. reflexivity.
Qed.

Lemma flat_map_flat_map {A B C} (f : A -> list B) (g : B -> list C) l :
  flat_map g (flat_map f l) = flat_map (fun a => flat_map g (f a)) l.
Proof.
  induction l as [| a l IH]; [reflexivity |].
  cbn [flat_map]. rewrite flat_map_app, IH. reflexivity.
Qed.

Lemma zeros_app a b : zeros (a + b) = zeros a ++ zeros b.
Proof. apply repeat_app. Qed.

Lemma zeros_app_N a b : zeros (N.to_nat (a + b)) = zeros (N.to_nat a) ++ zeros (N.to_nat b).
Proof. rewrite N2Nat.inj_add. apply zeros_app. Qed.

Lemma length_zeros n : length (zeros n) = n.
Proof. apply repeat_length. Qed.

(* ------------------------------------------------------------------ *)
(** * field_le / field_be *)

Lemma length_field_le_from v i n : length (field_le_from v i n) = n.
Proof. revert i. induction n as [| n IH]; intro i; cbn [field_le_from length]; [| rewrite IH]; reflexivity. Qed.

Lemma length_field_le v n : length (field_le v n) = n.
Proof. apply length_field_le_from. Qed.

Lemma length_field_be v n : length (field_be v n) = n.
Proof. unfold field_be. rewrite rev_length. apply length_field_le. Qed.

Lemma length_field E v n : length (field E v n) = n.
Proof. destruct E; [apply length_field_be | apply length_field_le]. Qed.

Lemma field_le_from_ext a b i j n :
  (forall k, k < N.of_nat n -> N.testbit a (i + k) = N.testbit b (j + k)) ->
  field_le_from a i n = field_le_from b j n.
Proof.
  revert i j. induction n as [| n IH]; intros i j H; [reflexivity |].
  cbn [field_le_from]. f_equal.
  - specialize (H 0). rewrite !N.add_0_r in H. apply H. lia.
  - apply IH. intros k Hk. specialize (H (N.succ k)).
    replace (N.succ i + k) with (i + N.succ k) by lia.
    replace (N.succ j + k) with (j + N.succ k) by lia. apply H. lia.
Qed.

Lemma field_le_from_app v i m n :
  field_le_from v i (m + n) = field_le_from v i m ++ field_le_from v (i + N.of_nat m) n.
Proof.
  revert i. induction m as [| m IH]; intro i.
  - cbn [field_le_from Nat.add app]. f_equal. lia.
  - cbn [field_le_from Nat.add app]. f_equal. rewrite IH. f_equal. f_equal. lia.
Qed.

Lemma nth_field_le_from v i n k d :
  (k < n)%nat -> nth k (field_le_from v i n) d = N.testbit v (i + N.of_nat k).
Proof.
  revert i k. induction n as [| n IH]; intros i k Hk; [lia |].
  cbn [field_le_from]. destruct k as [| k]; cbn [nth].
  - f_equal. lia.
  - rewrite IH by lia. f_equal. lia.
Qed.

Lemma nth_field_le v n k d : (k < n)%nat -> nth k (field_le v n) d = N.testbit v (N.of_nat k).
Proof. intros. unfold field_le. rewrite nth_field_le_from by assumption. reflexivity. Qed.

Lemma nth_field_be v n k d :
  (k < n)%nat -> nth k (field_be v n) d = N.testbit v (N.of_nat (n - 1 - k)).
Proof.
  intros Hk. unfold field_be. rewrite rev_nth by (rewrite length_field_le; assumption).
  rewrite length_field_le. rewrite nth_field_le by lia. f_equal. lia.
Qed.

Lemma field_le_ext a b n :
  (forall k, k < N.of_nat n -> N.testbit a k = N.testbit b k) -> field_le a n = field_le b n.
Proof. intros H. apply field_le_from_ext. intros k Hk. apply H. assumption. Qed.

Lemma field_be_ext a b n :
  (forall k, k < N.of_nat n -> N.testbit a k = N.testbit b k) -> field_be a n = field_be b n.
Proof. intros H. unfold field_be. f_equal. apply field_le_ext. assumption. Qed.

Lemma field_ext E a b n :
  (forall k, k < N.of_nat n -> N.testbit a k = N.testbit b k) -> field E a n = field E b n.
Proof. destruct E; [apply field_be_ext | apply field_le_ext]. Qed.

Lemma field_le_from_shift v i n : field_le_from v i n = field_le (v / 2 ^ i) n.
Proof.
  apply field_le_from_ext. intros k _. rewrite testbit_div_pow2. f_equal. lia.
Qed.

Lemma field_le_app v m n :
  field_le v (m + n) = field_le v m ++ field_le (v / 2 ^ N.of_nat m) n.
Proof.
  unfold field_le at 1 2. rewrite field_le_from_app. f_equal.
  rewrite field_le_from_shift. reflexivity.
Qed.

Lemma field_be_app v m n :
  field_be v (m + n) = field_be (v / 2 ^ N.of_nat n) m ++ field_be v n.
Proof.
  unfold field_be. rewrite Nat.add_comm, field_le_app, rev_app_distr. reflexivity.
Qed.

Lemma field_le_mod v k n : (n <= N.to_nat k)%nat -> field_le (v mod 2 ^ k) n = field_le v n.
Proof. intros H. apply field_le_ext. intros i Hi. tb. Qed.

Lemma field_be_mod v k n : (n <= N.to_nat k)%nat -> field_be (v mod 2 ^ k) n = field_be v n.
Proof. intros H. apply field_be_ext. intros i Hi. tb. Qed.

Lemma field_mod E v k n : (n <= N.to_nat k)%nat -> field E (v mod 2 ^ k) n = field E v n.
Proof. destruct E; [apply field_be_mod | apply field_le_mod]. Qed.

(* the two "concatenation by bits" principles used for all buffer updates *)
Lemma field_le_split x a b (k m n : N) :
  k = m + n ->
  (forall i, i < m -> N.testbit x i = N.testbit a i) ->
  (forall i, i < n -> N.testbit x (i + m) = N.testbit b i) ->
  field_le x (N.to_nat k) = field_le a (N.to_nat m) ++ field_le b (N.to_nat n).
Proof.
  intros -> Ha Hb. rewrite N2Nat.inj_add, field_le_app. f_equal.
  - apply field_le_ext. intros i Hi. apply Ha. lia.
  - apply field_le_ext. intros i Hi. rewrite testbit_div_pow2, N2Nat.id. apply Hb. lia.
Qed.

Lemma field_be_split x a b (k m n : N) :
  k = m + n ->
  (forall i, i < n -> N.testbit x i = N.testbit b i) ->
  (forall i, i < m -> N.testbit x (i + n) = N.testbit a i) ->
  field_be x (N.to_nat k) = field_be a (N.to_nat m) ++ field_be b (N.to_nat n).
Proof.
  intros -> Hb Ha. rewrite N2Nat.inj_add, field_be_app. f_equal.
  - apply field_be_ext. intros i Hi. rewrite testbit_div_pow2, N2Nat.id. apply Ha. lia.
  - apply field_be_ext. intros i Hi. apply Hb. lia.
Qed.

Lemma rev_zeros n : rev (zeros n) = zeros n.
Proof. apply rev_repeat. Qed.

Lemma field_le_zeros x n :
  (forall i, i < N.of_nat n -> N.testbit x i = false) -> field_le x n = zeros n.
Proof.
  intros H. transitivity (field_le 0 n).
  - apply field_le_ext. intros k Hk. rewrite N.bits_0. apply H. assumption.
  - clear. unfold field_le. generalize 0 at 2.
    induction n as [| n IH]; intro i; [reflexivity |].
    cbn [field_le_from zeros repeat]. rewrite N.bits_0. f_equal. apply IH.
Qed.

Lemma field_be_zeros x n :
  (forall i, i < N.of_nat n -> N.testbit x i = false) -> field_be x n = zeros n.
Proof. intros H. unfold field_be. rewrite field_le_zeros by assumption. apply rev_zeros. Qed.

Lemma field_zeros E x n :
  (forall i, i < N.of_nat n -> N.testbit x i = false) -> field E x n = zeros n.
Proof. destruct E; [apply field_be_zeros | apply field_le_zeros]. Qed.

Lemma field_0 E n : field E 0 n = zeros n.
Proof. apply field_zeros. intros. apply N.bits_0. Qed.

(* unary codes as fields *)
Lemma unary_be x : unary x = field_be 1 (N.to_nat (x + 1)).
Proof.
  rewrite (field_be_split 1 0 1 (x + 1) x 1 eq_refl).
  - unfold unary. f_equal. symmetry. apply (field_0 BE).
  - intros. reflexivity.
  - intros i Hi. tb.
Qed.

Lemma unary_le x : unary x = field_le (2 ^ x) (N.to_nat (x + 1)).
Proof.
  rewrite (field_le_split (2 ^ x) 0 1 (x + 1) x 1 eq_refl).
  - unfold unary. f_equal. symmetry. apply (field_0 LE).
  - intros i Hi. tb.
  - intros i Hi. tb.
Qed.

(* ------------------------------------------------------------------ *)
(** * val_le / val_be *)

Lemma val_le_field_le_from v i n : val_le (field_le_from v i n) = (v / 2 ^ i) mod 2 ^ N.of_nat n.
Proof.
  revert i. induction n as [| n IH]; intro i.
  - cbn [field_le_from val_le]. change (N.of_nat 0) with 0. rewrite N.pow_0_r, N.mod_1_r. reflexivity.
  - cbn [field_le_from val_le]. rewrite IH.
    replace (N.of_nat (S n)) with (N.succ (N.of_nat n)) by lia.
    rewrite N.testbit_spec', !N.pow_succ_r' by lia.
    rewrite (N.mul_comm 2 (2 ^ i)), <- N.div_div by (try apply N.pow_nonzero; discriminate).
    pose proof (pow2_pos (N.of_nat n)) as Hp. revert Hp. generalize (2 ^ N.of_nat n).
    generalize (v / 2 ^ i). intros a p Hp.
    rewrite N.mod_mul_r by lia. reflexivity.
Qed.

Lemma val_le_field_le v n : val_le (field_le v n) = v mod 2 ^ N.of_nat n.
Proof. unfold field_le. rewrite val_le_field_le_from, N.pow_0_r, N.div_1_r. reflexivity. Qed.

Lemma val_be_acc_app acc l b : val_be_acc acc (l ++ [b]) = 2 * val_be_acc acc l + N.b2n b.
Proof. revert acc. induction l as [| c l IH]; intro acc; cbn [app val_be_acc]; [reflexivity | apply IH]. Qed.

Lemma val_be_rev l : val_be (rev l) = val_le l.
Proof.
  induction l as [| b l IH]; [reflexivity |].
  cbn [rev val_le]. unfold val_be in *. rewrite val_be_acc_app, IH. lia.
Qed.

Lemma val_be_field_be v n : val_be (field_be v n) = v mod 2 ^ N.of_nat n.
Proof. unfold field_be. rewrite val_be_rev. apply val_le_field_le. Qed.

Lemma val_field E v n : val E (field E v n) = v mod 2 ^ N.of_nat n.
Proof. destruct E; [apply val_be_field_be | apply val_le_field_le]. Qed.

Lemma val_zeros E n : val E (zeros n) = 0.
Proof. rewrite <- (field_0 E n), val_field. apply N.mod_0_l. apply N.pow_nonzero. discriminate. Qed.

(* ------------------------------------------------------------------ *)
(** * take_pad, bytes_of_bits, image, bits_of_bytes *)

Lemma take_pad_app_zeros n b k : take_pad n (b ++ zeros k) = take_pad n b.
Proof.
  revert b k. induction n as [| n IH]; intros b k; [reflexivity |].
  destruct b as [| x b]; cbn [app take_pad].
  - destruct k as [| k]; cbn [zeros repeat].
    + reflexivity.
    + f_equal. apply (IH [] k).
  - f_equal. apply IH.
Qed.

Lemma take_pad_nil n : take_pad n [] = zeros n.
Proof. induction n as [| n IH]; [reflexivity |]. cbn [take_pad zeros repeat]. f_equal. apply IH. Qed.

Lemma take_pad_app_exact n l r : length l = n -> take_pad n (l ++ r) = l.
Proof.
  revert l. induction n as [| n IH]; intros l Hl.
  - destruct l; [reflexivity | discriminate].
  - destruct l as [| x l]; [discriminate |]. cbn [app take_pad]. f_equal. apply IH.
    cbn [length] in Hl. lia.
Qed.

Lemma skipn_app_exact {A} n (l r : list A) : length l = n -> skipn n (l ++ r) = r.
Proof.
  intros Hl. rewrite skipn_app, skipn_all2 by lia.
  replace (n - length l)%nat with 0%nat by lia. reflexivity.
Qed.

Lemma skipn_zeros n k : skipn n (zeros k) = zeros (k - n).
Proof.
  revert k. induction n as [| n IH]; intro k.
  - rewrite Nat.sub_0_r. reflexivity.
  - destruct k as [| k]; [reflexivity |]. cbn [zeros repeat skipn]. apply IH.
Qed.

(* induction in chunks of 8 bits *)
Lemma chunk8_ind (P : list bool -> Prop) :
  P [] -> (forall l, l <> [] -> P (skipn 8 l) -> P l) -> forall l, P l.
Proof.
  intros H0 Hs l. remember (length l) as n eqn:Hn. revert l Hn.
  induction n as [n IH] using lt_wf_ind. intros l Hn.
  destruct l as [| x l]; [exact H0 |].
  apply Hs; [discriminate |]. apply (IH (length (skipn 8 (x :: l)))); [| reflexivity].
  rewrite skipn_length. cbn [length] in *. lia.
Qed.

Lemma bytes_of_bits_fuel E f1 f2 bs :
  (length bs <= f1)%nat -> (length bs <= f2)%nat -> bytes_of_bits E f1 bs = bytes_of_bits E f2 bs.
Proof.
  revert f2 bs. induction f1 as [| f1 IH]; intros f2 bs H1 H2.
  - destruct bs; [| cbn [length] in H1; lia]. destruct f2; reflexivity.
  - destruct bs as [| b bs]; [destruct f2; reflexivity |].
    destruct f2 as [| f2]; [cbn [length] in H2; lia |].
    cbn [bytes_of_bits]. f_equal. apply IH; rewrite skipn_length; cbn [length] in *; lia.
Qed.

Lemma image_nil E : image E [] = [].
Proof. reflexivity. Qed.

Lemma image_step E bs :
  bs <> [] -> image E bs = val E (take_pad 8 bs) :: image E (skipn 8 bs).
Proof.
  intros Hne. unfold image. destruct bs as [| b bs]; [contradiction |].
  set (r := skipn 8 (b :: bs)).
  change (val E (take_pad 8 (b :: bs)) :: bytes_of_bits E (length (b :: bs)) r =
          val E (take_pad 8 (b :: bs)) :: bytes_of_bits E (S (length r)) r).
  f_equal. apply bytes_of_bits_fuel; subst r; rewrite ?skipn_length; cbn [length]; lia.
Qed.

Lemma image_zeros E k : exists j, image E (zeros k) = repeat 0 j.
Proof.
  remember (zeros k) as l eqn:Hl. revert k Hl.
  induction l as [| l Hne IH] using chunk8_ind; intros k Hl.
  - exists 0%nat. reflexivity.
  - subst l. rewrite image_step by assumption.
    destruct (IH (k - 8)%nat) as [j Hj]; [apply skipn_zeros |].
    exists (S j). rewrite Hj. cbn [repeat]. f_equal.
    rewrite <- (app_nil_l (zeros k)), take_pad_app_zeros, take_pad_nil. apply val_zeros.
Qed.

(* zero padding only appends zero bytes to the image *)
Lemma image_app_zeros E b k : exists j, image E (b ++ zeros k) = image E b ++ repeat 0 j.
Proof.
  revert k. induction b as [| b Hne IH] using chunk8_ind; intro k.
  - cbn [app]. rewrite image_nil. apply image_zeros.
  - rewrite (image_step E b) by assumption.
    rewrite image_step by (destruct b; [contradiction | discriminate]).
    rewrite take_pad_app_zeros, skipn_app, skipn_zeros.
    destruct (IH (k - (8 - length b))%nat) as [j Hj]. exists j. rewrite Hj. reflexivity.
Qed.

Lemma length_image E bs : length (image E bs) = N.to_nat ((N.of_nat (length bs) + 7) / 8).
Proof.
  induction bs as [| l Hne IH] using chunk8_ind; [reflexivity |].
  rewrite image_step by assumption. cbn [length]. rewrite IH, skipn_length.
  destruct l as [| x l]; [contradiction |]. cbn [length]. lia.
Qed.

Lemma length_bits_of_bytes E bytes : length (bits_of_bytes E bytes) = (8 * length bytes)%nat.
Proof.
  induction bytes as [| b r IH]; [reflexivity |].
  unfold bits_of_bytes in *. cbn [flat_map]. rewrite app_length, IH.
  unfold bits_of_byte. rewrite length_field. cbn [length]. lia.
Qed.

Lemma bits_of_bytes_app E l1 l2 : bits_of_bytes E (l1 ++ l2) = bits_of_bytes E l1 ++ bits_of_bytes E l2.
Proof. apply flat_map_app. Qed.

(* image is a left inverse of bits_of_bytes on genuine bytes *)
Lemma image_bits_of_bytes E bytes :
  Forall (fun b => b < 256) bytes -> image E (bits_of_bytes E bytes) = bytes.
Proof.
  induction 1 as [| b r Hb Hr IH]; [reflexivity |].
  unfold bits_of_bytes in *. cbn [flat_map].
  assert (L : length (bits_of_byte E b) = 8%nat) by apply length_field.
  rewrite image_step.
  - rewrite take_pad_app_exact, skipn_app_exact, IH by assumption. f_equal.
    unfold bits_of_byte. rewrite val_field. change (2 ^ N.of_nat 8) with 256. apply N.mod_small. assumption.
  - intro H0. apply (f_equal (@length bool)) in H0. rewrite app_length, L in H0. cbn [length] in H0. lia.
Qed.

(* the position of stream bit i in the canonical byte layout *)
Lemma nth_bits_of_bytes_be bytes i :
  (i < 8 * length bytes)%nat ->
  nth i (bits_of_bytes BE bytes) false = N.testbit (nth (i / 8) bytes 0) (N.of_nat (7 - i mod 8)).
Proof.
  revert i. induction bytes as [| b r IH]; intros i Hi; [cbn [length] in Hi; lia |].
  unfold bits_of_bytes in *. cbn [flat_map].
  assert (L : length (bits_of_byte BE b) = 8%nat) by apply (length_field BE).
  destruct (Nat.lt_ge_cases i 8) as [Hlt | Hge].
  - rewrite app_nth1 by lia. unfold bits_of_byte, field. rewrite nth_field_be by assumption.
    rewrite Nat.div_small, Nat.mod_small by assumption. cbn [nth]. f_equal; lia.
  - rewrite app_nth2, L by lia. rewrite IH by (cbn [length] in Hi; lia).
    replace i with ((i - 8) + 1 * 8)%nat at 3 4 by lia.
    rewrite Nat.div_add, Nat.mod_add by discriminate.
    replace ((i - 8) / 8 + 1)%nat with (S ((i - 8) / 8)) by lia. reflexivity.
Qed.

Lemma nth_bits_of_bytes_le bytes i :
  (i < 8 * length bytes)%nat ->
  nth i (bits_of_bytes LE bytes) false = N.testbit (nth (i / 8) bytes 0) (N.of_nat (i mod 8)).
Proof.
  revert i. induction bytes as [| b r IH]; intros i Hi; [cbn [length] in Hi; lia |].
  unfold bits_of_bytes in *. cbn [flat_map].
  assert (L : length (bits_of_byte LE b) = 8%nat) by apply (length_field LE).
  destruct (Nat.lt_ge_cases i 8) as [Hlt | Hge].
  - rewrite app_nth1 by lia. unfold bits_of_byte, field. rewrite nth_field_le by assumption.
    rewrite Nat.div_small, Nat.mod_small by assumption. reflexivity.
  - rewrite app_nth2, L by lia. rewrite IH by (cbn [length] in Hi; lia).
    replace i with ((i - 8) + 1 * 8)%nat at 3 4 by lia.
    rewrite Nat.div_add, Nat.mod_add by discriminate.
    replace ((i - 8) / 8 + 1)%nat with (S ((i - 8) / 8)) by lia. reflexivity.
Qed.
