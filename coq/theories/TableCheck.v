(* TableCheck.v — executable soundness checkers for a generated table module and the lemmas
   turning `checker = true` (established by vm_compute over every entry, on every run, for the
   tables the translator produced from the current source) into the hypotheses of
   CodesProofs2.table_rd / table_wr. *)
From DSI Require Import Base Prog Codes CodeDefs BitFacts CodesProofs CodesProofs2.
From Coq Require Import ZifyBool ZifyNat ZifyN.
Arguments N.add : simpl never. Arguments N.sub : simpl never. Arguments N.mul : simpl never.
Arguments N.pow : simpl never. Arguments N.eqb : simpl never. Arguments N.ltb : simpl never.
Arguments N.leb : simpl never. Arguments N.of_nat : simpl never. Arguments N.to_nat : simpl never.

Fixpoint bits_eqb (a b : bits) : bool :=
  match a, b with
  | [], [] => true
  | x :: a', y :: b' => Bool.eqb x y && bits_eqb a' b'
  | _, _ => false
  end.
Lemma bits_eqb_eq a b : bits_eqb a b = true -> a = b.
Proof.
  revert b; induction a as [|x a IH]; intros [|y b] H; cbn in H; try discriminate; [reflexivity|].
  apply andb_prop in H as [H1 H2]. apply Bool.eqb_prop in H1. subst. f_equal. apply IH. exact H2.
Qed.

Fixpoint indexed_from {A} (i : N) (l : list A) : list (N * A) :=
  match l with [] => [] | x :: r => (i, x) :: indexed_from (N.succ i) r end.
Definition indexed {A} (l : list A) := indexed_from 0 l.

Lemma indexed_from_In {A} (l : list A) i k x :
  nth_error l k = Some x -> In (i + N.of_nat k, x) (indexed_from i l).
Proof.
  revert i k; induction l as [|y r IH]; intros i k H; [destruct k; discriminate|].
  destruct k as [|k]; cbn [nth_error] in H; cbn [indexed_from].
  - injection H as ->. left. f_equal. lia.
  - right. replace (i + N.of_nat (S k)) with (N.succ i + N.of_nat k) by lia. apply IH. exact H.
Qed.
Lemma nthN_In {A} (l : list A) i x : nthN l i = Some x -> In (i, x) (indexed l).
Proof.
  unfold nthN. destruct (i <? N.of_nat (length l)); [|discriminate]. intros H.
  replace i with (0 + N.of_nat (N.to_nat i)) at 1 by lia. apply indexed_from_In. exact H.
Qed.

Section Check.
  Variable E : endian.
  Variable t : tbl.
  Variable def : N -> bits.
  Variable domb : N -> bool.
  Let RB := t_read_bits t.

  Definition check_read_entry (p : N * N) : bool :=
    let '(idx, len) := p in
    (len =? t_missing E t) ||
    match nthN (t_read E t) idx with
    | Some v => domb v && (len <=? RB) &&
                bits_eqb (firstn (N.to_nat len) (field E idx (N.to_nat RB))) (def v)
    | None => false
    end.
  Definition check_read : bool :=
    (1 <=? RB) && (N.of_nat (length (t_read_len E t)) =? 2 ^ RB) &&
    forallb check_read_entry (indexed (t_read_len E t)).

  Definition check_write_entry (p : N * N) : bool :=
    let '(v, bits) := p in
    match nthN (t_write_len E t) v with
    | Some len => (len <=? 64) && (bits <? 2 ^ len) && bits_eqb (fld E bits len) (def v)
    | None => false
    end.
  Definition check_write : bool := forallb check_write_entry (indexed (t_write E t)).

  Definition check_len : bool :=
    forallb (fun '(v, l) => l =? N.of_nat (length (def v))) (indexed (t_len t)).

  Lemma check_read_sound : check_read = true ->
    1 <= RB /\ N.of_nat (length (t_read_len E t)) = 2 ^ RB /\
    forall idx len, nthN (t_read_len E t) idx = Some len -> len <> t_missing E t ->
      exists v, nthN (t_read E t) idx = Some v /\ domb v = true /\ len <= RB /\
                firstn (N.to_nat len) (field E idx (N.to_nat RB)) = def v.
  Proof.
    unfold check_read. intros H. apply andb_prop in H as [H H3]. apply andb_prop in H as [H1 H2].
    split; [lia|]. split; [lia|]. intros idx len Hn Hm.
    rewrite forallb_forall in H3. specialize (H3 (idx, len) (nthN_In _ _ _ Hn)).
    unfold check_read_entry in H3. apply orb_prop in H3 as [H3|H3]; [lia|].
    destruct (nthN (t_read E t) idx) as [v|]; [|discriminate].
    apply andb_prop in H3 as [H3 H6]. apply andb_prop in H3 as [H4 H5].
    exists v. repeat split; [exact H4 | lia | apply bits_eqb_eq; exact H6].
  Qed.

  Lemma check_write_sound : check_write = true ->
    forall v bits, nthN (t_write E t) v = Some bits ->
      exists len, nthN (t_write_len E t) v = Some len /\ len <= 64 /\ bits < 2 ^ len /\ fld E bits len = def v.
  Proof.
    unfold check_write. intros H v bits Hn. rewrite forallb_forall in H.
    specialize (H (v, bits) (nthN_In _ _ _ Hn)). unfold check_write_entry in H.
    destruct (nthN (t_write_len E t) v) as [len|]; [|discriminate].
    apply andb_prop in H as [H H3]. apply andb_prop in H as [H1 H2].
    exists len. repeat split; [lia | lia | apply bits_eqb_eq; exact H3].
  Qed.

  Lemma check_len_sound : check_len = true ->
    forall v l, nthN (t_len t) v = Some l -> l = LEN (def v).
  Proof.
    unfold check_len. intros H v l Hn. rewrite forallb_forall in H.
    specialize (H (v, l) (nthN_In _ _ _ Hn)). cbn in H. unfold LEN. lia.
  Qed.
End Check.
