(* Writer.v — L2 model of impls/buf_bit_writer.rs: BufBitWriter<E, WW> over a word
   backend, word width W explicit.  Each Rust statement has its counterpart, including
   the dirty bits the Rust leaves in `buffer`. *)
From DSI Require Export Words Prog.

(* the word sink: delivered logical words (stream order), optional capacity in words
   (fixed slice / bounded sink); write beyond capacity is Err *)
Record wsink := { wk_words : list N; wk_cap : option N }.
Definition sink_write (k : wsink) (ws : list N) : outcome wsink :=
  match wk_cap k with
  | Some c => if N.of_nat (length (wk_words k) + length ws) <=? c
              then Ok {| wk_words := wk_words k ++ ws; wk_cap := wk_cap k |} else Err
  | None => Ok {| wk_words := wk_words k ++ ws; wk_cap := wk_cap k |}
  end.

Record bwriter := { bw_sink : wsink; bw_buffer : N; bw_space : N }.
Definition bw_new (cap : option N) (W : N) : bwriter :=
  {| bw_sink := {| wk_words := []; wk_cap := cap |}; bw_buffer := 0; bw_space := W |}.

Section BufBitWriter.
  Variable E : endian.
  Variable W : N.
  Variable checks : bool.

  Definition oo {A B} (o : option A) (f : A -> outcome B) : outcome B :=
    match o with Some a => f a | None => Fail end.

  (* words of `value` written by the middle loop of write_bits, BE: value >> to_write after
     each decrement *)
  Fixpoint be_mid_words (cnt : nat) (value to_write : N) : list N * N :=
    match cnt with
    | O => ([], to_write)
    | S c => let tw := to_write - W in
             let '(ws, r) := be_mid_words c value tw in
             (wcast W (value / 2 ^ tw) :: ws, r)
    end.
  Fixpoint le_mid_words (cnt : nat) (value : N) : option (list N * N) :=
    match cnt with
    | O => Some ([], value)
    | S c => match shr64 value W with
             | Some v' => match le_mid_words c v' with
                          | Some (ws, r) => Some (wcast W value :: ws, r) | None => None end
             | None => None end
    end.

  Definition bw_write_bits (value n : N) (s : bwriter) : outcome (N * bwriter) :=
    if 64 <? n then Fail
    else if checks && negb (N.land value (mask_u128 n) =? value) then Fail
    else if bw_space s =? 0 then Fail
    else
    let sp := bw_space s in
    match E with
    | BE =>
        if n <? sp then
          oo (wshl W (bw_buffer s) n) (fun b =>
          oo (wshl W (wmax W) n) (fun m =>
          let b' := N.lor b (N.land (wcast W value) (wnot W m)) in
          Ok (n, {| bw_sink := bw_sink s; bw_buffer := b'; bw_space := sp - n |})))
        else
          oo (wshl W (bw_buffer s) (sp - 1)) (fun b0 =>
          oo (wshl W b0 1) (fun b1 =>
          oo (shl64 value (64 - n)) (fun v1 =>
          oo (if 64 <? sp then None else shr64 v1 (64 - sp)) (fun v2 =>
          let b2 := N.lor b1 (wcast W v2) in
          let to_write := n - sp in
          let '(mid, tw) := be_mid_words (N.to_nat (to_write / W)) value to_write in
          obind (sink_write (bw_sink s) (b2 :: mid)) (fun k =>
          Ok (n, {| bw_sink := k; bw_buffer := wcast W value; bw_space := W - tw |}))))))
    | LE =>
        if n <? sp then
          oo (wshr W (bw_buffer s) n) (fun b =>
          oo (wshl W (wmax W) n) (fun m =>
          let b' := N.lor b (wrotr W (N.land (wcast W value) (wnot W m)) n) in
          Ok (n, {| bw_sink := bw_sink s; bw_buffer := b'; bw_space := sp - n |})))
        else
          oo (wshr W (bw_buffer s) (sp - 1)) (fun b0 =>
          oo (wshr W b0 1) (fun b1 =>
          oo (wshl W (wcast W value) (W - sp)) (fun v1 =>
          let b2 := N.lor b1 v1 in
          let to_write := n - sp in
          oo (shr64 value (sp - 1)) (fun v2 =>
          oo (shr64 v2 1) (fun v3 =>
          oo (le_mid_words (N.to_nat (to_write / W)) v3) (fun '(mid, v4) =>
          obind (sink_write (bw_sink s) (b2 :: mid)) (fun k =>
          Ok (n, {| bw_sink := k; bw_buffer := wrotr W (wcast W v4) to_write;
                    bw_space := W - to_write mod W |}))))))))
    end.

  Definition top_one : N := 2 ^ (W - 1).   (* WW::Word::ONE << (BITS - 1) *)

  Definition bw_write_unary (value : N) (s : bwriter) : outcome (N * bwriter) :=
    if value =? U64MAX then Fail
    else if bw_space s =? 0 then Fail
    else
    let sp := bw_space s in
    let code_length := value + 1 in
    if code_length <=? sp then
      let sp' := sp - code_length in
      oo (match E with
          | BE => match wshl W (bw_buffer s) value with
                  | Some b => match wshl W b 1 with Some b' => Some (N.lor b' 1) | None => None end
                  | None => None end
          | LE => match wshr W (bw_buffer s) value with
                  | Some b => match wshr W b 1 with Some b' => Some (N.lor b' top_one) | None => None end
                  | None => None end
          end) (fun b =>
      if sp' =? 0 then
        obind (sink_write (bw_sink s) [b]) (fun k =>
        Ok (code_length, {| bw_sink := k; bw_buffer := b; bw_space := W |}))
      else Ok (code_length, {| bw_sink := bw_sink s; bw_buffer := b; bw_space := sp' |}))
    else
      oo (match E with
          | BE => match wshl W (bw_buffer s) (sp - 1) with Some b => wshl W b 1 | None => None end
          | LE => match wshr W (bw_buffer s) (sp - 1) with Some b => wshr W b 1 | None => None end
          end) (fun b =>
      let v1 := value - sp in
      let nzero := v1 / W in
      let v2 := v1 mod W in
      let one := match E with BE => 1 | LE => top_one end in
      if v2 =? W - 1 then
        obind (sink_write (bw_sink s) (b :: repeat 0 (N.to_nat nzero) ++ [one])) (fun k =>
        Ok (code_length, {| bw_sink := k; bw_buffer := b; bw_space := W |}))
      else
        obind (sink_write (bw_sink s) (b :: repeat 0 (N.to_nat nzero))) (fun k =>
        Ok (code_length, {| bw_sink := k; bw_buffer := one; bw_space := W - (v2 + 1) |}))).

  Definition bw_flush (s : bwriter) : outcome (N * bwriter) :=
    let to_flush := W - bw_space s in
    if to_flush =? 0 then Ok (0, s)
    else
      oo (match E with
          | BE => wshl W (bw_buffer s) (bw_space s)
          | LE => wshr W (bw_buffer s) (bw_space s) end) (fun b =>
      obind (sink_write (bw_sink s) [b]) (fun k =>
      Ok (to_flush, {| bw_sink := k; bw_buffer := b; bw_space := W |}))).

  Definition bwprims : wprims bwriter := {| q_bits := bw_write_bits; q_unary := bw_write_unary |}.

  (* bytes delivered to the backend so far *)
  Definition bw_bytes (s : bwriter) : list N :=
    flat_map (word_bytes E W) (wk_words (bw_sink s)).
End BufBitWriter.
