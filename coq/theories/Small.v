(* Small.v — the small state machines: in-memory word streams (mem_word_reader.rs,
   mem_word_writer.rs), the byte-stream word adapter under fault schedules
   (word_adapter.rs), zig-zag maps (codes/mod.rs), the change-point iterator
   (utils/find_change.rs), byte-level VByte (codes/vbyte.rs io functions). *)
From DSI Require Export Words Codes.

(* ------------------------------------------------------------------ *)
(* In-memory word streams.  kind: 0 = MemWordReader (zero-extended), 1 = MemWordReader
   strict, 2 = MemWordWriterSlice, 3 = MemWordWriterVec *)
Record memw := { mw_data : list N; mw_pos : N }.
Inductive mwop := MRead | MWrite (w : N) | MPos | MSetPos (p : N) | MLen.

Fixpoint list_set (l : list N) (i : nat) (w : N) : list N :=
  match l, i with
  | [], _ => []
  | _ :: r, O => w :: r
  | x :: r, S j => x :: list_set r j w
  end.

Definition USIZE_MAX : N := U64MAX.

Definition mw_step (kind : N) (s : memw) (op : mwop) : outcome (N * memw) :=
  let len := N.of_nat (length (mw_data s)) in
  match op with
  | MRead =>
      match nth_error (mw_data s) (N.to_nat (mw_pos s)) with
      | Some w => if mw_pos s =? USIZE_MAX then Fail
                  else Ok (w, {| mw_data := mw_data s; mw_pos := mw_pos s + 1 |})
      | None => if kind =? 0
                then (if mw_pos s =? USIZE_MAX then Fail
                      else Ok (0, {| mw_data := mw_data s; mw_pos := mw_pos s + 1 |}))
                else Err
      end
  | MWrite w =>
      if kind =? 2 then
        if mw_pos s <? len
        then Ok (0, {| mw_data := list_set (mw_data s) (N.to_nat (mw_pos s)) w; mw_pos := mw_pos s + 1 |})
        else Err
      else if kind =? 3 then
        let d := if len <=? mw_pos s
                 then mw_data s ++ repeat 0 (N.to_nat (mw_pos s + 1 - len)) else mw_data s in
        Ok (0, {| mw_data := list_set d (N.to_nat (mw_pos s)) w; mw_pos := mw_pos s + 1 |})
      else Fail
  | MPos => Ok (mw_pos s, s)
  | MSetPos p =>
      if kind =? 0 then Ok (0, {| mw_data := mw_data s; mw_pos := N.min p USIZE_MAX |})
      else if len <? p then Err
      else Ok (0, {| mw_data := mw_data s; mw_pos := p |})
  | MLen => if (kind =? 2) || (kind =? 3) then Ok (len, s) else Fail
  end.

(* the abstract specification: an array plus a cursor *)
Definition spec_read (strict : bool) (a : list N) (c : N) : option (N * N) :=
  match nth_error a (N.to_nat c) with
  | Some w => Some (w, c + 1)
  | None => if strict then None else Some (0, c + 1)
  end.

(* ------------------------------------------------------------------ *)
(* Word adapter over std::io::{Read, Write} under fault schedules.
   One event per call of the underlying object's read()/write(). *)
Inductive io_event := Accept (k : N) | Interrupted | HardErr.

(* Write::write_all (documented loop): retries on Interrupted, Ok(0) is WriteZero error *)
Fixpoint write_all (sched : list io_event) (buf : list N) (sink : list N)
  : outcome (list N) * list io_event * list N :=   (* result sink, remaining schedule, unused *)
  match buf with
  | [] => (Ok sink, sched, [])
  | _ =>
      match sched with
      | [] => (Ok (sink ++ buf), [], [])           (* schedule exhausted: accept everything *)
      | Accept k :: r =>
          if k =? 0 then (Err, r, sink)
          else let k' := N.min k (N.of_nat (length buf)) in
               write_all r (skipn (N.to_nat k') buf) (sink ++ firstn (N.to_nat k') buf)
      | Interrupted :: r => write_all r buf sink
      | HardErr :: r => (Err, r, sink)
      end
  end.

(* WordAdapter::write_word after the fix of D5: write_all(word.to_ne_bytes()) *)
Definition adapter_write_word (W : N) (sched : list io_event) (w : N) (sink : list N) :=
  write_all sched (word_bytes LE W w) sink.

(* Read::read_exact (documented loop): retries on Interrupted, Ok(0) is UnexpectedEof *)
Fixpoint read_exact (sched : list io_event) (need : nat) (src : list N) (got : list N)
  : outcome (list N) * list io_event * list N :=   (* bytes, remaining schedule, remaining source *)
  match need with
  | O => (Ok got, sched, src)
  | S _ =>
      match sched with
      | [] => if N.of_nat need <=? N.of_nat (length src)
              then (Ok (got ++ firstn need src), [], skipn need src) else (Err, [], [])
      | Accept k :: r =>
          let k' := N.to_nat (N.min (N.min k (N.of_nat need)) (N.of_nat (length src))) in
          match k' with
          | O => (Err, r, src)
          | S _ => read_exact r (need - k') (skipn k' src) (got ++ firstn k' src)
          end
      | Interrupted :: r => read_exact r need src got
      | HardErr :: r => (Err, r, src)
      end
  end.
Definition adapter_read_word (W : N) (sched : list io_event) (src : list N) :=
  let '(o, r, s) := read_exact sched (N.to_nat (W / 8)) src [] in
  (omap of_le_bytes o, r, s).

(* word_pos = stream_position().div_ceil(BYTES) ; set_word_pos seeks to word_index * BYTES *)
Definition adapter_word_pos (W : N) (byte_pos : N) : N :=
  let b := W / 8 in (byte_pos + b - 1) / b.
Definition adapter_seek (W : N) (word_index : N) : option N := mul64 word_index (W / 8).

(* ------------------------------------------------------------------ *)
(* ToInt / ToNat (codes/mod.rs) on a w-bit type, over Z:
     to_int(x) = (x >> 1).to_signed() ^ (-(x & 1).to_signed())
     to_nat(y) = (y << 1).to_unsigned() ^ (y >> (w-1)).to_unsigned()      *)
Definition to_int (w : Z) (x : Z) : Z :=
  Z.lxor (Z.shiftr x 1) (- (Z.land x 1))%Z.
Definition to_unsigned (w : Z) (y : Z) : Z := (y mod 2 ^ w)%Z.
Definition to_nat (w : Z) (y : Z) : Z :=
  Z.lxor (to_unsigned w (Z.shiftl y 1)) (to_unsigned w (Z.shiftr y (w - 1))).

(* ------------------------------------------------------------------ *)
(* FindChangePoints::next (after the fix of D10).  f is the monotone function; the
   loops are fuelled (64 doublings / 64 halvings suffice). *)
Record fcp := { fc_current : N; fc_prev : N }.   (* prev_value = usize::MAX initially *)
Definition fcp_new : fcp := {| fc_current := 0; fc_prev := U64MAX |}.

Section FindChange.
  Variable f : N -> N.

  Fixpoint exp_search (fuel : nat) (current prev step : N) : outcome (option N) :=
    match fuel with
    | O => Fuel
    | S fu =>
        if U64MAX - current <=? step then Ok None
        else if negb (f (current + step) =? prev) then Ok (Some step)
        else match mul64 step 2 with
             | Some s' => exp_search fu current prev s'
             | None => Ok None                      (* checked_mul(2)? *)
             end
    end.

  Fixpoint bin_search (fuel : nat) (prev left right : N) : outcome N :=
    match fuel with
    | O => Fuel
    | S fu =>
        if left <? right then
          let mid := left + (right - left) / 2 in
          if f mid =? prev then bin_search fu prev (mid + 1) right
          else bin_search fu prev left mid
        else Ok left
    end.

  Definition fcp_next (s : fcp) : outcome (option (N * N) * fcp) :=
    if (fc_current s =? 0) && (fc_prev s =? U64MAX) then
      let v := f 0 in Ok (Some (0, v), {| fc_current := 0; fc_prev := v |})
    else
      obind (exp_search 70 (fc_current s) (fc_prev s) 1) (fun o =>
      match o with
      | None => Ok (None, s)
      | Some step =>
          obind (bin_search 70 (fc_prev s) (fc_current s + step / 2) (fc_current s + step)) (fun left =>
          let nv := f left in
          Ok (Some (left, nv), {| fc_current := left; fc_prev := nv |}))
      end).

  Fixpoint fcp_collect (fuel : nat) (s : fcp) (acc : list (N * N)) : outcome (list (N * N)) :=
    match fuel with
    | O => Ok (rev acc)        (* caller asked for at most `fuel` items *)
    | S fu => obind (fcp_next s) (fun '(o, s') =>
              match o with
              | None => Ok (rev acc)
              | Some it => fcp_collect fu s' (it :: acc)
              end)
    end.
End FindChange.

(* ------------------------------------------------------------------ *)
(* Byte-level VByte (vbyte_write_be/le, vbyte_read_be/le over std::io): byte lists.
   Writers are `vbyte_be_encode` / `vbyte_le_encode` of Codes.v; readers: *)
Fixpoint vbyte_read_be_loop (fuel : nat) (value : N) (src : list N) : outcome (N * list N) :=
  match fuel with
  | O => Fuel
  | S f =>
      match src with
      | [] => Err
      | b :: r =>
          match add64 value 1 with
          | Some v1 => let v := N.lor ((v1 * 128) mod W64) (N.land b 127) in
                       if b / 128 =? 0 then Ok (v, r) else vbyte_read_be_loop f v r
          | None => Fail
          end
      end
  end.
Definition vbyte_read_be (src : list N) : outcome (N * list N) :=
  match src with
  | [] => Err
  | b :: r => let v := N.land b 127 in
              if b / 128 =? 0 then Ok (v, r) else vbyte_read_be_loop 24 v r
  end.

Fixpoint vbyte_read_le_loop (fuel : nat) (result shift : N) (src : list N) : outcome (N * list N) :=
  match fuel with
  | O => Fuel
  | S f =>
      match src with
      | [] => Err
      | b :: r =>
          match shl64 (N.land b 127) shift with
          | Some t =>
              match add64 result t with
              | Some r1 =>
                  if b / 128 =? 0 then Ok (r1, r)
                  else match shl64 1 (shift + 7) with
                       | Some o => match add64 r1 o with
                                   | Some r2 => vbyte_read_le_loop f r2 (shift + 7) r
                                   | None => Fail end
                       | None => Fail end
              | None => Fail end
          | None => Fail end
      end
  end.
Definition vbyte_read_le (src : list N) : outcome (N * list N) := vbyte_read_le_loop 24 0 0 src.
