(* Reader.v — L2 models of impls/buf_bit_reader.rs (BufBitReader<E, WR>, buffer of 2W bits)
   and impls/bit_reader.rs (unbuffered BitReader over u64 words), over a word source. *)
From DSI Require Export Words Prog.

(* the word source: logical words, cursor, strict (Err past the end) or zero-extended *)
Record wsrc := { ws_words : list N; ws_idx : N; ws_strict : bool }.
Definition src_read (k : wsrc) : outcome (N * wsrc) :=
  match nth_error (ws_words k) (N.to_nat (ws_idx k)) with
  | Some w => Ok (w, {| ws_words := ws_words k; ws_idx := ws_idx k + 1; ws_strict := ws_strict k |})
  | None => if ws_strict k then Err
            else Ok (0, {| ws_words := ws_words k; ws_idx := ws_idx k + 1; ws_strict := ws_strict k |})
  end.
Definition src_set_pos (k : wsrc) (p : N) : outcome wsrc :=
  if ws_strict k && (N.of_nat (length (ws_words k)) <? p) then Err
  else Ok {| ws_words := ws_words k; ws_idx := p; ws_strict := ws_strict k |}.

Definition oo' {A B} (o : option A) (f : A -> outcome B) : outcome B :=
  match o with Some a => f a | None => Fail end.

Record breader := { br_src : wsrc; br_buffer : N; br_bits : N }.
Definition br_new (words : list N) (strict : bool) : breader :=
  {| br_src := {| ws_words := words; ws_idx := 0; ws_strict := strict |}; br_buffer := 0; br_bits := 0 |}.

Section BufBitReader.
  Variable E : endian.
  Variable W : N.
  Let BB : N := 2 * W.

  Definition mk (k : wsrc) (b n : N) : breader := {| br_src := k; br_buffer := b; br_bits := n |}.

  Definition br_refill (s : breader) : outcome breader :=
    if W <? br_bits s then Fail else
    obind (src_read (br_src s)) (fun '(w, k) =>
    match E with
    | BE => let bits := br_bits s + W in
            oo' (wshl BB w (BB - bits)) (fun x => Ok (mk k (N.lor (br_buffer s) x) bits))
    | LE => oo' (wshl BB w (br_bits s)) (fun x => Ok (mk k (N.lor (br_buffer s) x) (br_bits s + W)))
    end).

  Definition br_peek (n : N) (s : breader) : outcome (N * breader) :=
    if (n =? 0) || (BB <? n) then Fail else
    obind (if br_bits s <? n then br_refill s else Ok s) (fun s1 =>
    if br_bits s1 <? n then Fail else
    match E with
    | BE => oo' (wshr BB (br_buffer s1) (BB - n)) (fun v => Ok (v, s1))
    | LE => let sh := BB - n in
            oo' (wshl BB (br_buffer s1) sh) (fun a => oo' (wshr BB a sh) (fun v => Ok (v, s1)))
    end).

  Definition br_skipap (n : N) (s : breader) : outcome breader :=
    if br_bits s <? n then Fail else
    oo' (match E with BE => wshl BB (br_buffer s) n | LE => wshr BB (br_buffer s) n end) (fun b =>
    Ok (mk (br_src s) b (br_bits s - n))).

  (* the `while n_bits > W` loop of the slow paths: reads `cnt` whole words *)
  Fixpoint be_read_words (cnt : nat) (result : N) (k : wsrc) : outcome (N * wsrc) :=
    match cnt with
    | O => Ok (result, k)
    | S c => obind (src_read k) (fun '(w, k') =>
             oo' (shl64 result W) (fun r => be_read_words c (N.lor r w) k'))
    end.
  Fixpoint le_read_words (cnt : nat) (result bits_in_res : N) (k : wsrc) : outcome (N * N * wsrc) :=
    match cnt with
    | O => Ok (result, bits_in_res, k)
    | S c => obind (src_read k) (fun '(w, k') =>
             oo' (shl64 w bits_in_res) (fun x => le_read_words c (N.lor result x) (bits_in_res + W) k'))
    end.
  Fixpoint skip_words (cnt : nat) (k : wsrc) : outcome wsrc :=
    match cnt with
    | O => Ok k
    | S c => obind (src_read k) (fun '(_, k') => skip_words c k')
    end.
  (* number of iterations of `while n > W { n -= W }` *)
  Definition whole_words (n : N) : N := if n =? 0 then 0 else (n - 1) / W.

  Definition br_read_bits (n : N) (s : breader) : outcome (N * breader) :=
    if 64 <? n then Fail else
    if BB <=? br_bits s then Fail else
    let bits := br_bits s in
    match E with
    | BE =>
        if n <=? bits then
          oo' (wshr BB (br_buffer s) (BB - n - 1)) (fun a => oo' (wshr BB a 1) (fun r =>
          oo' (wshl BB (br_buffer s) n) (fun b =>
          Ok (wcast 64 r, mk (br_src s) b (bits - n)))))
        else
          oo' (wshr BB (br_buffer s) (BB - 1 - bits)) (fun a => oo' (wshr BB a 1) (fun r0 =>
          let n1 := n - bits in
          let cnt := whole_words n1 in
          obind (be_read_words (N.to_nat cnt) (wcast 64 r0) (br_src s)) (fun '(r1, k1) =>
          let n2 := n1 - cnt * W in
          obind (src_read k1) (fun '(w, k2) =>
          let bits' := W - n2 in
          oo' (shr64 w bits') (fun fin =>
          oo' (shl64 r1 (n2 - 1)) (fun x => oo' (shl64 x 1) (fun y =>
          oo' (wshl BB w (BB - bits' - 1)) (fun b0 => oo' (wshl BB b0 1) (fun b1 =>
          Ok (N.lor y fin, mk k2 b1 bits'))))))))))
    | LE =>
        if n <=? bits then
          oo' (wshl BB 1 n) (fun m =>
          oo' (wshr BB (br_buffer s) n) (fun b =>
          Ok (wcast 64 (N.land (br_buffer s) (m - 1)), mk (br_src s) b (bits - n))))
        else
          let cnt := if n <=? W + bits then 0 else (n - bits - 1) / W in
          obind (le_read_words (N.to_nat cnt) (wcast 64 (br_buffer s)) bits (br_src s)) (fun '(r1, bir, k1) =>
          let n2 := n - bir in
          obind (src_read k1) (fun '(w, k2) =>
          let bits' := W - n2 in
          let sh := 64 - n2 in
          oo' (shl64 w sh) (fun a => oo' (shr64 a sh) (fun fin =>
          oo' (shl64 fin bir) (fun x =>
          oo' (wshr BB w n2) (fun b =>
          Ok (N.lor r1 x, mk k2 b bits')))))))
    end.

  Definition br_skip_bits (n : N) (s : breader) : outcome breader :=
    if BB <=? br_bits s then Fail else
    let bits := br_bits s in
    if n <=? bits then
      oo' (match E with BE => wshl BB (br_buffer s) n | LE => wshr BB (br_buffer s) n end) (fun b =>
      Ok (mk (br_src s) b (bits - n)))
    else
      let n1 := n - bits in
      let cnt := whole_words n1 in
      obind (skip_words (N.to_nat cnt) (br_src s)) (fun k1 =>
      let n2 := n1 - cnt * W in
      obind (src_read k1) (fun '(w, k2) =>
      let bits' := W - n2 in
      oo' (match E with
           | BE => match wshl BB w (BB - 1 - bits') with Some x => wshl BB x 1 | None => None end
           | LE => wshr BB w n2 end) (fun b =>
      Ok (mk k2 b bits')))).

  (* the `loop` of read_unary, by recursion on the words still in the source *)
  Fixpoint unary_words (rest : list N) (idx result : N) (strict : bool) : outcome (N * N * N) :=
    match rest with
    | [] => if strict then Err else Fuel
    | w :: r => if w =? 0 then unary_words r (idx + 1) (result + W) strict
                else Ok (w, idx + 1, result)
    end.

  Definition br_read_unary (s : breader) : outcome (N * breader) :=
    if BB <=? br_bits s then Fail else
    let bits := br_bits s in
    let zeros := match E with BE => leading_zeros BB (br_buffer s) | LE => trailing_zeros BB (br_buffer s) end in
    if zeros <? bits then
      oo' (match E with
           | BE => match wshl BB (br_buffer s) zeros with Some x => wshl BB x 1 | None => None end
           | LE => match wshr BB (br_buffer s) zeros with Some x => wshr BB x 1 | None => None end
           end) (fun b =>
      Ok (zeros, mk (br_src s) b (bits - (zeros + 1))))
    else
      let k := br_src s in
      obind (unary_words (skipn (N.to_nat (ws_idx k)) (ws_words k)) (ws_idx k) bits (ws_strict k))
        (fun '(w, idx', result) =>
      let k' := {| ws_words := ws_words k; ws_idx := idx'; ws_strict := ws_strict k |} in
      let z := match E with BE => leading_zeros W w | LE => trailing_zeros W w end in
      oo' (match E with
           | BE => match wshl BB w (W + z) with Some x => wshl BB x 1 | None => None end
           | LE => match wshr BB w z with Some x => wshr BB x 1 | None => None end
           end) (fun b =>
      oo' (add64 result z) (fun res =>
      Ok (res, mk k' b (W - z - 1))))).

  Definition br_bit_pos (s : breader) : outcome N :=
    oo' (mul64 (ws_idx (br_src s)) W) (fun a => oo' (sub64 a (br_bits s)) (fun p => Ok p)).

  Definition br_set_bit_pos (p : N) (s : breader) : outcome breader :=
    obind (src_set_pos (br_src s) (p / W)) (fun k =>
    let off := p mod W in
    if off =? 0 then Ok (mk k 0 0)
    else
      obind (src_read k) (fun '(w, k') =>
      let bits := W - off in
      oo' (match E with BE => wshl BB w (BB - bits) | LE => wshr BB w off end) (fun b =>
      Ok (mk k' b bits)))).

  Definition brprims : rprims breader :=
    {| p_bits := br_read_bits; p_unary := br_read_unary; p_peek := br_peek; p_skipap := br_skipap |}.
End BufBitReader.

(* ------------------------------------------------------------------ *)
(* impls/bit_reader.rs: unbuffered reader over u64 words *)
Record ureader := { ur_src : wsrc; ur_index : N }.
Definition ur_new (words : list N) (strict : bool) : ureader :=
  {| ur_src := {| ws_words := words; ws_idx := 0; ws_strict := strict |}; ur_index := 0 |}.

Section BitReader.
  Variable E : endian.

  (* shared by read_bits and peek_bits *)
  Definition ur_fetch (n : N) (s : ureader) : outcome (N * wsrc) :=
    obind (src_set_pos (ur_src s) (ur_index s / 64)) (fun k0 =>
    let off := ur_index s mod 64 in
    if off + n <=? 64 then
      obind (src_read k0) (fun '(w, k1) =>
      match E with
      | BE => oo' (shl64 w off) (fun a => oo' (shr64 a (64 - n)) (fun r => Ok (r, k1)))
      | LE => let sh := 64 - n in
              oo' (sub64 sh off) (fun d => oo' (shl64 w d) (fun a => oo' (shr64 a sh) (fun r => Ok (r, k1))))
      end)
    else
      obind (src_read k0) (fun '(w1, k1) =>
      obind (src_read k1) (fun '(w2, k2) =>
      match E with
      | BE => (* high = w1, low = w2 *)
          oo' (shl64 w1 off) (fun a => oo' (shr64 a (64 - n)) (fun hi =>
          oo' (shr64 w2 (128 - off - n)) (fun lo => Ok (N.lor hi lo, k2))))
      | LE => (* low = w1, high = w2 *)
          oo' (shl64 w2 (128 - off - n)) (fun a => oo' (shr64 a (64 - n)) (fun hi =>
          oo' (shr64 w1 off) (fun lo => Ok (N.lor hi lo, k2))))
      end))).

  Definition ur_read_bits (n : N) (s : ureader) : outcome (N * ureader) :=
    if n =? 0 then Ok (0, s) else
    if 64 <? n then Fail else
    obind (ur_fetch n s) (fun '(r, k) =>
    oo' (add64 (ur_index s) n) (fun i => Ok (r, {| ur_src := k; ur_index := i |}))).

  Definition ur_peek (n : N) (s : ureader) : outcome (N * ureader) :=
    if n =? 0 then Ok (0, s) else
    if 32 <? n then Fail else
    obind (ur_fetch n s) (fun '(r, k) => Ok (wcast 32 r, {| ur_src := k; ur_index := ur_index s |})).

  Definition ur_skip (n : N) (s : ureader) : outcome ureader :=
    oo' (add64 (ur_index s) n) (fun i => Ok {| ur_src := ur_src s; ur_index := i |}).

  Fixpoint ur_unary_words (rest : list N) (idx total bits_in_word : N) (first : bool) (off : N)
           (strict : bool) : outcome (N * N) :=
    (* returns (total + zeros, idx after) *)
    match rest with
    | [] => if strict then Err else Fuel
    | w :: r =>
        let word := if first then match E with BE => (w * 2 ^ off) mod W64 | LE => w / 2 ^ off end else w in
        let zeros := match E with BE => leading_zeros 64 word | LE => trailing_zeros 64 word end in
        if zeros <? bits_in_word then Ok (total + zeros, idx + 1)
        else ur_unary_words r (idx + 1) (total + bits_in_word) 64 false 0 strict
    end.

  Definition ur_read_unary (s : ureader) : outcome (N * ureader) :=
    obind (src_set_pos (ur_src s) (ur_index s / 64)) (fun k0 =>
    let off := ur_index s mod 64 in
    obind (ur_unary_words (skipn (N.to_nat (ws_idx k0)) (ws_words k0)) (ws_idx k0) 0 (64 - off) true off
             (ws_strict k0)) (fun '(res, idx') =>
    oo' (add64 (ur_index s) (res + 1)) (fun i =>
    Ok (res, {| ur_src := {| ws_words := ws_words k0; ws_idx := idx'; ws_strict := ws_strict k0 |};
                ur_index := i |})))).

  Definition urprims : rprims ureader :=
    {| p_bits := ur_read_bits; p_unary := ur_read_unary; p_peek := ur_peek;
       p_skipap := fun n s => ur_skip n s |}.
End BitReader.
