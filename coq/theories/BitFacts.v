(* BitFacts.v — lemmas about bit lists (field/val/unary/take_pad) and about running read and
   write programs on the L0 specification. *)
From DSI Require Import Base Prog.
From Coq Require Import ZifyBool ZifyNat ZifyN.
Ltac Zify.zify_post_hook ::= Z.div_mod_to_equations.
Arguments N.add : simpl never. Arguments N.sub : simpl never. Arguments N.mul : simpl never.
Arguments N.div : simpl never. Arguments N.modulo : simpl never. Arguments N.pow : simpl never.
Arguments N.eqb : simpl never. Arguments N.ltb : simpl never. Arguments N.leb : simpl never.
Arguments N.testbit : simpl never. Arguments N.of_nat : simpl never. Arguments N.to_nat : simpl never.

(* ------------------------------------------------------------------ lists *)
Lemma firstn_app_exact {A} (a b : list A) : firstn (length a) (a ++ b) = a.
Proof. induction a as [|x a IH]; cbn; [destruct b; reflexivity | f_equal; exact IH]. Qed.
Lemma skipn_app_exact {A} (a b : list A) : skipn (length a) (a ++ b) = b.
Proof. induction a as [|x a IH]; cbn; [reflexivity | exact IH]. Qed.
Lemma firstn_app_n {A} n (a b : list A) : length a = n -> firstn n (a ++ b) = a.
Proof. intros <-. apply firstn_app_exact. Qed.
Lemma skipn_app_n {A} n (a b : list A) : length a = n -> skipn n (a ++ b) = b.
Proof. intros <-. apply skipn_app_exact. Qed.

(* ------------------------------------------------------------------ field / val *)
Lemma field_le_from_length v i n : length (field_le_from v i n) = n.
Proof. revert i; induction n as [|n IH]; intros i; cbn; [reflexivity | f_equal; apply IH]. Qed.
Lemma field_le_length v n : length (field_le v n) = n.
Proof. apply field_le_from_length. Qed.
Lemma field_be_length v n : length (field_be v n) = n.
Proof. unfold field_be. rewrite rev_length. apply field_le_length. Qed.
Lemma field_length E v n : length (field E v n) = n.
Proof. destruct E; [apply field_be_length | apply field_le_length]. Qed.

Lemma val_le_app a b : val_le (a ++ b) = val_le a + 2 ^ N.of_nat (length a) * val_le b.
Proof.
  induction a as [|x a IH]; cbn [app val_le length].
  - change (N.of_nat 0) with 0. rewrite N.pow_0_r. lia.
  - rewrite IH. rewrite Nat2N.inj_succ, N.pow_succ_r'. lia.
Qed.

Lemma val_be_acc_spec acc l : val_be_acc acc l = acc * 2 ^ N.of_nat (length l) + val_le (rev l).
Proof.
  revert acc; induction l as [|b r IH]; intros acc; cbn [val_be_acc rev length].
  - change (N.of_nat 0) with 0. rewrite N.pow_0_r. cbn [val_le]. lia.
  - rewrite IH, val_le_app, rev_length. cbn [val_le]. rewrite Nat2N.inj_succ, N.pow_succ_r'. lia.
Qed.
Lemma val_be_rev l : val_be l = val_le (rev l).
Proof. unfold val_be. rewrite val_be_acc_spec. lia. Qed.

Lemma val_le_field_le_from v i n : val_le (field_le_from v i n) = (v / 2 ^ i) mod 2 ^ N.of_nat n.
Proof.
  revert i; induction n as [|n IH]; intros i; cbn [field_le_from val_le].
  - change (N.of_nat 0) with 0. rewrite N.pow_0_r, N.mod_1_r. reflexivity.
  - rewrite IH, Nat2N.inj_succ, N.pow_succ_r', N.pow_succ_r'.
    rewrite N.testbit_spec'.
    rewrite (N.mod_mul_r (v / 2 ^ i) 2 (2 ^ N.of_nat n)) by (try lia; apply N.pow_nonzero; lia).
    rewrite N.div_div by (try lia; apply N.pow_nonzero; lia).
    rewrite (N.mul_comm (2 ^ i) 2). reflexivity.
Qed.
Lemma val_le_field_le v n : val_le (field_le v n) = v mod 2 ^ N.of_nat n.
Proof. unfold field_le. rewrite val_le_field_le_from, N.pow_0_r, N.div_1_r. reflexivity. Qed.
Lemma val_be_field_be v n : val_be (field_be v n) = v mod 2 ^ N.of_nat n.
Proof. rewrite val_be_rev. unfold field_be. rewrite rev_involutive. apply val_le_field_le. Qed.
Lemma val_field E v n : val E (field E v n) = v mod 2 ^ N.of_nat n.
Proof. destruct E; [apply val_be_field_be | apply val_le_field_le]. Qed.

Lemma val_le_bound l : val_le l < 2 ^ N.of_nat (length l).
Proof.
  induction l as [|b r IH]; cbn [val_le length].
  - change (N.of_nat 0) with 0. rewrite N.pow_0_r. lia.
  - rewrite Nat2N.inj_succ, N.pow_succ_r'. destruct b; cbn [N.b2n]; lia.
Qed.
Lemma val_bound E l : val E l < 2 ^ N.of_nat (length l).
Proof. destruct E; cbn [val]; [rewrite val_be_rev, <- rev_length | ]; apply val_le_bound. Qed.

(* the field of a value depends only on the value modulo 2^n *)
Lemma field_le_from_testbit v w i n :
  (forall j, i <= j < i + N.of_nat n -> N.testbit v j = N.testbit w j) ->
  field_le_from v i n = field_le_from w i n.
Proof.
  revert i; induction n as [|n IH]; intros i H; cbn [field_le_from]; [reflexivity|].
  f_equal; [apply H; lia | apply IH; intros j Hj; apply H; lia].
Qed.
Lemma field_mod E v n : field E (v mod 2 ^ N.of_nat n) n = field E v n.
Proof.
  assert (field_le (v mod 2 ^ N.of_nat n) n = field_le v n) as H.
  { apply field_le_from_testbit. intros j Hj. apply N.mod_pow2_bits_low. lia. }
  destruct E; cbn [field]; unfold field_be; rewrite H; reflexivity.
Qed.
Lemma field_eq_mod E v w n : v mod 2 ^ N.of_nat n = w mod 2 ^ N.of_nat n -> field E v n = field E w n.
Proof. intros H. rewrite <- (field_mod E v), <- (field_mod E w), H. reflexivity. Qed.

(* ------------------------------------------------------------------ unary / zeros *)
Lemma zeros_length n : length (zeros n) = n.
Proof. apply repeat_length. Qed.
Lemma unary_length x : length (unary x) = S (N.to_nat x).
Proof. unfold unary. rewrite app_length, zeros_length. cbn. lia. Qed.
Lemma count_zeros_zeros n r : count_zeros (zeros n ++ true :: r) = Some (N.of_nat n).
Proof.
  induction n as [|n IH]; cbn [zeros repeat app count_zeros]; [reflexivity|].
  fold (zeros n). rewrite IH. rewrite Nat2N.inj_succ. reflexivity.
Qed.
Lemma count_zeros_unary x r : count_zeros (unary x ++ r) = Some x.
Proof. unfold unary. rewrite <- app_assoc. cbn [app]. rewrite count_zeros_zeros. f_equal. lia. Qed.

(* ------------------------------------------------------------------ running programs *)
Lemma rrun_bind {S A B} (P : rprims S) (p : rprog A) (f : A -> rprog B) s :
  rrun P (rbind p f) s =
  match rrun P p s with Ok (a, s') => rrun P (f a) s' | Err => Err | Fail => Fail | Fuel => Fuel end.
Proof.
  revert s; induction p as [a | n k IH | k IH | n k IH | n k IH | n k IH | ]; intros s; cbn [rbind rrun]; try reflexivity.
  - destruct (p_bits P n s) as [[v s'] | | | ]; try reflexivity. apply IH.
  - destruct (p_unary P s) as [[v s'] | | | ]; try reflexivity. apply IH.
  - destruct (p_peek P n s) as [[v s'] | | | ]; try reflexivity; apply IH.
  - destruct (p_peek P n s) as [[v s'] | | | ]; try reflexivity. apply IH.
  - destruct (p_skipap P n s) as [s' | | | ]; try reflexivity. apply IH.
Qed.
Lemma wrun_bind {S A B} (Q : wprims S) (p : wprog A) (f : A -> wprog B) s :
  wrun Q (wbind p f) s =
  match wrun Q p s with Ok (a, s') => wrun Q (f a) s' | Err => Err | Fail => Fail | Fuel => Fuel end.
Proof.
  revert s; induction p as [a | v n k IH | x k IH | ]; intros s; cbn [wbind wrun]; try reflexivity.
  - destruct (q_bits Q v n s) as [[r s'] | | | ]; try reflexivity. apply IH.
  - destruct (q_unary Q x s) as [[r s'] | | | ]; try reflexivity. apply IH.
Qed.
Lemma rrun_rlift {S A B} (P : rprims S) (o : option A) (f : A -> rprog B) s a :
  o = Some a -> rrun P (rlift o f) s = rrun P (f a) s.
Proof. intros ->. reflexivity. Qed.
Lemma wrun_wlift {S A B} (Q : wprims S) (o : option A) (f : A -> wprog B) s a :
  o = Some a -> wrun Q (wlift o f) s = wrun Q (f a) s.
Proof. intros ->. reflexivity. Qed.

(* ------------------------------------------------------------------ the L0 reader on shaped streams *)
Definition mkr (rest : bits) (pos pk : N) : sreader := {| sr_rest := rest; sr_pos := pos; sr_peeked := pk |}.

Lemma s_take_app strict n cw post pos pk :
  N.of_nat (length cw) = n ->
  s_take strict n (mkr (cw ++ post) pos pk) = Ok (cw, mkr post (pos + n) 0).
Proof.
  intros H. unfold s_take, mkr; cbn [sr_rest sr_pos].
  assert (N.to_nat n = length cw) as Hn by lia.
  rewrite app_length.
  destruct (n <=? N.of_nat (length cw + length post)) eqn:Hc; [|lia].
  rewrite Hn, firstn_app_exact, skipn_app_exact. reflexivity.
Qed.

Lemma s_bits_field E strict v n post pos pk :
  n <= 64 ->
  s_bits E strict n (mkr (field E v (N.to_nat n) ++ post) pos pk) = Ok (v mod 2 ^ n, mkr post (pos + n) 0).
Proof.
  intros Hn. unfold s_bits. destruct (64 <? n) eqn:H; [lia|].
  rewrite s_take_app by (rewrite field_length; lia).
  rewrite val_field. rewrite N2Nat.id. reflexivity.
Qed.

Lemma s_unary_unary strict x post pos pk :
  s_unary strict (mkr (unary x ++ post) pos pk) = Ok (x, mkr post (pos + x + 1) 0).
Proof.
  unfold s_unary, mkr; cbn [sr_rest sr_pos]. rewrite count_zeros_unary.
  replace (S (N.to_nat x)) with (length (unary x)) by apply unary_length.
  rewrite skipn_app_exact. reflexivity.
Qed.

(* ------------------------------------------------------------------ the L0 writer *)
Lemma sw_bits_ok E v n s : n <= 64 -> sw_bits E false v n s = Ok (n, s ++ field E v (N.to_nat n)).
Proof. intros H. unfold sw_bits. destruct (64 <? n) eqn:Hc; [lia|]. reflexivity. Qed.
Lemma sw_unary_ok x s : x < U64MAX -> sw_unary x s = Ok (x + 1, s ++ unary x).
Proof. intros H. unfold sw_unary. destruct (x =? U64MAX) eqn:Hc; [lia|]. reflexivity. Qed.
(* with the argument check compiled in, a clean value is written in the same way *)
Lemma sw_bits_checks_clean E v n s :
  n <= 64 -> v < 2 ^ n -> sw_bits E true v n s = Ok (n, s ++ field E v (N.to_nat n)).
Proof.
  intros H Hv. unfold sw_bits. destruct (64 <? n) eqn:Hc; [lia|].
  assert (N.land v (mask_u128 n) = v) as ->; [|rewrite N.eqb_refl; reflexivity].
  unfold mask_u128.
  destruct (N.eq_dec n 64) as [->|Hne].
  - change ((2 ^ 64 - 1) mod W64) with (N.ones 64). rewrite N.land_ones. apply N.mod_small. exact Hv.
  - assert (2 ^ n < W64) as Hlt. { change W64 with (2 ^ 64). apply N.pow_lt_mono_r; lia. }
    assert (0 < 2 ^ n) as Hpos by (apply N.neq_0_lt_0, N.pow_nonzero; lia).
    rewrite N.mod_small by lia.
    replace (2 ^ n - 1) with (N.ones n) by (rewrite N.ones_equiv; lia).
    rewrite N.land_ones. apply N.mod_small. exact Hv.
Qed.

(* ------------------------------------------------------------------ field (val bs) = bs *)
Lemma field_le_from_shift v i n : field_le_from v i n = field_le_from (v / 2 ^ i) 0 n.
Proof.
  revert v i; induction n as [|n IH]; intros v i; cbn [field_le_from]; [reflexivity|].
  f_equal.
  - rewrite <- N.shiftr_div_pow2, N.shiftr_spec'. f_equal.
  - rewrite (IH v (N.succ i)). rewrite (IH (v / 2 ^ i) (N.succ 0)). f_equal.
    rewrite N.div_div by (try (apply N.pow_nonzero; lia); lia).
    rewrite <- N.pow_add_r. f_equal. f_equal. lia.
Qed.

Lemma field_le_val_le bs : field_le (val_le bs) (length bs) = bs.
Proof.
  induction bs as [|b r IH]; [reflexivity|].
  cbn [val_le length]. unfold field_le. cbn [field_le_from]. f_equal.
  - rewrite N.bit0_odd. rewrite N.odd_add_mul_2. destruct b; reflexivity.
  - rewrite field_le_from_shift. change (2 ^ N.succ 0) with 2.
    replace ((N.b2n b + 2 * val_le r) / 2) with (val_le r).
    + exact IH.
    + destruct b; cbn [N.b2n]; lia.
Qed.
Lemma field_be_val_be bs : field_be (val_be bs) (length bs) = bs.
Proof.
  unfold field_be. rewrite val_be_rev, <- (rev_length bs), field_le_val_le. apply rev_involutive.
Qed.
Lemma field_val E bs : field E (val E bs) (length bs) = bs.
Proof. destruct E; [apply field_be_val_be | apply field_le_val_le]. Qed.

(* ------------------------------------------------------------------ take_pad *)
Lemma take_pad_length n l : length (take_pad n l) = n.
Proof. revert l; induction n as [|n IH]; intros l; cbn [take_pad]; [reflexivity|]. destruct l; cbn [length]; f_equal; apply IH. Qed.
Lemma take_pad_firstn_gen n l k : (n <= k)%nat -> take_pad n l = firstn n (l ++ zeros k).
Proof.
  revert l k; induction n as [|n IH]; intros l k Hk; [reflexivity|]. cbn [take_pad].
  destruct l as [|b r]; cbn [app].
  - destruct k as [|k]; [lia|]. cbn [zeros repeat firstn]. f_equal. fold (zeros k).
    rewrite (IH [] k) by lia. reflexivity.
  - cbn [firstn]. f_equal. apply IH. lia.
Qed.
Lemma take_pad_firstn n l : take_pad n l = firstn n (l ++ zeros n).
Proof. apply take_pad_firstn_gen. lia. Qed.
Lemma firstn_firstn_le {A} (l : list A) a b : (a <= b)%nat -> firstn a (firstn b l) = firstn a l.
Proof. intros H. rewrite firstn_firstn. f_equal. lia. Qed.
Lemma firstn_app_le {A} (l r : list A) n : (n <= length l)%nat -> firstn n (l ++ r) = firstn n l.
Proof. intros H. rewrite firstn_app. replace (n - length l)%nat with 0%nat by lia. cbn. apply app_nil_r. Qed.

(* the peek of the L0 reader: the value of the next n bits, zero padded *)
Lemma s_peek_spec E strict cap n rest pos pk :
  1 <= n -> n <= cap ->
  s_peek E strict cap n (mkr rest pos pk) =
  if strict && (N.of_nat (length rest) <? n) then Err
  else Ok (val E (firstn (N.to_nat n) (rest ++ zeros (N.to_nat n))), mkr rest pos (N.max pk n)).
Proof.
  intros H1 Hc. unfold s_peek, s_take, mkr; cbn [sr_rest sr_pos sr_peeked].
  destruct ((n =? 0) || (cap <? n)) eqn:Hg; [lia|].
  destruct (n <=? N.of_nat (length rest)) eqn:Hl.
  - replace (N.of_nat (length rest) <? n) with false by lia. rewrite andb_false_r.
    rewrite firstn_app_le by lia. reflexivity.
  - replace (N.of_nat (length rest) <? n) with true by lia. rewrite andb_true_r.
    destruct strict; [reflexivity|]. rewrite take_pad_firstn. reflexivity.
Qed.
