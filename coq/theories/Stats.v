(* Stats.v — utils/stats.rs: CodesStats (update, update_many, add, best_code). *)
From DSI Require Export Dispatch.
From DSI.Gen Require Export GenParams GenTables GenStats.

Record stats := {
  st_total : N; st_unary : N; st_gamma : N; st_delta : N; st_omega : N; st_vbyte : N;
  st_zeta : list N; st_golomb : list N; st_exp_golomb : list N; st_rice : list N; st_pi : list N;
}.

Definition nthd (l : list N) (i : nat) : N := nth i l 0.
Definition sz (i : nat) : nat := N.to_nat (nthd stats_sizes i).
Definition off (i : nat) : N := nthd stats_offsets i.
Definition boff (i : nat) : N := nthd best_code_offsets i.

Definition stats_default : stats :=
  {| st_total := 0; st_unary := 0; st_gamma := 0; st_delta := 0; st_omega := 0; st_vbyte := 0;
     st_zeta := repeat 0 (sz 0); st_golomb := repeat 0 (sz 1); st_exp_golomb := repeat 0 (sz 2);
     st_rice := repeat 0 (sz 3); st_pi := repeat 0 (sz 4) |}.

Section Stats.
  Let T := the_tables.
  Let D := buf_params.

  (* *val += len(n, idx + offset) as u64 * count, over a vector *)
  Fixpoint upd_vec (len : N -> option N) (idx : N) (count : N) (l : list N) : option (list N) :=
    match l with
    | [] => Some []
    | v :: r =>
        match len idx with
        | Some ln => match mul64 ln count with
                     | Some a => match add64 v a with
                                 | Some v' => match upd_vec len (idx + 1) count r with
                                              | Some r' => Some (v' :: r') | None => None end
                                 | None => None end
                     | None => None end
        | None => None
        end
    end.

  Definition upd1 (len : option N) (count v : N) : option N :=
    match len with
    | Some ln => match mul64 ln count with Some a => add64 v a | None => None end
    | None => None end.

  Definition update_many (s : stats) (n count : N) : option stats :=
    match add64 (st_total s) count,
          upd1 (add64 n 1) count (st_unary s),
          upd1 (len_gamma T D n) count (st_gamma s),
          upd1 (len_delta T D n) count (st_delta s),
          upd1 (len_omega n) count (st_omega s),
          upd1 (bit_len_vbyte n) count (st_vbyte s) with
    | Some t, Some u, Some g, Some d, Some o, Some vb =>
        match upd_vec (fun k => len_zeta T D n k) (off 0) count (st_zeta s),
              upd_vec (fun b => len_golomb n b) (off 1) count (st_golomb s),
              upd_vec (fun k => len_exp_golomb T D n k) (off 2) count (st_exp_golomb s),
              upd_vec (fun k => len_rice n k) (off 3) count (st_rice s),
              upd_vec (fun k => len_pi n k) (off 4) count (st_pi s) with
        | Some z, Some go, Some eg, Some ri, Some pi =>
            Some {| st_total := t; st_unary := u; st_gamma := g; st_delta := d; st_omega := o;
                    st_vbyte := vb; st_zeta := z; st_golomb := go; st_exp_golomb := eg;
                    st_rice := ri; st_pi := pi |}
        | _, _, _, _, _ => None
        end
    | _, _, _, _, _, _ => None
    end.
  Definition update (s : stats) (n : N) : option stats := update_many s n 1.

  Fixpoint add_vec (a b : list N) : option (list N) :=
    match a, b with
    | x :: ra, y :: rb => match add64 x y, add_vec ra rb with
                          | Some z, Some r => Some (z :: r) | _, _ => None end
    | _, _ => Some a     (* zip stops at the shorter; lengths are equal by construction *)
    end.

  Definition stats_add (a b : stats) : option stats :=
    match add64 (st_total a) (st_total b), add64 (st_unary a) (st_unary b),
          add64 (st_gamma a) (st_gamma b), add64 (st_delta a) (st_delta b),
          add64 (st_omega a) (st_omega b), add64 (st_vbyte a) (st_vbyte b) with
    | Some t, Some u, Some g, Some d, Some o, Some vb =>
        match add_vec (st_zeta a) (st_zeta b), add_vec (st_golomb a) (st_golomb b),
              add_vec (st_exp_golomb a) (st_exp_golomb b), add_vec (st_rice a) (st_rice b),
              add_vec (st_pi a) (st_pi b) with
        | Some z, Some go, Some eg, Some ri, Some pi =>
            Some {| st_total := t; st_unary := u; st_gamma := g; st_delta := d; st_omega := o;
                    st_vbyte := vb; st_zeta := z; st_golomb := go; st_exp_golomb := eg;
                    st_rice := ri; st_pi := pi |}
        | _, _, _, _, _ => None
        end
    | _, _, _, _, _, _ => None
    end.

  (* best_code: strict `<` scan in the source order *)
  Fixpoint best_vec (v : variant) (idx : N) (l : list N) (best : code * N) : code * N :=
    match l with
    | [] => best
    | x :: r => best_vec v (idx + 1) r
                  (if x <? snd best then ({| cvar := v; cparam := idx |}, x) else best)
    end.
  Definition chk (c : code) (len : N) (best : code * N) : code * N :=
    if len <? snd best then (c, len) else best.
  Definition best_code (s : stats) : code * N :=
    let b := ({| cvar := VUnary; cparam := 0 |}, st_unary s) in
    let b := chk {| cvar := VGamma; cparam := 0 |} (st_gamma s) b in
    let b := chk {| cvar := VDelta; cparam := 0 |} (st_delta s) b in
    let b := chk {| cvar := VOmega; cparam := 0 |} (st_omega s) b in
    let b := chk {| cvar := VVByteBe; cparam := 0 |} (st_vbyte s) b in
    let b := best_vec VZeta (boff 0) (st_zeta s) b in
    let b := best_vec VGolomb (boff 1) (st_golomb s) b in
    let b := best_vec VExpGolomb (boff 2) (st_exp_golomb s) b in
    let b := best_vec VRice (boff 3) (st_rice s) b in
    best_vec VPi (boff 4) (st_pi s) b.

  Definition stats_flat (s : stats) : list N :=
    [st_total s; st_unary s; st_gamma s; st_delta s; st_omega s; st_vbyte s]
      ++ st_zeta s ++ st_golomb s ++ st_exp_golomb s ++ st_rice s ++ st_pi s.
End Stats.
