(* CursorProofs.v — property C11c: the word adapter over a seekable in-memory byte cursor
   (CursorModel.v): seeks address words, reported positions count words, a failed read on a
   ragged tail is harmless, read-after-write, no panics inside the stated bounds. *)
From Coq Require Import ZifyBool ZifyNat ZifyN.
From DSI Require Import Small CursorModel AdapterProofs.
Ltac Zify.zify_post_hook ::= Z.div_mod_to_equations.

Arguments N.add : simpl never.
Arguments N.sub : simpl never.
Arguments N.mul : simpl never.
Arguments N.div : simpl never.
Arguments N.modulo : simpl never.
Arguments N.pow : simpl never.
Arguments N.eqb : simpl never.
Arguments N.ltb : simpl never.
Arguments N.leb : simpl never.
Arguments N.min : simpl never.
Arguments N.max : simpl never.
Arguments N.of_nat : simpl never.
Arguments N.to_nat : simpl never.

(* the word sizes of the crate: u8, u16, u32, u64, u128 and anything in between *)
Definition word_size (W : N) : Prop := W mod 8 = 0 /\ 8 <= W <= 128.
Definition bytes_ok (bs : list N) : Prop := Forall (fun b => b < 256) bs.

(* the word stored at bytes [k*nb, (k+1)*nb) of a byte image *)
Definition word_at (W k : N) (bs : list N) : N := of_le_bytes (slice bs (k * (W / 8)) (W / 8)).

Lemma word_size_nb W : word_size W -> 1 <= W / 8 <= 16.
Proof. unfold word_size. lia. Qed.

(* ------------------------------------------------------------------ *)
(* list lemmas *)

Lemma nth_firstn_lt {A} (d : A) : forall n i (l : list A),
  (i < n)%nat -> nth i (firstn n l) d = nth i l d.
Proof.
  induction n as [|n IH]; intros i l Hi; [lia|].
  destruct l as [|a l]; [reflexivity|]. destruct i as [|i]; [reflexivity|].
  simpl. apply IH. lia.
Qed.

Lemma nth_skipn_add {A} (d : A) : forall n i (l : list A),
  nth i (skipn n l) d = nth (n + i) l d.
Proof.
  induction n as [|n IH]; intros i l; [reflexivity|].
  destruct l as [|a l]; [destruct i; reflexivity|]. simpl. apply IH.
Qed.

Lemma nth_repeat_0 : forall n i, nth i (repeat 0 n) 0 = 0.
Proof. induction n as [|n IH]; intros [|i]; simpl; auto. Qed.

Lemma splice_length old pos new :
  length (splice old pos new) = Nat.max (length old) (pos + length new).
Proof.
  unfold splice. rewrite !app_length, firstn_length, repeat_length, skipn_length. lia.
Qed.

Lemma splice_head_length old pos :
  length (firstn pos old ++ repeat 0 (pos - length old)) = pos.
Proof. rewrite app_length, firstn_length, repeat_length. lia. Qed.

Lemma splice_assoc old pos new :
  splice old pos new =
  (firstn pos old ++ repeat 0 (pos - length old)) ++ new ++ skipn (pos + length new) old.
Proof. unfold splice. rewrite <- app_assoc. reflexivity. Qed.

(* the bytes written are there ... *)
Lemma slice_splice old pos new :
  firstn (length new) (skipn pos (splice old pos new)) = new.
Proof.
  rewrite splice_assoc.
  rewrite <- (splice_head_length old pos) at 1.
  rewrite skipn_length_app. apply firstn_length_app.
Qed.

(* ... and every byte of the result is accounted for *)
Lemma splice_nth old pos new i :
  nth i (splice old pos new) 0 =
  if (pos <=? i)%nat && (i <? pos + length new)%nat then nth (i - pos) new 0 else nth i old 0.
Proof.
  rewrite splice_assoc.
  pose proof (splice_head_length old pos) as HL.
  destruct (Nat.lt_ge_cases i pos) as [Hlt|Hge].
  - replace ((pos <=? i)%nat && (i <? pos + length new)%nat) with false by lia.
    rewrite app_nth1 by lia.
    destruct (Nat.lt_ge_cases i (length old)) as [Hin|Hout].
    + rewrite app_nth1 by (rewrite firstn_length; lia). apply nth_firstn_lt. lia.
    + rewrite app_nth2 by (rewrite firstn_length; lia).
      rewrite nth_repeat_0. symmetry. apply nth_overflow. lia.
  - rewrite app_nth2 by lia. rewrite HL.
    destruct (Nat.lt_ge_cases i (pos + length new)) as [Hin|Hout].
    + replace ((pos <=? i)%nat && (i <? pos + length new)%nat) with true by lia.
      apply app_nth1. lia.
    + replace ((pos <=? i)%nat && (i <? pos + length new)%nat) with false by lia.
      rewrite app_nth2 by lia. rewrite nth_skipn_add. f_equal. lia.
Qed.

Lemma le_bytes_ok : forall n x, bytes_ok (le_bytes n x).
Proof.
  induction n as [|n IH]; intro x; simpl; constructor; [lia|apply IH].
Qed.

Lemma bytes_ok_firstn n bs : bytes_ok bs -> bytes_ok (firstn n bs).
Proof.
  unfold bytes_ok. rewrite !Forall_forall. intros H b Hb. apply H.
  rewrite <- (firstn_skipn n bs). apply in_or_app. auto.
Qed.

Lemma bytes_ok_skipn n bs : bytes_ok bs -> bytes_ok (skipn n bs).
Proof.
  unfold bytes_ok. rewrite !Forall_forall. intros H b Hb. apply H.
  rewrite <- (firstn_skipn n bs). apply in_or_app. auto.
Qed.

Lemma bytes_ok_repeat n : bytes_ok (repeat 0 n).
Proof. induction n; simpl; constructor; [lia|auto]. Qed.

Lemma splice_ok old pos new : bytes_ok old -> bytes_ok new -> bytes_ok (splice old pos new).
Proof.
  intros Ho Hn. unfold splice, bytes_ok. rewrite !Forall_app.
  split; [apply bytes_ok_firstn; auto|]. split; [apply bytes_ok_repeat|].
  split; [auto|apply bytes_ok_skipn; auto].
Qed.

(* ------------------------------------------------------------------ *)
(* the four adapter operations, one equation each *)

Lemma ad_seek_ok W k c :
  k * (W / 8) < W64 -> ad_seek W k c = Ok {| cu_bytes := cu_bytes c; cu_pos := k * (W / 8) |}.
Proof. intro H. unfold ad_seek. rewrite seek_word by auto. reflexivity. Qed.

Lemma ad_seek_fail W k c : W64 <= k * (W / 8) -> ad_seek W k c = Fail.
Proof. intro H. unfold ad_seek. rewrite seek_overflow by auto. reflexivity. Qed.

Lemma ad_read_ok W c :
  word_size W -> cu_pos c + W / 8 <= cur_len c ->
  ad_read W c = (Ok (of_le_bytes (slice (cu_bytes c) (cu_pos c) (W / 8))),
                 {| cu_bytes := cu_bytes c; cu_pos := cu_pos c + W / 8 |}).
Proof.
  intros HW H. unfold ad_read, cur_read_exact.
  replace ((W / 8 =? 0) || (cu_pos c + W / 8 <=? cur_len c)) with true by lia.
  reflexivity.
Qed.

Lemma ad_read_err W c :
  word_size W -> cur_len c < cu_pos c + W / 8 ->
  ad_read W c = (Err, {| cu_bytes := cu_bytes c; cu_pos := cur_len c |}).
Proof.
  intros HW H. apply word_size_nb in HW. unfold ad_read, cur_read_exact.
  replace ((W / 8 =? 0) || (cu_pos c + W / 8 <=? cur_len c)) with false by lia.
  reflexivity.
Qed.

(* a read either succeeds or returns Err: it never panics; it fails exactly on a short tail *)
Lemma ad_read_cases W c :
  word_size W ->
  (cu_pos c + W / 8 <= cur_len c /\
   ad_read W c = (Ok (of_le_bytes (slice (cu_bytes c) (cu_pos c) (W / 8))),
                  {| cu_bytes := cu_bytes c; cu_pos := cu_pos c + W / 8 |})) \/
  (cur_len c < cu_pos c + W / 8 /\
   ad_read W c = (Err, {| cu_bytes := cu_bytes c; cu_pos := cur_len c |})).
Proof.
  intro HW. destruct (N.le_gt_cases (cu_pos c + W / 8) (cur_len c)) as [H|H].
  - left. split; [exact H|apply ad_read_ok; auto].
  - right. split; [exact H|apply ad_read_err; auto].
Qed.

Lemma word_bytes_len W w : N.of_nat (length (word_bytes LE W w)) = W / 8.
Proof. rewrite word_bytes_length. lia. Qed.

Lemma ad_write_ok W w c :
  cu_pos c + W / 8 <= ISIZE_MAX ->
  ad_write W w c = Ok {| cu_bytes := splice (cu_bytes c) (N.to_nat (cu_pos c)) (word_bytes LE W w);
                         cu_pos := cu_pos c + W / 8 |}.
Proof.
  intro H. unfold ad_write, cur_write_all. cbv zeta. rewrite word_bytes_len.
  replace (ISIZE_MAX <? cu_pos c + W / 8) with false by lia. reflexivity.
Qed.

Lemma ad_write_fail W w c : ISIZE_MAX < cu_pos c + W / 8 -> ad_write W w c = Fail.
Proof.
  intro H. unfold ad_write, cur_write_all. cbv zeta. rewrite word_bytes_len.
  replace (ISIZE_MAX <? cu_pos c + W / 8) with true by lia. reflexivity.
Qed.

(* ------------------------------------------------------------------ *)
(* seek_addresses_word: from ANY cursor state c (any contents, ragged or not, any position,
   also beyond the end, also left by a failed read), set_word_pos(k) followed by
   - read_word returns exactly the word stored at bytes [k*nb, (k+1)*nb) when those bytes
     exist, and Err otherwise (contents untouched, position = length);
   - write_word(w) puts the nb bytes of w exactly at [k*nb, (k+1)*nb), changes no other byte,
     zero-fills a gap beyond the old end, and the length becomes max(len, (k+1)*nb).
   hypotheses forced by the proof: k * nb < 2^64 (beyond that set_word_pos panics on overflow
   in a debug build: ad_seek_fail) and, for the write, (k+1) * nb <= isize::MAX (beyond that
   Vec::reserve panics: last conjunct). *)
Theorem seek_addresses_word : forall W c k,
  word_size W -> k * (W / 8) < W64 ->
  let nb := W / 8 in
  let c1 := {| cu_bytes := cu_bytes c; cu_pos := k * nb |} in
  ad_seek W k c = Ok c1 /\
  ((k + 1) * nb <= cur_len c ->
     ad_read W c1 = (Ok (word_at W k (cu_bytes c)),
                     {| cu_bytes := cu_bytes c; cu_pos := (k + 1) * nb |})) /\
  (cur_len c < (k + 1) * nb ->
     ad_read W c1 = (Err, {| cu_bytes := cu_bytes c; cu_pos := cur_len c |})) /\
  (forall w, (k + 1) * nb <= ISIZE_MAX ->
     exists bs',
       ad_write W w c1 = Ok {| cu_bytes := bs'; cu_pos := (k + 1) * nb |} /\
       N.of_nat (length bs') = N.max (cur_len c) ((k + 1) * nb) /\
       slice bs' (k * nb) nb = word_bytes LE W w /\
       forall i, nth i bs' 0 =
                 if (k * nb <=? N.of_nat i) && (N.of_nat i <? (k + 1) * nb)
                 then nth (i - N.to_nat (k * nb)) (word_bytes LE W w) 0
                 else nth i (cu_bytes c) 0) /\
  (forall w, ISIZE_MAX < (k + 1) * nb -> ad_write W w c1 = Fail).
Proof.
  intros W c k HW Hk nb c1.
  assert (Hnb : 1 <= nb <= 16) by (apply word_size_nb; exact HW).
  assert (Hk1 : (k + 1) * nb = k * nb + nb) by lia.
  split; [apply ad_seek_ok; exact Hk|].
  split; [|split; [|split]].
  - intro Hin. rewrite ad_read_ok; [|exact HW|unfold c1, cur_len in *; cbn [cu_pos cu_bytes]; lia].
    unfold word_at, c1. cbn [cu_pos cu_bytes]. fold nb. rewrite Hk1. reflexivity.
  - intro Hout. rewrite ad_read_err; [|exact HW|unfold c1, cur_len in *; cbn [cu_pos cu_bytes]; lia].
    reflexivity.
  - intros w Hcap.
    exists (splice (cu_bytes c) (N.to_nat (k * nb)) (word_bytes LE W w)).
    split; [|split; [|split]].
    + rewrite ad_write_ok; [|unfold c1; cbn [cu_pos]; fold nb; lia].
      unfold c1. cbn [cu_pos cu_bytes]. fold nb. rewrite Hk1. reflexivity.
    + rewrite splice_length, word_bytes_length. fold nb. unfold cur_len. lia.
    + unfold slice. pose proof (slice_splice (cu_bytes c) (N.to_nat (k * nb)) (word_bytes LE W w)) as HS.
      rewrite word_bytes_length in HS. exact HS.
    + intro i. rewrite splice_nth, word_bytes_length. fold nb.
      destruct ((N.to_nat (k * nb) <=? i)%nat && (i <? N.to_nat (k * nb) + N.to_nat nb)%nat) eqn:E1;
      destruct ((k * nb <=? N.of_nat i) && (N.of_nat i <? (k + 1) * nb)) eqn:E2;
        try reflexivity; lia.
  - intros w Hcap. apply ad_write_fail. unfold c1. cbn [cu_pos]. fold nb. lia.
Qed.

(* the bytes of a word image below 256, and the word read back below 2^W *)
Lemma of_le_bytes_bound : forall bs, bytes_ok bs -> of_le_bytes bs < 256 ^ N.of_nat (length bs).
Proof.
  induction bs as [|b r IH]; intro H.
  - simpl. change (N.of_nat 0) with 0. rewrite N.pow_0_r. lia.
  - inversion H as [|b' r' Hb Hr]; subst. specialize (IH Hr).
    cbn [of_le_bytes length]. rewrite Nat2N.inj_succ, N.pow_succ_r'. lia.
Qed.

Lemma slice_length_in bs pos nb :
  pos + nb <= N.of_nat (length bs) -> length (slice bs pos nb) = N.to_nat nb.
Proof. intro H. unfold slice. rewrite firstn_length, skipn_length. lia. Qed.

Theorem read_word_bound : forall W c w c',
  word_size W -> bytes_ok (cu_bytes c) -> ad_read W c = (Ok w, c') -> w < 2 ^ W.
Proof.
  intros W c w c' HW Hok H. destruct (ad_read_cases W c HW) as [[Hin E]|[Hout E]];
    rewrite E in H; [|discriminate].
  inversion H; subst. rewrite <- (pow256_bytes W) by apply HW.
  rewrite <- (slice_length_in (cu_bytes c) (cu_pos c) (W / 8)) by exact Hin.
  apply of_le_bytes_bound. unfold slice. apply bytes_ok_firstn, bytes_ok_skipn. exact Hok.
Qed.

(* ------------------------------------------------------------------ *)
(* read_after_write: write w at word k, seek back to k, read: w *)
Theorem read_after_write : forall W c k w,
  word_size W -> (k + 1) * (W / 8) <= ISIZE_MAX -> w < 2 ^ W ->
  exists c1 c2 c3,
    ad_seek W k c = Ok c1 /\ ad_write W w c1 = Ok c2 /\ ad_seek W k c2 = Ok c3 /\
    ad_read W c3 = (Ok w, {| cu_bytes := cu_bytes c2; cu_pos := (k + 1) * (W / 8) |}) /\
    cur_len c2 = N.max (cur_len c) ((k + 1) * (W / 8)).
Proof.
  intros W c k w HW Hcap Hw.
  assert (Hnb : 1 <= W / 8 <= 16) by (apply word_size_nb; exact HW).
  assert (Hk : k * (W / 8) < W64) by (unfold W64, ISIZE_MAX in *; lia).
  destruct (seek_addresses_word W c k HW Hk) as (S1 & _ & _ & Wr & _).
  destruct (Wr w Hcap) as (bs' & W1 & W2 & W3 & _).
  set (c2 := {| cu_bytes := bs'; cu_pos := (k + 1) * (W / 8) |}) in *.
  destruct (seek_addresses_word W c2 k HW Hk) as (S2 & Rd & _).
  eexists _, c2, _. split; [exact S1|]. split; [exact W1|]. split; [exact S2|].
  split; [|exact W2].
  rewrite Rd by (unfold cur_len, c2; cbn [cu_bytes]; lia).
  unfold word_at, c2. cbn [cu_bytes]. rewrite W3.
  rewrite of_le_bytes_word_bytes by apply HW. rewrite N.mod_small by exact Hw. reflexivity.
Qed.

(* ------------------------------------------------------------------ *)
(* failed_read_harmless: a failed read (ragged tail, or position at/after the end) leaves the
   contents alone; it moves the position to the end of the data, and a following
   set_word_pos erases even that: the state after the seek is the one reached without the
   failed read, hence so is the rest of any history. *)
Lemma run_cursor_opt_cons W c op r :
  run_cursor_opt W c (op :: r) =
  match cursor_step W c op with
  | Some (g, c') => option_map (cons g) (run_cursor_opt W c' r)
  | None => None
  end.
Proof. reflexivity. Qed.

Lemma cursor_step_read W c op : nth 0 op 0 = 0 ->
  cursor_step W c op =
  match ad_read W c with
  | (Ok w, c') => Some ([0; w], c') | (Err, c') => Some ([1], c') | _ => None end.
Proof. intro H. unfold cursor_step. rewrite H. reflexivity. Qed.

Lemma cursor_step_write W c op : nth 0 op 0 = 1 ->
  cursor_step W c op =
  match ad_write W (nth 1 op 0) c with
  | Ok c' => Some ([0; 0], c') | Err => Some ([1], c) | _ => None end.
Proof. intro H. unfold cursor_step. rewrite H. reflexivity. Qed.

Lemma cursor_step_pos W c op : nth 0 op 0 = 2 ->
  cursor_step W c op = Some ([0; ad_pos W c], c).
Proof. intro H. unfold cursor_step. rewrite H. reflexivity. Qed.

Lemma cursor_step_seek W c op : 3 <= nth 0 op 0 ->
  cursor_step W c op =
  match ad_seek W (nth 1 op 0 mod W64) c with
  | Ok c' => Some ([0; 0], c') | Err => Some ([1], c) | _ => None end.
Proof.
  intro H. unfold cursor_step.
  destruct (nth 0 op 0) as [|[[p|p|]|[p|p|]|]]; try reflexivity; lia.
Qed.

Lemma op_cases (op : list N) :
  nth 0 op 0 = 0 \/ nth 0 op 0 = 1 \/ nth 0 op 0 = 2 \/ 3 <= nth 0 op 0.
Proof. lia. Qed.

Theorem failed_read_harmless : forall W c c',
  word_size W -> ad_read W c = (Err, c') ->
  cur_len c < cu_pos c + W / 8 /\
  cu_bytes c' = cu_bytes c /\ cu_pos c' = cur_len c /\
  (forall k, ad_seek W k c' = ad_seek W k c) /\
  (forall k ops, run_cursor W c' ([3; k] :: ops) = run_cursor W c ([3; k] :: ops)).
Proof.
  intros W c c' HW H. destruct (ad_read_cases W c HW) as [[Hin E]|[Hout E]];
    rewrite E in H; [discriminate|].
  inversion H; subst. cbn [cu_bytes cu_pos].
  assert (HS : forall k, ad_seek W k {| cu_bytes := cu_bytes c; cu_pos := cur_len c |} = ad_seek W k c).
  { intro k. unfold ad_seek, cur_seek. reflexivity. }
  split; [exact Hout|]. split; [reflexivity|]. split; [reflexivity|]. split; [exact HS|].
  intros k ops. unfold run_cursor. rewrite !run_cursor_opt_cons.
  rewrite !cursor_step_seek by (cbn [nth]; lia). unfold ad_seek, cur_seek. cbn [cu_bytes].
  destruct (adapter_seek W (nth 1 [3; k] 0 mod W64)); reflexivity.
Qed.

(* ------------------------------------------------------------------ *)
(* histories as sequences of steps: the groups pushed and the final state *)
Fixpoint run_steps (W : N) (c : cur) (ops : list (list N)) : option (list (list N) * cur) :=
  match ops with
  | [] => Some ([], c)
  | op :: r =>
      match cursor_step W c op with
      | Some (g, c') =>
          match run_steps W c' r with
          | Some (gs, c'') => Some (g :: gs, c'')
          | None => None
          end
      | None => None
      end
  end.

Lemma run_cursor_opt_steps : forall W ops c,
  run_cursor_opt W c ops =
  match run_steps W c ops with
  | Some (gs, c') => Some (gs ++ [99 :: cu_bytes c'])
  | None => None
  end.
Proof.
  intros W ops. induction ops as [|op r IH]; intro c; [reflexivity|].
  rewrite run_cursor_opt_cons. cbn [run_steps].
  destruct (cursor_step W c op) as [[g c']|]; [|reflexivity].
  rewrite IH. destruct (run_steps W c' r) as [[gs c'']|]; reflexivity.
Qed.

(* a successful read or write advances the byte position by exactly one word *)
Lemma transfer_step W c op g c' :
  word_size W -> nth 0 op 0 = 0 \/ nth 0 op 0 = 1 ->
  cursor_step W c op = Some (g, c') -> hd 1 g = 0 ->
  cu_pos c' = cu_pos c + W / 8.
Proof.
  intros HW [H0|H1] HS Hg.
  - rewrite cursor_step_read in HS by exact H0.
    destruct (ad_read_cases W c HW) as [[_ E]|[_ E]]; rewrite E in HS; inversion HS; subst.
    + reflexivity.
    + discriminate Hg.
  - rewrite cursor_step_write in HS by exact H1.
    destruct (N.le_gt_cases (cu_pos c + W / 8) ISIZE_MAX) as [Hc|Hc].
    + rewrite ad_write_ok in HS by exact Hc. inversion HS; subst. reflexivity.
    + rewrite ad_write_fail in HS by exact Hc. discriminate HS.
Qed.

(* pos_counts_words: from a word-aligned position k * nb (position 0: k = 0; right after
   set_word_pos(k): see the corollary), after n reads/writes that all succeeded, word_pos
   reports k + n: the positions reported equal the number of words transferred. *)
Theorem pos_counts_words : forall W ops c k gs c',
  word_size W -> cu_pos c = k * (W / 8) ->
  Forall (fun op => nth 0 op 0 = 0 \/ nth 0 op 0 = 1) ops ->      (* reads and writes only *)
  run_steps W c ops = Some (gs, c') ->
  Forall (fun g => hd 1 g = 0) gs ->                               (* all of them succeeded *)
  cu_pos c' = (k + N.of_nat (length ops)) * (W / 8) /\
  ad_pos W c' = k + N.of_nat (length ops).
Proof.
  intros W ops c k gs c' HW Hpos Hops Hrun Hgs.
  assert (Hnb : 1 <= W / 8 <= 16) by (apply word_size_nb; exact HW).
  assert (HP : cu_pos c' = (k + N.of_nat (length ops)) * (W / 8)).
  { revert c k gs Hpos Hrun Hgs. induction Hops as [|op r Hop _ IH]; intros c k gs Hpos Hrun Hgs.
    - cbn [run_steps] in Hrun. inversion Hrun; subst. cbn [length]. rewrite Hpos. f_equal. lia.
    - cbn [run_steps] in Hrun.
      destruct (cursor_step W c op) as [[g c1]|] eqn:E1; [|discriminate].
      destruct (run_steps W c1 r) as [[gs1 c2]|] eqn:E2; [|discriminate].
      inversion Hrun; subst. inversion Hgs as [|g' gs' Hg Hgs1]; subst.
      pose proof (transfer_step W c op g c1 HW Hop E1 Hg) as HT.
      rewrite (IH c1 (k + 1) gs1); [cbn [length]; f_equal; lia| |exact E2|exact Hgs1].
      rewrite HT, Hpos. lia. }
  split; [exact HP|]. unfold ad_pos, cur_word_pos. rewrite HP.
  apply word_pos_whole; [apply HW|destruct HW; lia].
Qed.

Corollary pos_counts_words_after_seek : forall W ops c0 k c gs c',
  word_size W -> ad_seek W k c0 = Ok c ->
  Forall (fun op => nth 0 op 0 = 0 \/ nth 0 op 0 = 1) ops ->
  run_steps W c ops = Some (gs, c') ->
  Forall (fun g => hd 1 g = 0) gs ->
  ad_pos W c' = k + N.of_nat (length ops).
Proof.
  intros W ops c0 k c gs c' HW HS Hops Hrun Hgs.
  apply (pos_counts_words W ops c k gs c'); auto.
  unfold ad_seek, adapter_seek, mul64 in HS.
  destruct (k * (W / 8) <? W64); [|discriminate]. inversion HS; subst. reflexivity.
Qed.

(* on a ragged tail the failed read leaves the position at the end of the data, which
   word_pos rounds UP: length = q * nb + r with 0 < r < nb reports q + 1 *)
Theorem pos_after_failed_read : forall W c c' q r,
  word_size W -> ad_read W c = (Err, c') ->
  cur_len c = q * (W / 8) + r -> 0 < r < W / 8 ->
  ad_pos W c' = q + 1.
Proof.
  intros W c c' q r HW H Hlen Hr.
  destruct (failed_read_harmless W c c' HW H) as (_ & _ & Hp & _).
  unfold ad_pos, cur_word_pos. rewrite Hp, Hlen.
  apply word_pos_partial; [apply HW|destruct HW; lia|exact Hr].
Qed.

(* ------------------------------------------------------------------ *)
(* contents stay bytes *)
Theorem step_bytes_ok : forall W c op g c',
  bytes_ok (cu_bytes c) -> cursor_step W c op = Some (g, c') -> bytes_ok (cu_bytes c').
Proof.
  intros W c op g c' Hok HS.
  destruct (op_cases op) as [H|[H|[H|H]]].
  - rewrite cursor_step_read in HS by exact H. unfold ad_read, cur_read_exact in HS.
    destruct ((W / 8 =? 0) || (cu_pos c + W / 8 <=? cur_len c));
      cbn [omap] in HS; inversion HS; subst; exact Hok.
  - rewrite cursor_step_write in HS by exact H. unfold ad_write, cur_write_all in HS.
    cbv zeta in HS.
    destruct (ISIZE_MAX <? cu_pos c + N.of_nat (length (word_bytes LE W (nth 1 op 0))));
      inversion HS; subst. cbn [cu_bytes].
    apply splice_ok; [exact Hok|apply le_bytes_ok].
  - rewrite cursor_step_pos in HS by exact H. inversion HS; subst. exact Hok.
  - rewrite cursor_step_seek in HS by exact H. unfold ad_seek, cur_seek in HS.
    destruct (adapter_seek W (nth 1 op 0 mod W64)); inversion HS; subst. exact Hok.
Qed.

Theorem run_steps_bytes_ok : forall W ops c gs c',
  bytes_ok (cu_bytes c) -> run_steps W c ops = Some (gs, c') -> bytes_ok (cu_bytes c').
Proof.
  intros W ops. induction ops as [|op r IH]; intros c gs c' Hok Hrun; cbn [run_steps] in Hrun.
  - inversion Hrun; subst. exact Hok.
  - destruct (cursor_step W c op) as [[g c1]|] eqn:E1; [|discriminate].
    destruct (run_steps W c1 r) as [[gs1 c2]|] eqn:E2; [|discriminate].
    inversion Hrun; subst. apply (IH c1 gs1); [|exact E2].
    apply (step_bytes_ok W c op g c1); assumption.
Qed.

(* ------------------------------------------------------------------ *)
(* no panics.  The statement "run_cursor never produces Fail" is FALSE without bounds:
   set_word_pos(2^61) on u64 words overflows the u64 multiplication (ex_fail_seek), and a
   write_word at a byte position beyond isize::MAX makes Vec::reserve panic (ex_fail_write).
   hypothesis forced by the proof: the data, the initial position and every seek target
   lie below a bound B with B + (number of ops) * nb <= isize::MAX. *)
Definition good_group (g : list N) : Prop := g = [1] \/ exists v, g = [0; v].

Lemma step_no_fail W c op B :
  word_size W -> cur_len c <= B -> cu_pos c <= B -> B + W / 8 <= ISIZE_MAX ->
  (3 <= nth 0 op 0 -> (nth 1 op 0 mod W64) * (W / 8) <= B) ->
  exists g c', cursor_step W c op = Some (g, c') /\ good_group g /\
               cur_len c' <= B + W / 8 /\ cu_pos c' <= B + W / 8.
Proof.
  intros HW Hlen Hpos HB Hseek.
  assert (Hnb : 1 <= W / 8 <= 16) by (apply word_size_nb; exact HW).
  destruct (op_cases op) as [H|[H|[H|H]]].
  - rewrite cursor_step_read by exact H.
    destruct (ad_read_cases W c HW) as [[Hin E]|[Hout E]]; rewrite E.
    + eexists _, _. split; [reflexivity|]. split; [right; eexists; reflexivity|].
      unfold cur_len in *. cbn [cu_bytes cu_pos]. lia.
    + eexists _, _. split; [reflexivity|]. split; [left; reflexivity|].
      unfold cur_len in *. cbn [cu_bytes cu_pos]. lia.
  - rewrite cursor_step_write by exact H. rewrite ad_write_ok by lia.
    eexists _, _. split; [reflexivity|]. split; [right; eexists; reflexivity|].
    unfold cur_len in *. cbn [cu_bytes cu_pos].
    rewrite splice_length, word_bytes_length. lia.
  - rewrite cursor_step_pos by exact H.
    eexists _, _. split; [reflexivity|]. split; [right; eexists; reflexivity|]. lia.
  - rewrite cursor_step_seek by exact H. specialize (Hseek H).
    rewrite ad_seek_ok by (unfold W64, ISIZE_MAX in *; lia).
    eexists _, _. split; [reflexivity|]. split; [right; eexists; reflexivity|].
    unfold cur_len in *. cbn [cu_bytes cu_pos]. lia.
Qed.

Theorem run_steps_no_fail : forall W ops c B,
  word_size W -> cur_len c <= B -> cu_pos c <= B ->
  Forall (fun op => 3 <= nth 0 op 0 -> (nth 1 op 0 mod W64) * (W / 8) <= B) ops ->
  B + N.of_nat (length ops) * (W / 8) <= ISIZE_MAX ->
  exists gs c', run_steps W c ops = Some (gs, c') /\ Forall good_group gs /\
                length gs = length ops.
Proof.
  intros W ops. induction ops as [|op r IH]; intros c B HW Hlen Hpos Hops HB.
  - exists [], c. split; [reflexivity|]. split; [constructor|reflexivity].
  - inversion Hops as [|op' r' Hop Hr]; subst.
    assert (Hnb : 1 <= W / 8 <= 16) by (apply word_size_nb; exact HW).
    cbn [length] in HB.
    destruct (step_no_fail W c op B HW Hlen Hpos) as (g & c1 & E1 & Hg & Hl1 & Hp1);
      [lia|exact Hop|].
    destruct (IH c1 (B + W / 8) HW Hl1 Hp1) as (gs & c2 & E2 & Hgs & Hn).
    + apply Forall_forall. intros o Ho Ho3. rewrite Forall_forall in Hr.
      specialize (Hr o Ho Ho3). lia.
    + lia.
    + exists (g :: gs), c2. cbn [run_steps]. rewrite E1, E2.
      split; [reflexivity|]. split; [constructor; assumption|cbn [length]; lia].
Qed.

(* every group of the output is [0; v] or [1], followed by the final 99 group: never [2] *)
Theorem run_cursor_no_fail : forall W ops c B,
  word_size W -> cur_len c <= B -> cu_pos c <= B ->
  Forall (fun op => 3 <= nth 0 op 0 -> (nth 1 op 0 mod W64) * (W / 8) <= B) ops ->
  B + N.of_nat (length ops) * (W / 8) <= ISIZE_MAX ->
  exists gs final,
    run_cursor W c ops = gs ++ [99 :: final] /\ Forall good_group gs /\
    length gs = length ops /\ (bytes_ok (cu_bytes c) -> bytes_ok final).
Proof.
  intros W ops c B HW Hlen Hpos Hops HB.
  destruct (run_steps_no_fail W ops c B HW Hlen Hpos Hops HB) as (gs & c' & E & Hgs & Hn).
  exists gs, (cu_bytes c'). unfold run_cursor. rewrite run_cursor_opt_steps, E.
  split; [reflexivity|]. split; [exact Hgs|]. split; [exact Hn|].
  intro Hok. apply (run_steps_bytes_ok W ops c gs c'); assumption.
Qed.

(* ------------------------------------------------------------------ *)
(* Examples *)

Definition ex_d19 : list N := [1;2;3;4;5;6;7;8;9;10;11;12;13;14;15;16;17;18;19].
Definition ex_c19 : cur := {| cu_bytes := ex_d19; cu_pos := 0 |}.

Example ex_word_sizes :
  word_size 8 /\ word_size 16 /\ word_size 32 /\ word_size 64 /\ word_size 128 /\ bytes_ok ex_d19.
Proof. unfold word_size. repeat split; try lia. repeat constructor. Qed.

(* W = 64 over 19 bytes (two words + 3 stray bytes): read, read, read (error on the ragged
   tail), word_pos (19 bytes round up to 3), set_word_pos(3), write_word, word_pos (= 4):
   the final image has the word at byte 24, bytes 19..23 zero-filled *)
Example ex_ragged_history :
  cursor_case 64 ex_d19 [[0]; [0]; [0]; [2]; [3; 3]; [1; 18446744073709551614]; [2]] =
  [[0; 578437695752307201]; [0; 1157159078456920585]; [1]; [0; 3]; [0; 0]; [0; 0]; [0; 4];
   [99; 1; 2; 3; 4; 5; 6; 7; 8; 9; 10; 11; 12; 13; 14; 15; 16; 17; 18; 19;
        0; 0; 0; 0; 0; 254; 255; 255; 255; 255; 255; 255; 255]].
Proof. vm_compute. reflexivity. Qed.

(* the same, as facts about the final image *)
Example ex_ragged_image :
  exists gs final,
    cursor_case 64 ex_d19 [[0]; [0]; [0]; [2]; [3; 3]; [1; 18446744073709551614]; [2]]
      = gs ++ [99 :: final] /\
    last gs [] = [0; 4] /\ length final = 32%nat /\
    slice final 19 5 = [0; 0; 0; 0; 0] /\ word_at 64 3 final = 18446744073709551614 /\
    firstn 19 final = ex_d19.
Proof.
  eexists [_; _; _; _; _; _; _], _. split; [vm_compute; reflexivity|].
  repeat split; vm_compute; reflexivity.
Qed.

(* hypotheses of seek_addresses_word / read_after_write / failed_read_harmless /
   pos_counts_words are satisfiable on that instance *)
Example ex_seek_addresses_word_hyps :
  word_size 64 /\ 3 * (64 / 8) < W64 /\ (1 + 1) * (64 / 8) <= cur_len ex_c19 /\
  cur_len ex_c19 < (2 + 1) * (64 / 8) /\ (3 + 1) * (64 / 8) <= ISIZE_MAX /\
  18446744073709551614 < 2 ^ 64.
Proof. unfold word_size. vm_compute. repeat split; discriminate. Qed.

Example ex_failed_read_hyps :
  ad_read 64 {| cu_bytes := ex_d19; cu_pos := 16 |} = (Err, {| cu_bytes := ex_d19; cu_pos := 19 |}) /\
  cur_len ex_c19 = 2 * (64 / 8) + 3 /\ 0 < 3 < 64 / 8.
Proof. vm_compute. repeat split; reflexivity. Qed.

Example ex_pos_counts_hyps :
  let ops := [[0]; [1; 7]; [1; 9]] in
  let c := {| cu_bytes := ex_d19; cu_pos := 1 * (64 / 8) |} in
  Forall (fun op => nth 0 op 0 = 0 \/ nth 0 op 0 = 1) ops /\
  exists gs c', run_steps 64 c ops = Some (gs, c') /\ Forall (fun g => hd 1 g = 0) gs /\
                ad_pos 64 c' = 1 + 3 /\ cur_len c' = 32.
Proof.
  cbv zeta. split; [repeat (apply Forall_cons; [cbn [nth]; auto|]); apply Forall_nil|].
  do 2 eexists. split; [vm_compute; reflexivity|]. split; [repeat constructor|].
  split; vm_compute; reflexivity.
Qed.

Example ex_no_fail_hyps :
  let ops := [[0]; [0]; [0]; [2]; [3; 3]; [1; 18446744073709551614]; [2]] in
  cur_len ex_c19 <= 24 /\ cu_pos ex_c19 <= 24 /\
  Forall (fun op => 3 <= nth 0 op 0 -> (nth 1 op 0 mod W64) * (64 / 8) <= 24) ops /\
  24 + N.of_nat (length ops) * (64 / 8) <= ISIZE_MAX.
Proof.
  cbv zeta. split; [vm_compute; discriminate|]. split; [vm_compute; discriminate|].
  split; [|vm_compute; discriminate].
  repeat constructor; cbn [nth]; intro H; vm_compute in H |- *; try discriminate;
    exfalso; apply H; reflexivity.
Qed.

(* counterexamples to an unconditional "never Fail": *)
(* set_word_pos(2^61) on u64 words: 2^61 * 8 overflows u64 (panic with overflow checks) *)
Example ex_fail_seek :
  run_cursor 64 {| cu_bytes := []; cu_pos := 0 |} [[2]; [3; 2305843009213693952]; [2]] = [[2]].
Proof. vm_compute. reflexivity. Qed.

(* write_word at byte position isize::MAX: Vec::reserve panics with "capacity overflow" *)
Example ex_fail_write :
  run_cursor 8 {| cu_bytes := []; cu_pos := 0 |} [[3; 9223372036854775807]; [1; 5]] = [[2]].
Proof. vm_compute. reflexivity. Qed.

(* a read from beyond the end fails and moves the position BACK to the end of the data
   (std >= 1.80; checked against std 1.95): the following write lands at byte 0 *)
Example ex_read_beyond :
  run_cursor 8 {| cu_bytes := []; cu_pos := 0 |} [[3; 9223372036854775807]; [0]; [2]; [1; 5]]
    = [[0; 0]; [1]; [0; 0]; [0; 0]; [99; 5]] /\
  cursor_case 32 [1; 2; 3; 4; 5; 300] [[3; 5]; [0]; [2]; [0]; [3; 1]; [0]; [0]; [2]]
    = [[0; 0]; [1]; [0; 2]; [1]; [0; 0]; [1]; [1]; [0; 2]; [99; 1; 2; 3; 4; 5; 44]] /\
  run_cursor_beyond 32 {| cu_bytes := [1; 2; 3; 4; 5; 44]; cu_pos := 0 |}
    [[3; 5]; [0]; [2]; [0]; [3; 1]; [0]; [0]; [2]] = true /\
  run_cursor_beyond 32 {| cu_bytes := [1; 2; 3; 4; 5; 44]; cu_pos := 0 |} [[0]; [0]; [0]; [2]] = false.
Proof. repeat split; vm_compute; reflexivity. Qed.
