(* DispatchProofs.v — every dispatch mechanism performs the code it names (C10) and the
   identifier / equality part of C16.  The dispatch tables are GENERATED from the Rust match arms;
   the finite facts about them are established by computation on every run and lifted to all
   parameters by generic lemmas about first-match arm lists; the codes that different arms may
   legitimately name for one code (zeta_1 = pi_0 = exp-Golomb_0 = gamma, Rice_0 = Golomb_1 = unary,
   Golomb_(2^j) = Rice_j, zeta3-with-table = zeta_3) are proved to have identical codewords. *)
From DSI Require Import Base Prog Codes CodeDefs BitFacts CodesProofs CodesProofs2 CodesProofs3 GenProofs
  DispatchTypes Dispatch Run CodesSummary.
From DSI.Gen Require Import GenTables GenParams GenDispatch.
From Coq Require Import ZifyBool ZifyNat ZifyN.
Ltac Zify.zify_post_hook ::= Z.div_mod_to_equations.
Arguments N.add : simpl never. Arguments N.sub : simpl never. Arguments N.mul : simpl never.
Arguments N.div : simpl never. Arguments N.modulo : simpl never. Arguments N.pow : simpl never.
Arguments N.eqb : simpl never. Arguments N.ltb : simpl never. Arguments N.leb : simpl never.
Arguments N.log2 : simpl never. Arguments N.of_nat : simpl never. Arguments N.to_nat : simpl never.

(* ------------------------------------------------------------------ aliasing of codewords *)
Lemma fld_zero E v : fld E v 0 = [].
Proof. unfold fld. destruct E; reflexivity. Qed.

Lemma mb_pow2 E x j : x < 2 ^ j -> def_minimal_binary E x (2 ^ j) = fld E x j.
Proof.
  intros H. unfold def_minimal_binary. rewrite N.log2_pow2 by lia.
  replace (2 ^ (j + 1) - 2 ^ j) with (2 ^ j) by (rewrite N.pow_add_r; change (2 ^ 1) with 2; lia).
  destruct (x <? 2 ^ j) eqn:Hc; [reflexivity | lia].
Qed.

Lemma rice0_unary E n : def_rice E 0 n = unary n.
Proof. unfold def_rice. rewrite N.pow_0_r, N.div_1_r, fld_zero, app_nil_r. reflexivity. Qed.
Lemma golomb_pow2_rice E j n : def_golomb E (2 ^ j) n = def_rice E j n.
Proof.
  unfold def_golomb, def_rice. f_equal. apply mb_pow2. apply N.mod_lt. apply N.pow_nonzero. lia.
Qed.
Lemma golomb1_unary E n : def_golomb E 1 n = unary n.
Proof. change 1 with (2 ^ 0) at 1. rewrite golomb_pow2_rice. apply rice0_unary. Qed.
Lemma pi0_gamma E n : def_pi E 0 n = def_gamma E n.
Proof. unfold def_pi, def_gamma. rewrite rice0_unary. reflexivity. Qed.
Lemma expg0_gamma E n : def_exp_golomb E 0 n = def_gamma E n.
Proof. unfold def_exp_golomb. rewrite N.pow_0_r, N.div_1_r, fld_zero, app_nil_r. reflexivity. Qed.
Lemma zeta1_gamma E n : n < U64MAX -> cw_zeta E 1 n = def_gamma E n.
Proof.
  intros Hn. unfold cw_zeta, def_gamma. rewrite N.div_1_r. f_equal.
  set (l := N.log2 (n + 1)).
  assert (n + 1 < W64) as H1 by (unfold U64MAX in Hn; unfold W64; lia).
  pose proof (log2_lt_64 (n + 1) ltac:(lia) H1) as HL. fold l in HL.
  pose proof (log2_bounds (n + 1) ltac:(lia)) as [A B]. fold l in A, B.
  assert (zeta_u l 1 = 2 ^ l) as ->.
  { unfold zeta_u. rewrite !N.mul_1_r. destruct (l + 1 <? 64) eqn:Hc.
    - rewrite N.pow_add_r. change (2 ^ 1) with 2. lia.
    - assert (l = 63) as -> by lia. reflexivity. }
  rewrite N.mul_1_r. apply mb_pow2. rewrite N.pow_add_r in B. change (2 ^ 1) with 2 in B. lia.
Qed.

(* ------------------------------------------------------------------ normal form of a (code id, parameter) *)
Definition is_pow2 (p : N) : bool := (1 <? p) && (p =? 2 ^ N.log2 p).
Definition norm (ip : N * N) : N * N :=
  let '(id, p) := ip in
  if id =? 12 then (6, 3)
  else if (id =? 6) && (p =? 1) then (1, 0)
  else if (id =? 7) && (p =? 0) then (1, 0)
  else if (id =? 9) && (p =? 0) then (1, 0)
  else if (id =? 10) && (p =? 0) then (0, 0)
  else if (id =? 8) && (p =? 1) then (0, 0)
  else if (id =? 8) && is_pow2 p then (10, N.log2 p)
  else if (id =? 0) || (id =? 1) || (id =? 2) || (id =? 3) || (id =? 4) || (id =? 5) then (id, 0)
  else (id, p).

Lemma norm_sound E id p v : valid id p v ->
  valid (fst (norm (id, p))) (snd (norm (id, p))) v /\
  code_cw E (fst (norm (id, p))) (snd (norm (id, p))) v = code_cw E id p v.
Proof.
  intros H. unfold valid in H.
  destruct H as [[-> H]|[[-> H]|[[-> H]|[[-> H]|[[-> H]|[[-> H]|[[-> H]|[[-> H]|[[-> H]|[[-> H]|[[-> H]|[[-> H]|[-> H]]]]]]]]]]]]].
  all: unfold norm; cbn [N.eqb fst snd andb orb].
  1-6: (split; [unfold valid; repeat (first [left; split; [reflexivity | assumption] | right]) | reflexivity]).
  - (* zeta k *) destruct H as (H1 & H2 & H3).
    change (6 =? 12) with false. change (6 =? 6) with true. cbn [andb].
    destruct (p =? 1) eqn:Hp.
    + assert (p = 1) as -> by lia. cbn [fst snd code_cw]. split; [unfold valid; right; left; split; [reflexivity | assumption]|].
      symmetry. apply zeta1_gamma. exact H3.
    + change (6 =? 7) with false. change (6 =? 9) with false. change (6 =? 10) with false. change (6 =? 8) with false.
      cbn [andb orb N.eqb fst snd]. split; [|reflexivity].
      unfold valid. do 6 right. left. repeat split; assumption.
  - destruct H as (H1 & H2). change (7 =? 12) with false. change (7 =? 6) with false. change (7 =? 7) with true. cbn [andb].
    destruct (p =? 0) eqn:Hp.
    + assert (p = 0) as -> by lia. cbn [fst snd code_cw]. split; [unfold valid; right; left; split; [reflexivity | assumption]|].
      symmetry. apply pi0_gamma.
    + change (7 =? 9) with false. change (7 =? 10) with false. change (7 =? 8) with false. cbn [andb orb N.eqb fst snd].
      split; [|reflexivity]. unfold valid. do 7 right. left. repeat split; assumption.
  - (* golomb *) destruct H as (H1 & H2 & H3).
    change (8 =? 12) with false. change (8 =? 6) with false. change (8 =? 7) with false. change (8 =? 9) with false.
    change (8 =? 10) with false. change (8 =? 8) with true. cbn [andb].
    destruct (p =? 1) eqn:Hp.
    + assert (p = 1) as -> by lia. cbn [fst snd code_cw]. split; [unfold valid; left; split; [reflexivity | assumption]|].
      symmetry. apply golomb1_unary.
    + destruct (is_pow2 p) eqn:Hq.
      * unfold is_pow2 in Hq. apply andb_prop in Hq as [Hq1 Hq2].
        cbn [fst snd code_cw].
        assert (N.log2 p <= 63) as HL by (pose proof (log2_lt_64 p ltac:(lia) H2); lia).
        split; [unfold valid; do 10 right; left; repeat split; [exact HL | exact H3]|].
        assert (p = 2 ^ N.log2 p) as Hpp by lia. rewrite Hpp at 2. symmetry. apply golomb_pow2_rice.
      * cbn [andb orb N.eqb fst snd]. split; [|reflexivity]. unfold valid. do 8 right. left. repeat split; assumption.
  - destruct H as (H1 & H2). change (9 =? 12) with false. change (9 =? 6) with false. change (9 =? 7) with false.
    change (9 =? 9) with true. cbn [andb].
    destruct (p =? 0) eqn:Hp.
    + assert (p = 0) as -> by lia. cbn [fst snd code_cw]. split; [unfold valid; right; left; split; [reflexivity | assumption]|].
      symmetry. apply expg0_gamma.
    + change (9 =? 10) with false. change (9 =? 8) with false. cbn [andb orb N.eqb fst snd].
      split; [|reflexivity]. unfold valid. do 9 right. left. repeat split; assumption.
  - destruct H as (H1 & H2). change (10 =? 12) with false. change (10 =? 6) with false. change (10 =? 7) with false.
    change (10 =? 9) with false. change (10 =? 10) with true. cbn [andb].
    destruct (p =? 0) eqn:Hp.
    + assert (p = 0) as -> by lia. cbn [fst snd code_cw]. split; [unfold valid; left; split; [reflexivity | assumption]|].
      symmetry. apply rice0_unary.
    + change (10 =? 8) with false. cbn [andb orb N.eqb fst snd].
      split; [|reflexivity]. unfold valid. do 10 right. left. repeat split; assumption.
  - destruct H as (H1 & H2 & H3). cbn [andb orb N.eqb fst snd]. split; [|reflexivity].
    unfold valid. do 11 right. left. repeat split; assumption.
  - change (12 =? 12) with true. cbn [fst snd code_cw]. split; [|reflexivity]. unfold valid. do 6 right. left. repeat split; (lia || assumption).
Qed.

(* ------------------------------------------------------------------ calls *)
Definition cid (c : call) : N * N :=
  match ckind c with
  | KUnary => (0, 0) | KGamma => (1, 0) | KDelta => (2, 0) | KOmega => (3, 0)
  | KVByteBe => (4, 0) | KVByteLe => (5, 0) | KVByteAny => (4, 0)
  | KZeta => (6, carg c) | KZeta3 => (12, 0) | KPi => (7, carg c) | KGolomb => (8, carg c)
  | KExpGolomb => (9, carg c) | KRice => (10, carg c)
  end.
(* for length computations both VByte variants share one length function *)
Definition lnorm (ip : N * N) : N * N := let '(id, p) := norm ip in if id =? 5 then (4, p) else (id, p).

Definition pair_eqb (a b : N * N) : bool := (fst a =? fst b) && (snd a =? snd b).
Lemma pair_eqb_eq a b : pair_eqb a b = true -> a = b.
Proof. destruct a, b. unfold pair_eqb. cbn [fst snd]. intros H. apply andb_prop in H as [H1 H2]. f_equal; lia. Qed.

(* two calls perform the same code *)
Definition same_code (op : opkind) (a b : call) : bool :=
  match op with
  | OpLen => pair_eqb (lnorm (cid a)) (lnorm (cid b))
  | _ => negb (kind_eqb (ckind a) KVByteAny) && negb (kind_eqb (ckind b) KVByteAny) && pair_eqb (norm (cid a)) (norm (cid b))
  end.

(* the programs of a call are the selection functions of Run.v at "default method" flags *)
Lemma call_write_sel E D checks c v : kind_eqb (ckind c) KVByteAny = false ->
  call_write E the_tables D checks c v = sel_write E D checks (fst (cid c)) (snd (cid c)) 4 v.
Proof.
  destruct c as [k a]. destruct k; intros H; try discriminate H;
    cbv beta delta [call_read call_write sel_read sel_write cid ckind carg fst snd] iota; reflexivity.
Qed.
Lemma call_read_sel E D c : kind_eqb (ckind c) KVByteAny = false ->
  call_read E the_tables D c = sel_read E D (fst (cid c)) (snd (cid c)) 4.
Proof.
  destruct c as [k a]. destruct k; intros H; try discriminate H;
    cbv beta delta [call_read call_write sel_read sel_write cid ckind carg fst snd] iota; reflexivity.
Qed.
Lemma call_len_sel D c v :
  call_len the_tables D c v = sel_len D (fst (cid c)) (snd (cid c)) 4 v.
Proof.
  destruct c as [k a]. destruct k; cbv beta delta [call_len sel_len cid ckind carg fst snd] iota; reflexivity.
Qed.

Definition cvalid (c : call) (v : N) : Prop := valid (fst (cid c)) (snd (cid c)) v.
Definition ccw (E : endian) (c : call) (v : N) : bits := code_cw E (fst (cid c)) (snd (cid c)) v.

(* same_code is sound: same codewords on the common domain; hence same bits written, same values
   read, same lengths *)
Theorem same_code_cw E op a b v : op <> OpLen -> same_code op a b = true -> cvalid a v -> cvalid b v ->
  kind_eqb (ckind a) KVByteAny = false /\ kind_eqb (ckind b) KVByteAny = false /\ ccw E a v = ccw E b v.
Proof.
  intros Hop H Ha Hb. assert (negb (kind_eqb (ckind a) KVByteAny) && negb (kind_eqb (ckind b) KVByteAny)
                              && pair_eqb (norm (cid a)) (norm (cid b)) = true) as H'.
  { destruct op; [exact H | exact H | congruence]. }
  apply andb_prop in H' as [H' H3]. apply andb_prop in H' as [H1 H2].
  split; [destruct (kind_eqb (ckind a) KVByteAny); [discriminate | reflexivity]|].
  split; [destruct (kind_eqb (ckind b) KVByteAny); [discriminate | reflexivity]|].
  apply pair_eqb_eq in H3. unfold ccw, cvalid in *.
  destruct (cid a) as [ia pa], (cid b) as [ib pb]. cbn [fst snd] in *.
  destruct (norm_sound E ia pa v Ha) as [_ Ea]. destruct (norm_sound E ib pb v Hb) as [_ Eb].
  rewrite <- Ea, <- Eb, H3. reflexivity.
Qed.

Lemma len_45 D p v : sel_len D 5 p 4 v = sel_len D 4 p 4 v.
Proof. reflexivity. Qed.

Theorem same_code_len D a b v : same_code OpLen a b = true -> cvalid a v -> cvalid b v ->
  call_len the_tables D a v = call_len the_tables D b v.
Proof.
  intros H Ha Hb. cbn [same_code] in H. apply pair_eqb_eq in H.
  rewrite !call_len_sel. unfold cvalid in *.
  destruct (cid a) as [ia0 pa0], (cid b) as [ib0 pb0]. cbn [fst snd] in *.
  destruct (norm_sound BE _ _ v Ha) as [Va Ea]. destruct (norm_sound BE _ _ v Hb) as [Vb Eb].
  destruct (codes_correct BE D false _ _ 4 v Ha) as (_ & _ & La).
  destruct (codes_correct BE D false _ _ 4 v Hb) as (_ & _ & Lb).
  rewrite La, Lb. f_equal. rewrite <- Ea, <- Eb.
  unfold lnorm in H.
  destruct (norm (ia0, pa0)) as [ia pa] eqn:Na. destruct (norm (ib0, pb0)) as [ib pb] eqn:Nb.
  cbn [fst snd] in *.
  destruct (ia =? 5) eqn:Ca; destruct (ib =? 5) eqn:Cb; inversion H; subst.
  - assert (ia = 5) as -> by lia. assert (ib = 5) as -> by lia. reflexivity.
  - assert (ia = 5) as -> by lia.
    destruct (codes_correct BE D false 5 _ 4 v Va) as (_ & _ & L5).
    destruct (codes_correct BE D false 4 _ 4 v Vb) as (_ & _ & L4).
    rewrite len_45 in L5. rewrite L5 in L4. injection L4 as HL. first [exact HL | symmetry; exact HL].
  - assert (ib = 5) as -> by lia.
    destruct (codes_correct BE D false 4 _ 4 v Va) as (_ & _ & L4).
    destruct (codes_correct BE D false 5 _ 4 v Vb) as (_ & _ & L5).
    rewrite len_45 in L5. rewrite L5 in L4. injection L4 as HL. first [exact HL | symmetry; exact HL].
  - reflexivity.
Qed.

(* ------------------------------------------------------------------ compile-time constants *)
Definition ops3 : list opkind := [OpRead; OpWrite; OpLen].
Fixpoint nrange (n : nat) : list N := match n with O => [] | S m => nrange m ++ [N.of_nat m] end.
Lemma nrange_In n i : i < N.of_nat n -> In i (nrange n).
Proof.
  induction n as [|n IH]; intros H; [lia|]. cbn [nrange]. apply in_or_app.
  destruct (N.eq_dec i (N.of_nat n)) as [->|Hne]; [right; left; reflexivity | left; apply IH; lia].
Qed.

Definition const_ok (id : N) : bool :=
  forallb (fun op => match const_call op id, from_code_const id with
                     | Some cl, Some c => same_code op cl (direct_call c)
                     | _, _ => false end) ops3.
Lemma consts_ok : forallb const_ok (nrange 51) = true.
Proof. vm_compute. reflexivity. Qed.

Theorem const_dispatch id op : id <= 50 ->
  exists cl c, const_call op id = Some cl /\ from_code_const id = Some c /\ same_code op cl (direct_call c) = true.
Proof.
  intros H. pose proof consts_ok as HH. rewrite forallb_forall in HH.
  specialize (HH id (nrange_In 51 id ltac:(lia))). unfold const_ok in HH. rewrite forallb_forall in HH.
  assert (In op ops3) as Hin by (destruct op; cbn; auto).
  specialize (HH op Hin).
  destruct (const_call op id) as [cl|]; [|discriminate]. destruct (from_code_const id) as [c|]; [|discriminate].
  exists cl, c. auto.
Qed.

Definition keys_le50 (l : list (N * call)) : bool := forallb (fun '(k, _) => k <=? 50) l.
Lemma assocN_none {A} (l : list (N * A)) id : forallb (fun '(k, _) => k <=? 50) l = true -> 50 < id -> assocN l id = None.
Proof.
  induction l as [|[k a] r IH]; intros H Hid; [reflexivity|]. cbn in H. apply andb_prop in H as [H1 H2].
  cbn [assocN]. destruct (k =? id) eqn:Hk; [lia | apply IH; assumption].
Qed.
Theorem const_out_of_range id op : 50 < id -> const_call op id = None /\ from_code_const id = None.
Proof.
  intros H. split.
  - unfold const_call. destruct op; apply assocN_none; try exact H; vm_compute; reflexivity.
  - unfold from_code_const. apply assocN_none; [vm_compute; reflexivity | exact H].
Qed.

(* ------------------------------------------------------------------ first-match arm lists *)
Fixpoint find_arm_gen (arms : list arm) (v : variant) : option (kind * argsrc) :=
  match arms with
  | [] => None
  | a :: r => if variant_eqb (a_var a) v
              then match a_pat a with None => Some (a_kind a, a_arg a) | Some _ => find_arm_gen r v end
              else find_arm_gen r v
  end.
Fixpoint lits (arms : list arm) (v : variant) : list N :=
  match arms with
  | [] => []
  | a :: r => if variant_eqb (a_var a) v
              then match a_pat a with Some l => l :: lits r v | None => lits r v end
              else lits r v
  end.
Definition mkcall (p : N) (ka : kind * argsrc) : call :=
  {| ckind := fst ka; carg := match snd ka with ALit n => n | ABind => p end |}.

Lemma find_arm_nolit arms v p : ~ In p (lits arms v) ->
  find_arm arms {| cvar := v; cparam := p |} = option_map (mkcall p) (find_arm_gen arms v).
Proof.
  induction arms as [|a r IH]; intros H; [reflexivity|].
  cbn [find_arm find_arm_gen lits] in *. unfold arm_matches. cbn [cvar cparam].
  destruct (variant_eqb (a_var a) v) eqn:Hv; cbn [andb].
  - destruct (a_pat a) as [l|] eqn:Hp.
    + destruct (l =? p) eqn:Hl; [exfalso; apply H; left; lia|]. apply IH. intros Hin. apply H. right. exact Hin.
    + reflexivity.
  - apply IH. exact H.
Qed.

Definition all_variants : list variant :=
  [VUnary; VGamma; VDelta; VOmega; VVByteLe; VVByteBe; VZeta; VPi; VGolomb; VExpGolomb; VRice].
Lemma all_variants_In v : In v all_variants.
Proof. destruct v; cbn; auto 12. Qed.

Definition arms_of (op : opkind) : list arm :=
  match op with OpRead => codes_read_arms | OpWrite => codes_write_arms | OpLen => codes_len_arms end.

(* per variant: every literal arm is right, and the generic arm passes the bound field to the
   method the variant names (or, for parameterless variants, calls the named method) *)
Definition enum_variant_ok (op : opkind) (v : variant) : bool :=
  forallb (fun l => match find_arm (arms_of op) {| cvar := v; cparam := l |} with
                    | Some cl => same_code op cl (direct_call {| cvar := v; cparam := l |})
                    | None => false end) (lits (arms_of op) v) &&
  match find_arm_gen (arms_of op) v with
  | Some (k, ABind) => has_param v && kind_eqb k (ckind (direct_call {| cvar := v; cparam := 0 |})) && negb (kind_eqb k KVByteAny)
  | Some (k, ALit n) => negb (has_param v) && same_code op {| ckind := k; carg := n |} (direct_call {| cvar := v; cparam := 0 |})
  | None => false
  end.
Lemma enum_ok : forallb (fun op => forallb (enum_variant_ok op) all_variants) ops3 = true.
Proof. vm_compute. reflexivity. Qed.

Lemma pair_eqb_refl a : pair_eqb a a = true.
Proof. unfold pair_eqb. rewrite !N.eqb_refl. reflexivity. Qed.

Theorem enum_dispatch op v p : (has_param v = false -> p = 0) ->
  exists cl, enum_call op {| cvar := v; cparam := p |} = Some cl /\
             same_code op cl (direct_call {| cvar := v; cparam := p |}) = true.
Proof.
  intros Hwf. pose proof enum_ok as HH. rewrite forallb_forall in HH.
  assert (In op ops3) as Hin by (destruct op; cbn; auto). specialize (HH op Hin).
  rewrite forallb_forall in HH. specialize (HH v (all_variants_In v)).
  unfold enum_variant_ok in HH. apply andb_prop in HH as [HL HG].
  assert (enum_call op {| cvar := v; cparam := p |} = find_arm (arms_of op) {| cvar := v; cparam := p |}) as -> by (destruct op; reflexivity).
  destruct (in_dec N.eq_dec p (lits (arms_of op) v)) as [Hin'|Hnin].
  - rewrite forallb_forall in HL. specialize (HL p Hin').
    destruct (find_arm (arms_of op) {| cvar := v; cparam := p |}) as [cl|]; [|discriminate]. exists cl. auto.
  - rewrite (find_arm_nolit _ _ _ Hnin).
    destruct (find_arm_gen (arms_of op) v) as [[k [n|]]|]; [| |discriminate]; unfold mkcall; cbn [option_map fst snd].
    + apply andb_prop in HG as [G1 G2]. eexists. split; [reflexivity|].
      assert (p = 0) as -> by (apply Hwf; destruct (has_param v); [discriminate | reflexivity]). exact G2.
    + apply andb_prop in HG as [HG G3]. apply andb_prop in HG as [G1 G2]. eexists. split; [reflexivity|].
      (* the generic arm calls the method the variant names with the bound field *)
      assert (cid {| ckind := k; carg := p |} = cid (direct_call {| cvar := v; cparam := p |})) as Hc.
      { destruct v; cbn in G1; try discriminate; destruct k; cbn in G2; try discriminate; reflexivity. }
      assert (kind_eqb (ckind (direct_call {| cvar := v; cparam := p |})) KVByteAny = false) as Hd by (destruct v; reflexivity).
      destruct op; cbn [same_code ckind]; rewrite ?Hc, ?pair_eqb_refl, ?Hd; cbn [negb andb];
        try (destruct (kind_eqb k KVByteAny); [discriminate | reflexivity]); reflexivity.
Qed.

(* ------------------------------------------------------------------ function-pointer dispatchers *)
Lemma find_narm_In arms c nm : find_narm arms c = Some nm ->
  exists a, In a arms /\ n_const a = nm /\ variant_eqb (n_var a) (cvar c) = true /\
            match n_pat a with Some l => l = cparam c | None => True end.
Proof.
  induction arms as [|a r IH]; intros H; [discriminate|]. cbn [find_narm] in H.
  destruct (variant_eqb (n_var a) (cvar c) && match n_pat a with Some l => l =? cparam c | None => true end) eqn:Hm.
  - injection H as <-. exists a. apply andb_prop in Hm as [M1 M2]. split; [left; reflexivity|]. split; [reflexivity|].
    split; [exact M1|]. destruct (n_pat a); [lia | exact I].
  - destruct (IH H) as (a' & Hin & Hr). exists a'. split; [right; exact Hin | exact Hr].
Qed.
Lemma variant_eqb_eq a b : variant_eqb a b = true -> a = b.
Proof. destruct a, b; cbn; intros H; try discriminate; reflexivity. Qed.

Definition narm_ok (op : opkind) (consts : list (string * call)) (a : narm) : bool :=
  match assocS consts (n_const a) with
  | Some cl => match n_pat a with
               | Some l => same_code op cl (direct_call {| cvar := n_var a; cparam := l |})
               | None => negb (has_param (n_var a)) && same_code op cl (direct_call {| cvar := n_var a; cparam := 0 |})
               end
  | None => false
  end.
Lemma func_ok :
  forallb (narm_ok OpRead func_reader_consts) func_reader_new &&
  forallb (narm_ok OpWrite func_writer_consts) func_writer_new &&
  forallb (narm_ok OpLen func_len_consts) func_len_new &&
  forallb (narm_ok OpRead factory_reader_consts) factory_reader_new = true.
Proof. vm_compute. reflexivity. Qed.

Lemma narm_dispatch op consts arms c cl : forallb (narm_ok op consts) arms = true ->
  (has_param (cvar c) = false -> cparam c = 0) ->
  match find_narm arms c with Some nm => assocS consts nm | None => None end = Some cl ->
  same_code op cl (direct_call c) = true.
Proof.
  intros Hok Hwf H. destruct (find_narm arms c) as [nm|] eqn:Hf; [|discriminate].
  destruct (find_narm_In _ _ _ Hf) as (a & Hin & Hnm & Hv & Hp).
  rewrite forallb_forall in Hok. specialize (Hok a Hin). unfold narm_ok in Hok. rewrite Hnm, H in Hok.
  apply variant_eqb_eq in Hv. destruct c as [v p]. cbn [cvar cparam] in *. subst v.
  destruct (n_pat a) as [l|].
  - subst l. exact Hok.
  - apply andb_prop in Hok as [O1 O2]. rewrite (Hwf ltac:(destruct (has_param (n_var a)); [discriminate | reflexivity])). exact O2.
Qed.

Theorem func_dispatch op c cl : (has_param (cvar c) = false -> cparam c = 0) ->
  func_call op c = Some cl -> same_code op cl (direct_call c) = true.
Proof.
  intros Hwf H. pose proof func_ok as HH. apply andb_prop in HH as [HH H4]. apply andb_prop in HH as [HH H3].
  apply andb_prop in HH as [H1 H2]. unfold func_call in H.
  (* explicit instances: letting unification search the hypotheses may try to convert the big generated lists *)
  destruct op.
  - exact (narm_dispatch OpRead func_reader_consts func_reader_new c cl H1 Hwf H).
  - exact (narm_dispatch OpWrite func_writer_consts func_writer_new c cl H2 Hwf H).
  - exact (narm_dispatch OpLen func_len_consts func_len_new c cl H3 Hwf H).
Qed.
Theorem factory_dispatch c cl : (has_param (cvar c) = false -> cparam c = 0) ->
  factory_call c = Some cl -> same_code OpRead cl (direct_call c) = true.
Proof.
  intros Hwf H. pose proof func_ok as HH. apply andb_prop in HH as [HH H4].
  unfold factory_call in H.
  exact (narm_dispatch OpRead factory_reader_consts factory_reader_new c cl H4 Hwf H).
Qed.

(* ------------------------------------------------------------------ C16: equal codes, identifiers *)
(* two codes the library's `==` identifies name the same codewords *)
Definition class_ok (cl : list code) : bool :=
  match cl with
  | [] => true
  | c0 :: r => forallb (fun c => pair_eqb (norm (cid (direct_call c))) (norm (cid (direct_call c0)))) r
  end.
Lemma classes_ok : forallb class_ok eq_classes = true.
Proof. vm_compute. reflexivity. Qed.
Lemma plain_ok : forallb (fun '(v, cmp) => cmp || negb (has_param v)) eq_plain = true.
Proof. vm_compute. reflexivity. Qed.

Lemma in_class_In cl c : in_class cl c = true -> exists c', In c' cl /\ code_eqb c c' = true.
Proof. unfold in_class. intros H. apply existsb_exists in H. exact H. Qed.
Lemma code_eqb_eq a b : code_eqb a b = true -> a = b.
Proof.
  destruct a as [va pa], b as [vb pb]. unfold code_eqb. cbn [cvar cparam]. intros H. apply andb_prop in H as [H1 H2].
  apply variant_eqb_eq in H1. f_equal; [exact H1 | lia].
Qed.

Lemma class_same cl a b : class_ok cl = true -> In a cl -> In b cl ->
  norm (cid (direct_call a)) = norm (cid (direct_call b)).
Proof.
  intros Hok Ha Hb. destruct cl as [|c0 r]; [destruct Ha|]. cbn [class_ok] in Hok. rewrite forallb_forall in Hok.
  assert (forall x, In x (c0 :: r) -> norm (cid (direct_call x)) = norm (cid (direct_call c0))) as HH.
  { intros x [<-|Hx]; [reflexivity | apply pair_eqb_eq, Hok, Hx]. }
  rewrite (HH a Ha), (HH b Hb). reflexivity.
Qed.

Theorem codes_eq_same_code a b : (has_param (cvar a) = false -> cparam a = 0) -> (has_param (cvar b) = false -> cparam b = 0) ->
  codes_eq a b = true -> norm (cid (direct_call a)) = norm (cid (direct_call b)).
Proof.
  intros Wa Wb H. unfold codes_eq in H.
  assert (forall cls, forallb class_ok cls = true ->
          match class_eq cls a b with Some t => t | None => plain_eq eq_plain a b end = true ->
          norm (cid (direct_call a)) = norm (cid (direct_call b))) as G.
  { induction cls as [|cl r IH]; intros Hok Hc; cbn [class_eq] in Hc.
    - (* plain comparison: same variant, same parameter *)
      assert (forall pl, forallb (fun '(v, cmp) => cmp || negb (has_param v)) pl = true -> plain_eq pl a b = true -> a = b) as P.
      { induction pl as [|[v cmp] pl IHp]; intros Hp He; [discriminate|]. cbn in Hp. apply andb_prop in Hp as [Hp1 Hp2].
        cbn [plain_eq] in He.
        destruct (variant_eqb v (cvar a) && variant_eqb v (cvar b)) eqn:Hv.
        - apply andb_prop in Hv as [V1 V2]. apply variant_eqb_eq in V1, V2.
          destruct a as [va pa], b as [vb pb]. cbn [cvar cparam] in *. subst va vb.
          destruct cmp; [f_equal; lia|]. cbn in Hp1.
          rewrite (Wa ltac:(destruct (has_param v); [discriminate | reflexivity])).
          rewrite (Wb ltac:(destruct (has_param v); [discriminate | reflexivity])). reflexivity.
        - apply IHp; assumption. }
      rewrite (P eq_plain plain_ok Hc). reflexivity.
    - cbn [forallb] in Hok. apply andb_prop in Hok as [Hok1 Hok2].
      destruct (in_class cl a && in_class cl b) eqn:Hin.
      + apply andb_prop in Hin as [I1 I2].
        destruct (in_class_In _ _ I1) as (a' & Ha' & Ea). destruct (in_class_In _ _ I2) as (b' & Hb' & Eb).
        apply code_eqb_eq in Ea, Eb. subst a' b'. apply (class_same cl); assumption.
      + apply IH; assumption. }
  apply (G eq_classes classes_ok H).
Qed.

(* to_code_const then from_code_const names the same codewords (including Pi{k:0} -> GAMMA) *)
Definition to_arm_ok (a : variant * option N * N) : bool :=
  let '(v, p, id) := a in
  match from_code_const id with
  | Some c' => pair_eqb (norm (cid (direct_call {| cvar := v; cparam := match p with Some l => l | None => 0 end |})))
                        (norm (cid (direct_call c'))) &&
               match p with Some _ => true | None => negb (has_param v) end
  | None => false
  end.
Lemma to_arms_ok : forallb to_arm_ok to_const_arms = true.
Proof. vm_compute. reflexivity. Qed.

Lemma find_to_const_In arms c id : find_to_const arms c = Some id ->
  exists v p, In (v, p, id) arms /\ v = cvar c /\ match p with Some l => l = cparam c | None => True end.
Proof.
  induction arms as [|[[v p] i] r IH]; intros H; [discriminate|]. cbn [find_to_const] in H.
  destruct (variant_eqb v (cvar c) && match p with Some l => l =? cparam c | None => true end) eqn:Hm.
  - injection H as <-. apply andb_prop in Hm as [M1 M2]. exists v, p. split; [left; reflexivity|].
    split; [apply variant_eqb_eq; exact M1|]. destruct p; [lia | exact I].
  - destruct (IH H) as (v' & p' & Hin & Hr). exists v', p'. split; [right; exact Hin | exact Hr].
Qed.

Theorem const_roundtrip_same_code c id : (has_param (cvar c) = false -> cparam c = 0) ->
  to_code_const c = Some id ->
  exists c', from_code_const id = Some c' /\ norm (cid (direct_call c)) = norm (cid (direct_call c')).
Proof.
  intros Hwf H. destruct (find_to_const_In _ _ _ H) as (v & p & Hin & Hv & Hp).
  pose proof to_arms_ok as HH. rewrite forallb_forall in HH. specialize (HH _ Hin). unfold to_arm_ok in HH.
  destruct (from_code_const id) as [c'|]; [|discriminate]. exists c'. split; [reflexivity|].
  apply andb_prop in HH as [H1 H2]. apply pair_eqb_eq in H1. rewrite <- H1.
  destruct c as [vc pc]. cbn [cvar cparam] in *. subst v. destruct p as [l|].
  - subst l. reflexivity.
  - rewrite (Hwf ltac:(destruct (has_param vc); [discriminate | reflexivity])). reflexivity.
Qed.

(* ------------------------------------------------------------------ constants BY NAME *)
(* ConstCode<{code_consts::ZETA3}> etc.: the published name of a code, looked up in the generated
   `code_consts` table, selects a const arm that performs that very code *)
Definition named_codes : list code :=
  flat_map (fun v => map (fun p => {| cvar := v; cparam := p |}) (nrange 11)) all_variants.
Definition named_ok (c : code) : bool :=
  match const_name c with
  | None => true
  | Some _ => forallb (fun op => match named_const_call op c with
                                 | Some cl => same_code op cl (direct_call c) | None => false end) ops3
  end.
Lemma named_all_ok : forallb named_ok named_codes = true.
Proof. vm_compute. reflexivity. Qed.

Definition canon (c : code) : code :=
  {| cvar := cvar c; cparam := if has_param (cvar c) then cparam c else 0 |}.
Lemma canon_facts c :
  const_name c = const_name (canon c) /\ direct_call c = direct_call (canon c) /\
  (forall op, named_const_call op c = named_const_call op (canon c)) /\
  (forall nm, const_name c = Some nm -> cparam (canon c) <= 10).
Proof.
  destruct c as [v p].
  assert (const_name {| cvar := v; cparam := p |} = const_name (canon {| cvar := v; cparam := p |})) as H1
    by (destruct v; reflexivity).
  split; [exact H1|]. split; [destruct v; reflexivity|]. split.
  - intros op. unfold named_const_call. rewrite <- H1. reflexivity.
  - intros nm. unfold const_name, canon. cbn [cvar cparam].
    destruct v; cbn [has_param]; intros H; try lia;
      match type of H with (if ?b then _ else _) = _ => destruct b eqn:Hb; [lia | discriminate] end.
Qed.

Theorem const_by_name c nm op : const_name c = Some nm ->
  exists cl, named_const_call op c = Some cl /\ same_code op cl (direct_call c) = true.
Proof.
  intros Hn. destruct (canon_facts c) as (H1 & H2 & H3 & H4).
  specialize (H4 nm Hn). rewrite H3, H2. rewrite H1 in Hn.
  pose proof named_all_ok as HH. rewrite forallb_forall in HH.
  assert (In (canon c) named_codes) as Hin.
  { unfold named_codes. apply in_flat_map. exists (cvar c). split.
    - apply all_variants_In.
    - unfold canon at 1. apply in_map_iff. exists (cparam (canon c)). split; [reflexivity|].
      apply nrange_In. lia. }
  specialize (HH _ Hin). unfold named_ok in HH. rewrite Hn in HH. rewrite forallb_forall in HH.
  assert (In op ops3) as Hop by (destruct op; cbn; auto).
  specialize (HH op Hop). destruct (named_const_call op (canon c)) as [cl|]; [|discriminate].
  exists cl. auto.
Qed.

(* every name the module publishes is one of these (nothing published is left unchecked) *)
Lemma published_names_covered :
  forallb (fun '(nm, _) => existsb (fun c => match const_name c with Some n => String.eqb n nm | None => false end) named_codes)
          code_consts = true.
Proof. vm_compute. reflexivity. Qed.

(* ------------------------------------------------------------------ totality on the published codes *)
(* every code that has a published constant name (all variants, parameters up to 10) is ACCEPTED by every
   dispatcher: FuncCodeReader/Writer/Len::new, the reader factory, and the enum's own arms *)
Definition is_some {A} (o : option A) : bool := match o with Some _ => true | None => false end.
Definition total_ok (c : code) : bool :=
  match const_name c with
  | None => true
  | Some _ =>
      forallb (fun op => is_some (func_call op c) && is_some (enum_call op c) && is_some (named_const_call op c)) ops3
      && is_some (factory_call c)
  end.
Lemma dispatch_total_ok : forallb total_ok named_codes = true.
Proof. vm_compute. reflexivity. Qed.

Theorem dispatch_total c nm op : In c named_codes -> const_name c = Some nm ->
  (exists cl, func_call op c = Some cl) /\ (exists cl, enum_call op c = Some cl) /\
  (exists cl, named_const_call op c = Some cl) /\ (exists cl, factory_call c = Some cl).
Proof.
  intros Hin Hn. pose proof dispatch_total_ok as HH. rewrite forallb_forall in HH.
  specialize (HH c Hin). unfold total_ok in HH. rewrite Hn in HH.
  apply andb_prop in HH as [H1 H2]. rewrite forallb_forall in H1.
  assert (In op ops3) as Hop by (destruct op; cbn; auto).
  specialize (H1 op Hop). apply andb_prop in H1 as [H1 H1c]. apply andb_prop in H1 as [H1a H1b].
  unfold is_some in *.
  destruct (func_call op c) as [a|]; [|discriminate].
  destruct (enum_call op c) as [b|]; [|discriminate].
  destruct (named_const_call op c) as [d|]; [|discriminate].
  destruct (factory_call c) as [e|]; [|discriminate].
  repeat split; eexists; reflexivity.
Qed.
