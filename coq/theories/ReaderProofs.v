(* ReaderProofs.v — the buffered bit reader (Reader.v, BufBitReader) refines the bit-list
   specification reader (Prog.v), via the abstraction fixed in Abs.v. *)
From Coq Require Import ZifyBool ZifyNat ZifyN.
From DSI Require Import Base Words Prog Reader Abs BitsLemmasR.
Open Scope N_scope.

(* ------------------------------------------------------------------ the stream as a bit function *)
Definition sbw (E : endian) (W : N) (ws : list N) (i : N) : bool :=
  nth (N.to_nat i) (bits_of_words E W ws) false.

Lemma bits_of_words_length E W ws : length (bits_of_words E W ws) = (N.to_nat W * length ws)%nat.
Proof.
  induction ws as [| w r IH]; cbn [bits_of_words flat_map length]; [lia |].
  rewrite app_length. fold (bits_of_words E W r). rewrite IH. unfold bits_of_word. rewrite field_length. lia.
Qed.

Lemma sbw_beyond E W ws i : W * N.of_nat (length ws) <= i -> sbw E W ws i = false.
Proof. intros H. unfold sbw. apply nth_overflow. rewrite bits_of_words_length. lia. Qed.

Definition wbit (E : endian) (W j : N) : N := match E with BE => W - 1 - j | LE => j end.

(* bit j of the i-th logical word is stream bit i*W + wbit j *)
Lemma word_bits E W ws : Forall (fun w => w < 2 ^ W) ws -> forall i j,
  N.testbit (nth i ws 0) j = (j <? W) && sbw E W ws (N.of_nat i * W + wbit E W j).
Proof.
  intros HF. induction HF as [| w r Hw HF IH]; intros i j.
  - destruct i; cbn [nth]; rewrite N.bits_0; destruct (j <? W); cbn [andb]; try reflexivity;
      unfold sbw; cbn [bits_of_words flat_map]; destruct (N.to_nat _); reflexivity.
  - destruct (N.ltb_spec j W) as [Hj | Hj]; cbn [andb].
    2:{ destruct i; cbn [nth].
        - apply (tb_high _ W); assumption.
        - rewrite IH. destruct (N.ltb_spec j W); [lia | reflexivity]. }
    unfold sbw. cbn [bits_of_words flat_map]. fold (bits_of_words E W r).
    destruct i as [| i]; cbn [nth].
    + rewrite app_nth1 by (unfold bits_of_word; rewrite field_length; destruct E; cbn [wbit]; lia).
      unfold bits_of_word. destruct E; cbn [field wbit].
      * rewrite nth_field_be by lia. f_equal. lia.
      * rewrite nth_field_le by lia. f_equal. lia.
    + rewrite app_nth2 by (unfold bits_of_word; rewrite field_length; destruct E; cbn [wbit]; lia).
      unfold bits_of_word at 1. rewrite field_length.
      rewrite IH. destruct (N.ltb_spec j W); [| lia]. cbn [andb]. unfold sbw. f_equal.
      destruct E; cbn [wbit]; lia.
Qed.

(* the value of the next n (zero-extended) stream bits, bit by bit *)
Lemma tb_val_take E W ws pos n j :
  N.testbit (val E (take_pad (N.to_nat n) (skipn (N.to_nat pos) (bits_of_words E W ws)))) j =
  (j <? n) && sbw E W ws (pos + wbit E n j).
Proof.
  destruct E; cbn [val wbit].
  - rewrite tb_val_be. rewrite take_pad_length.
    destruct (N.ltb_spec j (N.of_nat (N.to_nat n))); destruct (N.ltb_spec j n); try lia; cbn [andb]; try reflexivity.
    rewrite nth_take_pad. destruct (Nat.ltb_spec (N.to_nat (N.of_nat (N.to_nat n) - 1 - j)) (N.to_nat n)); [| lia].
    rewrite nth_skipn. unfold sbw. f_equal. lia.
  - rewrite tb_val_le. rewrite nth_take_pad.
    destruct (Nat.ltb_spec (N.to_nat j) (N.to_nat n)); destruct (N.ltb_spec j n); try lia; cbn [andb]; try reflexivity.
    rewrite nth_skipn. unfold sbw. f_equal. lia.
Qed.

(* ------------------------------------------------------------------ the invariant, bit by bit *)
(* bit j of the buffer *)
Definition bufbit (E : endian) (W bits : N) (ws : list N) (pos j : N) : bool :=
  match E with
  | BE => (2 * W - bits <=? j) && (j <? 2 * W) && sbw BE W ws (pos + (2 * W - 1 - j))
  | LE => (j <? bits) && sbw LE W ws (pos + j)
  end.

Definition BInv (E : endian) (W : N) (s : breader) (pos : N) : Prop :=
  wordsize_ok W /\ W <= 64 /\
  br_bits s < 2 * W /\
  pos + br_bits s = ws_idx (br_src s) * W /\
  Forall (fun w => w < 2 ^ W) (ws_words (br_src s)) /\
  (ws_strict (br_src s) = true -> ws_idx (br_src s) <= N.of_nat (length (ws_words (br_src s)))) /\
  forall j, N.testbit (br_buffer s) j = bufbit E W (br_bits s) (ws_words (br_src s)) pos j.

Lemma RInv_BInv E W s pos : RInv E W s pos <-> BInv E W s pos.
Proof.
  unfold RInv, BInv, window, src_bits.
  split; intros (H1 & H2 & H3 & H4 & H5 & H6 & H7); repeat (split; [assumption |]).
  - destruct H7 as [Hb Hw]. intros j. destruct E; cbn [bufbit].
    + destruct Hb as [Hlt Hmod].
      destruct (N.leb_spec (2 * W - br_bits s) j) as [Hj1 | Hj1]; cbn [andb].
      2:{ apply (tb_low_mod0 _ _ _ Hmod). assumption. }
      destruct (N.ltb_spec j (2 * W)) as [Hj2 | Hj2]; cbn [andb].
      2:{ apply (tb_high _ _ _ Hlt). assumption. }
      apply (f_equal (fun l => nth (N.to_nat (2 * W - 1 - j)) l false)) in Hw.
      rewrite nth_field_be in Hw by lia. rewrite tb_div_pow2 in Hw.
      rewrite nth_take_pad, nth_skipn in Hw.
      destruct (Nat.ltb_spec (N.to_nat (2 * W - 1 - j)) (N.to_nat (br_bits s))); [| lia].
      unfold sbw. etransitivity; [| etransitivity; [exact Hw |]]; f_equal; lia.
    + destruct (N.ltb_spec j (br_bits s)) as [Hj | Hj]; cbn [andb].
      2:{ apply (tb_high _ _ _ Hb). assumption. }
      apply (f_equal (fun l => nth (N.to_nat j) l false)) in Hw.
      rewrite nth_field_le in Hw by lia. rewrite nth_take_pad, nth_skipn in Hw.
      destruct (Nat.ltb_spec (N.to_nat j) (N.to_nat (br_bits s))); [| lia].
      unfold sbw. etransitivity; [| etransitivity; [exact Hw |]]; f_equal; lia.
  - destruct E; cbn [bufbit] in H7.
    + split; [split |].
      * apply lt_pow2_of_bits. intros j Hj. rewrite H7.
        destruct (N.ltb_spec j (2 * W)); [lia |]. rewrite andb_false_r. reflexivity.
      * apply mod0_of_bits. intros j Hj. rewrite H7.
        destruct (N.leb_spec (2 * W - br_bits s) j); [lia |]. reflexivity.
      * apply bits_ext.
        { rewrite field_be_length, take_pad_length. reflexivity. }
        rewrite field_be_length. intros k Hk.
        rewrite nth_field_be by assumption. rewrite tb_div_pow2, H7.
        rewrite nth_take_pad, nth_skipn.
        destruct (Nat.ltb_spec k (N.to_nat (br_bits s))); [| lia].
        destruct (N.leb_spec (2 * W - br_bits s) (N.of_nat (N.to_nat (br_bits s) - 1 - k) + (2 * W - br_bits s))); [| lia].
        destruct (N.ltb_spec (N.of_nat (N.to_nat (br_bits s) - 1 - k) + (2 * W - br_bits s)) (2 * W)); [| lia].
        cbn [andb]. unfold sbw. f_equal. lia.
    + split.
      * apply lt_pow2_of_bits. intros j Hj. rewrite H7.
        destruct (N.ltb_spec j (br_bits s)); [lia |]. reflexivity.
      * apply bits_ext.
        { rewrite field_le_length, take_pad_length. reflexivity. }
        rewrite field_le_length. intros k Hk.
        rewrite nth_field_le by assumption. rewrite H7.
        rewrite nth_take_pad, nth_skipn.
        destruct (Nat.ltb_spec k (N.to_nat (br_bits s))); [| lia].
        destruct (N.ltb_spec (N.of_nat k) (br_bits s)); [| lia].
        cbn [andb]. unfold sbw. f_equal. lia.
Qed.

(* ------------------------------------------------------------------ source reads, spec takes *)
Lemma src_read_ok k : (ws_strict k = true -> ws_idx k < N.of_nat (length (ws_words k))) ->
  src_read k = Ok (nth (N.to_nat (ws_idx k)) (ws_words k) 0,
                   {| ws_words := ws_words k; ws_idx := ws_idx k + 1; ws_strict := ws_strict k |}).
Proof.
  intros H. unfold src_read. destruct (nth_error (ws_words k) (N.to_nat (ws_idx k))) as [w |] eqn:Hn.
  - rewrite (nth_error_nth _ _ 0 Hn). reflexivity.
  - apply nth_error_None in Hn. rewrite (nth_overflow _ _ Hn).
    destruct (ws_strict k); [specialize (H eq_refl); lia | reflexivity].
Qed.

Lemma src_read_err k : ws_strict k = true -> N.of_nat (length (ws_words k)) <= ws_idx k -> src_read k = Err.
Proof.
  intros Hs H. unfold src_read. destruct (nth_error (ws_words k) (N.to_nat (ws_idx k))) as [w |] eqn:Hn.
  - assert (nth_error (ws_words k) (N.to_nat (ws_idx k)) <> None) as Hx by congruence.
    apply nth_error_Some in Hx. lia.
  - rewrite Hs. reflexivity.
Qed.

Lemma s_take_ok E W ws strict pos pk n :
  (strict = true -> pos + n <= W * N.of_nat (length ws)) ->
  s_take strict n {| sr_rest := skipn (N.to_nat pos) (bits_of_words E W ws); sr_pos := pos; sr_peeked := pk |} =
  Ok (take_pad (N.to_nat n) (skipn (N.to_nat pos) (bits_of_words E W ws)),
      {| sr_rest := skipn (N.to_nat (pos + n)) (bits_of_words E W ws); sr_pos := pos + n; sr_peeked := 0 |}).
Proof.
  intros H. unfold s_take. cbn [sr_rest sr_pos sr_peeked].
  rewrite skipn_length, bits_of_words_length.
  destruct (N.leb_spec n (N.of_nat (N.to_nat W * length ws - N.to_nat pos))) as [Hn | Hn].
  - rewrite take_pad_firstn by (rewrite skipn_length, bits_of_words_length; lia).
    rewrite skipn_skipn_add. do 3 f_equal. f_equal. lia.
  - destruct strict; [specialize (H eq_refl); lia |].
    rewrite (skipn_all2 (n := N.to_nat (pos + n))) by (rewrite bits_of_words_length; lia). reflexivity.
Qed.

Lemma s_take_err E W ws pos pk n :
  pos <= W * N.of_nat (length ws) -> W * N.of_nat (length ws) < pos + n ->
  s_take true n {| sr_rest := skipn (N.to_nat pos) (bits_of_words E W ws); sr_pos := pos; sr_peeked := pk |} = Err.
Proof.
  intros H1 H2. unfold s_take. cbn [sr_rest sr_pos sr_peeked].
  rewrite skipn_length, bits_of_words_length.
  destruct (N.leb_spec n (N.of_nat (N.to_nat W * length ws - N.to_nat pos))); [lia | reflexivity].
Qed.

(* ------------------------------------------------------------------ tactics for bit equations *)
Ltac tb_norm :=
  repeat first
    [ rewrite N.lor_spec | rewrite N.land_spec | rewrite tb_mul_pow2 | rewrite tb_div_pow2
    | rewrite tb_mod_pow2 | rewrite tb_ones | rewrite tb_val_take | rewrite N.bits_0 ].

Ltac bool_split :=
  repeat (match goal with
          | |- context [N.ltb ?a ?b] => destruct (N.ltb_spec a b)
          | |- context [N.leb ?a ?b] => destruct (N.leb_spec a b)
          end; cbn [andb orb negb]; try (exfalso; lia)).

Ltac bits_done :=
  bool_split;
  first [ reflexivity
        | rewrite ?andb_false_r, ?orb_false_r; reflexivity
        | rewrite ?andb_false_r, ?orb_false_r; f_equal; lia ].

Lemma BInv_intro E W ws idx st buf bits pos :
  wordsize_ok W -> W <= 64 -> bits < 2 * W -> pos + bits = idx * W ->
  Forall (fun w => w < 2 ^ W) ws -> (st = true -> idx <= N.of_nat (length ws)) ->
  (forall j, N.testbit buf j = bufbit E W bits ws pos j) ->
  BInv E W (mk {| ws_words := ws; ws_idx := idx; ws_strict := st |} buf bits) pos.
Proof.
  intros. unfold BInv, mk. cbn [br_bits br_src br_buffer ws_idx ws_words ws_strict].
  repeat (split; [assumption |]). assumption.
Qed.

(* ------------------------------------------------------------------ C02_new *)
Lemma new_inv E W words strict : wordsize_ok W -> W <= 64 -> Forall (fun w => w < 2 ^ W) words ->
  RInv E W (br_new words strict) 0.
Proof.
  intros H1 H2 H3. pose proof H1 as [H1a H1b]. apply RInv_BInv. unfold br_new. apply (BInv_intro E W words 0 strict 0 0 0); try assumption; try lia.
  intros j. rewrite N.bits_0. destruct E; cbn [bufbit]; bits_done.
Qed.

(* ------------------------------------------------------------------ the strengthened relation *)
(* rrel plus: the word list and the strict flag are those given (they never change) *)
Definition rrelS (E : endian) (W : N) (ws : list N) (st : bool) (r : sreader) (s : breader) : Prop :=
  rrel E W r s /\ ws_words (br_src s) = ws /\ ws_strict (br_src s) = st.

Definition aspec (E : endian) (W : N) (ws : list N) (pos pk : N) : sreader :=
  {| sr_rest := skipn (N.to_nat pos) (bits_of_words E W ws); sr_pos := pos; sr_peeked := pk |}.

Lemma rrelS_inv E W ws st r s : rrelS E W ws st r s ->
  exists idx buf bits pos pk,
    s = mk {| ws_words := ws; ws_idx := idx; ws_strict := st |} buf bits /\
    BInv E W s pos /\ pk <= bits /\ r = aspec E W ws pos pk.
Proof.
  intros [(pos & pk & HI & Hpk & ->) [Hw Hs]].
  destruct s as [[ws' idx st'] buf bits]. cbn in Hw, Hs. subst ws' st'.
  exists idx, buf, bits, pos, pk. split; [reflexivity |]. split; [apply RInv_BInv; assumption |].
  split; [exact Hpk | reflexivity].
Qed.

Lemma rrelS_intro E W ws idx st buf bits pos pk :
  BInv E W (mk {| ws_words := ws; ws_idx := idx; ws_strict := st |} buf bits) pos -> pk <= bits ->
  rrelS E W ws st (aspec E W ws pos pk) (mk {| ws_words := ws; ws_idx := idx; ws_strict := st |} buf bits).
Proof.
  intros HI Hpk. split; [| split; reflexivity].
  exists pos, pk. split; [apply RInv_BInv; assumption |]. split; [assumption | reflexivity].
Qed.

Lemma osim_mono {A S1 S2} (R R' : S1 -> S2 -> Prop) (o1 : outcome (A * S1)) o2 :
  (forall a b, R a b -> R' a b) -> osim R o1 o2 -> osim R' o1 o2.
Proof.
  intros H. destruct o1 as [[a s1] | | |]; cbn [osim]; auto.
  intros [s2 [He HR]]. exists s2. auto.
Qed.
Lemma osim0_mono {S1 S2} (R R' : S1 -> S2 -> Prop) (o1 : outcome S1) o2 :
  (forall a b, R a b -> R' a b) -> osim0 R o1 o2 -> osim0 R' o1 o2.
Proof.
  intros H. destruct o1 as [s1 | | |]; cbn [osim0]; auto.
  intros [s2 [He HR]]. exists s2. auto.
Qed.

(* spec operations on an abstract state *)
Lemma s_bits_ok E W ws st pos pk n : n <= 64 ->
  (st = true -> pos + n <= W * N.of_nat (length ws)) ->
  s_bits E st n (aspec E W ws pos pk) =
  Ok (val E (take_pad (N.to_nat n) (skipn (N.to_nat pos) (bits_of_words E W ws))), aspec E W ws (pos + n) 0).
Proof.
  intros Hn H. unfold s_bits. destruct (N.ltb_spec 64 n); [lia |].
  unfold aspec. rewrite s_take_ok by assumption. reflexivity.
Qed.
Lemma s_bits_err E W ws pos pk n : n <= 64 ->
  pos <= W * N.of_nat (length ws) -> W * N.of_nat (length ws) < pos + n ->
  s_bits E true n (aspec E W ws pos pk) = Err.
Proof.
  intros Hn H1 H2. unfold s_bits. destruct (N.ltb_spec 64 n); [lia |].
  unfold aspec. rewrite s_take_err by assumption. reflexivity.
Qed.

(* ------------------------------------------------------------------ proof set-up tactics *)
Ltac inv_setup HR :=
  let idx := fresh "idx" in let buf := fresh "buf" in let bits := fresh "bits" in
  let pos := fresh "pos" in let pk := fresh "pk" in
  destruct (rrelS_inv _ _ _ _ _ _ HR) as (idx & buf & bits & pos & pk & -> & HI & Hpk & ->);
  destruct HI as ((Hw8 & Hwm) & H64 & Hb & Hpos & HF & Hst & Hbuf);
  unfold mk in *; cbn [br_bits br_src br_buffer ws_idx ws_words ws_strict] in *.

Ltac binv_setup HI :=
  destruct HI as ((Hw8 & Hwm) & H64 & Hb & Hpos & HF & Hst & Hbuf);
  unfold mk in *; cbn [br_bits br_src br_buffer ws_idx ws_words ws_strict] in *.

(* solve a goal  N.testbit <machine term> j = <bit spec>  *)
Ltac bits_go :=
  unfold wcast; rewrite ?W64_pow; tb_norm;
  repeat match goal with
         | H : forall j, N.testbit ?b j = bufbit _ _ _ _ _ j |- context [N.testbit ?b _] => rewrite !H
         | HF : Forall (fun w => w < 2 ^ ?W) ?ws, H : forall j, _ = bufbit ?E _ _ _ _ j
           |- context [N.testbit (nth _ ?ws 0) _] =>
             rewrite !(word_bits E W ws HF)
         end;
  unfold bufbit, wbit; bits_done.

Ltac binv_intro := apply BInv_intro; try assumption; try (split; assumption); try lia.

(* ------------------------------------------------------------------ read_bits, fast path *)
Lemma read_bits_fast E W ws st n r s : rrelS E W ws st r s -> n <= br_bits s ->
  osim (rrelS E W ws st) (s_bits E st n r) (br_read_bits E W n s).
Proof.
  intros HR Hn. inv_setup HR.
  assert (Hn64 : n <= 64 \/ 64 < n) by lia. destruct Hn64 as [Hn64 | Hn64].
  2:{ unfold s_bits. destruct (N.ltb_spec 64 n); [exact I | lia]. }
  rewrite s_bits_ok; [| assumption | intros ->; specialize (Hst eq_refl); nia].
  cbn [osim]. unfold br_read_bits. cbn [br_bits br_src br_buffer].
  destruct (N.ltb_spec 64 n); [lia |]. destruct (N.leb_spec (2 * W) bits); [lia |].
  destruct (N.leb_spec n bits); [| lia].
  destruct E.
  - rewrite (wshr_some (2*W)) by lia. cbn [oo'].  rewrite (wshr_some (2*W)) by lia. cbn [oo'].
    rewrite (wshl_some (2*W)) by lia. cbn [oo'].
    eexists. split.
    + f_equal. f_equal. apply N.bits_inj; intros j. bits_go.
    + apply rrelS_intro; [| lia]. binv_intro. intros j. bits_go.
  - rewrite (wshl_some (2*W)) by lia. cbn [oo'].  rewrite (wshr_some (2*W)) by lia. cbn [oo'].
    eexists. split.
    + f_equal. f_equal. apply N.bits_inj; intros j.
      rewrite N.mul_1_l.
      rewrite (N.mod_small (2^n)) by (apply N.pow_lt_mono_r; lia). bits_go.
    + apply rrelS_intro; [| lia]. binv_intro. intros j. bits_go.
Qed.

(* ------------------------------------------------------------------ refill, peek, skip after peek *)
Lemma refill_ok E W ws idx st buf bits pos :
  BInv E W (mk {| ws_words := ws; ws_idx := idx; ws_strict := st |} buf bits) pos ->
  bits < W -> (st = true -> idx < N.of_nat (length ws)) ->
  exists buf', br_refill E W (mk {| ws_words := ws; ws_idx := idx; ws_strict := st |} buf bits) =
               Ok (mk {| ws_words := ws; ws_idx := idx + 1; ws_strict := st |} buf' (bits + W)) /\
               BInv E W (mk {| ws_words := ws; ws_idx := idx + 1; ws_strict := st |} buf' (bits + W)) pos.
Proof.
  intros HI HbW Hlen. binv_setup HI.
  unfold br_refill. cbn [br_bits br_src br_buffer].
  destruct (N.ltb_spec W bits); [lia |].
  rewrite src_read_ok by exact Hlen. cbn [obind ws_words ws_idx ws_strict].
  destruct E.
  - rewrite (wshl_some (2*W)) by lia. cbn [oo']. unfold mk. eexists. split; [reflexivity |].
    binv_intro. intros j. replace (N.of_nat (N.to_nat idx)) with idx by lia. bits_go.
  - rewrite (wshl_some (2*W)) by lia. cbn [oo']. unfold mk. eexists. split; [reflexivity |].
    binv_intro. intros j. replace (N.of_nat (N.to_nat idx)) with idx by lia. bits_go.
Qed.

Lemma s_peek_ok E W ws st cap pos pk n : 1 <= n -> n <= cap ->
  (st = true -> pos + n <= W * N.of_nat (length ws)) ->
  s_peek E st cap n (aspec E W ws pos pk) =
  Ok (val E (take_pad (N.to_nat n) (skipn (N.to_nat pos) (bits_of_words E W ws))), aspec E W ws pos (N.max pk n)).
Proof.
  intros H1 H2 H. unfold s_peek. destruct (N.eqb_spec n 0); [lia |]. destruct (N.ltb_spec cap n); [lia |].
  cbn [orb]. unfold aspec. rewrite s_take_ok by assumption. reflexivity.
Qed.
Lemma s_peek_err E W ws cap pos pk n : 1 <= n -> n <= cap ->
  pos <= W * N.of_nat (length ws) -> W * N.of_nat (length ws) < pos + n ->
  s_peek E true cap n (aspec E W ws pos pk) = Err.
Proof.
  intros H1 H2 H3 H4. unfold s_peek. destruct (N.eqb_spec n 0); [lia |]. destruct (N.ltb_spec cap n); [lia |].
  cbn [orb]. unfold aspec. rewrite s_take_err by assumption. reflexivity.
Qed.

(* the part of peek_bits after the optional refill *)
Lemma peek_tail E W ws idx st buf bits pos n :
  BInv E W (mk {| ws_words := ws; ws_idx := idx; ws_strict := st |} buf bits) pos ->
  1 <= n -> n <= bits ->
  match E with
  | BE => oo' (wshr (2 * W) buf (2 * W - n)) (fun v => Ok (v, mk {| ws_words := ws; ws_idx := idx; ws_strict := st |} buf bits))
  | LE => oo' (wshl (2 * W) buf (2 * W - n)) (fun a => oo' (wshr (2 * W) a (2 * W - n))
            (fun v => Ok (v, mk {| ws_words := ws; ws_idx := idx; ws_strict := st |} buf bits)))
  end = Ok (val E (take_pad (N.to_nat n) (skipn (N.to_nat pos) (bits_of_words E W ws))),
            mk {| ws_words := ws; ws_idx := idx; ws_strict := st |} buf bits).
Proof.
  intros HI H1 H2. binv_setup HI. destruct E.
  - rewrite wshr_some by lia. cbn [oo']. f_equal. f_equal. apply N.bits_inj; intros j. bits_go.
  - rewrite wshl_some by lia. cbn [oo']. rewrite wshr_some by lia. cbn [oo'].
    f_equal. f_equal. apply N.bits_inj; intros j. bits_go.
Qed.

Ltac rew_unf H := let Ht := fresh "Ht" in pose proof H as Ht; unfold mk in Ht; rewrite Ht; clear Ht.

Lemma peek_sim E W ws st n r s : rrelS E W ws st r s ->
  osim (rrelS E W ws st) (s_peek E st W n r) (br_peek E W n s).
Proof.
  intros HR. pose proof HR as HR0. inv_setup HR.
  assert (Hn : n = 0 \/ W < n \/ (1 <= n /\ n <= W)) by lia. destruct Hn as [Hn | [Hn | [Hn1 Hn2]]].
  1,2: unfold s_peek; destruct (N.eqb_spec n 0); destruct (N.ltb_spec W n); try lia; exact I.
  unfold br_peek. destruct (N.eqb_spec n 0); [lia |]. destruct (N.ltb_spec (2 * W) n); [lia |]. cbn [orb].
  cbn [br_bits].
  assert (HI : BInv E W (mk {| ws_words := ws; ws_idx := idx; ws_strict := st |} buf bits) pos).
  { binv_intro. }
  destruct (N.ltb_spec bits n) as [Hlt | Hge].
  - (* refill *)
    destruct st eqn:Est.
    + specialize (Hst eq_refl).
      assert (Hc : idx < N.of_nat (length ws) \/ idx = N.of_nat (length ws)) by lia. destruct Hc as [Hc | Hc].
      * destruct (refill_ok E W ws idx true buf bits pos HI) as (buf' & Hr & HI'); [lia | auto |].
        unfold mk in Hr. rewrite Hr. cbn [obind br_bits br_buffer].
        destruct (N.ltb_spec (bits + W) n); [lia |].
        rew_unf (peek_tail E W ws (idx + 1) true buf' (bits + W) pos n HI' ltac:(lia) ltac:(lia)).
        rewrite s_peek_ok by (try lia; intros _; nia). cbn [osim]. eexists. split; [reflexivity |].
        apply rrelS_intro; [assumption | lia].
      * rewrite s_peek_err by (try lia; nia). cbn [osim].
        unfold br_refill. cbn [br_bits br_src]. destruct (N.ltb_spec W bits); [lia |].
        rewrite src_read_err by (cbn; auto; lia). reflexivity.
    + destruct (refill_ok E W ws idx false buf bits pos HI) as (buf' & Hr & HI'); [lia | discriminate |].
      unfold mk in Hr. rewrite Hr. cbn [obind br_bits br_buffer].
      destruct (N.ltb_spec (bits + W) n); [lia |].
      rew_unf (peek_tail E W ws (idx + 1) false buf' (bits + W) pos n HI' ltac:(lia) ltac:(lia)).
      rewrite s_peek_ok by (try lia; discriminate). cbn [osim]. eexists. split; [reflexivity |].
      apply rrelS_intro; [assumption | lia].
  - cbn [obind br_bits br_buffer]. destruct (N.ltb_spec bits n); [lia |].
    rew_unf (peek_tail E W ws idx st buf bits pos n HI ltac:(lia) ltac:(lia)).
    rewrite s_peek_ok by (try lia; intros ->; specialize (Hst eq_refl); nia). cbn [osim]. eexists. split; [reflexivity |].
    apply rrelS_intro; [assumption | lia].
Qed.

Lemma skipap_sim E W ws st n r s : rrelS E W ws st r s ->
  osim0 (rrelS E W ws st) (s_skipap st n r) (br_skipap E W n s).
Proof.
  intros HR. inv_setup HR.
  unfold s_skipap, aspec. cbn [sr_peeked]. destruct (N.ltb_spec pk n); [exact I |].
  destruct st eqn:Est.
  - specialize (Hst eq_refl). rewrite s_take_ok by (intros _; nia).
    cbn [osim0 sr_rest sr_pos]. unfold br_skipap. cbn [br_bits br_buffer br_src].
    destruct (N.ltb_spec bits n); [lia |].
    destruct E; [rewrite wshl_some by lia | rewrite wshr_some by lia]; cbn [oo']; (eexists; split; [reflexivity |]);
      (apply (rrelS_intro _ W ws idx true _ (bits - n) (pos + n) (pk - n)); [| lia]); binv_intro; intros j; bits_go.
  - rewrite s_take_ok by discriminate.
    cbn [osim0 sr_rest sr_pos]. unfold br_skipap. cbn [br_bits br_buffer br_src].
    destruct (N.ltb_spec bits n); [lia |].
    destruct E; [rewrite wshl_some by lia | rewrite wshr_some by lia]; cbn [oo']; (eexists; split; [reflexivity |]);
      (apply (rrelS_intro _ W ws idx false _ (bits - n) (pos + n) (pk - n)); [| lia]); binv_intro; intros j; bits_go.
Qed.

(* ------------------------------------------------------------------ the whole-word loops *)
Definition srcw (ws : list N) (idx : N) (st : bool) : wsrc := {| ws_words := ws; ws_idx := idx; ws_strict := st |}.

Lemma src_read_ok' ws idx st : (st = true -> idx < N.of_nat (length ws)) ->
  src_read (srcw ws idx st) = Ok (nth (N.to_nat idx) ws 0, srcw ws (idx + 1) st).
Proof. intros H. unfold srcw. rewrite src_read_ok by exact H. reflexivity. Qed.
Lemma src_read_err' ws idx : N.of_nat (length ws) <= idx -> src_read (srcw ws idx true) = Err.
Proof. intros H. apply src_read_err; [reflexivity | exact H]. Qed.

Lemma be_read_words_ok W ws st (HF : Forall (fun w => w < 2 ^ W) ws) cnt : forall idx result L pos,
  L + N.of_nat cnt * W < 64 -> 0 < W ->
  (st = true -> idx + N.of_nat cnt <= N.of_nat (length ws)) ->
  pos + L = idx * W ->
  (forall j, N.testbit result j = (j <? L) && sbw BE W ws (pos + (L - 1 - j))) ->
  exists r', be_read_words W cnt result (srcw ws idx st) = Ok (r', srcw ws (idx + N.of_nat cnt) st) /\
    forall j, N.testbit r' j = (j <? L + N.of_nat cnt * W) && sbw BE W ws (pos + (L + N.of_nat cnt * W - 1 - j)).
Proof.
  induction cnt as [| c IH]; intros idx result L pos H64 HW Hst Hpos Hres.
  - exists result. cbn [be_read_words]. split.
    + do 2 f_equal. unfold srcw. f_equal. lia.
    + intros j. rewrite Hres. replace (L + N.of_nat 0 * W) with L by lia. reflexivity.
  - cbn [be_read_words]. rewrite src_read_ok' by (intros Hs; specialize (Hst Hs); lia). cbn [obind].
    rewrite shl64_some by nia. cbn [oo'].
    destruct (IH (idx + 1) (N.lor ((result * 2 ^ W) mod 2 ^ 64) (nth (N.to_nat idx) ws 0)) (L + W) pos) as (r' & Hr & Hb).
    + lia.
    + lia.
    + intros Hs; specialize (Hst Hs); lia.
    + lia.
    + intros j. tb_norm. rewrite Hres. rewrite (word_bits BE W ws HF). unfold wbit. bits_done.
    + exists r'. split.
      * rewrite Hr. do 2 f_equal. unfold srcw. f_equal. lia.
      * intros j. rewrite Hb. replace (L + W + N.of_nat c * W) with (L + N.of_nat (S c) * W) by lia. reflexivity.
Qed.

Lemma be_read_words_err W ws cnt : forall idx result,
  cnt <> O -> W < 64 -> N.of_nat (length ws) < idx + N.of_nat cnt ->
  be_read_words W cnt result (srcw ws idx true) = Err.
Proof.
  induction cnt as [| c IH]; intros idx result Hc HW H; [congruence |].
  cbn [be_read_words]. destruct (N.lt_ge_cases idx (N.of_nat (length ws))) as [Hi | Hi].
  - rewrite src_read_ok' by (intros _; exact Hi). cbn [obind]. rewrite shl64_some by lia. cbn [oo'].
    apply IH; lia.
  - rewrite src_read_err' by exact Hi. reflexivity.
Qed.

Lemma le_read_words_ok W ws st (HF : Forall (fun w => w < 2 ^ W) ws) cnt : forall idx result L pos,
  L + N.of_nat cnt * W < 64 -> 0 < W ->
  (st = true -> idx + N.of_nat cnt <= N.of_nat (length ws)) ->
  pos + L = idx * W ->
  (forall j, N.testbit result j = (j <? L) && sbw LE W ws (pos + j)) ->
  exists r', le_read_words W cnt result L (srcw ws idx st) = Ok (r', L + N.of_nat cnt * W, srcw ws (idx + N.of_nat cnt) st) /\
    forall j, N.testbit r' j = (j <? L + N.of_nat cnt * W) && sbw LE W ws (pos + j).
Proof.
  induction cnt as [| c IH]; intros idx result L pos H64 HW Hst Hpos Hres.
  - exists result. cbn [le_read_words]. split.
    + do 2 f_equal; [f_equal; lia |]. unfold srcw. f_equal. lia.
    + intros j. rewrite Hres. replace (L + N.of_nat 0 * W) with L by lia. reflexivity.
  - cbn [le_read_words]. rewrite src_read_ok' by (intros Hs; specialize (Hst Hs); lia). cbn [obind].
    rewrite shl64_some by nia. cbn [oo'].
    destruct (IH (idx + 1) (N.lor result ((nth (N.to_nat idx) ws 0 * 2 ^ L) mod 2 ^ 64)) (L + W) pos) as (r' & Hr & Hb).
    + lia.
    + lia.
    + intros Hs; specialize (Hst Hs); lia.
    + lia.
    + intros j. tb_norm. rewrite Hres. rewrite (word_bits LE W ws HF). unfold wbit. bits_done.
    + exists r'. split.
      * rewrite Hr. do 2 f_equal; [f_equal; lia |]. unfold srcw. f_equal. lia.
      * intros j. rewrite Hb. replace (L + W + N.of_nat c * W) with (L + N.of_nat (S c) * W) by lia. reflexivity.
Qed.

Lemma le_read_words_err W ws cnt : forall idx result L,
  cnt <> O -> L + N.of_nat cnt * W < 64 -> 0 < W -> N.of_nat (length ws) < idx + N.of_nat cnt ->
  le_read_words W cnt result L (srcw ws idx true) = Err.
Proof.
  induction cnt as [| c IH]; intros idx result L Hc H64 HW H; [congruence |].
  cbn [le_read_words]. destruct (N.lt_ge_cases idx (N.of_nat (length ws))) as [Hi | Hi].
  - rewrite src_read_ok' by (intros _; exact Hi). cbn [obind]. rewrite shl64_some by nia. cbn [oo'].
    apply IH; nia.
  - rewrite src_read_err' by exact Hi. reflexivity.
Qed.

Lemma skip_words_ok ws st cnt : forall idx,
  (st = true -> idx + N.of_nat cnt <= N.of_nat (length ws)) ->
  skip_words cnt (srcw ws idx st) = Ok (srcw ws (idx + N.of_nat cnt) st).
Proof.
  induction cnt as [| c IH]; intros idx Hst.
  - cbn [skip_words]. f_equal. unfold srcw. f_equal. lia.
  - cbn [skip_words]. rewrite src_read_ok' by (intros Hs; specialize (Hst Hs); lia). cbn [obind].
    rewrite IH by (intros Hs; specialize (Hst Hs); lia). f_equal. unfold srcw. f_equal. lia.
Qed.

Lemma skip_words_err ws cnt : forall idx,
  cnt <> O -> N.of_nat (length ws) < idx + N.of_nat cnt -> skip_words cnt (srcw ws idx true) = Err.
Proof.
  induction cnt as [| c IH]; intros idx Hc H; [congruence |].
  cbn [skip_words]. destruct (N.lt_ge_cases idx (N.of_nat (length ws))) as [Hi | Hi].
  - rewrite src_read_ok' by (intros _; exact Hi). cbn [obind]. apply IH; lia.
  - rewrite src_read_err' by exact Hi. reflexivity.
Qed.

Lemma whole_words_split W n1 : 0 < W -> 0 < n1 ->
  exists c n2, whole_words W n1 = c /\ n1 = c * W + n2 /\ 1 <= n2 /\ n2 <= W.
Proof.
  intros HW Hn. exists ((n1 - 1) / W), ((n1 - 1) mod W + 1).
  unfold whole_words. destruct (N.eqb_spec n1 0); [lia |].
  pose proof (N.div_mod (n1 - 1) W ltac:(lia)). pose proof (N.mod_lt (n1 - 1) W ltac:(lia)).
  repeat split; lia.
Qed.

(* ------------------------------------------------------------------ read_bits, slow path *)
Lemma read_bits_slow_ok E W ws idx st buf bits pos n c n2 :
  BInv E W (mk (srcw ws idx st) buf bits) pos ->
  bits < n -> n <= 64 -> n - bits = c * W + n2 -> 1 <= n2 -> n2 <= W ->
  (st = true -> idx + c < N.of_nat (length ws)) ->
  exists buf',
    br_read_bits E W n (mk (srcw ws idx st) buf bits) =
    Ok (val E (take_pad (N.to_nat n) (skipn (N.to_nat pos) (bits_of_words E W ws))),
        mk (srcw ws (idx + c + 1) st) buf' (W - n2)) /\
    BInv E W (mk (srcw ws (idx + c + 1) st) buf' (W - n2)) (pos + n).
Proof.
  intros HI Hn1 Hn2 Hsplit H1 H2 Hlen. unfold srcw in HI. binv_setup HI.
  assert (Hww : whole_words W (n - bits) = c).
  { unfold whole_words. destruct (N.eqb_spec (n - bits) 0); [lia |].
    symmetry. apply N.div_unique with (r := n2 - 1); lia. }
  unfold br_read_bits. cbn [br_bits br_src br_buffer].
  destruct (N.ltb_spec 64 n); [lia |]. destruct (N.leb_spec (2 * W) bits); [lia |].
  destruct (N.leb_spec n bits); [lia |].
  destruct E.
  - rewrite (wshr_some (2*W)) by lia. cbn [oo']. rewrite (wshr_some (2*W)) by lia. cbn [oo'].
    rewrite Hww.
    destruct (be_read_words_ok W ws st HF (N.to_nat c) idx (wcast 64 (buf / 2 ^ (2 * W - 1 - bits) / 2 ^ 1)) bits pos) as (r1 & Hr1 & Hb1).
    + nia.
    + lia.
    + intros Hs. specialize (Hlen Hs). lia.
    + lia.
    + intros j. bits_go.
    + fold (srcw ws idx st). rewrite Hr1. cbn [obind].
      rewrite src_read_ok' by (intros Hs; specialize (Hlen Hs); lia). cbn [obind].
      rewrite !N2Nat.id in *. replace (n - bits - c * W) with n2 by lia.
      rewrite shr64_some by lia. cbn [oo']. rewrite shl64_some by lia. cbn [oo'].
      rewrite shl64_some by lia. cbn [oo']. rewrite (wshl_some (2*W)) by lia. cbn [oo'].
      rewrite (wshl_some (2*W)) by lia. cbn [oo'].
      eexists. split.
      * f_equal. f_equal. apply N.bits_inj; intros j. tb_norm. rewrite Hb1. rewrite (word_bits BE W ws HF).
        unfold wbit. rewrite !N2Nat.id. bits_done.
      * unfold srcw. binv_intro. intros j. tb_norm. rewrite (word_bits BE W ws HF).
        unfold wbit, bufbit. rewrite !N2Nat.id. bits_done.
  - replace (if n <=? W + bits then 0 else (n - bits - 1) / W) with c.
    2:{ unfold whole_words in Hww. destruct (N.eqb_spec (n - bits) 0); [lia |]. rewrite Hww.
        destruct (N.leb_spec n (W + bits)); [nia | reflexivity]. }
    destruct (le_read_words_ok W ws st HF (N.to_nat c) idx (wcast 64 buf) bits pos) as (r1 & Hr1 & Hb1).
    + nia.
    + lia.
    + intros Hs. specialize (Hlen Hs). lia.
    + lia.
    + intros j. bits_go.
    + fold (srcw ws idx st). rewrite Hr1. cbn [obind].
      rewrite src_read_ok' by (intros Hs; specialize (Hlen Hs); lia). cbn [obind].
      rewrite !N2Nat.id in *. replace (n - (bits + c * W)) with n2 by lia.
      rewrite shl64_some by lia. cbn [oo']. rewrite shr64_some by lia. cbn [oo'].
      rewrite shl64_some by lia. cbn [oo']. rewrite (wshr_some (2*W)) by lia. cbn [oo'].
      eexists. split.
      * f_equal. f_equal. apply N.bits_inj; intros j. tb_norm. rewrite Hb1. rewrite (word_bits LE W ws HF).
        unfold wbit. rewrite !N2Nat.id. bits_done.
      * unfold srcw. binv_intro. intros j. tb_norm. rewrite (word_bits LE W ws HF).
        unfold wbit, bufbit. rewrite !N2Nat.id. bits_done.
Qed.

Lemma read_bits_slow_err E W ws idx buf bits pos n c n2 :
  BInv E W (mk (srcw ws idx true) buf bits) pos ->
  bits < n -> n <= 64 -> n - bits = c * W + n2 -> 1 <= n2 -> n2 <= W ->
  N.of_nat (length ws) <= idx + c ->
  br_read_bits E W n (mk (srcw ws idx true) buf bits) = Err.
Proof.
  intros HI Hn1 Hn2 Hsplit H1 H2 Hlen. unfold srcw in HI. binv_setup HI. specialize (Hst eq_refl).
  assert (Hww : whole_words W (n - bits) = c).
  { unfold whole_words. destruct (N.eqb_spec (n - bits) 0); [lia |].
    symmetry. apply N.div_unique with (r := n2 - 1); lia. }
  unfold br_read_bits. cbn [br_bits br_src br_buffer].
  destruct (N.ltb_spec 64 n); [lia |]. destruct (N.leb_spec (2 * W) bits); [lia |].
  destruct (N.leb_spec n bits); [lia |].
  assert (Hc : N.of_nat (length ws) < idx + c \/ idx + c = N.of_nat (length ws)) by lia.
  destruct E.
  - rewrite (wshr_some (2*W)) by lia. cbn [oo']. rewrite (wshr_some (2*W)) by lia. cbn [oo'].
    rewrite Hww. fold (srcw ws idx true). destruct Hc as [Hc | Hc].
    + rewrite be_read_words_err; [reflexivity | lia | nia | lia].
    + destruct (be_read_words_ok W ws true HF (N.to_nat c) idx (wcast 64 (buf / 2 ^ (2 * W - 1 - bits) / 2 ^ 1)) bits pos) as (r1 & Hr1 & Hb1).
      * nia.
      * lia.
      * intros _. lia.
      * lia.
      * intros j. bits_go.
      * rewrite Hr1. cbn [obind]. rewrite src_read_err' by lia. reflexivity.
  - replace (if n <=? W + bits then 0 else (n - bits - 1) / W) with c.
    2:{ unfold whole_words in Hww. destruct (N.eqb_spec (n - bits) 0); [lia |]. rewrite Hww.
        destruct (N.leb_spec n (W + bits)); [nia | reflexivity]. }
    fold (srcw ws idx true). destruct Hc as [Hc | Hc].
    + rewrite le_read_words_err; [reflexivity | lia | nia | lia | lia].
    + destruct (le_read_words_ok W ws true HF (N.to_nat c) idx (wcast 64 buf) bits pos) as (r1 & Hr1 & Hb1).
      * nia.
      * lia.
      * intros _. lia.
      * lia.
      * intros j. bits_go.
      * rewrite Hr1. cbn [obind]. rewrite src_read_err' by lia. reflexivity.
Qed.

Theorem read_bits_sim E W ws st n r s : rrelS E W ws st r s ->
  osim (rrelS E W ws st) (s_bits E st n r) (br_read_bits E W n s).
Proof.
  intros HR. destruct (N.le_gt_cases n (br_bits s)) as [Hf | Hs]; [apply read_bits_fast; assumption |].
  pose proof HR as HR0. inv_setup HR.
  assert (Hn64 : n <= 64 \/ 64 < n) by lia. destruct Hn64 as [Hn64 | Hn64].
  2:{ unfold s_bits. destruct (N.ltb_spec 64 n); [exact I | lia]. }
  destruct (whole_words_split W (n - bits)) as (c & n2 & _ & Hsplit & Hn2a & Hn2b); [lia | lia |].
  assert (HI : BInv E W (mk (srcw ws idx st) buf bits) pos) by (unfold srcw; binv_intro).
  assert (Hcase : (st = true /\ N.of_nat (length ws) <= idx + c) \/ (st = true -> idx + c < N.of_nat (length ws))).
  { destruct st; [| right; discriminate]. destruct (N.le_gt_cases (N.of_nat (length ws)) (idx + c)); [left | right]; auto. }
  destruct Hcase as [[-> Hlen] | Hlen].
  - specialize (Hst eq_refl). rewrite s_bits_err by (try lia; nia). cbn [osim].
    apply (read_bits_slow_err E W ws idx buf bits pos n c n2); assumption.
  - rewrite s_bits_ok by (try lia; intros Hs'; specialize (Hlen Hs'); nia). cbn [osim].
    destruct (read_bits_slow_ok E W ws idx st buf bits pos n c n2) as (buf' & Hr & HI'); try assumption.
    unfold mk, srcw in Hr. rewrite Hr. eexists. split; [reflexivity |].
    apply rrelS_intro; [exact HI' | lia].
Qed.

(* ------------------------------------------------------------------ skip_bits *)
Theorem skip_bits_sim E W ws st n r s : rrelS E W ws st r s ->
  osim0 (rrelS E W ws st) (s_skip st n r) (br_skip_bits E W n s).
Proof.
  intros HR. inv_setup HR. unfold s_skip, aspec.
  unfold br_skip_bits. cbn [br_bits br_src br_buffer].
  destruct (N.leb_spec (2 * W) bits); [lia |].
  destruct (N.leb_spec n bits) as [Hf | Hs].
  - rewrite s_take_ok by (intros ->; specialize (Hst eq_refl); nia). cbn [osim0].
    destruct E; [rewrite wshl_some by lia | rewrite wshr_some by lia]; cbn [oo']; (eexists; split; [reflexivity |]);
      (apply (rrelS_intro _ W ws idx st _ (bits - n) (pos + n) 0); [| lia]); binv_intro; intros j; bits_go.
  - destruct (whole_words_split W (n - bits)) as (c & n2 & Hww & Hsplit & Hn2a & Hn2b); [lia | lia |].
    rewrite Hww. fold (srcw ws idx st).
    assert (Hcase : (st = true /\ N.of_nat (length ws) <= idx + c) \/ (st = true -> idx + c < N.of_nat (length ws))).
    { destruct st; [| right; discriminate]. destruct (N.le_gt_cases (N.of_nat (length ws)) (idx + c)); [left | right]; auto. }
    destruct Hcase as [[-> Hlen] | Hlen].
    + specialize (Hst eq_refl). rewrite s_take_err by (try lia; nia). cbn [osim0].
      assert (Hc : N.of_nat (length ws) < idx + c \/ idx + c = N.of_nat (length ws)) by lia.
      destruct Hc as [Hc | Hc].
      * rewrite skip_words_err; [reflexivity | lia | lia].
      * rewrite skip_words_ok by (intros _; lia). cbn [obind]. rewrite src_read_err' by lia. reflexivity.
    + rewrite s_take_ok by (intros Hs'; specialize (Hlen Hs'); nia). cbn [osim0].
      rewrite skip_words_ok by (intros Hs'; specialize (Hlen Hs'); lia). cbn [obind].
      rewrite src_read_ok' by (intros Hs'; specialize (Hlen Hs'); lia). cbn [obind].
      rewrite !N2Nat.id. replace (n - bits - c * W) with n2 by lia.
      destruct E.
      * rewrite (wshl_some (2*W)) by lia. rewrite (wshl_some (2*W)) by lia. cbn [oo'].
        eexists. split; [reflexivity |]. unfold srcw.
        apply (rrelS_intro _ W ws _ st _ _ (pos + n) 0); [| lia]. binv_intro. intros j. tb_norm.
        rewrite (word_bits BE W ws HF). unfold wbit, bufbit. rewrite !N2Nat.id. bits_done.
      * rewrite (wshr_some (2*W)) by lia. cbn [oo'].
        eexists. split; [reflexivity |]. unfold srcw.
        apply (rrelS_intro _ W ws _ st _ _ (pos + n) 0); [| lia]. binv_intro. intros j. tb_norm.
        rewrite (word_bits LE W ws HF). unfold wbit, bufbit. rewrite !N2Nat.id. bits_done.
Qed.

(* ------------------------------------------------------------------ bit_pos / set_bit_pos *)
Theorem bit_pos_ok E W s pos : RInv E W s pos -> ws_idx (br_src s) * W < 2 ^ 64 -> br_bit_pos W s = Ok pos.
Proof.
  intros HI Hlt. apply RInv_BInv in HI. destruct s as [[ws idx st] buf bits]. binv_setup HI.
  unfold br_bit_pos, mul64, sub64. cbn [br_src br_bits ws_idx]. rewrite W64_pow.
  destruct (N.ltb_spec (idx * W) (2 ^ 64)); [| lia]. cbn [oo'].
  destruct (N.leb_spec bits (idx * W)); [| lia]. cbn [oo']. f_equal. lia.
Qed.

Theorem set_bit_pos_ok E W s pos p : RInv E W s pos ->
  (ws_strict (br_src s) = true -> p <= W * N.of_nat (length (ws_words (br_src s)))) ->
  exists s', br_set_bit_pos E W p s = Ok s' /\ RInv E W s' p /\
             ws_words (br_src s') = ws_words (br_src s) /\ ws_strict (br_src s') = ws_strict (br_src s).
Proof.
  intros HI Hp. apply RInv_BInv in HI. destruct s as [[ws idx st] buf bits]. binv_setup HI.
  pose proof (N.div_mod p W ltac:(lia)) as Hdm. pose proof (N.mod_lt p W ltac:(lia)) as Hml.
  unfold br_set_bit_pos, src_set_pos. cbn [br_src ws_strict ws_words].
  assert (Hs1 : st && (N.of_nat (length ws) <? p / W) = false).
  { destruct st; [| reflexivity]. specialize (Hp eq_refl). destruct (N.ltb_spec (N.of_nat (length ws)) (p / W)); [nia | reflexivity]. }
  rewrite Hs1. cbn [obind].
  destruct (N.eqb_spec (p mod W) 0) as [Hz | Hz].
  - eexists. split; [reflexivity |]. split; [| split; reflexivity].
    apply RInv_BInv. binv_intro; try (intros ->; specialize (Hp eq_refl); nia).
    intros j. rewrite N.bits_0. destruct E; cbn [bufbit]; bits_done.
  - fold (srcw ws (p / W) st).
    rewrite src_read_ok' by (intros ->; specialize (Hp eq_refl); nia). cbn [obind].
    destruct E.
    + rewrite wshl_some by lia. cbn [oo']. eexists. split; [reflexivity |]. split; [| split; reflexivity].
      apply RInv_BInv. unfold srcw. binv_intro; try (intros ->; specialize (Hp eq_refl); nia).
      intros j. tb_norm. rewrite (word_bits BE W ws HF). unfold wbit, bufbit. rewrite !N2Nat.id. bits_done.
    + rewrite wshr_some by lia. cbn [oo']. eexists. split; [reflexivity |]. split; [| split; reflexivity].
      apply RInv_BInv. unfold srcw. binv_intro; try (intros ->; specialize (Hp eq_refl); nia).
      intros j. tb_norm. rewrite (word_bits LE W ws HF). unfold wbit, bufbit. rewrite !N2Nat.id. bits_done.
Qed.

Theorem set_bit_pos_err E W s pos p : RInv E W s pos -> ws_strict (br_src s) = true ->
  W * N.of_nat (length (ws_words (br_src s))) < p -> br_set_bit_pos E W p s = Err.
Proof.
  intros HI Hs Hp. apply RInv_BInv in HI. destruct s as [[ws idx st] buf bits]. binv_setup HI. subst st.
  pose proof (N.div_mod p W ltac:(lia)) as Hdm. pose proof (N.mod_lt p W ltac:(lia)) as Hml.
  unfold br_set_bit_pos, src_set_pos. cbn [br_src ws_strict ws_words andb].
  destruct (N.ltb_spec (N.of_nat (length ws)) (p / W)); [reflexivity |]. cbn [obind].
  destruct (N.eqb_spec (p mod W) 0) as [Hz | Hz]; [nia |].
  fold (srcw ws (p / W) true). rewrite src_read_err' by nia. reflexivity.
Qed.

Theorem seek_fresh E W s pos p s' : RInv E W s pos -> br_set_bit_pos E W p s = Ok s' ->
  ws_words (br_src s') = ws_words (br_src s) ->
  rabs E W s' p 0 = rabs E W (br_new (ws_words (br_src s)) (ws_strict (br_src s))) p 0.
Proof. intros _ _ Hw. unfold rabs, src_bits. rewrite Hw. reflexivity. Qed.

(* ------------------------------------------------------------------ read_unary *)
Lemma s_unary_some E W ws st pos pk Z :
  (forall i, i < Z -> sbw E W ws (pos + i) = false) -> sbw E W ws (pos + Z) = true ->
  s_unary st (aspec E W ws pos pk) = Ok (Z, aspec E W ws (pos + Z + 1) 0).
Proof.
  intros Hz H1. unfold s_unary, aspec. cbn [sr_rest sr_pos].
  assert (Hc : count_zeros (skipn (N.to_nat pos) (bits_of_words E W ws)) = Some (N.of_nat (N.to_nat Z))).
  { apply count_zeros_some.
    - intros i Hi. rewrite nth_skipn. specialize (Hz (N.of_nat i) ltac:(lia)). unfold sbw in Hz.
      etransitivity; [| exact Hz]. f_equal. lia.
    - rewrite nth_skipn. unfold sbw in H1. etransitivity; [| exact H1]. f_equal. lia. }
  rewrite Hc. rewrite !N2Nat.id. rewrite skipn_skipn_add. do 3 f_equal. f_equal. lia.
Qed.

Lemma s_unary_none E W ws st pos pk :
  (forall i, sbw E W ws (pos + i) = false) ->
  s_unary st (aspec E W ws pos pk) = if st then Err else Fuel.
Proof.
  intros Hz. unfold s_unary, aspec. cbn [sr_rest sr_pos].
  rewrite count_zeros_none; [reflexivity |].
  intros i. rewrite nth_skipn. specialize (Hz (N.of_nat i)). unfold sbw in Hz. etransitivity; [| exact Hz]. f_equal. lia.
Qed.

Lemma unary_words_spec W strict : forall rest idx result,
  match unary_words W rest idx result strict with
  | Ok (w, idx', res) =>
      exists m : nat, idx' = idx + N.of_nat m + 1 /\ res = result + N.of_nat m * W /\ nth m rest 0 = w /\
                      w <> 0 /\ (m < length rest)%nat /\ forall i, (i < m)%nat -> nth i rest 0 = 0
  | Err => strict = true /\ forall i, nth i rest 0 = 0
  | Fuel => strict = false /\ forall i, nth i rest 0 = 0
  | Fail => False
  end.
Proof.
  induction rest as [| w r IH]; intros idx result; cbn [unary_words].
  - destruct strict; (split; [reflexivity |]); intros i; destruct i; reflexivity.
  - destruct (N.eqb_spec w 0) as [-> | Hw].
    + specialize (IH (idx + 1) (result + W)).
      destruct (unary_words W r (idx + 1) (result + W) strict) as [[[w' idx'] res] | | |].
      * destruct IH as (m & H1 & H2 & H3 & H4 & H5 & H6). exists (S m). cbn [nth length].
        repeat split; try lia; try assumption. intros i Hi. destruct i; [reflexivity |]. apply H6. lia.
      * destruct IH as [H1 H2]. split; [assumption |]. intros i. destruct i; [reflexivity | apply H2].
      * exact IH.
      * destruct IH as [H1 H2]. split; [assumption |]. intros i. destruct i; [reflexivity | apply H2].
    + exists O. cbn [nth length]. repeat split; try lia; try assumption.
Qed.

Lemma wbit_invol E W r : r < W -> wbit E W (wbit E W r) = r.
Proof. intros H. destruct E; cbn [wbit]; lia. Qed.
Lemma wbit_lt E W r : r < W -> wbit E W r < W.
Proof. intros H. destruct E; cbn [wbit]; lia. Qed.

(* stream bits beyond the buffer, in terms of the words *)
Lemma sbw_decomp E W ws idx bits pos i : Forall (fun w => w < 2 ^ W) ws -> 0 < W ->
  pos + bits = idx * W -> bits <= i ->
  sbw E W ws (pos + i) = N.testbit (nth (N.to_nat (idx + (i - bits) / W)) ws 0) (wbit E W ((i - bits) mod W)).
Proof.
  intros HF HW Hpos Hi.
  pose proof (N.div_mod (i - bits) W ltac:(lia)) as Hdm. pose proof (N.mod_lt (i - bits) W ltac:(lia)) as Hml.
  rewrite (word_bits E W ws HF). rewrite wbit_invol by assumption.
  destruct (N.ltb_spec (wbit E W ((i - bits) mod W)) W) as [_ | Hc]; [| pose proof (wbit_lt E W _ Hml); lia].
  cbn [andb]. f_equal. rewrite N2Nat.id. lia.
Qed.

Definition bpos (E : endian) (W i : N) : N := match E with BE => 2 * W - 1 - i | LE => i end.
Lemma bufbit_in E W bits ws pos i : i < bits -> bits < 2 * W ->
  bufbit E W bits ws pos (bpos E W i) = sbw E W ws (pos + i).
Proof. intros H1 H2. destruct E; cbn [bufbit bpos]; bits_done. Qed.

(* the zero count of a non-zero word, in stream order *)
Lemma word_zeros E W w : w <> 0 -> w < 2 ^ W ->
  let z := match E with BE => leading_zeros W w | LE => trailing_zeros W w end in
  z < W /\ N.testbit w (wbit E W z) = true /\ forall r, r < z -> N.testbit w (wbit E W r) = false.
Proof.
  intros Hnz Hlt. destruct E; cbn [wbit]; cbv zeta.
  - destruct (leading_zeros_spec W w Hnz Hlt) as (A & B & C). split; [exact A |]. split; [exact B |].
    intros r Hr. apply C. lia.
  - destruct (trailing_zeros_spec W w Hnz) as (B & C). split; [| split; [exact B | exact C]].
    destruct (N.lt_ge_cases (trailing_zeros W w) W) as [Hc | Hc]; [exact Hc |].
    rewrite (tb_high w W _ Hlt Hc) in B. discriminate.
Qed.

Theorem read_unary_sim E W ws st r s : W * N.of_nat (length ws) <= 2 ^ 64 -> rrelS E W ws st r s ->
  osim (rrelS E W ws st) (s_unary st r) (br_read_unary E W s).
Proof.
  intros Hbound HR. inv_setup HR.
  assert (Hbuflt : buf < 2 ^ (2 * W)).
  { apply lt_pow2_of_bits. intros j Hj. rewrite Hbuf. destruct E; unfold bufbit; bits_done. }
  assert (Hin : forall i, i < bits -> sbw E W ws (pos + i) = N.testbit buf (bpos E W i)).
  { intros i Hi. rewrite Hbuf. symmetry. apply bufbit_in; assumption. }
  unfold br_read_unary. cbn [br_bits br_src br_buffer ws_idx ws_words ws_strict].
  destruct (N.leb_spec (2 * W) bits); [lia |].
  destruct (N.eq_dec buf 0) as [Hz | Hnz].
  - subst buf.
    replace (match E with BE => leading_zeros (2 * W) 0 | LE => trailing_zeros (2 * W) 0 end) with (2 * W)
      by (destruct E; reflexivity).
    destruct (N.ltb_spec (2 * W) bits); [lia |].
    assert (Hbz : forall i, i < bits -> sbw E W ws (pos + i) = false).
    { intros i Hi. rewrite Hin by assumption. apply N.bits_0. }
    assert (Hdec : forall i, bits <= i -> sbw E W ws (pos + i) =
              N.testbit (nth (N.to_nat (idx + (i - bits) / W)) ws 0) (wbit E W ((i - bits) mod W))).
    { intros i Hi. apply sbw_decomp; try assumption; lia. }
    pose proof (unary_words_spec W st (skipn (N.to_nat idx) ws) idx bits) as Hu.
    destruct (unary_words W (skipn (N.to_nat idx) ws) idx bits st) as [[[w idx'] res] | | |]; cbn [obind].
    + destruct Hu as (m & -> & -> & Hw & Hwnz & Hm & Hzero).
      rewrite nth_skipn in Hw. rewrite skipn_length in Hm.
      assert (Hwlt : w < 2 ^ W).
      { apply lt_pow2_of_bits. intros j Hj. subst w. rewrite (word_bits E W ws HF).
        destruct (N.ltb_spec j W); [lia | reflexivity]. }
      destruct (word_zeros E W w Hwnz Hwlt) as (Hz1 & Hz2 & Hz3).
      set (z := match E with BE => leading_zeros W w | LE => trailing_zeros W w end) in *.
      assert (HZ1 : sbw E W ws (pos + (bits + N.of_nat m * W + z)) = true).
      { rewrite Hdec by lia.
        replace ((bits + N.of_nat m * W + z - bits) / W) with (N.of_nat m)
          by (apply N.div_unique with (r := z); lia).
        replace ((bits + N.of_nat m * W + z - bits) mod W) with z
          by (apply N.mod_unique with (q := N.of_nat m); lia).
        replace (N.to_nat (idx + N.of_nat m)) with (N.to_nat idx + m)%nat by lia. rewrite Hw. exact Hz2. }
      assert (HZ0 : forall i, i < bits + N.of_nat m * W + z -> sbw E W ws (pos + i) = false).
      { intros i Hi. destruct (N.lt_ge_cases i bits) as [Hib | Hib]; [apply Hbz; assumption |].
        rewrite Hdec by assumption.
        pose proof (N.div_mod (i - bits) W ltac:(lia)) as Hdm. pose proof (N.mod_lt (i - bits) W ltac:(lia)) as Hml.
        destruct (N.lt_ge_cases ((i - bits) / W) (N.of_nat m)) as [Hq | Hq].
        - specialize (Hzero (N.to_nat ((i - bits) / W)) ltac:(lia)). rewrite nth_skipn in Hzero.
          replace (N.to_nat (idx + (i - bits) / W)) with (N.to_nat idx + N.to_nat ((i - bits) / W))%nat by lia.
          rewrite Hzero. apply N.bits_0.
        - assert (Hqe : (i - bits) / W = N.of_nat m) by nia.
          rewrite Hqe. replace (N.to_nat (idx + N.of_nat m)) with (N.to_nat idx + m)%nat by lia. rewrite Hw.
          apply Hz3. nia. }
      assert (Hend : pos + (bits + N.of_nat m * W + z) < W * N.of_nat (length ws)).
      { destruct (N.lt_ge_cases (pos + (bits + N.of_nat m * W + z)) (W * N.of_nat (length ws))) as [Hc | Hc]; [exact Hc |].
        rewrite (sbw_beyond E W ws _ Hc) in HZ1. discriminate. }
      rewrite (s_unary_some E W ws st pos pk _ HZ0 HZ1). cbn [osim].
      unfold add64. rewrite W64_pow. destruct (N.ltb_spec (bits + N.of_nat m * W + z) (2 ^ 64)); [| lia].
      destruct E.
      * rewrite (wshl_some (2 * W)) by lia. rewrite (wshl_some (2 * W)) by lia. cbn [oo'].
        eexists. split; [reflexivity |].
        apply (rrelS_intro _ W ws _ st _ _ _ 0); [| lia]. binv_intro.
        intros j. tb_norm. rewrite <- Hw. replace (N.to_nat idx + m)%nat with (N.to_nat (idx + N.of_nat m)) by lia.
        rewrite (word_bits BE W ws HF). unfold wbit, bufbit. rewrite !N2Nat.id. bits_done.
      * rewrite (wshr_some (2 * W)) by lia. rewrite (wshr_some (2 * W)) by lia. cbn [oo'].
        eexists. split; [reflexivity |].
        apply (rrelS_intro _ W ws _ st _ _ _ 0); [| lia]. binv_intro.
        intros j. tb_norm. rewrite <- Hw. replace (N.to_nat idx + m)%nat with (N.to_nat (idx + N.of_nat m)) by lia.
        rewrite (word_bits LE W ws HF). unfold wbit, bufbit. rewrite !N2Nat.id. bits_done.
    + destruct Hu as [-> Hzero]. rewrite s_unary_none; [reflexivity |].
      intros i. destruct (N.lt_ge_cases i bits) as [Hib | Hib]; [apply Hbz; assumption |].
      rewrite Hdec by assumption. specialize (Hzero (N.to_nat ((i - bits) / W))). rewrite nth_skipn in Hzero.
      replace (N.to_nat (idx + (i - bits) / W)) with (N.to_nat idx + N.to_nat ((i - bits) / W))%nat by lia.
      rewrite Hzero. apply N.bits_0.
    + destruct Hu.
    + destruct Hu as [-> Hzero]. rewrite s_unary_none; [exact I |].
      intros i. destruct (N.lt_ge_cases i bits) as [Hib | Hib]; [apply Hbz; assumption |].
      rewrite Hdec by assumption. specialize (Hzero (N.to_nat ((i - bits) / W))). rewrite nth_skipn in Hzero.
      replace (N.to_nat (idx + (i - bits) / W)) with (N.to_nat idx + N.to_nat ((i - bits) / W))%nat by lia.
      rewrite Hzero. apply N.bits_0.
  - set (z := match E with BE => leading_zeros (2 * W) buf | LE => trailing_zeros (2 * W) buf end).
    assert (Hzf : z < bits /\ sbw E W ws (pos + z) = true /\ forall i, i < z -> sbw E W ws (pos + i) = false).
    { destruct (word_zeros E (2 * W) buf Hnz Hbuflt) as (Hz1 & Hz2 & Hz3). fold z in Hz1, Hz2, Hz3.
      assert (Hzb : z < bits).
      { rewrite Hbuf in Hz2. destruct E; cbn [bufbit wbit] in Hz2.
        - destruct (N.leb_spec (2 * W - bits) (2 * W - 1 - z)); [lia | discriminate].
        - destruct (N.ltb_spec z bits); [assumption | discriminate]. }
      split; [exact Hzb |]. split.
      - rewrite Hin by assumption. destruct E; exact Hz2.
      - intros i Hi. rewrite Hin by lia. destruct E; apply Hz3; exact Hi. }
    destruct Hzf as (Hzb & HZ1 & HZ0).
    rewrite (s_unary_some E W ws st pos pk z HZ0 HZ1). cbn [osim].
    destruct (N.ltb_spec z bits); [| lia].
    destruct E.
    + rewrite (wshl_some (2 * W)) by lia. rewrite (wshl_some (2 * W)) by lia. cbn [oo'].
      eexists. split; [reflexivity |].
      apply (rrelS_intro _ W ws _ st _ _ _ 0); [| lia]. binv_intro. intros j. bits_go.
    + rewrite (wshr_some (2 * W)) by lia. rewrite (wshr_some (2 * W)) by lia. cbn [oo'].
      eexists. split; [reflexivity |].
      apply (rrelS_intro _ W ws _ st _ _ _ 0); [| lia]. binv_intro. intros j. bits_go.
Qed.

(* ------------------------------------------------------------------ statements over rrel *)
Lemma rrelS_of_rrel E W r s : rrel E W r s -> rrelS E W (ws_words (br_src s)) (ws_strict (br_src s)) r s.
Proof. intros H. split; [exact H | split; reflexivity]. Qed.
Lemma rrelS_rrel E W ws st r s : rrelS E W ws st r s -> rrel E W r s.
Proof. intros [H _]. exact H. Qed.

Theorem read_bits_sim_rrel E W n r s : rrel E W r s ->
  osim (rrel E W) (s_bits E (ws_strict (br_src s)) n r) (br_read_bits E W n s).
Proof.
  intros H. eapply osim_mono; [| apply read_bits_sim; apply rrelS_of_rrel; exact H].
  intros a b. apply rrelS_rrel.
Qed.

(* read_unary returns the zero count as a u64 computed with a checked addition: the simulation needs
   the stream to be at most 2^64 bits long (otherwise the machine can Fail where the spec is Ok) *)
Theorem read_unary_sim_rrel E W r s : rrel E W r s ->
  W * N.of_nat (length (ws_words (br_src s))) <= 2 ^ 64 ->
  osim (rrel E W) (s_unary (ws_strict (br_src s)) r) (br_read_unary E W s).
Proof.
  intros H Hb. eapply osim_mono; [| apply read_unary_sim; [exact Hb | apply rrelS_of_rrel; exact H]].
  intros a b. apply rrelS_rrel.
Qed.

Theorem peek_sim_rrel E W n r s : rrel E W r s ->
  osim (rrel E W) (s_peek E (ws_strict (br_src s)) W n r) (br_peek E W n s).
Proof.
  intros H. eapply osim_mono; [| apply peek_sim; apply rrelS_of_rrel; exact H].
  intros a b. apply rrelS_rrel.
Qed.

Theorem skipap_sim_rrel E W n r s : rrel E W r s ->
  osim0 (rrel E W) (s_skipap (ws_strict (br_src s)) n r) (br_skipap E W n s).
Proof.
  intros H. eapply osim0_mono; [| apply skipap_sim; apply rrelS_of_rrel; exact H].
  intros a b. apply rrelS_rrel.
Qed.

Theorem skip_bits_sim_rrel E W n r s : rrel E W r s ->
  osim0 (rrel E W) (s_skip (ws_strict (br_src s)) n r) (br_skip_bits E W n s).
Proof.
  intros H. eapply osim0_mono; [| apply skip_bits_sim; apply rrelS_of_rrel; exact H].
  intros a b. apply rrelS_rrel.
Qed.

(* ------------------------------------------------------------------ all primitives, all programs *)
Theorem prims_sim E W ws strict : W * N.of_nat (length ws) <= 2 ^ 64 ->
  rprims_sim (rrelS E W ws strict) (sprims E strict W) (brprims E W).
Proof.
  intros Hb. constructor; cbn [p_bits p_unary p_peek p_skipap sprims brprims].
  - intros n s1 s2 HR. apply read_bits_sim. exact HR.
  - intros s1 s2 HR. apply read_unary_sim; assumption.
  - intros n s1 s2 HR. apply peek_sim. exact HR.
  - intros n s1 s2 HR. apply skipap_sim. exact HR.
Qed.

Theorem programs_sim E W ws strict A (p : rprog A) r s : W * N.of_nat (length ws) <= 2 ^ 64 ->
  rrelS E W ws strict r s ->
  osim (rrelS E W ws strict) (rrun (sprims E strict W) p r) (rrun (brprims E W) p s).
Proof. intros Hb HR. apply run_simulation; [apply prims_sim; exact Hb | exact HR]. Qed.

(* a program run on a freshly opened reader *)
Theorem programs_fresh E W ws strict A (p : rprog A) :
  wordsize_ok W -> W <= 64 -> Forall (fun w => w < 2 ^ W) ws -> W * N.of_nat (length ws) <= 2 ^ 64 ->
  osim (rrel E W) (rrun (sprims E strict W) p (sreader_of (bits_of_words E W ws)))
                  (rrun (brprims E W) p (br_new ws strict)).
Proof.
  intros H1 H2 H3 Hb. eapply osim_mono; [intros a b; apply rrelS_rrel |].
  apply (programs_sim E W ws strict); [exact Hb |].
  split; [| split; reflexivity]. exists 0, 0. split; [apply new_inv; assumption |]. split; [cbn; lia | reflexivity].
Qed.

(* ------------------------------------------------------------------ C09 corollaries *)
Lemma rrel_rabs E W s pos : RInv E W s pos -> rrel E W (rabs E W s pos 0) s.
Proof. intros H. exists pos, 0. split; [exact H |]. split; [lia | reflexivity]. Qed.

Theorem strict_error_bits E W s pos n : RInv E W s pos -> ws_strict (br_src s) = true ->
  0 < n -> n <= 64 -> W * N.of_nat (length (ws_words (br_src s))) < pos + n ->
  br_read_bits E W n s = Err.
Proof.
  intros HI Hs Hn0 Hn Hp. pose proof (read_bits_sim_rrel E W n _ s (rrel_rabs E W s pos HI)) as H.
  rewrite Hs in H. unfold rabs, src_bits in H. fold (aspec E W (ws_words (br_src s)) pos 0) in H.
  rewrite s_bits_err in H; [exact H | exact Hn | | exact Hp].
  destruct HI as (_ & _ & _ & H4 & _ & H6 & _). specialize (H6 Hs). nia.
Qed.

Theorem zero_ext_never_fails E W s pos n : RInv E W s pos -> ws_strict (br_src s) = false -> n <= 64 ->
  exists v s', br_read_bits E W n s = Ok (v, s').
Proof.
  intros HI Hs Hn. pose proof (read_bits_sim_rrel E W n _ s (rrel_rabs E W s pos HI)) as H.
  rewrite Hs in H. unfold rabs, src_bits in H. fold (aspec E W (ws_words (br_src s)) pos 0) in H.
  rewrite s_bits_ok in H; [| exact Hn | discriminate]. cbn [osim] in H.
  destruct H as (s' & He & _). eauto.
Qed.

(* the value read is the value of the next n stream bits *)
Theorem read_bits_value E W s pos n : RInv E W s pos -> n <= 64 ->
  (ws_strict (br_src s) = true -> pos + n <= W * N.of_nat (length (ws_words (br_src s)))) ->
  exists s', br_read_bits E W n s =
             Ok (val E (take_pad (N.to_nat n) (skipn (N.to_nat pos) (src_bits E W (br_src s)))), s') /\
             RInv E W s' (pos + n) /\ ws_words (br_src s') = ws_words (br_src s) /\
             ws_strict (br_src s') = ws_strict (br_src s).
Proof.
  intros HI Hn Hp.
  pose proof (read_bits_sim E W _ _ n _ s (rrelS_of_rrel E W _ s (rrel_rabs E W s pos HI))) as H.
  unfold rabs, src_bits in H. fold (aspec E W (ws_words (br_src s)) pos 0) in H.
  rewrite s_bits_ok in H; [| exact Hn | exact Hp]. cbn [osim] in H.
  destruct H as (s' & He & ((pos' & pk' & HI' & _ & Heq) & Hw & Hs)).
  exists s'. split; [exact He |]. unfold aspec, rabs in Heq. injection Heq as _ Hpos' _. subst pos'.
  auto.
Qed.

(* ------------------------------------------------------------------ examples *)
Definition ex_words8 : list N := [165; 60; 255].
Definition ex_words64 : list N := [12297829382473034410; 1; 18446744073709551615].

Example ex_forall8 : Forall (fun w => w < 2 ^ 8) ex_words8.
Proof. repeat constructor. Qed.
Example ex_forall64 : Forall (fun w => w < 2 ^ 64) ex_words64.
Proof. repeat constructor. Qed.
Example ex_ws8 : wordsize_ok 8 /\ 8 <= 64 /\ 8 * N.of_nat (length ex_words8) <= 2 ^ 64.
Proof. unfold wordsize_ok. repeat split; vm_compute; congruence. Qed.
Example ex_ws64 : wordsize_ok 64 /\ 64 <= 64 /\ 64 * N.of_nat (length ex_words64) <= 2 ^ 64.
Proof. unfold wordsize_ok. repeat split; vm_compute; congruence. Qed.

(* the hypotheses of the simulation theorems hold for a fresh reader ... *)
Example ex_rrel_new E : rrelS E 8 ex_words8 true (sreader_of (bits_of_words E 8 ex_words8)) (br_new ex_words8 true).
Proof.
  split; [| split; reflexivity]. exists 0, 0. split; [| split; [cbn; lia | reflexivity]].
  apply new_inv; [apply ex_ws8 | apply ex_ws8 | apply ex_forall8].
Qed.
(* ... and for a reader in the middle of a word with a non-empty buffer (after reading 11 bits) *)
Example ex_rinv_mid E : exists s', br_read_bits E 8 11 (br_new ex_words8 true) = Ok (val E (firstn 11 (bits_of_words E 8 ex_words8)), s') /\
  RInv E 8 s' 11 /\ br_bits s' = 5.
Proof.
  destruct (read_bits_value E 8 (br_new ex_words8 true) 0 11) as (s' & He & HI & _).
  - apply new_inv; [apply ex_ws8 | apply ex_ws8 | apply ex_forall8].
  - lia.
  - intros _. vm_compute. congruence.
  - exists s'. split; [rewrite He; destruct E; reflexivity |]. split; [exact HI |].
    destruct E; vm_compute in He; injection He as <-; reflexivity.
Qed.

(* concrete runs: value read = value of the stream bits, the buffer holds exactly the following
   stream bits (window), the other buffer bits are zero, pos + bits = idx * W *)
Definition ex_check (E : endian) (W : N) (ws : list N) (pos : N) (v : N) (n : N) (s' : breader) (pos' : N) : Prop :=
  v = val E (take_pad (N.to_nat n) (skipn (N.to_nat pos) (bits_of_words E W ws))) /\
  window E W s' = take_pad (N.to_nat (br_bits s')) (skipn (N.to_nat pos') (bits_of_words E W ws)) /\
  match E with
  | BE => br_buffer s' < 2 ^ (2 * W) /\ br_buffer s' mod 2 ^ (2 * W - br_bits s') = 0
  | LE => br_buffer s' < 2 ^ br_bits s'
  end /\
  pos' + br_bits s' = ws_idx (br_src s') * W /\ br_bits s' < 2 * W.

Example ex_read_BE8 : match br_read_bits BE 8 11 (br_new ex_words8 true) with
  | Ok (v, s') => ex_check BE 8 ex_words8 0 v 11 s' 11 /\ v = 1321 /\ br_bits s' = 5 | _ => False end.
Proof. vm_compute. repeat split; congruence. Qed.
Example ex_read_LE8 : match br_read_bits LE 8 11 (br_new ex_words8 true) with
  | Ok (v, s') => ex_check LE 8 ex_words8 0 v 11 s' 11 /\ v = 1189 /\ br_bits s' = 5 | _ => False end.
Proof. vm_compute. repeat split; congruence. Qed.
Example ex_read_BE64 : match br_read_bits BE 64 37 (br_new ex_words64 false) with
  | Ok (v, s') => ex_check BE 64 ex_words64 0 v 37 s' 37 /\ br_bits s' = 27 | _ => False end.
Proof. vm_compute. repeat split; congruence. Qed.
Example ex_read_LE64 : match br_read_bits LE 64 37 (br_new ex_words64 false) with
  | Ok (v, s') => ex_check LE 64 ex_words64 0 v 37 s' 37 /\ br_bits s' = 27 | _ => False end.
Proof. vm_compute. repeat split; congruence. Qed.

(* a read that crosses several whole words (W = 8, n = 64 from bit 3: slow path, 7 loop iterations) *)
Example ex_read_slow E : match br_read_bits E 8 3 (br_new [165; 60; 255; 1; 2; 3; 4; 5; 6; 7] true) with
  | Ok (_, s1) => match br_read_bits E 8 64 s1 with
                  | Ok (v, s') => ex_check E 8 [165; 60; 255; 1; 2; 3; 4; 5; 6; 7] 3 v 64 s' 67 /\ br_bits s' = 5
                  | _ => False end
  | _ => False end.
Proof. destruct E; vm_compute; repeat split; congruence. Qed.

(* a peek that refills: the position stays, the buffer gains a word *)
Example ex_peek_BE8 : match br_read_bits BE 8 5 (br_new ex_words8 true) with
  | Ok (_, s1) => br_bits s1 = 3 /\
      match br_peek BE 8 7 s1 with
      | Ok (v, s') => ex_check BE 8 ex_words8 5 v 7 s' 5 /\ br_bits s' = 11 | _ => False end
  | _ => False end.
Proof. vm_compute. repeat split; congruence. Qed.
Example ex_peek_LE8 : match br_read_bits LE 8 5 (br_new ex_words8 true) with
  | Ok (_, s1) => br_bits s1 = 3 /\
      match br_peek LE 8 7 s1 with
      | Ok (v, s') => ex_check LE 8 ex_words8 5 v 7 s' 5 /\ br_bits s' = 11 | _ => False end
  | _ => False end.
Proof. vm_compute. repeat split; congruence. Qed.
Example ex_peek_BE64 : match br_read_bits BE 64 40 (br_new ex_words64 false) with
  | Ok (_, s1) => br_bits s1 = 24 /\
      match br_peek BE 64 50 s1 with
      | Ok (v, s') => ex_check BE 64 ex_words64 40 v 50 s' 40 /\ br_bits s' = 88 | _ => False end
  | _ => False end.
Proof. vm_compute. repeat split; congruence. Qed.
Example ex_peek_LE64 : match br_read_bits LE 64 40 (br_new ex_words64 false) with
  | Ok (_, s1) => br_bits s1 = 24 /\
      match br_peek LE 64 50 s1 with
      | Ok (v, s') => ex_check LE 64 ex_words64 40 v 50 s' 40 /\ br_bits s' = 88 | _ => False end
  | _ => False end.
Proof. vm_compute. repeat split; congruence. Qed.

(* strict end of stream: reading past the 24 bits is Err; zero-extended: Ok *)
Example ex_strict_err E : br_read_bits E 8 25 (br_new ex_words8 true) = Err.
Proof. destruct E; reflexivity. Qed.
Example ex_zero_ext E : exists v s', br_read_bits E 8 25 (br_new ex_words8 false) = Ok (v, s').
Proof. destruct E; vm_compute; eauto. Qed.
(* seek *)
Example ex_seek E : match br_set_bit_pos E 8 13 (br_new ex_words8 true) with
  | Ok s' => br_bit_pos 8 s' = Ok 13 /\ br_bits s' = 3 | _ => False end.
Proof. destruct E; vm_compute; repeat split; congruence. Qed.

(* ------------------------------------------------------------------ statements as published in props/C02.v *)
Theorem set_bit_pos_ok64 E W s pos p : RInv E W s pos -> p < 2 ^ 64 ->
  (ws_strict (br_src s) = true -> p <= W * N.of_nat (length (ws_words (br_src s)))) ->
  exists s', br_set_bit_pos E W p s = Ok s' /\ RInv E W s' p /\
             ws_words (br_src s') = ws_words (br_src s) /\ ws_strict (br_src s') = ws_strict (br_src s).
Proof. intros HI _ Hp. apply (set_bit_pos_ok E W s pos p HI Hp). Qed.

Theorem seek_fresh_ok E W s pos p : RInv E W s pos ->
  (ws_strict (br_src s) = true -> p <= W * N.of_nat (length (ws_words (br_src s)))) ->
  exists s', br_set_bit_pos E W p s = Ok s' /\ RInv E W s' p /\
    rabs E W s' p 0 = rabs E W (br_new (ws_words (br_src s)) (ws_strict (br_src s))) p 0.
Proof.
  intros HI Hp. destruct (set_bit_pos_ok E W s pos p HI Hp) as (s' & He & HI' & Hw & Hs).
  exists s'. split; [exact He |]. split; [exact HI' |]. apply (seek_fresh E W s pos p s' HI He Hw).
Qed.

Theorem prims_sim_fun E W ws strict : W * N.of_nat (length ws) <= 2 ^ 64 ->
  rprims_sim (fun r s => rrel E W r s /\ ws_words (br_src s) = ws /\ ws_strict (br_src s) = strict)
             (sprims E strict W) (brprims E W).
Proof. exact (prims_sim E W ws strict). Qed.

Theorem programs_sim_fun E W ws strict A (p : rprog A) r s : W * N.of_nat (length ws) <= 2 ^ 64 ->
  rrel E W r s -> ws_words (br_src s) = ws -> ws_strict (br_src s) = strict ->
  osim (fun r s => rrel E W r s /\ ws_words (br_src s) = ws /\ ws_strict (br_src s) = strict)
       (rrun (sprims E strict W) p r) (rrun (brprims E W) p s).
Proof. intros Hb H1 H2 H3. apply (programs_sim E W ws strict A p r s Hb). split; [exact H1 | split; assumption]. Qed.

(* ------------------------------------------------------------------ why read_unary needs the length bound *)
Lemma unary_words_repeat W st k : forall idx res,
  unary_words W (repeat 0 k ++ [1]) idx res st = Ok (1, idx + N.of_nat k + 1, res + N.of_nat k * W).
Proof.
  induction k as [| k IH]; intros idx res; cbn [repeat app unary_words].
  - change (1 =? 0) with false. cbv iota. do 2 f_equal; [f_equal |]; lia.
  - change (0 =? 0) with true. cbv iota. rewrite IH. do 2 f_equal; [f_equal |]; lia.
Qed.

(* a source with k zero words followed by the word 1, k * 64 >= 2^64: the spec's read_unary is Ok or
   Err, the machine's checked addition overflows: Fail.  (No such source fits in memory.) *)
Lemma unary_overflow k : 2 ^ 64 <= N.of_nat k * 64 ->
  RInv BE 64 (br_new (repeat 0 k ++ [1]) true) 0 /\ br_read_unary BE 64 (br_new (repeat 0 k ++ [1]) true) = Fail.
Proof.
  intros Hk. split.
  - apply new_inv; [split; [lia | reflexivity] | lia |].
    apply Forall_app. split; [| repeat constructor].
    apply Forall_forall. intros x Hx. apply repeat_spec in Hx. subst x. reflexivity.
  - unfold br_read_unary, br_new. cbn [br_bits br_src br_buffer ws_idx ws_words ws_strict].
    change (2 * 64 <=? 0) with false. cbv iota.
    change (leading_zeros (2 * 64) 0 <? 0) with false. cbv iota.
    change (N.to_nat 0) with O. cbn [skipn].
    rewrite unary_words_repeat. cbn [obind].
    change (leading_zeros 64 1) with 63.
    change (wshl (2 * 64) 1 (64 + 63)) with (Some (2 ^ 127)).
    change (wshl (2 * 64) (2 ^ 127) 1) with (Some 0). cbn [oo'].
    unfold add64. rewrite W64_pow. destruct (N.ltb_spec (0 + N.of_nat k * 64 + 63) (2 ^ 64)); [lia | reflexivity].
Qed.

Theorem unary_unbounded_counterexample :
  exists r s, rrel BE 64 r s /\ ~ osim (rrel BE 64) (s_unary (ws_strict (br_src s)) r) (br_read_unary BE 64 s).
Proof.
  assert (Hk : 2 ^ 64 <= N.of_nat (N.to_nat (2 ^ 58)) * 64) by (rewrite N2Nat.id; discriminate).
  destruct (unary_overflow (N.to_nat (2 ^ 58)) Hk) as [HI HF].
  eexists. eexists. split; [apply (rrel_rabs BE 64 _ 0 HI) |].
  rewrite HF. unfold s_unary. cbn [br_new br_src ws_strict].
  destruct (count_zeros _); cbn [osim]; [intros (s2 & He & _) | intros He]; discriminate.
Qed.
