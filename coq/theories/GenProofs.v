(* GenProofs.v — the obligations discharged by computation over the GENERATED files
   (re-checked against what the source says on every run). *)
From DSI Require Import Base Codes CodeDefs CodesProofs2 TableCheck CodesProofs3.
From DSI.Gen Require Import GenTables GenParams.

(* every entry of every decoding / encoding / length table of gamma_tables.rs, delta_tables.rs,
   zeta_tables.rs, both endiannesses (2*(2^9+2^11+2^12) decoding patterns, all encoding entries):
   each entry agrees with the published codeword *)
Lemma the_tables_ok : check_tables the_tables = true.
Proof. vm_compute. reflexivity. Qed.

Lemma translator_ok : translator_ok_tables = true /\ translator_ok_params = true.
Proof. split; reflexivity. Qed.
