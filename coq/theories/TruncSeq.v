(* TruncSeq.v — C09 at the SEQUENCE level on the buffered word machine of any width: a strict source that
   holds, from the reader's position on, the codewords of `before` followed by a PROPER prefix `cut`
   (possibly empty) of the codeword of `it`: every item of `before` decodes to its value with its exact
   position, the read of `it` is an error, and so is the read of the whole sequence, whatever follows.
   Composition of EndToEnd.read_items_from with TruncMachine.truncated_code_err_machine. *)
From DSI Require Import Base Words Prog Codes CodeDefs Writer Reader Abs BitFacts CodesProofs
  Run CodesSummary BitsLemmasR ReaderProofs MachineTheorems EndToEnd TruncProofs TruncMachine.
From DSI.Gen Require Import GenTables GenParams.
From Coq Require Import ZifyBool ZifyNat ZifyN.
Arguments N.add : simpl never. Arguments N.sub : simpl never. Arguments N.mul : simpl never.
Arguments N.div : simpl never. Arguments N.modulo : simpl never. Arguments N.pow : simpl never.
Arguments N.eqb : simpl never. Arguments N.ltb : simpl never. Arguments N.leb : simpl never.
Arguments N.testbit : simpl never. Arguments N.of_nat : simpl never. Arguments N.to_nat : simpl never.
Open Scope N_scope.

(* ------------------------------------------------------------------ read_items on a concatenation *)
Lemma read_items_app E W D l1 : forall l2 s,
  read_items E W D (l1 ++ l2) s =
  obind (read_items E W D l1 s) (fun '(a, s1) =>
  obind (read_items E W D l2 s1) (fun '(b, s2) => Ok (a ++ b, s2))).
Proof.
  induction l1 as [| it r IH]; intros l2 s.
  - cbn [app read_items obind].
    destruct (read_items E W D l2 s) as [[b s2] | | |]; reflexivity.
  - cbn [app read_items].
    destruct (rrun (brprims E W) (sel_read E D (it_id it) (it_p it) (it_flr it)) s) as [[v s1] | | |];
      cbn [obind]; try reflexivity.
    destruct (br_bit_pos W s1) as [q | | |]; cbn [obind]; try reflexivity.
    rewrite IH.
    destruct (read_items E W D r s1) as [[a s2] | | |]; cbn [obind]; try reflexivity.
    destruct (read_items E W D l2 s2) as [[b s3] | | |]; cbn [obind]; reflexivity.
Qed.

(* a failing head makes the whole run fail *)
Lemma read_items_head_err E W D it after s :
  rrun (brprims E W) (sel_read E D (it_id it) (it_p it) (it_flr it)) s = Err ->
  read_items E W D (it :: after) s = Err.
Proof. intros H. cbn [read_items]. rewrite H. reflexivity. Qed.

Lemma read_items_app_err E W D l1 it after s a s1 :
  read_items E W D l1 s = Ok (a, s1) ->
  rrun (brprims E W) (sel_read E D (it_id it) (it_p it) (it_flr it)) s1 = Err ->
  read_items E W D (l1 ++ it :: after) s = Err.
Proof.
  intros H1 H2. rewrite read_items_app, H1. cbn [obind].
  rewrite (read_items_head_err E W D it after s1 H2). reflexivity.
Qed.

(* ------------------------------------------------------------------ the sequence-level theorem *)
(* hypotheses forced by the proofs used:
   - W * #words <= 2^64 and maxcap <= W (read_items_from, truncated_code_err_machine);
   - pos + LEN (stream E before) + 2 * W <= 2^64 (read_items_from: the checked u64 arithmetic of
     br_read_unary and br_bit_pos on the items that ARE decoded);
   - rest <> [] (the cut is a PROPER prefix; cut itself may be empty). *)
Theorem truncated_sequence E W D before it after s pos cut :
  RInv E W s pos -> ws_strict (br_src s) = true ->
  W * N.of_nat (length (ws_words (br_src s))) <= 2 ^ 64 -> maxcap <= W ->
  pos + LEN (stream E before) + 2 * W <= 2 ^ 64 ->
  Forall item_valid before -> item_valid it ->
  skipn (N.to_nat pos) (src_bits E W (br_src s)) = stream E before ++ cut ->
  (exists rest, rest <> [] /\ item_cw E it = cut ++ rest) ->
  exists s1,
    read_items E W D before s = Ok (decoded E pos before, s1) /\
    RInv E W s1 (pos + LEN (stream E before)) /\
    rrun (brprims E W) (sel_read E D (it_id it) (it_p it) (it_flr it)) s1 = Err /\
    read_items E W D (before ++ it :: after) s = Err.
Proof.
  intros HI Hst Hlen Hcap Hb Hvb Hvi Hsrc (rest & Hne & Hcw).
  destruct (read_items_from E W D before s pos cut HI Hlen Hcap Hvb Hsrc Hb) as (s1 & Hr & HI1 & Hw1 & Hst1).
  assert (Hsrc1 : src_bits E W (br_src s1) = src_bits E W (br_src s)) by (unfold src_bits; rewrite Hw1; reflexivity).
  assert (Hcut : skipn (N.to_nat (pos + LEN (stream E before))) (src_bits E W (br_src s1)) = cut).
  { rewrite Hsrc1. apply skipn_next. exact Hsrc. }
  assert (Herr : rrun (brprims E W) (sel_read E D (it_id it) (it_p it) (it_flr it)) s1 = Err).
  { apply (truncated_code_err_machine E W D (it_id it) (it_p it) (it_flr it) (it_v it) s1
             (pos + LEN (stream E before)) HI1).
    - rewrite Hst1. exact Hst.
    - rewrite Hw1. exact Hlen.
    - exact Hcap.
    - exact Hvi.
    - exists rest. split; [exact Hne |]. rewrite Hcut. exact Hcw. }
  exists s1. split; [exact Hr |]. split; [exact HI1 |]. split; [exact Herr |].
  exact (read_items_app_err E W D before it after s _ s1 Hr Herr).
Qed.

(* ------------------------------------------------------------------ a source that is a truncation of a valid stream *)
(* any cut point K strictly inside a stream falls inside (or at the start of) the codeword of exactly
   one item: `before` is the longest prefix of the items whose codewords fit entirely in K bits *)
Lemma split_at_cut E items : forall K : nat,
  (K < length (stream E items))%nat ->
  exists before it after, items = before ++ it :: after /\
    (length (stream E before) <= K < length (stream E before) + length (item_cw E it))%nat.
Proof.
  induction items as [| a r IH]; intros K HK.
  - cbn [stream flat_map length] in HK. lia.
  - rewrite stream_cons, app_length in HK.
    destruct (Nat.lt_ge_cases K (length (item_cw E a))) as [Hlt | Hge].
    + exists [], a, r. split; [reflexivity |]. cbn [stream flat_map length]. lia.
    + destruct (IH (K - length (item_cw E a))%nat ltac:(lia)) as (b & it & af & Heq & Hb).
      exists (a :: b), it, af. split; [rewrite Heq; reflexivity |].
      rewrite stream_cons, app_length. lia.
Qed.

Lemma firstn_stream_cut E before it after (K : nat) :
  (length (stream E before) <= K < length (stream E before) + length (item_cw E it))%nat ->
  firstn K (stream E (before ++ it :: after))
    = stream E before ++ firstn (K - length (stream E before)) (item_cw E it) /\
  skipn (K - length (stream E before)) (item_cw E it) <> [].
Proof.
  intros HK. split.
  - rewrite stream_app, stream_cons, firstn_app.
    rewrite firstn_all2 by lia. f_equal.
    rewrite firstn_app.
    replace (K - length (stream E before) - length (item_cw E it))%nat with 0%nat by lia.
    cbn [firstn]. apply app_nil_r.
  - intros Hnil. pose proof (f_equal (@length bool) Hnil) as Hl.
    rewrite skipn_length in Hl. cbn [length] in Hl. lia.
Qed.

(* the words of the strict source carry exactly the first K bits of the stream of
   before ++ it :: after, K falling inside (or at the start of) the codeword of `it` *)
Theorem truncated_stream_at E W D before it after ws (K : nat) :
  wordsize_ok W -> W <= 64 -> maxcap <= W ->
  Forall (fun w => w < 2 ^ W) ws -> W * N.of_nat (length ws) <= 2 ^ 64 ->
  LEN (stream E before) + 2 * W <= 2 ^ 64 ->
  Forall item_valid before -> item_valid it ->
  bits_of_words E W ws = firstn K (stream E (before ++ it :: after)) ->
  (length (stream E before) <= K < length (stream E before) + length (item_cw E it))%nat ->
  exists s1,
    read_items E W D before (br_new ws true) = Ok (decoded E 0 before, s1) /\
    RInv E W s1 (LEN (stream E before)) /\
    rrun (brprims E W) (sel_read E D (it_id it) (it_p it) (it_flr it)) s1 = Err /\
    read_items E W D (before ++ it :: after) (br_new ws true) = Err.
Proof.
  intros HW H64 Hcap Hws Hlen Hb Hvb Hvi Hbits HK.
  destruct (firstn_stream_cut E before it after K HK) as [Hf Hne].
  pose proof (ReaderProofs.new_inv E W ws true HW H64 Hws) as HI.
  destruct (truncated_sequence E W D before it after (br_new ws true) 0
              (firstn (K - length (stream E before)) (item_cw E it)) HI) as (s1 & H1 & H2 & H3 & H4).
  - reflexivity.
  - cbn [br_new br_src ws_words]. exact Hlen.
  - exact Hcap.
  - lia.
  - exact Hvb.
  - exact Hvi.
  - cbn [N.to_nat skipn]. unfold src_bits. cbn [br_new br_src ws_words]. rewrite Hbits. exact Hf.
  - exists (skipn (K - length (stream E before)) (item_cw E it)). split; [exact Hne |].
    symmetry. apply firstn_skipn.
  - exists s1. rewrite N.add_0_l in H2. auto.
Qed.

(* the corollary for any truncation point: the strict source holds exactly the first K bits of a
   valid stream, K < its length (K need not be off an item boundary: at a boundary the cut is the
   empty prefix of the next codeword): the items split as before ++ it :: after, `before` the longest
   prefix that fits, every item of `before` is decoded with its position, and the sequence read
   reports an error.
   hypothesis forced by the proofs used: LEN (stream E items) + 2 * W <= 2^64 (read_items_from's
   position bound for the decoded part; it also bounds the source: W * #words = K). *)
Theorem truncated_stream E W D items ws (K : nat) :
  wordsize_ok W -> W <= 64 -> maxcap <= W ->
  Forall (fun w => w < 2 ^ W) ws ->
  LEN (stream E items) + 2 * W <= 2 ^ 64 ->
  Forall item_valid items ->
  bits_of_words E W ws = firstn K (stream E items) ->
  (K < length (stream E items))%nat ->
  exists before it after s1,
    items = before ++ it :: after /\
    (length (stream E before) <= K < length (stream E before) + length (item_cw E it))%nat /\
    read_items E W D before (br_new ws true) = Ok (decoded E 0 before, s1) /\
    RInv E W s1 (LEN (stream E before)) /\
    rrun (brprims E W) (sel_read E D (it_id it) (it_p it) (it_flr it)) s1 = Err /\
    read_items E W D items (br_new ws true) = Err.
Proof.
  intros HW H64 Hcap Hws Hb Hv Hbits HK.
  destruct (split_at_cut E items K HK) as (before & it & after & Heq & HKb).
  subst items. apply Forall_app in Hv. destruct Hv as [Hvb Hvi].
  inversion Hvi as [| ? ? Hit _]; subst.
  assert (HlenK : W * N.of_nat (length ws) = N.of_nat K).
  { pose proof (f_equal (@length bool) Hbits) as Hl.
    rewrite bits_of_words_length, firstn_length in Hl. lia. }
  assert (Hsl : LEN (stream E before) <= LEN (stream E (before ++ it :: after))).
  { rewrite stream_app, LEN_app'. lia. }
  destruct (truncated_stream_at E W D before it after ws K HW H64 Hcap Hws) as (s1 & H1 & H2 & H3 & H4);
    try assumption.
  - unfold LEN in Hb. lia.
  - lia.
  - exists before, it, after, s1. auto 10.
Qed.

(* ------------------------------------------------------------------ examples (non-vacuity) *)
(* LE, 16-bit words: gamma 5 (5 bits) / zeta3 100 (11 bits) / delta 100000 (25 bits) / gamma 7 written
   through the 16-bit writer; the reader is given the first 2 words (32 bits) only, so the third item
   crosses the cut (16 of its 25 bits are present) *)
Definition ex_before : list item := [ mk_item 1 0 0 0 5; mk_item 12 0 0 1 100 ].
Definition ex_it : item := mk_item 2 0 0 0 100000.
Definition ex_after : list item := [ mk_item 1 0 0 0 7 ].
Definition ex_all : list item := ex_before ++ ex_it :: ex_after.

Definition ex_words (E : endian) (W : N) (items : list item) : list N :=
  match write_items E W buf_params true items (bw_new None W) with
  | Ok (_, s1) => match bw_flush E W s1 with
                  | Ok (_, s2) => words_of E W (bw_bytes E W s2)
                  | _ => [] end
  | _ => [] end.
Definition ex_ws : list N := firstn 2 (ex_words LE 16 ex_all).

Example ex_ws_val : ex_words LE 16 ex_all = [9620; 16944; 4365] /\ ex_ws = [9620; 16944].
Proof. vm_compute. split; reflexivity. Qed.
Example ex_lengths : decoded LE 0 ex_all = [(5, 5); (100, 16); (100000, 41); (7, 48)].
Proof. vm_compute. reflexivity. Qed.

(* the whole sequence read over the truncated strict source is an error ... *)
Example ex_trunc_err :
  match read_items LE 16 ex_Dr ex_all (br_new ex_ws true) with Err => true | _ => false end = true.
Proof. vm_compute. reflexivity. Qed.
(* ... while reading only the first two items returns their values and positions *)
Example ex_trunc_before :
  match read_items LE 16 ex_Dr ex_before (br_new ex_ws true) with
  | Ok (l, _) => Some l | _ => None end = Some [(5, 5); (100, 16)].
Proof. vm_compute. reflexivity. Qed.
(* the same on the untruncated words: everything decodes *)
Example ex_full_ok :
  match read_items LE 16 ex_Dr ex_all (br_new (ex_words LE 16 ex_all) true) with
  | Ok (l, _) => Some l | _ => None end = Some [(5, 5); (100, 16); (100000, 41); (7, 48)].
Proof. vm_compute. reflexivity. Qed.

(* the instance requested in the task: gamma 5 / zeta3 100 / delta 1000 fill the first 2 words exactly
   (5 + 11 + 16 = 32 bits), so the cut after 2 words does not cross the third item; the cut after
   1 word (16 bits) falls exactly between the second and the third item: cut = [] *)
Definition ex_all' : list item := ex_before ++ [mk_item 2 0 0 0 1000].
Example ex_lengths' : decoded LE 0 ex_all' = [(5, 5); (100, 16); (1000, 32)].
Proof. vm_compute. reflexivity. Qed.
Example ex_trunc_boundary :
  match read_items LE 16 ex_Dr ex_all' (br_new (firstn 1 (ex_words LE 16 ex_all')) true) with
  | Err => true | _ => false end = true /\
  match read_items LE 16 ex_Dr ex_before (br_new (firstn 1 (ex_words LE 16 ex_all')) true) with
  | Ok (l, _) => Some l | _ => None end = Some [(5, 5); (100, 16)].
Proof. vm_compute. split; reflexivity. Qed.

(* the hypotheses of truncated_sequence hold on the instance (cut = the first 16 bits of delta 100000) *)
Example ex_valid : Forall item_valid ex_all.
Proof.
  unfold ex_all, ex_before, ex_it, ex_after. cbn [app].
  repeat (apply Forall_cons; [unfold item_valid, valid, mk_item, U64MAX, W64; cbn [it_id it_p it_v]; lia |]).
  apply Forall_nil.
Qed.
Example ex_ws_lt : Forall (fun w => w < 2 ^ 16) ex_ws.
Proof.
  destruct ex_ws_val as [_ ->]. repeat (apply Forall_cons; [lia |]). apply Forall_nil.
Qed.
Example ex_bits : bits_of_words LE 16 ex_ws = firstn 32 (stream LE ex_all) /\
  (32 < length (stream LE ex_all))%nat /\
  (length (stream LE ex_before) <= 32 < length (stream LE ex_before) + length (item_cw LE ex_it))%nat.
Proof. vm_compute. split; [reflexivity |]. split; [lia | lia]. Qed.

Example ex_truncated_sequence : exists s1,
  read_items LE 16 ex_Dr ex_before (br_new ex_ws true) = Ok (decoded LE 0 ex_before, s1) /\
  RInv LE 16 s1 (0 + LEN (stream LE ex_before)) /\
  rrun (brprims LE 16) (sel_read LE ex_Dr (it_id ex_it) (it_p ex_it) (it_flr ex_it)) s1 = Err /\
  read_items LE 16 ex_Dr (ex_before ++ ex_it :: ex_after) (br_new ex_ws true) = Err.
Proof.
  pose proof ex_valid as Hv. unfold ex_all in Hv. apply Forall_app in Hv. destruct Hv as [Hvb Hvi].
  inversion Hvi as [| ? ? Hit _]; subst.
  assert (HW : wordsize_ok 16) by (split; [lia | reflexivity]).
  apply (truncated_sequence LE 16 ex_Dr ex_before ex_it ex_after (br_new ex_ws true) 0
           (firstn 16 (item_cw LE ex_it))).
  - apply ReaderProofs.new_inv; [exact HW | lia | exact ex_ws_lt].
  - reflexivity.
  - cbn [br_new br_src ws_words]. destruct ex_ws_val as [_ ->]. cbn [length]. lia.
  - rewrite maxcap_val. lia.
  - replace (LEN (stream LE ex_before)) with 16 by (vm_compute; reflexivity). lia.
  - exact Hvb.
  - exact Hit.
  - vm_compute. reflexivity.
  - exists (skipn 16 (item_cw LE ex_it)). split; [vm_compute; discriminate |].
    symmetry. apply firstn_skipn.
Qed.

Example ex_truncated_stream : exists before it after s1,
  ex_all = before ++ it :: after /\
  (length (stream LE before) <= 32 < length (stream LE before) + length (item_cw LE it))%nat /\
  read_items LE 16 ex_Dr before (br_new ex_ws true) = Ok (decoded LE 0 before, s1) /\
  RInv LE 16 s1 (LEN (stream LE before)) /\
  rrun (brprims LE 16) (sel_read LE ex_Dr (it_id it) (it_p it) (it_flr it)) s1 = Err /\
  read_items LE 16 ex_Dr ex_all (br_new ex_ws true) = Err.
Proof.
  destruct ex_bits as (Hb & HK & _).
  apply (truncated_stream LE 16 ex_Dr ex_all ex_ws 32).
  - split; [lia | reflexivity].
  - lia.
  - rewrite maxcap_val. lia.
  - exact ex_ws_lt.
  - replace (LEN (stream LE ex_all)) with 48 by (vm_compute; reflexivity). lia.
  - exact ex_valid.
  - exact Hb.
  - exact HK.
Qed.
