(* CodesSummary.v — one statement for all codes, parameters, table options and default
   methods, phrased on the SAME selection functions (Run.sel_write / sel_read / sel_len) that the
   correspondence check executes against the real crate, instantiated with the generated tables. *)
From DSI Require Import Base Prog Codes CodeDefs BitFacts CodesProofs CodesProofs2 TableCheck
  CodesProofs3 CodesProofs4 CodesProofs5 GenProofs Run.
From DSI.Gen Require Import GenTables GenParams.
From Coq Require Import ZifyBool ZifyNat ZifyN.
Arguments N.add : simpl never. Arguments N.sub : simpl never. Arguments N.mul : simpl never.
Arguments N.div : simpl never. Arguments N.modulo : simpl never. Arguments N.pow : simpl never.
Arguments N.eqb : simpl never. Arguments N.ltb : simpl never. Arguments N.leb : simpl never.
Arguments N.testbit : simpl never. Arguments N.log2 : simpl never.

(* the domain of each code (id as in Run.v): parameters and values *)
Definition valid (id p v : N) : Prop :=
  (id = 0 /\ v < U64MAX) \/ (id = 1 /\ v < U64MAX) \/ (id = 2 /\ v < U64MAX) \/ (id = 3 /\ v < U64MAX) \/
  (id = 4 /\ v < W64) \/ (id = 5 /\ v < W64) \/
  (id = 6 /\ 1 <= p /\ p <= 63 /\ v < U64MAX) \/
  (id = 7 /\ p <= 63 /\ v < U64MAX) \/
  (id = 8 /\ 1 <= p /\ p < W64 /\ v < U64MAX) \/
  (id = 9 /\ p <= 63 /\ v < U64MAX) \/
  (id = 10 /\ p <= 63 /\ v < U64MAX) \/
  (id = 11 /\ 1 <= p /\ p < W64 /\ v < p) \/
  (id = 12 /\ v < U64MAX).

(* the codeword the library writes: the published definition, except that zeta uses the
   interval bound as the Rust computes it (equal to the published one under the guard) *)
Definition code_cw (E : endian) (id p v : N) : bits :=
  match id with
  | 0 => unary v | 1 => def_gamma E v | 2 => def_delta E v | 3 => def_omega E v
  | 4 => def_vbyte E false v | 5 => def_vbyte E true v
  | 6 => cw_zeta E p v | 7 => def_pi E p v | 8 => def_golomb E p v
  | 9 => def_exp_golomb E p v | 10 => def_rice E p v | 11 => def_minimal_binary E v p
  | 12 => cw_zeta E 3 v
  | _ => []
  end.
(* the published definition (what the DEF scenario of Run.v evaluates, see run_def_spec) *)
Definition code_def (E : endian) (id p v : N) : bits :=
  if id =? 6 then def_zeta E p v else if id =? 12 then def_zeta E 3 v else code_cw E id p v.

Definition maxcap : N :=
  N.max (t_read_bits (tg the_tables)) (N.max (t_read_bits (td the_tables)) (t_read_bits (tz the_tables))).

Lemma maxcap_g ut : gcap the_tables ut <= maxcap.
Proof. unfold gcap, maxcap. destruct ut; lia. Qed.
Lemma maxcap_d udt ugt : dcap the_tables udt ugt <= maxcap.
Proof. unfold dcap, gcap, maxcap. destruct udt, ugt; lia. Qed.

Theorem codes_correct E D checks id p fl v : valid id p v ->
  wr E checks (sel_write E D checks id p fl v) (code_cw E id p v) /\
  rd E maxcap (sel_read E D id p fl) (code_cw E id p v) v /\
  sel_len D id p fl v = Some (LEN (code_cw E id p v)).
Proof.
  pose proof the_tables_ok as Tok.
  intros H. unfold valid in H.
  destruct H as [[-> H]|[[-> H]|[[-> H]|[[-> H]|[[-> H]|[[-> H]|[[-> H]|[[-> H]|[[-> H]|[[-> H]|[[-> H]|[[-> H]|[-> H]]]]]]]]]]]]];
    cbn [sel_write sel_read sel_len code_cw].
  - split; [apply unary_wr; exact H|]. split; [eapply rd_mono; [|apply unary_rd]; lia|]. apply unary_len. exact H.
  - split; [|split].
    + destruct (fl =? 4); apply gamma_param_wr; assumption.
    + destruct (fl =? 4); (eapply rd_mono; [apply maxcap_g | apply gamma_param_rd; assumption]).
    + destruct (fl =? 4); unfold len_gamma; apply len_gamma_param_ok; assumption.
  - split; [|split].
    + destruct (fl =? 4); apply delta_param_wr; assumption.
    + destruct (fl =? 4); (eapply rd_mono; [apply maxcap_d | apply delta_param_rd; assumption]).
    + destruct (fl =? 4); unfold len_delta; apply len_delta_param_ok; assumption.
  - split; [apply omega_wr; exact H|]. split; [eapply rd_mono; [|apply omega_rd; exact H]; unfold maxcap; pose proof Tok; vm_compute; discriminate|].
    apply len_omega_ok. exact H.
  - split; [apply vbyte_be_wr; exact H|]. split; [eapply rd_mono; [|apply vbyte_be_rd; exact H]; lia|]. apply bit_len_vbyte_ok. exact H.
  - split; [apply vbyte_le_wr; exact H|]. split; [eapply rd_mono; [|apply vbyte_le_rd; exact H]; lia|]. apply bit_len_vbyte_ok. exact H.
  - destruct H as (H1 & H2 & H3). split; [apply zeta_wr; lia|]. split; [eapply rd_mono; [|apply zeta_rd; lia]; lia|].
    destruct (fl =? 4); unfold len_zeta; apply (len_zeta_param_ok E _ Tok); lia.
  - destruct H as (H1 & H2). split; [apply pi_wr; lia|]. split; [eapply rd_mono; [|apply pi_rd; lia]; lia|]. apply len_pi_ok; lia.
  - destruct H as (H1 & H2 & H3). split; [apply golomb_wr; lia|]. split; [eapply rd_mono; [|apply golomb_rd; lia]; lia|]. apply len_golomb_ok; lia.
  - destruct H as (H1 & H2). split; [apply (exp_golomb_wr E _ Tok); lia|].
    split; [eapply rd_mono; [apply maxcap_g | apply (exp_golomb_rd E _ Tok); lia]|]. apply (len_exp_golomb_ok E _ Tok); lia.
  - destruct H as (H1 & H2). split; [apply rice_wr; lia|]. split; [eapply rd_mono; [|apply rice_rd; lia]; lia|]. apply len_rice_ok; lia.
  - destruct H as (H1 & H2 & H3). split; [apply mb_wr; lia|]. split; [eapply rd_mono; [|apply mb_rd; lia]; lia|].
    f_equal. apply len_minimal_binary_spec; lia.
  - split; [|split].
    + destruct (fl =? 4); apply (zeta3_param_wr E _ Tok); assumption.
    + destruct (fl =? 4); (eapply rd_mono; [|apply (zeta3_param_rd E _ Tok); assumption]); unfold maxcap;
        match goal with |- context [if ?b then _ else _] => destruct b end; lia.
    + destruct (fl =? 4); unfold len_zeta; apply (len_zeta_param_ok E _ Tok); (lia || assumption).
Qed.

(* under the property's guard for zeta, the written codeword is the published one *)
Definition zeta_guard (id p v : N) : Prop :=
  (id = 6 -> (N.log2 (v + 1) / p + 1) * p < 64) /\ (id = 12 -> (N.log2 (v + 1) / 3 + 1) * 3 < 64).
Theorem code_cw_is_def E id p v : zeta_guard id p v -> code_cw E id p v = code_def E id p v.
Proof.
  intros [G6 G12]. unfold code_def.
  destruct (id =? 6) eqn:H6; [assert (id = 6) as -> by lia; apply cw_zeta_def, G6; reflexivity|].
  destruct (id =? 12) eqn:H12; [assert (id = 12) as -> by lia; apply cw_zeta_def, G12; reflexivity|].
  reflexivity.
Qed.

(* the DEF scenario of the correspondence check evaluates exactly code_def *)
Theorem run_def_spec E id p v : valid id p v ->
  run_def E [id; p; v] = 0 :: LEN (code_def E id p v) :: image E (code_def E id p v).
Proof.
  intros H. unfold valid in H.
  destruct H as [[-> H]|[[-> H]|[[-> H]|[[-> H]|[[-> H]|[[-> H]|[[-> H]|[[-> H]|[[-> H]|[[-> H]|[[-> H]|[[-> H]|[-> H]]]]]]]]]]]]];
    reflexivity.
Qed.
