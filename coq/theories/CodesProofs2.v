(* CodesProofs2.v — Rice, pi, Golomb, zeta (bit by bit); the generic table lemmas
   (table-driven = bit-by-bit given a sound table); gamma/delta/zeta3 with every table option;
   exp-Golomb; omega. *)
From DSI Require Import Base Prog Codes CodeDefs BitFacts CodesProofs.
From Coq Require Import ZifyBool ZifyNat ZifyN.
Ltac Zify.zify_post_hook ::= Z.div_mod_to_equations.
Arguments N.add : simpl never. Arguments N.sub : simpl never. Arguments N.mul : simpl never.
Arguments N.div : simpl never. Arguments N.modulo : simpl never. Arguments N.pow : simpl never.
Arguments N.eqb : simpl never. Arguments N.ltb : simpl never. Arguments N.leb : simpl never.
Arguments N.testbit : simpl never. Arguments N.of_nat : simpl never. Arguments N.to_nat : simpl never.
Arguments N.log2 : simpl never. Arguments N.lxor : simpl never. Arguments N.land : simpl never.
Arguments N.lor : simpl never.
Open Scope prog_scope.

Lemma mask_u128_lt k : k < 64 -> mask_u128 k = 2 ^ k - 1.
Proof. intros H. unfold mask_u128. apply N.mod_small. pose proof (pow2_lt_W64 k H). pose proof (pow2_pos k). lia. Qed.
Lemma land_mask k n : k < 64 -> N.land n (mask_u128 k) = n mod 2 ^ k.
Proof.
  intros H. rewrite mask_u128_lt by exact H. replace (2 ^ k - 1) with (N.ones k) by (rewrite N.ones_equiv; lia).
  apply N.land_ones.
Qed.
Lemma nthN_some {A} (l : list A) i : i < N.of_nat (length l) -> exists x, nthN l i = Some x.
Proof.
  intros H. unfold nthN. destruct (i <? N.of_nat (length l)) eqn:Hc; [|lia].
  destruct (nth_error l (N.to_nat i)) eqn:Hn; [eauto|]. apply nth_error_None in Hn. lia.
Qed.
Lemma nthN_bound {A} (l : list A) i x : nthN l i = Some x -> i < N.of_nat (length l).
Proof. unfold nthN. destruct (i <? N.of_nat (length l)) eqn:Hc; [lia | discriminate]. Qed.

Section CodeFacts2.
  Variable E : endian.
  Notation wr := (wr E). Notation rd := (rd E).

  (* ---------------- rice ---------------- *)
  Lemma rice_wr checks n k : k < 64 -> n < U64MAX -> wr checks (write_rice checks n k) (def_rice E k n).
  Proof.
    intros Hk Hn. unfold write_rice, def_rice.
    eapply wr_lift; [apply shr64_ok; exact Hk|].
    pose proof (pow2_pos k) as Hp.
    apply wr_seq.
    - apply wr_unary. assert (n / 2 ^ k <= n) by (apply N.div_le_upper_bound; nia). lia.
    - destruct checks.
      + rewrite land_mask by exact Hk. apply wr_bits; [lia | right; apply N.mod_lt; lia].
      + eapply wr_ext; [|apply wr_bits; [lia | left; reflexivity]].
        unfold fld. apply field_eq_mod. rewrite N2Nat.id. rewrite N.mod_mod by lia. reflexivity.
  Qed.
  Lemma rice_rd n k : k < 64 -> n < U64MAX -> rd 0 (read_rice k) (def_rice E k n) n.
  Proof.
    intros Hk Hn. unfold read_rice, def_rice. pose proof (pow2_pos k) as Hp.
    apply rd_unary. eapply rd_ext; [apply app_nil_r|].
    apply rd_bits; [lia|]. rewrite N.mod_mod by lia.
    assert (n / 2 ^ k * 2 ^ k + n mod 2 ^ k = n) as Hdm by (rewrite N.mul_comm; symmetry; apply N.div_mod; lia).
    assert (n < W64) as HnW by (unfold U64MAX in Hn; unfold W64; lia).
    eapply rd_lift; [apply shl64_ok; [exact Hk | lia]|].
    eapply rd_lift; [apply add64_ok; lia|].
    rewrite Hdm. apply rd_ret.
  Qed.
  Lemma def_rice_len k n : LEN (def_rice E k n) = n / 2 ^ k + 1 + k.
  Proof. unfold def_rice. rewrite LEN_app, LEN_unary, LEN_fld. reflexivity. Qed.

  (* ---------------- pi ---------------- *)
  Lemma pi_wr checks n k : k < 64 -> n < U64MAX -> wr checks (write_pi checks n k) (def_pi E k n).
  Proof.
    intros Hk Hn. unfold write_pi, def_pi.
    assert (n + 1 < W64) as H1 by (unfold U64MAX in Hn; unfold W64; lia).
    eapply wr_lift; [apply add64_ok; exact H1|].
    eapply wr_lift; [apply ilog2_ok; lia|].
    pose proof (log2_lt_64 (n + 1)) as HL.
    apply wr_seq.
    - apply rice_wr; [exact Hk | unfold U64MAX; lia].
    - apply tail_wr; [lia | exact H1].
  Qed.
  Lemma pi_rd n k : k < 64 -> n < U64MAX -> rd 0 (read_pi k) (def_pi E k n) n.
  Proof.
    intros Hk Hn. unfold read_pi, def_pi.
    assert (n + 1 < W64) as H1 by (unfold U64MAX in Hn; unfold W64; lia).
    pose proof (log2_lt_64 (n + 1)) as HL.
    eapply rd_bind; [apply rice_rd; [exact Hk | unfold U64MAX; lia]|].
    eapply rd_lift; [apply shl64_one; lia|].
    eapply rd_ext; [apply app_nil_r|].
    apply tail_rd; [lia | exact H1|].
    pose proof (tail_arith_rd' E 0 (n + 1) ltac:(lia) H1) as HT. cbn zeta in HT.
    replace (n + 1 - 1) with n in HT by lia. exact HT.
  Qed.

  (* ---------------- golomb ---------------- *)
  Lemma golomb_wr checks n b : 0 < b -> b < W64 -> n < U64MAX -> wr checks (write_golomb n b) (def_golomb E b n).
  Proof.
    intros Hb HbW Hn. unfold write_golomb, def_golomb.
    eapply wr_lift; [apply div64_ok; exact Hb|].
    apply wr_seq.
    - apply wr_unary. assert (n / b <= n) by (apply N.div_le_upper_bound; nia). lia.
    - apply mb_wr; [exact Hb | exact HbW | apply N.mod_lt; lia].
  Qed.
  Lemma golomb_rd n b : 0 < b -> b < W64 -> n < U64MAX -> rd 0 (read_golomb b) (def_golomb E b n) n.
  Proof.
    intros Hb HbW Hn. unfold read_golomb, def_golomb.
    assert (n < W64) as HnW by (unfold U64MAX in Hn; unfold W64; lia).
    assert (b * (n / b) + n mod b = n) as Hdm by (symmetry; apply N.div_mod; lia).
    apply rd_unary.
    eapply rd_lift; [apply mul64_ok; nia|].
    eapply rd_ext; [apply app_nil_r|].
    eapply rd_bind; [apply mb_rd; [exact Hb | exact HbW | apply N.mod_lt; lia]|].
    eapply rd_lift; [apply add64_ok; nia|].
    replace (n / b * b + n mod b) with n by nia. apply rd_ret.
  Qed.

  (* ---------------- zeta ---------------- *)
  (* the interval bound the Rust computes with u64 wrap-around: 2^((h+1)k) - 2^(hk) when it fits,
     2^64 - 2^(hk) otherwise *)
  Definition zeta_u (h k : N) : N :=
    if (h + 1) * k <? 64 then 2 ^ ((h + 1) * k) - 2 ^ (h * k) else W64 - 2 ^ (h * k).
  Definition cw_zeta (k n : N) : bits :=
    let m := n + 1 in let h := N.log2 m / k in
    unary h ++ def_minimal_binary E (m - 2 ^ (h * k)) (zeta_u h k).

  Lemma cw_zeta_def k n : (N.log2 (n + 1) / k + 1) * k < 64 -> cw_zeta k n = def_zeta E k n.
  Proof. intros H. unfold cw_zeta, def_zeta, zeta_u. destruct (_ <? 64) eqn:Hc; [reflexivity | lia]. Qed.

  Lemma zeta_max_spec h k : 0 < k -> k < 64 -> h * k < 64 -> zeta_max (2 ^ (h * k)) k = Some (zeta_u h k).
  Proof.
    intros Hk0 Hk Hhk. unfold zeta_max, zeta_u. unfold shl64. destruct (k <? 64) eqn:Hc; [|lia]. f_equal.
    rewrite <- N.pow_add_r. replace (h * k + k) with ((h + 1) * k) by lia.
    pose proof (pow2_lt_W64 (h * k) Hhk) as Hl. pose proof (pow2_pos (h * k)) as Hl0.
    unfold wsub64. rewrite (N.mod_small (2 ^ (h * k))) by exact Hl.
    destruct ((h + 1) * k <? 64) eqn:Hd.
    - assert (2 ^ ((h + 1) * k) < W64) as Hu by (apply pow2_lt_W64; lia).
      rewrite (N.mod_small _ _ Hu).
      assert (2 ^ (h * k) <= 2 ^ ((h + 1) * k)) by (apply N.pow_le_mono_r; lia).
      replace (2 ^ ((h + 1) * k) + W64 - 2 ^ (h * k)) with (2 ^ ((h + 1) * k) - 2 ^ (h * k) + 1 * W64) by lia.
      rewrite N.mod_add by (unfold W64; lia). apply N.mod_small. lia.
    - replace ((h + 1) * k) with (64 + ((h + 1) * k - 64)) by lia.
      rewrite N.pow_add_r. change (2 ^ 64) with W64.
      rewrite N.mul_comm, N.mod_mul by (unfold W64; lia).
      rewrite N.add_0_l. apply N.mod_small. lia.
  Qed.

  Lemma zeta_facts k n : 0 < k -> k < 64 -> n < U64MAX ->
    let m := n + 1 in let h := N.log2 m / k in
    h * k < 64 /\ zeta_hl m k = Some (h, 2 ^ (h * k)) /\ 2 ^ (h * k) <= m /\
    0 < zeta_u h k /\ zeta_u h k < W64 /\ m - 2 ^ (h * k) < zeta_u h k /\ h < 64.
  Proof.
    intros Hk0 Hk Hn m h.
    assert (m < W64) as HmW by (unfold m; unfold U64MAX in Hn; unfold W64; lia).
    assert (0 < m) as Hm0 by (unfold m; lia).
    pose proof (log2_lt_64 m Hm0 HmW) as HL. pose proof (log2_bounds m Hm0) as [A B].
    assert (h * k <= N.log2 m) as Hhk by (unfold h; nia).
    assert (N.log2 m < (h + 1) * k) as Hlt by (unfold h; nia).
    assert (h <= N.log2 m) as Hh by (unfold h; apply N.div_le_upper_bound; nia).
    assert (2 ^ (h * k) <= m) as Hle.
    { apply N.le_trans with (2 ^ N.log2 m); [apply N.pow_le_mono_r; lia | exact A]. }
    split; [lia|]. split.
    { unfold zeta_hl. rewrite ilog2_ok by exact Hm0. rewrite div64_ok by exact Hk0. fold h.
      rewrite shl64_one by lia. reflexivity. }
    split; [exact Hle|].
    pose proof (pow2_pos (h * k)) as Hp. pose proof (pow2_lt_W64 (h * k)) as HpW.
    unfold zeta_u. destruct ((h + 1) * k <? 64) eqn:Hd.
    - assert (2 ^ (h * k) < 2 ^ ((h + 1) * k)) by (apply N.pow_lt_mono_r; lia).
      assert (2 ^ ((h + 1) * k) < W64) by (apply pow2_lt_W64; lia).
      assert (m < 2 ^ ((h + 1) * k)).
      { apply N.lt_le_trans with (2 ^ (N.log2 m + 1)); [exact B | apply N.pow_le_mono_r; lia]. }
      repeat split; lia.
    - repeat split; lia.
  Qed.

  Lemma zeta_wr checks n k : 0 < k -> k < 64 -> n < U64MAX -> wr checks (default_write_zeta n k) (cw_zeta k n).
  Proof.
    intros Hk0 Hk Hn. unfold default_write_zeta, cw_zeta.
    destruct (zeta_facts k n Hk0 Hk Hn) as (Hhk & Hhl & Hle & Hu0 & HuW & Hx & Hh).
    assert (n + 1 < W64) as H1 by (unfold U64MAX in Hn; unfold W64; lia).
    eapply wr_lift; [apply add64_ok; exact H1|].
    eapply wr_lift; [exact Hhl|]. cbn beta iota.
    eapply wr_lift; [apply zeta_max_spec; assumption|].
    apply wr_seq.
    - apply wr_unary. unfold U64MAX. lia.
    - apply mb_wr; assumption.
  Qed.
  Lemma zeta_rd n k : 0 < k -> k < 64 -> n < U64MAX -> rd 0 (default_read_zeta k) (cw_zeta k n) n.
  Proof.
    intros Hk0 Hk Hn. unfold default_read_zeta, cw_zeta.
    destruct (zeta_facts k n Hk0 Hk Hn) as (Hhk & Hhl & Hle & Hu0 & HuW & Hx & Hh).
    assert (n + 1 < W64) as H1 by (unfold U64MAX in Hn; unfold W64; lia).
    apply rd_unary.
    eapply rd_lift; [apply shl64_one; exact Hhk|].
    eapply rd_lift; [apply zeta_max_spec; assumption|].
    eapply rd_ext; [apply app_nil_r|].
    eapply rd_bind; [apply mb_rd; assumption|].
    eapply rd_lift; [apply add64_ok; lia|].
    eapply rd_lift; [apply sub64_ok; lia|].
    replace (2 ^ (N.log2 (n + 1) / k * k) + (n + 1 - 2 ^ (N.log2 (n + 1) / k * k)) - 1) with n by lia.
    apply rd_ret.
  Qed.

  (* ---------------- generic table lemmas ---------------- *)
  Section Table.
    Variable t : tbl.
    Variable def : N -> bits.
    Variable dom : N -> Prop.
    Variable slow : rprog N.
    Variable c0 : N.      (* look-ahead the bit-by-bit reader itself needs (its own tables) *)
    Let RB := t_read_bits t.
    Hypothesis RB_pos : 1 <= RB.
    Hypothesis slow_rd : forall v, dom v -> rd c0 slow (def v) v.
    (* soundness of the decoding table: a non-missing entry for the RB-bit pattern idx names a
       value whose codeword is exactly the first `len` bits of the pattern *)
    Hypothesis rlen_length : N.of_nat (length (t_read_len E t)) = 2 ^ RB.
    Hypothesis rsound : forall idx len, nthN (t_read_len E t) idx = Some len -> len <> t_missing E t ->
      exists v, nthN (t_read E t) idx = Some v /\ dom v /\ len <= RB /\
                firstn (N.to_nat len) (field E idx (N.to_nat RB)) = def v.

    Lemma table_rd v : dom v ->
      rd (N.max RB c0) (o <- read_table E t ;; match o with Some (res, _) => RRet res | None => slow end) (def v) v.
    Proof.
      intros Hv strict cap post pos pk Hcap. rewrite rrun_bind. unfold read_table. fold RB.
      cbn [rrun sprims p_peek].
      rewrite s_peek_spec by lia.
      destruct (strict && (N.of_nat (length (def v ++ post)) <? RB)) eqn:Hs.
      { (* look-ahead beyond the end of a strict stream: fall back *)
        cbn [rrun]. apply (slow_rd v Hv); lia. }
      set (S := def v ++ (post ++ zeros (N.to_nat RB))).
      set (bsRB := firstn (N.to_nat RB) ((def v ++ post) ++ zeros (N.to_nat RB))).
      assert (length bsRB = N.to_nat RB) as HlenRB.
      { unfold bsRB. rewrite firstn_length, !app_length, zeros_length. lia. }
      assert (bsRB = firstn (N.to_nat RB) S) as HbsS by (unfold bsRB, S; rewrite <- app_assoc; reflexivity).
      set (idx := val E bsRB).
      assert (idx < 2 ^ RB) as Hidx.
      { unfold idx. pose proof (val_bound E bsRB) as Hb. rewrite HlenRB, N2Nat.id in Hb. exact Hb. }
      destruct (nthN_some (t_read_len E t) idx) as [len Hlen]; [rewrite rlen_length; exact Hidx|].
      cbn [rrun]. rewrite Hlen. cbn [rlift].
      destruct (len =? t_missing E t) eqn:Hm.
      { cbn [rrun]. apply (slow_rd v Hv); lia. }
      destruct (rsound idx len Hlen ltac:(lia)) as (v' & Hv' & Hdom' & HlenRBle & Hcw).
      assert (field E idx (N.to_nat RB) = bsRB) as Hf by (unfold idx; rewrite <- HlenRB; apply field_val).
      rewrite Hf in Hcw.
      assert (def v' = firstn (N.to_nat len) S) as HcwS.
      { rewrite <- Hcw, HbsS. apply firstn_firstn_le. lia. }
      assert (S = def v' ++ skipn (N.to_nat len) S) as HS by (rewrite HcwS; symmetry; apply firstn_skipn).
      (* the bit-by-bit decoder is a function of the stream: both factorizations agree *)
      destruct (slow_rd v Hv false cap (post ++ zeros (N.to_nat RB)) pos pk ltac:(lia)) as [pk1 H1].
      destruct (slow_rd v' Hdom' false cap (skipn (N.to_nat len) S) pos pk ltac:(lia)) as [pk2 H2].
      fold S in H1. rewrite <- HS in H2. rewrite H1 in H2. injection H2 as Hvv _ Hpos _.
      subst v'.
      assert (LEN (def v) = len) as HL.
      { unfold LEN. rewrite HcwS at 1. rewrite firstn_length.
        assert (N.to_nat len <= length S)%nat; [|lia].
        unfold S. rewrite !app_length, zeros_length. lia. }
      cbn [rrun sprims p_skipap]. unfold s_skipap. cbn [mkr sr_peeked].
      destruct (N.max pk RB <? len) eqn:Hpk; [lia|].
      fold (mkr (def v ++ post) pos (N.max pk RB)).
      rewrite s_take_app by exact HL. cbn [mkr sr_rest sr_pos].
      rewrite Hv'. cbn [rlift rrun]. eexists. rewrite HL. reflexivity.
    Qed.

    (* encoding table *)
    Variable slow_w : N -> wprog N.
    Variable checks : bool.
    Hypothesis slow_wr : forall v, dom v -> wr checks (slow_w v) (def v).
    Hypothesis wsound : forall v bits, nthN (t_write E t) v = Some bits ->
      exists len, nthN (t_write_len E t) v = Some len /\ len <= 64 /\ bits < 2 ^ len /\ fld E bits len = def v.

    Lemma table_wr v : dom v ->
      wr checks (o <-- write_table E t v ;; match o with Some len => wret len | None => slow_w v end) (def v).
    Proof.
      intros Hv s. rewrite wrun_bind. unfold write_table.
      destruct (nthN (t_write E t) v) as [bits|] eqn:Hb.
      - destruct (wsound v bits Hb) as (len & Hl & Hle & Hclean & Hcw).
        rewrite Hl. cbn [wlift]. rewrite wrun_bind.
        rewrite (wr_bits E checks bits len Hle (or_intror Hclean)).
        cbn [wrun wret]. rewrite <- Hcw, LEN_fld. reflexivity.
      - cbn [wrun wret]. apply slow_wr. exact Hv.
    Qed.
  End Table.
End CodeFacts2.
