(* IoViewsProofs.v — property C12: the std::io::Write / std::io::Read views of a bit stream
   (World.v, Section IoViews) are byte-exact on the L0 bit-list specification:
   io_write appends exactly bits_of_bytes of the slice (any starting bit offset, any length,
   argument checks on or off) and reports the whole slice; io_read returns the next 8*len
   stream bits grouped in stream order; the two compose to the identity; a strict stream that
   is too short gives Err. *)
From DSI Require Import Base Prog Words Codes World BitFacts CodesProofs.
From Coq Require Import ZifyBool ZifyNat ZifyN.
Ltac Zify.zify_post_hook ::= Z.div_mod_to_equations.
Arguments N.add : simpl never. Arguments N.sub : simpl never. Arguments N.mul : simpl never.
Arguments N.div : simpl never. Arguments N.modulo : simpl never. Arguments N.pow : simpl never.
Arguments N.eqb : simpl never. Arguments N.ltb : simpl never. Arguments N.leb : simpl never.
Arguments N.testbit : simpl never. Arguments N.of_nat : simpl never. Arguments N.to_nat : simpl never.
Open Scope prog_scope.

Definition lt256 (b : N) : Prop := b < 256.
Definition pk_after (bytes : list N) (pk : N) : N := match bytes with [] => pk | _ :: _ => 0 end.

(* ------------------------------------------------------------------ lists of bytes *)
Lemma Forall_firstn_ {A} (P : A -> Prop) n l : Forall P l -> Forall P (firstn n l).
Proof. intros H. rewrite <- (firstn_skipn n l) in H. apply Forall_app in H. apply H. Qed.
Lemma Forall_skipn_ {A} (P : A -> Prop) n l : Forall P l -> Forall P (skipn n l).
Proof. intros H. rewrite <- (firstn_skipn n l) in H. apply Forall_app in H. apply H. Qed.

Lemma bob_cons E b r : bits_of_bytes E (b :: r) = field E b 8 ++ bits_of_bytes E r.
Proof. reflexivity. Qed.
Lemma bob_nil E : bits_of_bytes E [] = [].
Proof. reflexivity. Qed.
Lemma bob_app E a b : bits_of_bytes E (a ++ b) = bits_of_bytes E a ++ bits_of_bytes E b.
Proof. unfold bits_of_bytes. apply flat_map_app. Qed.
Lemma bob_length E l : length (bits_of_bytes E l) = (8 * length l)%nat.
Proof.
  induction l as [|b r IH]; [reflexivity|].
  rewrite bob_cons, app_length, field_length, IH. cbn [length]. lia.
Qed.
Lemma bob_split E n l :
  bits_of_bytes E l = bits_of_bytes E (firstn n l) ++ bits_of_bytes E (skipn n l).
Proof. rewrite <- bob_app, firstn_skipn. reflexivity. Qed.

(* ------------------------------------------------------------------ value of a byte sequence *)
Lemma pow2_8 : 2 ^ N.of_nat 8 = 256.
Proof. reflexivity. Qed.

Lemma val_le_bob l : Forall lt256 l -> val_le (bits_of_bytes LE l) = of_le_bytes l.
Proof.
  induction l as [|b r IH]; intros HF; [reflexivity|].
  inversion HF as [|? ? Hb Hr]; subst. unfold lt256 in Hb.
  rewrite bob_cons. cbn [field of_le_bytes].
  rewrite val_le_app, field_le_length, val_le_field_le, pow2_8, IH by exact Hr.
  rewrite N.mod_small by exact Hb. reflexivity.
Qed.

Lemma rev_bob_be l : rev (bits_of_bytes BE l) = bits_of_bytes LE (rev l).
Proof.
  induction l as [|b r IH]; [reflexivity|].
  rewrite bob_cons, rev_app_distr, IH. cbn [rev field]. unfold field_be. rewrite rev_involutive.
  rewrite bob_app, bob_cons, bob_nil, app_nil_r. reflexivity.
Qed.

Lemma val_bob E l : Forall lt256 l -> val E (bits_of_bytes E l) = word_of_bytes E l.
Proof.
  intros HF. destruct E; cbn [val word_of_bytes].
  - rewrite val_be_rev, rev_bob_be. apply val_le_bob. apply Forall_rev. exact HF.
  - apply val_le_bob. exact HF.
Qed.

(* from_be_bytes / from_le_bytes of k bytes fits into 8k bits *)
Lemma word_of_bytes_bound E l :
  Forall lt256 l -> word_of_bytes E l < 2 ^ (8 * N.of_nat (length l)).
Proof.
  intros HF. rewrite <- val_bob by exact HF.
  pose proof (val_bound E (bits_of_bytes E l)) as H. rewrite bob_length in H.
  replace (8 * N.of_nat (length l)) with (N.of_nat (8 * length l)) by lia. exact H.
Qed.

(* key lemma (writing): the 8k-bit field of the assembled word is the byte sequence itself *)
Lemma field_word_of_bytes E l :
  Forall lt256 l -> field E (word_of_bytes E l) (8 * length l) = bits_of_bytes E l.
Proof.
  intros HF. rewrite <- val_bob by exact HF. rewrite <- (bob_length E l). apply field_val.
Qed.

(* append laws for fields (the shape given in the task statement) *)
Lemma field_le_append b r n :
  b < 256 -> field_le (b + 256 * r) (8 + n) = field_le b 8 ++ field_le r n.
Proof.
  intros Hb.
  assert (b + 256 * r = val_le (field_le b 8 ++ field_le r n) + 2 ^ N.of_nat (8 + n) * (r / 2 ^ N.of_nat n)) as Hv.
  { rewrite val_le_app, field_le_length, !val_le_field_le, pow2_8, N.mod_small by exact Hb.
    rewrite Nat2N.inj_add, N.pow_add_r, pow2_8.
    pose proof (N.div_mod r (2 ^ N.of_nat n)) as D.
    assert (2 ^ N.of_nat n <> 0) as Hnz by (apply N.pow_nonzero; lia).
    specialize (D Hnz). set (q := r / 2 ^ N.of_nat n) in *. set (m := r mod 2 ^ N.of_nat n) in *.
    set (p := 2 ^ N.of_nat n) in *. rewrite D at 1. lia. }
  pose proof (field_eq_mod LE (b + 256 * r) (val_le (field_le b 8 ++ field_le r n)) (8 + n)) as H.
  cbn [field] in H. rewrite H.
  - replace (8 + n)%nat with (length (field_le b 8 ++ field_le r n))
      by (rewrite app_length, !field_le_length; reflexivity).
    apply field_le_val_le.
  - rewrite Hv at 1. rewrite N.mul_comm. apply N.mod_add. apply N.pow_nonzero. lia.
Qed.
Lemma field_be_append a b m n :
  b < 2 ^ N.of_nat n -> field_be (a * 2 ^ N.of_nat n + b) (m + n) = field_be a m ++ field_be b n.
Proof.
  intros Hb.
  pose proof (field_eq_mod BE (a * 2 ^ N.of_nat n + b) (val_be (field_be a m ++ field_be b n)) (m + n)) as H.
  cbn [field] in H. rewrite H.
  - replace (m + n)%nat with (length (field_be a m ++ field_be b n))
      by (rewrite app_length, !field_be_length; reflexivity).
    apply field_be_val_be.
  - rewrite val_be_rev, rev_app_distr. unfold field_be. rewrite !rev_involutive.
    rewrite val_le_app, field_le_length, !val_le_field_le.
    rewrite (N.mod_small b) by exact Hb.
    rewrite Nat2N.inj_add, N.pow_add_r.
    assert (2 ^ N.of_nat n <> 0) as Hn by (apply N.pow_nonzero; lia).
    assert (2 ^ N.of_nat m <> 0) as Hm by (apply N.pow_nonzero; lia).
    rewrite (N.add_comm (a * _) b), (N.mul_comm (2 ^ N.of_nat m)).
    rewrite N.mod_mul_r by assumption.
    rewrite N.mod_add, N.div_add by exact Hn.
    rewrite (N.mod_small b), (N.div_small b) by exact Hb.
    rewrite N.add_0_l. symmetry. apply N.mod_small.
    pose proof (N.mod_upper_bound a _ Hm) as Hu.
    set (x := a mod 2 ^ N.of_nat m) in *. set (p := 2 ^ N.of_nat n) in *.
    set (q := 2 ^ N.of_nat m) in *. nia.
Qed.

(* ------------------------------------------------------------------ to_le_bytes / to_be_bytes *)
Lemma le_bytes_of_le_bytes l : Forall lt256 l -> le_bytes (length l) (of_le_bytes l) = l.
Proof.
  induction l as [|b r IH]; intros HF; [reflexivity|].
  inversion HF as [|? ? Hb Hr]; subst. unfold lt256 in Hb.
  cbn [length le_bytes of_le_bytes].
  replace ((b + 256 * of_le_bytes r) mod 256) with b by lia.
  replace ((b + 256 * of_le_bytes r) / 256) with (of_le_bytes r) by lia.
  rewrite IH by exact Hr. reflexivity.
Qed.

(* key lemma (reading): the bytes of the assembled word are the byte sequence itself *)
Lemma bytes_of_u64_word E l :
  Forall lt256 l -> bytes_of_u64 E (length l) (word_of_bytes E l) = l.
Proof.
  intros HF. destruct E; cbn [bytes_of_u64 word_of_bytes].
  - rewrite <- (rev_length l), le_bytes_of_le_bytes by (apply Forall_rev; exact HF).
    apply rev_involutive.
  - apply le_bytes_of_le_bytes. exact HF.
Qed.
Lemma bytes_of_u64_val E l :
  Forall lt256 l -> bytes_of_u64 E (length l) (val E (bits_of_bytes E l)) = l.
Proof. intros HF. rewrite val_bob by exact HF. apply bytes_of_u64_word. exact HF. Qed.

(* ------------------------------------------------------------------ the write view *)
Lemma sw_bits_any E checks v n s :
  n <= 64 -> v < 2 ^ n -> sw_bits E checks v n s = Ok (n, s ++ field E v (N.to_nat n)).
Proof.
  intros Hn Hv. destruct checks; [apply sw_bits_checks_clean | apply sw_bits_ok]; assumption.
Qed.

(* one write_bits call of an assembled chunk of at most 8 bytes *)
Lemma write_chunk E checks chunk n s :
  Forall lt256 chunk -> n = 8 * N.of_nat (length chunk) -> n <= 64 ->
  sw_bits E checks (word_of_bytes E chunk) n s = Ok (n, s ++ bits_of_bytes E chunk).
Proof.
  intros HF -> Hn. rewrite sw_bits_any; [ | exact Hn | apply word_of_bytes_bound; exact HF].
  replace (N.to_nat (8 * N.of_nat (length chunk))) with (8 * length chunk)%nat by lia.
  rewrite field_word_of_bytes by exact HF. reflexivity.
Qed.

Lemma io_write_chunks_S E f buf :
  buf <> [] ->
  io_write_chunks E (S f) buf =
  if N.of_nat (length buf) <? 8 then
    _ <-- WBits (u64_of_chunk E buf) (8 * N.of_nat (length buf)) WRet ;; WRet 0
  else
    _ <-- WBits (u64_of_chunk E (firstn 8 buf)) 64 WRet ;; io_write_chunks E f (skipn 8 buf).
Proof. destruct buf; [congruence | reflexivity]. Qed.

Lemma io_write_chunks_ok E checks : forall fuel buf s,
  Forall lt256 buf -> (length buf < fuel)%nat ->
  wrun (swprims E checks) (io_write_chunks E fuel buf) s = Ok (0, s ++ bits_of_bytes E buf).
Proof.
  induction fuel as [|f IH]; intros buf s HF Hl; [lia|].
  destruct buf as [|b0 r0].
  { cbn [io_write_chunks wrun]. rewrite bob_nil, app_nil_r. reflexivity. }
  set (buf := b0 :: r0) in *.
  assert (buf <> []) as Hne by (subst buf; discriminate).
  assert (length buf <> 0)%nat as Hlen by (subst buf; cbn [length]; lia).
  clearbody buf. clear b0 r0.
  rewrite io_write_chunks_S by exact Hne. unfold u64_of_chunk.
  destruct (N.of_nat (length buf) <? 8) eqn:Hc.
  - rewrite wrun_bind. cbn [wrun swprims q_bits].
    rewrite (write_chunk E checks buf) by (try assumption; try reflexivity; lia).
    cbn [wrun]. reflexivity.
  - assert (length (firstn 8 buf) = 8%nat) as H8 by (rewrite firstn_length; lia).
    rewrite wrun_bind. cbn [wrun swprims q_bits].
    rewrite (write_chunk E checks (firstn 8 buf))
      by (try (apply Forall_firstn_; assumption); rewrite ?H8; lia).
    cbn [wrun].
    rewrite IH by (try (apply Forall_skipn_; assumption); rewrite skipn_length; lia).
    rewrite <- app_assoc, <- bob_split. reflexivity.
Qed.

Theorem io_write_ok : forall E checks buf s,
  Forall (fun b => b < 256) buf ->
  wrun (swprims E checks) (io_write E buf) s = Ok (N.of_nat (length buf), s ++ bits_of_bytes E buf).
Proof.
  intros E checks buf s HF. unfold io_write.
  rewrite wrun_bind, io_write_chunks_ok by (try exact HF; lia).
  reflexivity.
Qed.

(* ------------------------------------------------------------------ the read view *)
Lemma s_bits_app E strict n cw post pos pk :
  N.of_nat (length cw) = n -> n <= 64 ->
  s_bits E strict n (mkr (cw ++ post) pos pk) = Ok (val E cw, mkr post (pos + n) 0).
Proof.
  intros Hl Hn. unfold s_bits. destruct (64 <? n) eqn:H; [lia|].
  rewrite s_take_app by exact Hl. reflexivity.
Qed.

Lemma io_read_chunks_S E f len :
  io_read_chunks E (S f) len =
  if len =? 0 then RRet []
  else if len <? 8 then RBits (8 * len) (fun w => RRet (bytes_of_u64 E (N.to_nat len) w))
  else RBits 64 (fun w => r <- io_read_chunks E f (len - 8) ;; RRet (bytes_of_u64 E 8 w ++ r)).
Proof. reflexivity. Qed.

Lemma io_read_chunks_ok E strict cap : forall fuel bytes post pos pk,
  Forall lt256 bytes -> N.of_nat (length bytes) / 8 < N.of_nat fuel ->
  rrun (sprims E strict cap) (io_read_chunks E fuel (N.of_nat (length bytes)))
       (mkr (bits_of_bytes E bytes ++ post) pos pk)
  = Ok (bytes, mkr post (pos + 8 * N.of_nat (length bytes)) (pk_after bytes pk)).
Proof.
  induction fuel as [|f IH]; intros bytes post pos pk HF Hl; [lia|].
  rewrite io_read_chunks_S.
  destruct (N.of_nat (length bytes) =? 0) eqn:H0.
  { destruct bytes as [|b r]; [|cbn [length] in H0; lia].
    cbn [rrun length pk_after]. rewrite bob_nil. cbn [app].
    f_equal. f_equal. unfold mkr. f_equal. lia. }
  assert (pk_after bytes pk = 0) as Hpk.
  { destruct bytes; [cbn [length] in H0; lia | reflexivity]. }
  destruct (N.of_nat (length bytes) <? 8) eqn:H8.
  - cbn [rrun sprims p_bits].
    rewrite s_bits_app by (rewrite ?bob_length; lia).
    cbn [rrun]. rewrite Nat2N.id, bytes_of_u64_val by exact HF. rewrite Hpk. reflexivity.
  - assert (length (firstn 8 bytes) = 8%nat) as L8 by (rewrite firstn_length; lia).
    rewrite (bob_split E 8 bytes), <- app_assoc.
    cbn [rrun sprims p_bits].
    rewrite s_bits_app by (rewrite ?bob_length, ?L8; lia).
    rewrite rrun_bind.
    replace (N.of_nat (length bytes) - 8) with (N.of_nat (length (skipn 8 bytes)))
      by (rewrite skipn_length; lia).
    rewrite IH by (try (apply Forall_skipn_; exact HF); rewrite skipn_length; lia).
    cbn [rrun].
    pose proof (bytes_of_u64_val E (firstn 8 bytes) (Forall_firstn_ _ 8 _ HF)) as Hw.
    rewrite L8 in Hw. rewrite Hw, firstn_skipn. rewrite Hpk.
    f_equal. f_equal. unfold mkr. f_equal.
    + rewrite skipn_length. lia.
    + destruct (skipn 8 bytes); reflexivity.
Qed.

Theorem io_read_ok : forall E strict cap bytes post pos pk,
  Forall (fun b => b < 256) bytes ->
  rrun (sprims E strict cap) (io_read E (N.of_nat (length bytes)))
       (mkr (bits_of_bytes E bytes ++ post) pos pk)
  = Ok (bytes, mkr post (pos + 8 * N.of_nat (length bytes))
                   (match bytes with [] => pk | _ :: _ => 0 end)).
Proof.
  intros E strict cap bytes post pos pk HF. unfold io_read.
  apply (io_read_chunks_ok E strict cap); [exact HF | lia].
Qed.

(* ------------------------------------------------------------------ the byte image *)
Lemma bytes_of_bits_S E f bs :
  bs <> [] ->
  bytes_of_bits E (S f) bs = val E (take_pad 8 bs) :: bytes_of_bits E f (skipn 8 bs).
Proof. destruct bs; [congruence | reflexivity]. Qed.

Lemma take_pad_ge n bs : (n <= length bs)%nat -> take_pad n bs = firstn n bs.
Proof. intros H. rewrite take_pad_firstn. apply firstn_app_le. exact H. Qed.

Lemma bytes_of_bits_bob E : forall bytes fuel,
  Forall lt256 bytes -> (length bytes <= fuel)%nat ->
  bytes_of_bits E fuel (bits_of_bytes E bytes) = bytes.
Proof.
  induction bytes as [|b r IH]; intros fuel HF Hl.
  - destruct fuel; reflexivity.
  - destruct fuel as [|f]; [cbn [length] in Hl; lia|].
    inversion HF as [|? ? Hb Hr]; subst. unfold lt256 in Hb.
    rewrite bob_cons.
    rewrite bytes_of_bits_S.
    2:{ intros H. apply (f_equal (@length bool)) in H. rewrite app_length, field_length in H.
        cbn [length] in H. lia. }
    rewrite take_pad_ge by (rewrite app_length, field_length; lia).
    rewrite firstn_app_n by apply field_length.
    rewrite skipn_app_n by apply field_length.
    rewrite val_field, pow2_8, N.mod_small by exact Hb.
    rewrite IH by (try exact Hr; cbn [length] in Hl; lia). reflexivity.
Qed.

Theorem image_bob : forall E buf,
  Forall (fun b => b < 256) buf -> image E (bits_of_bytes E buf) = buf.
Proof.
  intros E buf HF. unfold image. apply bytes_of_bits_bob; [exact HF|]. rewrite bob_length. lia.
Qed.

(* any bit list of length 8n is the bit sequence of its own byte image *)
Lemma bob_bytes_of_bits E : forall n bs fuel,
  length bs = (8 * n)%nat -> (n <= fuel)%nat ->
  bits_of_bytes E (bytes_of_bits E fuel bs) = bs /\
  length (bytes_of_bits E fuel bs) = n /\
  Forall lt256 (bytes_of_bits E fuel bs).
Proof.
  induction n as [|m IH]; intros bs fuel Hl Hf.
  - destruct bs; [|cbn [length] in Hl; lia].
    destruct fuel; cbn [bytes_of_bits]; repeat split; constructor.
  - destruct fuel as [|f]; [lia|].
    assert (bs <> []) as Hne by (intros ->; cbn [length] in Hl; lia).
    rewrite bytes_of_bits_S by exact Hne.
    rewrite take_pad_ge by lia.
    assert (length (firstn 8 bs) = 8%nat) as L8 by (rewrite firstn_length; lia).
    assert (length (skipn 8 bs) = (8 * m)%nat) as Hsk by (rewrite skipn_length; lia).
    assert (m <= f)%nat as Hmf by lia.
    destruct (IH (skipn 8 bs) f Hsk Hmf) as (A & B & C).
    repeat split.
    + rewrite bob_cons, A.
      pose proof (field_val E (firstn 8 bs)) as Hv. rewrite L8 in Hv. rewrite Hv.
      apply firstn_skipn.
    + cbn [length]. lia.
    + constructor; [|exact C]. unfold lt256.
      pose proof (val_bound E (firstn 8 bs)) as Hb. rewrite L8, pow2_8 in Hb. exact Hb.
Qed.

Lemma image_spec E n bs :
  length bs = (8 * n)%nat ->
  bits_of_bytes E (image E bs) = bs /\ length (image E bs) = n /\ Forall lt256 (image E bs).
Proof. intros Hl. unfold image. apply bob_bytes_of_bits; [exact Hl | lia]. Qed.

Theorem image_app_bob : forall E s k buf,
  length s = (8 * k)%nat -> Forall (fun b => b < 256) buf ->
  image E (s ++ bits_of_bytes E buf) = image E s ++ buf.
Proof.
  intros E s k buf Hl HF. destruct (image_spec E k s Hl) as (A & B & C).
  transitivity (image E (bits_of_bytes E (image E s ++ buf))).
  - f_equal. rewrite bob_app, A. reflexivity.
  - apply image_bob. apply Forall_app. split; [exact C | exact HF].
Qed.

(* reading does not depend on how the bits were produced *)
Theorem io_read_any_stream : forall E strict cap bs post pos pk n,
  N.of_nat (length bs) = 8 * n ->
  rrun (sprims E strict cap) (io_read E n) (mkr (bs ++ post) pos pk)
  = Ok (image E bs, mkr post (pos + 8 * n) (if n =? 0 then pk else 0)).
Proof.
  intros E strict cap bs post pos pk n Hl.
  assert (length bs = (8 * N.to_nat n)%nat) as Hl' by lia.
  destruct (image_spec E (N.to_nat n) bs Hl') as (A & B & C).
  pose proof (io_read_ok E strict cap (image E bs) post pos pk C) as H.
  rewrite A, B, N2Nat.id in H. rewrite H. f_equal. f_equal. unfold mkr. f_equal.
  destruct (image E bs) as [|b r]; cbn [length] in B.
  - replace (n =? 0) with true by lia. reflexivity.
  - replace (n =? 0) with false by lia. reflexivity.
Qed.

(* ------------------------------------------------------------------ write then read *)
Theorem io_write_read : forall E checks strict cap buf s post,
  Forall (fun b => b < 256) buf ->
  exists out,
    wrun (swprims E checks) (io_write E buf) s = Ok (N.of_nat (length buf), out) /\
    obind (s_skip strict (N.of_nat (length s)) (sreader_of (out ++ post)))
          (fun r => rrun (sprims E strict cap) (io_read E (N.of_nat (length buf))) r)
    = Ok (buf, mkr post (N.of_nat (length s) + 8 * N.of_nat (length buf)) 0).
Proof.
  intros E checks strict cap buf s post HF.
  exists (s ++ bits_of_bytes E buf). split; [apply io_write_ok; exact HF|].
  unfold s_skip, sreader_of. fold (mkr ((s ++ bits_of_bytes E buf) ++ post) 0 0).
  rewrite <- app_assoc, s_take_app by reflexivity. cbn [obind].
  rewrite io_read_ok by exact HF. f_equal. f_equal. unfold mkr. f_equal; try lia.
  destruct buf; reflexivity.
Qed.

(* ------------------------------------------------------------------ strict and short *)
Lemma s_take_mkr strict n rest pos pk :
  s_take strict n (mkr rest pos pk) =
  if n <=? N.of_nat (length rest) then
    Ok (firstn (N.to_nat n) rest, mkr (skipn (N.to_nat n) rest) (pos + n) 0)
  else if strict then Err
  else Ok (take_pad (N.to_nat n) rest, mkr [] (pos + n) 0).
Proof. reflexivity. Qed.

Lemma io_read_chunks_short E cap : forall fuel n bs pos pk,
  n / 8 < N.of_nat fuel -> N.of_nat (length bs) < 8 * n ->
  rrun (sprims E true cap) (io_read_chunks E fuel n) (mkr bs pos pk) = Err.
Proof.
  induction fuel as [|f IH]; intros n bs pos pk Hf Hl; [lia|].
  rewrite io_read_chunks_S.
  destruct (n =? 0) eqn:H0; [lia|].
  destruct (n <? 8) eqn:H8.
  - cbn [rrun sprims p_bits]. unfold s_bits. destruct (64 <? 8 * n) eqn:Hc; [lia|].
    rewrite s_take_mkr. destruct (8 * n <=? N.of_nat (length bs)) eqn:Hle; [lia|]. reflexivity.
  - cbn [rrun sprims p_bits]. unfold s_bits. destruct (64 <? 64) eqn:Hc; [lia|].
    rewrite s_take_mkr. destruct (64 <=? N.of_nat (length bs)) eqn:Hle; [|reflexivity].
    rewrite rrun_bind. rewrite IH; [reflexivity | lia | rewrite skipn_length; lia].
Qed.

Theorem io_read_strict_short : forall E cap bs n pos pk,
  N.of_nat (length bs) < 8 * n ->
  rrun (sprims E true cap) (io_read E n) (mkr bs pos pk) = Err.
Proof.
  intros E cap bs n pos pk Hl. unfold io_read. apply io_read_chunks_short; [lia | exact Hl].
Qed.

(* ------------------------------------------------------------------ examples *)
(* a 13-byte slice (one full chunk of 8 and a remainder of 5) written at bit offset 3 *)
Definition ex_buf : list N := [1; 2; 3; 254; 255; 0; 128; 77; 200; 13; 99; 100; 171].
Definition ex_s : bits := [true; false; true].
Definition ex_post : bits := [true; true; false; true].

Example ex_buf_ok : Forall (fun b => b < 256) ex_buf.
Proof. unfold ex_buf. repeat constructor. Qed.

Example ex_write_be :
  wrun (swprims BE true) (io_write BE ex_buf) ex_s = Ok (13, ex_s ++ bits_of_bytes BE ex_buf).
Proof. vm_compute. reflexivity. Qed.
Example ex_write_le :
  wrun (swprims LE true) (io_write LE ex_buf) ex_s = Ok (13, ex_s ++ bits_of_bytes LE ex_buf).
Proof. vm_compute. reflexivity. Qed.

Example ex_read_back_be :
  match wrun (swprims BE true) (io_write BE ex_buf) ex_s with
  | Ok (_, out) =>
      obind (s_skip true 3 (sreader_of (out ++ ex_post)))
            (fun r => rrun (sprims BE true 64) (io_read BE 13) r)
  | _ => Fail
  end = Ok (ex_buf, mkr ex_post 107 0).
Proof. vm_compute. reflexivity. Qed.
Example ex_read_back_le :
  match wrun (swprims LE true) (io_write LE ex_buf) ex_s with
  | Ok (_, out) =>
      obind (s_skip true 3 (sreader_of (out ++ ex_post)))
            (fun r => rrun (sprims LE true 64) (io_read LE 13) r)
  | _ => Fail
  end = Ok (ex_buf, mkr ex_post 107 0).
Proof. vm_compute. reflexivity. Qed.

(* the first written byte 1 = 0b00000001 appears MSB first (BE) / LSB first (LE) after the 3 bits *)
Example ex_bits_be :
  firstn 11 (ex_s ++ bits_of_bytes BE ex_buf)
  = [true; false; true; false; false; false; false; false; false; false; true].
Proof. vm_compute. reflexivity. Qed.
Example ex_bits_le :
  firstn 11 (ex_s ++ bits_of_bytes LE ex_buf)
  = [true; false; true; true; false; false; false; false; false; false; false].
Proof. vm_compute. reflexivity. Qed.

(* byte image at an aligned position; strict short read *)
Example ex_image : image LE (bits_of_bytes LE [7; 9] ++ bits_of_bytes LE ex_buf) = [7; 9] ++ ex_buf.
Proof. vm_compute. reflexivity. Qed.
Example ex_short :
  rrun (sprims BE true 64) (io_read BE 13) (mkr (firstn 103 (bits_of_bytes BE ex_buf)) 0 0) = Err.
Proof. vm_compute. reflexivity. Qed.
Example ex_any_stream_hyp : N.of_nat (length (bits_of_bytes BE ex_buf)) = 8 * 13.
Proof. vm_compute. reflexivity. Qed.
