(* Names.v — Display / FromStr for `Codes` (dispatch/codes.rs), driven by the generated
   arm tables; decimal printing and parsing from Coq's DecimalString. *)
From DSI Require Export Dispatch.
From Coq Require Import Ascii DecimalString DecimalN.
Local Open Scope string_scope.

Definition print_usize (n : N) : string := NilZero.string_of_uint (N.to_uint n).

(* usize::from_str: optional leading '+', at least one digit, digits only, overflow is an
   error (usize is 64 bits) *)
Definition parse_usize (s : string) : option N :=
  let body := match s with String "+"%char r => r | _ => s end in
  match NilZero.uint_of_string body with
  | Some d => let n := N.of_uint d in if (n <? W64)%N then Some n else None
  | None => None
  end.

(* str::split(c).next() and the rest after the first c *)
Fixpoint split_at (c : ascii) (s : string) : string * option string :=
  match s with
  | EmptyString => (EmptyString, None)
  | String a r => if Ascii.eqb a c then (EmptyString, Some r)
                  else let '(h, t) := split_at c r in (String a h, t)
  end.

Fixpoint find_display (arms : list (variant * string * bool)) (v : variant) : option (string * bool) :=
  match arms with
  | [] => None
  | (v', s, p) :: r => if variant_eqb v v' then Some (s, p) else find_display r v
  end.

Definition display (c : code) : option string :=
  match find_display display_arms (cvar c) with
  | Some (name, true) => Some (name ++ "(" ++ print_usize (cparam c) ++ ")")
  | Some (name, false) => Some name
  | None => None
  end.

Inductive parse_result := POk (c : code) | PUnknown | PParseErr.

Definition from_str (s : string) : parse_result :=
  match assocS fromstr_literal_arms s with
  | Some v => POk {| cvar := v; cparam := 0 |}
  | None =>
      let '(name, rest) := split_at "("%char s in
      match rest with
      | None => PUnknown                         (* parts.next() is None *)
      | Some r =>
          let '(r1, _) := split_at "("%char r in   (* second item of split('(') *)
          let '(k, _) := split_at ")"%char r1 in   (* first item of split(')') *)
          match assocS fromstr_param_arms name with
          | Some v => match parse_usize k with
                      | Some n => POk {| cvar := v; cparam := n |}
                      | None => PParseErr end
          | None => PUnknown
          end
      end
  end.

(* the name under which module `code_consts` publishes a code (ZETA3, EXP_GOLOMB0, ...): the
   correspondence check instantiates ConstCode with these names, the model looks the name up in
   the generated `code_consts` table *)
Definition const_name (c : code) : option string :=
  let p := cparam c in
  let fam (lo : N) (nm : string) := if (lo <=? p)%N && (p <=? 10)%N then Some (nm ++ print_usize p) else None in
  match cvar c with
  | VUnary => Some "UNARY" | VGamma => Some "GAMMA" | VDelta => Some "DELTA" | VOmega => Some "OMEGA"
  | VVByteLe => Some "VBYTE_LE" | VVByteBe => Some "VBYTE_BE"
  | VZeta => fam 1%N "ZETA" | VPi => fam 0%N "PI" | VGolomb => fam 1%N "GOLOMB"
  | VExpGolomb => fam 0%N "EXP_GOLOMB" | VRice => fam 0%N "RICE"
  end.
Definition named_const_call (op : opkind) (c : code) : option call :=
  match const_name c with
  | Some nm => match assocS code_consts nm with Some id => const_call op id | None => None end
  | None => None
  end.
