(* Dispatch.v — meaning of a `call` (a trait method with its argument) as an L1 program,
   and the dispatchers of src/dispatch/*.rs driven by the generated arm tables. *)
From DSI Require Export Codes DispatchTypes.
From DSI.Gen Require Export GenDispatch.

Section Sem.
  Variable E : endian.
  Variable T : tables.
  Variable D : params.
  Variable checks : bool.

  Definition call_read (c : call) : rprog N :=
    match ckind c with
    | KUnary => read_unary_code
    | KGamma => read_gamma E T D
    | KDelta => read_delta E T D
    | KOmega => read_omega E
    | KVByteBe => read_vbyte_be
    | KVByteLe => read_vbyte_le
    | KZeta => read_zeta (carg c)
    | KZeta3 => read_zeta3 E T D
    | KPi => read_pi (carg c)
    | KGolomb => read_golomb (carg c)
    | KExpGolomb => read_exp_golomb E T D (carg c)
    | KRice => read_rice (carg c)
    | KVByteAny => RFail
    end.

  Definition call_write (c : call) (v : N) : wprog N :=
    match ckind c with
    | KUnary => write_unary_code v
    | KGamma => write_gamma E T D checks v
    | KDelta => write_delta E T D checks v
    | KOmega => write_omega E checks v
    | KVByteBe => write_vbyte_be v
    | KVByteLe => write_vbyte_le v
    | KZeta => write_zeta v (carg c)
    | KZeta3 => write_zeta3 E T D v
    | KPi => write_pi checks v (carg c)
    | KGolomb => write_golomb v (carg c)
    | KExpGolomb => write_exp_golomb E T D checks v (carg c)
    | KRice => write_rice checks v (carg c)
    | KVByteAny => WFail
    end.

  Definition call_len (c : call) (v : N) : option N :=
    match ckind c with
    | KUnary => len_unary v
    | KGamma => len_gamma T D v
    | KDelta => len_delta T D v
    | KOmega => len_omega v
    | KVByteBe | KVByteLe | KVByteAny => bit_len_vbyte v
    | KZeta | KZeta3 => len_zeta T D v (if kind_eqb (ckind c) KZeta3 then 3 else carg c)
    | KPi => len_pi v (carg c)
    | KGolomb => len_golomb v (carg c)
    | KExpGolomb => len_exp_golomb T D v (carg c)
    | KRice => len_rice v (carg c)
    end.
End Sem.

(* the trait method a code of the enumeration names, called directly with its parameter *)
Definition direct_call (c : code) : call :=
  match cvar c with
  | VUnary => {| ckind := KUnary; carg := 0 |}
  | VGamma => {| ckind := KGamma; carg := 0 |}
  | VDelta => {| ckind := KDelta; carg := 0 |}
  | VOmega => {| ckind := KOmega; carg := 0 |}
  | VVByteLe => {| ckind := KVByteLe; carg := 0 |}
  | VVByteBe => {| ckind := KVByteBe; carg := 0 |}
  | VZeta => {| ckind := KZeta; carg := cparam c |}
  | VPi => {| ckind := KPi; carg := cparam c |}
  | VGolomb => {| ckind := KGolomb; carg := cparam c |}
  | VExpGolomb => {| ckind := KExpGolomb; carg := cparam c |}
  | VRice => {| ckind := KRice; carg := cparam c |}
  end.

(* dispatcher kinds *)
Inductive dispatcher := DEnum | DConst | DFunc | DFactory.
Inductive opkind := OpRead | OpWrite | OpLen.

(* resolve: what call does dispatcher d perform for (code c | const id) and operation op?
   None = the dispatcher rejects / panics *)
Definition enum_call (op : opkind) (c : code) : option call :=
  find_arm (match op with OpRead => codes_read_arms | OpWrite => codes_write_arms | OpLen => codes_len_arms end) c.

Definition const_call (op : opkind) (id : N) : option call :=
  assocN (match op with OpRead => const_read_tbl | OpWrite => const_write_tbl | OpLen => const_len_tbl end) id.

Definition func_call (op : opkind) (c : code) : option call :=
  let '(consts, arms) := match op with
                         | OpRead => (func_reader_consts, func_reader_new)
                         | OpWrite => (func_writer_consts, func_writer_new)
                         | OpLen => (func_len_consts, func_len_new) end in
  match find_narm arms c with Some nm => assocS consts nm | None => None end.

Definition factory_call (c : code) : option call :=
  match find_narm factory_reader_new c with Some nm => assocS factory_reader_consts nm | None => None end.

(* to_code_const / from_code_const *)
Fixpoint find_to_const (arms : list (variant * option N * N)) (c : code) : option N :=
  match arms with
  | [] => None
  | (v, p, id) :: r =>
      if variant_eqb v (cvar c) && match p with Some l => l =? cparam c | None => true end
      then Some id else find_to_const r c
  end.
Definition to_code_const (c : code) : option N := find_to_const to_const_arms c.
Definition from_code_const (id : N) : option code := assocN from_const_arms id.

(* PartialEq for Codes: equivalence classes first, then the per-variant comparison *)
Definition in_class (cl : list code) (c : code) : bool := existsb (code_eqb c) cl.
Fixpoint class_eq (cls : list (list code)) (a b : code) : option bool :=
  match cls with
  | [] => None
  | cl :: r => if in_class cl a && in_class cl b then Some true else class_eq r a b
  end.
Fixpoint plain_eq (pl : list (variant * bool)) (a b : code) : bool :=
  match pl with
  | [] => false
  | (v, cmp) :: r =>
      if variant_eqb v (cvar a) && variant_eqb v (cvar b)
      then (if cmp then cparam a =? cparam b else true)
      else plain_eq r a b
  end.
Definition codes_eq (a b : code) : bool :=
  match class_eq eq_classes a b with Some t => t | None => plain_eq eq_plain a b end.
