(* MachineTheorems.v — composition: L1 code theorems (CodesSummary) + L2 refinements
   (WriterProofs, ReaderProofs, UReaderProofs) = every code on every word-level machine:
   any writer word width, any buffered reader word width serving the tables, the unbuffered
   reader.  Also the lift of the argument-checking build to the machine (C19). *)
From DSI Require Import Base Words Prog Codes CodeDefs Writer Reader Abs BitFacts CodesProofs
  Run CodesSummary BitsLemmas WriterProofs BitsLemmasR ReaderProofs BitsLemmasU UReaderProofs.
From DSI.Gen Require Import GenTables GenParams.
From Coq Require Import ZifyBool ZifyNat ZifyN.

(* ------------------------------------------------------------------ writers *)
(* any code written through a buffered writer of ANY word width appends exactly its codeword
   to the abstract stream (delivered words ++ pending bits) and returns its length, or the sink
   is full *)
Theorem code_write_machine E W D id p fl v b s :
  wrel E W b s -> valid id p v ->
  (exists s', wrun (bwprims E W false) (sel_write E D false id p fl v) s = Ok (LEN (code_cw E id p v), s') /\
              WInv W s' /\ wabs E W s' = b ++ code_cw E id p v)
  \/ wrun (bwprims E W false) (sel_write E D false id p fl v) s = Err.
Proof.
  intros HR Hv.
  destruct (codes_correct E D false id p fl v Hv) as (Hw & _ & _).
  pose proof (@WriterProofs.C01_prog_refines N E W (sel_write E D false id p fl v) b s HR) as HS.
  rewrite (Hw b) in HS. cbn [wosim] in HS.
  destruct HS as [(s' & Hs' & Hi & Ha)|He]; [left; exists s'; auto | right; exact He].
Qed.

(* the argument-checking build on the machine: primitives simulate the checking spec writer *)
Lemma prims_sim_checks E W : wprims_sim E W (swprims E true) (bwprims E W true).
Proof.
  split.
  - intros v n b s HR. cbn [swprims bwprims q_bits].
    unfold sw_bits. destruct (64 <? n) eqn:Hn; [exact I|].
    destruct (true && negb (N.land v (mask_u128 n) =? v)) eqn:Hd; [exact I|].
    assert (N.land v (mask_u128 n) = v) as Hclean by (cbn [andb] in Hd; destruct (N.land v (mask_u128 n) =? v) eqn:Hq; [lia | discriminate]).
    destruct HR as [HI HA].
    destruct (WriterProofs.C19_assert_iff E W v n s HI ltac:(lia)) as (_ & Heq & _).
    rewrite (Heq Hclean).
    pose proof (WriterProofs.C01_write_bits_sim E W v n b s (conj HI HA)) as HS.
    unfold sw_bits in HS. rewrite Hn in HS. cbn [andb] in HS. exact HS.
  - intros x b s HR. exact (WriterProofs.C01_write_unary_sim E W x b s HR).
Qed.

(* C19: with `checks` compiled in, no in-domain code write trips the assertion, on any machine *)
Theorem code_write_machine_checks E W D id p fl v b s :
  wrel E W b s -> valid id p v ->
  (exists s', wrun (bwprims E W true) (sel_write E D true id p fl v) s = Ok (LEN (code_cw E id p v), s') /\
              WInv W s' /\ wabs E W s' = b ++ code_cw E id p v)
  \/ wrun (bwprims E W true) (sel_write E D true id p fl v) s = Err.
Proof.
  intros HR Hv.
  destruct (codes_correct E D true id p fl v Hv) as (Hw & _ & _).
  pose proof (wrun_simulation E W _ _ (prims_sim_checks E W) (sel_write E D true id p fl v) b s HR) as HS.
  rewrite (Hw b) in HS. cbn [wosim] in HS.
  destruct HS as [(s' & Hs' & Hi & Ha)|He]; [left; exists s'; auto | right; exact He].
Qed.

(* ------------------------------------------------------------------ buffered readers *)
(* a buffered reader of ANY word width W >= the tables' look-ahead, positioned (invariant RInv) at
   the start of a codeword followed by anything, decodes the value and stops exactly at its end,
   with any table options *)
Theorem code_read_machine E W D id p fl v s pos post :
  RInv E W s pos -> W * N.of_nat (length (ws_words (br_src s))) <= 2 ^ 64 -> maxcap <= W ->
  valid id p v ->
  skipn (N.to_nat pos) (src_bits E W (br_src s)) = code_cw E id p v ++ post ->
  exists s', rrun (brprims E W) (sel_read E D id p fl) s = Ok (v, s') /\
             RInv E W s' (pos + LEN (code_cw E id p v)) /\
             ws_words (br_src s') = ws_words (br_src s) /\ ws_strict (br_src s') = ws_strict (br_src s).
Proof.
  intros HI Hlen Hcap Hv Hstream.
  destruct (codes_correct E D false id p fl v Hv) as (_ & Hr & _).
  destruct (Hr (ws_strict (br_src s)) W post pos 0 Hcap) as [pk' Hrun].
  assert (rrel E W (rabs E W s pos 0) s) as HR by (exists pos, 0; split; [exact HI | split; [lia | reflexivity]]).
  pose proof (ReaderProofs.programs_sim_fun E W (ws_words (br_src s)) (ws_strict (br_src s)) N
                (sel_read E D id p fl) (rabs E W s pos 0) s Hlen HR eq_refl eq_refl) as HS.
  unfold rabs in HS at 1. rewrite Hstream in HS. fold (mkr (code_cw E id p v ++ post) pos 0) in HS.
  rewrite Hrun in HS. cbn [osim] in HS.
  destruct HS as (s' & Hs' & (pos' & pk'' & HI' & Hpk & Habs) & Hw & Hst).
  exists s'. split; [exact Hs'|].
  unfold rabs, mkr in Habs. injection Habs as _ Hpos _.
  rewrite Hpos. split; [exact HI' | split; assumption].
Qed.

(* ------------------------------------------------------------------ unbuffered reader *)
Theorem code_read_umachine E D id p fl v s post :
  UInv s -> maxcap <= 32 -> valid id p v ->
  ur_index s + LEN (code_cw E id p v) < 2 ^ 63 ->
  skipn (N.to_nat (ur_index s)) (src_bits E 64 (ur_src s)) = code_cw E id p v ++ post ->
  exists s', rrun (urprims E) (sel_read E D id p fl) s = Ok (v, s') /\
             UInv s' /\ ur_index s' = ur_index s + LEN (code_cw E id p v) /\
             ws_words (ur_src s') = ws_words (ur_src s).
Proof.
  intros HI Hcap Hv Hb Hstream.
  destruct (codes_correct E D false id p fl v Hv) as (_ & Hr & _).
  destruct (Hr (ws_strict (ur_src s)) 32 post (ur_index s) 0 Hcap) as [pk' Hrun].
  assert (urel E (uabs E s 0) s) as HR by (split; [exact HI | exists 0; reflexivity]).
  unfold uabs in HR. rewrite Hstream in HR. fold (mkr (code_cw E id p v ++ post) (ur_index s) 0) in HR.
  destruct (UReaderProofs.run_sim_bounded E N (sel_read E D id p fl) _ s v _ HR Hrun) as (s' & Hs' & (HI' & pk2 & Habs) & _ & Hw).
  { cbn [mkr sr_pos]. exact Hb. }
  exists s'. split; [exact Hs'|]. split; [exact HI'|]. split; [|exact Hw].
  unfold uabs, mkr in Habs. injection Habs as _ Hpos _. symmetry. exact Hpos.
Qed.

(* same codeword, same returned length with the argument-checking flag on or off (L0 level) *)
Theorem flag_irrelevant E D id p fl v s : valid id p v ->
  wrun (swprims E true) (sel_write E D true id p fl v) s = wrun (swprims E false) (sel_write E D false id p fl v) s.
Proof.
  intros Hv.
  destruct (codes_correct E D true id p fl v Hv) as (H1 & _ & _).
  destruct (codes_correct E D false id p fl v Hv) as (H2 & _ & _).
  rewrite H1, H2. reflexivity.
Qed.

(* ... and on the machine: from related states, both builds either report a full sink or append the
   same codeword and return the same length *)
Theorem flag_irrelevant_machine E W D id p fl v b s1 s2 :
  wrel E W b s1 -> wrel E W b s2 -> valid id p v ->
  match wrun (bwprims E W true) (sel_write E D true id p fl v) s1,
        wrun (bwprims E W false) (sel_write E D false id p fl v) s2 with
  | Ok (l1, t1), Ok (l2, t2) => l1 = l2 /\ wabs E W t1 = wabs E W t2 /\ WInv W t1 /\ WInv W t2
  | Ok _, Err | Err, Ok _ | Err, Err => True
  | _, _ => False
  end.
Proof.
  intros R1 R2 Hv.
  destruct (code_write_machine_checks E W D id p fl v b s1 R1 Hv) as [(t1 & H1 & I1 & A1)|H1];
  destruct (code_write_machine E W D id p fl v b s2 R2 Hv) as [(t2 & H2 & I2 & A2)|H2];
  rewrite H1, H2; cbv beta iota; try exact I.
  split; [reflexivity|]. split; [rewrite A1, A2; reflexivity|]. split; assumption.
Qed.
