(* CodeDefs.v — the codewords as the library documents them (module headers of
   src/codes/*.rs and src/codes/mod.rs), written from the mathematical definitions and
   independently of the Rust control flow: unbounded N arithmetic, no u64 wrap-around,
   no tables.  C04 states that the L1 write programs produce exactly these bit strings. *)
From DSI Require Export Base.

Section Defs.
  Variable E : endian.

  Definition fld (v n : N) : bits := field E v (N.to_nat n).

  (* gamma(n): unary(floor(log2(n+1))) followed by n+1 without its top bit *)
  Definition def_gamma (n : N) : bits :=
    let m := n + 1 in let l := N.log2 m in unary l ++ fld (m - 2 ^ l) l.

  (* delta(n): gamma(floor(log2(n+1))) followed by n+1 without its top bit *)
  Definition def_delta (n : N) : bits :=
    let m := n + 1 in let l := N.log2 m in def_gamma l ++ fld (m - 2 ^ l) l.

  (* omega: recursive block form ending in a zero.  A block for m >= 2 is the binary
     representation of m (floor(log2 m)+1 bits, leading one); on little-endian streams the
     block is rotated left by one so that its marker bit comes first, then the remaining
     bits least significant first *)
  Definition omega_block (m : N) : bits :=
    let l := N.log2 m in
    match E with
    | BE => field_be m (N.to_nat (l + 1))
    | LE => true :: field_le (m - 2 ^ l) (N.to_nat l)
    end.
  Fixpoint omega_blocks (fuel : nat) (m : N) : bits :=
    match fuel with
    | O => []
    | S f => if m <=? 1 then [] else omega_blocks f (N.log2 m) ++ omega_block m
    end.
  Definition def_omega (n : N) : bits := omega_blocks 8 (n + 1) ++ [false].

  (* minimal binary code of x in [0, u): with l = floor(log2 u) and limit = 2^(l+1) - u, the
     first `limit` values take l bits, the others l+1 bits (value x + limit); on little-endian
     streams the extra (least significant) bit comes last *)
  Definition def_minimal_binary (x u : N) : bits :=
    let l := N.log2 u in
    let limit := 2 ^ (l + 1) - u in
    if x <? limit then fld x l
    else let t := x + limit in fld (t / 2) l ++ [N.odd t].

  (* zeta_k(n): with m = n+1 and h = floor(log2 m / k): unary(h), then the minimal binary code
     of m - 2^(hk) in the interval [0, 2^((h+1)k) - 2^(hk)) *)
  Definition def_zeta (k n : N) : bits :=
    let m := n + 1 in let h := N.log2 m / k in
    unary h ++ def_minimal_binary (m - 2 ^ (h * k)) (2 ^ ((h + 1) * k) - 2 ^ (h * k)).

  (* Golomb_b(n): unary(n / b), minimal binary of n mod b in [0, b) *)
  Definition def_golomb (b n : N) : bits := unary (n / b) ++ def_minimal_binary (n mod b) b.

  (* Rice_k(n): unary(n >> k), then the k low bits *)
  Definition def_rice (k n : N) : bits := unary (n / 2 ^ k) ++ fld (n mod 2 ^ k) k.

  (* pi_k(n): Rice_k of floor(log2(n+1)), then n+1 without its top bit *)
  Definition def_pi (k n : N) : bits :=
    let m := n + 1 in let l := N.log2 m in def_rice k l ++ fld (m - 2 ^ l) l.

  (* exp-Golomb_k(n): gamma(n >> k), then the k low bits *)
  Definition def_exp_golomb (k n : N) : bits := def_gamma (n / 2 ^ k) ++ fld (n mod 2 ^ k) k.

  (* VByte: the complete 7-bit-group code.  A value v is written on L bytes where L is least
     with v < 128 + 128^2 + ... + 128^L; the L groups of r = v - (128 + ... + 128^(L-1)) are
     written most significant first (BE variant) or least significant first (LE variant),
     every byte but the last carrying the continuation bit *)
  Fixpoint vb_len (fuel : nat) (v acc pw : N) (L : N) : N * N :=   (* (L, offset) *)
    match fuel with
    | O => (L, acc)
    | S f => if v <? acc + pw * 128 then (L, acc) else vb_len f v (acc + pw * 128) (pw * 128) (L + 1)
    end.
  Fixpoint groups_le (n : nat) (r : N) : list N :=
    match n with O => [] | S m => r mod 128 :: groups_le m (r / 128) end.
  Fixpoint mark_cont (gs : list N) : list N :=
    match gs with
    | [] => [] | [g] => [g] | g :: r => (g + 128) :: mark_cont r
    end.
  Definition def_vbyte_bytes (le_variant : bool) (v : N) : list N :=
    let '(L, off) := vb_len 10 v 0 1 1 in
    let gs := groups_le (N.to_nat L) (v - off) in
    mark_cont (if le_variant then gs else rev gs).
  Definition def_vbyte (le_variant : bool) (v : N) : bits :=
    flat_map (fun b => fld b 8) (def_vbyte_bytes le_variant v).
End Defs.
