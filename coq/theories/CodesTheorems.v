(* CodesTheorems.v — property-level statements for C03 (round trip at any position, any
   following bits, any table options on either side), C04 (published codewords), C05 (tables =
   bit by bit), C06 (len = written = consumed), derived from CodesSummary.codes_correct. *)
From DSI Require Import Base Prog Codes CodeDefs BitFacts CodesProofs CodesProofs2 TableCheck
  CodesProofs3 GenProofs Run CodesSummary.
From DSI.Gen Require Import GenTables GenParams.
From Coq Require Import ZifyBool ZifyNat ZifyN.
Arguments N.add : simpl never. Arguments N.sub : simpl never. Arguments N.mul : simpl never.
Arguments N.pow : simpl never. Arguments N.eqb : simpl never. Arguments N.ltb : simpl never.
Arguments N.leb : simpl never. Arguments N.of_nat : simpl never.

(* write with one configuration (table flags flw, defaults Dw, argument checking on or off) after
   ANY previously written bits `pre`; read with ANY other configuration (flr, Dr), strict or
   zero-extended, any peek capacity that serves the tables, ANY following bits `post` *)
Theorem roundtrip E Dw Dr checks id p flw flr v pre post strict cap pk :
  valid id p v -> maxcap <= cap ->
  exists cw pk',
    wrun (swprims E checks) (sel_write E Dw checks id p flw v) pre = Ok (LEN cw, pre ++ cw) /\
    rrun (sprims E strict cap) (sel_read E Dr id p flr) (mkr (cw ++ post) (LEN pre) pk)
      = Ok (v, mkr post (LEN pre + LEN cw) pk') /\
    sel_len Dw id p flw v = Some (LEN cw) /\ sel_len Dr id p flr v = Some (LEN cw).
Proof.
  intros Hv Hc.
  destruct (codes_correct E Dw checks id p flw v Hv) as (Hw & _ & Hl).
  destruct (codes_correct E Dr checks id p flr v Hv) as (_ & Hr & Hl').
  exists (code_cw E id p v).
  destruct (Hr strict cap post (LEN pre) pk Hc) as [pk' Hr'].
  exists pk'. repeat split; [apply Hw | exact Hr' | exact Hl | exact Hl'].
Qed.

(* the codes are instantaneous: a codeword followed by anything determines its value *)
Theorem prefix_free E id p v1 v2 post1 post2 :
  valid id p v1 -> valid id p v2 ->
  code_cw E id p v1 ++ post1 = code_cw E id p v2 ++ post2 -> v1 = v2 /\ post1 = post2.
Proof.
  intros H1 H2 Heq.
  destruct (codes_correct E buf_params false id p 0 v1 H1) as (_ & R1 & _).
  destruct (codes_correct E buf_params false id p 0 v2 H2) as (_ & R2 & _).
  destruct (R1 false maxcap post1 0 0 ltac:(lia)) as [pk1 E1].
  destruct (R2 false maxcap post2 0 0 ltac:(lia)) as [pk2 E2].
  rewrite Heq in E1. rewrite E1 in E2. injection E2 as -> -> _ _. split; reflexivity.
Qed.

(* C04: under the zeta guard the written bits are the published definition *)
Theorem codeword_is_definition E D checks id p fl v :
  valid id p v -> zeta_guard id p v ->
  forall s, wrun (swprims E checks) (sel_write E D checks id p fl v) s
            = Ok (LEN (code_def E id p v), s ++ code_def E id p v).
Proof.
  intros Hv Hg s. rewrite <- (code_cw_is_def E id p v Hg).
  destruct (codes_correct E D checks id p fl v Hv) as (Hw & _ & _). apply Hw.
Qed.

(* C05: the table options are unobservable *)
Theorem tables_unobservable E D1 D2 checks id p fl1 fl2 v s strict cap post pos pk :
  valid id p v -> maxcap <= cap ->
  wrun (swprims E checks) (sel_write E D1 checks id p fl1 v) s
    = wrun (swprims E checks) (sel_write E D2 checks id p fl2 v) s /\
  sel_len D1 id p fl1 v = sel_len D2 id p fl2 v /\
  exists pk1 pk2 r,
    rrun (sprims E strict cap) (sel_read E D1 id p fl1) (mkr (code_cw E id p v ++ post) pos pk) = Ok (v, mkr post r pk1) /\
    rrun (sprims E strict cap) (sel_read E D2 id p fl2) (mkr (code_cw E id p v ++ post) pos pk) = Ok (v, mkr post r pk2).
Proof.
  intros Hv Hc.
  destruct (codes_correct E D1 checks id p fl1 v Hv) as (W1 & R1 & L1).
  destruct (codes_correct E D2 checks id p fl2 v Hv) as (W2 & R2 & L2).
  split; [rewrite W1, W2; reflexivity|]. split; [rewrite L1, L2; reflexivity|].
  destruct (R1 strict cap post pos pk Hc) as [pk1 E1]. destruct (R2 strict cap post pos pk Hc) as [pk2 E2].
  exists pk1, pk2, (pos + LEN (code_cw E id p v)). split; assumption.
Qed.

(* C05: a reader that printed no diagnostic really has the look-ahead the tables need.
   buf_claimed_peek / unbuf_claimed_peek are generated from the argument of check_tables(...) in the
   readers' constructors; the buffered reader guarantees W bits, the unbuffered one 32. *)
Theorem claimed_peek_sound : (forall W, buf_claimed_peek W <= W) /\ unbuf_claimed_peek <= 32.
Proof. split; [intros W; unfold buf_claimed_peek; lia | unfold unbuf_claimed_peek; lia]. Qed.
Theorem no_diagnostic_sufficient W : maxcap <= buf_claimed_peek W -> maxcap <= W.
Proof. intros H. pose proof (proj1 claimed_peek_sound W). lia. Qed.
