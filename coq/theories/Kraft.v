(* Kraft.v — property C20, part 2: Kraft's inequality for prefix-free sets of
   binary codewords, and its corollary for instantaneous codes given by a decoder.
   Generic (does not depend on the model). *)
From Coq Require Import List NArith Lia Bool QArith Qpower Lqa.
Import ListNotations.

Definition prefix (a b : list bool) : Prop := exists c, b = a ++ c.

Definition prefix_free (l : list (list bool)) : Prop :=
  forall a b, In a l -> In b l -> prefix a b -> a = b.

(* 2^n as a positive, by n doublings *)
Definition pow2pos (n : nat) : positive := Pos.shiftl_nat 1 n.

(* weight cw = 1 / 2^(length cw) *)
Definition weight (cw : list bool) : Q := 1 # pow2pos (length cw).

Definition wsum (l : list (list bool)) : Q :=
  fold_right (fun cw acc => weight cw + acc) 0 l.

Lemma pow2pos_S : forall n, pow2pos (S n) = xO (pow2pos n).
Proof. reflexivity. Qed.

Lemma pow2pos_spec : forall n, Zpos (pow2pos n) = (2 ^ Z.of_nat n)%Z.
Proof.
  induction n as [|n IH].
  - reflexivity.
  - rewrite pow2pos_S, Nat2Z.inj_succ, Z.pow_succ_r by lia.
    rewrite <- IH. reflexivity.
Qed.

Lemma weight_nil : weight [] = 1.
Proof. reflexivity. Qed.

Lemma weight_cons : forall b r, weight (b :: r) == (1 # 2) * weight r.
Proof.
  intros b r. unfold weight. cbn [length]. rewrite pow2pos_S. reflexivity.
Qed.

Lemma weight_Qpower : forall cw, weight cw == (1 # 2) ^ Z.of_nat (length cw).
Proof.
  induction cw as [|b r IH].
  - reflexivity.
  - rewrite weight_cons, IH. cbn [length]. rewrite Nat2Z.inj_succ.
    unfold Z.succ. rewrite Qpower_plus by discriminate.
    change ((1 # 2) ^ 1) with (1 # 2). ring.
Qed.

Lemma weight_pos : forall cw, 0 < weight cw.
Proof. intros cw. reflexivity. Qed.

Lemma wsum_nonneg : forall l, 0 <= wsum l.
Proof.
  induction l as [|cw l IH]; cbn [wsum fold_right].
  - apply Qle_refl.
  - fold (wsum l). pose proof (weight_pos cw). lra.
Qed.

Lemma wsum_cons : forall cw l, wsum (cw :: l) = weight cw + wsum l.
Proof. reflexivity. Qed.

(* ------------------------------------------------------------------ *)
(* the tails of the codewords starting with bit b *)
Definition tail_of (b : bool) (cw : list bool) : list (list bool) :=
  match cw with
  | [] => []
  | c :: r => if Bool.eqb c b then [r] else []
  end.

Definition tails (b : bool) (l : list (list bool)) : list (list bool) :=
  flat_map (tail_of b) l.

Lemma tails_cons : forall b cw l, tails b (cw :: l) = tail_of b cw ++ tails b l.
Proof. reflexivity. Qed.

Lemma in_tails : forall b l r, In r (tails b l) <-> In (b :: r) l.
Proof.
  intros b l r. unfold tails. rewrite in_flat_map. split.
  - intros [cw [Hin Hr]]. destruct cw as [|c cw]; [contradiction|].
    cbn [tail_of] in Hr. destruct (Bool.eqb c b) eqn:E; [|contradiction].
    apply eqb_prop in E. subst c. destruct Hr as [<-|[]]. exact Hin.
  - intros Hin. exists (b :: r). split; [exact Hin|].
    cbn [tail_of]. rewrite eqb_reflx. left. reflexivity.
Qed.

Lemma tails_NoDup : forall b l, NoDup l -> NoDup (tails b l).
Proof.
  intros b l. induction 1 as [|cw l Hnin Hnd IH].
  - constructor.
  - rewrite tails_cons. destruct cw as [|c r]; [exact IH|].
    cbn [tail_of]. destruct (Bool.eqb c b) eqn:E; [|exact IH].
    apply eqb_prop in E. subst c. cbn [app]. constructor; [|exact IH].
    rewrite in_tails. exact Hnin.
Qed.

Lemma tails_prefix_free : forall b l, prefix_free l -> prefix_free (tails b l).
Proof.
  intros b l Hpf x y Hx Hy [c Hc].
  apply in_tails in Hx. apply in_tails in Hy.
  assert (E : b :: x = b :: y).
  { apply Hpf; try assumption. exists c. rewrite Hc. reflexivity. }
  injection E as E. exact E.
Qed.

Lemma tails_length : forall b l n,
  (forall cw, In cw l -> (length cw <= S n)%nat) ->
  forall cw, In cw (tails b l) -> (length cw <= n)%nat.
Proof.
  intros b l n H cw Hin. apply in_tails in Hin. apply H in Hin. cbn [length] in Hin. lia.
Qed.

Lemma wsum_split : forall l,
  ~ In [] l ->
  wsum l == (1 # 2) * wsum (tails false l) + (1 # 2) * wsum (tails true l).
Proof.
  induction l as [|cw l IH]; intros Hnil.
  - reflexivity.
  - rewrite wsum_cons, !tails_cons.
    assert (Hnil' : ~ In [] l) by (intros H; apply Hnil; right; exact H).
    specialize (IH Hnil').
    destruct cw as [|c r]; [exfalso; apply Hnil; left; reflexivity|].
    rewrite weight_cons.
    destruct c; cbn [tail_of Bool.eqb app]; rewrite ?wsum_cons; lra.
Qed.

Lemma nil_in_prefix_free : forall l,
  NoDup l -> prefix_free l -> In [] l -> l = [[]].
Proof.
  intros l Hnd Hpf Hnil.
  assert (Hall : forall x, In x l -> x = []).
  { intros x Hx. symmetry. apply Hpf; try assumption. exists x. reflexivity. }
  destruct l as [|x r]; [contradiction|].
  assert (x = []) by (apply Hall; left; reflexivity). subst x.
  destruct r as [|y r]; [reflexivity|].
  assert (y = []) by (apply Hall; right; left; reflexivity). subst y.
  inversion Hnd as [|? ? Hnin _]. exfalso. apply Hnin. left. reflexivity.
Qed.

Lemma wsum_single_nil : wsum [[]] <= 1.
Proof. apply Qle_bool_imp_le. reflexivity. Qed.

Lemma wsum_empty : wsum [] <= 1.
Proof. apply Qle_bool_imp_le. reflexivity. Qed.

Lemma kraft_bounded : forall n l,
  (forall cw, In cw l -> (length cw <= n)%nat) ->
  NoDup l -> prefix_free l -> wsum l <= 1.
Proof.
  induction n as [|n IH]; intros l Hlen Hnd Hpf.
  - destruct l as [|x r]; [exact wsum_empty|].
    assert (Hnil : In [] (x :: r)).
    { left. specialize (Hlen x (or_introl eq_refl)). destruct x; [reflexivity|cbn in Hlen; lia]. }
    rewrite (nil_in_prefix_free _ Hnd Hpf Hnil). exact wsum_single_nil.
  - destruct (in_dec (list_eq_dec bool_dec) [] l) as [Hnil|Hnil].
    + rewrite (nil_in_prefix_free _ Hnd Hpf Hnil). exact wsum_single_nil.
    + rewrite (wsum_split l Hnil).
      assert (H0 : wsum (tails false l) <= 1).
      { apply IH; [apply tails_length; exact Hlen|apply tails_NoDup; exact Hnd
                  |apply tails_prefix_free; exact Hpf]. }
      assert (H1 : wsum (tails true l) <= 1).
      { apply IH; [apply tails_length; exact Hlen|apply tails_NoDup; exact Hnd
                  |apply tails_prefix_free; exact Hpf]. }
      lra.
Qed.

Lemma length_bound : forall l : list (list bool),
  exists n, forall cw, In cw l -> (length cw <= n)%nat.
Proof.
  induction l as [|x l [n IH]].
  - exists 0%nat. intros cw [].
  - exists (Nat.max (length x) n). intros cw [<-|Hin]; [lia|].
    specialize (IH cw Hin). lia.
Qed.

Theorem kraft_inequality : forall l,
  NoDup l ->
  (forall a b, In a l -> In b l -> prefix a b -> a = b) ->
  wsum l <= 1.
Proof.
  intros l Hnd Hpf. destruct (length_bound l) as [n Hn].
  exact (kraft_bounded n l Hn Hnd Hpf).
Qed.

(* ------------------------------------------------------------------ *)
(* instantaneous codes *)
Section Decoder.
  Variable cw : N -> list bool.
  Variable dom : N -> Prop.
  Variable dec : list bool -> option (N * list bool).
  Hypothesis dec_cw : forall n post, dom n -> dec (cw n ++ post) = Some (n, post).

  Lemma cw_prefix_eq : forall a b, dom a -> dom b -> prefix (cw a) (cw b) -> a = b.
  Proof.
    intros a b Ha Hb [c Hc].
    pose proof (dec_cw b [] Hb) as Eb. rewrite Hc, <- app_assoc in Eb.
    rewrite (dec_cw a (c ++ []) Ha) in Eb. congruence.
  Qed.

  Lemma cw_inj : forall a b, dom a -> dom b -> cw a = cw b -> a = b.
  Proof.
    intros a b Ha Hb E. apply cw_prefix_eq; try assumption.
    exists []. rewrite app_nil_r. symmetry. exact E.
  Qed.

  Lemma cw_NoDup : forall ns, NoDup ns -> Forall dom ns -> NoDup (map cw ns).
  Proof.
    intros ns Hnd. induction Hnd as [|a ns Hnin Hnd IH]; intros Hdom; cbn [map].
    - constructor.
    - inversion Hdom as [|? ? Ha Hdom']; subst. constructor; [|apply IH; exact Hdom'].
      intros Hin. apply in_map_iff in Hin. destruct Hin as [b [Eb Hb]].
      rewrite Forall_forall in Hdom'.
      assert (b = a) by (apply cw_inj; auto). subst b. contradiction.
  Qed.

  Lemma cw_prefix_free : forall ns, Forall dom ns -> prefix_free (map cw ns).
  Proof.
    intros ns Hdom x y Hx Hy Hp. rewrite Forall_forall in Hdom.
    apply in_map_iff in Hx. destruct Hx as [a [<- Ha]].
    apply in_map_iff in Hy. destruct Hy as [b [<- Hb]].
    f_equal. apply cw_prefix_eq; auto.
  Qed.

  Theorem kraft_of_decoder : forall ns,
    NoDup ns -> Forall dom ns ->
    NoDup (map cw ns) /\
    (forall a b, In a (map cw ns) -> In b (map cw ns) -> prefix a b -> a = b) /\
    wsum (map cw ns) <= 1.
  Proof.
    intros ns Hnd Hdom.
    pose proof (cw_NoDup ns Hnd Hdom) as H1.
    pose proof (cw_prefix_free ns Hdom) as H2.
    split; [exact H1|]. split; [exact H2|].
    apply kraft_inequality; assumption.
  Qed.
End Decoder.

(* ------------------------------------------------------------------ *)
(* Examples *)

(* a complete prefix-free code: equality *)
Example kraft_ex_hyps :
  let l := [[false]; [true; false]; [true; true; false]; [true; true; true]] in
  NoDup l /\ prefix_free l /\ wsum l == 1.
Proof.
  cbv zeta. split; [|split].
  - repeat constructor; cbn; intuition discriminate.
  - intros a b Ha Hb [c Hc]. cbn in Ha, Hb.
    repeat (destruct Ha as [<-|Ha]; [|]); try contradiction;
      repeat (destruct Hb as [<-|Hb]; [|]); try contradiction;
      try reflexivity; cbn in Hc; discriminate.
  - reflexivity.
Qed.

(* unary code: n is written as n zeros and a one; total function, dom = everything *)
Fixpoint unary_dec_aux (l : list bool) (k : N) : option (N * list bool) :=
  match l with
  | [] => None
  | true :: r => Some (k, r)
  | false :: r => unary_dec_aux r (N.succ k)
  end.
Definition unary_cw (n : N) : list bool := repeat false (N.to_nat n) ++ [true].
Definition unary_dec (l : list bool) := unary_dec_aux l 0.

Lemma unary_dec_aux_spec : forall m k post,
  unary_dec_aux (repeat false m ++ true :: post) k = Some ((k + N.of_nat m)%N, post).
Proof.
  induction m as [|m IH]; intros k post.
  - cbn. rewrite N.add_0_r. reflexivity.
  - cbn [repeat app unary_dec_aux]. rewrite IH. do 2 f_equal. lia.
Qed.

Example unary_decoder_hyp : forall n post,
  True -> unary_dec (unary_cw n ++ post) = Some (n, post).
Proof.
  intros n post _. unfold unary_dec, unary_cw. rewrite <- app_assoc. cbn [app].
  rewrite unary_dec_aux_spec. do 2 f_equal. lia.
Qed.

Example unary_kraft : wsum (map unary_cw [0; 3; 1; 7]%N) <= 1.
Proof.
  apply (kraft_of_decoder unary_cw (fun _ => True) unary_dec unary_decoder_hyp).
  - repeat constructor; cbn; intuition discriminate.
  - repeat constructor.
Qed.
