(* Words.v — fixed-width unsigned word operations as Rust performs them, width W in
   bits explicit (W = 8,16,32,64,128 for backend words; 2W for the reader's buffer).
   A shift by >= width is None (Rust panics in debug, masks the amount in release). *)
From DSI Require Export Base.

Definition wshl (W x n : N) : option N := if n <? W then Some ((x * 2 ^ n) mod 2 ^ W) else None.
Definition wshr (W x n : N) : option N := if n <? W then Some (x / 2 ^ n) else None.
Definition wcast (W x : N) : N := x mod 2 ^ W.
Definition wmax (W : N) : N := 2 ^ W - 1.
Definition wrotr (W x n : N) : N :=
  let r := n mod W in N.lor (x / 2 ^ r) ((x * 2 ^ (W - r)) mod 2 ^ W).
Definition wrotl (W x n : N) : N :=
  let r := n mod W in N.lor ((x * 2 ^ r) mod 2 ^ W) (x / 2 ^ (W - r)).
Definition wnot (W x : N) : N := wmax W - x.

Fixpoint ctz_pos (p : positive) : N :=
  match p with xO q => N.succ (ctz_pos q) | _ => 0 end.
Definition trailing_zeros (W x : N) : N := match x with N0 => W | Npos p => ctz_pos p end.
Definition leading_zeros (W x : N) : N := match x with N0 => W | Npos _ => W - 1 - N.log2 x end.

(* to_be_bytes / to_le_bytes of a W-bit word, W a multiple of 8 *)
Fixpoint le_bytes (n : nat) (x : N) : list N :=
  match n with O => [] | S m => x mod 256 :: le_bytes m (x / 256) end.
Definition word_bytes (E : endian) (W x : N) : list N :=
  let l := le_bytes (N.to_nat (W / 8)) x in match E with LE => l | BE => rev l end.
Fixpoint of_le_bytes (bs : list N) : N :=
  match bs with [] => 0 | b :: r => b + 256 * of_le_bytes r end.
Definition word_of_bytes (E : endian) (bs : list N) : N :=
  match E with LE => of_le_bytes bs | BE => of_le_bytes (rev bs) end.

(* split a byte list into words of W/8 bytes (a trailing partial word is zero padded) *)
Fixpoint words_of_bytes (E : endian) (nb : nat) (fuel : nat) (bs : list N) : list N :=
  match fuel with
  | O => []
  | S f => match bs with
           | [] => []
           | _ => let chunk := firstn nb bs in
                  let chunk := chunk ++ repeat 0 (nb - length chunk) in
                  word_of_bytes E chunk :: words_of_bytes E nb f (skipn nb bs)
           end
  end.
