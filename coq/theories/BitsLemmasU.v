(* BitsLemmasU.v — positional ("bit i of the list / of the stream") lemmas about the bit-list
   vocabulary of Base.v, used by the proofs about the unbuffered reader.  Depends on Base only. *)
From Coq Require Import ZifyBool ZifyNat ZifyN.
From DSI Require Import Base Words.
Ltac Zify.zify_post_hook ::= Z.div_mod_to_equations.

Arguments N.add : simpl never. Arguments N.sub : simpl never. Arguments N.mul : simpl never.
Arguments N.div : simpl never. Arguments N.modulo : simpl never. Arguments N.pow : simpl never.
Arguments N.eqb : simpl never. Arguments N.ltb : simpl never. Arguments N.leb : simpl never.
Arguments N.testbit : simpl never. Arguments N.lor : simpl never. Arguments N.land : simpl never.
Arguments N.shiftl : simpl never. Arguments N.shiftr : simpl never.
Arguments N.of_nat : simpl never. Arguments N.to_nat : simpl never.

(* ------------------------------------------------------------------ *)
(* bit i of a list (false beyond the end) *)
Definition getb (l : bits) (i : N) : bool := nth (N.to_nat i) l false.
Definition lenN (l : bits) : N := N.of_nat (length l).

Lemma getb_nil i : getb [] i = false.
Proof. unfold getb. destruct (N.to_nat i); reflexivity. Qed.

Lemma getb_cons b l i : getb (b :: l) i = if i =? 0 then b else getb l (i - 1).
Proof.
  unfold getb. destruct (i =? 0) eqn:H.
  - apply N.eqb_eq in H. subst. reflexivity.
  - apply N.eqb_neq in H. replace (N.to_nat i) with (S (N.to_nat (i - 1))) by lia. reflexivity.
Qed.

Lemma getb_high l i : lenN l <= i -> getb l i = false.
Proof. unfold getb, lenN. intros H. apply nth_overflow. lia. Qed.

Lemma getb_app a b i : getb (a ++ b) i = if i <? lenN a then getb a i else getb b (i - lenN a).
Proof.
  unfold getb, lenN. destruct (i <? N.of_nat (length a)) eqn:H.
  - apply N.ltb_lt in H. apply app_nth1. lia.
  - apply N.ltb_ge in H. rewrite app_nth2 by lia. f_equal. lia.
Qed.

Lemma getb_ext a b : length a = length b -> (forall i, i < lenN a -> getb a i = getb b i) -> a = b.
Proof.
  intros HL H. apply (nth_ext a b false false HL). intros n Hn.
  specialize (H (N.of_nat n)). unfold getb, lenN in H. rewrite Nat2N.id in H. apply H. lia.
Qed.

Lemma getb_skipn k l i : getb (skipn k l) i = getb l (N.of_nat k + i).
Proof.
  revert l. induction k as [| k IH]; intros l.
  - cbn [skipn]. f_equal; lia.
  - destruct l as [| b l].
    + cbn [skipn]. rewrite !getb_nil. reflexivity.
    + cbn [skipn]. rewrite IH. rewrite (getb_cons b l).
      destruct (N.of_nat (S k) + i =? 0) eqn:H; [apply N.eqb_eq in H; lia |].
      f_equal. lia.
Qed.

Lemma length_take_pad n l : length (take_pad n l) = n.
Proof.
  revert l. induction n as [| n IH]; intros l; [reflexivity |].
  destruct l; cbn [take_pad length]; rewrite IH; reflexivity.
Qed.

Lemma getb_take_pad n l i : getb (take_pad n l) i = if i <? N.of_nat n then getb l i else false.
Proof.
  revert l i. induction n as [| n IH]; intros l i.
  - cbn [take_pad]. rewrite getb_nil. destruct (i <? N.of_nat 0) eqn:H; [apply N.ltb_lt in H; lia | reflexivity].
  - destruct l as [| b l]; cbn [take_pad]; rewrite getb_cons, IH.
    + rewrite !getb_nil. destruct (i =? 0), (i - 1 <? N.of_nat n), (i <? N.of_nat (S n)); reflexivity.
    + rewrite (getb_cons b l). destruct (i =? 0) eqn:H0.
      * apply N.eqb_eq in H0. subst. reflexivity.
      * apply N.eqb_neq in H0.
        destruct (i - 1 <? N.of_nat n) eqn:H1, (i <? N.of_nat (S n)) eqn:H2; try reflexivity; exfalso;
          rewrite ?N.ltb_lt, ?N.ltb_ge in *; lia.
Qed.

Lemma take_pad_firstn n l : (n <= length l)%nat -> take_pad n l = firstn n l.
Proof.
  revert l. induction n as [| n IH]; intros l H; [reflexivity |].
  destruct l as [| b l]; cbn [length] in H; [lia |].
  cbn [take_pad firstn]. rewrite IH by lia. reflexivity.
Qed.

Lemma getb_rev l i : i < lenN l -> getb (rev l) i = getb l (lenN l - 1 - i).
Proof.
  unfold getb, lenN. intros H. rewrite rev_nth by lia. f_equal. lia.
Qed.

(* ------------------------------------------------------------------ *)
(* fields *)
Lemma length_field_le_from v s n : length (field_le_from v s n) = n.
Proof. revert s. induction n as [| n IH]; intros s; cbn [field_le_from length]; [| rewrite IH]; reflexivity. Qed.

Lemma length_field E v n : length (field E v n) = n.
Proof.
  destruct E; unfold field, field_be, field_le; rewrite ?rev_length; apply length_field_le_from.
Qed.

Lemma getb_field_le_from v s n i :
  getb (field_le_from v s n) i = if i <? N.of_nat n then N.testbit v (s + i) else false.
Proof.
  revert s i. induction n as [| n IH]; intros s i.
  - cbn [field_le_from]. rewrite getb_nil. destruct (i <? N.of_nat 0) eqn:H; [apply N.ltb_lt in H; lia | reflexivity].
  - cbn [field_le_from]. rewrite getb_cons, IH. destruct (i =? 0) eqn:H0.
    + apply N.eqb_eq in H0. subst. rewrite N.add_0_r. reflexivity.
    + apply N.eqb_neq in H0.
      destruct (i - 1 <? N.of_nat n) eqn:H1, (i <? N.of_nat (S n)) eqn:H2; try reflexivity;
        rewrite ?N.ltb_lt, ?N.ltb_ge in *; try lia.
      f_equal. lia.
Qed.

Lemma getb_field_le v n i : getb (field_le v n) i = if i <? N.of_nat n then N.testbit v i else false.
Proof. unfold field_le. rewrite getb_field_le_from. reflexivity. Qed.

Lemma getb_field_be v n i :
  getb (field_be v n) i = if i <? N.of_nat n then N.testbit v (N.of_nat n - 1 - i) else false.
Proof.
  unfold field_be. destruct (i <? N.of_nat n) eqn:H.
  - apply N.ltb_lt in H. rewrite getb_rev by (unfold lenN, field_le; rewrite length_field_le_from; exact H).
    unfold lenN, field_le at 2. rewrite length_field_le_from, getb_field_le.
    destruct (N.of_nat n - 1 - i <? N.of_nat n) eqn:H2; [reflexivity | apply N.ltb_ge in H2; lia].
  - apply N.ltb_ge in H. apply getb_high. unfold lenN, field_le. rewrite rev_length, length_field_le_from. exact H.
Qed.

(* ------------------------------------------------------------------ *)
(* values *)
Lemma testbit_val_le l i : N.testbit (val_le l) i = getb l i.
Proof.
  revert i. induction l as [| b l IH]; intros i.
  - cbn [val_le]. rewrite getb_nil. apply N.bits_0.
  - cbn [val_le]. rewrite getb_cons. rewrite N.add_comm. destruct (i =? 0) eqn:H0.
    + apply N.eqb_eq in H0. subst. apply N.testbit_0_r.
    + apply N.eqb_neq in H0. replace i with (N.succ (i - 1)) at 1 by lia.
      rewrite N.testbit_succ_r. apply IH.
Qed.

Lemma val_le_lt l : val_le l < 2 ^ lenN l.
Proof.
  unfold lenN. induction l as [| b l IH].
  - cbn. lia.
  - cbn [val_le length]. rewrite Nat2N.inj_succ, N.pow_succ_r'. destruct b; cbn [N.b2n]; lia.
Qed.

Lemma val_le_app x y : val_le (x ++ y) = val_le x + 2 ^ lenN x * val_le y.
Proof.
  unfold lenN. induction x as [| b x IH].
  - cbn [app val_le length]. change (2 ^ N.of_nat 0) with 1. lia.
  - cbn [app val_le length]. rewrite IH, Nat2N.inj_succ, N.pow_succ_r'. lia.
Qed.

Lemma val_be_acc_eq l acc : val_be_acc acc l = val_le (rev l) + acc * 2 ^ lenN l.
Proof.
  unfold lenN. revert acc. induction l as [| b l IH]; intros acc.
  - cbn [val_be_acc rev val_le length]. change (2 ^ N.of_nat 0) with 1. lia.
  - cbn [val_be_acc rev length]. rewrite IH, val_le_app. unfold lenN. rewrite rev_length.
    cbn [val_le]. rewrite Nat2N.inj_succ, N.pow_succ_r'. lia.
Qed.

Lemma val_be_rev l : val_be l = val_le (rev l).
Proof. unfold val_be. rewrite val_be_acc_eq. lia. Qed.

Lemma testbit_val_be l i :
  N.testbit (val_be l) i = if i <? lenN l then getb l (lenN l - 1 - i) else false.
Proof.
  rewrite val_be_rev, testbit_val_le. destruct (i <? lenN l) eqn:H.
  - apply N.ltb_lt in H. apply getb_rev. exact H.
  - apply N.ltb_ge in H. apply getb_high. unfold lenN in *. rewrite rev_length. exact H.
Qed.

Lemma val_lt E l : val E l < 2 ^ lenN l.
Proof.
  destruct E; unfold val.
  - rewrite val_be_rev. replace (lenN l) with (lenN (rev l)) by (unfold lenN; rewrite rev_length; reflexivity).
    apply val_le_lt.
  - apply val_le_lt.
Qed.

(* bit j of the value of a list of n bits, both conventions *)
Definition vidx (E : endian) (n j : N) : N := match E with BE => n - 1 - j | LE => j end.

Lemma testbit_val E l j :
  N.testbit (val E l) j = if j <? lenN l then getb l (vidx E (lenN l) j) else false.
Proof.
  destruct E; unfold val, vidx.
  - apply testbit_val_be.
  - rewrite testbit_val_le. destruct (j <? lenN l) eqn:H; [reflexivity |].
    apply N.ltb_ge in H. apply getb_high. exact H.
Qed.

(* ------------------------------------------------------------------ *)
(* streams of 64-bit words *)
Definition nthw (ws : list N) (q : N) : N := nth (N.to_nat q) ws 0.
Definition wbit (E : endian) (w j : N) : bool :=
  match E with BE => N.testbit w (63 - j) | LE => N.testbit w j end.
(* bit i of the zero-extended stream of the words ws *)
Definition sbit (E : endian) (ws : list N) (i : N) : bool := wbit E (nthw ws (i / 64)) (i mod 64).
Definition stream64 (E : endian) (ws : list N) : bits := flat_map (fun w => field E w 64) ws.

Lemma nthw_nil q : nthw [] q = 0.
Proof. unfold nthw. destruct (N.to_nat q); reflexivity. Qed.

Lemma nthw_cons w ws q : nthw (w :: ws) q = if q =? 0 then w else nthw ws (q - 1).
Proof.
  unfold nthw. destruct (q =? 0) eqn:H.
  - apply N.eqb_eq in H. subst. reflexivity.
  - apply N.eqb_neq in H. replace (N.to_nat q) with (S (N.to_nat (q - 1))) by lia. reflexivity.
Qed.

Lemma nthw_skipn k ws q : nthw (skipn k ws) q = nthw ws (N.of_nat k + q).
Proof.
  revert ws. induction k as [| k IH]; intros ws.
  - cbn [skipn]. f_equal; lia.
  - destruct ws as [| w ws].
    + cbn [skipn]. rewrite !nthw_nil. reflexivity.
    + cbn [skipn]. rewrite IH, (nthw_cons w ws).
      destruct (N.of_nat (S k) + q =? 0) eqn:H; [apply N.eqb_eq in H; lia |]. f_equal. lia.
Qed.

Lemma nthw_lt ws q : Forall (fun w => w < 2 ^ 64) ws -> nthw ws q < 2 ^ 64.
Proof.
  intros H. unfold nthw. destruct (nth_in_or_default (N.to_nat q) ws 0) as [Hin | ->].
  - rewrite Forall_forall in H. apply H. exact Hin.
  - reflexivity.
Qed.

Lemma nthw_nth_error ws q :
  nth_error ws (N.to_nat q) = if q <? N.of_nat (length ws) then Some (nthw ws q) else None.
Proof.
  unfold nthw. destruct (q <? N.of_nat (length ws)) eqn:H.
  - apply N.ltb_lt in H. apply nth_error_nth'. lia.
  - apply N.ltb_ge in H. apply nth_error_None. lia.
Qed.

Lemma nthw_high ws q : N.of_nat (length ws) <= q -> nthw ws q = 0.
Proof. intros H. unfold nthw. apply nth_overflow. lia. Qed.

Lemma wbit_0 E j : wbit E 0 j = false.
Proof. destruct E; apply N.bits_0. Qed.

Lemma getb_word E w j : j < 64 -> getb (field E w 64) j = wbit E w j.
Proof.
  intros H. destruct E; unfold field, wbit.
  - rewrite getb_field_be. change (N.of_nat 64) with 64.
    destruct (j <? 64) eqn:H1; [| apply N.ltb_ge in H1; lia]. f_equal; lia.
  - rewrite getb_field_le. change (N.of_nat 64) with 64.
    destruct (j <? 64) eqn:H1; [| apply N.ltb_ge in H1; lia]. reflexivity.
Qed.

Lemma length_stream64 E ws : lenN (stream64 E ws) = 64 * N.of_nat (length ws).
Proof.
  unfold lenN, stream64. induction ws as [| w ws IH].
  - reflexivity.
  - cbn [flat_map length]. rewrite app_length, length_field. lia.
Qed.

Lemma getb_stream64 E ws i : getb (stream64 E ws) i = sbit E ws i.
Proof.
  unfold stream64, sbit. revert i. induction ws as [| w ws IH]; intros i.
  - cbn [flat_map]. rewrite getb_nil, nthw_nil, wbit_0. reflexivity.
  - cbn [flat_map]. rewrite getb_app. unfold lenN. rewrite length_field. change (N.of_nat 64) with 64.
    rewrite nthw_cons. destruct (i <? 64) eqn:H.
    + apply N.ltb_lt in H. replace (i / 64) with 0 by lia. replace (i mod 64) with i by lia.
      cbn [N.eqb]. apply getb_word. exact H.
    + apply N.ltb_ge in H. rewrite IH.
      destruct (i / 64 =? 0) eqn:H0; [apply N.eqb_eq in H0; lia |].
      f_equal; [f_equal |]; lia.
Qed.

Lemma sbit_high E ws i : 64 * N.of_nat (length ws) <= i -> sbit E ws i = false.
Proof. intros H. unfold sbit. rewrite nthw_high by lia. apply wbit_0. Qed.

Lemma sbit_skipn E k ws i : sbit E (skipn k ws) i = sbit E ws (64 * N.of_nat k + i).
Proof.
  unfold sbit. rewrite nthw_skipn. f_equal; [f_equal |]; lia.
Qed.

(* the value of n bits of the zero-extended stream from position p *)
Definition sval (E : endian) (ws : list N) (p n : N) : N :=
  val E (take_pad (N.to_nat n) (skipn (N.to_nat p) (stream64 E ws))).

Lemma testbit_sval E ws p n j :
  N.testbit (sval E ws p n) j = if j <? n then sbit E ws (p + vidx E n j) else false.
Proof.
  unfold sval. rewrite testbit_val. unfold lenN. rewrite length_take_pad, N2Nat.id.
  destruct (j <? n) eqn:H; [| reflexivity]. apply N.ltb_lt in H.
  rewrite getb_take_pad, N2Nat.id.
  assert (Hv : vidx E n j < n) by (destruct E; unfold vidx; lia).
  destruct (vidx E n j <? n) eqn:H2; [| apply N.ltb_ge in H2; lia].
  rewrite getb_skipn, N2Nat.id. apply getb_stream64.
Qed.

Lemma sval_lt E ws p n : sval E ws p n < 2 ^ n.
Proof.
  unfold sval. pose proof (val_lt E (take_pad (N.to_nat n) (skipn (N.to_nat p) (stream64 E ws)))) as H.
  unfold lenN in H. rewrite length_take_pad, N2Nat.id in H. exact H.
Qed.

(* ------------------------------------------------------------------ *)
(* count_zeros, positionally *)
Lemma count_zeros_spec l :
  match count_zeros l with
  | Some z => getb l z = true /\ (forall j, j < z -> getb l j = false) /\ z < lenN l
  | None => forall j, getb l j = false
  end.
Proof.
  induction l as [| b l IH].
  - cbn [count_zeros]. intros j. apply getb_nil.
  - cbn [count_zeros]. destruct b.
    + split; [reflexivity |]. split; [intros j Hj; lia |]. unfold lenN. cbn [length]. lia.
    + destruct (count_zeros l) as [k |].
      * destruct IH as [H1 [H2 H3]]. split; [| split].
        -- rewrite getb_cons. destruct (N.succ k =? 0) eqn:H; [apply N.eqb_eq in H; lia |].
           replace (N.succ k - 1) with k by lia. exact H1.
        -- intros j Hj. rewrite getb_cons. destruct (j =? 0) eqn:H; [reflexivity |].
           apply N.eqb_neq in H. apply H2. lia.
        -- unfold lenN in *. cbn [length]. lia.
      * intros j. rewrite getb_cons. destruct (j =? 0); [reflexivity | apply IH].
Qed.

Lemma first_one_unique (f : N -> bool) z z' :
  f z = true -> (forall j, j < z -> f j = false) ->
  f z' = true -> (forall j, j < z' -> f j = false) -> z = z'.
Proof.
  intros H1 H2 H3 H4. destruct (N.lt_trichotomy z z') as [H | [H | H]]; [| exact H |].
  - rewrite (H4 z H) in H1. discriminate.
  - rewrite (H2 z' H) in H3. discriminate.
Qed.

Lemma count_zeros_some l z :
  getb l z = true -> (forall j, j < z -> getb l j = false) -> count_zeros l = Some z.
Proof.
  intros H1 H2. pose proof (count_zeros_spec l) as H. destruct (count_zeros l) as [k |].
  - destruct H as [H3 [H4 _]]. f_equal. apply (first_one_unique (getb l)); assumption.
  - rewrite H in H1. discriminate.
Qed.

Lemma count_zeros_none l : (forall j, getb l j = false) -> count_zeros l = None.
Proof.
  intros H0. pose proof (count_zeros_spec l) as H. destruct (count_zeros l) as [k |]; [| reflexivity].
  destruct H as [H1 _]. rewrite H0 in H1. discriminate.
Qed.

(* ------------------------------------------------------------------ *)
(* leading / trailing zeros of a 64-bit word, positionally *)
Lemma testbit_high64 x i : x < 2 ^ 64 -> 64 <= i -> N.testbit x i = false.
Proof.
  intros Hx Hi. destruct (N.eq_dec x 0) as [-> | Hn]; [apply N.bits_0 |].
  apply N.bits_above_log2. apply N.log2_lt_pow2 in Hx; lia.
Qed.

Lemma ctz_pos_spec p :
  N.testbit (Npos p) (ctz_pos p) = true /\ forall j, j < ctz_pos p -> N.testbit (Npos p) j = false.
Proof.
  induction p as [p IH | p IH |].
  - cbn [ctz_pos]. split; [reflexivity | intros j Hj; lia].
  - cbn [ctz_pos]. destruct IH as [H1 H2]. change (N.pos p~0) with (2 * N.pos p). split.
    + rewrite N.testbit_even_succ by lia. exact H1.
    + intros j Hj. destruct (N.eq_dec j 0) as [-> | Hn]; [apply N.testbit_even_0 |].
      replace j with (N.succ (j - 1)) by lia. rewrite N.testbit_even_succ by lia. apply H2. lia.
  - cbn [ctz_pos]. split; [reflexivity | intros j Hj; lia].
Qed.

Lemma tz_spec x : x <> 0 -> x < 2 ^ 64 ->
  let z := trailing_zeros 64 x in
  z < 64 /\ N.testbit x z = true /\ forall j, j < z -> N.testbit x j = false.
Proof.
  intros Hn Hx. destruct x as [| p]; [congruence |]. cbn [trailing_zeros].
  destruct (ctz_pos_spec p) as [H1 H2]. split; [| split; assumption].
  destruct (N.lt_ge_cases (ctz_pos p) 64) as [H | H]; [exact H |].
  rewrite testbit_high64 in H1 by assumption. discriminate.
Qed.

Lemma lz_spec x : x <> 0 -> x < 2 ^ 64 ->
  let z := leading_zeros 64 x in
  z < 64 /\ N.testbit x (63 - z) = true /\ forall j, j < z -> N.testbit x (63 - j) = false.
Proof.
  intros Hn Hx. destruct x as [| p]; [congruence |]. cbn [leading_zeros].
  assert (HL : N.log2 (N.pos p) < 64) by (apply N.log2_lt_pow2; lia).
  split; [lia |]. split.
  - replace (63 - (64 - 1 - N.log2 (N.pos p))) with (N.log2 (N.pos p)) by lia. apply N.bit_log2. lia.
  - intros j Hj. apply N.bits_above_log2. lia.
Qed.

(* the word the unary scan looks at, and its zero count *)
Definition shw (E : endian) (w off : N) : N :=
  match E with BE => (w * 2 ^ off) mod W64 | LE => w / 2 ^ off end.
Definition zc (E : endian) (x : N) : N :=
  match E with BE => leading_zeros 64 x | LE => trailing_zeros 64 x end.

Lemma W64_pow : W64 = 2 ^ 64.
Proof. reflexivity. Qed.

Lemma zc_spec E x : x <> 0 -> x < 2 ^ 64 ->
  zc E x < 64 /\ wbit E x (zc E x) = true /\ forall j, j < zc E x -> wbit E x j = false.
Proof.
  intros Hn Hx. destruct E; unfold zc, wbit.
  - apply lz_spec; assumption.
  - apply tz_spec; assumption.
Qed.

Lemma zc_0 E : zc E 0 = 64.
Proof. destruct E; reflexivity. Qed.

Lemma testbit_shl64 w off i :
  N.testbit ((w * 2 ^ off) mod W64) i = (i <? 64) && (off <=? i) && N.testbit w (i - off).
Proof.
  rewrite W64_pow. destruct (i <? 64) eqn:H1.
  - apply N.ltb_lt in H1. rewrite N.mod_pow2_bits_low by exact H1. destruct (off <=? i) eqn:H2.
    + apply N.leb_le in H2. rewrite N.mul_pow2_bits_high by exact H2. reflexivity.
    + apply N.leb_gt in H2. rewrite N.mul_pow2_bits_low by exact H2. reflexivity.
  - apply N.ltb_ge in H1. rewrite N.mod_pow2_bits_high by exact H1. reflexivity.
Qed.

Lemma shw_lt E w off : w < 2 ^ 64 -> shw E w off < 2 ^ 64.
Proof.
  intros H. destruct E; unfold shw.
  - rewrite W64_pow. apply N.mod_lt. lia.
  - pose proof (N.pow_nonzero 2 off ltac:(lia)) as Hp. apply N.div_lt_upper_bound; [exact Hp |].
    remember (2 ^ off) as P. remember (2 ^ 64) as Q. nia.
Qed.

Lemma wbit_shw E w off j : w < 2 ^ 64 -> off < 64 -> j < 64 ->
  wbit E (shw E w off) j = if j <? 64 - off then wbit E w (off + j) else false.
Proof.
  intros Hw Ho Hj. destruct E; unfold wbit, shw.
  - rewrite testbit_shl64. destruct (j <? 64 - off) eqn:H.
    + apply N.ltb_lt in H. destruct (63 - j <? 64) eqn:H1; [| apply N.ltb_ge in H1; lia].
      destruct (off <=? 63 - j) eqn:H2; [| apply N.leb_gt in H2; lia]. cbn [andb]. f_equal; lia.
    + apply N.ltb_ge in H. destruct (off <=? 63 - j) eqn:H2; [apply N.leb_le in H2; lia |].
      rewrite andb_false_r. reflexivity.
  - rewrite N.div_pow2_bits. destruct (j <? 64 - off) eqn:H.
    + f_equal; lia.
    + apply N.ltb_ge in H. apply testbit_high64; [exact Hw | lia].
Qed.

Lemma shw_zeros E w off : w < 2 ^ 64 -> off < 64 ->
  let z := zc E (shw E w off) in
  if z <? 64 - off
  then wbit E w (off + z) = true /\ forall j, j < z -> wbit E w (off + j) = false
  else forall j, j < 64 - off -> wbit E w (off + j) = false.
Proof.
  intros Hw Ho z. subst z. pose proof (shw_lt E w off Hw) as Hx.
  destruct (N.eq_dec (shw E w off) 0) as [H0 | Hn].
  - rewrite H0, zc_0. destruct (64 <? 64 - off) eqn:H; [apply N.ltb_lt in H; lia |].
    intros j Hj. pose proof (wbit_shw E w off j Hw Ho ltac:(lia)) as Hb.
    destruct (j <? 64 - off) eqn:H2; [| apply N.ltb_ge in H2; lia].
    rewrite <- Hb, H0. apply wbit_0.
  - destruct (zc_spec E _ Hn Hx) as [H1 [H2 H3]].
    rewrite (wbit_shw E w off _ Hw Ho H1) in H2.
    destruct (zc E (shw E w off) <? 64 - off) eqn:H; [| discriminate].
    apply N.ltb_lt in H. split; [exact H2 |]. intros j Hj.
    specialize (H3 j Hj). rewrite (wbit_shw E w off j Hw Ho ltac:(lia)) in H3.
    destruct (j <? 64 - off) eqn:H4; [exact H3 | apply N.ltb_ge in H4; lia].
Qed.

(* ------------------------------------------------------------------ *)
(* extracting n bits at position p from one or two 64-bit words *)
Ltac cmp_cases :=
  repeat match goal with
  | |- context [?a <? ?b] => let H := fresh "C" in destruct (a <? b) eqn:H; [apply N.ltb_lt in H | apply N.ltb_ge in H]
  | |- context [?a <=? ?b] => let H := fresh "C" in destruct (a <=? b) eqn:H; [apply N.leb_le in H | apply N.leb_gt in H]
  end.

Lemma sbit_same E ws p x : p mod 64 + x < 64 ->
  sbit E ws (p + x) = wbit E (nthw ws (p / 64)) (p mod 64 + x).
Proof. intros H. unfold sbit. f_equal; [f_equal |]; lia. Qed.

Lemma sbit_next E ws p x : 64 <= p mod 64 + x -> p mod 64 + x < 128 ->
  sbit E ws (p + x) = wbit E (nthw ws (p / 64 + 1)) (p mod 64 + x - 64).
Proof. intros H1 H2. unfold sbit. f_equal; [f_equal |]; lia. Qed.

Lemma fetch1_BE ws p n : 1 <= n -> p mod 64 + n <= 64 ->
  ((nthw ws (p / 64) * 2 ^ (p mod 64)) mod W64) / 2 ^ (64 - n) = sval BE ws p n.
Proof.
  intros Hn Ho. apply N.bits_inj. intros j.
  rewrite testbit_sval, N.div_pow2_bits, testbit_shl64. unfold vidx.
  destruct (j <? n) eqn:Hj.
  - apply N.ltb_lt in Hj. rewrite sbit_same by lia. unfold wbit. cmp_cases; try lia. cbn [andb]. f_equal; lia.
  - apply N.ltb_ge in Hj. cmp_cases; try lia; reflexivity.
Qed.

Lemma fetch1_LE ws p n : 1 <= n -> p mod 64 + n <= 64 ->
  ((nthw ws (p / 64) * 2 ^ (64 - n - p mod 64)) mod W64) / 2 ^ (64 - n) = sval LE ws p n.
Proof.
  intros Hn Ho. apply N.bits_inj. intros j.
  rewrite testbit_sval, N.div_pow2_bits, testbit_shl64. unfold vidx.
  destruct (j <? n) eqn:Hj.
  - apply N.ltb_lt in Hj. rewrite sbit_same by lia. unfold wbit. cmp_cases; try lia. cbn [andb]. f_equal; lia.
  - apply N.ltb_ge in Hj. cmp_cases; try lia; reflexivity.
Qed.

Lemma fetch2_BE ws p n : n <= 64 -> 64 < p mod 64 + n -> nthw ws (p / 64 + 1) < 2 ^ 64 ->
  N.lor (((nthw ws (p / 64) * 2 ^ (p mod 64)) mod W64) / 2 ^ (64 - n))
        (nthw ws (p / 64 + 1) / 2 ^ (128 - p mod 64 - n)) = sval BE ws p n.
Proof.
  intros Hn Ho Hw. apply N.bits_inj. intros j.
  rewrite testbit_sval, N.lor_spec, !N.div_pow2_bits, testbit_shl64. unfold vidx.
  assert (Hoff : p mod 64 < 64) by lia.
  destruct (j <? n) eqn:Hj.
  - apply N.ltb_lt in Hj. destruct (N.lt_ge_cases (p mod 64 + (n - 1 - j)) 64) as [Hc | Hc].
    + rewrite sbit_same by lia. unfold wbit.
      rewrite (testbit_high64 _ (j + (128 - p mod 64 - n)) Hw) by lia. rewrite orb_false_r.
      cmp_cases; try lia. cbn [andb]. f_equal; lia.
    + rewrite sbit_next by lia. unfold wbit.
      cmp_cases; try lia. cbn [andb orb]. f_equal; lia.
  - apply N.ltb_ge in Hj.
    rewrite (testbit_high64 _ (j + (128 - p mod 64 - n)) Hw) by lia. rewrite orb_false_r.
    cmp_cases; try lia; reflexivity.
Qed.

Lemma fetch2_LE ws p n : n <= 64 -> 64 < p mod 64 + n -> nthw ws (p / 64) < 2 ^ 64 ->
  N.lor (((nthw ws (p / 64 + 1) * 2 ^ (128 - p mod 64 - n)) mod W64) / 2 ^ (64 - n))
        (nthw ws (p / 64) / 2 ^ (p mod 64)) = sval LE ws p n.
Proof.
  intros Hn Ho Hw. apply N.bits_inj. intros j.
  rewrite testbit_sval, N.lor_spec, !N.div_pow2_bits, testbit_shl64. unfold vidx.
  assert (Hoff : p mod 64 < 64) by lia.
  destruct (j <? n) eqn:Hj.
  - apply N.ltb_lt in Hj. destruct (N.lt_ge_cases (p mod 64 + j) 64) as [Hc | Hc].
    + rewrite sbit_same by lia. unfold wbit.
      cmp_cases; try lia. cbn [andb orb]. f_equal; lia.
    + rewrite sbit_next by lia. unfold wbit.
      rewrite (testbit_high64 _ (j + p mod 64) Hw) by lia. rewrite orb_false_r.
      cmp_cases; try lia. cbn [andb]. f_equal; lia.
  - apply N.ltb_ge in Hj.
    rewrite (testbit_high64 _ (j + p mod 64) Hw) by lia. rewrite orb_false_r.
    cmp_cases; try lia; reflexivity.
Qed.

Lemma skipn_add {A} (a b : nat) (l : list A) : skipn a (skipn b l) = skipn (b + a) l.
Proof.
  revert l. induction b as [| b IH]; intros l; [reflexivity |].
  destruct l as [| x l]; cbn [skipn plus]; [apply skipn_nil | apply IH].
Qed.

Lemma sbit_cons_lo E w ws i : i < 64 -> sbit E (w :: ws) i = wbit E w i.
Proof.
  intros H. unfold sbit. rewrite nthw_cons. replace (i / 64) with 0 by lia.
  replace (i mod 64) with i by lia. reflexivity.
Qed.

Lemma sbit_cons_hi E w ws i : 64 <= i -> sbit E (w :: ws) i = sbit E ws (i - 64).
Proof.
  intros H. unfold sbit. rewrite nthw_cons.
  destruct (i / 64 =? 0) eqn:H0; [apply N.eqb_eq in H0; lia |]. f_equal; [f_equal |]; lia.
Qed.

Lemma sbit_nil E i : sbit E [] i = false.
Proof. unfold sbit. rewrite nthw_nil. apply wbit_0. Qed.

Lemma shw_0 E w : w < 2 ^ 64 -> shw E w 0 = w.
Proof.
  intros H. destruct E; unfold shw; change (2 ^ 0) with 1.
  - rewrite N.mul_1_r, W64_pow. apply N.mod_small. exact H.
  - apply N.div_1_r.
Qed.
