(* WorldRefine.v — HISTORY-LEVEL refinement: for every configuration and every operation list, the
   run of the shared interpreter Run.run_world at level 2 (word machines: buffered / unbuffered
   reader, buffered writer) agrees group by group with its run at level 0 (canonical bit lists), as
   long as the level-0 run stays inside the modelled contract.  Composition of the per-operation
   refinements (WriterProofs, ReaderProofs, UReaderProofs, CopyProofs) over arbitrary histories. *)
From Coq Require Import ZifyBool ZifyNat ZifyN.
From DSI Require Import Base Words Prog Codes CodeDefs Writer Reader Abs World BitFacts CodesProofs
  Run CodesSummary BitsLemmas WriterProofs BitsLemmasR ReaderProofs BitsLemmasU UReaderProofs
  IoViewsProofs MachineTheorems WrappersProofs EndToEnd CopyProofs MachineViews.
From DSI.Gen Require Import GenTables GenParams.
Arguments N.add : simpl never. Arguments N.sub : simpl never. Arguments N.mul : simpl never.
Arguments N.div : simpl never. Arguments N.modulo : simpl never. Arguments N.pow : simpl never.
Arguments N.eqb : simpl never. Arguments N.ltb : simpl never. Arguments N.leb : simpl never.
Arguments N.min : simpl never. Arguments N.max : simpl never.
Arguments N.testbit : simpl never. Arguments N.of_nat : simpl never. Arguments N.to_nat : simpl never.
Open Scope N_scope.

(* ================================================================== statement vocabulary *)
Definition with_level (C : wcfg) (l : N) : wcfg :=
  {| c_E := c_E C; c_level := l; c_checks := c_checks C; c_nocopy := c_nocopy C;
     c_wW := c_wW C; c_wcap := c_wcap C; c_rW := c_rW C; c_rstrict := c_rstrict C;
     c_wcount := c_wcount C; c_rcount := c_rcount C; c_data := c_data C |}.

(* level 0 has left the modelled contract (status 2 = Fail: a contract violation / panic, status 3 =
   Fuel: divergence): nothing more is claimed *)
Definition out_of_contract (g : list N) : bool :=
  match g with s :: _ => (s =? 2) || (s =? 3) | [] => false end.
(* the closing flush failed at level 0 (only possible with a bounded sink) *)
Definition final_flush_failed (g : list N) : bool :=
  match g with a :: b :: _ => (a =? 98) && (b =? 2) | _ => false end.

Fixpoint agree (l0 l2 : list (list N)) : Prop :=
  match l0, l2 with
  | [], [] => True
  | g0 :: r0, g2 :: r2 =>
      if out_of_contract g0 then True
      else if final_flush_failed g0 then agree r0 r2
      else g0 = g2 /\ agree r0 r2
  | _, _ => False
  end.

(* the configurations covered *)
Definition cfg_ok (C : wcfg) : Prop :=
  wordsize_ok (c_wW C) /\                       (* writer word: a multiple of 8, >= 8 (any width) *)
  c_wcap C = 0 /\                               (* UNBOUNDED sink only *)
  (c_rW C = 0 \/ (wordsize_ok (c_rW C) /\ c_rW C <= 64)) /\   (* unbuffered (u64 words) or buffered, word <= 64 *)
  Forall (fun b => b < 256) (c_data C) /\
  8 * (N.of_nat (length (c_data C)) + 8) < 2 ^ 63.          (* the padded stream is shorter than 2^63 bits *)

(* position of a level-0 reader *)
Definition rpos (r : rstate) : N := match r with RS x => sr_pos x | _ => 0 end.

(* every reader position reached by the run stays below 2^63 (checked on the level-0 run) *)
Fixpoint pos_run (C : wcfg) (wd : world) (ops : list (list N)) : bool :=
  match ops with
  | [] => true
  | op :: r => match step C wd op with
               | (_, Some wd') => (rpos (w_r wd') <? 2 ^ 63) && pos_run C wd' r
               | (_, None) => true
               end
  end.
(* hypothesis forced by the proofs: the machines keep bit positions in u64 arithmetic with checked
   additions / multiplications (ur_skip, ur_read_bits: add64; br_bit_pos: mul64), level 0 in unbounded
   N.  A zero-extended (non strict) source can be read or skipped for ever, the unbuffered reader can
   skip or seek beyond the end of a strict source, so no static bound on the data bounds the position.
   The level-0 run must never move the reader to a position >= 2^63. *)
Definition ops_ok (C : wcfg) (ops : list (list N)) : bool :=
  pos_run (with_level C 0) (init_world (with_level C 0)) ops.

(* ================================================================== the data as the readers see it *)
Definition cWr (C : wcfg) : N := if c_rW C =? 0 then 64 else c_rW C.
Definition cpadded (C : wcfg) : list N :=
  let rbytes := N.to_nat (cWr C / 8) in
  let l := List.length (c_data C) in
  let r := Nat.modulo l rbytes in
  if Nat.eqb r 0 then c_data C else c_data C ++ repeat 0 (rbytes - r).
Definition cwords (C : wcfg) : list N :=
  words_of_bytes (c_E C) (N.to_nat (cWr C / 8)) (S (List.length (cpadded C))) (cpadded C).
Definition cpbits (C : wcfg) : bits := bits_of_bytes (c_E C) (cpadded C).

Lemma init_world_0 C : c_level C = 0 ->
  init_world C = {| w_r := RS (sreader_of (cpbits C)); w_rc := 0; w_clone := (RS (sreader_of (cpbits C)), 0);
                    w_w := WS []; w_wc := 0 |}.
Proof. intros H. unfold init_world. rewrite H. reflexivity. Qed.

Lemma init_world_2 C : c_level C = 2 -> c_wcap C = 0 ->
  init_world C =
  let r := if c_rW C =? 0 then RU (ur_new (cwords C) (c_rstrict C)) else RB (br_new (cwords C) (c_rstrict C)) in
  {| w_r := r; w_rc := 0; w_clone := (r, 0); w_w := WB (bw_new None (c_wW C)); w_wc := 0 |}.
Proof. intros H Hc. unfold init_world. rewrite H, Hc. reflexivity. Qed.

Lemma cfg_facts C : cfg_ok C ->
  wordsize_ok (cWr C) /\ cWr C <= 64 /\
  bits_of_words (c_E C) (cWr C) (cwords C) = cpbits C /\
  Forall (fun w => w < 2 ^ cWr C) (cwords C) /\
  cWr C * N.of_nat (length (cwords C)) = N.of_nat (length (cpbits C)) /\
  N.of_nat (length (cpbits C)) < 2 ^ 63.
Proof.
  intros (_ & _ & HrW & HF & Hlen).
  assert (HW : wordsize_ok (cWr C) /\ cWr C <= 64).
  { unfold cWr. destruct HrW as [-> | [H1 H2]].
    - change (0 =? 0) with true. cbv iota. split; [exact wordsize_ok_64 | lia].
    - destruct (N.eqb_spec (c_rW C) 0) as [H0 | _]; [| split; assumption].
      rewrite H0 in H1. destruct H1; lia. }
  destruct HW as [HW H64]. split; [exact HW |]. split; [exact H64 |].
  destruct (ws_bytes (cWr C) HW) as [H8 Hnb]. set (nb := N.to_nat (cWr C / 8)) in *.
  assert (Hnb8 : (nb <= 8)%nat) by lia.
  assert (Hpad : Forall (fun b => b < 256) (cpadded C) /\ (length (cpadded C) mod nb = 0)%nat /\
                 (length (cpadded C) <= length (c_data C) + 8)%nat).
  { unfold cpadded. fold nb. set (l := length (c_data C)).
    pose proof (Nat.mod_upper_bound l nb ltac:(lia)) as Hr.
    destruct (Nat.eqb_spec (l mod nb) 0) as [H0 | H0].
    - split; [exact HF |]. split; [exact H0 | lia].
    - split; [| split].
      + apply Forall_app. split; [exact HF |]. apply Forall_forall. intros x Hx.
        apply repeat_spec in Hx. subst x. lia.
      + rewrite app_length, repeat_length. fold l.
        pose proof (Nat.div_mod l nb ltac:(lia)) as Hdm.
        replace (l + (nb - l mod nb))%nat with (0 + (l / nb + 1) * nb)%nat by nia.
        rewrite Nat.mod_add by lia. apply Nat.mod_0_l. lia.
      + rewrite app_length, repeat_length. fold l. lia. }
  destruct Hpad as (HFp & Hmod & Hlp).
  destruct (reader_words (c_E C) (cWr C) (cpadded C) HW HFp) as (_ & _ & Hbits & HFw & Hlw).
  fold nb in Hbits, Hlw. unfold words_of in *. fold nb in Hbits, HFw, Hlw.
  change (words_of_bytes (c_E C) nb (S (length (cpadded C))) (cpadded C)) with (cwords C) in *.
  split; [exact (Hbits Hmod) |]. split; [exact HFw |].
  rewrite pad_bytes_0 in Hlw by (try assumption; lia).
  unfold cpbits. rewrite bob_length. split; lia.
Qed.

(* ================================================================== agree *)
Lemma agree_app_same l a b : agree a b -> agree (l ++ a) (l ++ b).
Proof.
  intros H. induction l as [| g l IH]; [exact H |].
  cbn [app agree]. destruct (out_of_contract g); [exact I |].
  destruct (final_flush_failed g); [exact IH | split; [reflexivity | exact IH]].
Qed.

Lemma agree_refl l : agree l l.
Proof. rewrite <- (app_nil_r l). apply agree_app_same. exact I. Qed.

Lemma agree_flush_failed l g2 : agree ([98; 2] :: l) (g2 :: l).
Proof.
  unfold agree at 1. change (out_of_contract [98; 2]) with false. change (final_flush_failed [98; 2]) with true.
  cbv iota. apply agree_refl.
Qed.

(* ================================================================== generic: write programs *)
Lemma wrun_osim {S1 S2 A} (R : S1 -> S2 -> Prop) (Q1 : wprims S1) (Q2 : wprims S2) :
  (forall v n s1 s2, R s1 s2 -> osim R (q_bits Q1 v n s1) (q_bits Q2 v n s2)) ->
  (forall x s1 s2, R s1 s2 -> osim R (q_unary Q1 x s1) (q_unary Q2 x s2)) ->
  forall (p : wprog A) s1 s2, R s1 s2 -> osim R (wrun Q1 p s1) (wrun Q2 p s2).
Proof.
  intros Hb Hu p. induction p as [a | v n k IH | x k IH | ]; intros s1 s2 HR; cbn [wrun].
  - exists s2. split; [reflexivity | exact HR].
  - pose proof (Hb v n s1 s2 HR) as H. destruct (q_bits Q1 v n s1) as [[r s1'] | | | ]; cbn [osim] in H |- *; try exact I.
    + destruct H as (s2' & -> & HR'). apply IH. exact HR'.
    + rewrite H. reflexivity.
  - pose proof (Hu x s1 s2 HR) as H. destruct (q_unary Q1 x s1) as [[r s1'] | | | ]; cbn [osim] in H |- *; try exact I.
    + destruct H as (s2' & -> & HR'). apply IH. exact HR'.
    + rewrite H. reflexivity.
  - exact I.
Qed.

Lemma count_w_osim_bits {S1 S2} (R : S1 -> S2 -> Prop) (Q1 : wprims S1) (Q2 : wprims S2) :
  (forall v n s1 s2, R s1 s2 -> osim R (q_bits Q1 v n s1) (q_bits Q2 v n s2)) ->
  forall v n s1 s2, crel R s1 s2 -> osim (crel R) (q_bits (count_wprims Q1) v n s1) (q_bits (count_wprims Q2) v n s2).
Proof.
  intros Hb v n [s1 c1] [s2 c2] [HR Hc]. cbn [fst snd] in HR, Hc. subst c2. cbn [count_wprims q_bits].
  pose proof (Hb v n s1 s2 HR) as H.
  destruct (q_bits Q1 v n s1) as [[r s1'] | | | ]; cbn [omap osim] in H |- *; try exact I.
  - destruct H as (s2' & -> & HR'). cbn [omap]. eexists. split; [reflexivity |]. split; [exact HR' | reflexivity].
  - rewrite H. reflexivity.
Qed.

Lemma count_w_osim_unary {S1 S2} (R : S1 -> S2 -> Prop) (Q1 : wprims S1) (Q2 : wprims S2) :
  (forall x s1 s2, R s1 s2 -> osim R (q_unary Q1 x s1) (q_unary Q2 x s2)) ->
  forall x s1 s2, crel R s1 s2 -> osim (crel R) (q_unary (count_wprims Q1) x s1) (q_unary (count_wprims Q2) x s2).
Proof.
  intros Hu x [s1 c1] [s2 c2] [HR Hc]. cbn [fst snd] in HR, Hc. subst c2. cbn [count_wprims q_unary].
  pose proof (Hu x s1 s2 HR) as H.
  destruct (q_unary Q1 x s1) as [[r s1'] | | | ]; cbn [omap osim] in H |- *; try exact I.
  - destruct H as (s2' & -> & HR'). cbn [omap]. eexists. split; [reflexivity |]. split; [exact HR' | reflexivity].
  - rewrite H. reflexivity.
Qed.

(* ================================================================== generic: wrappers around outcomes *)
Lemma osim_wrap {A S1 S2 T1 T2} (R : S1 -> S2 -> Prop) (R' : T1 -> T2 -> Prop) (f1 : S1 -> T1) (f2 : S2 -> T2)
    (o1 : outcome (A * S1)) (o2 : outcome (A * S2)) :
  (forall a b, R a b -> R' (f1 a) (f2 b)) -> osim R o1 o2 ->
  osim R' (omap (fun '(v, x) => (v, f1 x)) o1) (omap (fun '(v, x) => (v, f2 x)) o2).
Proof.
  intros Hf H. destruct o1 as [[v x] | | | ]; cbn [omap osim] in H |- *; try exact I.
  - destruct H as (y & -> & HR). cbn [omap]. eexists. split; [reflexivity | apply Hf; exact HR].
  - rewrite H. reflexivity.
Qed.

Lemma osim0_wrap {S1 S2 T1 T2} (R : S1 -> S2 -> Prop) (R' : T1 -> T2 -> Prop) (f1 : S1 -> T1) (f2 : S2 -> T2)
    (o1 : outcome S1) (o2 : outcome S2) :
  (forall a b, R a b -> R' (f1 a) (f2 b)) -> osim0 R o1 o2 -> osim0 R' (omap f1 o1) (omap f2 o2).
Proof.
  intros Hf H. destruct o1 as [x | | | ]; cbn [omap osim0] in H |- *; try exact I.
  - destruct H as (y & -> & HR). cbn [omap]. eexists. split; [reflexivity | apply Hf; exact HR].
  - rewrite H. reflexivity.
Qed.

(* "if the level-0 operation succeeds, the new position is below 2^63" *)
Definition okp {A} (o : outcome (A * rstate)) : Prop := forall a r', o = Ok (a, r') -> rpos r' < 2 ^ 63.
Definition okp0 (o : outcome rstate) : Prop := forall r', o = Ok r' -> rpos r' < 2 ^ 63.

Lemma s_take_noerr n x : s_take false n x <> Err.
Proof. unfold s_take. destruct (n <=? _); discriminate. Qed.
Lemma s_bits_noerr E n x : s_bits E false n x <> Err.
Proof.
  unfold s_bits. destruct (64 <? n); [discriminate |]. pose proof (s_take_noerr n x) as H.
  destruct (s_take false n x) as [[bs x'] | | | ]; try discriminate. contradiction.
Qed.
Lemma s_unary_noerr x : s_unary false x <> Err.
Proof. unfold s_unary. destruct (count_zeros (sr_rest x)); discriminate. Qed.
Lemma s_peek_noerr E cap n x : s_peek E false cap n x <> Err.
Proof.
  unfold s_peek. destruct ((n =? 0) || (cap <? n)); [discriminate |]. pose proof (s_take_noerr n x) as H.
  destruct (s_take false n x) as [[bs x'] | | | ]; try discriminate. contradiction.
Qed.
Lemma s_skipap_noerr stt n x : s_skipap stt n x <> Err.
Proof.
  unfold s_skipap. destruct (sr_peeked x <? n); [discriminate |].
  destruct (s_take stt n x) as [[bs x'] | | | ]; discriminate.
Qed.
Lemma s_skip_noerr n x : s_skip false n x <> Err.
Proof.
  unfold s_skip. pose proof (s_take_noerr n x) as H.
  destruct (s_take false n x) as [[bs x'] | | | ]; try discriminate. contradiction.
Qed.

(* ================================================================== the simulation relation *)
Section Refine.
  Variable C : wcfg.
  Hypothesis HC : cfg_ok C.
  Local Notation E := (c_E C).
  Local Notation st := (c_rstrict C).
  Local Notation rW := (c_rW C).
  Local Notation wW := (c_wW C).
  Local Notation chk := (c_checks C).
  Local Notation ws := (cwords C).

  (* level-0 reader state vs level-2 reader state; the word list and the strict flag are fixed *)
  Definition Rr (r0 r2 : rstate) : Prop :=
    match r0, r2 with
    | RS x, RB s => rW <> 0 /\ rrelS E rW ws st x s
    | RS x, RU s => rW = 0 /\ urelW E st ws x s
    | _, _ => False
    end.
  (* level-0 written bits vs level-2 writer: invariant, abstraction, unbounded sink *)
  Definition Rw (w0 w2 : wstate) : Prop :=
    match w0, w2 with WS b, WB s => RwM E wW b s | _, _ => False end.

  Lemma facts_b : rW <> 0 ->
    wordsize_ok rW /\ rW <= 64 /\ bits_of_words E rW ws = cpbits C /\ Forall (fun w => w < 2 ^ rW) ws /\
    rW * N.of_nat (length ws) = N.of_nat (length (cpbits C)) /\ rW * N.of_nat (length ws) < 2 ^ 63.
  Proof.
    intros H0. destruct (cfg_facts C HC) as (H1 & H2 & H3 & H4 & H5 & H6).
    unfold cWr in *. destruct (N.eqb_spec rW 0) as [Hz | _]; [contradiction |].
    repeat (split; [assumption |]). lia.
  Qed.
  Lemma facts_u : rW = 0 ->
    bits_of_words E 64 ws = cpbits C /\ Forall (fun w => w < 2 ^ 64) ws /\
    64 * N.of_nat (length ws) = N.of_nat (length (cpbits C)) /\ 64 * N.of_nat (length ws) < 2 ^ 63.
  Proof.
    intros H0. destruct (cfg_facts C HC) as (H1 & H2 & H3 & H4 & H5 & H6).
    unfold cWr in *. rewrite H0 in *. change (0 =? 0) with true in *. cbv iota in *.
    repeat (split; [assumption |]). lia.
  Qed.
  Lemma len_b : rW <> 0 -> rW * N.of_nat (length ws) <= 2 ^ 64.
  Proof. intros H. destruct (facts_b H) as (_ & _ & _ & _ & _ & H6). lia. Qed.

  Lemma Rr_b x s : rW <> 0 -> rrelS E rW ws st x s -> Rr (RS x) (RB s).
  Proof. intros H1 H2. split; assumption. Qed.
  Lemma Rr_u x s : rW = 0 -> urelW E st ws x s -> Rr (RS x) (RU s).
  Proof. intros H1 H2. split; assumption. Qed.

  (* ---------------------------------------------------------------- reader primitives *)
  Lemma rd_bits_sim n r0 r2 : Rr r0 r2 -> (rW = 0 -> okp (rd_bits C n r0)) ->
    osim Rr (rd_bits C n r0) (rd_bits C n r2).
  Proof.
    destruct r0 as [x | y0 | y0]; destruct r2 as [x2 | s | s]; cbn [Rr]; try contradiction; intros [HW HR] Hok; cbn [rd_bits].
    - apply (osim_wrap (rrelS E rW ws st) Rr RS RB); [intros a b; apply Rr_b; exact HW |].
      apply ReaderProofs.read_bits_sim. exact HR.
    - apply (osim_wrap (urelW E st ws) Rr RS RU); [intros a b; apply Rr_u; exact HW |].
      apply read_bits_core; [exact HR |]. intros a x' Heq. apply (Hok HW a (RS x')).
      cbn [rd_bits]. rewrite Heq. reflexivity.
  Qed.

  Lemma rd_unary_sim r0 r2 : Rr r0 r2 -> osim Rr (rd_unary C r0) (rd_unary C r2).
  Proof.
    destruct r0 as [x | y0 | y0]; destruct r2 as [x2 | s | s]; cbn [Rr]; try contradiction; intros [HW HR]; cbn [rd_unary].
    - apply (osim_wrap (rrelS E rW ws st) Rr RS RB); [intros a b; apply Rr_b; exact HW |].
      apply ReaderProofs.read_unary_sim; [apply len_b; exact HW | exact HR].
    - apply (osim_wrap (urelW E st ws) Rr RS RU); [intros a b; apply Rr_u; exact HW |].
      destruct (facts_u HW) as (_ & _ & _ & HL).
      destruct (urelW_inv _ _ _ _ _ HR) as (i & index & pk & -> & -> & HWs & HI).
      apply read_unary_core; [apply urelW_intro; assumption |]. apply okpos_unary_len. exact HL.
  Qed.

  Lemma rd_peek_sim n r0 r2 : Rr r0 r2 -> osim Rr (rd_peek C n r0) (rd_peek C n r2).
  Proof.
    destruct r0 as [x | y0 | y0]; destruct r2 as [x2 | s | s]; cbn [Rr]; try contradiction; intros [HW HR]; cbn [rd_peek].
    - destruct (N.eqb_spec rW 0) as [Hz | _]; [contradiction |].
      apply (osim_wrap (rrelS E rW ws st) Rr RS RB); [intros a b; apply Rr_b; exact HW |].
      apply ReaderProofs.peek_sim. exact HR.
    - rewrite HW. change (0 =? 0) with true. cbv iota.
      apply (osim_wrap (urelW E st ws) Rr RS RU); [intros a b; apply Rr_u; exact HW |].
      apply peek_core. exact HR.
  Qed.

  Lemma rd_skipap_sim n r0 r2 : Rr r0 r2 -> (rW = 0 -> okp0 (rd_skipap C n r0)) ->
    osim0 Rr (rd_skipap C n r0) (rd_skipap C n r2).
  Proof.
    destruct r0 as [x | y0 | y0]; destruct r2 as [x2 | s | s]; cbn [Rr]; try contradiction; intros [HW HR] Hok; cbn [rd_skipap].
    - apply (osim0_wrap (rrelS E rW ws st) Rr RS RB); [intros a b; apply Rr_b; exact HW |].
      apply ReaderProofs.skipap_sim. exact HR.
    - apply (osim0_wrap (urelW E st ws) Rr RS RU); [intros a b; apply Rr_u; exact HW |].
      apply skipap_core; [exact HR |]. intros x' Heq. apply (Hok HW (RS x')).
      cbn [rd_skipap]. rewrite Heq. reflexivity.
  Qed.

  Lemma rd_skip_sim n r0 r2 : Rr r0 r2 -> (rW = 0 -> okp0 (rd_skip C n r0)) ->
    osim0 Rr (rd_skip C n r0) (rd_skip C n r2).
  Proof.
    destruct r0 as [x | y0 | y0]; destruct r2 as [x2 | s | s]; cbn [Rr]; try contradiction; intros [HW HR] Hok; cbn [rd_skip].
    - destruct (N.eqb_spec rW 0) as [Hz | _]; [contradiction |].
      apply (osim0_wrap (rrelS E rW ws st) Rr RS RB); [intros a b; apply Rr_b; exact HW |].
      apply ReaderProofs.skip_bits_sim. exact HR.
    - specialize (Hok HW). cbn [rd_skip] in Hok. revert Hok. rewrite HW. change (0 =? 0) with true. cbv iota. intros Hok.
      apply (osim0_wrap (urelW E st ws) Rr RS RU); [intros a b; apply Rr_u; exact HW |].
      pose proof (skip_core E st false ws n x s HR) as H.
      pose proof (s_skip_noerr n x) as Hne.
      destruct (s_skip false n x) as [x' | | | ] eqn:Hs; cbn [osim0]; try exact I; [| contradiction].
      apply H. intros x'' [= <-]. apply (Hok (RS x')). reflexivity.
  Qed.

  (* ---------------------------------------------------------------- level-0 facts: positions only grow *)
  Lemma rd_bits_mono n x v r1 : rd_bits C n (RS x) = Ok (v, r1) -> exists x1, r1 = RS x1 /\ sr_pos x <= sr_pos x1.
  Proof.
    cbn [rd_bits]. destruct (s_bits E st n x) as [[v' x'] | | | ] eqn:Hb; cbn [omap]; try discriminate.
    intros [= <- <-]. eexists. split; [reflexivity | exact (s_bits_pos _ _ _ _ _ _ Hb)].
  Qed.
  Lemma rd_unary_mono x v r1 : rd_unary C (RS x) = Ok (v, r1) -> exists x1, r1 = RS x1 /\ sr_pos x <= sr_pos x1.
  Proof.
    cbn [rd_unary]. destruct (s_unary st x) as [[v' x'] | | | ] eqn:Hb; cbn [omap]; try discriminate.
    intros [= <- <-]. eexists. split; [reflexivity | exact (s_unary_pos _ _ _ _ Hb)].
  Qed.
  Lemma rd_peek_mono n x v r1 : rd_peek C n (RS x) = Ok (v, r1) -> exists x1, r1 = RS x1 /\ sr_pos x <= sr_pos x1.
  Proof.
    cbn [rd_peek]. destruct (s_peek E st _ n x) as [[v' x'] | | | ] eqn:Hb; cbn [omap]; try discriminate.
    intros [= <- <-]. eexists. split; [reflexivity | exact (s_peek_pos _ _ _ _ _ _ _ Hb)].
  Qed.
  Lemma rd_skipap_mono n x r1 : rd_skipap C n (RS x) = Ok r1 -> exists x1, r1 = RS x1 /\ sr_pos x <= sr_pos x1.
  Proof.
    cbn [rd_skipap]. destruct (s_skipap st n x) as [x' | | | ] eqn:Hb; cbn [omap]; try discriminate.
    intros [= <-]. eexists. split; [reflexivity | exact (s_skipap_pos _ _ _ _ Hb)].
  Qed.

  Lemma crun_mono {A} (p : rprog A) : forall x c a r' c',
    rrun (crp C) p (RS x, c) = Ok (a, (r', c')) -> sr_pos x <= rpos r'.
  Proof.
    induction p as [a0 | n k IH | k IH | n k IH | n k IH | n k IH | ]; intros x c a r' c' H;
      cbn [rrun crp count_rprims p_bits p_unary p_peek p_skipap rd_prims] in H.
    - injection H as _ <- _. cbn [rpos]. lia.
    - destruct (rd_bits C n (RS x)) as [[v r1] | | | ] eqn:H1; cbn [omap] in H; try discriminate.
      destruct (rd_bits_mono _ _ _ _ H1) as (x1 & -> & Hm). apply IH in H. lia.
    - destruct (rd_unary C (RS x)) as [[v r1] | | | ] eqn:H1; cbn [omap] in H; try discriminate.
      destruct (rd_unary_mono _ _ _ H1) as (x1 & -> & Hm). apply IH in H. lia.
    - destruct (rd_peek C n (RS x)) as [[v r1] | | | ] eqn:H1; cbn [omap] in H; try discriminate.
      + destruct (rd_peek_mono _ _ _ _ H1) as (x1 & -> & Hm). apply IH in H. lia.
      + apply IH in H. exact H.
    - destruct (rd_peek C n (RS x)) as [[v r1] | | | ] eqn:H1; cbn [omap] in H; try discriminate.
      destruct (rd_peek_mono _ _ _ _ H1) as (x1 & -> & Hm). apply IH in H. lia.
    - destruct (rd_skipap C n (RS x)) as [r1 | | | ] eqn:H1; cbn [omap] in H; try discriminate.
      destruct (rd_skipap_mono _ _ _ H1) as (x1 & -> & Hm). apply IH in H. lia.
    - discriminate.
  Qed.

  (* a zero-extended stream never reports the end of the stream *)
  Lemma crun_noerr {A} (p : rprog A) : st = false -> forall x c, rrun (crp C) p (RS x, c) <> Err.
  Proof.
    intros Hst. induction p as [a0 | n k IH | k IH | n k IH | n k IH | n k IH | ]; intros x c;
      cbn [rrun crp count_rprims p_bits p_unary p_peek p_skipap rd_prims].
    - discriminate.
    - destruct (rd_bits C n (RS x)) as [[v r1] | | | ] eqn:H1; cbn [omap]; try discriminate.
      + destruct (rd_bits_mono _ _ _ _ H1) as (x1 & -> & _). apply IH.
      + exfalso. cbn [rd_bits] in H1. rewrite Hst in H1. pose proof (s_bits_noerr E n x) as Hn.
        destruct (s_bits E false n x) as [[v x'] | | | ]; cbn [omap] in H1; try discriminate. contradiction.
    - destruct (rd_unary C (RS x)) as [[v r1] | | | ] eqn:H1; cbn [omap]; try discriminate.
      + destruct (rd_unary_mono _ _ _ H1) as (x1 & -> & _). apply IH.
      + exfalso. cbn [rd_unary] in H1. rewrite Hst in H1. pose proof (s_unary_noerr x) as Hn.
        destruct (s_unary false x) as [[v x'] | | | ]; cbn [omap] in H1; try discriminate. contradiction.
    - destruct (rd_peek C n (RS x)) as [[v r1] | | | ] eqn:H1; cbn [omap]; try discriminate.
      + destruct (rd_peek_mono _ _ _ _ H1) as (x1 & -> & _). apply IH.
      + apply IH.
    - destruct (rd_peek C n (RS x)) as [[v r1] | | | ] eqn:H1; cbn [omap]; try discriminate.
      + destruct (rd_peek_mono _ _ _ _ H1) as (x1 & -> & _). apply IH.
      + exfalso. cbn [rd_peek] in H1. rewrite Hst in H1.
        match type of H1 with omap _ (s_peek ?e false ?cp n x) = _ => pose proof (s_peek_noerr e cp n x) as Hn;
          destruct (s_peek e false cp n x) as [[v x'] | | | ]; cbn [omap] in H1; try discriminate end. contradiction.
    - destruct (rd_skipap C n (RS x)) as [r1 | | | ] eqn:H1; cbn [omap]; try discriminate.
      + destruct (rd_skipap_mono _ _ _ H1) as (x1 & -> & _). apply IH.
      + exfalso. cbn [rd_skipap] in H1. pose proof (s_skipap_noerr st n x) as Hn.
        destruct (s_skipap st n x) as [x' | | | ]; cbn [omap] in H1; try discriminate. contradiction.
    - discriminate.
  Qed.

  (* the unbuffered reader over a strict source: successful level-0 reads stay inside the stream *)
  Lemma okp_bits_strict n r0 r2 : rW = 0 -> st = true -> Rr r0 r2 -> okp (rd_bits C n r0).
  Proof.
    intros HW Hst. destruct r0 as [x | y0 | y0]; destruct r2 as [x2 | s | s]; cbn [Rr]; try contradiction;
      intros [HW' HR]; [contradiction |].
    destruct (facts_u HW) as (_ & _ & _ & HL).
    destruct (urelW_inv _ _ _ _ _ HR) as (i & index & pk & -> & -> & HWs & HI).
    intros a r'. cbn [rd_bits]. rewrite Hst.
    pose proof (okpos_bits_strict E ws index pk n HI HL) as Hk.
    destruct (s_bits E true n (sabs E ws index pk)) as [[v x'] | | | ] eqn:Hb; cbn [omap]; try discriminate.
    intros [= <- <-]. cbn [rpos]. apply (Hk v x'). reflexivity.
  Qed.
  Lemma okp_skipap_strict n r0 r2 : rW = 0 -> st = true -> Rr r0 r2 -> okp0 (rd_skipap C n r0).
  Proof.
    intros HW Hst. destruct r0 as [x | y0 | y0]; destruct r2 as [x2 | s | s]; cbn [Rr]; try contradiction;
      intros [HW' HR]; [contradiction |].
    destruct (facts_u HW) as (_ & _ & _ & HL).
    destruct (urelW_inv _ _ _ _ _ HR) as (i & index & pk & -> & -> & HWs & HI).
    intros r'. cbn [rd_skipap]. rewrite Hst.
    pose proof (okpos_skipap_strict E ws index pk n HI HL) as Hk.
    destruct (s_skipap true n (sabs E ws index pk)) as [x' | | | ] eqn:Hb; cbn [omap]; try discriminate.
    intros [= <-]. cbn [rpos]. apply (Hk x'). reflexivity.
  Qed.

  (* the position bound is only needed where no invariant gives it: the unbuffered reader (its index may
     skip beyond the end) and zero-extended sources; for a strict buffered reader it follows from RInv *)
  Definition bnd (r : rstate) : Prop := (rW = 0 \/ st = false) -> rpos r < 2 ^ 63.

  Lemma Rr_RS r0 r2 : Rr r0 r2 -> exists x, r0 = RS x.
  Proof. destruct r0 as [x | y0 | y0]; cbn [Rr]; [eauto | contradiction | contradiction]. Qed.

  (* ---------------------------------------------------------------- read programs through the counting wrapper *)
  Lemma crun_ok {A} (p : rprog A) : forall r0 c r2 a r0' c',
    Rr r0 r2 -> rrun (crp C) p (r0, c) = Ok (a, (r0', c')) -> bnd r0' ->
    exists r2', rrun (crp C) p (r2, c) = Ok (a, (r2', c')) /\ Rr r0' r2'.
  Proof.
    induction p as [a0 | n k IH | k IH | n k IH | n k IH | n k IH | ]; intros r0 c r2 a r0' c' HR H Hb;
      cbn [rrun crp count_rprims p_bits p_unary p_peek p_skipap rd_prims] in H |- *.
    - injection H as <- <- <-. exists r2. split; [reflexivity | exact HR].
    - destruct (Rr_RS _ _ HR) as [x ->].
      destruct (rd_bits C n (RS x)) as [[v r1] | | | ] eqn:H1; cbn [omap] in H; try discriminate.
      destruct (rd_bits_mono _ _ _ _ H1) as (x1 & -> & Hm).
      pose proof (crun_mono _ _ _ _ _ _ H) as Hm2.
      assert (Hok : rW = 0 -> okp (rd_bits C n (RS x))).
      { intros HW0 a1 r1'. rewrite H1. intros [= _ <-]. cbn [rpos]. specialize (Hb (or_introl HW0)). lia. }
      pose proof (rd_bits_sim n (RS x) r2 HR Hok) as Hs. rewrite H1 in Hs. cbn [osim] in Hs.
      destruct Hs as (r2' & H2 & HR1). rewrite H2. cbn [omap]. exact (IH v _ _ r2' a r0' c' HR1 H Hb).
    - destruct (Rr_RS _ _ HR) as [x ->].
      destruct (rd_unary C (RS x)) as [[v r1] | | | ] eqn:H1; cbn [omap] in H; try discriminate.
      pose proof (rd_unary_sim (RS x) r2 HR) as Hs. rewrite H1 in Hs. cbn [osim] in Hs.
      destruct Hs as (r2' & H2 & HR1). rewrite H2. cbn [omap]. exact (IH v _ _ r2' a r0' c' HR1 H Hb).
    - destruct (rd_peek C n r0) as [[v r1] | | | ] eqn:H1; cbn [omap] in H; try discriminate.
      + pose proof (rd_peek_sim n r0 r2 HR) as Hs. rewrite H1 in Hs. cbn [osim] in Hs.
        destruct Hs as (r2' & H2 & HR1). rewrite H2. cbn [omap]. exact (IH (Some v) _ _ r2' a r0' c' HR1 H Hb).
      + pose proof (rd_peek_sim n r0 r2 HR) as Hs. rewrite H1 in Hs. cbn [osim] in Hs.
        rewrite Hs. cbn [omap]. exact (IH None _ _ r2 a r0' c' HR H Hb).
    - destruct (rd_peek C n r0) as [[v r1] | | | ] eqn:H1; cbn [omap] in H; try discriminate.
      pose proof (rd_peek_sim n r0 r2 HR) as Hs. rewrite H1 in Hs. cbn [osim] in Hs.
      destruct Hs as (r2' & H2 & HR1). rewrite H2. cbn [omap]. exact (IH v _ _ r2' a r0' c' HR1 H Hb).
    - destruct (Rr_RS _ _ HR) as [x ->].
      destruct (rd_skipap C n (RS x)) as [r1 | | | ] eqn:H1; cbn [omap] in H; try discriminate.
      destruct (rd_skipap_mono _ _ _ H1) as (x1 & -> & Hm).
      pose proof (crun_mono _ _ _ _ _ _ H) as Hm2.
      assert (Hok : rW = 0 -> okp0 (rd_skipap C n (RS x))).
      { intros HW0 r1'. rewrite H1. intros [= <-]. cbn [rpos]. specialize (Hb (or_introl HW0)). lia. }
      pose proof (rd_skipap_sim n (RS x) r2 HR Hok) as Hs. rewrite H1 in Hs. cbn [osim0] in Hs.
      destruct Hs as (r2' & H2 & HR1). rewrite H2. cbn [omap]. exact (IH _ _ r2' a r0' c' HR1 H Hb).
    - discriminate.
  Qed.

  Lemma crun_err_aux {A} (p : rprog A) : (rW = 0 -> st = true) -> forall r0 c r2,
    Rr r0 r2 -> rrun (crp C) p (r0, c) = Err -> rrun (crp C) p (r2, c) = Err.
  Proof.
    intros Hk. induction p as [a0 | n k IH | k IH | n k IH | n k IH | n k IH | ]; intros r0 c r2 HR H;
      cbn [rrun crp count_rprims p_bits p_unary p_peek p_skipap rd_prims] in H |- *.
    - discriminate.
    - pose proof (rd_bits_sim n r0 r2 HR (fun HW => okp_bits_strict n r0 r2 HW (Hk HW) HR)) as Hs.
      destruct (rd_bits C n r0) as [[v r1] | | | ] eqn:H1; cbn [omap osim] in H, Hs; try discriminate.
      + destruct Hs as (r2' & H2 & HR1). rewrite H2. cbn [omap]. exact (IH v _ _ r2' HR1 H).
      + rewrite Hs. reflexivity.
    - pose proof (rd_unary_sim r0 r2 HR) as Hs.
      destruct (rd_unary C r0) as [[v r1] | | | ] eqn:H1; cbn [omap osim] in H, Hs; try discriminate.
      + destruct Hs as (r2' & H2 & HR1). rewrite H2. cbn [omap]. exact (IH v _ _ r2' HR1 H).
      + rewrite Hs. reflexivity.
    - pose proof (rd_peek_sim n r0 r2 HR) as Hs.
      destruct (rd_peek C n r0) as [[v r1] | | | ] eqn:H1; cbn [omap osim] in H, Hs; try discriminate.
      + destruct Hs as (r2' & H2 & HR1). rewrite H2. cbn [omap]. exact (IH (Some v) _ _ r2' HR1 H).
      + rewrite Hs. cbn [omap]. exact (IH None _ _ r2 HR H).
    - pose proof (rd_peek_sim n r0 r2 HR) as Hs.
      destruct (rd_peek C n r0) as [[v r1] | | | ] eqn:H1; cbn [omap osim] in H, Hs; try discriminate.
      + destruct Hs as (r2' & H2 & HR1). rewrite H2. cbn [omap]. exact (IH v _ _ r2' HR1 H).
      + rewrite Hs. reflexivity.
    - pose proof (rd_skipap_sim n r0 r2 HR (fun HW => okp_skipap_strict n r0 r2 HW (Hk HW) HR)) as Hs.
      destruct (rd_skipap C n r0) as [r1 | | | ] eqn:H1; cbn [omap osim0] in H, Hs; try discriminate.
      + destruct Hs as (r2' & H2 & HR1). rewrite H2. cbn [omap]. exact (IH _ _ r2' HR1 H).
      + rewrite Hs. reflexivity.
    - discriminate.
  Qed.

  Lemma crun_err {A} (p : rprog A) r0 c r2 :
    Rr r0 r2 -> rrun (crp C) p (r0, c) = Err -> rrun (crp C) p (r2, c) = Err.
  Proof.
    intros HR H. destruct (Rr_RS _ _ HR) as [x ->].
    destruct st eqn:Hst.
    - apply (crun_err_aux p (fun _ => Hst) (RS x) c r2 HR H).
    - exfalso. exact (crun_noerr p Hst x c H).
  Qed.

  (* ... and without the wrapper *)
  Lemma prun_sim {A} (p : rprog A) r0 r2 : Rr r0 r2 ->
    match rrun (rd_prims C) p r0 with
    | Ok (a, r0') => bnd r0' -> exists r2', rrun (rd_prims C) p r2 = Ok (a, r2') /\ Rr r0' r2'
    | Err => rrun (rd_prims C) p r2 = Err
    | _ => True
    end.
  Proof.
    intros HR.
    pose proof (count_r_transparent (rd_prims C) p r0 0) as T0.
    pose proof (count_r_transparent (rd_prims C) p r2 0) as T2.
    change (count_rprims (rd_prims C)) with (crp C) in *.
    destruct (rrun (rd_prims C) p r0) as [[a r0'] | | | ]; try exact I.
    - intros Hb. destruct T0 as [c' T0]. destruct (crun_ok p r0 0 r2 a r0' c' HR T0 Hb) as (r2' & H2 & HR').
      exists r2'. split; [| exact HR'].
      destruct (rrun (rd_prims C) p r2) as [[a2 r2''] | | | ].
      + destruct T2 as [c2 T2]. rewrite T2 in H2. injection H2 as -> -> _. reflexivity.
      + rewrite T2 in H2. discriminate.
      + rewrite T2 in H2. discriminate.
      + rewrite T2 in H2. discriminate.
    - pose proof (crun_err p r0 0 r2 HR T0) as H2.
      destruct (rrun (rd_prims C) p r2) as [[a2 r2''] | | | ].
      + destruct T2 as [c2 T2]. rewrite T2 in H2. discriminate.
      + reflexivity.
      + rewrite T2 in H2. discriminate.
      + rewrite T2 in H2. discriminate.
  Qed.


  (* ---------------------------------------------------------------- writer primitives *)
  Lemma cap0 : c_wcap C = 0.
  Proof. destruct HC as (_ & H & _). exact H. Qed.
  Lemma wW_ok : wordsize_ok wW.
  Proof. destruct HC as (H & _). exact H. Qed.

  Lemma wr_bits_sim v n w0 w2 : Rw w0 w2 -> osim Rw (wr_bits C v n w0) (wr_bits C v n w2).
  Proof.
    destruct w0 as [b | y0]; destruct w2 as [b2 | s]; cbn [Rw]; try contradiction. intros [HR Hc]. cbn [wr_bits].
    apply (osim_wrap (RwM E wW) Rw WS WB); [intros a b0 H; exact H |].
    pose proof (wsim_bits _ _ _ _ (prims_sim_any E wW chk) v n b s HR) as H1. cbn [swprims bwprims q_bits] in H1.
    pose proof (write_bits_unbounded E wW chk v n s (proj1 HR) Hc) as H2.
    destruct (sw_bits E chk v n b) as [[r b'] | | | ] eqn:H0; cbn [wosim osim] in H1 |- *; try exact I.
    - destruct H1 as [(s' & H1 & HI & HA) | H1]; rewrite H1 in H2; [| contradiction].
      exists s'. split; [exact H1 |]. destruct H2 as [_ Hc']. split; [split; assumption | exact Hc'].
    - exfalso. unfold sw_bits in H0. destruct (64 <? n); [discriminate |].
      destruct (chk && negb (N.land v (mask_u128 n) =? v)); discriminate.
  Qed.

  Lemma wr_unary_sim v w0 w2 : Rw w0 w2 -> osim Rw (wr_unary C v w0) (wr_unary C v w2).
  Proof.
    destruct w0 as [b | y0]; destruct w2 as [b2 | s]; cbn [Rw]; try contradiction. intros [HR Hc]. cbn [wr_unary].
    apply (osim_wrap (RwM E wW) Rw WS WB); [intros a b0 H; exact H |].
    pose proof (wsim_unary _ _ _ _ (prims_sim_any E wW chk) v b s HR) as H1. cbn [swprims bwprims q_unary] in H1.
    pose proof (write_unary_unbounded E wW v s (proj1 HR) Hc) as H2.
    destruct (sw_unary v b) as [[r b'] | | | ] eqn:H0; cbn [wosim osim] in H1 |- *; try exact I.
    - destruct H1 as [(s' & H1 & HI & HA) | H1]; rewrite H1 in H2; [| contradiction].
      exists s'. split; [exact H1 |]. destruct H2 as [_ Hc']. split; [split; assumption | exact Hc'].
    - exfalso. unfold sw_unary in H0. destruct (v =? U64MAX); discriminate.
  Qed.

  (* write programs through the counting wrapper *)
  Lemma cwrun_sim {A} (p : wprog A) w0 w2 c : Rw w0 w2 ->
    osim (crel Rw) (wrun (cwp C) p (w0, c)) (wrun (cwp C) p (w2, c)).
  Proof.
    intros HR. unfold cwp. apply wrun_osim.
    - apply count_w_osim_bits. intros v n s1 s2 H. exact (wr_bits_sim v n s1 s2 H).
    - apply count_w_osim_unary. intros x s1 s2 H. exact (wr_unary_sim x s1 s2 H).
    - split; [exact HR | reflexivity].
  Qed.

  Lemma ws_guard_id o : ws_guard C o = o.
  Proof.
    unfold ws_guard. rewrite cap0. change (0 =? 0) with true. cbn [negb andb].
    destruct o as [[r [x | x]] | | | ]; reflexivity.
  Qed.

  Lemma wr_flush_sim w0 w2 : Rw w0 w2 -> osim Rw (wr_flush C w0) (wr_flush C w2).
  Proof.
    destruct w0 as [b | y0]; destruct w2 as [b2 | s]; cbn [Rw]; try contradiction. intros [HR Hc]. cbn [wr_flush].
    rewrite cap0. change (0 =? 0) with true. cbn [negb andb].
    pose proof HR as [HI HA].
    destruct (wstep_unbounded _ _ _ _ _ _ (flush_step E wW s HI) Hc) as (s' & Hf & HI' & HA' & Hc').
    pose proof (C01_flush E wW b s HR) as HF. rewrite Hf in HF. destruct HF as (_ & Hr & _).
    rewrite Hf. cbn [omap osim]. exists (WB s'). rewrite <- Hr. split; [reflexivity |].
    cbn [Rw]. split; [split; [exact HI' |] | exact Hc'].
    rewrite HA', HA. destruct (N.eqb_spec (wW - bw_space s) 0) as [Hz | Hz].
    - change (N.to_nat 0) with 0%nat. cbn [zeros repeat]. apply app_nil_r.
    - reflexivity.
  Qed.

  (* the bytes delivered so far: level 0 = the image of the whole words *)
  Lemma delivered_eq w0 w2 : Rw w0 w2 -> wr_delivered C w0 = wr_delivered C w2.
  Proof.
    destruct w0 as [b | y0]; destruct w2 as [b2 | s]; cbn [Rw]; try contradiction. intros [[HI HA] Hc].
    cbn [wr_delivered]. pose proof HI as ((HW8 & HWm) & H0 & H1 & H2 & H3).
    set (wl := wk_words (bw_sink s)) in *.
    assert (Hlp : length (pending E wW s) = N.to_nat (wW - bw_space s)).
    { unfold pending. destruct E; [apply length_field_be | apply length_field_le]. }
    assert (Hlb : N.of_nat (length b) = wW * N.of_nat (length wl) + (wW - bw_space s)).
    { rewrite <- HA. unfold wabs. fold wl. rewrite app_length, Hlp, ReaderProofs.bits_of_words_length. lia. }
    assert (Hdiv : N.of_nat (length b) / wW = N.of_nat (length wl)).
    { symmetry. apply (N.div_unique _ _ _ (wW - bw_space s)); [lia | lia]. }
    rewrite Hdiv.
    assert (Hfirst : firstn (N.to_nat (N.of_nat (length wl) * wW)) b = bits_of_words E wW wl).
    { rewrite <- HA. unfold wabs. fold wl.
      replace (N.to_nat (N.of_nat (length wl) * wW)) with (length (bits_of_words E wW wl) + 0)%nat
        by (rewrite ReaderProofs.bits_of_words_length; lia).
      rewrite firstn_app_2. cbn [firstn]. apply app_nil_r. }
    rewrite Hfirst. unfold wl. rewrite <- (C01_bytes_abs E wW s HI).
    apply image_bits_of_bytes. apply bw_bytes_lt.
  Qed.


  (* ---------------------------------------------------------------- position and seek *)
  Lemma rd_pos_sim r0 r2 : Rr r0 r2 -> rpos r0 < 2 ^ 63 -> rd_pos C r0 = Ok (rpos r0) /\ rd_pos C r2 = Ok (rpos r0).
  Proof.
    destruct r0 as [x | y0 | y0]; destruct r2 as [x2 | s | s]; cbn [Rr]; try contradiction; intros [HW HR] Hb;
      cbn [rd_pos rpos] in *; (split; [reflexivity |]).
    - destruct HR as [(pos & pk & HI & Hpk & ->) _]. cbn [rabs sr_pos] in *.
      apply (ReaderProofs.bit_pos_ok E rW s pos HI).
      destruct HI as (_ & H64 & Hbits & Hidx & _). rewrite <- Hidx. lia.
    - destruct HR as [[_ [pk ->]] _]. reflexivity.
  Qed.

  Lemma rd_seek_RS p x : rd_seek C p (RS x) =
    if negb (rW =? 0) && st && (N.of_nat (length (cpbits C)) <? p) then Err
    else Ok (RS {| sr_rest := skipn (N.to_nat p) (cpbits C); sr_pos := p; sr_peeked := 0 |}).
  Proof. reflexivity. Qed.

  Lemma rd_seek_sim p r0 r2 : Rr r0 r2 ->
    match rd_seek C p r0 with
    | Ok r0' => bnd r0' -> exists r2', rd_seek C p r2 = Ok r2' /\ Rr r0' r2'
    | Err => rd_seek C p r2 = Err
    | _ => True
    end.
  Proof.
    destruct r0 as [x | y0 | y0]; destruct r2 as [x2 | s | s]; cbn [Rr]; try contradiction; intros [HW HR];
      rewrite rd_seek_RS.
    - destruct (facts_b HW) as (HWo & H64 & Hbw & HF & Hlen & Hlt).
      destruct HR as [(pos & pk & HI & Hpk & ->) [Hws Hst]].
      destruct (N.eqb_spec rW 0) as [Hz | _]; [contradiction |]. cbn [negb andb rd_seek].
      destruct (st && (N.of_nat (length (cpbits C)) <? p)) eqn:Hc.
      + apply andb_prop in Hc. destruct Hc as [Hs1 Hs2]. apply N.ltb_lt in Hs2.
        rewrite (ReaderProofs.set_bit_pos_err E rW s pos p HI); [reflexivity | congruence | rewrite Hws; lia].
      + intros _.
        destruct (ReaderProofs.set_bit_pos_ok E rW s pos p HI) as (s' & He & HI' & Hw' & Hs').
        { rewrite Hst, Hws. intros Hs1. rewrite Hs1 in Hc. cbn [andb] in Hc. apply N.ltb_ge in Hc. lia. }
        rewrite He. cbn [omap]. exists (RB s'). split; [reflexivity |]. split; [exact HW |].
        split; [| split; congruence].
        exists p, 0. split; [exact HI' |]. split; [lia |].
        unfold rabs, src_bits. rewrite Hw', Hws, Hbw. reflexivity.
    - destruct (facts_u HW) as (Hbw & HF & Hlen & Hlt).
      rewrite HW. change (0 =? 0) with true. cbn [negb andb rd_seek].
      intros Hb. specialize (Hb (or_introl HW)). cbn [rpos sr_pos] in Hb.
      destruct HR as [[[HF' HI] _] [Hst Hws]].
      eexists. split; [reflexivity |]. split; [exact HW |].
      split; [| split; [exact Hst | exact Hws]].
      split; [split; [exact HF' | exact Hb] |]. exists 0.
      unfold uabs, src_bits. cbn [ur_src ur_index]. rewrite Hws, Hbw. reflexivity.
  Qed.

  Lemma Rr_bound r0 r2 : Rr r0 r2 -> bnd r0 -> rpos r0 < 2 ^ 63.
  Proof.
    intros HR Hb. destruct (N.eq_dec rW 0) as [HW0 | HW0]; [apply Hb; left; exact HW0 |].
    destruct st eqn:Hst; [| apply Hb; right; exact Hst].
    destruct r0 as [x | y0 | y0]; destruct r2 as [x2 | s | s]; cbn [Rr] in HR; try contradiction; destruct HR as [HW HR];
      [| contradiction].
    destruct (facts_b HW) as (_ & _ & _ & _ & _ & Hlt).
    destruct HR as [(pos & pk & HI & _ & ->) [Hws Hss]]. cbn [rpos rabs sr_pos].
    pose proof (RInv_pos_le E rW s pos HI ltac:(congruence)) as Hp. rewrite Hws in Hp. lia.
  Qed.

  (* ================================================================== the worlds *)
  Definition Rrb (r0 r2 : rstate) : Prop := Rr r0 r2 /\ rpos r0 < 2 ^ 63.
  Definition wrel2 (wd0 wd2 : world) : Prop :=
    Rrb (w_r wd0) (w_r wd2) /\ w_rc wd0 = w_rc wd2 /\
    Rrb (fst (w_clone wd0)) (fst (w_clone wd2)) /\ snd (w_clone wd0) = snd (w_clone wd2) /\
    Rw (w_w wd0) (w_w wd2) /\ w_wc wd0 = w_wc wd2.

  (* result of one step at level 0 vs level 2 *)
  Definition stepres (x0 x2 : list N * option world) : Prop :=
    match x0 with
    | (g, Some wd0') => bnd (w_r wd0') -> exists wd2', x2 = (g, Some wd2') /\ wrel2 wd0' wd2'
    | (g, None) => (g = [1] /\ x2 = ([1], None)) \/ out_of_contract g = true
    end.

  Definition keepr (wd : world) (o : outcome (list N * (rstate * N))) : list N * option world :=
    match o with
    | Ok (out, (r', c')) =>
        (0 :: out, Some {| w_r := r'; w_rc := c'; w_clone := w_clone wd; w_w := w_w wd; w_wc := w_wc wd |})
    | Err => ([1], None) | Fail => ([2], None) | Fuel => ([3], None) end.
  Definition keepw (wd : world) (o : outcome (list N * (wstate * N))) : list N * option world :=
    match o with
    | Ok (out, (w', c')) =>
        (0 :: out ++ [N.of_nat (List.length (wr_delivered C w'))],
         Some {| w_r := w_r wd; w_rc := w_rc wd; w_clone := w_clone wd; w_w := w'; w_wc := c' |})
    | Err => ([1], None) | Fail => ([2], None) | Fuel => ([3], None) end.

  Definition rsimO (o0 o2 : outcome (list N * (rstate * N))) : Prop :=
    match o0 with
    | Ok (out, (r0', c')) => bnd r0' -> exists r2', o2 = Ok (out, (r2', c')) /\ Rr r0' r2'
    | Err => o2 = Err
    | _ => True
    end.
  Definition wsimO (o0 o2 : outcome (list N * (wstate * N))) : Prop :=
    match o0 with
    | Ok (out, (w0', c')) => exists w2', o2 = Ok (out, (w2', c')) /\ Rw w0' w2'
    | Err => o2 = Err
    | _ => True
    end.

  Lemma keepr_ok wd0 wd2 o0 o2 : wrel2 wd0 wd2 -> rsimO o0 o2 -> stepres (keepr wd0 o0) (keepr wd2 o2).
  Proof.
    intros (H1 & H2 & H3 & H4 & H5 & H6) HS. unfold rsimO in HS.
    destruct o0 as [[out [r0' c']] | | | ]; cbn [keepr stepres w_r].
    - intros Hb. destruct (HS Hb) as (r2' & -> & HR'). cbn [keepr]. eexists. split; [reflexivity |].
      unfold wrel2. cbn [w_r w_rc w_clone w_w w_wc]. split; [split; [exact HR' | exact (Rr_bound _ _ HR' Hb)] |]. auto 10.
    - left. rewrite HS. split; reflexivity.
    - right. reflexivity.
    - right. reflexivity.
  Qed.

  Lemma keepw_ok wd0 wd2 o0 o2 : wrel2 wd0 wd2 -> wsimO o0 o2 -> stepres (keepw wd0 o0) (keepw wd2 o2).
  Proof.
    intros (H1 & H2 & H3 & H4 & H5 & H6) HS. unfold wsimO in HS.
    destruct o0 as [[out [w0' c']] | | | ]; cbn [keepw stepres w_r].
    - intros Hb. destruct HS as (w2' & -> & HR'). cbn [keepw]. rewrite (delivered_eq _ _ HR').
      eexists. split; [reflexivity |].
      unfold wrel2. cbn [w_r w_rc w_clone w_w w_wc]. auto 10.
    - left. rewrite HS. split; reflexivity.
    - right. reflexivity.
    - right. reflexivity.
  Qed.

  (* read programs as operations *)
  Lemma prog_rsimO {A} (p : rprog A) (f : A -> list N) r0 r2 c : Rr r0 r2 ->
    rsimO (omap (fun '(a, rc) => (f a, rc)) (rrun (crp C) p (r0, c)))
          (omap (fun '(a, rc) => (f a, rc)) (rrun (crp C) p (r2, c))).
  Proof.
    intros HR. unfold rsimO.
    destruct (rrun (crp C) p (r0, c)) as [[a [r0' c']] | | | ] eqn:H0; cbn [omap]; try exact I.
    - intros Hb. destruct (crun_ok p r0 c r2 a r0' c' HR H0 Hb) as (r2' & H2 & HR').
      exists r2'. rewrite H2. split; [reflexivity | exact HR'].
    - rewrite (crun_err p r0 c r2 HR H0). reflexivity.
  Qed.

  Lemma rrun_bits_ret {S} (P : rprims S) n s : rrun P (RBits n RRet) s = p_bits P n s.
  Proof. cbn [rrun]. destruct (p_bits P n s) as [[v s'] | | | ]; reflexivity. Qed.
  Lemma rrun_unary_ret {S} (P : rprims S) s : rrun P (RUnary RRet) s = p_unary P s.
  Proof. cbn [rrun]. destruct (p_unary P s) as [[v s'] | | | ]; reflexivity. Qed.
  Lemma rrun_peek_ret {S} (P : rprims S) n s : rrun P (RPeekQ n RRet) s = p_peek P n s.
  Proof. cbn [rrun]. destruct (p_peek P n s) as [[v s'] | | | ]; reflexivity. Qed.
  Lemma rrun_skipap_ret {S} (P : rprims S) n s :
    rrun P (RSkipAP n (RRet tt)) s = omap (fun s' => (tt, s')) (p_skipap P n s).
  Proof. cbn [rrun]. destruct (p_skipap P n s) as [s' | | | ]; reflexivity. Qed.


  Lemma wrun_bits_ret {S} (Q : wprims S) v n s : wrun Q (WBits v n WRet) s = q_bits Q v n s.
  Proof. cbn [wrun]. destruct (q_bits Q v n s) as [[r s'] | | | ]; reflexivity. Qed.
  Lemma wrun_unary_ret {S} (Q : wprims S) v s : wrun Q (WUnary v WRet) s = q_unary Q v s.
  Proof. cbn [wrun]. destruct (q_unary Q v s) as [[r s'] | | | ]; reflexivity. Qed.

  (* write programs as operations (the level-0 overflow guard is the identity on an unbounded sink) *)
  Lemma wprog_wsimO (p : wprog N) w0 w2 c : Rw w0 w2 ->
    wsimO (omap (fun '(r, (w', c')) => ([r], (w', c')))
             (match wrun (cwp C) p (w0, c) with
              | Ok (r, (w', c')) => omap (fun '(r2, w2) => (r2, (w2, c'))) (ws_guard C (Ok (r, w')))
              | Err => Err | Fail => Fail | Fuel => Fuel end))
          (omap (fun '(r, (w', c')) => ([r], (w', c')))
             (match wrun (cwp C) p (w2, c) with
              | Ok (r, (w', c')) => omap (fun '(r2, w2) => (r2, (w2, c'))) (ws_guard C (Ok (r, w')))
              | Err => Err | Fail => Fail | Fuel => Fuel end)).
  Proof.
    intros HR. pose proof (cwrun_sim p w0 w2 c HR) as HS. unfold wsimO.
    destruct (wrun (cwp C) p (w0, c)) as [[r [w0' c']] | | | ]; cbn [osim] in HS; cbn [omap]; try exact I.
    - destruct HS as ([w2' c2] & -> & HR' & Hc). cbn [fst snd] in HR', Hc. subst c2.
      rewrite !ws_guard_id. cbn [omap]. exists w2'. split; [reflexivity | exact HR'].
    - rewrite HS. reflexivity.
  Qed.

  Lemma flush_wsimO w0 w2 c : Rw w0 w2 ->
    wsimO (omap (fun '(r, w') => ([r], (w', c))) (wr_flush C w0)) (omap (fun '(r, w') => ([r], (w', c))) (wr_flush C w2)).
  Proof.
    intros HR. pose proof (wr_flush_sim w0 w2 HR) as HS. unfold wsimO.
    destruct (wr_flush C w0) as [[r w0'] | | | ]; cbn [osim] in HS; cbn [omap]; try exact I.
    - destruct HS as (w2' & -> & HR'). cbn [omap]. exists w2'. split; [reflexivity | exact HR'].
    - rewrite HS. reflexivity.
  Qed.

  Lemma skip_rsimO n r0 r2 c : Rr r0 r2 ->
    rsimO (omap (fun r' => ([], (r', c))) (rd_skip C n r0)) (omap (fun r' => ([], (r', c))) (rd_skip C n r2)).
  Proof.
    intros HR. unfold rsimO.
    destruct (rd_skip C n r0) as [r0' | | | ] eqn:H0; cbn [omap]; try exact I.
    - intros Hb. assert (Hok : rW = 0 -> okp0 (rd_skip C n r0)).
      { intros HW0 r1. rewrite H0. intros [= <-]. exact (Hb (or_introl HW0)). }
      pose proof (rd_skip_sim n r0 r2 HR Hok) as HS. rewrite H0 in HS. cbn [osim0] in HS.
      destruct HS as (r2' & -> & HR'). cbn [omap]. exists r2'. split; [reflexivity | exact HR'].
    - assert (Hok : rW = 0 -> okp0 (rd_skip C n r0)) by (intros _ r1; rewrite H0; discriminate).
      pose proof (rd_skip_sim n r0 r2 HR Hok) as HS. rewrite H0 in HS. cbn [osim0] in HS. rewrite HS. reflexivity.
  Qed.

  Lemma pos_rsimO r0 r2 c : Rr r0 r2 -> rpos r0 < 2 ^ 63 ->
    rsimO (omap (fun p => ([p], (r0, c))) (rd_pos C r0)) (omap (fun p => ([p], (r2, c))) (rd_pos C r2)).
  Proof.
    intros HR Hb. destruct (rd_pos_sim r0 r2 HR Hb) as [-> ->]. cbn [omap rsimO].
    intros _. exists r2. split; [reflexivity | exact HR].
  Qed.

  Lemma seek_rsimO p r0 r2 c : Rr r0 r2 ->
    rsimO (omap (fun r' => ([], (r', c))) (rd_seek C p r0)) (omap (fun r' => ([], (r', c))) (rd_seek C p r2)).
  Proof.
    intros HR. pose proof (rd_seek_sim p r0 r2 HR) as HS. unfold rsimO.
    destruct (rd_seek C p r0) as [r0' | | | ]; cbn [omap]; try exact I.
    - intros Hb. destruct (HS Hb) as (r2' & -> & HR'). cbn [omap]. exists r2'. split; [reflexivity | exact HR'].
    - rewrite HS. reflexivity.
  Qed.

  Lemma rcode_rsimO id p fl r0 r2 c : Rr r0 r2 ->
    rsimO (omap (fun '(v, rc) => ([v], rc)) (run_rcode C id p fl r0 c))
          (omap (fun '(v, rc) => ([v], rc)) (run_rcode C id p fl r2 c)).
  Proof.
    intros HR. unfold run_rcode. cbv zeta.
    match goal with |- context [if ?b then _ else _] => destruct b end.
    - match goal with |- context [rrun (rd_prims C) ?P r0] => pose proof (prun_sim P r0 r2 HR) as HS;
        destruct (rrun (rd_prims C) P r0) as [[v r0'] | | | ] end; cbn [obind omap rsimO]; try exact I.
      + match goal with |- context [sel_len ?D id p 4 v] => destruct (sel_len D id p 4 v) as [l |] eqn:Hl end;
          cbn [omap rsimO]; [| exact I].
        intros Hb. destruct (HS Hb) as (r2' & -> & HR'). cbn [obind]. rewrite Hl. cbn [omap].
        exists r2'. split; [reflexivity | exact HR'].
      + rewrite HS. reflexivity.
    - apply (prog_rsimO _ (fun v => [v]) r0 r2 c HR).
  Qed.

  (* ---------------------------------------------------------------- the shape of step, per operation code *)
  Ltac step_eq H := unfold step; cbv zeta beta; rewrite H; reflexivity.

  Lemma step_1 wd op : nth0 op 0 = 1 -> step C wd op =
    keepw wd (omap (fun '(r, (w', c')) => ([r], (w', c')))
      (match q_bits (cwp C) (nth0 op 1) (nth0 op 2) (w_w wd, w_wc wd) with
       | Ok (r, (w', c')) => omap (fun '(r2, w2) => (r2, (w2, c'))) (ws_guard C (Ok (r, w')))
       | Err => Err | Fail => Fail | Fuel => Fuel end)).
  Proof. intros H. step_eq H. Qed.
  Lemma step_2 wd op : nth0 op 0 = 2 -> step C wd op =
    keepw wd (omap (fun '(r, (w', c')) => ([r], (w', c')))
      (match q_unary (cwp C) (nth0 op 1) (w_w wd, w_wc wd) with
       | Ok (r, (w', c')) => omap (fun '(r2, w2) => (r2, (w2, c'))) (ws_guard C (Ok (r, w')))
       | Err => Err | Fail => Fail | Fuel => Fuel end)).
  Proof. intros H. step_eq H. Qed.
  Lemma step_3 wd op : nth0 op 0 = 3 -> step C wd op =
    keepw wd (omap (fun '(r, w') => ([r], (w', w_wc wd))) (wr_flush C (w_w wd))).
  Proof. intros H. step_eq H. Qed.
  Lemma step_4 wd op : nth0 op 0 = 4 -> step C wd op =
    keepw wd (omap (fun '(r, (w', c')) => ([r], (w', c')))
      (match wrun (cwp C) (sel_write (c_E C) (if c_rW C =? 0 then unbuf_params else buf_params) (c_checks C)
                             (nth0 op 1) (nth0 op 2) (nth0 op 3) (nth0 op 4)) (w_w wd, w_wc wd) with
       | Ok (r, (w', c')) => omap (fun '(r2, w2) => (r2, (w2, c'))) (ws_guard C (Ok (r, w')))
       | Err => Err | Fail => Fail | Fuel => Fuel end)).
  Proof. intros H. step_eq H. Qed.
  Lemma step_5 wd op : nth0 op 0 = 5 -> step C wd op =
    keepw wd (omap (fun '(r, (w', c')) => ([r], (w', c')))
      (match wrun (cwp C) (io_write (c_E C) (tl op)) (w_w wd, w_wc wd) with
       | Ok (r, (w', c')) => omap (fun '(r2, w2) => (r2, (w2, c'))) (ws_guard C (Ok (r, w')))
       | Err => Err | Fail => Fail | Fuel => Fuel end)).
  Proof. intros H. step_eq H. Qed.
  Lemma step_10 wd op : nth0 op 0 = 10 -> step C wd op =
    keepr wd (omap (fun '(v, rc) => ([v], rc)) (p_bits (crp C) (nth0 op 1) (w_r wd, w_rc wd))).
  Proof. intros H. step_eq H. Qed.
  Lemma step_11 wd op : nth0 op 0 = 11 -> step C wd op =
    keepr wd (omap (fun '(v, rc) => ([v], rc)) (p_unary (crp C) (w_r wd, w_rc wd))).
  Proof. intros H. step_eq H. Qed.
  Lemma step_12 wd op : nth0 op 0 = 12 -> step C wd op =
    keepr wd (omap (fun r' => ([], (r', w_rc wd + nth0 op 1))) (rd_skip C (nth0 op 1) (w_r wd))).
  Proof. intros H. step_eq H. Qed.
  Lemma step_13 wd op : nth0 op 0 = 13 -> step C wd op =
    keepr wd (omap (fun '(v, rc) => ([v], rc)) (p_peek (crp C) (nth0 op 1) (w_r wd, w_rc wd))).
  Proof. intros H. step_eq H. Qed.
  Lemma step_14 wd op : nth0 op 0 = 14 -> step C wd op =
    keepr wd (omap (fun rc => ([], rc)) (p_skipap (crp C) (nth0 op 1) (w_r wd, w_rc wd))).
  Proof. intros H. step_eq H. Qed.
  Lemma step_15 wd op : nth0 op 0 = 15 -> step C wd op =
    keepr wd (omap (fun '(v, rc) => ([v], rc)) (run_rcode C (nth0 op 1) (nth0 op 2) (nth0 op 3) (w_r wd) (w_rc wd))).
  Proof. intros H. step_eq H. Qed.
  Lemma step_16 wd op : nth0 op 0 = 16 -> step C wd op =
    keepr wd (omap (fun '(l, rc) => (l, rc)) (rrun (crp C) (io_read (c_E C) (nth0 op 1)) (w_r wd, w_rc wd))).
  Proof. intros H. step_eq H. Qed.
  Lemma step_17 wd op : nth0 op 0 = 17 -> step C wd op =
    keepr wd (omap (fun p => ([p], (w_r wd, w_rc wd))) (rd_pos C (w_r wd))).
  Proof. intros H. step_eq H. Qed.
  Lemma step_18 wd op : nth0 op 0 = 18 -> step C wd op =
    keepr wd (omap (fun r' => ([], (r', w_rc wd))) (rd_seek C (nth0 op 1) (w_r wd))).
  Proof. intros H. step_eq H. Qed.
  Lemma step_19 wd op : nth0 op 0 = 19 -> step C wd op =
    ([0], Some {| w_r := w_r wd; w_rc := w_rc wd; w_clone := (w_r wd, w_rc wd); w_w := w_w wd; w_wc := w_wc wd |}).
  Proof. intros H. step_eq H. Qed.
  Lemma step_20 wd op : nth0 op 0 = 20 -> step C wd op =
    ([0], Some {| w_r := fst (w_clone wd); w_rc := snd (w_clone wd); w_clone := (w_r wd, w_rc wd);
                  w_w := w_w wd; w_wc := w_wc wd |}).
  Proof. intros H. step_eq H. Qed.
  Lemma step_32 wd op : nth0 op 0 = 32 -> step C wd op = ([0; w_wc wd], Some wd).
  Proof. intros H. step_eq H. Qed.
  Lemma step_33 wd op : nth0 op 0 = 33 -> step C wd op = ([0; w_rc wd], Some wd).
  Proof. intros H. step_eq H. Qed.

  Definition handled : list N := [1; 2; 3; 4; 5; 10; 11; 12; 13; 14; 15; 16; 17; 18; 19; 20; 30; 31; 32; 33].

  Lemma step_default wd op : existsb (N.eqb (nth0 op 0)) handled = false -> step C wd op = ([2], None).
  Proof.
    unfold step. cbv zeta beta. generalize (nth0 op 0). intros code H.
    destruct code as [| q]; [reflexivity |].
    do 6 (try (destruct q as [q | q |])); cbv in H; first [discriminate H | reflexivity].
  Qed.


  (* ================================================================== the bulk copies (C08 composed) *)
  Local Notation l := (cpbits C).

  Lemma s_bits_peeked E' st' n x v x' : s_bits E' st' n x = Ok (v, x') -> sr_peeked x' = 0.
  Proof.
    unfold s_bits. destruct (64 <? n); [discriminate |].
    destruct (s_take st' n x) as [[bs x1] | | | ] eqn:Ht; try discriminate. intros [= _ <-].
    unfold s_take in Ht. destruct (n <=? N.of_nat (length (sr_rest x))); [injection Ht as _ <-; reflexivity |].
    destruct st'; [discriminate |]. injection Ht as _ <-. reflexivity.
  Qed.

  (* ---------------------------------------------------------------- level 0 as an instance of the abstract copy theorems *)
  Definition R0 (p0 pk0 pos : N) (r : rstate) : Prop :=
    exists x, r = RS x /\ sr_rest x = skipn (N.to_nat pos) l /\ sr_pos x = pos /\
              sr_peeked x <= pk0 /\ (p0 < pos -> sr_peeked x = 0).
  Definition Rw0 (b : bits) (w : wstate) : Prop := w = WS b.

  Lemma r0_reads_ok p0 pk0 : reads_ok (rd_prims C) E l st (R0 p0 pk0).
  Proof.
    intros n pos r Hn (x & -> & Hrest & Hpos & Hpk & Hpk0) Hs. cbn [rd_prims p_bits rd_bits].
    assert (H00 : Rr0 l 0 pos x) by (split; [exact Hrest | lia]).
    destruct (sprims_reads_ok E st 0 l 0 n pos x Hn H00 Hs) as (x' & Hx & [Hr' Hp']).
    cbn [sprims p_bits] in Hx. rewrite Hx. cbn [omap]. exists (RS x'). split; [reflexivity |].
    exists x'. split; [reflexivity |]. split; [exact Hr' |]. split; [lia |].
    rewrite (s_bits_peeked _ _ _ _ _ _ Hx). split; [lia | reflexivity].
  Qed.
  Lemma r0_reads_err p0 pk0 : reads_err (rd_prims C) l st (R0 p0 pk0).
  Proof.
    intros n pos r Hn0 Hn (x & -> & Hrest & Hpos & _) Hst Hlen. cbn [rd_prims p_bits rd_bits].
    assert (H00 : Rr0 l 0 pos x) by (split; [exact Hrest | lia]).
    pose proof (sprims_reads_err E st 0 l 0 n pos x Hn0 Hn H00 Hst Hlen) as Hx.
    cbn [sprims p_bits] in Hx. rewrite Hx. reflexivity.
  Qed.
  Lemma w0_writes_ok : writes_ok (wr_prims C) E Rw0 true.
  Proof.
    intros v n b w Hn Hv ->. cbn [wr_prims q_bits wr_bits].
    destruct (sw_writes_ok_any E chk v n b b Hn (fun _ => Hv eq_refl) eq_refl) as (x & w' & Hx & ->).
    cbn [swprims q_bits] in Hx. rewrite Hx. cbn [omap]. eexists. eexists. split; reflexivity.
  Qed.

  (* ---------------------------------------------------------------- level 2: the writer *)
  Definition RwB (b : bits) (w : wstate) : Prop := exists sw, w = WB sw /\ RwM E wW b sw.
  Lemma wB_writes_ok c : writes_ok (bwprims E wW chk) E (RwM E wW) c -> writes_ok (wr_prims C) E RwB c.
  Proof.
    intros H v n b w Hn Hv (sw & -> & HR). cbn [wr_prims q_bits wr_bits].
    destruct (H v n b sw Hn Hv HR) as (x & sw' & Hx & HR'). cbn [bwprims q_bits] in Hx. rewrite Hx. cbn [omap].
    exists x, (WB sw'). split; [reflexivity |]. exists sw'. split; [reflexivity | exact HR'].
  Qed.

  (* ---------------------------------------------------------------- level 2: the buffered reader; K bits of
     peek allowance are kept as long as the position has not moved *)
  Definition RB2 (p0 K pos : N) (r : rstate) : Prop :=
    exists s, r = RB s /\ RrM E rW ws st pos s /\ p0 <= pos /\ (pos = p0 -> K <= br_bits s).

  Lemma rb_reads_ok p0 K : reads_ok (rd_prims C) E (bits_of_words E rW ws) st (RB2 p0 K).
  Proof.
    intros n pos r Hn (s & -> & HM & Hp0 & HK) Hs. cbn [rd_prims p_bits rd_bits].
    destruct (br_reads_ok E rW ws st n pos s Hn HM Hs) as (s' & Hx & HM'). cbn [brprims p_bits] in Hx.
    rewrite Hx. cbn [omap]. exists (RB s'). split; [reflexivity |]. exists s'. split; [reflexivity |].
    split; [exact HM' |]. split; [lia |]. intros Heq. assert (n = 0) as -> by lia. assert (pos = p0) as Hpp by lia.
    specialize (HK Hpp). destruct HM as ((_ & _ & Hb & _) & _).
    destruct (read_bits_fast_shape E rW 0 s ltac:(lia) ltac:(lia) Hb) as (v & b & Hsh).
    rewrite Hsh in Hx. injection Hx as _ <-. cbn [mk br_bits]. lia.
  Qed.
  Lemma rb_reads_err p0 K : reads_err (rd_prims C) (bits_of_words E rW ws) st (RB2 p0 K).
  Proof.
    intros n pos r Hn0 Hn (s & -> & HM & _) Hst Hlen. cbn [rd_prims p_bits rd_bits].
    pose proof (br_reads_err E rW ws st n pos s Hn0 Hn HM Hst Hlen) as Hx. cbn [brprims p_bits] in Hx.
    rewrite Hx. reflexivity.
  Qed.

  (* ---------------------------------------------------------------- level 2: the unbuffered reader, seen as a
     strict reader of the first LIM bits of the zero-extended stream (the index must stay below 2^63) *)
  Definition RU2 (LIM pos : N) (r : rstate) : Prop :=
    exists s, r = RU s /\ ur_index s = pos /\ pos <= LIM /\
              Forall (fun w => w < 2 ^ 64) (ws_words (ur_src s)) /\
              ws_words (ur_src s) = ws /\ ws_strict (ur_src s) = st.

  Lemma nxt_take_pad LIM (b : bits) pos n : pos + n <= LIM -> nxt (take_pad (N.to_nat LIM) b) pos n = nxt b pos n.
  Proof.
    intros H. apply bits_ext; [rewrite !nxt_length; reflexivity |].
    intros k Hk. rewrite nxt_length in Hk. rewrite !nth_nxt.
    destruct (Nat.ltb_spec k (N.to_nat n)) as [_ | Hge]; [| lia].
    rewrite nth_take_pad. destruct (Nat.ltb_spec (N.to_nat pos + k) (N.to_nat LIM)) as [_ | Hge]; [reflexivity | lia].
  Qed.

  Lemma ru_reads_ok LIM : rW = 0 -> LIM < 2 ^ 63 -> (st = true -> LIM <= N.of_nat (length l)) ->
    reads_ok (rd_prims C) E (take_pad (N.to_nat LIM) l) true (RU2 LIM).
  Proof.
    intros HW HL Hst n pos r Hn (s & -> & Hidx & Hle & HF & Hws & Hss) Hs. cbn [rd_prims p_bits rd_bits].
    specialize (Hs eq_refl). rewrite take_pad_length, N2Nat.id in Hs.
    destruct (facts_u HW) as (Hbw & _).
    assert (HR : urelW E st ws (uabs E s 0) s).
    { split; [| split; assumption]. split; [split; [exact HF | lia] |]. exists 0. reflexivity. }
    assert (Hrest : sr_rest (uabs E s 0) = skipn (N.to_nat pos) l).
    { unfold uabs, src_bits. cbn [sr_rest]. rewrite Hws, Hbw, Hidx. reflexivity. }
    destruct (sprims_reads_ok E st 0 l 0 n pos (uabs E s 0) Hn) as (x' & Hx & [Hr' Hp']).
    { split; [exact Hrest |]. cbn [uabs sr_pos]. lia. }
    { intros Hs1. specialize (Hst Hs1). lia. }
    cbn [sprims p_bits] in Hx.
    pose proof (read_bits_core E st ws n (uabs E s 0) s HR) as Hsim. rewrite Hx in Hsim.
    destruct Hsim as (s' & Hs' & HR').
    { intros a r' [= _ <-]. lia. }
    rewrite Hs'. cbn [omap]. rewrite nxt_take_pad by lia.
    exists (RU s'). split; [reflexivity |]. exists s'. split; [reflexivity |].
    destruct HR' as [[[HF' _] [pk Hx']] [Hss' Hws']].
    split; [rewrite Hx' in Hp'; cbn [uabs sr_pos] in Hp'; lia |]. split; [lia |].
    split; [exact HF' |]. split; assumption.
  Qed.

  Lemma ru_reads_err : rW = 0 -> st = true ->
    reads_err (rd_prims C) (take_pad (N.to_nat (N.of_nat (length l))) l) true (RU2 (N.of_nat (length l))).
  Proof.
    intros HW Hst n pos r Hn0 Hn (s & -> & Hidx & Hle & HF & Hws & Hss) _ Hlen. cbn [rd_prims p_bits rd_bits].
    rewrite take_pad_length in Hlen. destruct (facts_u HW) as (_ & _ & Hl64 & _).
    rewrite (strict_error E n s); [reflexivity | congruence | exact Hn0 | exact Hn |].
    unfold ulen. rewrite Hws, Hidx. lia.
  Qed.

  (* a reader that stays where it is: only zero-length reads (n = 0, or a strict unbuffered reader that has
     skipped beyond the end of its source) *)
  Definition RU0 (s0 : ureader) (p0 pos : N) (r : rstate) : Prop := r = RU s0 /\ pos = p0.
  Lemma ru0_reads_ok s0 p0 : reads_ok (rd_prims C) E (zeros (N.to_nat p0)) true (RU0 s0 p0).
  Proof.
    intros n pos r Hn [-> ->] Hs. specialize (Hs eq_refl). rewrite length_zeros, N2Nat.id in Hs.
    assert (n = 0) as -> by lia. cbn [rd_prims p_bits rd_bits]. unfold ur_read_bits. change (0 =? 0) with true. cbv iota.
    cbn [omap]. exists (RU s0). rewrite nxt_0, val_nil. split; [reflexivity |]. split; [reflexivity | lia].
  Qed.
  Lemma ru0_reads_err s0 p0 : st = true -> ws_strict (ur_src s0) = st -> ur_index s0 = p0 ->
    64 * N.of_nat (length (ws_words (ur_src s0))) <= p0 ->
    reads_err (rd_prims C) (zeros (N.to_nat p0)) true (RU0 s0 p0).
  Proof.
    intros Hst Hss Hidx Hover n pos r Hn0 Hn [-> ->] _ _. cbn [rd_prims p_bits rd_bits].
    rewrite (strict_error E n s0); [reflexivity | congruence | exact Hn0 | exact Hn |]. unfold ulen. lia.
  Qed.

  Lemma copy_default_first_err {SR SW} (PR : rprims SR) (PW : wprims SW) n r w :
    n <> 0 -> p_bits PR (N.min n 64) r = Err -> copy_default PR PW n r w = Err.
  Proof.
    intros Hn He. unfold copy_default. cbn [copy_generic]. destruct (N.eqb_spec n 0); [contradiction |].
    cbv zeta. rewrite He. reflexivity.
  Qed.

  (* ---------------------------------------------------------------- level 0: the copy loop *)
  Lemma l0_copy_ok n x b : (st = true -> sr_pos x + n <= N.of_nat (length l)) ->
    sr_rest x = skipn (N.to_nat (sr_pos x)) l ->
    exists x', copy_default (rd_prims C) (wr_prims C) n (RS x) (WS b) = Ok (RS x', WS (b ++ nxt l (sr_pos x) n)) /\
      sr_rest x' = skipn (N.to_nat (sr_pos x + n)) l /\ sr_pos x' = sr_pos x + n /\
      sr_peeked x' <= sr_peeked x /\ (0 < n -> sr_peeked x' = 0).
  Proof.
    intros Hs Hrest.
    destruct (copy_default_ok (rd_prims C) (wr_prims C) E l st (R0 (sr_pos x) (sr_peeked x)) Rw0
                (r0_reads_ok _ _) w0_writes_ok n (sr_pos x) (RS x) b (WS b))
      as (r' & w' & Hc & (x' & -> & H1 & H2 & H3 & H4) & ->).
    - exists x. split; [reflexivity |]. split; [exact Hrest |]. split; [reflexivity |]. split; lia.
    - reflexivity.
    - exact Hs.
    - exists x'. split; [exact Hc |]. split; [exact H1 |]. split; [exact H2 |]. split; [exact H3 |].
      intros Hn. apply H4. lia.
  Qed.

  Lemma l0_copy_err n x b : st = true -> N.of_nat (length l) < sr_pos x + n -> n <> 0 ->
    sr_rest x = skipn (N.to_nat (sr_pos x)) l ->
    copy_default (rd_prims C) (wr_prims C) n (RS x) (WS b) = Err.
  Proof.
    intros Hst Hlen Hn Hrest.
    assert (HR : R0 (sr_pos x) (sr_peeked x) (sr_pos x) (RS x)).
    { exists x. split; [reflexivity |]. split; [exact Hrest |]. split; [reflexivity |]. split; lia. }
    destruct (N.le_gt_cases (sr_pos x) (N.of_nat (length l))) as [Hle | Hgt].
    - apply (copy_default_err (rd_prims C) (wr_prims C) E l st (R0 (sr_pos x) (sr_peeked x)) Rw0
               (r0_reads_ok _ _) w0_writes_ok (r0_reads_err _ _) n (sr_pos x) (RS x) b (WS b) HR eq_refl Hst Hlen Hle).
    - apply copy_default_first_err; [exact Hn |].
      apply (r0_reads_err (sr_pos x) (sr_peeked x) (N.min n 64) (sr_pos x) (RS x)); [lia | lia | exact HR | exact Hst | lia].
  Qed.

  (* ---------------------------------------------------------------- level 2: the two paths generic in the reader *)
  Lemma l2_generic_ok (Rr2 : N -> rstate -> Prop) l' strict' (Hp : reads_ok (rd_prims C) E l' strict' Rr2) n pos r b sw :
    Rr2 pos r -> RwM E wW b sw -> (strict' = true -> pos + n <= N.of_nat (length l')) ->
    (exists r' sw', copy_default (rd_prims C) (wr_prims C) n r (WB sw) = Ok (r', WB sw') /\
                    Rr2 (pos + n) r' /\ RwM E wW (b ++ nxt l' pos n) sw') /\
    (exists r' sw', bw_copy_from E chk (rd_prims C) wW n r sw = Ok (r', sw') /\
                    Rr2 (pos + n) r' /\ RwM E wW (b ++ nxt l' pos n) sw').
  Proof.
    intros HR HW Hs. split.
    - destruct (copy_default_ok (rd_prims C) (wr_prims C) E l' strict' Rr2 RwB Hp
                  (wB_writes_ok true (bw_writes_ok_clean E wW chk)) n pos r b (WB sw) HR)
        as (r' & w' & Hc & HR' & (sw' & -> & HW')); [exists sw; split; [reflexivity | exact HW] | exact Hs |].
      exists r', sw'. split; [exact Hc |]. split; assumption.
    - destruct HW as [HWr Hc].
      destruct (copy_from_ok (rd_prims C) E chk l' strict' Rr2 Hp wW n r pos b sw HWr Hc HR Hs)
        as (r' & sw' & He & HR' & HW' & Hc').
      exists r', sw'. split; [exact He |]. split; [exact HR' |]. split; assumption.
  Qed.

  Lemma l2_generic_err (Rr2 : N -> rstate -> Prop) l' strict' (Hp : reads_ok (rd_prims C) E l' strict' Rr2)
      (Hpe : reads_err (rd_prims C) l' strict' Rr2) n pos r b sw :
    Rr2 pos r -> RwM E wW b sw -> strict' = true -> pos <= N.of_nat (length l') -> N.of_nat (length l') < pos + n ->
    copy_default (rd_prims C) (wr_prims C) n r (WB sw) = Err /\
    bw_copy_from E chk (rd_prims C) wW n r sw = Err.
  Proof.
    intros HR HW Hst Hpos Hlen. split.
    - apply (copy_default_err (rd_prims C) (wr_prims C) E l' strict' Rr2 RwB Hp
               (wB_writes_ok true (bw_writes_ok_clean E wW chk)) Hpe n pos r b (WB sw) HR); try assumption.
      exists sw. split; [reflexivity | exact HW].
    - destruct HW as [HWr Hc].
      apply (copy_from_err (rd_prims C) E chk l' strict' Rr2 Hp Hpe wW n r pos b sw HWr Hc HR Hst Hpos Hlen).
  Qed.

  (* ---------------------------------------------------------------- level 2: BufBitReader::copy_to *)
  Lemma l2_copy_to_ok n s pos b sw : rW <> 0 -> RrM E rW ws st pos s -> RwM E wW b sw ->
    (st = true -> pos + n <= N.of_nat (length l)) ->
    exists s' sw', br_copy_to E chk (wr_prims C) rW n s (WB sw) = Ok (s', WB sw') /\
                   RrM E rW ws st (pos + n) s' /\ RwM E wW (b ++ nxt l pos n) sw'.
  Proof.
    intros HW (HI & Hws & Hss) HRw Hs. destruct (facts_b HW) as (_ & _ & Hbw & _ & Hlen & _).
    destruct (copy_to_ok (wr_prims C) E chk RwB (wB_writes_ok chk (bw_writes_ok_any E wW chk)) rW n s pos b (WB sw) HI)
      as (s' & w' & Hc & HI' & (sw' & -> & HW') & Hws' & Hss').
    - exists sw. split; [reflexivity | exact HRw].
    - rewrite Hss, Hws. intros Hst. specialize (Hs Hst). lia.
    - exists s', sw'. split; [exact Hc |]. split; [split; [exact HI' | split; congruence] |].
      unfold src_bits in HW'. rewrite Hws, Hbw in HW'. exact HW'.
  Qed.

  Lemma l2_copy_to_err n s pos b sw : rW <> 0 -> RrM E rW ws st pos s -> RwM E wW b sw ->
    st = true -> N.of_nat (length l) < pos + n ->
    br_copy_to E chk (wr_prims C) rW n s (WB sw) = Err.
  Proof.
    intros HW (HI & Hws & Hss) HRw Hst Hlen. destruct (facts_b HW) as (_ & _ & Hbw & _ & Hl & _).
    apply (copy_to_err (wr_prims C) E chk RwB (wB_writes_ok chk (bw_writes_ok_any E wW chk)) rW n s pos b (WB sw) HI).
    - exists sw. split; [reflexivity | exact HRw].
    - congruence.
    - rewrite Hws. lia.
  Qed.

  (* ---------------------------------------------------------------- the relation, unfolded *)
  Lemma Rr_b_elim x s : Rr (RS x) (RB s) ->
    rW <> 0 /\ RrM E rW ws st (sr_pos x) s /\ sr_peeked x <= br_bits s /\ sr_rest x = skipn (N.to_nat (sr_pos x)) l.
  Proof.
    intros [HW [(pos & pk & HI & Hpk & ->) [Hws Hss]]]. destruct (facts_b HW) as (_ & _ & Hbw & _).
    cbn [rabs sr_pos sr_peeked sr_rest]. split; [exact HW |]. split; [split; [exact HI | split; assumption] |].
    split; [exact Hpk |]. unfold src_bits. rewrite Hws, Hbw. reflexivity.
  Qed.
  Lemma Rr_b_intro x s pos : rW <> 0 -> RrM E rW ws st pos s -> sr_rest x = skipn (N.to_nat pos) l ->
    sr_pos x = pos -> sr_peeked x <= br_bits s -> Rr (RS x) (RB s).
  Proof.
    intros HW (HI & Hws & Hss) Hrest Hpos Hpk. destruct (facts_b HW) as (_ & _ & Hbw & _).
    split; [exact HW |]. split; [| split; assumption]. exists pos, (sr_peeked x). split; [exact HI |]. split; [exact Hpk |].
    destruct x as [xr xp xk]. cbn [sr_rest sr_pos sr_peeked] in *. unfold rabs, src_bits. rewrite Hws, Hbw, Hrest, Hpos. reflexivity.
  Qed.
  Lemma Rr_u_elim x s : Rr (RS x) (RU s) ->
    rW = 0 /\ Forall (fun w => w < 2 ^ 64) (ws_words (ur_src s)) /\ ur_index s = sr_pos x /\ sr_pos x < 2 ^ 63 /\
    ws_words (ur_src s) = ws /\ ws_strict (ur_src s) = st /\ sr_rest x = skipn (N.to_nat (sr_pos x)) l.
  Proof.
    intros [HW [[[HF HI] [pk ->]] [Hss Hws]]]. destruct (facts_u HW) as (Hbw & _).
    cbn [uabs sr_pos sr_rest]. split; [exact HW |]. split; [exact HF |]. split; [reflexivity |]. split; [exact HI |].
    split; [exact Hws |]. split; [exact Hss |]. unfold src_bits. rewrite Hws, Hbw. reflexivity.
  Qed.
  Lemma Rr_u_intro x s : rW = 0 -> Forall (fun w => w < 2 ^ 64) (ws_words (ur_src s)) -> ur_index s = sr_pos x ->
    sr_pos x < 2 ^ 63 -> ws_words (ur_src s) = ws -> ws_strict (ur_src s) = st ->
    sr_rest x = skipn (N.to_nat (sr_pos x)) l -> Rr (RS x) (RU s).
  Proof.
    intros HW HF Hidx Hb Hws Hss Hrest. destruct (facts_u HW) as (Hbw & _).
    split; [exact HW |]. split; [| split; assumption]. split; [split; [exact HF | lia] |]. exists (sr_peeked x).
    destruct x as [xr xp xk]. cbn [sr_rest sr_pos sr_peeked] in *. unfold uabs, src_bits. rewrite Hidx, Hws, Hbw, Hrest. reflexivity.
  Qed.

  (* ---------------------------------------------------------------- copy_to / copy_from: level 0 vs level 2 *)
  Definition csim (o0 o2 : outcome (rstate * wstate)) : Prop :=
    match o0 with
    | Ok (r0', w0') => bnd r0' -> exists r2' w2', o2 = Ok (r2', w2') /\ Rr r0' r2' /\ Rw w0' w2'
    | Err => o2 = Err
    | _ => True
    end.

  Lemma copy_sim (to : bool) n r0 r2 w0 w2 : Rr r0 r2 -> Rw w0 w2 ->
    csim ((if to then copy_to C else copy_from C) n r0 w0) ((if to then copy_to C else copy_from C) n r2 w2).
  Proof.
    intros HR HWw. destruct (Rr_RS _ _ HR) as [x ->].
    destruct w0 as [b | y0]; destruct w2 as [b2 | sw]; cbn [Rw] in HWw; try contradiction.
    assert (H0 : (if to then copy_to C else copy_from C) n (RS x) (WS b)
                 = copy_default (rd_prims C) (wr_prims C) n (RS x) (WS b)) by (destruct to; reflexivity).
    rewrite H0. clear H0.
    destruct r2 as [x2 | s | s]; [cbn [Rr] in HR; contradiction | |].
    - (* the buffered reader *)
      destruct (Rr_b_elim _ _ HR) as (HW & HM & Hpk & Hrest). set (pos := sr_pos x) in *.
      destruct (facts_b HW) as (_ & _ & Hbw & _ & Hlen & _).
      assert (Hcase : (st = true /\ N.of_nat (length l) < pos + n) \/ (st = true -> pos + n <= N.of_nat (length l))).
      { destruct st; [| right; discriminate].
        destruct (N.lt_ge_cases (N.of_nat (length l)) (pos + n)); [left; auto | right; auto]. }
      destruct Hcase as [[Hst Hlt] | Hok].
      + assert (Hple : pos <= N.of_nat (length l)).
        { destruct HM as (HI & Hws & Hss). pose proof (RInv_pos_le E rW s pos HI ltac:(congruence)) as Hp.
          rewrite Hws in Hp. lia. }
        rewrite (l0_copy_err n x b Hst Hlt ltac:(lia) Hrest). cbn [csim].
        assert (HRB : RB2 pos 0 pos (RB s)).
        { exists s. split; [reflexivity |]. split; [exact HM |]. split; lia. }
        destruct (l2_generic_err (RB2 pos 0) _ st (rb_reads_ok pos 0) (rb_reads_err pos 0) n pos (RB s) b sw HRB HWw Hst)
          as [E1 E2]; [rewrite Hbw; lia | rewrite Hbw; lia |].
        destruct to; cbn [copy_to copy_from]; destruct (c_nocopy C).
        * exact E1.
        * rewrite (l2_copy_to_err n s pos b sw HW HM HWw Hst Hlt). reflexivity.
        * exact E1.
        * rewrite E2. reflexivity.
      + destruct (l0_copy_ok n x b Hok Hrest) as (x' & Hc0 & Hr' & Hp' & Hk' & Hk0). rewrite Hc0.
        fold pos in Hr', Hp'. cbn [csim rpos]. intros Hb.
        assert (HRB : RB2 pos (sr_peeked x) pos (RB s)).
        { exists s. split; [reflexivity |]. split; [exact HM |]. split; [lia |]. intros _. exact Hpk. }
        destruct (l2_generic_ok (RB2 pos (sr_peeked x)) _ st (rb_reads_ok _ _) n pos (RB s) b sw HRB HWw) as [G1 G2];
          [rewrite Hbw; exact Hok |]. rewrite Hbw in G1, G2.
        assert (Hfin : forall r2' sw', RB2 pos (sr_peeked x) (pos + n) r2' -> RwM E wW (b ++ nxt l pos n) sw' ->
                         Rr (RS x') r2' /\ Rw (WS (b ++ nxt l pos n)) (WB sw')).
        { intros r2' sw' (s' & -> & HM' & _ & HK') HW'. split; [| exact HW'].
          apply (Rr_b_intro x' s' (pos + n) HW HM' Hr' Hp').
          destruct (N.eq_dec n 0) as [Hn0 | Hn0].
          - rewrite Hn0 in HK'. specialize (HK' ltac:(lia)). lia.
          - rewrite Hk0 by lia. lia. }
        destruct to; cbn [copy_to copy_from]; destruct (c_nocopy C).
        * destruct G1 as (r2' & sw' & -> & Ha & Hbb). exists r2', (WB sw'). split; [reflexivity | apply Hfin; assumption].
        * destruct (N.eq_dec n 0) as [Hn0 | Hn0].
          -- subst n. rewrite copy_zero_to. cbn [omap]. exists (RB s), (WB sw). split; [reflexivity |]. split.
             ++ apply (Rr_b_intro x' s (pos + 0)); [exact HW | rewrite N.add_0_r; exact HM | exact Hr' | exact Hp' | lia].
             ++ rewrite nxt_0, app_nil_r. exact HWw.
          -- destruct (l2_copy_to_ok n s pos b sw HW HM HWw Hok) as (s' & sw' & -> & HM' & HW'). cbn [omap].
             exists (RB s'), (WB sw'). split; [reflexivity |]. split; [| exact HW'].
             apply (Rr_b_intro x' s' (pos + n) HW HM' Hr' Hp'). rewrite Hk0 by lia. lia.
        * destruct G1 as (r2' & sw' & -> & Ha & Hbb). exists r2', (WB sw'). split; [reflexivity | apply Hfin; assumption].
        * destruct G2 as (r2' & sw' & -> & Ha & Hbb). cbn [omap]. exists r2', (WB sw'). split; [reflexivity | apply Hfin; assumption].
    - (* the unbuffered reader *)
      destruct (Rr_u_elim _ _ HR) as (HW & HF & Hidx & Hb63 & Hws & Hss & Hrest). set (pos := sr_pos x) in *.
      destruct (facts_u HW) as (Hbw & _ & Hl64 & Hl63).
      assert (Hpaths : forall o : outcome (rstate * wstate) -> Prop,
                 o (copy_default (rd_prims C) (wr_prims C) n (RU s) (WB sw)) ->
                 o (omap (fun '(r', x') => (r', WB x')) (bw_copy_from E chk (rd_prims C) wW n (RU s) sw)) ->
                 o ((if to then copy_to C else copy_from C) n (RU s) (WB sw))).
      { intros o O1 O2. destruct to; cbn [copy_to copy_from]; [exact O1 |]. destruct (c_nocopy C); assumption. }
      destruct (N.eq_dec n 0) as [Hn0 | Hn0].
      + subst n. rewrite copy_zero_default. cbn [csim]. intros _.
        assert (HRU : RU0 s pos pos (RU s)) by (split; reflexivity).
        destruct (l2_generic_ok (RU0 s pos) _ true (ru0_reads_ok s pos) 0 pos (RU s) b sw HRU HWw) as [G1 G2];
          [intros _; rewrite length_zeros, N2Nat.id; lia |].
        rewrite nxt_0, app_nil_r in G1, G2.
        apply Hpaths.
        * destruct G1 as (r2' & sw' & -> & [-> _] & Hbb). exists (RU s), (WB sw'). split; [reflexivity |]. split; [exact HR | exact Hbb].
        * destruct G2 as (r2' & sw' & -> & [-> _] & Hbb). cbn [omap]. exists (RU s), (WB sw'). split; [reflexivity |]. split; [exact HR | exact Hbb].
      + assert (Hcase : (st = true /\ N.of_nat (length l) < pos + n) \/ (st = true -> pos + n <= N.of_nat (length l))).
        { destruct st; [| right; discriminate].
          destruct (N.lt_ge_cases (N.of_nat (length l)) (pos + n)); [left; auto | right; auto]. }
        destruct Hcase as [[Hst Hlt] | Hok].
        * rewrite (l0_copy_err n x b Hst Hlt Hn0 Hrest). cbn [csim].
          assert (HE : copy_default (rd_prims C) (wr_prims C) n (RU s) (WB sw) = Err /\
                       bw_copy_from E chk (rd_prims C) wW n (RU s) sw = Err).
          { destruct (N.le_gt_cases pos (N.of_nat (length l))) as [Hle | Hgt].
            - assert (HRU : RU2 (N.of_nat (length l)) pos (RU s)).
              { exists s. split; [reflexivity |]. split; [exact Hidx |]. split; [exact Hle |]. split; [exact HF |]. split; assumption. }
              apply (l2_generic_err (RU2 (N.of_nat (length l))) _ true
                       (ru_reads_ok (N.of_nat (length l)) HW ltac:(lia) (fun _ => N.le_refl _)) (ru_reads_err HW Hst) n pos (RU s) b sw HRU HWw eq_refl);
                rewrite take_pad_length; lia.
            - assert (HRU : RU0 s pos pos (RU s)) by (split; reflexivity).
              apply (l2_generic_err (RU0 s pos) _ true (ru0_reads_ok s pos)
                       (ru0_reads_err s pos Hst Hss Hidx ltac:(rewrite Hws; lia)) n pos (RU s) b sw HRU HWw eq_refl);
                rewrite length_zeros; lia. }
          destruct HE as [E1 E2]. apply Hpaths; [exact E1 | rewrite E2; reflexivity].
        * destruct (l0_copy_ok n x b Hok Hrest) as (x' & Hc0 & Hr' & Hp' & Hk' & Hk0). rewrite Hc0.
          fold pos in Hr', Hp'. cbn [csim]. intros Hb. specialize (Hb (or_introl HW)). cbn [rpos] in Hb. rewrite Hp' in Hb.
          assert (HRU : RU2 (pos + n) pos (RU s)).
          { exists s. split; [reflexivity |]. split; [exact Hidx |]. split; [lia |]. split; [exact HF |]. split; assumption. }
          destruct (l2_generic_ok (RU2 (pos + n)) _ true (ru_reads_ok (pos + n) HW Hb Hok) n pos (RU s) b sw HRU HWw) as [G1 G2];
            [intros _; rewrite take_pad_length; lia |].
          rewrite nxt_take_pad in G1, G2 by lia.
          assert (Hfin : forall r2' sw', RU2 (pos + n) (pos + n) r2' -> RwM E wW (b ++ nxt l pos n) sw' ->
                           Rr (RS x') r2' /\ Rw (WS (b ++ nxt l pos n)) (WB sw')).
          { intros r2' sw' (s' & -> & Hidx' & _ & HF' & Hws' & Hss') HW'. split; [| exact HW'].
            apply Rr_u_intro; try assumption; [congruence | lia | rewrite Hp'; exact Hr']. }
          apply Hpaths.
          -- destruct G1 as (r2' & sw' & -> & Ha & Hbb). exists r2', (WB sw'). split; [reflexivity | apply Hfin; assumption].
          -- destruct G2 as (r2' & sw' & -> & Ha & Hbb). cbn [omap]. exists r2', (WB sw'). split; [reflexivity | apply Hfin; assumption].
  Qed.

  (* ---------------------------------------------------------------- one step, every operation but the copies *)
  Lemma step_refines_nocopy wd0 wd2 op : wrel2 wd0 wd2 -> nth0 op 0 <> 30 -> nth0 op 0 <> 31 ->
    stepres (step C wd0 op) (step C wd2 op).
  Proof.
    intros HR N30 N31. pose proof HR as (H1 & H2 & H3 & H4 & H5 & H6).
    destruct (existsb (N.eqb (nth0 op 0)) handled) eqn:Hh.
    2:{ rewrite !step_default by exact Hh. cbn [stepres]. right. reflexivity. }
    apply existsb_exists in Hh. destruct Hh as (k & Hin & Hk). apply N.eqb_eq in Hk.
    unfold handled in Hin. cbn [In] in Hin.
    destruct Hin as [<- | [<- | [<- | [<- | [<- | [<- | [<- | [<- | [<- | [<- | [<- | [<- | [<- | [<- | [<- | [<- |
                    [<- | [<- | [<- | [<- | []]]]]]]]]]]]]]]]]]]]].
    - (* 1 write_bits *)
      rewrite !step_1 by exact Hk. apply keepw_ok; [exact HR |]. rewrite <- !wrun_bits_ret, <- H6.
      apply wprog_wsimO. exact H5.
    - (* 2 write_unary *)
      rewrite !step_2 by exact Hk. apply keepw_ok; [exact HR |]. rewrite <- !wrun_unary_ret, <- H6.
      apply wprog_wsimO. exact H5.
    - (* 3 flush *)
      rewrite !step_3 by exact Hk. apply keepw_ok; [exact HR |]. rewrite <- H6. apply flush_wsimO. exact H5.
    - (* 4 write a code *)
      rewrite !step_4 by exact Hk. apply keepw_ok; [exact HR |]. rewrite <- H6. apply wprog_wsimO. exact H5.
    - (* 5 io::Write *)
      rewrite !step_5 by exact Hk. apply keepw_ok; [exact HR |]. rewrite <- H6. apply wprog_wsimO. exact H5.
    - (* 10 read_bits *)
      rewrite !step_10 by exact Hk. apply keepr_ok; [exact HR |]. rewrite <- !rrun_bits_ret, <- H2.
      apply (prog_rsimO _ (fun v => [v])). apply H1.
    - (* 11 read_unary *)
      rewrite !step_11 by exact Hk. apply keepr_ok; [exact HR |]. rewrite <- !rrun_unary_ret, <- H2.
      apply (prog_rsimO _ (fun v => [v])). apply H1.
    - (* 12 skip_bits *)
      rewrite !step_12 by exact Hk. apply keepr_ok; [exact HR |]. rewrite <- H2. apply skip_rsimO. apply H1.
    - (* 13 peek_bits *)
      rewrite !step_13 by exact Hk. apply keepr_ok; [exact HR |]. rewrite <- !rrun_peek_ret, <- H2.
      apply (prog_rsimO _ (fun v => [v])). apply H1.
    - (* 14 skip_bits_after_peek *)
      rewrite !step_14 by exact Hk. apply keepr_ok; [exact HR |]. rewrite <- H2.
      pose proof (prog_rsimO (RSkipAP (nth0 op 1) (RRet tt)) (fun _ => []) (w_r wd0) (w_r wd2) (w_rc wd0) (proj1 H1)) as HS.
      rewrite !rrun_skipap_ret in HS.
      destruct (p_skipap (crp C) (nth0 op 1) (w_r wd0, w_rc wd0)) as [[r0' c0'] | | | ];
        destruct (p_skipap (crp C) (nth0 op 1) (w_r wd2, w_rc wd0)) as [[r2' c2'] | | | ]; exact HS.
    - (* 15 read a code *)
      rewrite !step_15 by exact Hk. apply keepr_ok; [exact HR |]. rewrite <- H2. apply rcode_rsimO. apply H1.
    - (* 16 io::Read *)
      rewrite !step_16 by exact Hk. apply keepr_ok; [exact HR |]. rewrite <- H2.
      apply (prog_rsimO _ (fun l => l)). apply H1.
    - (* 17 bit_pos *)
      rewrite !step_17 by exact Hk. apply keepr_ok; [exact HR |]. rewrite <- H2. apply pos_rsimO; apply H1.
    - (* 18 set_bit_pos *)
      rewrite !step_18 by exact Hk. apply keepr_ok; [exact HR |]. rewrite <- H2. apply seek_rsimO. apply H1.
    - (* 19 clone *)
      rewrite !step_19 by exact Hk. cbn [stepres w_r]. intros _. eexists. split; [reflexivity |].
      unfold wrel2. cbn [w_r w_rc w_clone w_w w_wc fst snd]. rewrite <- H2. auto 10.
    - (* 20 swap with the clone *)
      rewrite !step_20 by exact Hk. cbn [stepres w_r]. intros _. eexists. split; [reflexivity |].
      unfold wrel2. cbn [w_r w_rc w_clone w_w w_wc fst snd]. rewrite <- H2, <- H4. auto 10.
    - contradiction.
    - contradiction.
    - (* 32 bits written *)
      rewrite !step_32 by exact Hk. cbn [stepres]. intros _. exists wd2. rewrite H6. split; [reflexivity | exact HR].
    - (* 33 bits read *)
      rewrite !step_33 by exact Hk. cbn [stepres]. intros _. exists wd2. rewrite H2. split; [reflexivity | exact HR].
  Qed.


  (* ---------------------------------------------------------------- the copies as operations *)
  Definition keepc (wd : world) (n : N) (o : outcome (rstate * wstate)) : list N * option world :=
    match o with
    | Ok (r', w') =>
        match ws_guard C (Ok (0, w')) with
        | Ok _ => ([0; N.of_nat (List.length (wr_delivered C w'))],
                   Some {| w_r := r'; w_rc := w_rc wd + n; w_clone := w_clone wd; w_w := w'; w_wc := w_wc wd + n |})
        | _ => ([1], None) end
    | Err => ([1], None) | Fail => ([2], None) | Fuel => ([3], None)
    end.
  Lemma step_30 wd op : nth0 op 0 = 30 -> step C wd op = keepc wd (nth0 op 1) (copy_to C (nth0 op 1) (w_r wd) (w_w wd)).
  Proof. intros H. step_eq H. Qed.
  Lemma step_31 wd op : nth0 op 0 = 31 -> step C wd op = keepc wd (nth0 op 1) (copy_from C (nth0 op 1) (w_r wd) (w_w wd)).
  Proof. intros H. step_eq H. Qed.

  Lemma keepc_ok wd0 wd2 n o0 o2 : wrel2 wd0 wd2 -> csim o0 o2 -> stepres (keepc wd0 n o0) (keepc wd2 n o2).
  Proof.
    intros (H1 & H2 & H3 & H4 & H5 & H6) HS. unfold csim in HS.
    destruct o0 as [[r0' w0'] | | | ]; cbn [keepc].
    - rewrite ws_guard_id. cbn [stepres w_r]. intros Hb. destruct (HS Hb) as (r2' & w2' & -> & HR' & HW').
      cbn [keepc]. rewrite ws_guard_id. rewrite (delivered_eq _ _ HW'). eexists. split; [reflexivity |].
      unfold wrel2. cbn [w_r w_rc w_clone w_w w_wc]. rewrite H2, H6.
      split; [split; [exact HR' | exact (Rr_bound _ _ HR' Hb)] |]. auto 10.
    - cbn [stepres]. left. rewrite HS. split; reflexivity.
    - cbn [stepres]. right. reflexivity.
    - cbn [stepres]. right. reflexivity.
  Qed.

  (* ---------------------------------------------------------------- one step, every operation *)
  Lemma step_refines wd0 wd2 op : wrel2 wd0 wd2 -> stepres (step C wd0 op) (step C wd2 op).
  Proof.
    intros HR. destruct (N.eq_dec (nth0 op 0) 30) as [H30 | N30].
    - rewrite !step_30 by exact H30. apply keepc_ok; [exact HR |].
      destruct HR as (H1 & _ & _ & _ & H5 & _). exact (copy_sim true _ _ _ _ _ (proj1 H1) H5).
    - destruct (N.eq_dec (nth0 op 0) 31) as [H31 | N31].
      + rewrite !step_31 by exact H31. apply keepc_ok; [exact HR |].
        destruct HR as (H1 & _ & _ & _ & H5 & _). exact (copy_sim false _ _ _ _ _ (proj1 H1) H5).
      + apply step_refines_nocopy; assumption.
  Qed.

  Lemma init_rel :
    wrel2 {| w_r := RS (sreader_of (cpbits C)); w_rc := 0; w_clone := (RS (sreader_of (cpbits C)), 0);
             w_w := WS []; w_wc := 0 |}
          (let r := if c_rW C =? 0 then RU (ur_new (cwords C) (c_rstrict C)) else RB (br_new (cwords C) (c_rstrict C)) in
           {| w_r := r; w_rc := 0; w_clone := (r, 0); w_w := WB (bw_new None (c_wW C)); w_wc := 0 |}).
  Proof.
    assert (HRr : Rrb (RS (sreader_of (cpbits C)))
                      (if c_rW C =? 0 then RU (ur_new (cwords C) (c_rstrict C)) else RB (br_new (cwords C) (c_rstrict C)))).
    { split; [| cbn [rpos sreader_of sr_pos]; lia].
      destruct (N.eqb_spec rW 0) as [HW | HW].
      - destruct (facts_u HW) as (Hbw & HF & _).
        destruct (new_ok E ws st HF) as (_ & _ & Hu). rewrite Hbw in Hu.
        split; [exact HW |]. split; [exact Hu | split; reflexivity].
      - destruct (facts_b HW) as (HWo & H64 & Hbw & HF & _).
        split; [exact HW |]. split; [| split; reflexivity].
        exists 0, 0. split; [apply new_inv; assumption |]. split; [cbn [br_new br_bits]; lia |].
        unfold rabs, src_bits, br_new, sreader_of. cbn [br_src ws_words]. rewrite Hbw. reflexivity. }
    cbv zeta. unfold wrel2. cbn [w_r w_rc w_clone w_w w_wc fst snd].
    split; [exact HRr |]. split; [reflexivity |]. split; [exact HRr |]. split; [reflexivity |].
    split; [| reflexivity]. cbn [Rw]. split; [split; [apply WInv_new; exact wW_ok | apply wabs_new] | reflexivity].
  Qed.

  (* the closing groups: 98 (bytes once flushed) and 99 (bytes delivered) *)
  Definition closing (wd : world) : list (list N) :=
    [match wr_flush C (w_w wd) with
     | Ok (_, w') => 98 :: 0 :: wr_delivered C w'
     | _ => [98; 2] end;
     99 :: wr_delivered C (w_w wd)].

  Lemma closing_agree wd0 wd2 : wrel2 wd0 wd2 -> agree (closing wd0) (closing wd2).
  Proof.
    intros (_ & _ & _ & _ & H5 & _). unfold closing.
    pose proof (wr_flush_sim _ _ H5) as HS. rewrite <- (delivered_eq _ _ H5).
    destruct (wr_flush C (w_w wd0)) as [[r w0'] | | | ]; cbn [osim] in HS.
    - destruct HS as (w2' & -> & HR'). rewrite (delivered_eq _ _ HR'). apply agree_refl.
    - rewrite HS. apply agree_refl.
    - apply agree_flush_failed.
    - apply agree_flush_failed.
  Qed.

  (* ---------------------------------------------------------------- operation lists *)
  Definition fin (x : list (list N) * option world) : list (list N) :=
    match snd x with Some wd => fst x ++ closing wd | None => fst x end.

  Lemma fin_cons g (x : list (list N) * option world) :
    fin (let '(outs, f) := x in (g :: outs, f)) = g :: fin x.
  Proof. destruct x as [outs [wd |]]; reflexivity. Qed.

  Lemma runs_refine (P : list N -> Prop) :
    (forall wd0 wd2 op, wrel2 wd0 wd2 -> P op -> stepres (step C wd0 op) (step C wd2 op)) ->
    forall ops wd0 wd2, wrel2 wd0 wd2 -> Forall P ops -> (rW <> 0 /\ st = true) \/ pos_run C wd0 ops = true ->
    agree (fin (steps C wd0 ops)) (fin (steps C wd2 ops)).
  Proof.
    intros Hstep. induction ops as [| op r IH]; intros wd0 wd2 HR HP Hpos.
    - cbn [steps fin fst snd app]. apply closing_agree. exact HR.
    - inversion HP as [| ? ? HPop HPr]; subst. cbn [steps pos_run] in Hpos |- *.
      pose proof (Hstep wd0 wd2 op HR HPop) as HS. unfold stepres in HS.
      destruct (step C wd0 op) as [g [wd0' |]].
      + assert (Hb : bnd (w_r wd0')).
        { intros Hcase. destruct Hpos as [[Ha1 Ha2] | Hpos]; [destruct Hcase; [contradiction | congruence] |].
          apply andb_prop in Hpos. destruct Hpos as [Hb _]. apply N.ltb_lt in Hb. exact Hb. }
        assert (Hrest : (rW <> 0 /\ st = true) \/ pos_run C wd0' r = true).
        { destruct Hpos as [Ha | Hpos]; [left; exact Ha | right].
          apply andb_prop in Hpos. destruct Hpos as [_ Hr]. exact Hr. }
        destruct (HS Hb) as (wd2' & -> & HR'). rewrite !fin_cons.
        apply (agree_app_same [g]). apply IH; assumption.
      + destruct HS as [[-> ->] | Hoc].
        * apply agree_refl.
        * destruct (step C wd2 op) as [g2 [wd2' |]]; [rewrite fin_cons |];
            cbn [fin fst snd agree]; rewrite Hoc; exact I.
  Qed.

End Refine.

(* ================================================================== the theorems *)
Lemma step_level C l wd op : step (with_level C l) wd op = step C wd op.
Proof. reflexivity. Qed.

Lemma steps_level C l : forall ops wd, steps (with_level C l) wd ops = steps C wd ops.
Proof.
  induction ops as [| op r IH]; intros wd; cbn [steps]; [reflexivity |].
  rewrite step_level. destruct (step C wd op) as [g [wd' |]]; [rewrite IH |]; reflexivity.
Qed.

Lemma pos_run_level C l : forall ops wd, pos_run (with_level C l) wd ops = pos_run C wd ops.
Proof.
  induction ops as [| op r IH]; intros wd; cbn [pos_run]; [reflexivity |].
  rewrite step_level. destruct (step C wd op) as [g [wd' |]]; [rewrite IH |]; reflexivity.
Qed.

Lemma run_world_fin C l ops : run_world (with_level C l) ops = fin C (steps C (init_world (with_level C l)) ops).
Proof.
  unfold run_world. rewrite steps_level.
  destruct (steps C (init_world (with_level C l)) ops) as [outs [wd |]]; reflexivity.
Qed.

Lemma runs_from_init C ops : cfg_ok C ->
  (c_rW C <> 0 /\ c_rstrict C = true) \/ ops_ok C ops = true ->
  agree (run_world (with_level C 0) ops) (run_world (with_level C 2) ops).
Proof.
  intros HC Hops. rewrite !run_world_fin.
  unfold ops_ok in Hops. rewrite pos_run_level in Hops.
  rewrite (init_world_0 (with_level C 0) eq_refl) in *.
  rewrite (init_world_2 (with_level C 2) eq_refl (cap0 C HC)).
  apply (runs_refine C HC (fun _ => True)).
  - intros wd0 wd2 op HR _. apply step_refines; assumption.
  - exact (init_rel C HC).
  - apply Forall_forall. intros; exact I.
  - exact Hops.
Qed.

(* THE HISTORY-LEVEL REFINEMENT: every configuration, every operation list *)
Theorem world_refines C ops : cfg_ok C -> ops_ok C ops = true ->
  agree (run_world (with_level C 0) ops) (run_world (with_level C 2) ops).
Proof. intros HC Hops. apply runs_from_init; [exact HC | right; exact Hops]. Qed.

(* a strict buffered reader never leaves its stream (RInv): no hypothesis on the operations at all *)
Theorem world_refines_strict_buffered C ops : cfg_ok C -> c_rW C <> 0 -> c_rstrict C = true ->
  agree (run_world (with_level C 0) ops) (run_world (with_level C 2) ops).
Proof. intros HC HW Hst. apply runs_from_init; [exact HC | left; split; assumption]. Qed.

(* ================================================================== the comparison written with patterns *)
(* the same comparison, written with patterns on the status numbers *)
Fixpoint agree_pat (l0 l2 : list (list N)) : Prop :=
  match l0, l2 with
  | [], [] => True
  | g0 :: r0, g2 :: r2 =>
      match g0 with
      | 2 :: _ | 3 :: _ => True                  (* level 0 left the contract: nothing more is claimed *)
      | 98 :: 2 :: _ => agree_pat r0 r2          (* the closing flush failed at level 0 (bounded sink) *)
      | _ => g0 = g2 /\ agree_pat r0 r2
      end
  | _, _ => False
  end.

Lemma head_match (X Y Z : Prop) (g : list N) :
  match g with 2 :: _ | 3 :: _ => X | 98 :: 2 :: _ => Y | _ => Z end =
  if out_of_contract g then X else if final_flush_failed g then Y else Z.
Proof.
  destruct g as [| a t]; [reflexivity |]. unfold out_of_contract.
  destruct (N.eqb_spec a 2) as [-> | N2]; [reflexivity |].
  destruct (N.eqb_spec a 3) as [-> | N3]; [reflexivity |]. cbn [orb].
  destruct (N.eqb_spec a 98) as [-> | N98].
  - destruct t as [| b t']; [reflexivity |]. unfold final_flush_failed. change (98 =? 98) with true. cbn [andb].
    destruct (N.eqb_spec b 2) as [-> | Nb]; [reflexivity |].
    destruct b as [| [q | [q | q |] |]]; try reflexivity. contradiction.
  - assert (Hf : final_flush_failed (a :: t) = false).
    { unfold final_flush_failed. destruct t as [| b t']; [reflexivity |].
      destruct (N.eqb_spec a 98); [contradiction | reflexivity]. }
    rewrite Hf. destruct a as [| q]; [reflexivity |].
    do 7 (try (destruct q as [q | q |])); try reflexivity; exfalso; lia.
Qed.

Lemma agree_pat_iff : forall l0 l2, agree l0 l2 <-> agree_pat l0 l2.
Proof.
  induction l0 as [| g0 r0 IH]; intros [| g2 r2]; cbn [agree agree_pat]; try tauto.
  rewrite head_match. specialize (IH r2).
  destruct (out_of_contract g0); [tauto |]. destruct (final_flush_failed g0); tauto.
Qed.

Theorem world_refines_pat C ops : cfg_ok C -> ops_ok C ops = true ->
  agree_pat (run_world (with_level C 0) ops) (run_world (with_level C 2) ops).
Proof. intros HC Hops. apply agree_pat_iff. apply world_refines; assumption. Qed.

(* ================================================================== examples *)
(* LE, 16-bit writer words, strict 32-bit buffered reader, `checks` build, specialised copies:
   writes (bits, unary, a gamma code, io::Write), flush, reads, a peek + skip_after_peek, a gamma code read,
   positions, clone / swap, copy_to, copy_from, seek, io::Read, counters, and a read beyond the end (Err) *)
Definition ex_cfg : wcfg :=
  {| c_E := LE; c_level := 0; c_checks := true; c_nocopy := false; c_wW := 16; c_wcap := 0; c_rW := 32;
     c_rstrict := true; c_wcount := true; c_rcount := true; c_data := [200; 7; 129; 255; 0; 3; 77; 12; 90; 1] |}.
Definition ex_ops : list (list N) :=
  [[1; 5; 3]; [2; 4]; [4; 1; 0; 4; 77]; [5; 1; 2; 3]; [3]; [10; 7]; [11]; [13; 9]; [14; 4]; [15; 1; 0; 4];
   [17]; [19]; [30; 21]; [20]; [31; 13]; [18; 8]; [16; 2]; [12; 3]; [32]; [33]; [10; 64]; [10; 64]].

Example ex_cfg_ok : cfg_ok ex_cfg.
Proof.
  unfold cfg_ok, ex_cfg. cbn [c_wW c_wcap c_rW c_data].
  split; [split; [lia | reflexivity] |]. split; [reflexivity |].
  split; [right; split; [split; [lia | reflexivity] | lia] |].
  split; [repeat constructor | vm_compute; reflexivity].
Qed.
Example ex_ops_ok : ops_ok ex_cfg ex_ops = true.
Proof. vm_compute. reflexivity. Qed.

(* both levels evaluated: the same groups, ending with Err for the read beyond the end of the strict source *)
Example ex_runs :
  run_world (with_level ex_cfg 0) ex_ops =
    [[0; 3; 0]; [0; 5; 0]; [0; 13; 2]; [0; 3; 4]; [0; 13; 6]; [0; 72]; [0; 0]; [0; 263]; [0]; [0; 15]; [0; 21]; [0];
     [0; 8]; [0]; [0; 10]; [0]; [0; 7; 129]; [0]; [0; 79]; [0; 53]; [0; 47560481857567]; [1]] /\
  run_world (with_level ex_cfg 2) ex_ops = run_world (with_level ex_cfg 0) ex_ops.
Proof. split; vm_compute; reflexivity. Qed.

Example ex_agree_computed : agree (run_world (with_level ex_cfg 0) ex_ops) (run_world (with_level ex_cfg 2) ex_ops).
Proof. destruct ex_runs as [_ ->]. apply agree_refl. Qed.
Example ex_agree_by_theorem : agree (run_world (with_level ex_cfg 0) ex_ops) (run_world (with_level ex_cfg 2) ex_ops).
Proof. exact (world_refines ex_cfg ex_ops ex_cfg_ok ex_ops_ok). Qed.

(* BE, 64-bit writer words, the unbuffered reader over a zero-extended source, generic copies; the run
   reaches the closing groups 98 / 99 *)
Definition ex_cfg_u : wcfg :=
  {| c_E := BE; c_level := 0; c_checks := false; c_nocopy := true; c_wW := 64; c_wcap := 0; c_rW := 0;
     c_rstrict := false; c_wcount := false; c_rcount := true; c_data := [165; 60; 255; 1; 2; 3; 4; 5; 6] |}.
Definition ex_ops_u : list (list N) :=
  [[10; 3]; [13; 12]; [14; 5]; [15; 2; 0; 0]; [4; 6; 3; 0; 1000]; [30; 40]; [31; 70]; [12; 100]; [10; 9];
   [18; 17]; [15; 6; 3; 0]; [16; 3]; [17]; [1; 0; 64]; [33]].
Example ex_cfg_u_ok : cfg_ok ex_cfg_u.
Proof.
  unfold cfg_ok, ex_cfg_u. cbn [c_wW c_wcap c_rW c_data].
  split; [split; [lia | reflexivity] |]. split; [reflexivity |]. split; [left; reflexivity |].
  split; [repeat constructor | vm_compute; reflexivity].
Qed.
Example ex_ops_u_ok : ops_ok ex_cfg_u ex_ops_u = true.
Proof. vm_compute. reflexivity. Qed.
Example ex_runs_u :
  run_world (with_level ex_cfg_u 2) ex_ops_u = run_world (with_level ex_cfg_u 0) ex_ops_u /\
  length (run_world (with_level ex_cfg_u 0) ex_ops_u) = 17%nat.
Proof. split; vm_compute; reflexivity. Qed.
Example ex_agree_u : agree (run_world (with_level ex_cfg_u 0) ex_ops_u) (run_world (with_level ex_cfg_u 2) ex_ops_u).
Proof. exact (world_refines ex_cfg_u ex_ops_u ex_cfg_u_ok ex_ops_u_ok). Qed.

(* why ops_ok is needed (hypothesis forced by the proofs): a zero-extended source can be sought / read
   anywhere; level 0 counts in N, the machines in u64 with checked arithmetic.
   (a) 16-bit buffered reader: seek to 2^64 then bit_pos: Ok 2^64 at level 0, Fail (mul64) at level 2;
   (b) unbuffered reader: seek to 2^64 - 1 then read one bit: Ok 0 at level 0, Fail (add64) at level 2. *)
Definition ex_cfg_far (rW : N) : wcfg :=
  {| c_E := BE; c_level := 0; c_checks := false; c_nocopy := false; c_wW := 8; c_wcap := 0; c_rW := rW;
     c_rstrict := false; c_wcount := false; c_rcount := false; c_data := [1; 2] |}.
Example ex_far_buffered :
  run_world (with_level (ex_cfg_far 16) 0) [[18; 18446744073709551616]; [17]]
    = [[0]; [0; 18446744073709551616]; [98; 0]; [99]] /\
  run_world (with_level (ex_cfg_far 16) 2) [[18; 18446744073709551616]; [17]] = [[0]; [2]].
Proof. split; lazy; reflexivity. Qed.
Example ex_far_unbuffered :
  run_world (with_level (ex_cfg_far 0) 0) [[18; 18446744073709551615]; [10; 1]] = [[0]; [0; 0]; [98; 0]; [99]] /\
  run_world (with_level (ex_cfg_far 0) 2) [[18; 18446744073709551615]; [10; 1]] = [[0]; [2]].
Proof. split; lazy; reflexivity. Qed.
Example ex_far_not_agree :
  ~ agree (run_world (with_level (ex_cfg_far 16) 0) [[18; 18446744073709551616]; [17]])
          (run_world (with_level (ex_cfg_far 16) 2) [[18; 18446744073709551616]; [17]]).
Proof.
  destruct ex_far_buffered as [-> ->]. cbn [agree]. change (out_of_contract [0]) with false.
  change (final_flush_failed [0]) with false. cbv iota. intros [_ H]. revert H.
  change (out_of_contract [0; 18446744073709551616]) with false.
  change (final_flush_failed [0; 18446744073709551616]) with false. cbv iota. intros [H _]. discriminate H.
Qed.
