(* WrappersProofs.v — utils/count.rs: the counting wrappers are transparent (for ANY wrapped
   reader / writer, L0 or machine) and, on the L0 streams, the counters equal exactly the
   number of bits appended / the position advance, for every program (every code, every table
   option: programs built from read_bits, read_unary, peek_bits, skip_bits_after_peek;
   write_bits, write_unary). *)
From DSI Require Import Base Prog Codes World BitFacts CodesProofs Run CodesSummary.
From Coq Require Import ZifyBool ZifyNat ZifyN.
Arguments N.add : simpl never. Arguments N.sub : simpl never. Arguments N.of_nat : simpl never.
Arguments N.to_nat : simpl never. Arguments N.leb : simpl never. Arguments N.ltb : simpl never.
Arguments N.eqb : simpl never.

Section Transparent.
  Context {S : Type}.

  (* the wrapped writer sees exactly the calls it would see without the wrapper *)
  Lemma count_w_transparent (Q : wprims S) {A} (p : wprog A) s c :
    match wrun Q p s with
    | Ok (a, s') => exists c', wrun (count_wprims Q) p (s, c) = Ok (a, (s', c'))
    | Err => wrun (count_wprims Q) p (s, c) = Err
    | Fail => wrun (count_wprims Q) p (s, c) = Fail
    | Fuel => wrun (count_wprims Q) p (s, c) = Fuel
    end.
  Proof.
    revert s c; induction p as [a | v n k IH | x k IH | ]; intros s c; cbn [wrun].
    - exists c. reflexivity.
    - cbn [count_wprims q_bits]. destruct (q_bits Q v n s) as [[r s'] | | | ]; cbn [omap]; try reflexivity. apply IH.
    - cbn [count_wprims q_unary]. destruct (q_unary Q x s) as [[r s'] | | | ]; cbn [omap]; try reflexivity. apply IH.
    - reflexivity.
  Qed.

  Lemma count_r_transparent (P : rprims S) {A} (p : rprog A) s c :
    match rrun P p s with
    | Ok (a, s') => exists c', rrun (count_rprims P) p (s, c) = Ok (a, (s', c'))
    | Err => rrun (count_rprims P) p (s, c) = Err
    | Fail => rrun (count_rprims P) p (s, c) = Fail
    | Fuel => rrun (count_rprims P) p (s, c) = Fuel
    end.
  Proof.
    revert s c; induction p as [a | n k IH | k IH | n k IH | n k IH | n k IH | ]; intros s c; cbn [rrun].
    - exists c. reflexivity.
    - cbn [count_rprims p_bits]. destruct (p_bits P n s) as [[r s'] | | | ]; cbn [omap]; try reflexivity. apply IH.
    - cbn [count_rprims p_unary]. destruct (p_unary P s) as [[r s'] | | | ]; cbn [omap]; try reflexivity. apply IH.
    - cbn [count_rprims p_peek]. destruct (p_peek P n s) as [[r s'] | | | ]; cbn [omap]; try reflexivity; apply IH.
    - cbn [count_rprims p_peek]. destruct (p_peek P n s) as [[r s'] | | | ]; cbn [omap]; try reflexivity. apply IH.
    - cbn [count_rprims p_skipap]. destruct (p_skipap P n s) as [s' | | | ]; cbn [omap]; try reflexivity. apply IH.
    - reflexivity.
  Qed.
End Transparent.

(* ------------------------------------------------------------------ exact counts on the L0 streams *)
Lemma sw_bits_grows E checks v n b r b' : sw_bits E checks v n b = Ok (r, b') -> LEN b' = LEN b + r.
Proof.
  unfold sw_bits. destruct (64 <? n); [discriminate|]. destruct (checks && _); [discriminate|].
  intros H. injection H as <- <-. unfold LEN. rewrite app_length, field_length. lia.
Qed.
Lemma sw_unary_grows x b r b' : sw_unary x b = Ok (r, b') -> LEN b' = LEN b + r.
Proof.
  unfold sw_unary. destruct (x =? U64MAX); [discriminate|]. intros H. injection H as <- <-.
  unfold LEN. rewrite app_length, unary_length. lia.
Qed.

Theorem count_w_exact E checks {A} (p : wprog A) b c a b' c' :
  wrun (count_wprims (swprims E checks)) p (b, c) = Ok (a, (b', c')) -> c' + LEN b = c + LEN b'.
Proof.
  revert b c; induction p as [x | v n k IH | x k IH | ]; intros b c H; cbn [wrun] in H.
  - injection H as _ <- <-. lia.
  - cbn [count_wprims q_bits swprims] in H. destruct (sw_bits E checks v n b) as [[r b1] | | | ] eqn:Hb; cbn [omap] in H; try discriminate.
    apply IH in H. pose proof (sw_bits_grows _ _ _ _ _ _ _ Hb). lia.
  - cbn [count_wprims q_unary swprims] in H. destruct (sw_unary x b) as [[r b1] | | | ] eqn:Hb; cbn [omap] in H; try discriminate.
    apply IH in H. pose proof (sw_unary_grows _ _ _ _ Hb). lia.
  - discriminate.
Qed.

Lemma s_take_pos strict n s bs s' : s_take strict n s = Ok (bs, s') -> sr_pos s' = sr_pos s + n.
Proof.
  unfold s_take. destruct (n <=? N.of_nat (length (sr_rest s))); [intros H; injection H as _ <-; reflexivity|].
  destruct strict; [discriminate|]. intros H; injection H as _ <-; reflexivity.
Qed.

Theorem count_r_exact E strict cap {A} (p : rprog A) r c a r' c' :
  rrun (count_rprims (sprims E strict cap)) p (r, c) = Ok (a, (r', c')) -> c' + sr_pos r = c + sr_pos r'.
Proof.
  revert r c; induction p as [x | n k IH | k IH | n k IH | n k IH | n k IH | ]; intros r c H; cbn [rrun] in H.
  - injection H as _ <- <-. lia.
  - cbn [count_rprims p_bits sprims] in H. unfold s_bits in H. destruct (64 <? n); [discriminate|].
    destruct (s_take strict n r) as [[bs r1] | | | ] eqn:Ht; cbn [omap] in H; try discriminate.
    apply IH in H. pose proof (s_take_pos _ _ _ _ _ Ht). lia.
  - cbn [count_rprims p_unary sprims] in H. unfold s_unary in H.
    destruct (count_zeros (sr_rest r)) as [z|]; [|destruct strict; discriminate]. cbn [omap] in H.
    apply IH in H. cbn [sr_pos] in H. lia.
  - cbn [count_rprims p_peek sprims] in H. unfold s_peek in H.
    destruct ((n =? 0) || (cap <? n)); [discriminate|].
    destruct (s_take strict n r) as [[bs r1] | | | ] eqn:Ht; cbn [omap] in H; try discriminate.
    + apply IH in H. cbn [sr_pos] in H. exact H.
    + apply IH in H. exact H.
  - cbn [count_rprims p_peek sprims] in H. unfold s_peek in H.
    destruct ((n =? 0) || (cap <? n)); [discriminate|].
    destruct (s_take strict n r) as [[bs r1] | | | ] eqn:Ht; cbn [omap] in H; try discriminate.
    apply IH in H. cbn [sr_pos] in H. exact H.
  - cbn [count_rprims p_skipap sprims] in H. unfold s_skipap in H.
    destruct (sr_peeked r <? n); [discriminate|].
    destruct (s_take strict n r) as [[bs r1] | | | ] eqn:Ht; cbn [omap] in H; try discriminate.
    apply IH in H. cbn [sr_pos] in H. pose proof (s_take_pos _ _ _ _ _ Ht). lia.
  - discriminate.
Qed.

(* the methods CountBitReader forwards to the wrapped reader (read_gamma, read_delta, read_zeta,
   read_zeta3) add the LENGTH FUNCTION of the value read: exact because len = bits consumed (C06) *)
Theorem forwarded_exact E D id p v strict cap post pos pk :
  valid id p v -> maxcap <= cap ->
  exists pk' l,
    rrun (sprims E strict cap) (sel_read E D id p 4) (mkr (code_cw E id p v ++ post) pos pk) = Ok (v, mkr post (pos + l) pk') /\
    sel_len D id p 4 v = Some l.
Proof.
  intros Hv Hc. destruct (codes_correct E D false id p 4 v Hv) as (_ & Hr & Hl).
  destruct (Hr strict cap post pos pk Hc) as [pk' H]. exists pk', (LEN (code_cw E id p v)). split; assumption.
Qed.
