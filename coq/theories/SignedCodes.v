(* Signed values through an instantaneous code: the zig-zag map of C17 (width 64) composed with the
   round trip of C03.  A signed y in the i64 range is written as to_nat 64 y by any code, at any
   position, in any configuration; reading it back and applying to_int 64 gives y again.
   Nothing new is modelled here: this is a corollary of CodesTheorems.roundtrip and
   ZigZagProofs.inverse_l/to_nat_range. *)
From Coq Require Import List NArith ZArith Lia.
From DSI Require Import Base Prog Codes BitFacts CodesProofs Run CodesSummary CodesTheorems Small ZigZagProofs CodeDefs VByteProofs LenProofs.
Open Scope N_scope.

Definition nat_of_signed (y : Z) : N := Z.to_N (to_nat 64 y).
Definition signed_of_nat (x : N) : Z := to_int 64 (Z.of_N x).

Lemma signed_nat_inverse y : (- 2 ^ 63 <= y < 2 ^ 63)%Z -> signed_of_nat (nat_of_signed y) = y.
Proof.
  intros Hy. unfold signed_of_nat, nat_of_signed.
  assert (Hr : (0 <= to_nat 64 y < 2 ^ 64)%Z) by (apply ZigZagProofs.to_nat_range; lia).
  rewrite Z2N.id by lia. apply ZigZagProofs.inverse_l; lia.
Qed.

Lemma nat_of_signed_lt y : (- 2 ^ 63 <= y < 2 ^ 63)%Z -> nat_of_signed y < 2 ^ 64.
Proof.
  intros Hy. unfold nat_of_signed.
  assert (Hr : (0 <= to_nat 64 y < 2 ^ 64)%Z) by (apply ZigZagProofs.to_nat_range; lia).
  change (2 ^ 64) with (Z.to_N (2 ^ 64)%Z). apply Z2N.inj_lt; lia.
Qed.

Lemma nat_of_signed_inj y1 y2 : (- 2 ^ 63 <= y1 < 2 ^ 63)%Z -> (- 2 ^ 63 <= y2 < 2 ^ 63)%Z ->
  nat_of_signed y1 = nat_of_signed y2 -> y1 = y2.
Proof.
  intros H1 H2 He. rewrite <- (signed_nat_inverse y1 H1), <- (signed_nat_inverse y2 H2), He. reflexivity.
Qed.

Theorem signed_roundtrip :
  forall E Dw Dr checks id p flw flr y pre post strict cap pk,
  (- 2 ^ 63 <= y < 2 ^ 63)%Z -> valid id p (nat_of_signed y) -> maxcap <= cap ->
  exists cw pk' x,
    wrun (swprims E checks) (sel_write E Dw checks id p flw (nat_of_signed y)) pre = Ok (LEN cw, pre ++ cw) /\
    rrun (sprims E strict cap) (sel_read E Dr id p flr) (mkr (cw ++ post) (LEN pre) pk)
      = Ok (x, mkr post (LEN pre + LEN cw) pk') /\
    signed_of_nat x = y.
Proof.
  intros E Dw Dr checks id p flw flr y pre post strict cap pk Hy Hv Hc.
  destruct (CodesTheorems.roundtrip E Dw Dr checks id p flw flr (nat_of_signed y) pre post strict cap pk Hv Hc)
    as (cw & pk' & Hw & Hr & _).
  exists cw, pk', (nat_of_signed y). split; [exact Hw|]. split; [exact Hr|]. apply signed_nat_inverse; exact Hy.
Qed.

(* distinct signed values never share a codeword, nor is one's codeword a prefix of the other's *)
Theorem signed_prefix_free :
  forall E id p y1 y2 post1 post2,
  (- 2 ^ 63 <= y1 < 2 ^ 63)%Z -> (- 2 ^ 63 <= y2 < 2 ^ 63)%Z ->
  valid id p (nat_of_signed y1) -> valid id p (nat_of_signed y2) ->
  code_cw E id p (nat_of_signed y1) ++ post1 = code_cw E id p (nat_of_signed y2) ++ post2 ->
  y1 = y2 /\ post1 = post2.
Proof.
  intros E id p y1 y2 post1 post2 H1 H2 V1 V2 He.
  destruct (CodesTheorems.prefix_free E id p _ _ post1 post2 V1 V2 He) as [Hn Hp].
  split; [apply nat_of_signed_inj; assumption | exact Hp].
Qed.

(* non-vacuity: the extreme values of i64 except i64::MIN are in the domain of gamma (id 1);
   i64::MIN maps to 2^64-1, which only VByte (id 4) accepts *)
Example signed_domain :
  nat_of_signed (2 ^ 63 - 1) = 18446744073709551614 /\ nat_of_signed (- 2 ^ 63) = 18446744073709551615 /\
  nat_of_signed (-1) = 1 /\ nat_of_signed 0 = 0 /\ nat_of_signed 1 = 2.
Proof. vm_compute. repeat split. Qed.

(* byte-level VByte carries EVERY i64, i64::MIN included (no domain guard at all) *)
Theorem signed_vbyte_bytes_roundtrip : forall y rest, (- 2 ^ 63 <= y < 2 ^ 63)%Z ->
  (exists bs, vbyte_be_encode (nat_of_signed y) = Some bs /\
     exists x, vbyte_read_be (bs ++ rest) = Ok (x, rest) /\ signed_of_nat x = y) /\
  (exists bs, vbyte_le_encode (nat_of_signed y) = Some bs /\
     exists x, vbyte_read_le (bs ++ rest) = Ok (x, rest) /\ signed_of_nat x = y).
Proof.
  intros y rest Hy. pose proof (nat_of_signed_lt y Hy) as Hlt. change (2 ^ 64) with W64 in Hlt.
  destruct (VByteProofs.roundtrip_be _ rest Hlt) as (b1 & E1 & R1).
  destruct (VByteProofs.roundtrip_le _ rest Hlt) as (b2 & E2 & R2).
  split.
  - exists b1. split; [exact E1|]. exists (nat_of_signed y). split; [exact R1 | apply signed_nat_inverse; exact Hy].
  - exists b2. split; [exact E2|]. exists (nat_of_signed y). split; [exact R2 | apply signed_nat_inverse; exact Hy].
Qed.

(* the map is monotone in |y|: a signed value of smaller magnitude never gets a longer codeword (C17 with C20) *)
Lemma nat_of_signed_abs_le y1 y2 : (- 2 ^ 63 <= y1 < 2 ^ 63)%Z -> (- 2 ^ 63 <= y2 < 2 ^ 63)%Z ->
  (Z.abs y1 < Z.abs y2)%Z -> nat_of_signed y1 <= nat_of_signed y2.
Proof.
  intros H1 H2 Ha. unfold nat_of_signed.
  rewrite (ZigZagProofs.to_nat_formula 64 y1), (ZigZagProofs.to_nat_formula 64 y2) by lia.
  apply Z2N.inj_le; destruct (Z.leb_spec 0 y1), (Z.leb_spec 0 y2); lia.
Qed.

Theorem signed_len_monotone : forall E id p y1 y2,
  (- 2 ^ 63 <= y1 < 2 ^ 63)%Z -> (- 2 ^ 63 <= y2 < 2 ^ 63)%Z -> (Z.abs y1 < Z.abs y2)%Z ->
  valid id p (nat_of_signed y1) -> valid id p (nat_of_signed y2) ->
  LEN (code_cw E id p (nat_of_signed y1)) <= LEN (code_cw E id p (nat_of_signed y2)).
Proof.
  intros E id p y1 y2 H1 H2 Ha V1 V2.
  apply LenProofs.code_len_monotone; [exact V1 | exact V2 | apply nat_of_signed_abs_le; assumption].
Qed.

(* C06 for signed values: the length functions on the mapped value give exactly the bits written and consumed *)
Theorem signed_len_exact :
  forall E Dw Dr checks id p flw flr y pre post strict cap pk,
  (- 2 ^ 63 <= y < 2 ^ 63)%Z -> valid id p (nat_of_signed y) -> maxcap <= cap ->
  exists cw pk' x l,
    wrun (swprims E checks) (sel_write E Dw checks id p flw (nat_of_signed y)) pre = Ok (l, pre ++ cw) /\
    rrun (sprims E strict cap) (sel_read E Dr id p flr) (mkr (cw ++ post) (LEN pre) pk)
      = Ok (x, mkr post (LEN pre + l) pk') /\
    l = LEN cw /\ sel_len Dw id p flw (nat_of_signed y) = Some l /\ sel_len Dr id p flr (nat_of_signed y) = Some l.
Proof.
  intros E Dw Dr checks id p flw flr y pre post strict cap pk Hy Hv Hc.
  destruct (CodesTheorems.roundtrip E Dw Dr checks id p flw flr (nat_of_signed y) pre post strict cap pk Hv Hc)
    as (cw & pk' & Hw & Hr & L1 & L2).
  exists cw, pk', (nat_of_signed y), (LEN cw). repeat split; assumption.
Qed.
