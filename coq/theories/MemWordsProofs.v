(* MemWordsProofs.v — property C13: the in-memory word streams of Small.v
   (mw_step, kinds 0..3) refine an abstract "infinite array + length + cursor" machine. *)
From Coq Require Import ZifyBool ZifyNat ZifyN.
From DSI Require Import Small Run.
Ltac Zify.zify_post_hook ::= Z.div_mod_to_equations.

Arguments N.add : simpl never.
Arguments N.sub : simpl never.
Arguments N.mul : simpl never.
Arguments N.div : simpl never.
Arguments N.modulo : simpl never.
Arguments N.pow : simpl never.
Arguments N.eqb : simpl never.
Arguments N.ltb : simpl never.
Arguments N.leb : simpl never.
Arguments N.min : simpl never.
Arguments N.max : simpl never.
Arguments N.of_nat : simpl never.
Arguments N.to_nat : simpl never.

(* ------------------------------------------------------------------ *)
(* The abstract specification. *)

Record astate := { a_arr : nat -> N; a_len : N; a_cur : N }.

Definition abs (s : memw) : astate :=
  {| a_arr := fun i => nth i (mw_data s) 0;
     a_len := N.of_nat (length (mw_data s));
     a_cur := mw_pos s |}.

Inductive sres := SOk (v : N) (a : astate) | SErr.

(* pointwise update / zero fill beyond a length *)
Definition upd (f : nat -> N) (i : nat) (w : N) : nat -> N :=
  fun j => if Nat.eqb j i then w else f j.
Definition zfill (f : nat -> N) (len : N) : nat -> N :=
  fun j => if N.of_nat j <? len then f j else 0.

Definition at_cur (a : astate) : N := a_arr a (N.to_nat (a_cur a)).
Definition move_to (a : astate) (c : N) : astate :=
  {| a_arr := a_arr a; a_len := a_len a; a_cur := c |}.

Definition spec_step (kind : N) (a : astate) (op : mwop) : sres :=
  match op with
  | MRead =>
      if a_cur a <? a_len a then SOk (at_cur a) (move_to a (a_cur a + 1))
      else if kind =? 0 then SOk 0 (move_to a (a_cur a + 1))
      else SErr
  | MWrite w =>
      if kind =? 2 then
        if a_len a <=? a_cur a then SErr
        else SOk 0 {| a_arr := upd (a_arr a) (N.to_nat (a_cur a)) w;
                      a_len := a_len a;
                      a_cur := a_cur a + 1 |}
      else
        SOk 0 {| a_arr := upd (zfill (a_arr a) (a_len a)) (N.to_nat (a_cur a)) w;
                 a_len := N.max (a_len a) (a_cur a + 1);
                 a_cur := a_cur a + 1 |}
  | MPos => SOk (a_cur a) a
  | MSetPos p =>
      if (kind =? 0) || (p <=? a_len a) then SOk 0 (move_to a p) else SErr
  | MLen => SOk (a_len a) a
  end.

(* equivalence of abstract states: same length, same cursor, same cells *)
Definition abs_eq (a b : astate) : Prop :=
  a_len a = a_len b /\ a_cur a = a_cur b /\ forall i, a_arr a i = a_arr b i.

Definition sres_eq (x y : sres) : Prop :=
  match x, y with
  | SOk v a, SOk v' a' => v = v' /\ abs_eq a a'
  | SErr, SErr => True
  | _, _ => False
  end.

(* well-formed operations for a kind *)
Definition op_wf (kind : N) (op : mwop) : Prop :=
  match op with
  | MWrite _ | MLen => kind = 2 \/ kind = 3
  | MSetPos p => p <= U64MAX
  | _ => True
  end.

(* the refinement relation between one concrete and one abstract step *)
Definition step_refines (kind : N) (s : memw) (op : mwop) : Prop :=
  match mw_step kind s op with
  | Ok (v, s') => sres_eq (spec_step kind (abs s) op) (SOk v (abs s'))
  | Err => spec_step kind (abs s) op = SErr
  | Fail => False
  | Fuel => False
  end.

(* ------------------------------------------------------------------ *)
(* abs_eq is an equivalence, spec_step respects it *)

Lemma abs_eq_refl a : abs_eq a a.
Proof. repeat split. Qed.

Lemma abs_eq_sym a b : abs_eq a b -> abs_eq b a.
Proof. intros (H1 & H2 & H3). repeat split; auto. Qed.

Lemma abs_eq_trans a b c : abs_eq a b -> abs_eq b c -> abs_eq a c.
Proof.
  intros (H1 & H2 & H3) (G1 & G2 & G3). split; [congruence|]. split; [congruence|].
  intro i. rewrite H3. apply G3.
Qed.

Lemma sres_eq_refl x : sres_eq x x.
Proof. destruct x; simpl; auto using abs_eq_refl. Qed.

Lemma sres_eq_sym x y : sres_eq x y -> sres_eq y x.
Proof. destruct x, y; simpl; auto. intros [? ?]. auto using abs_eq_sym. Qed.

Lemma sres_eq_trans x y z : sres_eq x y -> sres_eq y z -> sres_eq x z.
Proof.
  destruct x, y, z; simpl; auto; try tauto.
  intros [? ?] [? ?]. split; [congruence | eauto using abs_eq_trans].
Qed.

Lemma spec_step_compat kind a b op :
  abs_eq a b -> sres_eq (spec_step kind a op) (spec_step kind b op).
Proof.
  intros (H1 & H2 & H3).
  destruct a as [fa la ca], b as [fb lb cb]; simpl in *. subst lb cb.
  destruct op; unfold spec_step, at_cur, move_to; simpl.
  - destruct (ca <? la); [|destruct (kind =? 0)]; simpl; auto;
      repeat split; auto.
  - destruct (kind =? 2); [destruct (la <=? ca)|]; simpl; auto.
    + repeat split; auto. intro i. cbn [a_arr]. unfold upd. destruct (Nat.eqb i (N.to_nat ca)); auto.
    + repeat split; auto. intro i. cbn [a_arr]. unfold upd, zfill.
      destruct (Nat.eqb i (N.to_nat ca)); auto. destruct (N.of_nat i <? la); auto.
  - repeat split; auto.
  - destruct ((kind =? 0) || (p <=? la)); simpl; auto. repeat split; auto.
  - repeat split; auto.
Qed.

(* ------------------------------------------------------------------ *)
(* list lemmas *)

Lemma length_list_set l i w : length (list_set l i w) = length l.
Proof.
  revert i; induction l as [|x l IH]; intros [|i]; simpl; auto.
Qed.

Lemma nth_list_set l i w j d :
  (i < length l)%nat ->
  nth j (list_set l i w) d = if Nat.eqb j i then w else nth j l d.
Proof.
  revert i j; induction l as [|x l IH]; intros i j Hi; simpl in Hi; [lia|].
  destruct i as [|i], j as [|j]; simpl; auto.
  apply IH. lia.
Qed.

Lemma list_set_oob l i w : (length l <= i)%nat -> list_set l i w = l.
Proof.
  revert i; induction l as [|x l IH]; intros i Hi; simpl in *; auto.
  destruct i as [|i]; [lia|]. f_equal. apply IH. lia.
Qed.

Lemma nth_repeat0 j k : nth j (repeat 0 k) 0 = 0.
Proof.
  revert j; induction k as [|k IH]; intros [|j]; simpl; auto.
Qed.

Lemma nth_app_repeat0 (l : list N) k j : nth j (l ++ repeat 0 k) 0 = nth j l 0.
Proof.
  destruct (Nat.lt_ge_cases j (length l)) as [H|H].
  - apply app_nth1; auto.
  - rewrite app_nth2 by lia. rewrite nth_repeat0. symmetry. apply nth_overflow. lia.
Qed.

Lemma nth_error_Some_nth (l : list N) i w :
  nth_error l i = Some w -> (i < length l)%nat /\ nth i l 0 = w.
Proof.
  intro H. split.
  - apply nth_error_Some. congruence.
  - apply nth_error_nth. auto.
Qed.

(* ------------------------------------------------------------------ *)
(* C13: one step *)

Theorem refines_step : forall kind s op,
  kind <= 3 -> mw_pos s < U64MAX -> op_wf kind op ->
  match mw_step kind s op with
  | Ok (v, s') => sres_eq (spec_step kind (abs s) op) (SOk v (abs s'))
  | Err => spec_step kind (abs s) op = SErr
  | Fail => False
  | Fuel => False
  end.
Proof.
  intros kind [data pos] op Hk Hpos Hwf. simpl in Hpos.
  destruct op as [|w| |p|]; unfold mw_step, spec_step, USIZE_MAX, at_cur, move_to, abs;
    cbn [mw_data mw_pos a_arr a_len a_cur].
  - (* MRead *)
    destruct (nth_error data (N.to_nat pos)) as [w|] eqn:E.
    + apply nth_error_Some_nth in E. destruct E as [E1 E2].
      destruct (pos =? U64MAX) eqn:E3; [lia|].
      destruct (pos <? N.of_nat (length data)) eqn:E4; [|lia].
      simpl. repeat split; auto.
    + apply nth_error_None in E.
      destruct (pos <? N.of_nat (length data)) eqn:E4; [lia|].
      destruct (kind =? 0) eqn:E5; auto.
      destruct (pos =? U64MAX) eqn:E3; [lia|].
      simpl. repeat split; auto.
  - (* MWrite *)
    simpl in Hwf.
    destruct (kind =? 2) eqn:K2.
    + destruct (pos <? N.of_nat (length data)) eqn:E4;
        destruct (N.of_nat (length data) <=? pos) eqn:E5; try lia; auto.
      simpl. cbn [mw_data mw_pos]. rewrite length_list_set. repeat split; auto.
      intro i; cbn [a_arr]. rewrite nth_list_set by lia. reflexivity.
    + destruct (kind =? 3) eqn:K3; [|lia].
      destruct (N.of_nat (length data) <=? pos) eqn:E5;
        (split; [reflexivity|]); (split; [|split; [reflexivity|]]);
        cbn [a_len a_cur a_arr mw_data mw_pos].
      * rewrite length_list_set, app_length, repeat_length. lia.
      * intro i. rewrite nth_list_set by (rewrite app_length, repeat_length; lia).
        unfold upd, zfill. destruct (Nat.eqb i (N.to_nat pos)); auto.
        rewrite nth_app_repeat0.
        destruct (N.of_nat i <? N.of_nat (length data)) eqn:E6; auto.
        symmetry. apply nth_overflow. lia.
      * rewrite length_list_set. lia.
      * intro i. rewrite nth_list_set by lia.
        unfold upd, zfill. destruct (Nat.eqb i (N.to_nat pos)); auto.
        destruct (N.of_nat i <? N.of_nat (length data)) eqn:E6; auto.
        symmetry. apply nth_overflow. lia.
  - (* MPos *)
    simpl. repeat split; auto.
  - (* MSetPos *)
    simpl in Hwf.
    destruct (kind =? 0) eqn:K0; simpl.
    + repeat split; auto. cbn [a_cur]. lia.
    + destruct (N.of_nat (length data) <? p) eqn:E1;
        destruct (p <=? N.of_nat (length data)) eqn:E2; try lia; auto.
      simpl. repeat split; auto.
  - (* MLen *)
    simpl in Hwf.
    destruct ((kind =? 2) || (kind =? 3)) eqn:K; [|lia].
    simpl. repeat split; auto.
Qed.

(* the position after a successful step: moved by one, or set to the requested target *)
Lemma step_pos_bound kind s op v s' :
  mw_step kind s op = Ok (v, s') ->
  mw_pos s' = mw_pos s \/ mw_pos s' = mw_pos s + 1 \/
  (exists p, op = MSetPos p /\ mw_pos s' <= p).
Proof.
  destruct s as [data pos]. unfold mw_step, USIZE_MAX. cbn [mw_data mw_pos].
  destruct op as [|w| |p|].
  - destruct (nth_error _ _).
    + destruct (_ =? _); [discriminate|]. intro H; inversion H; subst; simpl; auto.
    + destruct (kind =? 0); [|discriminate].
      destruct (_ =? _); [discriminate|]. intro H; inversion H; subst; simpl; auto.
  - destruct (kind =? 2).
    + destruct (_ <? _); [|discriminate]. intro H; inversion H; subst; simpl; auto.
    + destruct (kind =? 3); [|discriminate]. intro H; inversion H; subst; simpl; auto.
  - intro H; inversion H; subst; simpl; auto.
  - destruct (kind =? 0).
    + intro H; inversion H; subst; simpl. right; right. exists p. split; auto. lia.
    + destruct (_ <? _); [discriminate|]. intro H; inversion H; subst; simpl.
      right; right. exists p. split; auto. lia.
  - destruct (_ || _); [|discriminate]. intro H; inversion H; subst; simpl; auto.
Qed.

(* ------------------------------------------------------------------ *)
(* C13: operation lists *)

Fixpoint mw_run (kind : N) (s : memw) (ops : list mwop) : list (outcome N) * memw :=
  match ops with
  | [] => ([], s)
  | op :: r =>
      match mw_step kind s op with
      | Ok (v, s') => let (l, t) := mw_run kind s' r in (Ok v :: l, t)
      | Err => let (l, t) := mw_run kind s r in (Err :: l, t)   (* stream left as it was *)
      | Fail => ([Fail], s)
      | Fuel => ([Fuel], s)
      end
  end.

Fixpoint spec_run (kind : N) (a : astate) (ops : list mwop) : list (outcome N) * astate :=
  match ops with
  | [] => ([], a)
  | op :: r =>
      match spec_step kind a op with
      | SOk v a' => let (l, t) := spec_run kind a' r in (Ok v :: l, t)
      | SErr => let (l, t) := spec_run kind a r in (Err :: l, t)
      end
  end.

Lemma spec_run_compat kind ops : forall a b,
  abs_eq a b ->
  fst (spec_run kind a ops) = fst (spec_run kind b ops) /\
  abs_eq (snd (spec_run kind a ops)) (snd (spec_run kind b ops)).
Proof.
  induction ops as [|op r IH]; intros a b Hab; simpl; auto.
  pose proof (spec_step_compat kind a b op Hab) as Hc.
  destruct (spec_step kind a op) as [v a'|], (spec_step kind b op) as [v' b'|];
    simpl in Hc; try tauto.
  - destruct Hc as [-> Hc]. specialize (IH a' b' Hc).
    destruct (spec_run kind a' r), (spec_run kind b' r); simpl in *.
    destruct IH as [-> ?]. auto.
  - specialize (IH a b Hab).
    destruct (spec_run kind a r), (spec_run kind b r); simpl in *.
    destruct IH as [-> ?]. auto.
Qed.

(* the run guard: neither the start position nor any set-pos target can be driven to
   usize::MAX by the at most [length ops] increments of the run *)
Definition run_guard (s : memw) (ops : list mwop) : Prop :=
  mw_pos s + N.of_nat (length ops) < U64MAX /\
  forall p, In (MSetPos p) ops -> p + N.of_nat (length ops) < U64MAX.

Definition is_ok_or_err (o : outcome N) : Prop :=
  match o with Ok _ | Err => True | _ => False end.

Theorem refines_run : forall kind ops s,
  kind <= 3 -> Forall (op_wf kind) ops -> run_guard s ops ->
  fst (mw_run kind s ops) = fst (spec_run kind (abs s) ops) /\
  abs_eq (abs (snd (mw_run kind s ops))) (snd (spec_run kind (abs s) ops)) /\
  Forall is_ok_or_err (fst (mw_run kind s ops)).
Proof.
  intros kind ops. induction ops as [|op r IH]; intros s Hk Hwf [Hg1 Hg2].
  - simpl. auto using abs_eq_refl.
  - inversion Hwf as [|? ? Hwf1 Hwf2]; subst.
    assert (Hpos : mw_pos s < U64MAX) by (simpl length in Hg1; lia).
    pose proof (refines_step kind s op Hk Hpos Hwf1) as Hst.
    simpl mw_run. simpl spec_run.
    assert (Hgr : run_guard s r).
    { split; [simpl length in Hg1; lia|].
      intros p Hp. specialize (Hg2 p (or_intror Hp)). simpl length in Hg2. lia. }
    destruct (mw_step kind s op) as [[v s']| | |] eqn:E; try tauto.
    + assert (Hgr' : run_guard s' r).
      { destruct Hgr as [Hgr1 Hgr2]. split; [|exact Hgr2].
        destruct (step_pos_bound _ _ _ _ _ E) as [H|[H|(p & -> & H)]].
        - rewrite H. exact Hgr1.
        - rewrite H. simpl length in Hg1. lia.
        - specialize (Hg2 p (or_introl eq_refl)). simpl length in Hg2. lia. }
      specialize (IH s' Hk Hwf2 Hgr').
      destruct (spec_step kind (abs s) op) as [v' a'|]; simpl in Hst; [|tauto].
      destruct Hst as [-> Hst].
      pose proof (spec_run_compat kind r _ _ Hst) as [Hc1 Hc2].
      destruct (mw_run kind s' r) as [l t], (spec_run kind a' r) as [l' t'],
               (spec_run kind (abs s') r) as [l'' t'']; simpl in *.
      destruct IH as (-> & IH2 & IH3). subst l'.
      split; [reflexivity|split].
      * eapply abs_eq_trans; [apply IH2|]. apply abs_eq_sym, Hc2.
      * constructor; simpl; auto.
    + rewrite Hst. specialize (IH s Hk Hwf2 Hgr).
      destruct (mw_run kind s r) as [l t], (spec_run kind (abs s) r) as [l' t']; simpl in *.
      destruct IH as (-> & IH2 & IH3).
      split; [reflexivity|split]; auto. constructor; simpl; auto.
Qed.

(* the differential-check driver of Run.v is this run, encoded *)
Definition enc_result (o : outcome N) : list N :=
  match o with Ok v => [0; v] | Err => [1] | Fail => [2] | Fuel => [3] end.

Definition is_stop (o : outcome N) : bool :=
  match o with Fail | Fuel => true | _ => false end.

Lemma run_memw_mw_run kind ops : forall s,
  run_memw kind s ops =
  let (l, t) := mw_run kind s (map mwop_of ops) in
  map enc_result l ++ (if existsb is_stop l then [] else [99 :: mw_data t]).
Proof.
  induction ops as [|op r IH]; intro s; simpl; auto.
  destruct (mw_step kind s (mwop_of op)) as [[v s']| | |]; simpl; auto.
  - rewrite IH. destruct (mw_run kind s' (map mwop_of r)); simpl. reflexivity.
  - rewrite IH. destruct (mw_run kind s (map mwop_of r)); simpl. reflexivity.
Qed.

(* ------------------------------------------------------------------ *)
(* C13: frame property of writes (stated on the concrete streams; cells are read with
   default 0, i.e. through [abs]) *)

Theorem write_frame : forall kind s w v s',
  mw_step kind s (MWrite w) = Ok (v, s') ->
  let c := N.to_nat (mw_pos s) in
  let len := N.of_nat (length (mw_data s)) in
  v = 0 /\
  mw_pos s' = mw_pos s + 1 /\
  a_len (abs s') = (if kind =? 3 then N.max len (mw_pos s + 1) else len) /\
  a_arr (abs s') c = w /\
  forall i, i <> c ->
    a_arr (abs s') i = if N.of_nat i <? len then a_arr (abs s) i else 0.
Proof.
  intros kind [data pos] w v s'. unfold mw_step, abs. cbn [mw_data mw_pos a_arr a_len].
  destruct (kind =? 2) eqn:K2.
  - destruct (pos <? N.of_nat (length data)) eqn:E; [|discriminate].
    intro H; inversion H; subst; clear H. cbn [mw_data mw_pos].
    rewrite length_list_set.
    assert (K3 : (kind =? 3) = false) by lia. rewrite K3.
    repeat split; auto.
    + rewrite nth_list_set by lia. rewrite Nat.eqb_refl. auto.
    + intros i Hi. rewrite nth_list_set by lia.
      destruct (Nat.eqb i (N.to_nat pos)) eqn:E2; [apply Nat.eqb_eq in E2; lia|].
      destruct (N.of_nat i <? N.of_nat (length data)) eqn:E3; auto.
      apply nth_overflow. lia.
  - destruct (kind =? 3) eqn:K3; [|discriminate].
    intro H; inversion H; subst; clear H. cbn [mw_data mw_pos].
    rewrite length_list_set.
    destruct (N.of_nat (length data) <=? pos) eqn:E.
    + rewrite app_length, repeat_length. repeat split; auto; [lia| |].
      * rewrite nth_list_set by (rewrite app_length, repeat_length; lia).
        rewrite Nat.eqb_refl. auto.
      * intros i Hi. rewrite nth_list_set by (rewrite app_length, repeat_length; lia).
        destruct (Nat.eqb i (N.to_nat pos)) eqn:E2; [apply Nat.eqb_eq in E2; lia|].
        rewrite nth_app_repeat0.
        destruct (N.of_nat i <? N.of_nat (length data)) eqn:E3; auto.
        apply nth_overflow. lia.
    + repeat split; auto; [lia| |].
      * rewrite nth_list_set by lia. rewrite Nat.eqb_refl. auto.
      * intros i Hi. rewrite nth_list_set by lia.
        destruct (Nat.eqb i (N.to_nat pos)) eqn:E2; [apply Nat.eqb_eq in E2; lia|].
        destruct (N.of_nat i <? N.of_nat (length data)) eqn:E3; auto.
        apply nth_overflow. lia.
Qed.

(* since cells beyond the length read as 0, the frame property is simply: *)
Corollary write_frame_cells : forall kind s w v s' i,
  mw_step kind s (MWrite w) = Ok (v, s') ->
  i <> N.to_nat (mw_pos s) ->
  nth i (mw_data s') 0 = nth i (mw_data s) 0.
Proof.
  intros kind s w v s' i H Hi.
  destruct (write_frame _ _ _ _ _ H) as (_ & _ & _ & _ & Hf).
  specialize (Hf i Hi). unfold abs in Hf. cbn [a_arr] in Hf. rewrite Hf.
  destruct (N.of_nat i <? N.of_nat (length (mw_data s))) eqn:E; auto.
  symmetry. apply nth_overflow. lia.
Qed.

(* ------------------------------------------------------------------ *)
(* C13: errors *)

(* exactly when does a step report Err *)
Lemma step_err_iff kind s op :
  mw_step kind s op = Err <->
  match op with
  | MRead => kind <> 0 /\ N.of_nat (length (mw_data s)) <= mw_pos s
  | MWrite _ => kind = 2 /\ N.of_nat (length (mw_data s)) <= mw_pos s
  | MSetPos p => kind <> 0 /\ N.of_nat (length (mw_data s)) < p
  | _ => False
  end.
Proof.
  destruct s as [data pos]. unfold mw_step, USIZE_MAX. cbn [mw_data mw_pos].
  destruct op as [|w| |p|].
  - destruct (nth_error data (N.to_nat pos)) eqn:E.
    + apply nth_error_Some_nth in E. destruct E as [E _].
      destruct (pos =? U64MAX); split; try discriminate; lia.
    + apply nth_error_None in E.
      destruct (kind =? 0) eqn:K; [destruct (pos =? U64MAX)|];
        split; try discriminate; try lia.
      auto.
  - destruct (kind =? 2) eqn:K2;
      [destruct (pos <? N.of_nat (length data)) eqn:E|destruct (kind =? 3)];
      split; try discriminate; try lia. auto.
  - split; [discriminate|tauto].
  - destruct (kind =? 0) eqn:K; [|destruct (N.of_nat (length data) <? p) eqn:E];
      split; try discriminate; try lia.
    auto.
  - destruct ((kind =? 2) || (kind =? 3)); split; try discriminate; tauto.
Qed.

Theorem error_keeps_state : forall kind s op,
  mw_step kind s op = Err ->
  spec_step kind (abs s) op = SErr /\
  mw_run kind s [op] = ([Err], s) /\
  spec_run kind (abs s) [op] = ([Err], abs s) /\
  (forall ops, mw_run kind s (op :: ops) =
               (Err :: fst (mw_run kind s ops), snd (mw_run kind s ops))).
Proof.
  intros kind s op H.
  assert (Hs : spec_step kind (abs s) op = SErr).
  { apply step_err_iff in H. unfold spec_step, abs. cbn [a_arr a_len a_cur].
    destruct op as [|w| |p|]; try tauto.
    - destruct H as [H1 H2].
      destruct (_ <? _) eqn:E; [lia|]. destruct (kind =? 0) eqn:K; [lia|]. auto.
    - destruct H as [H1 H2]. subst kind. simpl.
      destruct (_ <=? _) eqn:E; [auto|lia].
    - destruct H as [H1 H2].
      destruct (kind =? 0) eqn:K; [lia|]. destruct (_ <=? _) eqn:E; [lia|]. auto. }
  split; [auto|]. simpl. rewrite H, Hs. repeat split.
  intro ops. destruct (mw_run kind s ops); auto.
Qed.

Theorem rejected_setpos : forall kind s p,
  1 <= kind <= 3 -> N.of_nat (length (mw_data s)) < p ->
  mw_step kind s (MSetPos p) = Err /\
  spec_step kind (abs s) (MSetPos p) = SErr /\
  mw_run kind s [MSetPos p; MPos] = ([Err; Ok (mw_pos s)], s).
Proof.
  intros kind s p Hk Hp.
  assert (H : mw_step kind s (MSetPos p) = Err) by (apply step_err_iff; lia).
  split; auto. split; [apply error_keeps_state; auto|].
  destruct (error_keeps_state _ _ _ H) as (_ & _ & _ & Hr).
  rewrite Hr. reflexivity.
Qed.

(* set-pos is accepted exactly up to the length (kinds 1,2,3), always for kind 0 *)
Lemma accepted_setpos kind s p :
  kind = 0 /\ p <= U64MAX \/ kind <> 0 /\ p <= N.of_nat (length (mw_data s)) ->
  mw_step kind s (MSetPos p) = Ok (0, {| mw_data := mw_data s; mw_pos := p |}).
Proof.
  unfold mw_step, USIZE_MAX. intros [[-> H]|[H1 H2]].
  - simpl. f_equal. f_equal. f_equal. lia.
  - destruct (kind =? 0) eqn:K; [lia|]. destruct (_ <? _) eqn:E; [lia|]. auto.
Qed.

(* ------------------------------------------------------------------ *)
(* C13: the length never shrinks *)

Theorem len_monotone_step : forall kind s op v s',
  mw_step kind s op = Ok (v, s') ->
  (length (mw_data s) <= length (mw_data s'))%nat /\
  (kind <> 3 -> length (mw_data s') = length (mw_data s)).
Proof.
  intros kind [data pos] op v s'. unfold mw_step, USIZE_MAX. cbn [mw_data mw_pos].
  destruct op as [|w| |p|].
  - destruct (nth_error _ _).
    + destruct (_ =? _); [discriminate|]. intro H; inversion H; subst; simpl; auto.
    + destruct (kind =? 0); [|discriminate].
      destruct (_ =? _); [discriminate|]. intro H; inversion H; subst; simpl; auto.
  - destruct (kind =? 2) eqn:K2.
    + destruct (_ <? _); [|discriminate]. intro H; inversion H; subst; simpl.
      rewrite length_list_set. auto.
    + destruct (kind =? 3) eqn:K3; [|discriminate]. intro H; inversion H; subst; simpl.
      rewrite length_list_set. split; [|lia].
      destruct (_ <=? _); [rewrite app_length|]; lia.
  - intro H; inversion H; subst; simpl; auto.
  - destruct (kind =? 0).
    + intro H; inversion H; subst; simpl; auto.
    + destruct (_ <? _); [discriminate|]. intro H; inversion H; subst; simpl; auto.
  - destruct (_ || _); [|discriminate]. intro H; inversion H; subst; simpl; auto.
Qed.

Theorem len_monotone : forall kind ops s,
  (length (mw_data s) <= length (mw_data (snd (mw_run kind s ops))))%nat /\
  (kind <> 3 -> length (mw_data (snd (mw_run kind s ops))) = length (mw_data s)).
Proof.
  intros kind ops. induction ops as [|op r IH]; intro s; simpl; auto.
  destruct (mw_step kind s op) as [[v s']| | |] eqn:E; simpl; auto.
  - destruct (len_monotone_step _ _ _ _ _ E) as [H1 H2].
    specialize (IH s'). destruct (mw_run kind s' r); simpl in *.
    destruct IH as [I1 I2]. split; [lia|]. intro K. rewrite I2, H2; auto.
  - specialize (IH s). destruct (mw_run kind s r); simpl in *. auto.
Qed.

(* ------------------------------------------------------------------ *)
(* Examples: the hypotheses are satisfiable on concrete non-trivial instances *)

Definition ex_s : memw := {| mw_data := [11; 22; 33]; mw_pos := 2 |}.
Definition ex_ops : list mwop :=
  [MRead; MRead; MWrite 7; MSetPos 9; MWrite 5; MPos; MSetPos 6; MWrite 8; MLen; MSetPos 1; MRead].

Example ex_hyps_run :
  3 <= 3 /\ Forall (op_wf 3) ex_ops /\ run_guard ex_s ex_ops.
Proof.
  split; [lia|]. split.
  - unfold ex_ops. repeat constructor; simpl; unfold U64MAX; lia.
  - split; [vm_compute; reflexivity|].
    intros p Hp. simpl in Hp.
    repeat (destruct Hp as [Hp|Hp]; [try discriminate; inversion Hp; subst; vm_compute; reflexivity|]).
    destruct Hp.
Qed.

Example ex_run_vec :
  mw_run 3 ex_s ex_ops =
  ([Ok 33; Err; Ok 0; Err; Ok 0; Ok 5; Err; Ok 0; Ok 6; Ok 0; Ok 22],
   {| mw_data := [11; 22; 33; 7; 5; 8]; mw_pos := 2 |}).
Proof. vm_compute. reflexivity. Qed.

(* a cursor beyond the length (only possible in the initial state of a vector writer):
   the gap is zero filled *)
Example ex_run_vec_gap :
  mw_run 3 {| mw_data := [1]; mw_pos := 3 |} [MWrite 9; MLen] =
  ([Ok 0; Ok 4], {| mw_data := [1; 0; 0; 9]; mw_pos := 4 |}).
Proof. vm_compute. reflexivity. Qed.

Example ex_run_slice :
  mw_run 2 ex_s [MWrite 7; MWrite 8; MSetPos 4; MPos; MRead; MLen] =
  ([Ok 0; Err; Err; Ok 3; Err; Ok 3], {| mw_data := [11; 22; 7]; mw_pos := 3 |}).
Proof. vm_compute. reflexivity. Qed.

Example ex_run_zero_ext :
  mw_run 0 ex_s [MRead; MRead; MSetPos 100; MRead; MPos] =
  ([Ok 33; Ok 0; Ok 0; Ok 0; Ok 101], {| mw_data := [11; 22; 33]; mw_pos := 101 |}).
Proof. vm_compute. reflexivity. Qed.

Example ex_step_hyps :
  2 <= 3 /\ mw_pos ex_s < U64MAX /\ op_wf 2 (MWrite 7) /\
  mw_step 2 ex_s (MWrite 7) = Ok (0, {| mw_data := [11; 22; 7]; mw_pos := 3 |}).
Proof.
  split; [lia|]. split; [vm_compute; reflexivity|]. split; [left; reflexivity|].
  vm_compute. reflexivity.
Qed.

(* the guard is needed: at usize::MAX the model reports the Rust overflow *)
Example ex_guard_needed :
  mw_step 0 {| mw_data := []; mw_pos := U64MAX |} MRead = Fail.
Proof.
  unfold mw_step. cbn [mw_data mw_pos].
  replace (nth_error [] (N.to_nat U64MAX)) with (@None N)
    by (symmetry; apply nth_error_None; simpl; lia).
  reflexivity.
Qed.
