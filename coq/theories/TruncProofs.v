(* TruncProofs.v — C09 for the codes ("strict end of stream is an error, never fabricated data"):
   decoding a TRUNCATED codeword (a proper prefix of the codeword of any value of any code, any
   parameter, any table option, any default-parameter record) on a STRICT specification stream
   reports Err — never a value, never a panic, never a hang — at any starting position, with any
   look-ahead capacity serving the tables and any `peeked` state.

   Plan:
   1. `okp m p`: p never calls peek_bits without `?` (RPeek) and every skip_bits_after_peek(n)
      follows peeks that made at least n bits available.  For such programs the run on the strict
      stream `pre` is either Err or coincides with the run on `pre ++ rest` (okp_sim).
   2. `rd` (CodesProofs) says the run on the whole codeword stops exactly at its end, hence on a
      proper prefix the only possibility left is Err (TE_okp).
   3. table look-ahead: the peek either fails (fallback) or sees t_read_bits bits inside `pre`;
      a table hit would exhibit a complete codeword inside a proper prefix of a codeword, which the
      instantaneous-code property (derived from rd of the bit-by-bit decoder) excludes (TE_table).
   4. sequential composition (delta = gamma ; bits, exp-Golomb = gamma ; bits): TE_bind. *)
From DSI Require Import Base Prog Codes CodeDefs BitFacts CodesProofs CodesProofs2 TableCheck
  CodesProofs3 CodesProofs4 CodesProofs5 GenProofs Run CodesSummary CodesTheorems.
From DSI.Gen Require Import GenTables GenParams.
From Coq Require Import ZifyBool ZifyNat ZifyN.
Ltac Zify.zify_post_hook ::= Z.div_mod_to_equations.
Arguments N.add : simpl never. Arguments N.sub : simpl never. Arguments N.mul : simpl never.
Arguments N.div : simpl never. Arguments N.modulo : simpl never. Arguments N.pow : simpl never.
Arguments N.eqb : simpl never. Arguments N.ltb : simpl never. Arguments N.leb : simpl never.
Arguments N.testbit : simpl never. Arguments N.of_nat : simpl never. Arguments N.to_nat : simpl never.
Arguments N.log2 : simpl never. Arguments N.lxor : simpl never. Arguments N.land : simpl never.
Arguments N.lor : simpl never. Arguments N.max : simpl never.
Open Scope prog_scope.

(* ------------------------------------------------------------------ *)
(* 1. programs without RPeek whose skip_bits_after_peek calls are covered by earlier peeks.
   The index m = number of bits known to be available (peeked successfully) at this point. *)
Inductive okp {A : Type} : N -> rprog A -> Prop :=
| okp_ret m a : okp m (RRet a)
| okp_fail m : okp m RFail
| okp_bits m n k : (forall v, okp 0 (k v)) -> okp m (RBits n k)
| okp_unary m k : (forall v, okp 0 (k v)) -> okp m (RUnary k)
| okp_peekq m n k : (forall v, okp (N.max m n) (k v)) -> okp m (RPeekQ n k)
| okp_skip m n k : n <= m -> okp (m - n) k -> okp m (RSkipAP n k).

Lemma okp_mono {A} m (p : rprog A) : okp m p -> forall m', m <= m' -> okp m' p.
Proof.
  induction 1 as [m a | m | m n k Hk IH | m k Hk IH | m n k Hk IH | m n k Hle Hk IH]; intros m' Hm.
  - apply okp_ret.
  - apply okp_fail.
  - apply okp_bits. exact Hk.
  - apply okp_unary. exact Hk.
  - apply okp_peekq. intros v. apply (IH v). lia.
  - apply okp_skip; [lia | apply IH; lia].
Qed.
Lemma okp_bind {A B} m (p : rprog A) (f : A -> rprog B) :
  okp m p -> (forall a, okp 0 (f a)) -> okp m (rbind p f).
Proof.
  intros H Hf.
  induction H as [m a | m | m n k Hk IH | m k Hk IH | m n k Hk IH | m n k Hle Hk IH]; cbn [rbind].
  - eapply okp_mono; [apply Hf | lia].
  - apply okp_fail.
  - apply okp_bits. exact IH.
  - apply okp_unary. exact IH.
  - apply okp_peekq. exact IH.
  - apply okp_skip; [exact Hle | exact IH].
Qed.
Lemma okp_lift {A B} m (o : option A) (f : A -> rprog B) : (forall a, okp m (f a)) -> okp m (rlift o f).
Proof. intros H. destruct o as [a|]; cbn [rlift]; [apply H | apply okp_fail]. Qed.

(* the primitives on a strict stream and on an extension of it *)
Lemma count_zeros_app pre rest z : count_zeros pre = Some z ->
  count_zeros (pre ++ rest) = Some z /\ (S (N.to_nat z) <= length pre)%nat.
Proof.
  revert z; induction pre as [|b r IH]; intros z H; cbn [count_zeros] in H; [discriminate|].
  destruct b.
  - injection H as <-. split; [reflexivity | cbn [length]; lia].
  - destruct (count_zeros r) as [k|] eqn:Hk; [|discriminate]. injection H as <-.
    destruct (IH k eq_refl) as [A B]. cbn [app count_zeros]. rewrite A.
    split; [reflexivity | cbn [length]; lia].
Qed.

Lemma s_take_trunc n pre rest pos pk :
  (s_take true n (mkr pre pos pk) = Err /\ LEN pre < n) \/
  exists bs x pos', s_take true n (mkr pre pos pk) = Ok (bs, mkr x pos' 0) /\
     s_take true n (mkr (pre ++ rest) pos pk) = Ok (bs, mkr (x ++ rest) pos' 0) /\
     n <= LEN pre /\ LEN x = LEN pre - n.
Proof.
  unfold s_take, mkr, LEN; cbn [sr_rest sr_pos].
  destruct (n <=? N.of_nat (length pre)) eqn:Hc; [right | left; split; [reflexivity | lia]].
  exists (firstn (N.to_nat n) pre), (skipn (N.to_nat n) pre), (pos + n).
  split; [reflexivity|].
  rewrite app_length. destruct (n <=? N.of_nat (length pre + length rest)) eqn:Hc2; [|lia].
  rewrite firstn_app_le by lia. rewrite skipn_app.
  replace (N.to_nat n - length pre)%nat with 0%nat by lia. cbn [skipn].
  split; [reflexivity|]. rewrite skipn_length. lia.
Qed.

(* short run versus long run *)
Definition sim {A} (rest : bits) (short long : outcome (A * sreader)) : Prop :=
  match short with
  | Ok (a, s) => long = Ok (a, mkr (sr_rest s ++ rest) (sr_pos s) (sr_peeked s))
  | Err => True
  | Fail => long = Fail
  | Fuel => long = Fuel
  end.

Lemma okp_sim E cap {A} (p : rprog A) m : okp m p -> forall pre rest pos pk, m <= LEN pre ->
  sim rest (rrun (sprims E true cap) p (mkr pre pos pk))
           (rrun (sprims E true cap) p (mkr (pre ++ rest) pos pk)).
Proof.
  induction 1 as [m a | m | m n k Hk IH | m k Hk IH | m n k Hk IH | m n k Hle Hk IH];
    intros pre rest pos pk Hm.
  - cbn [rrun]. reflexivity.
  - cbn [rrun]. reflexivity.
  - cbn [rrun sprims p_bits]. unfold s_bits. destruct (64 <? n); [reflexivity|].
    destruct (s_take_trunc n pre rest pos pk) as [[He _] | (bs & x & pos' & H1 & H2 & _ & _)].
    + rewrite He. exact I.
    + rewrite H1, H2. apply (IH (val E bs) x rest pos' 0). lia.
  - cbn [rrun sprims p_unary]. unfold s_unary.
    change (sr_rest (mkr pre pos pk)) with pre. change (sr_rest (mkr (pre ++ rest) pos pk)) with (pre ++ rest).
    destruct (count_zeros pre) as [z|] eqn:Hz; [|exact I].
    destruct (count_zeros_app pre rest z Hz) as [Hz' Hl]. rewrite Hz'.
    rewrite skipn_app. replace (S (N.to_nat z) - length pre)%nat with 0%nat by lia.
    change (skipn 0 rest) with rest.
    apply (IH z (skipn (S (N.to_nat z)) pre) rest (pos + z + 1) 0). lia.
  - cbn [rrun sprims p_peek]. unfold s_peek. destruct ((n =? 0) || (cap <? n)); [reflexivity|].
    destruct (s_take_trunc n pre rest pos pk) as [[He _] | (bs & x & pos' & H1 & H2 & Hn & _)].
    + rewrite He. exact I.
    + rewrite H1, H2. apply (IH (val E bs) pre rest pos (N.max pk n)). lia.
  - cbn [rrun sprims p_skipap]. unfold s_skipap.
    change (sr_peeked (mkr pre pos pk)) with pk. change (sr_peeked (mkr (pre ++ rest) pos pk)) with pk.
    destruct (pk <? n); [reflexivity|].
    destruct (s_take_trunc n pre rest pos pk) as [[_ He] | (bs & x & pos' & H1 & H2 & Hn & Hx)]; [lia|].
    rewrite H1, H2. apply (IH x rest pos' (pk - n)). lia.
Qed.

(* ------------------------------------------------------------------ *)
(* the bit-by-bit decoders are okp *)
Ltac okp_step :=
  match goal with
  | |- okp _ (RRet _) => apply okp_ret
  | |- okp _ RFail => apply okp_fail
  | |- okp _ (RBits _ _) => apply okp_bits; intros ?
  | |- okp _ (RUnary _) => apply okp_unary; intros ?
  | |- okp _ (rlift _ _) => apply okp_lift; intros ?
  | |- okp _ (rbind _ _) => apply okp_bind; [|intros ?]
  | |- okp _ (if ?b then _ else _) => destruct b
  | |- okp _ (match ?x with (_, _) => _ end) => destruct x
  end.

Lemma okp_unary_code m : okp m read_unary_code.
Proof. unfold read_unary_code. repeat okp_step. Qed.
Lemma okp_gamma m : okp m default_read_gamma.
Proof. unfold default_read_gamma. repeat okp_step. Qed.
Lemma okp_mb m u : okp m (read_minimal_binary u).
Proof. unfold read_minimal_binary. repeat okp_step. Qed.
Lemma okp_zeta m k : okp m (default_read_zeta k).
Proof. unfold default_read_zeta. repeat okp_step. apply okp_mb. Qed.
Lemma okp_rice m k : okp m (read_rice k).
Proof. unfold read_rice. repeat okp_step. Qed.
Lemma okp_pi m k : okp m (read_pi k).
Proof. unfold read_pi. repeat okp_step. apply okp_rice. Qed.
Lemma okp_golomb m b : okp m (read_golomb b).
Proof. unfold read_golomb. repeat okp_step. apply okp_mb. Qed.
Lemma okp_omega_loop E fuel : forall n, okp 0 (read_omega_loop E fuel n).
Proof.
  induction fuel as [|f IH]; intros n; cbn [read_omega_loop]; [apply okp_fail|].
  apply okp_peekq. intros bit. destruct (bit =? 0).
  - apply okp_skip; [lia|]. repeat okp_step.
  - apply okp_lift; intros l1. apply okp_bits; intros b.
    destruct E; [apply IH | apply okp_lift; intros s; apply IH].
Qed.
Lemma okp_omega E : okp 0 (read_omega E).
Proof. apply okp_omega_loop. Qed.
Lemma okp_vbyte_be_loop fuel : forall byte value, okp 0 (read_vbyte_be_loop fuel byte value).
Proof.
  induction fuel as [|f IH]; intros byte value; cbn [read_vbyte_be_loop]; destruct (byte / 128 =? 0);
    try apply okp_ret; [apply okp_fail|].
  apply okp_lift; intros v1. apply okp_bits; intros b. apply IH.
Qed.
Lemma okp_vbyte_be : okp 0 read_vbyte_be.
Proof. unfold read_vbyte_be. apply okp_bits; intros b. apply okp_vbyte_be_loop. Qed.
Lemma okp_vbyte_le_loop fuel : forall r s, okp 0 (read_vbyte_le_loop fuel r s).
Proof.
  induction fuel as [|f IH]; intros r s; cbn [read_vbyte_le_loop]; [apply okp_fail|].
  apply okp_bits; intros b. apply okp_lift; intros t. apply okp_lift; intros r1.
  destruct (b / 128 =? 0); [apply okp_ret|].
  apply okp_lift; intros o. apply okp_lift; intros r2. apply IH.
Qed.
Lemma okp_vbyte_le : okp 0 read_vbyte_le.
Proof. apply okp_vbyte_le_loop. Qed.

(* ------------------------------------------------------------------ *)
Section Trunc.
  Variable E : endian.
  Variable cap : N.

  (* TE p cw: run on any proper prefix of cw, the strict reader reports Err *)
  Definition TE (p : rprog N) (cw : bits) : Prop :=
    forall pre rest pos pk, rest <> [] -> cw = pre ++ rest ->
      rrun (sprims E true cap) p (mkr pre pos pk) = Err.

  (* 2. okp programs *)
  Lemma TE_okp c p cw v : okp 0 p -> rd E c p cw v -> c <= cap -> TE p cw.
  Proof.
    intros Hok Hrd Hc pre rest pos pk Hne Hcw.
    pose proof (okp_sim E cap p 0 Hok pre rest pos pk ltac:(lia)) as Hs.
    destruct (Hrd true cap [] pos pk Hc) as [pk' Hl]. rewrite app_nil_r, Hcw in Hl.
    rewrite Hl in Hs.
    destruct (rrun (sprims E true cap) p (mkr pre pos pk)) as [[a s]| | |]; cbn [sim] in Hs.
    - exfalso. injection Hs as _ Hr _ _. symmetry in Hr. apply app_eq_nil in Hr as [_ Hr]. exact (Hne Hr).
    - reflexivity.
    - discriminate.
    - discriminate.
  Qed.

  Lemma TE_bits_short n (k : N -> rprog N) cw : n <= 64 -> LEN cw <= n -> TE (RBits n k) cw.
  Proof.
    intros Hn Hl pre rest pos pk Hne Hcw. cbn [rrun sprims p_bits]. unfold s_bits.
    destruct (64 <? n) eqn:H64; [lia|].
    assert (LEN pre < n) as Hlt.
    { subst cw. rewrite LEN_app in Hl. destruct rest as [|b r]; [congruence|].
      unfold LEN in *. cbn [length] in Hl. lia. }
    unfold s_take, mkr; cbn [sr_rest]. unfold LEN in Hlt.
    destruct (n <=? N.of_nat (length pre)) eqn:Hc; [lia|]. reflexivity.
  Qed.

  (* 4. sequential composition *)
  Lemma TE_bind c p1 cw1 v1 (f : N -> rprog N) cw2 :
    rd E c p1 cw1 v1 -> c <= cap -> TE p1 cw1 -> TE (f v1) cw2 -> TE (rbind p1 f) (cw1 ++ cw2).
  Proof.
    intros Hrd Hc H1 H2 pre rest pos pk Hne Hcw. rewrite rrun_bind.
    apply app_eq_app in Hcw as [l [[Ha Hb] | [Ha Hb]]].
    - destruct l as [|b l].
      + rewrite app_nil_r in Ha. subst pre. cbn [app] in Hb. subst rest.
        destruct (Hrd true cap [] pos pk Hc) as [pk1 R1]. rewrite app_nil_r in R1. rewrite R1.
        apply (H2 [] cw2 _ _ Hne). reflexivity.
      + rewrite (H1 pre (b :: l) pos pk ltac:(discriminate) Ha). reflexivity.
    - subst pre. destruct (Hrd true cap l pos pk Hc) as [pk1 R1]. rewrite R1.
      apply (H2 l rest _ _ Hne Hb).
  Qed.

  (* 3. the table look-ahead *)
  Lemma TE_table t def slow c0 v :
    check_tbl E t def = true -> (forall w, dom w -> rd E c0 slow (def w) w) -> dom v ->
    t_read_bits t <= cap -> TE slow (def v) ->
    TE (o <- read_table E t ;; match o with Some (res, _) => RRet res | None => slow end) (def v).
  Proof.
    intros Hc Hs Hv Hcap Hslow pre rest pos pk Hne Hcw.
    destruct (check_tbl_parts E t def Hc) as (Hr & _ & _).
    destruct (check_read_sound E t def domb Hr) as (H1 & H2 & H3).
    set (RB := t_read_bits t) in *.
    rewrite rrun_bind. unfold read_table. fold RB. cbn [rrun sprims p_peek].
    rewrite s_peek_spec by lia. cbn [andb].
    destruct (N.of_nat (length pre) <? RB) eqn:Hlen.
    { cbn [rrun]. apply (Hslow pre rest pos pk Hne Hcw). }
    rewrite firstn_app_le by lia.
    set (bs := firstn (N.to_nat RB) pre).
    assert (length bs = N.to_nat RB) as Hbl by (unfold bs; rewrite firstn_length; lia).
    set (idx := val E bs).
    assert (idx < 2 ^ RB) as Hidx.
    { unfold idx. pose proof (val_bound E bs) as Hb. rewrite Hbl, N2Nat.id in Hb. exact Hb. }
    destruct (nthN_some (t_read_len E t) idx) as [len Hl]; [rewrite H2; exact Hidx|].
    cbn [rrun]. rewrite Hl. cbn [rlift].
    destruct (len =? t_missing E t) eqn:Hm.
    { cbn [rrun]. apply (Hslow pre rest pos (N.max pk RB) Hne Hcw). }
    (* a hit is impossible: a complete codeword would sit inside a proper prefix of a codeword *)
    exfalso.
    destruct (H3 idx len Hl ltac:(lia)) as (v' & Hv' & Hd' & Hle & Hdef).
    assert (field E idx (N.to_nat RB) = bs) as Hf by (unfold idx; rewrite <- Hbl; apply field_val).
    rewrite Hf in Hdef.
    assert (def v' = firstn (N.to_nat len) pre) as Hp.
    { rewrite <- Hdef. unfold bs. apply firstn_firstn_le. lia. }
    assert (exists x, pre = def v' ++ x) as [x Hpre].
    { exists (skipn (N.to_nat len) pre). rewrite Hp. symmetry. apply firstn_skipn. }
    destruct (Hs v Hv false c0 [] 0 0 ltac:(lia)) as [pk1 R1].
    assert (dom v') as Hdv' by (unfold dom; unfold domb in Hd'; lia).
    destruct (Hs v' Hdv' false c0 (x ++ rest) 0 0 ltac:(lia)) as [pk2 R2].
    rewrite app_nil_r, Hcw, Hpre, <- app_assoc, R2 in R1.
    injection R1 as _ Hr' _ _. apply app_eq_nil in Hr' as [_ Hr']. exact (Hne Hr').
  Qed.

  (* ---------------- the codes with table options ---------------- *)
  Variable T : tables.
  Hypothesis Tok : check_tables T = true.

  Lemma TE_gamma_param ut n : n < U64MAX -> gcap T ut <= cap ->
    TE (read_gamma_param E T ut) (def_gamma E n).
  Proof.
    intros Hn Hc. unfold read_gamma_param, gcap in *.
    assert (TE default_read_gamma (def_gamma E n)) as Hslow.
    { apply (TE_okp 0 _ _ n); [apply okp_gamma | apply gamma_rd; exact Hn | lia]. }
    destruct ut; [|exact Hslow].
    apply (TE_table (tg T) (def_gamma E) default_read_gamma 0 n (tbl_g E T Tok)); [|exact Hn|exact Hc|exact Hslow].
    intros w Hw. apply gamma_rd. exact Hw.
  Qed.

  Lemma TE_delta_default ugt n : n < U64MAX -> gcap T ugt <= cap ->
    TE (default_read_delta E T ugt) (def_delta E n).
  Proof.
    intros Hn Hc. unfold default_read_delta, def_delta.
    assert (n + 1 < W64) as H1 by (unfold U64MAX in Hn; unfold W64; lia).
    pose proof (log2_lt_64 (n + 1)) as HL.
    eapply TE_bind.
    - apply (gamma_param_rd E T Tok). unfold U64MAX. lia.
    - exact Hc.
    - apply TE_gamma_param; [unfold U64MAX; lia | exact Hc].
    - apply TE_bits_short; [lia | rewrite LEN_fld; lia].
  Qed.

  Lemma TE_delta_param udt ugt n : n < U64MAX -> dcap T udt ugt <= cap ->
    TE (read_delta_param E T udt ugt) (def_delta E n).
  Proof.
    intros Hn Hc. unfold read_delta_param, dcap in *.
    assert (TE (default_read_delta E T ugt) (def_delta E n)) as Hslow by (apply TE_delta_default; [exact Hn | lia]).
    destruct udt; [|exact Hslow].
    apply (TE_table (td T) (def_delta E) (default_read_delta E T ugt) (gcap T ugt) n (tbl_d E T Tok));
      [|exact Hn|lia|exact Hslow].
    intros w Hw. apply (delta_default_rd E T Tok). exact Hw.
  Qed.

  Lemma TE_zeta3_param (ut : bool) n : n < U64MAX -> (if ut then t_read_bits (tz T) else 0) <= cap ->
    TE (read_zeta3_param E T ut) (cw_zeta E 3 n).
  Proof.
    intros Hn Hc. unfold read_zeta3_param.
    assert (TE (default_read_zeta 3) (cw_zeta E 3 n)) as Hslow.
    { apply (TE_okp 0 _ _ n); [apply okp_zeta | apply zeta_rd; [lia | lia | exact Hn] | lia]. }
    destruct ut; [|exact Hslow].
    apply (TE_table (tz T) (cw_zeta E 3) (default_read_zeta 3) 0 n (tbl_z E T Tok)); [|exact Hn|exact Hc|exact Hslow].
    intros w Hw. apply zeta_rd; [lia | lia | exact Hw].
  Qed.

  Lemma TE_exp_golomb D n k : k < 64 -> n < U64MAX -> gcap T (pr_gamma D) <= cap ->
    TE (read_exp_golomb E T D k) (def_exp_golomb E k n).
  Proof.
    intros Hk Hn Hc. unfold read_exp_golomb, def_exp_golomb. pose proof (pow2_pos k) as Hp.
    assert (n / 2 ^ k <= n) as Hq by (apply N.div_le_upper_bound; nia).
    assert (n / 2 ^ k * 2 ^ k + n mod 2 ^ k = n) as Hdm by (rewrite N.mul_comm; symmetry; apply N.div_mod; lia).
    assert (n < W64) as HnW by (unfold U64MAX in Hn; unfold W64; lia).
    eapply TE_bind.
    - apply (gamma_param_rd E T Tok). lia.
    - exact Hc.
    - apply TE_gamma_param; [lia | exact Hc].
    - rewrite (shl64_ok _ _ Hk) by lia. cbn [rlift].
      apply TE_bits_short; [lia | rewrite LEN_fld; lia].
  Qed.
End Trunc.

(* ------------------------------------------------------------------ *)
(* all codes, through the selection function the correspondence check executes *)
Lemma TE_sel_okp E D id p fl v cap : valid id p v -> maxcap <= cap ->
  okp 0 (sel_read E D id p fl) -> TE E cap (sel_read E D id p fl) (code_cw E id p v).
Proof.
  intros Hv Hc Hok. destruct (codes_correct E D false id p fl v Hv) as (_ & Hrd & _).
  exact (TE_okp E cap maxcap _ _ v Hok Hrd Hc).
Qed.

Lemma maxcap_z (ut : bool) : (if ut then t_read_bits (tz the_tables) else 0) <= maxcap.
Proof. unfold maxcap. destruct ut; lia. Qed.

Lemma TE_sel E D id p fl v cap : valid id p v -> maxcap <= cap ->
  TE E cap (sel_read E D id p fl) (code_cw E id p v).
Proof.
  pose proof the_tables_ok as Tok.
  intros Hv Hc. pose proof Hv as H. unfold valid in H.
  destruct H as [[-> H]|[[-> H]|[[-> H]|[[-> H]|[[-> H]|[[-> H]|[[-> H]|[[-> H]|[[-> H]|[[-> H]|[[-> H]|[[-> H]|[-> H]]]]]]]]]]]]].
  - apply TE_sel_okp; [exact Hv | exact Hc |]. cbn [sel_read]. apply okp_unary_code.
  - cbn [sel_read code_cw]. unfold read_gamma.
    destruct (fl =? 4); (apply (TE_gamma_param E cap the_tables Tok); [exact H|]);
      (eapply N.le_trans; [apply maxcap_g | exact Hc]).
  - cbn [sel_read code_cw]. unfold read_delta.
    destruct (fl =? 4); (apply (TE_delta_param E cap the_tables Tok); [exact H|]);
      (eapply N.le_trans; [apply maxcap_d | exact Hc]).
  - apply TE_sel_okp; [exact Hv | exact Hc |]. cbn [sel_read]. apply okp_omega.
  - apply TE_sel_okp; [exact Hv | exact Hc |]. cbn [sel_read]. apply okp_vbyte_be.
  - apply TE_sel_okp; [exact Hv | exact Hc |]. cbn [sel_read]. apply okp_vbyte_le.
  - apply TE_sel_okp; [exact Hv | exact Hc |]. cbn [sel_read]. apply okp_zeta.
  - apply TE_sel_okp; [exact Hv | exact Hc |]. cbn [sel_read]. apply okp_pi.
  - apply TE_sel_okp; [exact Hv | exact Hc |]. cbn [sel_read]. apply okp_golomb.
  - destruct H as (H1 & H2). cbn [sel_read code_cw].
    apply (TE_exp_golomb E cap the_tables Tok); [lia | exact H2 |].
    eapply N.le_trans; [apply maxcap_g | exact Hc].
  - apply TE_sel_okp; [exact Hv | exact Hc |]. cbn [sel_read]. apply okp_rice.
  - apply TE_sel_okp; [exact Hv | exact Hc |]. cbn [sel_read]. apply okp_mb.
  - cbn [sel_read code_cw]. unfold read_zeta3.
    destruct (fl =? 4); (apply (TE_zeta3_param E cap the_tables Tok); [exact H|]);
      (eapply N.le_trans; [apply maxcap_z | exact Hc]).
Qed.

(* C09 for the codes: a truncated codeword on a strict stream is an error *)
Theorem truncated_code_err : forall E D id p fl v cap pos pk (pre : bits),
  valid id p v -> maxcap <= cap ->
  (exists rest, rest <> [] /\ code_cw E id p v = pre ++ rest) ->
  rrun (sprims E true cap) (sel_read E D id p fl) (mkr pre pos pk) = Err.
Proof.
  intros E D id p fl v cap pos pk pre Hv Hc (rest & Hne & Hcw).
  exact (TE_sel E D id p fl v cap Hv Hc pre rest pos pk Hne Hcw).
Qed.

Theorem truncated_never_value : forall E D id p fl v cap pos pk (pre : bits),
  valid id p v -> maxcap <= cap ->
  (exists rest, rest <> [] /\ code_cw E id p v = pre ++ rest) ->
  forall v' s', rrun (sprims E true cap) (sel_read E D id p fl) (mkr pre pos pk) <> Ok (v', s').
Proof.
  intros E D id p fl v cap pos pk pre Hv Hc Hpre v' s'.
  rewrite (truncated_code_err E D id p fl v cap pos pk pre Hv Hc Hpre). discriminate.
Qed.

(* the hypotheses are satisfiable: little-endian delta with both tables, value 1000, the first 7
   bits of its 16-bit codeword (the complete gamma prefix fits, the 9-bit tail is cut) *)
Example truncated_hyps_sat :
  valid 2 0 1000 /\ maxcap <= 64 /\
  (exists rest, rest <> [] /\ code_cw LE 2 0 1000 = firstn 7 (code_cw LE 2 0 1000) ++ rest).
Proof.
  split; [right; right; left; split; [reflexivity | unfold U64MAX; lia]|].
  split; [vm_compute; discriminate|].
  exists (skipn 7 (code_cw LE 2 0 1000)). split; [vm_compute; discriminate|].
  symmetry. apply firstn_skipn.
Qed.
Example truncated_delta_1000 :
  rrun (sprims LE true 64) (sel_read LE buf_params 2 0 3) (mkr (firstn 7 (code_cw LE 2 0 1000)) 0 0) = Err.
Proof. vm_compute. reflexivity. Qed.
Example truncated_delta_1000_thm :
  rrun (sprims LE true 64) (sel_read LE buf_params 2 0 3) (mkr (firstn 7 (code_cw LE 2 0 1000)) 5 0) = Err.
Proof.
  destruct truncated_hyps_sat as (Hv & Hc & Hp).
  exact (truncated_code_err LE buf_params 2 0 3 1000 64 5 0 _ Hv Hc Hp).
Qed.
