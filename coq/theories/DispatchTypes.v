(* DispatchTypes.v — vocabulary shared by the translator output (gen/*.v) and the
   dispatch model: code kinds (trait methods), enum variants, match arms. *)
From DSI Require Export Base.
From Coq Require Export String.

(* a method family of the code traits *)
Inductive kind :=
| KUnary | KGamma | KDelta | KOmega | KVByteBe | KVByteLe
| KZeta | KZeta3 | KPi | KGolomb | KExpGolomb | KRice
| KVByteAny.  (* `bit_len_vbyte`: the one length function shared by both VByte variants *)

(* a variant of `enum Codes` *)
Inductive variant :=
| VUnary | VGamma | VDelta | VOmega | VVByteLe | VVByteBe
| VZeta | VPi | VGolomb | VExpGolomb | VRice.

Definition kind_eqb (a b : kind) : bool :=
  match a, b with
  | KUnary, KUnary | KGamma, KGamma | KDelta, KDelta | KOmega, KOmega
  | KVByteBe, KVByteBe | KVByteLe, KVByteLe | KZeta, KZeta | KZeta3, KZeta3
  | KPi, KPi | KGolomb, KGolomb | KExpGolomb, KExpGolomb | KRice, KRice
  | KVByteAny, KVByteAny => true
  | _, _ => false
  end.

Definition variant_eqb (a b : variant) : bool :=
  match a, b with
  | VUnary, VUnary | VGamma, VGamma | VDelta, VDelta | VOmega, VOmega
  | VVByteLe, VVByteLe | VVByteBe, VVByteBe | VZeta, VZeta | VPi, VPi
  | VGolomb, VGolomb | VExpGolomb, VExpGolomb | VRice, VRice => true
  | _, _ => false
  end.

Definition has_param (v : variant) : bool :=
  match v with VZeta | VPi | VGolomb | VExpGolomb | VRice => true | _ => false end.

(* a value of `enum Codes`; cparam is 0 for parameterless variants *)
Record code := { cvar : variant; cparam : N }.
Definition code_eqb (a b : code) : bool :=
  variant_eqb (cvar a) (cvar b) && (cparam a =? cparam b).

(* a call `reader.read_xxx(arg)` / `writer.write_xxx(value, arg)` / `len_xxx(value, arg)` *)
Record call := { ckind : kind; carg : N }.
Definition call_eqb (a b : call) : bool := kind_eqb (ckind a) (ckind b) && (carg a =? carg b).

(* where the argument of the call comes from: a literal, or the variant's bound field *)
Inductive argsrc := ALit (n : N) | ABind.

(* one arm of a `match self { Codes::V { k: LIT } | Codes::V { k } => call }` *)
Record arm := { a_var : variant; a_pat : option N; a_kind : kind; a_arg : argsrc }.

Definition arm_matches (a : arm) (c : code) : bool :=
  variant_eqb (a_var a) (cvar c) &&
  match a_pat a with Some l => l =? cparam c | None => true end.

Fixpoint find_arm (arms : list arm) (c : code) : option call :=
  match arms with
  | [] => None
  | a :: r => if arm_matches a c
              then Some {| ckind := a_kind a;
                           carg := match a_arg a with ALit n => n | ABind => cparam c end |}
              else find_arm r c
  end.

(* association lists keyed by N / string *)
Fixpoint assocN {A} (l : list (N * A)) (k : N) : option A :=
  match l with [] => None | (k', a) :: r => if k' =? k then Some a else assocN r k end.
Fixpoint assocS {A} (l : list (string * A)) (k : string) : option A :=
  match l with [] => None | (k', a) :: r => if String.eqb k' k then Some a else assocS r k end.

(* `match code { Codes::V { k: LIT } => Self::CONST, ... , _ => bail }` *)
Record narm := { n_var : variant; n_pat : option N; n_const : string }.
Fixpoint find_narm (arms : list narm) (c : code) : option string :=
  match arms with
  | [] => None
  | a :: r => if variant_eqb (n_var a) (cvar c) &&
                 match n_pat a with Some l => l =? cparam c | None => true end
              then Some (n_const a) else find_narm r c
  end.
